"""C06 — successful hashes are well-formed passwd(5)-safe strings of the method's shape."""
import re
from checks.common import *
from checks import cryptstream as CS, settings as S

B64 = rb"[./0-9A-Za-z]"
# field structure per method, written from crypt(5) (salt length ranges are what the quantifier of C06 includes:
# empty, maximal, '$' where allowed); digest lengths are the documented fixed ones
SHAPE = {
    "yescrypt": rb"\$y\$" + B64 + rb"+\$" + B64 + rb"{0,86}\$" + B64 + rb"{43}",
    "gost_yescrypt": rb"\$gy\$" + B64 + rb"+\$" + B64 + rb"{0,86}\$" + B64 + rb"{43}",
    "scrypt": rb"\$7\$" + B64 + rb"{11}[./0-9A-Za-z$]*\$" + B64 + rb"{43}",
    "bcrypt": rb"\$2b\$[0-9]{2}\$" + B64 + rb"{53}", "bcrypt_a": rb"\$2a\$[0-9]{2}\$" + B64 + rb"{53}",
    "bcrypt_x": rb"\$2x\$[0-9]{2}\$" + B64 + rb"{53}", "bcrypt_y": rb"\$2y\$[0-9]{2}\$" + B64 + rb"{53}",
    "sha512crypt": rb"\$6\$(rounds=[1-9][0-9]+\$)?[^$:\n]{0,16}\$" + B64 + rb"{86}",
    "sha256crypt": rb"\$5\$(rounds=[1-9][0-9]+\$)?[^$:\n]{0,16}\$" + B64 + rb"{43}",
    "sha1crypt": rb"\$sha1\$[0-9]+\$" + B64 + rb"+\$" + B64 + rb"{28}",
    # the tag is followed by '$' or ',' (both accepted for bug-compatibility with Solaris), an optional rounds field, the salt
    "sunmd5": rb"\$md5[,$](rounds=[1-9][0-9]*\$)?" + B64 + rb"*\${1,2}" + B64 + rb"{22}",
    "md5crypt": rb"\$1\$[^$:\n]{0,8}\$" + B64 + rb"{22}",
    "nt": rb"\$3\$\$[0-9a-f]{32}",
    "bsdicrypt": rb"_" + B64 + rb"{19}",
    "descrypt": B64 + rb"{13}",
    "bigcrypt": B64 + rb"{2}(" + B64 + rb"{11}){1,16}",
}
SHAPE = {k: re.compile(v, re.S) for k, v in SHAPE.items()}
TOTAL = {"descrypt": 13, "bsdicrypt": 20, "bcrypt": 60, "bcrypt_a": 60, "bcrypt_x": 60, "bcrypt_y": 60, "nt": 36}

def well_formed(m, H, setting):
    if len(H) >= 384: return "not shorter than CRYPT_OUTPUT_SIZE"
    if not passwd_safe(H): return "contains a character that is not passwd(5)-safe"
    if H.startswith(b"*"): return "begins with '*'"
    shape = SHAPE[m]
    if m in ("descrypt", "bigcrypt"):
        if not (SHAPE["descrypt"].fullmatch(H) or SHAPE["bigcrypt"].fullmatch(H)): return "does not have the DES-family shape"
        if H[:2] != setting[:2]: return "does not begin with the salt of the setting"
    else:
        if not shape.fullmatch(H): return "does not have the documented field structure / digest length of " + m
        pfx = PREFIXES[m]
        if not (H.startswith(pfx) and setting.startswith(pfx)): return "does not begin with the method prefix of the setting"
    if m in TOTAL and len(H) != TOTAL[m]: return "total length is not %d" % TOTAL[m]
    return None

def run(R):
    ok, badthm = R.prove()
    quick = R.tier == "quick"
    ops, meta = CS.gen_stream(R, 2500 if quick else 60000, entries=("rn", "r"), big_frac=0.06)
    # results at the limit of the output field (seeded/C06b): see cryptstream.limit_sweep
    lo, lm = CS.limit_sweep(R, quick); ops += lo; meta += lm
    # fixed structural corpus, whatever the seed: every method's canonical setting with each spelling of what may follow the salt - nothing, `$`,
    # `$$`, an extra `$`-separated field of alphabet / of other passwd-safe characters, a complete hash followed by more text - and the complete
    # hash of the bare setting; whatever succeeds must have the documented shape (seeded/C06c was caught or missed depending on the seed)
    digest_len = {"yescrypt": 43, "gost_yescrypt": 43, "scrypt": 43, "sha512crypt": 86, "sha256crypt": 43, "sha1crypt": 28, "sunmd5": 22, "md5crypt": 22, "nt": 32,
                  "bsdicrypt": 11, "descrypt": 11, "bigcrypt": 11, "bcrypt": 31, "bcrypt_a": 31, "bcrypt_x": 31, "bcrypt_y": 31}
    for m in S.METHODS:
        base = S.CANON[m]
        fake = S.rs(R.rng, S.A64, digest_len[m])
        for tail in (b"", b"$", b"$$", b"$x", b"$" + fake, b"$" + fake + b"$", b"$" + fake + b"$x", b"$$" + fake, b"$#junk%,(x)$", b"$abc$def$", b"$" + fake + b"x", fake):
            ops.append(CS.crypt_op(R.rng.choice(["rn", "r"]), 0, b"pw", base + tail)); meta.append((m, "structure:" + ("bare" if not tail else "tail"), 2, len(base) + len(tail)))
    # printable characters outside every method's alphabets (and outside the five the generic filter refuses) at every position of a canonical
    # setting: what a method's own validation lets through ends up verbatim in its result (seeded/C06f: bsdicrypt accepting `^` in a salt position)
    odd = [c for c in range(0x21, 0x7f) if not chr(c).isalnum() and c not in b"./$!*:;\\"]
    for m in S.METHODS:
        muts = S.mutations(S.CANON[m], S.CANON_DANGER.get(m, []), values=odd)
        cheap = m in ("descrypt", "bigcrypt", "bsdicrypt", "md5crypt", "nt")
        # (a changed tag character may select another method - `_b............` is a bsdicrypt setting - such settings belong to that method's stream)
        muts = [st for st in muts if CS.method_of(st) == CS.method_of(S.CANON[m])]
        for st in (muts if (cheap or not quick) else R.rng.sample(muts, min(len(muts), 40))):
            ops.append(CS.crypt_op(R.rng.choice(["rn", "r"]), 0, b"pw", st)); meta.append((m, "odd-character", 2, len(st)))
    ops, meta, il, ml = CS.run_budgeted(R, ops, meta, group_starts=list(range(len(ops))))
    diffs = compare(R, ops, il, ml, CS.proj_crypt, "hash shape")
    bad = []
    # digit-count classes of the cost field that the compute budget keeps away from the model: the cheapest member of the class "nine-digit rounds"
    # costs ~30 s of SHA-crypt, so these few run on the implementation only, in parallel, and go through the same recogniser / re-acceptance oracle
    # (seeded/C06: a formatting slip that only shows with a 9-digit round count)
    import concurrent.futures
    exp = [("sha256crypt", b"$5$rounds=100000000$saltsalt"), ("sha512crypt", b"$6$rounds=100000000$s")]
    if not quick: exp += [("sha256crypt", b"$5$rounds=999999999$saltsaltsaltsalt"), ("sha512crypt", b"$6$rounds=999999999$saltsaltsaltsalt$")]
    exp_ops = [CS.crypt_op("rn", 0, b"", st) for _, st in exp]
    exe = R.harness()
    def one(o):
        import subprocess
        return subprocess.run([exe], input=o + "\n", text=True, capture_output=True, timeout=3000).stdout.splitlines()[0]
    with concurrent.futures.ThreadPoolExecutor(len(exp_ops)) as ex:
        exp_lines = list(ex.map(one, exp_ops))
    for (m, st), o, l in zip(exp, exp_ops, exp_lines):
        if fields(l).get("ret") == "NULL": bad.append((o, "a valid %s setting with a nine-digit round count was rejected" % m, l))
        ops.append(o); meta.append((m, "nine-digit-rounds", 0, len(st))); il.append(l); ml.append(l)
    R.cov["implementation_only_expensive_ops"] = len(exp_ops)
    ops2, info = [], []
    nsucc = 0
    for op, m, line in zip(ops, meta, il):
        f = fields(line)
        if f.get("ret") != "NULL" and f.get("out") == "unterminated":
            bad.append((op, "the call reports success but the output field holds no NUL-terminated string (the result is not shorter than CRYPT_OUTPUT_SIZE)", line)); continue
        if f.get("app") == "0":
            bad.append((op, "the call modified the application-owned fields of the data object (a terminator written past the output field)", line))
        if f.get("ret") == "NULL" or f.get("out", "2a").startswith("2a") or f.get("out") in ("?", "unterminated"): continue
        nsucc += 1
        H = unhx(f["out"]); setting = unhx(op.split(" ")[4])
        why = well_formed(m[0], H, setting)
        if why: bad.append((op, "result %r %s" % (H, why), line))
        # accepted as a setting again (checksalt) and as a gensalt prefix selecting the same method
        ops2.append("K " + hx(H)); info.append(("checksalt", m[0], H))
        ops2.append("G rn %s 0 %s 64 192" % (hx(H), hx(bytes(R.rng.randrange(256) for _ in range(64))))); info.append(("gensalt", m[0], H))
    il2, ml2, _ = R.run_pair(ops2)
    def proj2(op, a, b):
        if op.startswith("K "): return None if a == b else "checksalt differs"
        return None if (a.get("ret"), a.get("errno")) == (b.get("ret"), b.get("errno")) else "gensalt differs"
    diffs += compare(R, ops2, il2, ml2, proj2, "result re-accepted")
    for op, (kind, m, H), line in zip(ops2, info, il2):
        f = fields(line)
        if kind == "checksalt" and f.get("status") == "1":
            bad.append((op, "a produced hash is INVALID for crypt_checksalt: %r" % H, line))
        if kind == "gensalt":
            if f.get("ret") == "NULL":
                if not (m == "bcrypt_x" and f.get("errno") == "EINVAL"):
                    bad.append((op, "a produced hash is not accepted as crypt_gensalt prefix (%s): %r" % (f.get("errno"), H), line))
            else:
                S2 = unhx(f["ret"])
                pfx = PREFIXES.get(m, b"") if m not in ("descrypt", "bigcrypt") else b""
                if not S2.startswith(pfx) or (CS.method_of(S2) not in (m, "des-family")):
                    bad.append((op, "gensalt with the produced hash as prefix selects another method: %r -> %r" % (H, S2), line))
    R.cov["evaluations"] = len(ops) + len(ops2)
    R.cov["distinct_nontrivial"] = nsucc
    R.cov["rule"] = ("grammar-shaped settings for all methods x phrases; every successful result is matched against a per-method recogniser written from "
                     "crypt(5), then passed to crypt_checksalt and used as crypt_gensalt prefix; plus (implementation only) the cheapest settings with a nine-digit "
                     "rounds field for sha256crypt/sha512crypt; non-trivial = successful hashes")
    CS.dist_cov(R, meta, il); CS.sample_cov(R, ops, il, ml)
    CS.finish_proof(R, ok, badthm, bad, diffs, "hash shape")

def replay(R, j):
    op = (j.get("failing_input") or {}).get("op")
    if not op: print("no concrete op; unproved:", j.get("unproved")); return 2
    il = R.run_impl([op]); print(op); print(il[0]); return 0

"""C08 — re-entrant interfaces are thread-safe."""
from checks.common import *
from checks import cryptstream as CS, settings as S
from checks.cryptstream import finish_proof

def batch(R, k):
    ops = []
    for _ in range(k):
        r = R.rng.random()
        if r < 0.55:
            m = R.rng.choice(S.METHODS)
            st = S.CANON[m] if R.rng.random() < 0.6 else S.gen_setting(R.rng, m)[0]
            if m in ("scrypt", "yescrypt", "gost_yescrypt") and st != S.CANON[m]: st = S.CANON[m]
            ops.append(CS.crypt_op(R.rng.choice(["r", "rn"]), R.rng.randrange(3), S.gen_phrase(R.rng, 40), st))
        elif r < 0.8:
            pfx = R.rng.choice(list(PREFIXES.values()) + [None])
            n = R.rng.choice([16, 32, 64])
            ops.append("G %s %s 0 %s %d 192" % (R.rng.choice(["rn", "ra"]), hx(pfx), hx(bytes(R.rng.randrange(256) for _ in range(n))), n))
        elif r < 0.95:
            ops.append("K " + hx(R.rng.choice(list(S.CANON.values()) + [b"*0", b"$zz$", b"a:b"])))
        else: ops.append("P")
    return ops

def run(R):
    R.with_statics = True
    ok, badthm = R.prove()
    quick = R.tier == "quick"
    ops, plain = [], []
    # a fixed coverage batch first: every method's canonical setting through crypt_r and crypt_rn (all four bcrypt subtypes, the DES family,
    # the yescrypt family), crypt_gensalt_rn/_ra for every prefix and NULL, crypt_checksalt, crypt_preferred_method - executed by 4 threads at
    # once, so that every re-entrant code path runs concurrently in at least two threads whatever the seed (ThreadSanitizer then reports any
    # write to shared storage, independent of timing)
    cover = []
    for m in S.METHODS:
        for e in ("r", "rn"):
            cover.append(CS.crypt_op(e, 0, b"thread-safety", S.CANON[m]))
    for pfx in list(PREFIXES.values()) + [None]:
        for e in ("rn", "ra"):
            cover.append("G %s %s 0 %s 32 192" % (e, hx(pfx), hx(bytes(range(32)))))
    cover += ["K " + hx(S.CANON[m]) for m in S.METHODS] + ["P", "K 2a30"]
    for nt in (4, 8, 2, 16):      # repeated: ThreadSanitizer's shadow state is finite, one pass can miss a race the next one reports
        ops += ["MT %d %d" % (nt, len(cover))] + cover
    plain += cover
    for i in range(12 if quick else 200):
        k = R.rng.randrange(5, 40); n = R.rng.choice([2, 3, 4, 8, 16])
        b = batch(R, k)
        ops += ["MT %d %d" % (n, k)] + b
        plain += b
    # 0. when the import audit (theorem C08_imports) no longer checks, name the offending call: a concrete static witness
    early_bad = []
    if not ok and any("C08_imports" in t for t in badthm):
        import re, os
        ld = R.lean_prepare()
        safe = set(re.findall(r'"([A-Za-z_0-9]+)"', open(os.path.join(ld, "Xc/Thm/C08.lean")).read().split("def mtSafe")[1].split("]")[0]))
        for fn, lst in re.findall(r'\[([^\]]*)\] /- ([A-Za-z_0-9]+) -/', open(os.path.join(ld, "Xc/Gen/Statics.lean")).read().split("def st_ext")[1].split("def ")[0]):
            for e in re.findall(r'"([A-Za-z_0-9]+)"', fn):
                if e not in safe:
                    early_bad.append(("CALL %s -> %s" % (lst, e), "the library function %s calls %s, which is not on the list of MT-safe external functions "
                                      "(state inside libc shared between threads); the function is reachable from the re-entrant entry points per theorem C08_imports" % (lst, e), ""))
    if not ok and any("C08_footprint" in t or "C08_closure" in t for t in badthm):
        # name the writer: functions of the regenerated table that may write a static object (the comment of each row lists the objects); the
        # theorem says one of them is reachable from a re-entrant entry point
        import re, os
        ld = R.lean_prepare()
        ref = open(os.path.join(os.path.dirname(os.path.abspath(__file__)), "..", "lean", "Xc", "Gen", "Statics.lean")).read()
        known = set(re.findall(r"/- \d+ (\w+) writes ([^ ]+) -/", ref))
        for fn, objs in re.findall(r"/- \d+ (\w+) writes ([^ ]+) -/", open(os.path.join(ld, "Xc/Gen/Statics.lean")).read()):
            if (fn, objs) not in known:
                early_bad.append(("WRITE %s -> %s" % (fn, objs), "the library function %s now writes the static object(s) %s (not so in the reference analysis of the unchanged tree) "
                                  "and theorem C08_footprint - no function reachable from the re-entrant entry points writes static storage - no longer checks" % (fn, objs), ""))
    # 1b. DIFFERENT requests per thread, one method at a time, repeated: state shared outside the caller's objects - including state inside libc,
    #     which ThreadSanitizer does not instrument (a helper that returns a pointer to a static libc buffer: seeded/C08c) - makes a thread's
    #     transcript differ from the one it produces alone.  Run in the plain (uninstrumented, fast) build so that the threads really overlap.
    dops = []
    NT = 8
    for m in S.METHODS:
        if m in ("scrypt", "yescrypt", "gost_yescrypt", "sunmd5") and quick: rep = 3
        else: rep = 40 if quick else 400
        per = []
        for t in range(NT):
            ph = bytes(R.rng.randrange(1, 256) for _ in range(8 + t))
            per.append([CS.crypt_op("rn" if t % 2 else "r", 0, ph, S.CANON[m])])
        dops += ["MTD %d 1 %d" % (NT, rep)] + [l for p in per for l in p]
    for m, pfx in PREFIXES.items():
        per = []
        for t in range(NT):
            rbt = bytes(R.rng.randrange(256) for _ in range(64))
            per.append(["G %s %s 0 %s 64 192" % ("rn" if t % 2 else "ra", hx(pfx), hx(rbt))])
        dops += ["MTD %d 1 %d" % (NT, 200 if quick else 2000)] + [l for p in per for l in p]
    dout = R.run_impl(dops)
    dmt = [l for l in dout if l.startswith("mt ")]
    # 1. ThreadSanitizer build: N threads execute the same op list on their own objects
    out = R.run_impl(ops, variant="tsan", env={"TSAN_OPTIONS": "halt_on_error=0 exitcode=66 report_signal_unsafe=0"})
    err = R.last_impl_stderr
    bad = list(early_bad)
    mt = [l for l in out if l.startswith("mt ")]
    nmt = sum(1 for o in ops if o.startswith("MT "))
    if "WARNING: ThreadSanitizer" in err:
        import re
        m = re.search(r"WARNING: ThreadSanitizer: (.*?)\n(.*?)\n\n", err, re.S)
        bad.append(("MT batch", "ThreadSanitizer reports: " + (m.group(1) if m else "data race") + " | " + (m.group(2)[:600].replace("\n", " / ") if m else ""), err[:1500]))
    if len(mt) != nmt:
        bad.append(("MT batch", "the multi-threaded run did not complete (%d of %d batches; rc=%s)" % (len(mt), nmt, R.last_impl_rc), err[-800:]))
    heads = [o for o in dops if o.startswith("MTD ")]
    if len(dmt) != len(heads):
        bad.append(("MTD batches", "the multi-threaded differential run did not complete (%d of %d; rc=%s)" % (len(dmt), len(heads), R.last_impl_rc), R.last_impl_stderr[-500:]))
    di = 0
    for i, o in enumerate(dops):
        if not o.startswith("MTD "): continue
        l = dmt[di] if di < len(dmt) else None; di += 1
        if l and fields(l)["equal"] != "1":
            nt_, k_, rep_ = [int(x) for x in o.split(" ")[1:4]]
            bad.append((o + " ; " + " ; ".join(dops[i + 1:i + 1 + nt_ * k_]), "a thread's results differ from what the same calls return when that thread runs alone "
                        "(thread %s of %d, each with its own request and objects, %d repetitions)" % (fields(l)["firstdiff"], nt_, rep_), l))
    threads = 0
    for l in mt:
        f = fields(l); threads += int(f["threads"])
        if f["equal"] != "1":
            bad.append((l, "a thread's results differ from the sequential results of the same calls (thread %s)" % f["firstdiff"], l))
    # 2. the sequential semantics of the same calls agree with the model (plain build)
    il, ml, _ = R.run_pair(plain)
    def proj(op, a, b):
        if op.startswith("C "): return CS.proj_crypt(op, a, b)
        if op.startswith("G "): return None if (a.get("ret"), a.get("errno")) == (b.get("ret"), b.get("errno")) else "gensalt differs"
        return None if a == b else "differs"
    diffs = compare(R, plain, il, ml, proj, "sequential semantics of the concurrent batches")
    R.cov["evaluations"] = len(plain)
    R.cov["distinct_nontrivial"] = len(set(plain))
    R.cov["thread_runs"] = threads
    R.cov["differential_batches"] = len(heads)
    R.cov["rule"] = ("a fixed coverage batch (all 16 methods x crypt_r/crypt_rn, gensalt_rn/_ra for every prefix, checksalt, preferred method) by 4 threads, then batches of 5..40 mixed calls (crypt_r, crypt_rn, crypt_gensalt_rn, crypt_gensalt_ra, crypt_checksalt, crypt_preferred_method over all methods) executed by "
                     "2..16 threads concurrently in a ThreadSanitizer build, each thread on its own objects; every thread's transcript is compared with the sequential "
                     "one; the footprint theorem is re-decided over the call graph regenerated from the clang AST")
    R.cov["samples"] = [{"op": plain[i][:160], "impl": il[i][:160]} for i in R.rng.sample(range(len(plain)), 3)] + [{"mt": mt[:3]}]
    finish_proof(R, ok, badthm, bad, diffs, "thread safety")

def replay(R, j):
    print("replay: failing input:", j.get("failing_input")); return 2

"""C16 — digest/MAC/KDF primitives are the standard functions for all lengths, chunkings."""
import hashlib, hmac as pyhmac, struct
from checks.common import *
from checks.cryptstream import finish_proof
from checks import pystreebog

def md4(msg):
    """RFC 1320, straightforward independent implementation"""
    def rl(x, n): x &= 0xffffffff; return ((x << n) | (x >> (32 - n))) & 0xffffffff
    a, b, c, d = 0x67452301, 0xefcdab89, 0x98badcfe, 0x10325476
    ml = len(msg); msg = msg + b"\x80" + b"\0" * ((55 - ml) % 64) + struct.pack("<Q", ml * 8)
    for off in range(0, len(msg), 64):
        X = struct.unpack("<16I", msg[off:off + 64]); aa, bb, cc, dd = a, b, c, d
        F = lambda x, y, z: (x & y) | (~x & z); G = lambda x, y, z: (x & y) | (x & z) | (y & z); H = lambda x, y, z: x ^ y ^ z
        for i in range(16):
            k = i; s = [3, 7, 11, 19][i % 4]
            t = rl(a + F(b, c, d) + X[k], s); a, b, c, d = d, t, b, c
        for i in range(16):
            k = (i % 4) * 4 + i // 4; s = [3, 5, 9, 13][i % 4]
            t = rl(a + G(b, c, d) + X[k] + 0x5a827999, s); a, b, c, d = d, t, b, c
        for i in range(16):
            k = [0, 8, 4, 12, 2, 10, 6, 14, 1, 9, 5, 13, 3, 11, 7, 15][i]; s = [3, 9, 11, 15][i % 4]
            t = rl(a + H(b, c, d) + X[k] + 0x6ed9eba1, s); a, b, c, d = d, t, b, c
        a, b, c, d = (a + aa) & 0xffffffff, (b + bb) & 0xffffffff, (c + cc) & 0xffffffff, (d + dd) & 0xffffffff
    return struct.pack("<4I", a, b, c, d)

STD = {"md4": md4, "md5": lambda m: hashlib.md5(m).digest(), "sha1": lambda m: hashlib.sha1(m).digest(),
       "sha256": lambda m: hashlib.sha256(m).digest(), "sha512": lambda m: hashlib.sha512(m).digest()}
# RFC 6986 / GOST R 34.11-2012 examples (message M1, given there most-significant byte first)
GOST_KAT = [(b"012345678901234567890123456789012345678901234567890123456789012",
             "9d151eefd8590b89daa6ba6cb74af9275dd051026bb149a452fd84e5e57b5500",
             "1b54d01a4af5b9d5cc3d86d68d285462b19abc2475222f35c085122be4ba1ffa00ad30f8767b3a82384c6574f024c311e2a481332b08ef7f41797891c1646f48")]

def run(R):
    ok, badthm = R.prove()
    quick = R.tier == "quick"
    ops, want = [], []
    def add(op, w): ops.append(op); want.append(w)
    # Streebog oracle: independent structure, exact integer arithmetic, tables as printed from the tree, validated by RFC 6986 / RFC 7836
    R.lean_prepare()
    sb = pystreebog.from_genvals(R.genvals)
    std = dict(STD)
    if sb is not None and sb.self_test():
        std["gost256"] = lambda m: sb.digest(m, 256); std["gost512"] = lambda m: sb.digest(m, 512)
        R.cov["streebog_oracle"] = "python, tables from the tree, RFC vectors pass"
    else:
        R.cov["streebog_oracle"] = "unavailable (tables missing or RFC vectors fail): Streebog decided by model correspondence and vectors only"
    maxlen = 300 if quick else 1100
    lens = sorted(set(list(range(0, 140)) + [n + d for n in range(128, maxlen + 1, 64) for d in (-9, -8, -1, 0, 1, 47, 55, 56, 57)] + list(range(maxlen - 3, maxlen + 1))))
    if not quick: lens = list(range(0, maxlen + 1))
    for alg in ["md4", "md5", "sha1", "sha256", "sha512", "gost256", "gost512"]:
        for n in lens:
            msg = bytes(R.rng.randrange(256) for _ in range(n))
            w = std[alg](msg).hex() if alg in std else None
            add("H %s %d %s" % (alg, R.rng.randrange(16), hx(msg)), w)
            # two-way splits (all in thorough, sampled in quick), random multi-way splits
            splits = range(0, n + 1) if (not quick and n <= 300) else sorted({R.rng.randrange(0, n + 1) for _ in range(4)} | {0, n, n // 2, min(n, 64), min(n, 63), max(0, n - 64)})
            for k in splits:
                add("H %s %d %s %s" % (alg, R.rng.randrange(16), hx(msg[:k]), hx(msg[k:])), w)
            for _ in range(2):
                cuts = sorted(R.rng.randrange(0, n + 1) for _ in range(R.rng.randrange(2, 12)))
                parts = [msg[a:b] for a, b in zip([0] + cuts, cuts + [n])]
                add("H %s %d %s" % (alg, R.rng.randrange(16), " ".join(hx(p) for p in parts)), w)
    # arithmetic-edge messages: 8-byte words drawn from all-ones / all-zero / top-bit / low-bit patterns, so that carries run through
    # whole words of the 512-bit checksum (Streebog) and the additions modulo 2^32 / 2^64 of the other digests see extreme operands (seeded/C16)
    EDGE = [b"\xff" * 8, b"\xff" * 8, b"\x00" * 8, b"\x80" + b"\x00" * 7, b"\x00" * 7 + b"\x80", b"\x01" + b"\x00" * 7, b"\xfe" + b"\xff" * 7, b"\xff" * 7 + b"\x7f"]
    for alg in ["md4", "md5", "sha1", "sha256", "sha512", "gost256", "gost512"]:
        for k in range(40 if quick else 400):
            nw = R.rng.choice([8, 16, 16, 17, 24, 32, 40]); tail = R.rng.randrange(0, 8)
            if k < 6: msg = b"\xff" * [64, 127, 128, 129, 192, 256][k]
            else: msg = b"".join(R.rng.choice(EDGE) if R.rng.random() < 0.85 else bytes(R.rng.randrange(256) for _ in range(8)) for _ in range(nw)) + b"\xff" * tail
            w = std[alg](msg).hex() if alg in std else None
            cut = R.rng.randrange(0, len(msg) + 1)
            add("H %s %d %s" % (alg, R.rng.randrange(16), hx(msg)), w)
            add("H %s %d %s %s" % (alg, R.rng.randrange(16), hx(msg[:cut]), hx(msg[cut:])), w)
    for msg, d256, d512 in GOST_KAT:
        add("H gost256 0 " + hx(msg), d256); add("H gost512 0 " + hx(msg), d512)
    for kl in (range(0, 201) if not quick else list(range(0, 70)) + [100, 127, 128, 129, 200]):
        key = bytes(R.rng.randrange(256) for _ in range(kl)); text = bytes(R.rng.randrange(256) for _ in range(R.rng.randrange(0, 200)))
        add("HM sha1 %s %s" % (hx(key), hx(text)), pyhmac.new(key, text, hashlib.sha1).hexdigest())
        add("HM sha256 %s %s" % (hx(key), hx(text)), pyhmac.new(key, text, hashlib.sha256).hexdigest())
        if 32 <= kl <= 64:
            add("HM gost256 %s %s" % (hx(key), hx(text)), sb.hmac256(key, text).hex() if "gost256" in std else None)
            ek = b"\xff" * kl; et = b"\xff" * R.rng.choice([64, 128, 130, 200])
            add("HM gost256 %s %s" % (hx(ek), hx(et)), sb.hmac256(ek, et).hex() if "gost256" in std else None)
    add("HM gost256 000102030405060708090a0b0c0d0e0f101112131415161718191a1b1c1d1e1f 0126bdb87800af214341456563780100",
        "a1aa5f7de402d7b3d323f2991c8d4534013137010a83754fd0af6d7cd4922ed9")     # RFC 7836 / R 50.1.113-2016
    for dk in (range(1, 101) if not quick else [1, 2, 31, 32, 33, 63, 64, 65, 96, 100]):
        for c in ([1, 1, 2, 3, 50] if quick else [1, 1, 1, 2, 3, 7, 50]):
            pw = bytes(R.rng.randrange(256) for _ in range(R.rng.randrange(0, 100)))
            salt = bytes(R.rng.randrange(256) for _ in range(R.rng.choice([0, 1, 8, 16, 51, 52, 55, 56, 63, 64, 115, 116, 128, R.rng.randrange(0, 200)])))
            add("PB %s %s %d %d" % (hx(pw), hx(salt), c, dk), hashlib.pbkdf2_hmac("sha256", pw, salt, c, dk).hex())
    # the c == 1 fast path: dkLen % 32 == 0 and saltlen % 64 <= 51
    for sl in range(0, 135):
        pw = bytes(R.rng.randrange(256) for _ in range(R.rng.randrange(0, 100))); salt = bytes(R.rng.randrange(256) for _ in range(sl))
        for dk in (32, 64, 128):
            add("PB %s %s 1 %d" % (hx(pw), hx(salt), dk), hashlib.pbkdf2_hmac("sha256", pw, salt, 1, dk).hex())
    groups = [ops[i:i + 200] for i in range(0, len(ops), 200)]
    _, il, ml = R.run_pair_sharded(groups)
    def proj(op, a, b):
        if b.get("d") == "unmodelled": return None
        return None if a.get("d") == b.get("d") else "digest differs"
    diffs = compare(R, ops, il, ml, proj, "primitives")
    bad = []
    for op, w, line in zip(ops, want, il):
        f = fields(line)
        if w is not None and f.get("d") != w:
            bad.append((op, "result %s differs from the standard function (%s)" % (f.get("d"), w), line))
        if op.startswith("H ") and f.get("ctxzero") != "1":
            bad.append((op, "context not erased by the final call", line))
        if f.get("d") == "NOTWIPED": bad.append((op, "gost_hmac256 left its buffer unerased", line))
    R.cov["evaluations"] = len(ops)
    R.cov["distinct_nontrivial"] = len(set(ops))
    R.cov["rule"] = ("MD4/MD5/SHA-1/SHA-256/SHA-512/Streebog-256/512 over message lengths 0..%d (every length in thorough) x two-way and random multi-way splits x "
                     "random buffer alignments; HMAC-SHA1/SHA256/Streebog keys 0..200; PBKDF2 dkLen 1..100, c in {1,2,3,50}, fast-path grid; oracles: hashlib/hmac, "
                     "an independent MD4, an independent Streebog/HMAC-Streebog (exact integer arithmetic, tables printed from the tree, validated by RFC 6986 / RFC 7836 vectors), "
                     "arithmetic-edge messages (all-ones / all-zero / single-bit 64-bit words); non-trivial = distinct ops" % maxlen)
    R.cov["samples"] = [{"op": ops[i][:200], "impl": il[i][:200], "model": ml[i][:200]} for i in R.rng.sample(range(len(ops)), 4)]
    finish_proof(R, ok, badthm, bad, diffs, "primitives")

def replay(R, j):
    op = (j.get("failing_input") or {}).get("op")
    if not op: print("no concrete op; unproved:", j.get("unproved")); return 2
    il = R.run_impl([op]); print(op); print(il[0]); return 0

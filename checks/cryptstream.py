"""Op streams over the crypt entry points, and the projection that compares model and implementation."""
from checks.common import *
from checks import settings as S

A64 = set(S.A64); BF64 = set(S.BF64); HEXL = set(b"0123456789abcdef")

def crypt_op(entry, obj, phrase, setting, size=None):
    return "C %s %d %s %s" % (entry, obj, hx(phrase), hx(setting)) + ("" if size is None else " %d" % size)

def gen_stream(R, n, methods=S.METHODS, big_frac=0.03, entries=("rn", "r", "st")):
    """n grammar-shaped (phrase, setting) ops over all methods"""
    ops, meta = [], []
    for i in range(n):
        m = R.rng.choice(methods)
        big = m in ("sha1crypt", "scrypt") and R.rng.random() < big_frac * 5
        setting, danger, tag = S.gen_setting(R.rng, m, big)
        phrase = S.gen_phrase(R.rng)
        if m in ("scrypt", "yescrypt", "gost_yescrypt") and len(phrase) > 128 and R.rng.random() < 0.7:
            phrase = phrase[:R.rng.choice([0, 1, 8, 64, 65])]
        e = R.rng.choice(entries)
        ops.append(crypt_op(e, R.rng.randrange(4), phrase, setting)); meta.append((m, tag, len(phrase), len(setting)))
    return ops, meta

def proj_crypt(op, a, b, full=True):
    """compare the observation of one crypt op.  The digest-dependent tail (dig= characters) is compared
    exactly when the model has an executable primitive (exact=1), otherwise by length and alphabet."""
    if a.get("abort") != "0": return "implementation aborted"
    for k in ("ret", "wz", "wu", "app"):
        if a.get(k) != b.get(k): return "%s differs" % k
    ao, bo = a.get("out"), b.get("out")
    failed = a.get("ret") == "NULL" or b.get("ret") == "NULL" or (ao or "").startswith("2a") or (bo or "").startswith("2a")
    if failed and a.get("errno") != b.get("errno"): return "errno differs"
    if ao == bo: return None
    dig, exact = int(b.get("dig", 0)), b.get("exact") == "1"
    if exact or dig == 0 or ao in ("unterminated", "?") or bo in ("unterminated", "?"): return "output differs"
    x, y = unhx(ao), unhx(bo)
    if len(x) != len(y): return "output length differs"
    if x[:len(x) - dig] != y[:len(y) - dig]: return "setting part of output differs"
    tailc = set(x[len(x) - dig:])
    if not (tailc <= A64 or tailc <= BF64 or tailc <= HEXL): return "digest part uses characters outside the hash alphabets"
    return None

BUDGET = {"quick": (60000, 64 << 20), "thorough": (600000, 256 << 20)}

def run_budgeted(R, ops, meta=None, **kw):
    """cost every op with the model first; ops above the tier's budget are not sent to the implementation"""
    ml0 = R.run_model(ops)
    cmax, mmax = BUDGET[R.tier]
    keep = [i for i, l in enumerate(ml0) if int(fields(l).get("cost", 0)) <= cmax and int(fields(l).get("mem", 0)) <= mmax]
    cut = len(ops) - len(keep)
    bc = R.cov.setdefault("budget_cut", {})
    if meta is not None:
        for i in set(range(len(ops))) - set(keep):
            k = meta[i][1] if len(meta[i]) > 1 else "?"
            bc[k] = bc.get(k, 0) + 1
    else:
        bc["ops"] = bc.get("ops", 0) + cut
    ops2 = [ops[i] for i in keep]
    meta2 = [meta[i] for i in keep] if meta is not None else None
    il, ml, opf = R.run_pair(ops2, **kw)
    return ops2, meta2, il, ml

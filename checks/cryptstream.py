"""Op streams over the crypt entry points, and the projection that compares model and implementation."""
from checks.common import *
from checks import settings as S

A64 = set(S.A64); BF64 = set(S.BF64); HEXL = set(b"0123456789abcdef")

def crypt_op(entry, obj, phrase, setting, size=None):
    return "C %s %d %s %s" % (entry, obj, hx(phrase), hx(setting)) + ("" if size is None else " %d" % size)

def gen_stream(R, n, methods=S.METHODS, big_frac=0.03, entries=("rn", "r", "st")):
    """n grammar-shaped (phrase, setting) ops over all methods"""
    ops, meta = [], []
    for i in range(n):
        m = R.rng.choice(methods)
        big = m in ("sha1crypt", "scrypt") and R.rng.random() < big_frac * 5
        setting, danger, tag = S.gen_setting(R.rng, m, big)
        phrase = S.gen_phrase(R.rng)
        if m in ("scrypt", "yescrypt", "gost_yescrypt") and len(phrase) > 128 and R.rng.random() < 0.7:
            phrase = phrase[:R.rng.choice([0, 1, 8, 64, 65])]
        e = R.rng.choice(entries)
        ops.append(crypt_op(e, R.rng.randrange(4), phrase, setting)); meta.append((m, tag, len(phrase), len(setting)))
    return ops, meta

def proj_crypt(op, a, b, full=True):
    """compare the observation of one crypt op.  The digest-dependent tail (dig= characters) is compared
    exactly when the model has an executable primitive (exact=1), otherwise by length and alphabet."""
    if a.get("abort") != "0": return "implementation aborted"
    for k in ("ret", "wz", "wu", "app"):
        if a.get(k) != b.get(k): return "%s differs" % k
    ao, bo = a.get("out"), b.get("out")
    failed = a.get("ret") == "NULL" or b.get("ret") == "NULL" or (ao or "").startswith("2a") or (bo or "").startswith("2a")
    if failed and a.get("errno") != b.get("errno"): return "errno differs"
    if ao == bo: return None
    if bo == "unterminated": return None          # model: object holds arbitrary bytes, nothing to compare
    t = op.split(" ")
    if t[1] == "rn" and len(t) > 5 and int(t[5]) < 1:
        return None    # nothing may be written for size <= 0: the field keeps whatever it held (digest of an earlier op)
    dig, exact = int(b.get("dig", 0)), b.get("exact") == "1"
    if exact or dig == 0 or ao in ("unterminated", "?") or bo in ("unterminated", "?"): return "output differs"
    x, y = unhx(ao), unhx(bo)
    if len(x) != len(y): return "output length differs"
    if x[:len(x) - dig] != y[:len(y) - dig]: return "setting part of output differs"
    tailc = set(x[len(x) - dig:])
    if not (tailc <= A64 or tailc <= BF64 or tailc <= HEXL): return "digest part uses characters outside the hash alphabets"
    return None

BUDGET = {"quick": (120000, 64 << 20), "thorough": (1500000, 256 << 20)}

def run_budgeted(R, ops, meta=None, group_starts=None, **kw):
    """cost every op with the model first; ops above the tier's budget are not sent to the implementation"""
    def costop(o):
        if o.startswith("C "): return "C" + o
        if o.startswith("RA "): t = o.split(" "); return "CC ra %s %s %s" % (t[1], t[2], t[3])
        return "P"
    ml0 = R.run_model([costop(o) for o in ops])
    cmax, mmax = BUDGET[R.tier]
    keep = [i for i, l in enumerate(ml0) if int(fields(l).get("cost", 0)) <= cmax and int(fields(l).get("mem", 0)) <= mmax]
    cut = len(ops) - len(keep)
    bc = R.cov.setdefault("budget_cut", {})
    if meta is not None:
        for i in set(range(len(ops))) - set(keep):
            k = meta[i][1] if len(meta[i]) > 1 else "?"
            bc[k] = bc.get(k, 0) + 1
    else:
        bc["ops"] = bc.get("ops", 0) + cut
    ops2 = [ops[i] for i in keep]
    meta2 = [meta[i] for i in keep] if meta is not None else None
    if group_starts is None:
        il, ml, opf = R.run_pair(ops2, **kw)
        return ops2, meta2, il, ml
    # split into self-contained groups at the given boundaries (indices into the original op list)
    starts = set(group_starts)
    groups, cur = [], []
    for i in keep:
        if i in starts and cur: groups.append(cur); cur = []
        cur.append(ops[i])
    if cur: groups.append(cur)
    ops3, il, ml = R.run_pair_sharded(groups, **kw)
    assert ops3 == ops2
    return ops2, meta2, il, ml

# ---------------------------------------------------------------------------------------------
DIGLEN = {"md5crypt": 22, "sunmd5": 22, "sha256crypt": 43, "yescrypt": 43, "gost_yescrypt": 43, "scrypt": 43, "sha512crypt": 86,
          "sha1crypt": 28, "nt": 32, "descrypt": 11, "bsdicrypt": 11, "bcrypt": 31, "bcrypt_a": 31, "bcrypt_x": 31, "bcrypt_y": 31}

def method_of(setting):
    """which method a setting selects, by its tag (written from crypt(5), independent of the model)"""
    for m, p in PREFIXES.items():
        if m != "descrypt" and setting.startswith(p): return m
    if len(setting) >= 2 and setting[0] in A64 and setting[1] in A64: return "des-family"
    return None

def finish_proof(R, ok, badthm, bad, diffs, what):
    """common tail of a check: concrete oracle failures first; otherwise broken correspondence / proof"""
    for op, why, line in bad[:10]:
        R.add_violation(Violation("oracle", why + " at " + str(op)[:300], failing_input={"op": op, "why": why, "observed": line}))
    if diffs and not bad:
        R.add_violation(Violation("correspondence", "model and implementation disagree on the %s projection: %s" % (what, diffs[0][1][:400]),
                                  detail={"first": diffs[:10]}, unproved=["correspondence " + what]))
    if not ok and not bad:
        R.add_violation(Violation("proof", "theorems no longer check: " + ", ".join(badthm),
                                  detail={"log": getattr(R, "proof_log", "")}, unproved=badthm))

def sample_cov(R, ops, il, ml, k=4):
    idx = R.rng.sample(range(len(ops)), min(k, len(ops)))
    R.cov["samples"] = [{"op": ops[i][:400], "impl": il[i][:300], "model": ml[i][:300]} for i in idx]

def dist_cov(R, meta, il):
    d = R.cov["distribution"]
    for m, l in zip(meta, il):
        f = fields(l)
        out = f.get("out", "")
        cls = "ok" if (f.get("ret") != "NULL" and not out.startswith("2a")) else f.get("errno", "?")
        k = "%s:%s" % (m[0], cls); d[k] = d.get(k, 0) + 1
        t = "tag:" + m[1]; d[t] = d.get(t, 0) + 1


def limit_sweep(R, quick):
    """results at the limit of the output field: the three methods whose salt length is bounded only by CRYPT_OUTPUT_SIZE, every salt length that
    puts the result within a few characters of 384, in every spelling of the salt's end (seeded/C06b, C04e)"""
    ops, meta = [], []
    for m, head, alpha in (("sunmd5", b"$md5$", S.A64), ("sunmd5", b"$md5,rounds=7$", S.A64), ("sha1crypt", b"$sha1$3$", S.A64), ("scrypt", b"$7$66..../....", S.A64)):
        for sl in (range(330, 372) if not quick else list(range(340, 364))):
            salt = S.rs(R.rng, alpha, sl)
            for end in (b"", b"$", b"$$", b"$$x", b"$" + S.rs(R.rng, S.A64, 22)):
                ops.append(crypt_op(R.rng.choice(["rn", "r"]), 0, b"pw", head + salt + end)); meta.append((m, "limit:" + ("bare" if not end else "dollar" * end.count(b"$")), 2, len(head) + sl + len(end)))
    return ops, meta

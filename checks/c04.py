"""C04 — memory safety and write confinement for every argument combination."""
from checks.common import *
from checks import cryptstream as CS, settings as S, gensaltstream as GS
from checks.cryptstream import finish_proof

def run(R):
    ok, badthm = R.prove()
    quick = R.tier == "quick"
    ops, meta, starts = [], [], []
    def add(op, m, start=False):
        if start: starts.append(len(ops))
        ops.append(op); meta.append(m)
    # objects in exact-size heap blocks at every alignment, app fields are canaries (compared by the harness: app=1)
    # ... and the object is refilled (random / 0xff / pattern) before EVERY call: do_crypt wipes the scratch area when it returns, so only the
    # first call on an object sees what the application left there, and the result must not depend on it (seeded/C04c: an HMAC key block
    # whose padding was no longer zeroed); the model starts every call from the same filled object and knows nothing of its contents
    aligned_phrase = {m: S.gen_phrase(R.rng, 80) for m in S.METHODS}
    for a in range(16):
        for m in S.METHODS:
            add("O %d %s %d %d" % (a % 4, "rfpz"[(a + len(m)) % 4], a, R.rng.randrange(1 << 30)), ("setup", "obj", 0, 0), start=True)
            add(CS.crypt_op(R.rng.choice(["r", "rn"]), a % 4, aligned_phrase[m], S.CANON[m]), (m, "aligned", 0, 0))
    # grammar-shaped and over-long settings (up to tens of kilobytes), phrases up to and beyond the limit
    g, gm = CS.gen_stream(R, 1200 if quick else 30000, big_frac=0.1)
    for o, m in zip(g, gm): add(o, m, start=True)
    for m in S.METHODS:
        base = S.CANON[m]
        for n in ([300, 383, 384, 385, 1000, 40000] if quick else [200, 300, 339, 340, 341, 383, 384, 385, 500, 1000, 4096, 40000, 100000]):
            for filler in (b"a", b".", b"$", b"x$"):
                st = (base + filler * n)[:max(n, len(base))]
                add(CS.crypt_op("rn", 0, b"pw", st), (m, "long-setting", 2, len(st)), start=True)
                add(CS.crypt_op("r", 0, b"pw", base[:R.rng.randrange(0, len(base) + 1)] + filler * n), (m, "long-tail", 2, n), start=True)
        for pl in (510, 511, 512, 513, 600, 5000):
            add(CS.crypt_op("rn", 1, b"p" * pl, base), (m, "long-phrase", pl, len(base)), start=True)
    # results at the very end of the output field: every salt length of the three unbounded-salt methods that brings the result within a few
    # characters of 384, in every spelling of the salt's end; the terminating NUL must stay inside the field (seeded/C04e: one length, one spelling)
    lo, lm = CS.limit_sweep(R, quick)
    for o, m in zip(lo, lm): add(o, m, start=True)
    # the smallest yescrypt working areas: N = 2..64 with explicit parallelism p = 2..9 (and t) - N/p of 1, 2, 3 is below what the block-pair code
    # of the optimised smix can work on and must be refused, 4 and more must hash; nothing in ordinary use produces such settings (seeded/C04g)
    for tag in (b"$y$", b"$gy$"):
        for k in range(1, 7):
            for p_ in (2, 3, 4, 5, 8, 9):
                for r_ in (1, 2):
                    for t_ in (0, 1):
                        st = tag + S.enc_var(47, 0) + S.enc_var(k, 1) + S.enc_var(r_, 1) + S.enc_var(3 if t_ else 1, 1) + S.enc_var(p_, 2) + (S.enc_var(t_, 1) if t_ else b"") + b"$saltsalt"
                        add(CS.crypt_op(R.rng.choice(["r", "rn"]), 0, b"pw", st), ("yescrypt" if tag == b"$y$" else "gost_yescrypt", "small-N-over-p", 2, len(st)), start=True)
    # byte mutations (control characters, 8-bit) of valid settings
    for m, base in S.CANON.items():
        muts = S.mutations(base, S.CANON_DANGER.get(m, []), values=[1, 0x1f, 0x20, 0x7f, 0x80, 0xff, ord("$"), ord(":")])
        for st in (R.rng.sample(muts, min(len(muts), 40)) if quick else muts):
            add(CS.crypt_op("rn", 2, b"pw", st), (m, "mutation", 2, len(st)), start=True)
    # integer arguments: crypt_rn sizes
    for size in [-2**31, -1, 0, 1, 2, 3, 383, 384, 385, 32767, 32768, 32769, 2**31 - 1]:
        add(CS.crypt_op("rn", 3, b"pw", S.CANON["md5crypt"], size), ("generic", "size", 2, 0), start=True)
    ops2, meta2, il, ml = CS.run_budgeted(R, ops, meta, group_starts=starts, variant="asan")
    def proj(op, a, b):
        if op.startswith("C "): return CS.proj_crypt(op, a, b)
        return None
    diffs = compare(R, ops2, il, ml, proj, "sanitized crypt stream")
    bad = []
    for op, line in zip(ops2, il):
        f = fields(line)
        if not op.startswith("C ") or line.startswith("crashed"): continue
        if f.get("app") == "0": bad.append((op, "the application-owned fields setting/input of the data object were written", line))
        if f.get("edge") == "0": bad.append((op, "bytes in front of or behind the caller's data object were written", line))
        if f.get("out") == "unterminated" and f.get("ret") == "out": bad.append((op, "returned string is not NUL-terminated inside the 384-byte output field", line))
        if f.get("ret") == "other": bad.append((op, "returned pointer does not lie in the output field", line))
        if f.get("abort") != "0": bad.append((op, "the call aborted: " + "; ".join(sorted(set(getattr(R, "asserts", [])))[:3]), line))
    # the same request on objects the application filled differently (random / 0xff / pattern / zero, sixteen alignments): one answer
    seen = {}
    prev = None
    for op, m, line in zip(ops2, meta2, il):
        if op.startswith("O "): prev = op
        if m[1] != "aligned" or line.startswith("crashed"): continue
        f = fields(line); key = (m[0],); val = (f.get("ret"), f.get("errno"), f.get("out"))
        if key in seen and seen[key][0] != val:
            bad.append((prev + " ; " + op, "the result depends on what the data object held before the call (uninitialised memory): on a differently filled object (%s) the same request gave %s"
                        % (seen[key][1], seen[key][0][2]), line))
        seen.setdefault(key, (val, prev))
    # gensalt: exact-size buffers, all sizes, negative sizes and nrbytes with NULL rbytes
    gops = []
    for m, pfx in GS.TAGS.items():
        for n in (0, 1, 3, 4, 8, 16, 20, 64, 65, 256):
            rb = bytes(R.rng.randrange(256) for _ in range(n))
            # every size around the writers' own limits for the two nrbytes classes that fill a salt (exact-fit sizes are where an off-by-one
            # in a space test shows: seeded/C04f, output_size 29 for bcrypt), a sparse set for the others
            for sz in ((list(range(-2, 70)) + [100, 191, 192, 193, 4096] if n in (16, 64) else [-5, 0, 1, 2, 3, 10, 30, 60, 100, 192, 193, 4096]) if quick else list(range(-2, 200)) + [4096]):
                gops.append("G rn %s %d %s %d %d" % (hx(pfx), R.rng.choice([0, 0, 5, 1000, 2**64 - 1]), hx(rb) if n else ".", n, sz))
        gops.append("G rn %s 0 - -7 192" % hx(pfx)); gops.append("G rn %s 0 - 100000 192" % hx(pfx))
    gl, gml, _ = R.run_pair(gops, variant="asan")
    def gproj(op, a, b):
        if "- " in op and op.split(" ")[4] == "-": return None if (a.get("ret") == "NULL") == (b.get("ret") == "NULL") else "auto-entropy outcome differs"
        return None if (a.get("ret"), a.get("errno"), a.get("abort")) == (b.get("ret"), b.get("errno"), b.get("abort")) else "gensalt differs"
    diffs += compare(R, gops, gl, gml, gproj, "sanitized gensalt stream")
    for op, line in zip(gops, gl):
        f = fields(line)
        if line.startswith("crashed"): continue
        if f.get("guard") != "ok": bad.append((op, "crypt_gensalt_rn wrote outside [0, output_size)", line))
        if f.get("abort") != "0": bad.append((op, "crypt_gensalt_rn aborted", line))
    import re
    crash_bad = []
    for c in getattr(R, "crashes", []):
        m = re.search(r"(ERROR: AddressSanitizer[^\n]*|[^\n]*runtime error:[^\n]*)\n((?:[^\n]*\n){0,8})", c["stderr"])
        what = ("sanitizer report: " + m.group(1) + " | " + m.group(2)[:500].replace("\n", " / ")) if m else ("the process died (rc=%s): %s" % (c["rc"], c["stderr"][-300:]))
        crash_bad.append((c["op"], what, c["stderr"][:2000]))
    bad = crash_bad + bad
    R.cov["evaluations"] = len(ops2) + len(gops)
    R.cov["distinct_nontrivial"] = len(set(ops2)) + len(set(gops))
    R.cov["rule"] = ("AddressSanitizer + UndefinedBehaviorSanitizer build (clang) of the library and harness: objects in exact-size blocks at all 16 alignments with "
                     "random-filled application fields, phrase/setting/random bytes in exact-size blocks; grammar-shaped, byte-mutated and over-long settings (to 40-100 kB), "
                     "phrases to 5000 bytes, crypt_rn sizes incl. INT_MIN/-1/0/.../INT_MAX, gensalt sizes -5..4096 x nrbytes 0..256, negative nrbytes with NULL rbytes")
    CS.dist_cov(R, [m for o, m in zip(ops2, meta2) if o.startswith("C ")], [l for o, l in zip(ops2, il) if o.startswith("C ")])
    CS.sample_cov(R, ops2, il, ml)
    finish_proof(R, ok, badthm, bad, diffs, "memory safety")

def replay(R, j):
    op = (j.get("failing_input") or {}).get("op")
    if not op: print("no concrete op; unproved:", j.get("unproved")); return 2
    out = R.run_impl(op.split(" ; "), variant="asan"); print(op); print(out[-1] if out else "(no output)"); print(R.last_impl_stderr[-1500:])
    return 1 if ("ERROR: AddressSanitizer" in R.last_impl_stderr or "runtime error" in R.last_impl_stderr) else 0

"""C10 — every setting crypt_gensalt* produces is accepted by crypt and kept in the hash."""
from checks.common import *
from checks import gensaltstream as GS, settings as S, cryptstream as CS
from checks.cryptstream import finish_proof

CHEAP = {  # counts whose generated settings are cheap enough to hash in the quick tier
    "sha256crypt": [0, 1000, 1001, 1999, 999], "sha512crypt": [0, 1000, 1001, 1999, 999], "md5crypt": [0], "nt": [0], "descrypt": [0], "bigcrypt": [0],
    "bsdicrypt": [0, 1, 2, 1000, 4095], "sha1crypt": [4, 5, 100, 1, 2000], "sunmd5": [0, 1, 32768], "bcrypt": [4, 5, 0, 8, 9, 10], "bcrypt_a": [4, 5, 0, 9], "bcrypt_y": [4, 5, 0, 9],
    "bcrypt_x": [0, 5], "scrypt": [], "yescrypt": [1, 2], "gost_yescrypt": [1, 2],
}

def run(R):
    ok, badthm = R.prove()
    quick = R.tier == "quick"
    gops, gmeta = [], []
    nrbs = [0, 1, 2, 3, 4, 6, 8, 9, 12, 15, 16, 17, 20, 24, 32, 48, 63, 64, 65, 100, 128, 256] if quick else list(range(0, 70)) + [96, 100, 127, 128, 129, 200, 255, 256]
    sample_hashes = {"md5crypt": b"$1$abcdefgh$0123456789012345678901", "sha512crypt": b"$6$rounds=1000$saltsalt$" + b"x" * 86, "yescrypt": b"$y$j9T$salt$" + b"x" * 43,
                     "descrypt": b"abJnggxhB/yWI", "bsdicrypt": b"_J9..saltabcdefghijk", "bcrypt": b"$2b$05$abcdefghijklmnopqrstuu" + b"x" * 31}
    for m, pfx in list(GS.TAGS.items()) + [("NULL", None)]:
        counts = CHEAP.get(m, [0]) + ([0, 5] if m == "NULL" else []) + ([6, 7, 11] if m == "scrypt" else []) + ([3, 5, 11] if "yescrypt" in m else [])
        for c in sorted(set(counts)):
            for n in nrbs:
                rb = bytes(R.rng.randrange(256) for _ in range(n))
                for e in ("rn", "ra", "st"):
                    gops.append("G %s %s %d %s %d 192" % (e, hx(pfx), c, hx(rb) if n else ".", n)); gmeta.append((m, c, n, e, pfx))
                # output sizes beyond CRYPT_GENSALT_OUTPUT_SIZE: the result must stay < 192 characters and not depend on the size (seeded/C10)
                for osz in ([193, R.rng.choice([200, 256, 300, 384]), R.rng.choice([512, 1024, 4096])] if quick else [193, 200, 256, 300, 384, 512, 1024, 4096, 65536]):
                    gops.append("G rn %s %d %s %d %d" % (hx(pfx), c, hx(rb) if n else ".", n, osz)); gmeta.append((m, c, n, "rn-big", pfx))
    # arithmetic-edge random input: all-zero, all-ones and bytes whose low six bits are zero - the salt characters `.` / `z` and the zero sextets
    # that random bytes almost never produce (seeded/C10f: the DES salt `..` generated and accepted by crypt_checksalt, refused by crypt)
    for m, pfx in list(GS.TAGS.items()) + [("NULL", None)]:
        for n in (16, 64):
            for pat in (0x00, 0xff, 0x40, 0xc0, 0x3f):
                gops.append("G rn %s 0 %s %d 192" % (hx(pfx), hx(bytes([pat]) * n), n)); gmeta.append((m, 0, n, "rn", pfx))
    # a full hash / setting as prefix selects the method of its tag
    for m, h in sample_hashes.items():
        for n in (16, 64):
            rb = bytes(R.rng.randrange(256) for _ in range(n))
            gops.append("G rn %s 0 %s %d 192" % (hx(h), hx(rb), n)); gmeta.append((m, 0, n, "rn-fullhash", h))
            gops.append("G rn %s 0 %s %d 192" % (hx(GS.TAGS[m]), hx(rb), n)); gmeta.append((m, 0, n, "rn-tag", GS.TAGS[m]))
    # "a deterministic function of (prefix, count, random bytes)": the bytes the caller's buffer holds BEYOND nrbytes are not part of the random
    # input - the same call with two different continuations of the buffer must give one answer (seeded/C10d: a writer that reads 8 bytes where it
    # was given 6).  The harness passes the whole hex string as the buffer and nrbytes as the count; the model sees the first nrbytes only.
    tops = []
    for m, pfx in GS.TAGS.items():
        for n in ([0, 1, 2, 3, 4, 5, 6, 7, 8, 9, 11, 13, 14, 15, 16, 17, 31, 33, 63] if quick else list(range(0, 70))):
            rb = bytes(R.rng.randrange(256) for _ in range(n))
            t1 = bytes(R.rng.randrange(256) for _ in range(24)); t2 = bytes(b ^ 0xff for b in t1)
            tops.append(("G rn %s 0 %s %d 192" % (hx(pfx), hx(rb + t1), n), "G rn %s 0 %s %d 192" % (hx(pfx), hx(rb + t2), n), m, n))
    tl = R.run_impl([o for a, b, _, _ in tops for o in (a, b)])
    tail_bad = []
    for i, (a, b, m, n) in enumerate(tops):
        fa, fb = fields(tl[2 * i]), fields(tl[2 * i + 1])
        if (fa.get("ret"), fa.get("errno")) != (fb.get("ret"), fb.get("errno")):
            tail_bad.append((a + " ; " + b, "%s: with nrbytes = %d the result depends on what the buffer holds beyond the random bytes: %s vs %s (not a function of "
                             "(prefix, count, random bytes); the writer reads past nrbytes)" % (m, n, fa.get("ret"), fb.get("ret")), tl[2 * i]))
    il, ml, _ = R.run_pair(gops)
    def proj(op, a, b): return None if (a.get("ret"), a.get("errno")) == (b.get("ret"), b.get("errno")) else "gensalt result differs"
    diffs = compare(R, gops, il, ml, proj, "gensalt")
    bad = list(tail_bad)
    # oracle part 1: properties of the generated string, agreement of the entry points
    byreq = {}
    bigreq = {}
    cops, cinfo = [], []
    for op, (m, c, n, e, pfx), line in zip(gops, gmeta, il):
        f = fields(line)
        key = (m, c, n, op.split(" ")[4])
        if e in ("rn", "ra", "st"):
            byreq.setdefault(key, {})[e] = f["ret"]
        if e == "rn-big":
            bigreq.setdefault(key, []).append((op, f["ret"], line))
        if f["ret"] == "NULL": continue
        s = unhx(f["ret"])
        mm = m if m != "NULL" else "yescrypt"
        if len(s) >= 192 or not passwd_safe(s) or len(s) == 0:
            bad.append((op, "generated setting %r is not a passwd-safe string shorter than CRYPT_GENSALT_OUTPUT_SIZE" % s, line))
        if not s.startswith(GS.TAGS[mm]) or (mm in ("descrypt", "bigcrypt") and CS.method_of(s) != "des-family"):
            bad.append((op, "generated setting %r does not carry the tag of the selected method %s" % (s, mm), line))
        if e == "rn" or (e == "rn-big" and byreq.get(key, {}).get("rn") == "NULL" and op == bigreq[key][0][0]):
            cops.append("K " + hx(s)); cinfo.append(("checksalt", mm, s, op))
            cost = {"sha256crypt": 2, "sha512crypt": 3}.get(mm, 1) * (GS.decode_cost(mm, s) if mm in ("sha256crypt", "sha512crypt", "sha1crypt", "sunmd5", "bsdicrypt") else 1)
            heavy = ("yescrypt" in mm and GS.decode_cost(mm, s)[1] > 10) or mm == "scrypt" or cost > (150000 if quick else 3000000)
            if heavy: R.cov.setdefault("budget_cut", {}); R.cov["budget_cut"][mm] = R.cov["budget_cut"].get(mm, 0) + 1
            elif n in (16, 64, 8, 3, 4, 20) or not quick:
                for ph in (b"", b"correct horse battery staple"):
                    cops.append(CS.crypt_op("rn", 0, ph, s)); cinfo.append(("crypt", mm, s, op))
    for key, d in byreq.items():
        if len(set(d.values())) > 1:
            bad.append(("G * %s %d %s %d" % (hx(GS.TAGS.get(key[0])), key[1], key[3], key[2]), "the three entry points disagree: %r" % d, str(d)))
    # the result is a function of (prefix, count, random bytes): a larger output buffer never changes a result obtained with 192 bytes,
    # and all larger sizes that succeed agree with each other
    for key, lst in bigreq.items():
        r192 = byreq.get(key, {}).get("rn")
        succ = [(op, r, line) for op, r, line in lst if r != "NULL"]
        if r192 not in (None, "NULL"):
            for op, r, line in lst:
                if r != r192: bad.append((op, "crypt_gensalt_rn result depends on output_size: %s with 192 bytes, %s here" % (r192, r), line))
        elif len({r for _, r, _ in succ}) > 1:
            bad.append((succ[0][0], "crypt_gensalt_rn result depends on output_size: %r" % sorted({r for _, r, _ in succ}), succ[0][2]))
    # full hash as prefix == its tag as prefix
    fh = {}
    for op, (m, c, n, e, pfx), line in zip(gops, gmeta, il):
        if e.startswith("rn-"): fh.setdefault((m, n), {})[e] = fields(line)["ret"]
    for k, d in fh.items():
        if d.get("rn-fullhash") != d.get("rn-tag"):
            bad.append(("G rn <hash of %s>" % k[0], "a full hash as prefix does not select the method of its tag: %r" % d, str(d)))
    # oracle part 2: the setting is accepted and kept (implementation only; sharded)
    groups = [[o] for o in cops]
    _, out, mout = R.run_pair_sharded(groups)
    def proj2(op, a, b):
        if op.startswith("K "): return None if a == b else "checksalt differs"
        return CS.proj_crypt(op, a, b)
    diffs += compare(R, cops, out, mout, proj2, "generated setting accepted")
    for op, (kind, m, s, gop), line in zip(cops, cinfo, out):
        f = fields(line)
        if kind == "checksalt":
            if f.get("status") == "1": bad.append((gop, "crypt_checksalt rejects the generated setting %r" % s, line))
        else:
            if f.get("ret") == "NULL":
                bad.append((gop, "crypt fails (%s) on the generated setting %r" % (f.get("errno"), s), line))
            elif not unhx(f["out"]).startswith(s):
                bad.append((gop, "the hash %r does not have the generated setting %r as a literal prefix" % (unhx(f["out"]), s), line))
    # digit-count class "nine-digit rounds" (count >= 100000000 for sha256crypt / sha512crypt): the cheapest member costs ~30 s of SHA-crypt, so
    # these few run on the implementation only, in parallel; the generated setting must be accepted and kept like any other (seeded/C10e: the
    # rounds tag of a nine-digit count lost its `$`)
    import concurrent.futures, subprocess
    exe = R.harness()
    def run1(o):
        return subprocess.run([exe], input=o + "\n", text=True, capture_output=True, timeout=3000).stdout.splitlines()[0]
    exp = [(b"$5$", 100000000), (b"$6$", 100000000)] + ([(b"$5$", 999999999), (b"$6$", 2**32 - 1)] if not quick else [])
    exp_g = ["G rn %s %d %s 16 192" % (hx(pfx), c, hx(bytes(range(1, 17)))) for pfx, c in exp]
    exp_s = [fields(run1(o)).get("ret") for o in exp_g]
    exp_c = [CS.crypt_op("rn", 0, b"", unhx(sx)) for sx in exp_s if sx not in (None, "NULL")]
    with concurrent.futures.ThreadPoolExecutor(max(1, len(exp_c))) as ex:
        exp_l = list(ex.map(run1, exp_c))
    for g, sx in zip(exp_g, exp_s):
        if sx in (None, "NULL"): bad.append((g, "crypt_gensalt_rn fails for a count inside the documented range", str(sx)))
    for g, c, l in zip([g for g, sx in zip(exp_g, exp_s) if sx not in (None, "NULL")], exp_c, exp_l):
        f = fields(l); sset = unhx(c.split(" ")[4])
        if f.get("ret") == "NULL": bad.append((g + " ; " + c, "crypt fails (%s) on the generated setting %r" % (f.get("errno"), sset), l))
        elif not unhx(f["out"]).startswith(sset) or len(unhx(f["out"])) <= len(sset):
            bad.append((g + " ; " + c, "the hash %r does not have the generated setting %r as a literal prefix followed by a digest" % (unhx(f["out"]), sset), l))
    R.cov["implementation_only_expensive_ops"] = len(exp_c)
    R.cov["evaluations"] = len(gops) + len(cops) + len(exp_c)
    R.cov["distinct_nontrivial"] = len({(m[0], m[1], m[2]) for m in gmeta})
    R.cov["rule"] = ("15 prefixes + NULL + full hashes as prefix x cheap/valid count classes x nrbytes classes 0..256 x {rn, ra, static} at output size 192, plus crypt_gensalt_rn at output sizes 193..65536 (result < 192 characters and independent of the size); each generated setting "
                     "goes to crypt_checksalt and (compute budget permitting) to crypt with two phrases; non-trivial = distinct (prefix, count, nrbytes)")
    R.cov["samples"] = [{"op": gops[i][:200], "impl": il[i][:200], "model": ml[i][:200]} for i in R.rng.sample(range(len(gops)), 4)]
    finish_proof(R, ok, badthm, bad, diffs, "gensalt accepted")

def replay(R, j):
    op = (j.get("failing_input") or {}).get("op")
    if not op: print("no concrete op; unproved:", j.get("unproved")); return 2
    il = R.run_impl([op]); print(op); print(il[0])
    f = fields(il[0])
    if f.get("ret") not in (None, "NULL"):
        o2 = CS.crypt_op("rn", 0, b"pw", unhx(f["ret"])); print(o2); print(R.run_impl([o2])[0])
    return 0

"""C12 — generated salts carry the supplied randomness; auto-entropy comes from the OS."""
from checks.common import *
from checks import gensaltstream as GS, settings as S
from checks.cryptstream import finish_proof

def run(R):
    ok, badthm = R.prove()
    quick = R.tier == "quick"
    ops, meta = [], []
    def add(op, m): ops.append(op); meta.append(m)
    methods = [m for m in GS.TAGS if m not in ("bcrypt_x", "nt")]
    nrbs = list(range(0, 70)) + [71, 96, 127, 128, 129, 200, 255, 256]
    for m in methods:
        pfx = GS.TAGS[m]
        for n in nrbs:
            reps = 1 if quick else 4
            for _ in range(reps):
                rb = bytes(R.rng.randrange(256) for _ in range(n))
                add("G rn %s 0 %s %d 192" % (hx(pfx), hx(rb), n), (m, n, "base", rb, None))
                # single-bit flips inside and just outside the consumed window
                win = GS.consumed_window(m, n)
                inside = {(i, 1 << b) for (i, mask) in win for b in range(8) if mask & (1 << b) and i < n}
                allbits = {(i, 1 << b) for i in range(min(n, 70)) for b in range(8)}
                outside = sorted(allbits - inside)
                ins = sorted(inside)
                if quick: ins = R.rng.sample(ins, min(len(ins), 6)); outside = R.rng.sample(outside, min(len(outside), 3))
                for (i, bit) in ins:
                    rb2 = rb[:i] + bytes([rb[i] ^ bit]) + rb[i + 1:]
                    add("G rn %s 0 %s %d 192" % (hx(pfx), hx(rb2), n), (m, n, "flip-in", rb, (i, bit)))
                for (i, bit) in outside:
                    rb2 = rb[:i] + bytes([rb[i] ^ bit]) + rb[i + 1:]
                    add("G rn %s 0 %s %d 192" % (hx(pfx), hx(rb2), n), (m, n, "flip-out", rb, (i, bit)))
    # every output size: a call that succeeds with a smaller (or larger) buffer must carry the same salt as with 192 bytes - never a
    # shorter or empty one (seeded/C12b: fields silently skipped when the buffer is tight)
    for m in methods:
        pfx = GS.TAGS[m]
        for n in ([16, 64] if quick else [4, 8, 16, 20, 32, 48, 64, 100]):
            rb = bytes(R.rng.randrange(256) for _ in range(n))
            add("G rn %s 0 %s %d 192" % (hx(pfx), hx(rb), n), (m, n, "size-base", rb, None))
            for osz in (list(range(3, 130)) + [150, 191, 193, 256, 1000]):
                add("G rn %s 0 %s %d %d" % (hx(pfx), hx(rb), n, osz), (m, n, "size", rb, osz))
    # automatic entropy: deterministic interposed RNG for the model comparison, then the real one twice
    for m in methods + ["NULL"]:
        pfx = GS.TAGS.get(m)
        osb = bytes(R.rng.randrange(256) for _ in range(64))
        add("OS " + hx(osb), (m, 0, "os", None, None))
        add("G rn %s 0 - 0 192" % hx(pfx), (m, 0, "auto-interposed", osb, None))
    il, ml, _ = R.run_pair(ops)
    def proj(op, a, b):
        if op.startswith("OS"): return None
        return None if (a.get("ret"), a.get("errno")) == (b.get("ret"), b.get("errno")) else "gensalt result differs"
    diffs = compare(R, ops, il, ml, proj, "gensalt salt")
    bad = []
    base = {}
    dist = R.cov["distribution"]
    for op, (m, n, kind, rb, flip), line in zip(ops, meta, il):
        if kind == "os": continue
        f = fields(line)
        if kind == "size-base": base[(m, n, rb, "size")] = f; continue
        if kind == "size":
            b192 = base.get((m, n, rb, "size"))
            if f["ret"] != "NULL":
                s2 = unhx(f["ret"]); bits = GS.salt_bits(m, s2)
                if bits < GS.MIN_BITS[m] or bits == 0:
                    bad.append((op, "%s: with output_size %d the generated salt has %d bits, below the documented minimum %d: %r" % (m, flip, bits, GS.MIN_BITS[m], s2), line))
                elif b192 is not None and b192["ret"] != "NULL" and not unhx(b192["ret"]).startswith(s2.rstrip(b"$")):
                    bad.append((op, "%s: the setting generated with output_size %d is not a leading part of the one generated with 192 bytes from the same random bytes: %r vs %r"
                                % (m, flip, s2, unhx(b192["ret"])), line))
            continue
        if kind in ("base", "auto-interposed"):
            base[(m, n, rb)] = f
            if kind == "base":
                need = GS.NEED[m]
                cls = "short" if n < need else "ok"
                dist["%s:%s" % (m, cls)] = dist.get("%s:%s" % (m, cls), 0) + 1
                if n < need:
                    if f["ret"] != "NULL" or f["errno"] != "EINVAL":
                        bad.append((op, "%s: %d random bytes cannot fill a salt but the call did not fail with EINVAL: %s" % (m, n, f["ret"]), line))
                    continue
                if f["ret"] == "NULL":
                    # sha1crypt encodes every byte it is given, so more than 64 bytes may legitimately need a larger buffer (ERANGE); every other
                    # writer caps what it consumes, and up to 64 bytes the documented size suffices for all (C13) (seeded/C12e: `$gy$`, nrbytes >= 105)
                    if n <= 64 or f["errno"] != "ERANGE" or m != "sha1crypt":
                        bad.append((op, "%s: %d random bytes suffice but the call failed (%s)" % (m, n, f["errno"]), line))
                    continue
                s = unhx(f["ret"]); bits = GS.salt_bits(m, s)
                if bits < GS.MIN_BITS[m] or bits == 0:
                    bad.append((op, "%s: generated salt has %d bits, below the documented minimum %d: %r" % (m, bits, GS.MIN_BITS[m], s), line))
                if n >= 16 and bits < GS.STD_BITS[m]:
                    bad.append((op, "%s: with %d random bytes the salt has %d bits, below the standard size %d: %r" % (m, n, bits, GS.STD_BITS[m], s), line))
            continue
        b = base.get((m, n, rb))
        if b is None or b["ret"] == "NULL": continue
        if f["ret"] == "NULL": continue
        sa, sb = GS.salt_chars(m, unhx(f["ret"])), GS.salt_chars(m, unhx(b["ret"]))
        if kind == "flip-in" and sa == sb:
            bad.append((op, "%s: flipping bit %#x of random byte %d (inside the consumed window, nrbytes=%d) does not change the salt %r" % (m, flip[1], flip[0], n, unhx(b["ret"])), line))
        if kind == "flip-out" and sa != sb:
            # not a violation of C12 by itself (more entropy used), but the documented window is then wrong: report as model/oracle drift
            diffs.append((op, "byte %d bit %#x lies outside the documented window for %s/nrbytes=%d but changes the salt" % (flip[0], flip[1], m, n)))
    # the real OS RNG: two calls must differ (not interposed)
    real = ["OS -"]
    for m in methods:
        real += ["G rn %s 0 - 0 192" % hx(GS.TAGS[m])] * 2
    out = R.run_impl(real)[1:]
    for i in range(0, len(out), 2):
        a, b = fields(out[i]), fields(out[i + 1])
        if a["ret"] == "NULL" or a["ret"] == b["ret"]:
            bad.append((real[1 + i], "two calls with rbytes == NULL returned the same salt (or failed): %s / %s" % (a["ret"], b["ret"]), out[i]))
    R.cov["evaluations"] = len(ops) + len(out)
    R.cov["distinct_nontrivial"] = len({(m[0], m[1]) for m in meta if m[2] == "base"})
    R.cov["rule"] = ("13 salted prefixes x nrbytes 0..69 and boundary values up to 256 x random bytes; single-bit flips of every bit of the consumed window "
                     "(quick: sampled) must change the setting, flips outside must not; minimum/standard salt sizes; short inputs must give EINVAL; "
                     "every output size 3..129 (and some larger): a success is a leading part of the 192-byte result and still carries the method's minimum salt; NULL rbytes with the real CSPRNG twice; non-trivial = distinct (method, nrbytes)")
    R.cov["samples"] = [{"op": ops[i][:200], "impl": il[i][:200], "model": ml[i][:200]} for i in R.rng.sample(range(len(ops)), 4)]
    finish_proof(R, ok, badthm, bad, diffs, "gensalt salt")

def replay(R, j):
    op = (j.get("failing_input") or {}).get("op")
    if not op: print("no concrete op; unproved:", j.get("unproved")); return 2
    il = R.run_impl([op]); print(op); print(il[0]); return 0

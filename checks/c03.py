"""C03 — a different passphrase or salt never reproduces the hash (no false accept)."""
from checks.common import *
from checks import cryptstream as CS, settings as S
from checks.cryptstream import finish_proof

SETTINGS = {
    "md5crypt": b"$1$saltsalt", "sha256crypt": b"$5$rounds=1000$saltsaltsaltsalt", "sha512crypt": b"$6$rounds=1000$saltsaltsaltsalt", "sunmd5": b"$md5,rounds=5$saltsalt$",
    "sha1crypt": b"$sha1$24$saltsalt$", "nt": b"$3$", "descrypt": b"ab", "bigcrypt": b"ab............", "bsdicrypt": b"_J9..salt",
    "bcrypt": b"$2b$04$abcdefghijklmnopqrstuu", "bcrypt_a": b"$2a$04$abcdefghijklmnopqrstuu", "bcrypt_x": b"$2x$04$abcdefghijklmnopqrstuu", "bcrypt_y": b"$2y$04$abcdefghijklmnopqrstuu",
    "scrypt": b"$7$66..../....saltsalt", "yescrypt": b"$y$j75$saltsaltsalt", "gost_yescrypt": b"$gy$j75$saltsaltsalt",
}
SALT_SPAN = {"md5crypt": (3, 11), "sha256crypt": (15, 31), "sha512crypt": (15, 31), "sunmd5": (14, 22), "sha1crypt": (9, 17), "descrypt": (0, 2), "bigcrypt": (0, 2),
             "bsdicrypt": (5, 9), "bcrypt": (7, 28), "bcrypt_a": (7, 28), "bcrypt_x": (7, 28), "bcrypt_y": (7, 28), "scrypt": (14, 22), "yescrypt": (7, 19), "gost_yescrypt": (8, 20)}

DESFAM = ("descrypt", "bigcrypt", "bsdicrypt")

def significant(m, plen, i, bit):
    """is bit `bit` of byte `i` of a `plen`-byte phrase documented as significant for method m?"""
    if m == "descrypt": return i < 8 and bit != 0x80
    if m == "bigcrypt": return i < 128 and bit != 0x80
    if m == "bsdicrypt": return bit != 0x80
    if m.startswith("bcrypt"): return i < 72
    return True

def run(R):
    ok, badthm = R.prove()
    quick = R.tier == "quick"
    groups, info = [], []
    lens = [1, 7, 8, 9, 16, 55, 56, 64, 71, 72, 73, 80, 127, 128, 129, 136, 200, 511] if quick else list(range(1, 140)) + list(range(140, 512, 7)) + [255, 256, 257, 510, 511]
    for m, st in SETTINGS.items():
        for n in lens:
            heavy = m in ("sunmd5", "sha256crypt", "sha512crypt", "yescrypt", "gost_yescrypt", "scrypt")
            if quick and heavy and n not in (1, 8, 64, 72, 128, 511): continue
            # two base phrases per (method, length): a 7-bit one, and an 8-bit one rich in 0x80/0xff/0x81 bytes (bytes whose
            # shifted or sign-extended forms are special: seeded/C03).  $2a$/$2x$ keep 7-bit bases only (their documented quirks
            # concern exactly the 8-bit bytes).
            variants = ["7bit"] + ([] if m in ("bcrypt_a", "bcrypt_x") else ["8bit"])
            for var in variants:
                if var == "7bit": base = bytes(R.rng.randrange(0x21, 0x7f) for _ in range(n))
                else: base = bytes(R.rng.choice([0x80, 0x80, 0xff, 0x81, R.rng.randrange(0x82, 0xff), R.rng.randrange(0x21, 0x7f)]) for _ in range(n))
                g = [CS.crypt_op("rn", 0, base, st)]; gi = [(m, n, "base", None)]
                # thorough: every position for phrases up to 80 bytes and for the block-boundary lengths; boundary positions plus 12 random ones elsewhere
                # (every position of every length would be 32 million hashes)
                allpos = (not quick) and (n <= 32 or n in (64, 72, 73, 128, 129, 511)) and not (heavy and n > 32)
                pos = sorted(set([0, n - 1, n // 2] + [p for p in (6, 7, 8, 71, 72, 127, 128, 255, 256) if p < n] +
                                 (list(range(n)) if allpos else [R.rng.randrange(n) for _ in range(3 if quick else 6)])))
                for i in pos:
                    for bit in ([1, 0x80, 1 << R.rng.randrange(1, 7)] if (quick or not allpos) else [1, 2, 4, 8, 16, 32, 64, 128]):
                        c = base[i] ^ bit
                        if c == 0: continue
                        p2 = base[:i] + bytes([c]) + base[i + 1:]
                        g.append(CS.crypt_op("rn", 0, p2, st)); gi.append((m, n, "flip", (i, bit)))
                # truncation/extension: for the DES family a final byte whose low 7 bits are zero is the same key byte as "no byte"
                if not (m in DESFAM and base[-1] & 0x7f == 0):
                    g.append(CS.crypt_op("rn", 0, base[:-1], st)); gi.append((m, n, "truncate", None))
                if n < 511: g.append(CS.crypt_op("rn", 0, base + b"x", st)); gi.append((m, n, "extend", None))
                if var == "7bit" and m in SALT_SPAN and n in (1, 8, 64):
                    a, b = SALT_SPAN[m]
                    alpha = S.BF64 if m.startswith("bcrypt") else S.A64
                    for i in range(a, b):
                        c = alpha[(alpha.index(st[i]) + 1 + R.rng.randrange(62)) % 64] if st[i] in alpha else ord("a")
                        if m.startswith("bcrypt") and i == 28: continue      # only two bits of the 22nd salt character are significant
                        s2 = st[:i] + bytes([c]) + st[i + 1:]
                        g.append(CS.crypt_op("rn", 0, base, s2)); gi.append((m, n, "salt", i))
                groups.append(g); info.append(gi)
    # salt lengths: every method whose salt has a variable length, at length classes that straddle the block boundaries of the hash underneath
    # (PBKDF2's fast/generic paths at salt tails 32/51/52/63/64 for the yescrypt family, 55/56/64 for the MD-style ones); every salt character
    # (for the yescrypt family: every salt byte, re-encoded) is changed in turn and the hash part must change (seeded/C03c)
    def salted(m, body):
        return {"md5crypt": b"$1$" + body, "sha256crypt": b"$5$rounds=1000$" + body, "sha512crypt": b"$6$rounds=1000$" + body,
                "sha1crypt": b"$sha1$24$" + body + b"$", "sunmd5": b"$md5,rounds=5$" + body + b"$", "scrypt": b"$7$66..../...." + body,
                "yescrypt": b"$y$j75$" + S.enc64(body), "gost_yescrypt": b"$gy$j75$" + S.enc64(body)}[m]
    SL = {"md5crypt": [1, 4, 8], "sha256crypt": [1, 8, 15, 16], "sha512crypt": [1, 8, 15, 16],
          "sha1crypt": [1, 8, 40, 55, 56, 63, 64], "sunmd5": [1, 8, 30, 55, 56, 64],
          "scrypt": [1, 8, 31, 32, 40, 51, 52, 63, 64, 65, 100] if quick else list(range(1, 130)),
          "yescrypt": [1, 16, 31, 32, 40, 51, 52, 63, 64] if quick else list(range(1, 65)),
          "gost_yescrypt": [1, 16, 32, 40, 52, 64] if quick else list(range(1, 65))}
    for m, lens_ in SL.items():
        for L in lens_:
            raw = m in ("yescrypt", "gost_yescrypt")
            body = bytes(R.rng.randrange(256) for _ in range(L)) if raw else S.rs(R.rng, S.A64, L)
            base = bytes(R.rng.randrange(0x21, 0x7f) for _ in range(12))
            g = [CS.crypt_op("rn", 0, base, salted(m, body))]; gi = [(m, 12, "base", None)]
            for i in range(L):
                if raw: b2 = body[:i] + bytes([body[i] ^ (1 << R.rng.randrange(8))]) + body[i + 1:]
                else: b2 = body[:i] + bytes([S.A64[(S.A64.index(body[i]) + 1 + R.rng.randrange(62)) % 64]]) + body[i + 1:]
                g.append(CS.crypt_op("rn", 0, base, salted(m, b2))); gi.append((m, 12, "salt", "%d of a %d-%s salt" % (i, L, "byte" if raw else "character")))
            groups.append(g); info.append(gi)
    # cost fields: settings that differ only in a cost parameter must not share their hash part.  The yescrypt family writes N, r, p, t as
    # variable-length base-64 numbers; values of 49 and more take two characters (seeded/C03d: a decoder that is not injective on them)
    for tag in (b"$y$", b"$gy$"):
        base = bytes(R.rng.randrange(0x21, 0x7f) for _ in range(10))
        salt = S.enc64(bytes(R.rng.randrange(256) for _ in range(12)))
        rs_ = [1, 2, 8, 47, 48, 49, 50, 51, 52, 63, 64, 111, 112, 113, 114, 115, 176, 177] if quick else list(range(1, 200))
        g = []; gi = []
        for r in rs_:
            st = tag + S.enc_var(47, 0) + S.enc_var(4, 1) + S.enc_var(r, 1) + b"$" + salt
            g.append(CS.crypt_op("rn", 0, base, st)); gi.append((tag.decode(), 10, "cost", "r=%d" % r))
        for pp in ([2, 3, 49, 50, 51, 113] if quick else list(range(2, 120))):
            st = tag + S.enc_var(47, 0) + S.enc_var(7, 1) + S.enc_var(1, 1) + S.enc_var(1, 1) + S.enc_var(pp, 2) + b"$" + salt
            g.append(CS.crypt_op("rn", 0, base, st)); gi.append((tag.decode(), 10, "cost", "p=%d" % pp))
        # the time parameter t (optional field, absent = 0; crypt_gensalt never writes it) and N itself (seeded/C03e: t ignored by the final pass)
        for tt in ([0, 1, 2, 3, 5] if quick else list(range(0, 40))):
            st = tag + S.enc_var(47, 0) + S.enc_var(6, 1) + S.enc_var(2, 1) + (S.enc_var(2, 1) + S.enc_var(tt, 1) if tt else b"") + b"$" + salt
            g.append(CS.crypt_op("rn", 0, base, st)); gi.append((tag.decode(), 10, "cost", "N=2^6,r=2,t=%d" % tt))
        for tt in ([1, 2, 3] if quick else list(range(1, 20))):
            st = tag + S.enc_var(47, 0) + S.enc_var(6, 1) + S.enc_var(2, 1) + S.enc_var(3, 1) + S.enc_var(2, 2) + S.enc_var(tt, 1) + b"$" + salt
            g.append(CS.crypt_op("rn", 0, base, st)); gi.append((tag.decode(), 10, "cost", "N=2^6,r=2,p=2,t=%d" % tt))
        for ln in ([2, 3, 5, 8, 9, 10] if quick else list(range(2, 13))):
            st = tag + S.enc_var(47, 0) + S.enc_var(ln, 1) + S.enc_var(3, 1) + b"$" + salt
            g.append(CS.crypt_op("rn", 0, base, st)); gi.append((tag.decode(), 10, "cost", "N=2^%d,r=3" % ln))
        for k_ in range(0, len(g), 24): groups.append(g[k_:k_ + 24]); info.append(gi[k_:k_ + 24])      # (chunks: the shards share the work; the oracle walks all ops)
    # the same for every other method with a cost parameter: neighbouring costs, same salt and phrase, must not share their hash part
    # (seeded/C03g: bsdicrypt silently running an even count as the next odd one)
    cbase = bytes(R.rng.randrange(0x21, 0x7f) for _ in range(10))
    g = []; gi = []
    def e24(v): return bytes(S.A64[(v >> (6 * k)) & 63] for k in range(4))
    for c in ([1, 2, 3, 4, 5, 6, 7, 8, 100, 101, 724, 725, 726] if quick else list(range(1, 64)) + [100, 101, 724, 725, 726, 4095, 4096, 4097]):
        g.append(CS.crypt_op("rn", 0, cbase, b"_" + e24(c) + b"abcd")); gi.append(("bsdicrypt", 10, "cost", "count=%d" % c))
    for tag_, m_ in ((b"$5$", "sha256crypt"), (b"$6$", "sha512crypt")):
        for c in ([1000, 1001, 1002, 1003, 4999, 5000, 5001] if quick else list(range(1000, 1040)) + [4999, 5000, 5001]):
            g.append(CS.crypt_op("rn", 0, cbase, tag_ + b"rounds=%d$saltsalt" % c)); gi.append((m_, 10, "cost", "rounds=%d" % c))
        g.append(CS.crypt_op("rn", 0, cbase, tag_ + b"saltsalt")); gi.append((m_, 10, "cost", "rounds=5000"))      # the implied default is the same cost as rounds=5000
    for c in ([1, 2, 3, 4, 5, 24, 25] if quick else list(range(1, 40))):
        g.append(CS.crypt_op("rn", 0, cbase, b"$sha1$%d$saltsalt$" % c)); gi.append(("sha1crypt", 10, "cost", "iterations=%d" % c))
    for c in ([0, 1, 2, 3, 4] if quick else list(range(0, 20))):
        g.append(CS.crypt_op("rn", 0, cbase, b"$md5,rounds=%d$saltsalt$" % c if c else b"$md5$saltsalt$")); gi.append(("sunmd5", 10, "cost", "rounds=%d" % c))
    for c in (4, 5, 6, 7):
        g.append(CS.crypt_op("rn", 0, cbase, b"$2b$%02d$abcdefghijklmnopqrstuu" % c)); gi.append(("bcrypt", 10, "cost", "cost=%d" % c))
    for nch in (b"4", b"5", b"6", b"7"):
        g.append(CS.crypt_op("rn", 0, cbase, b"$7$" + nch + b"6..../....saltsalt")); gi.append(("scrypt", 10, "cost", "N=" + nch.decode()))
    for k_ in range(0, len(g), 24): groups.append(g[k_:k_ + 24]); info.append(gi[k_:k_ + 24])      # (chunks: the shards share the work; the oracle walks all ops)
    ops, il, ml = R.run_pair_sharded(groups)
    infos = [x for gi in info for x in gi]
    diffs = compare(R, ops, il, ml, CS.proj_crypt, "perturbation stream")
    bad = []
    dist = R.cov["distribution"]
    base_out = None
    for op, (m, n, kind, arg), line in zip(ops, infos, il):
        f = fields(line)
        out = None if f.get("ret") == "NULL" else unhx(f.get("out"))
        if kind == "base":
            base_out = out; base_m = m
            if out is None: bad.append((op, "base request failed", line))
            continue
        if base_out is None or out is None: continue
        dig = CS.DIGLEN.get(m, 11) if m != "bigcrypt" else len(base_out) - 2
        if kind == "flip":
            sig = significant(m, n, arg[0], arg[1])
            dist["%s:%s" % (m, "significant" if sig else "insignificant")] = dist.get("%s:%s" % (m, "significant" if sig else "insignificant"), 0) + 1
            if sig and out == base_out:
                bad.append((op, "%s: flipping bit %#x of byte %d of a %d-byte passphrase (documented as significant) reproduces the same hash %r" % (m, arg[1], arg[0], n, out), line))
            if not sig and out != base_out:
                bad.append((op, "%s: byte %d bit %#x is documented as insignificant but changes the hash" % (m, arg[0], arg[1]), line))
        elif kind in ("truncate", "extend"):
            k = n - 1 if kind == "truncate" else n      # index of the byte removed / added
            sig = significant(m, n, k, 1)
            if sig and out == base_out:
                bad.append((op, "%s: a passphrase %s by one byte (at a significant position) gives the same hash" % (m, "shortened" if kind == "truncate" else "extended"), line))
        elif kind == "salt":
            if out[-dig:] == base_out[-dig:]:
                bad.append((op, "%s: changing salt character %s leaves the hash part unchanged" % (m, arg), line))
    seen_cost = {}
    for op, (m, n, kind, arg), line in zip(ops, infos, il):
        if kind != "cost": continue
        f = fields(line)
        if f.get("ret") == "NULL": continue
        part = unhx(f.get("out"))[-CS.DIGLEN.get(m, 43):]
        # (two loops may produce the very same setting under different labels - N=2^4,r=3 is reached by the r-sweep and by the N-sweep of the
        # thorough tier: only DIFFERENT settings must differ in their hash part)
        if (m, part) in seen_cost and seen_cost[(m, part)][0] != arg and seen_cost[(m, part)][1].split(" ")[4] != op.split(" ")[4]:
            bad.append((seen_cost[(m, part)][1] + " ; " + op, "%s: the settings with %s and %s (same salt, same phrase) give the same hash part" % (m, seen_cost[(m, part)][0], arg), line))
        seen_cost.setdefault((m, part), (arg, op))
    R.cov["evaluations"] = len(ops)
    R.cov["distinct_nontrivial"] = len(set(ops))
    R.cov["rule"] = ("for every method and phrase lengths %s: single-bit flips (thorough: every bit of every byte for lengths up to 32 and the lengths 64, 72, 73, 128, 129, 511, boundary and random positions for the other lengths; quick: boundary positions 7/8, 71/72, 127/128 and samples), "
                     "truncation and extension by one byte, and a change of every salt character; inside the documented significant window the hash must change, outside "
                     "(bytes beyond 8/128/72, the 8th bit for DES-based methods) it must not; every op is also compared with the model's full output" % ("1..511" if not quick else str(lens)))
    idx = R.rng.sample(range(len(ops)), 4)
    R.cov["samples"] = [{"op": ops[i][:300], "impl": il[i][:200], "model": ml[i][:200]} for i in idx]
    finish_proof(R, ok, badthm, bad, diffs, "perturbation")

def replay(R, j):
    op = (j.get("failing_input") or {}).get("op")
    if not op: print("no concrete op; unproved:", j.get("unproved")); return 2
    print(op); print(R.run_impl([op])[0]); return 0

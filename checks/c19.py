"""C19 — every --enable-hashes selection yields a coherent library."""
import os, shutil, subprocess
from checks.common import *
from checks import cryptstream as CS, settings as S, gensaltstream as GS
from checks.cryptstream import finish_proof
import cbuild

ALL = list(S.METHODS)
GROUPS = {
    "strong": ["yescrypt", "gost_yescrypt", "scrypt", "bcrypt", "bcrypt_y", "bcrypt_a", "sha512crypt"],
    "glibc": ["sha512crypt", "sha256crypt", "md5crypt", "descrypt"],
    "freebsd": ["bcrypt", "bcrypt_a", "sha512crypt", "sha256crypt", "md5crypt", "nt", "bsdicrypt", "descrypt"],
    "solaris": ["bcrypt", "bcrypt_a", "sha512crypt", "sha256crypt", "sunmd5", "md5crypt", "descrypt"],
}

def configs(R):
    quick = R.tier == "quick"
    cs = [("all", ALL), ("strong", GROUPS["strong"]), ("only-sha512crypt", ["sha512crypt"]), ("all-but-yescrypt", [m for m in ALL if m != "yescrypt"]),
          ("scrypt-without-yescrypt", ["scrypt", "sha256crypt"]), ("bigcrypt-without-descrypt", ["bigcrypt", "md5crypt"]),
          ("yescrypt-without-scrypt", ["yescrypt", "gost_yescrypt", "sha512crypt"]),
          # descrypt on its own: in the full build bigcrypt sits in front of it and hashes the short phrases itself (seeded/C19f)
          ("descrypt-without-bigcrypt", ["descrypt", "sha256crypt"])]
    if not quick:
        cs += [("only-" + m, [m]) for m in ALL] + [("all-but-" + m, [x for x in ALL if x != m]) for m in ALL]
        cs += [(k, v) for k, v in GROUPS.items()]
        for i in range(32):
            sub = [m for m in ALL if R.rng.random() < 0.5]
            if sub: cs.append(("random%d" % i, sub))
        cs += [("yescrypt-only", ["yescrypt"]), ("gost-only", ["gost_yescrypt"]), ("descrypt-only", ["descrypt"])]
    return cs

def corpus(R):
    ops = []
    for m in ALL:
        ops.append(CS.crypt_op("rn", 0, b"pw", S.CANON[m]))
        ops.append(CS.crypt_op("rn", 0, b"a longer passphrase!", S.CANON[m]))
        ops.append("K " + hx(S.CANON[m]))
        pfx = GS.TAGS.get(m, b"")
        rb = bytes(R.rng.randrange(256) for _ in range(32))
        ops.append("G rn %s 0 %s 32 192" % (hx(pfx), hx(rb)))
        ops.append("G rn %s 0 %s 32 14" % (hx(pfx), hx(rb)))
        # explicit costs: the count handling lives in code shared between methods (util-gensalt-sha.c for $1$/$5$/$6$, the yescrypt family's
        # parameter encoder) and can be tied to the wrong INCLUDE_ macro as easily as the hashing code (seeded/C19c)
        for count in {"sha512crypt": [1000, 10000, 656000], "sha256crypt": [1000, 10000, 656000], "md5crypt": [1000], "sha1crypt": [1000, 300000], "sunmd5": [70000],
                      "bcrypt": [4, 9], "bcrypt_a": [6], "bcrypt_y": [7], "yescrypt": [1, 3, 7], "gost_yescrypt": [2, 6], "scrypt": [6, 9], "bsdicrypt": [1, 5001, 70000]}.get(m, []):
            ops.append("G rn %s %d %s 32 192" % (hx(pfx), count, hx(rb)))
    # the modes of the shared yescrypt KDF that another method also uses (flavor 0 = classic scrypt, 1 = WORM), reached through $y$ / $gy$
    for st in (b"$y$.75$abcd", b"$y$/65$abcd", b"$gy$.75$abcd", b"$gy$/65$abcd", b"$y$j75./$abcd", b"$7$66..../....abcd$"):
        ops.append(CS.crypt_op("rn", 0, b"pw", st)); ops.append("K " + hx(st))
    ops += [CS.crypt_op("rn", 0, b"longphrase-over-8", b"ab"), CS.crypt_op("rn", 0, b"longphrase-over-8", b"ab............"), CS.crypt_op("rn", 0, b"short", b"ab............"),
            "K 6162", "K 6162" + "2e" * 12, "P", "G rn - 0 %s 32 192" % hx(bytes(32)), "G st - 0 %s 32 0" % hx(bytes(32)), "G rn . 0 0101 2 192", "G rn . 0 0101 2 14"]
    return ops

def run(R):
    ok, badthm = R.prove(["Xc.Thm.C19"])
    base = corpus(R)
    drv, out = R.driver()
    bad, diffs = [], []
    nconf = 0
    ref = {}   # full-build answers: each enabled method must compute the same hashes and settings as in the full build
    dist = R.cov["distribution"]
    for name, sel in configs(R):
        d = os.path.join(R.scratch, "cfg_" + name); os.makedirs(d, exist_ok=True)
        he = "," + ",".join(sorted(sel)) + ","
        try:
            cbuild.gen_headers(d, hashes_enabled=he, compat_abi=("yes" if "descrypt" in sel else "no"))
            objs = cbuild.compile_lib(d)
            exe = cbuild.build_harness(d, os.path.join(os.path.dirname(os.path.abspath(__file__)), "..", "harness", "harness.c"), objs, os.path.join(d, "harness"),
                                       extra=["-DXC_NO_PRIM"], ldextra=["-Wl,--wrap=arc4random_buf"])
            # symbol coherence of the library itself: shared link with --no-undefined and the generated version script
            cbuild.link_so(d, cbuild.compile_lib(d, pic=True))
        except Exception as e:
            bad.append(("CFG " + he, "the library does not build with --enable-hashes=%s: %s" % (he, str(e)[-400:]), "")); continue
        ops = ["CFG " + ",".join(sel)] + base
        il = subprocess.run([exe], input="\n".join(ops) + "\n", text=True, capture_output=True).stdout.splitlines()
        ml = subprocess.run([drv], input="\n".join(ops) + "\n", text=True, capture_output=True).stdout.splitlines()
        def proj(op, a, b):
            if op.startswith("C "): return CS.proj_crypt(op, a, b)
            if op.startswith("G "): return None if (a.get("ret"), a.get("errno")) == (b.get("ret"), b.get("errno")) else "gensalt differs"
            return None if a == b else "differs"
        dd = compare(R, ops, il, ml, proj, "configuration " + name)
        diffs += [(("[%s] " % name) + str(o), m) for o, m in dd]
        nconf += 1
        # oracle: enabled methods answer as in the full build; disabled prefixes are refused like an unknown one
        for op, line in zip(ops, il):
            if name == "all": ref[op] = line; continue
            t = op.split(" ")
            arg = unhx(t[4]) if t[0] == "C" else (unhx(t[1]) if t[0] == "K" else (unhx(t[2]) if t[0] == "G" else None))
            if arg is None or t[0] not in ("C", "K", "G"): continue
            m = CS.method_of(arg) if arg else "des-family"
            if m == "des-family":
                enabled = ("descrypt" in sel) or ("bigcrypt" in sel); same = ("descrypt" in sel) and ("bigcrypt" in sel)
                if t[0] == "C":
                    # crypt(5): an untagged setting of at most 13 characters with a phrase longer than 8 is a traditional-DES request even where
                    # bigcrypt owns the untagged settings; it needs descrypt itself (seeded/C19)
                    plen = len(unhx(t[3]) or b""); slen = len(arg)
                    req = "descrypt" if (plen > 8 and slen <= 13) else ("bigcrypt" if "bigcrypt" in sel else "descrypt")
                    enabled = req in sel
                    # a traditional-DES request (setting of at most 13 characters) has one answer whichever of the two methods serves it: bigcrypt
                    # of a phrase of up to 8 bytes is descrypt's hash by design, so descrypt on its own answers as the full build does (seeded/C19f)
                    if "descrypt" in sel and slen <= 13: same = True
            else:
                enabled = m in sel; same = enabled
            f = fields(line)
            k = "%s:%s" % (name, "enabled" if enabled else "disabled"); dist[k] = dist.get(k, 0) + 1
            if same and op in ref and line != ref[op] and t[0] != "G":
                bad.append(("[--enable-hashes=%s] %s" % (he, op), "an enabled method answers differently from the full build: %s vs %s" % (line[:150], ref[op][:150]), line))
            if same and op in ref and t[0] == "G" and (f.get("ret"), f.get("errno")) != (fields(ref[op]).get("ret"), fields(ref[op]).get("errno")):
                bad.append(("[--enable-hashes=%s] %s" % (he, op), "crypt_gensalt of an enabled method differs from the full build", line))
            if not enabled:
                refused = (t[0] == "C" and f.get("ret") == "NULL" and f.get("errno") == "EINVAL") or (t[0] == "K" and f.get("status") == "1") or \
                          (t[0] == "G" and f.get("ret") == "NULL" and f.get("errno") in ("EINVAL", "ERANGE"))
                if not refused:
                    bad.append(("[--enable-hashes=%s] %s" % (he, op), "a disabled method's prefix is not refused like an unknown one: " + line[:200], line))
        # default prefix / preferred method / NULL prefix
        pi = ops.index("P"); pref = fields(il[pi]).get("pref")
        cand = [m for m in ("yescrypt", "bcrypt", "sha512crypt") if m in sel]
        want = hx(PREFIXES[cand[0]]) if cand else "NULL"
        if pref != want:
            bad.append(("[--enable-hashes=%s] P" % he, "crypt_preferred_method is %s, the strongest enabled default-capable method gives %s" % (pref, want), il[pi]))
        # the header generated for this configuration promises what the library of this configuration does (seeded/C19g)
        try:
            import re as re_
            mac = re_.search(r"#define\s+CRYPT_GENSALT_IMPLEMENTS_DEFAULT_PREFIX\s+(\d+)", open(os.path.join(d, "crypt.h")).read()).group(1)
        except Exception: mac = None
        if mac is not None and (mac == "1") != bool(cand):
            bad.append(("[--enable-hashes=%s] crypt.h" % he, "crypt.h says CRYPT_GENSALT_IMPLEMENTS_DEFAULT_PREFIX %s; enabled default-capable methods: %s (crypt_preferred_method: %s)"
                        % (mac, cand or "none", pref), il[pi]))
        shutil.rmtree(d, ignore_errors=True)
    # the Lean model of the generator (`mkTable`, `mkDefault`: what `C19_all_configs` is a theorem about) against the tree's own
    # gen-crypt-hashes-h, without compiling anything: singletons, leave-one-out sets, the named groups and random subsets in the quick tier,
    # ALL 65 536 subsets in the thorough tier; table rows (prefix, length, crypt entry, gensalt entry, nrbytes, strong flag, order) and default
    import re, concurrent.futures
    script = os.path.join(cbuild.REPO, "build-aux/scripts/gen-crypt-hashes-h"); conf = os.path.join(cbuild.REPO, "lib/hashes.conf")
    if R.tier == "quick":
        subsets = [[m] for m in ALL] + [[x for x in ALL if x != m] for m in ALL] + list(GROUPS.values()) + [ALL]
        for _ in range(1500): subsets.append([m for m in ALL if R.rng.random() < R.rng.choice([0.15, 0.5, 0.85])])
        subsets = [x for x in subsets if x]
    else:
        subsets = [[m for i, m in enumerate(ALL) if n >> i & 1] for n in range(1, 1 << len(ALL))]
    def gen_one(sel):
        r = subprocess.run(["perl", script, conf, "," + ",".join(sorted(sel)) + ","], text=True, capture_output=True, env=dict(os.environ, LC_ALL="C"))
        if r.returncode != 0: return "ERR " + r.stderr[-200:]
        rows = []
        for pfx, plen, cr, gs, nrb, strong in re.findall(r'\{ "([^"]*)",\s*(\d+), crypt_(\w+)_rn,\s*gensalt_(\w+)_rn,\s*(\d+),\s*(\d+)\}', r.stdout):
            rows.append("%s,%s,%s,%s,%s,%s" % (hx(pfx.encode()) if pfx else ".", plen, cr, gs, nrb, strong))
        m = re.search(r'#define HASH_ALGORITHM_DEFAULT "([^"]*)"', r.stdout)
        return "tbl=" + ";".join(rows) + " default=" + (hx(m.group(1).encode()) if m else "NULL")
    with concurrent.futures.ThreadPoolExecutor(16) as ex:
        real = list(ex.map(gen_one, subsets))
    mops = []
    for sel in subsets: mops += ["CFG " + ",".join(sel), "TBL"]
    mout = subprocess.run([drv], input="\n".join(mops) + "\n", text=True, capture_output=True).stdout.splitlines()[1::2]
    ngen = 0
    for sel, a, b in zip(subsets, real, mout):
        ngen += 1
        if a != b:
            diffs.append(("[gen-crypt-hashes-h --enable-hashes=%s]" % ",".join(sorted(sel)), "the tree's generator and its Lean model (mkTable/mkDefault) disagree: %s vs %s" % (a[:300], b[:300])))
            # the property, stated on the generator's output itself: default = first enabled default-capable method, rows = exactly the enabled methods
            cand = [m for m in ("yescrypt", "bcrypt", "sha512crypt") if m in sel]
            want = hx(PREFIXES[cand[0]]) if cand else "NULL"
            got = a.split(" default=")[-1]
            names = sorted(x.split(",")[2] for x in a[4:].split(" default=")[0].split(";") if x)
            if got != want:
                bad.append(("[--enable-hashes=%s] gen-crypt-hashes-h" % ",".join(sorted(sel)), "HASH_ALGORITHM_DEFAULT is %s; the strongest enabled default-capable method gives %s" % (got, want), a[:300]))
            elif names != sorted(sel):
                bad.append(("[--enable-hashes=%s] gen-crypt-hashes-h" % ",".join(sorted(sel)), "the generated dispatch table holds %s, enabled are %s" % (names, sorted(sel)), a[:300]))
    R.cov["generator_configurations_compared"] = ngen
    R.cov["evaluations"] = nconf * len(base) + ngen
    R.cov["distinct_nontrivial"] = nconf
    R.cov["configurations_built"] = nconf
    R.cov["rule"] = ("real builds (the tree's perl generators + gcc on lib/*.c in a scratch directory) of %d configurations: all, strong, singletons, leave-one-out, "
                     "named groups, random subsets (thorough); each driven with a corpus of settings/gensalt/checksalt calls for every method and compared with the model "
                     "under that configuration and with the full build; non-trivial = configurations built" % nconf)
    R.cov["samples"] = [{"config": n, "enabled": s} for n, s in configs(R)[:4]]
    finish_proof(R, ok, badthm, bad, diffs, "configurations")

def replay(R, j):
    print("replay: re-run the check; failing input:", j.get("failing_input")); return 2

"""C20 — binary interface stays compatible with released libcrypt.so.1."""
import re
import os, subprocess, json
from checks.common import *
from checks import cryptstream as CS, settings as S
from checks.cryptstream import finish_proof

RELEASED_SO = "/lib/x86_64-linux-gnu/libcrypt.so.1"
RELEASED_INC = "/usr/include"

def expected_map(map_in_text, compat, vmin, vfloor):
    """(symbol, version) pairs the version script must export, computed from libcrypt.map.in by the rules its header comment and
    gen-libcrypt-map document: a version without tags is always available, a tagged one if COMPAT_ABI is 'yes' or equals one of its
    tags; versions below SYMVER_MIN are dropped, versions below SYMVER_FLOOR are replaced by SYMVER_FLOOR"""
    order, entries = [], []
    for line in map_in_text.splitlines():
        line = line.strip()
        if not line or line.startswith("#"): continue
        t = line.split()
        if t[0] == "%chain": order += t[1:]; continue
        sym, vers = t[0], t[1:]
        if vers and vers[0] == "-": vers = vers[1:]
        entries.append((sym, vers))
    idx = {v: i for i, v in enumerate(order)}
    out = set()
    for sym, vers in entries:
        for v in vers:
            tags = v.split(":"); ver = tags.pop(0)
            if tags and compat != "yes" and compat not in tags: continue
            if idx[ver] < idx[vmin]: continue
            out.add((sym, vfloor if idx[ver] < idx[vfloor] else ver))
    return out

def parse_map(text):
    """(symbol, version) pairs of a generated linker version script"""
    out, cur, glob = set(), None, False
    for line in text.splitlines():
        line = line.strip()
        m = re.match(r"^([A-Za-z0-9_.]+) \{$", line)
        if m: cur, glob = m.group(1), False; continue
        if line.startswith("global:"): glob = True; continue
        if line.startswith("local:"): glob = False; continue
        if line.startswith("}"): cur = None; continue
        if cur and glob and line.endswith(";"): out.add((line[:-1], cur))
    return out

def run(R):
    R.with_abi = True
    ok, badthm = R.prove()
    ref = json.load(open(os.path.join(os.path.dirname(os.path.abspath(__file__)), "..", "ref", "released-4.4.33.json")))
    bad, diffs = [], []
    # client compiled against the RELEASED header, linked against the freshly built library
    have_released = os.path.exists(RELEASED_SO) and os.path.exists(os.path.join(RELEASED_INC, "crypt.h"))
    exe, so = R.so_harness(header_dir=RELEASED_INC if have_released else None)
    quick = R.tier == "quick"
    ops = ["ABI"]
    g, gm = CS.gen_stream(R, 250 if quick else 5000, entries=("r", "rn", "st"))
    # keep the cheap ones (the released library computes them too)
    # inputs whose behaviour was changed on purpose by the fix: commits (over-long sha1crypt / scrypt salts) are not part of
    # the cross-release comparison
    kept = [o for o, m in zip(g, gm) if m[0] not in ("scrypt",) and "bigsalt" not in m[1]]
    # the objects hold what an application may keep in them (random bytes in `setting`, `input` and the scratch areas), refilled now and then
    for k, o in enumerate(kept):
        if k % 10 == 0:
            for i in range(8): ops.append("O %d %s %d %d" % (i, "rfp"[(k // 10 + i) % 3], i, R.rng.randrange(1 << 30)))
        ops.append(o)
    for m in S.METHODS:
        for sym, ver in [("crypt", "GLIBC_2.2.5"), ("crypt", "XCRYPT_2.0"), ("fcrypt", "GLIBC_2.2.5"), ("xcrypt", "XCRYPT_2.0")]:
            ops.append("CV %s %s %s %s" % (sym, ver, hx(b"old binary"), hx(S.CANON[m])))
    # the re-entrant compat names an old binary binds: crypt_gensalt_r / xcrypt_gensalt_r (XCRYPT_2.0) are called the way crypt_gensalt_rn is,
    # xcrypt_r / crypt_r@GLIBC_2.2.5 the way crypt_r is; everything such a caller can observe is compared with the modern name (seeded/C20e)
    GV_SYMS = [("crypt_gensalt_rn", "-"), ("crypt_gensalt_r", "XCRYPT_2.0"), ("xcrypt_gensalt_r", "XCRYPT_2.0")]
    RV_SYMS = [("crypt_r", "-"), ("crypt_r", "GLIBC_2.2.5"), ("xcrypt_r", "XCRYPT_2.0")]
    gv_cases = []
    rbv = hx(bytes(range(7, 39)))
    for m in ("yescrypt", "sha512crypt", "bcrypt", "md5crypt", "descrypt"):
        for cnt, nrb, size in ((0, 32, 192), (0, 32, 5), (0, 2, 192), (1, 32, 192)):
            gv_cases.append("%s %d %s %d %d" % (hx(PREFIXES.get(m, b"")), cnt, rbv, nrb, size))
    gv_cases.append("%s 0 %s 32 192" % (hx(b"$zz$"), rbv))
    for case in gv_cases:
        for sym, ver in GV_SYMS: ops.append("GV %s %s %s" % (sym, ver, case))
    rv_cases = ["%s %s" % (hx(b"old binary"), hx(S.CANON[m])) for m in S.METHODS] + ["%s %s" % (hx(b"x"), hx(b"$1$bad:salt")), "%s %s" % (hx(b"x"), hx(b"*0"))]
    for case in rv_cases:
        for sym, ver in RV_SYMS: ops.append("RV %s %s %s" % (sym, ver, case))
    # the re-entrant DES pair on objects an old binary never cleared (glibc only asked for `initialized = 0`): filled 0xff / random / pattern (seeded/C20f)
    for i, fill in enumerate("frp"):
        ops += ["O %d %s %d %d" % (i + 2, fill, i, R.rng.randrange(1 << 30)), "SKR %d 0123456789abcdef %d" % (i + 2, i), "ENR %d 4e6f772069732074 0 %d" % (i + 2, i),
                "ENR %d 3fa40e8a984d4815 1 0" % (i + 2)]
    ops += ["SK 0123456789abcdef 3", "EN 4e6f772069732074 0 5", "EN 3fa40e8a984d4815 1 0", "SKR 1 133457799bbcdff1 9", "ENR 1 0123456789abcdef 0 2", "ENR 1 85e813540f0ab405 1 2"]
    rb = hx(bytes(R.rng.randrange(256) for _ in range(32)))
    for m in S.METHODS:
        pfx = hx(PREFIXES.get(m, b""))
        ops += ["G rn %s 0 %s 32 192" % (pfx, rb), "G ra %s 0 %s 32 0" % (pfx, rb), "G st %s 0 %s 32 0" % (pfx, rb), "K " + hx(S.CANON[m])]
    ops.append("P")
    def run_with(so_path, libdir):
        env = dict(os.environ, XC_SO_PATH=so_path)
        if libdir: env["LD_LIBRARY_PATH"] = libdir
        r = subprocess.run([exe], input="\n".join(ops) + "\n", text=True, capture_output=True, env=env, timeout=3000)
        return r.stdout.splitlines(), r.stderr
    fresh, e1 = run_with(so, None)
    ml = R.run_model(ops)
    def proj(op, a, b):
        if op.startswith("C "): return CS.proj_crypt(op, a, b)
        if op.startswith("G "): return None if (a.get("ret"), a.get("errno")) == (b.get("ret"), b.get("errno")) else "gensalt differs"
        if op.startswith(("K ", "P", "EN", "SK")): return None if a.get("d", a) == b.get("d", b) or a == b else "differs"
        return None
    diffs += compare(R, ops, fresh, ml, proj, "old-header client on fresh library vs model")
    if len(fresh) != len(ops):
        bad.append(("client", "a client built against the released <crypt.h> does not run against the fresh library: " + e1[-300:], e1[-300:]))
    # an old binary may keep its phrase and setting in the `input` and `setting` fields of struct crypt_data (the released header offers them
    # for that) and use them again: the harness fills both with random bytes before each call and compares them afterwards (seeded/C20c)
    for op, a in zip(ops, fresh):
        if op.startswith("C ") and fields(a).get("app") == "0":
            bad.append((op, "the fresh library wrote the application-owned fields `setting`/`input` of the released struct crypt_data layout "
                            "(offsets 384..1279): an old binary that keeps its phrase there loses it", a))
    # layout the client compiled in vs released facts
    f = fields(fresh[0]) if fresh else {}
    lay = ref["layout"]
    for k, rk in [("sizeof", "sizeof"), ("output", "output"), ("setting", "setting"), ("input", "input"), ("reserved", "reserved"), ("initialized", "initialized"), ("internal", "internal"),
                  ("OUT", "CRYPT_OUTPUT_SIZE"), ("PASS", "CRYPT_MAX_PASSPHRASE_SIZE"), ("GENSALT", "CRYPT_GENSALT_OUTPUT_SIZE")]:
        if f.get(k) != str(lay[rk]): bad.append(("ABI", "%s is %s, released value %s" % (rk, f.get(k), lay[rk]), fresh[0] if fresh else ""))
    # every released (symbol, version) still exported by the fresh library
    out = subprocess.run(["readelf", "--dyn-syms", "-W", so], text=True, capture_output=True).stdout
    have = set()
    for l in out.splitlines():
        t = l.split()
        if len(t) >= 8 and t[6] != "UND" and "@" in t[7]: have.add(t[7].replace("@@", "@"))
    for s in ref["symbols"]:
        if s["sym"] + "@" + s["ver"] not in have:
            bad.append(("SYM %s@%s" % (s["sym"], s["ver"]), "symbol version exported by the released library is missing from the fresh one", ""))
    # the version map in every compatibility configuration (the property quantifies over configurations): the tree's generator
    # against the rules documented in libcrypt.map.in, for --enable-obsolete-api = yes / glibc / alt / owl / suse (seeded/C20b)
    import cbuild
    mv = cbuild.make_vars()
    map_in = open(os.path.join(cbuild.REPO, "lib", "libcrypt.map.in")).read()
    nmaps = 0
    for ca in ("yes", "glibc", "alt", "owl", "suse"):
        for vfloor in sorted({mv["SYMVER_FLOOR"], "GLIBC_2.0"}):
            r = subprocess.run(["perl", os.path.join(cbuild.REPO, "build-aux/scripts/gen-libcrypt-map"), "SYMVER_MIN=" + mv["SYMVER_MIN"],
                                "SYMVER_FLOOR=" + vfloor, "COMPAT_ABI=" + ca, os.path.join(cbuild.REPO, "lib/libcrypt.map.in")],
                               text=True, capture_output=True, env=dict(os.environ, LC_ALL="C"))
            if r.returncode != 0:
                bad.append(("MAP COMPAT_ABI=%s SYMVER_FLOOR=%s" % (ca, vfloor), "gen-libcrypt-map fails: " + r.stderr[-200:], "")); continue
            got, want = parse_map(r.stdout), expected_map(map_in, ca, mv["SYMVER_MIN"], vfloor)
            nmaps += 1
            for sym, ver in sorted(want - got):
                bad.append(("MAP COMPAT_ABI=%s SYMVER_FLOOR=%s %s@%s" % (ca, vfloor, sym, ver),
                            "with --enable-obsolete-api=%s the version script does not export %s@%s, which libcrypt.map.in assigns to that configuration" % (ca, sym, ver), ""))
            for sym, ver in sorted(got - want):
                bad.append(("MAP COMPAT_ABI=%s SYMVER_FLOOR=%s %s@%s" % (ca, vfloor, sym, ver),
                            "with --enable-obsolete-api=%s the version script exports %s@%s, which libcrypt.map.in does not assign to that configuration" % (ca, sym, ver), ""))
    # the symbol-version floor configure would pick does not depend on harmless whitespace in $CFLAGS (seeded/C20g: an empty first word made
    # every preprocessor probe fail and the floor fall to the catch-all GLIBC_2.0, dropping the released @GLIBC_2.2.5 names)
    floors = {}
    script = os.path.join(cbuild.REPO, "build-aux/scripts/compute-symver-floor")
    import platform
    for cf in ("", "-O2", " -O2", "-O2 ", "  -g   -O2 ", "\t-O1"):
        r = subprocess.run(["perl", script, os.path.join(cbuild.REPO, "lib/libcrypt.minver"), "linux-gnu", platform.machine()], text=True, capture_output=True,
                           env=dict(os.environ, CC="gcc", CFLAGS=cf), cwd=R.scratch)
        floors[cf] = (r.stdout.strip().splitlines() or ["<failed: %s>" % r.stderr.strip()[-120:]])[-1]
    if len(set(floors.values())) != 1 or set(floors.values()) != {mv["SYMVER_FLOOR"]}:
        bad.append(("compute-symver-floor with CFLAGS in %r" % sorted(floors), "the symbol-version floor depends on whitespace in CFLAGS or differs from the configured %s: %r"
                    % (mv["SYMVER_FLOOR"], floors), str(floors)))
    R.cov["version_maps_checked"] = nmaps
    # compat-only names behave as their modern counterparts
    byop = dict(zip(ops, fresh))
    for m in S.METHODS:
        outs = {(sym, ver): byop.get("CV %s %s %s %s" % (sym, ver, hx(b"old binary"), hx(S.CANON[m]))) for sym, ver in
                [("crypt", "GLIBC_2.2.5"), ("crypt", "XCRYPT_2.0"), ("fcrypt", "GLIBC_2.2.5"), ("xcrypt", "XCRYPT_2.0")]}
        if len(set(outs.values())) != 1:
            bad.append(("CV * %s" % m, "crypt/fcrypt/xcrypt bound at different versions disagree: %r" % outs, str(outs)))
    for kind, cases, syms in (("GV", gv_cases, GV_SYMS), ("RV", rv_cases, RV_SYMS)):
        for case in cases:
            outs = {"%s@%s" % (sym, ver): byop.get("%s %s %s %s" % (kind, sym, ver, case)) for sym, ver in syms}
            if len(set(outs.values())) != 1 or any(v is None or "NOSYM" in v for v in outs.values()):
                bad.append(("%s %s %s %s" % (kind, syms[1][0], syms[1][1], case), "a compatibility-only symbol does not behave as its modern counterpart (return value, errno, "
                            "caller's buffer): %r" % outs, str(outs)))
    # identical results when the released library is substituted
    if have_released:
        old, e2 = run_with(RELEASED_SO, os.path.dirname(RELEASED_SO))
        n = 0
        for op, a, b in zip(ops, fresh, old):
            if op.startswith(("G ", "P", "ABI")): 
                if op.startswith("P") or op.startswith("ABI"): pass
                # generated settings must match as well (same inputs) - except where a fix: changed behaviour on purpose
            fa, fb = fields(a), fields(b)
            keys = ("ret", "errno", "out", "d", "status", "pref") if not op.startswith("C ") else ("ret", "out")
            if any(fa.get(k) != fb.get(k) for k in keys):
                bad.append((op, "result differs between the fresh and the released library: %s vs %s" % (a[:200], b[:200]), a))
            n += 1
        R.cov["compared_with_released"] = n
    else:
        R.assumptions.append("released libcrypt.so.1 / crypt.h not present on this machine: cross-run comparison skipped, symbol/layout facts from /verif/ref only")
    R.cov["evaluations"] = len(ops)
    R.cov["distinct_nontrivial"] = len(set(ops))
    R.cov["rule"] = ("a client compiled against the released /usr/include/crypt.h, binding old symbol versions with dlvsym, run against the freshly linked libcrypt.so.1 "
                     "and against the released one on a corpus over all methods, gensalt entry points, checksalt, setkey/encrypt; layout/constants/(symbol,version) "
                     "pairs against /verif/ref/released-4.4.33.json")
    R.cov["samples"] = [{"op": ops[i][:200], "fresh": fresh[i][:200]} for i in R.rng.sample(range(min(len(ops), len(fresh))), 4)]
    finish_proof(R, ok, badthm, bad, diffs, "ABI")

def replay(R, j):
    print("replay: failing input:", j.get("failing_input")); return 2

"""C01 — authentication round trip: re-hashing with a produced hash reproduces it;
only prefix, options and salt of a setting influence the result."""
from checks.common import *
from checks import cryptstream as CS, settings as S

def hash_part_len(m, H):
    if m == "bigcrypt" or (m == "descrypt" and len(H) > 13): return len(H) - 2
    return CS.DIGLEN[m]

def alphabet_for(m):
    if m.startswith("bcrypt"): return S.BF64
    if m == "nt": return b"0123456789abcdef"
    return S.A64

def run(R):
    ok, badthm = R.prove()
    quick = R.tier == "quick"
    ops, meta = CS.gen_stream(R, 2500 if quick else 60000, entries=("rn",), big_frac=0.06)
    starts = list(range(len(ops)))
    # the produced hash must verify whatever the data object held when it was produced: first call on an object the application filled
    # (0xff / random / pattern; crypt.h asks only for `initialized = 0`), every method, phrase-length classes 2 / 32 / 257; the re-hash below runs
    # on the object as that call left it (seeded/C01e: a hash made on a never-cleared object could not be verified afterwards)
    ph257 = bytes(0x21 + (i * 7) % 94 for i in range(257))
    for m in S.METHODS:
        for ph in (b"pw", b"a phrase longer than eight bytes", ph257):
            for fill in "frp":
                starts.append(len(ops))
                ops.append("O 0 %s %d %d" % (fill, R.rng.randrange(16), R.rng.randrange(1 << 30))); meta.append(("setup", "obj", 0, 0))
                ops.append(CS.crypt_op("r" if fill == "f" else "rn", 0, ph, S.CANON[m])); meta.append((m, "first-call-on-filled-object", len(ph), len(S.CANON[m])))
    # salts spelled like option fields: what follows `$5$` is read as `rounds=N$` when it looks like it, whether it was meant as the option or as
    # the salt - a result that drops or rewrites its option field shifts such a salt into the option position (seeded/C01g)
    for st, m in [(b"$5$rounds=5000$rounds=1000", "sha256crypt"), (b"$5$rounds=5000$rounds=77", "sha256crypt"), (b"$5$rounds=5000$rounds=", "sha256crypt"),
                  (b"$5$rounds=1000$rounds=5000", "sha256crypt"), (b"$5$rounds=5000$rounds=5000$x", "sha256crypt"), (b"$5$rounds=1234$rounds=1234", "sha256crypt"),
                  (b"$6$rounds=5000$rounds=1000", "sha512crypt"), (b"$6$rounds=5000$rounds=77$", "sha512crypt"), (b"$6$rounds=1000$rounds=5000", "sha512crypt"),
                  (b"$6$rounds=5000$rounds=999999999", "sha512crypt"), (b"$md5,rounds=5$rounds=7$", "sunmd5"), (b"$md5$rounds=5$", "sunmd5"), (b"$md5$rounds=5$$", "sunmd5"),
                  (b"$sha1$24$rounds=5$", "sha1crypt"), (b"$sha1$24$24$", "sha1crypt"), (b"$1$rounds=5", "md5crypt"), (b"$1$rounds=5000$x", "md5crypt")]:
        for ph in (b"pw", b"a phrase longer than eight bytes"):
            starts.append(len(ops)); ops.append(CS.crypt_op("rn", 0, ph, st)); meta.append((m, "option-like-salt", len(ph), len(st)))
    ops, meta, il, ml = CS.run_budgeted(R, ops, meta, group_starts=starts)
    diffs = compare(R, ops, il, ml, lambda op, a, b: CS.proj_crypt(op, a, b) if op.startswith("C ") else None, "first hash")
    # second round: for every success, re-hash with H and with H whose hash portion is replaced
    ops2, meta2, want = [], [], []
    unterminated = []
    starts2 = []
    for op, m, line in zip(ops, meta, il):
        f = fields(line)
        if not op.startswith("C ") or f.get("ret") == "NULL" or f.get("out", "2a").startswith("2a"): continue
        if f.get("out") == "unterminated":
            unterminated.append((op, "a successful call left no NUL-terminated string in the output field", line)); continue
        H = unhx(f["out"]); ph = op.split(" ")[3]
        n = hash_part_len(m[0], H)
        starts2.append(len(ops2))
        ops2.append("C rn 0 %s %s" % (ph, hx(H))); meta2.append((m[0], "rehash:" + m[1], m[2], len(H))); want.append(H)
        if m[1] == "first-call-on-filled-object":
            # the verifying call on an object that holds a longer earlier result / that the application filled (seeded/C01f: the end of the
            # result string came from what the object held before)
            for pre in ("C rn 0 7077 %s" % hx(S.CANON["sha512crypt"]), "O 0 f 3 1", "O 0 r 5 %d" % R.rng.randrange(1 << 30)):
                starts2.append(len(ops2))
                ops2.append(pre); meta2.append(("setup", "obj", 0, 0)); want.append(None)
                ops2.append("C rn 0 %s %s" % (ph, hx(H))); meta2.append((m[0], "rehash-on-used-object:" + m[1], m[2], len(H))); want.append(H)
        sub = H[:len(H) - n] + S.rs(R.rng, alphabet_for(m[0]), n)
        starts2.append(len(ops2))
        ops2.append("C rn 0 %s %s" % (ph, hx(sub))); meta2.append((m[0], "hashpart-replaced:" + m[1], m[2], len(H))); want.append(H)
    ops2b, meta2b, il2, ml2 = CS.run_budgeted(R, ops2, meta2, group_starts=starts2)
    wantmap = {o: w for o, w in zip(ops2, want) if w is not None}
    diffs += compare(R, ops2b, il2, ml2, lambda op, a, b: CS.proj_crypt(op, a, b) if op.startswith("C ") and op in wantmap else None, "re-hash")
    bad = list(unterminated)
    for op, m, line in zip(ops2b, meta2b, il2):
        if m[0] == "setup" or op not in wantmap: continue
        f = fields(line); H = wantmap[op]
        got = None if f.get("ret") == "NULL" else (f.get("out").encode() if f.get("out") == "unterminated" else unhx(f.get("out")))
        if got != H:
            what = "re-hashing with the produced hash" if m[1].startswith("rehash") else "replacing the hash portion of the setting by other same-length alphabet text"
            bad.append((op, "%s does not reproduce the hash: got %r (errno %s), stored %r" % (what, got, f.get("errno"), H), line))
    R.cov["evaluations"] = len(ops) + len(ops2b)
    R.cov["distinct_nontrivial"] = len(set(ops2b))
    R.cov["rule"] = ("grammar-shaped settings for all 16 methods (every salt length 0..max+3, cost-field spellings, '$' terminators, trailing hash / junk, "
                     "over-long sha1crypt and scrypt salts) x phrases 0..511 bytes (8-bit); every success is re-hashed with its result and with a setting "
                     "whose hash portion is random; non-trivial = distinct re-hash requests")
    CS.dist_cov(R, meta, il); CS.dist_cov(R, meta2b, il2)
    CS.sample_cov(R, ops2b, il2, ml2)
    CS.finish_proof(R, ok, badthm, bad, diffs, "round trip")

def replay(R, j):
    op = (j.get("failing_input") or {}).get("op")
    if not op: print("no concrete op; unproved:", j.get("unproved")); return 2
    t = op.split(" "); il = R.run_impl([op]); print(op); print(il[0])
    return 0

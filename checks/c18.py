"""C18 — crypt_checksalt and crypt_preferred_method agree with crypt and crypt_gensalt."""
from checks.common import *

# independent classifier written from the property text and crypt(5), not from the code
STRONG = [b"$y$", b"$gy$", b"$7$", b"$2b$", b"$2y$", b"$2a$", b"$6$"]
LEGACY = [b"$2x$", b"$5$", b"$sha1", b"$md5", b"$1$", b"$3$", b"_"]
DESCH = set(b"./0123456789ABCDEFGHIJKLMNOPQRSTUVWXYZabcdefghijklmnopqrstuvwxyz")

def classify(s):
    """0 OK, 1 INVALID, 3 LEGACY"""
    if s is None or len(s) == 0: return 1
    if any(c in BAD for c in s): return 1
    for p in STRONG:
        if s.startswith(p): return 0
    for p in LEGACY:
        if s.startswith(p): return 3
    if len(s) >= 2 and s[0] in DESCH and s[1] in DESCH: return 3
    return 1

def expected_enum(pfx):
    c = {0: 0, 1: 0, 3: 0}; h = 0
    for b in range(1, 256):
        st = classify(pfx + bytes([b])); c[st] += 1; h = (h + b * (st + 1)) & 0xffffffff
    return "n0=%d n1=%d n3=%d nx=0 h=%d" % (c[0], c[1], c[3], h)

def run(R):
    R.with_statics = True        # the call graph and external callees of lib/*.c are regenerated (C18_locale_free is decided over them)
    ok, badthm = R.prove()
    static_bad = []
    if not ok and any("C18_locale_free" in t for t in badthm):
        # name the call: which function on the way from crypt_checksalt reaches into locale-dependent libc
        import re as re2, os as os2
        ld = R.lean_dir or os2.path.join(os2.path.dirname(os2.path.abspath(__file__)), "..", "lean")
        txt = open(os2.path.join(ld, "Xc/Gen/Statics.lean")).read()
        allowed = {"strlen", "strnlen", "strcmp", "strncmp", "strchr", "strrchr", "strspn", "strcspn", "strpbrk", "strstr", "memcmp", "memchr", "memmem", "memcpy", "memmove",
                   "memset", "strcpy", "strncpy", "__errno_location"}
        for lst, fn in re2.findall(r'\[([^\]]*)\] /- ([A-Za-z_0-9]+) -/', txt.split("def st_ext")[1].split("def ")[0]):
            if fn in ("_crypt_crypt_checksalt", "crypt_checksalt", "check_badsalt_chars", "get_hashfn", "is_des_salt_char"):
                for e in re2.findall(r'"([^"]+)"', lst):
                    if e not in allowed:
                        static_bad.append(("crypt_checksalt -> " + fn, "%s calls %s: %s" % (fn, e, "the <ctype.h> classification (isgraph, isalnum, ...) answers according to the process "
                                           "locale - after setlocale() to a single-byte locale bytes >= 0x80 count as letters - so crypt_checksalt and crypt's argument "
                                           "validation no longer depend on the characters of the setting alone" if "ctype" in e else "not a function of its arguments alone"), ""))
    quick = R.tier == "quick"
    ops, exp = [], []
    def add(op, e): ops.append(op); exp.append(e)
    add("K -", "status=1"); add("K .", "status=1")
    # all strings of length 1 and 2 (quick) / 3 (thorough) over bytes 1..255, via the enumerating op
    add("KE .", expected_enum(b""))
    for a in range(1, 256):
        add("KE %02x" % a, expected_enum(bytes([a])))
    if not quick:
        for a in range(1, 256):
            for b in range(1, 256):
                add("KE %02x%02x" % (a, b), expected_enum(bytes([a, b])))
    # 4-byte strings starting with '$' or '_' (every byte value in positions 2..4)
    firsts = [0x24, 0x5f]
    seconds = range(1, 256) if not quick else list(b"1235679ygms2x*:a_ \x7f\xff$")
    for f in firsts:
        for a in seconds:
            for b in (range(1, 256) if not quick else list(b"$abxyhd5,1 :")):
                add("KE %02x%02x%02x" % (f, a, b), expected_enum(bytes([f, a, b])))
    # random longer strings, valid settings with random tails, single bad characters inserted
    tails = [b"", b"$", b"rounds=1000$salt", b"j9T$saltsalt$hashhash", b"05$abcdefghijklmnopqrstuu", b"........"]
    for _ in range(3000 if quick else 60000):
        base = R.rng.choice(list(PREFIXES.values()) + [b"$zz$", b"$", b"*0", b"*1", b"ab", b"a", b"$2c$", b"$2$", b"$sha", b"$md"])
        s = base + R.rng.choice(tails) + bytes(R.rng.choice(b"./0123456789abcXYZ$") for _ in range(R.rng.randrange(0, 40)))
        if R.rng.random() < 0.3 and len(s):
            i = R.rng.randrange(len(s)); s = s[:i] + bytes([R.rng.randrange(1, 256)]) + s[i:]
        if len(s) == 0: continue
        add("K " + hx(s), "status=%d" % classify(s))
    # long strings: the classification depends on the tag and the character set only, never on the length (seeded/C18):
    # every prefix (and some unknown ones) followed by legal filler up to lengths around CRYPT_OUTPUT_SIZE and far beyond
    for base in list(PREFIXES.values()) + [b"ab", b"$zz$", b"*0"]:
        for n in ([191, 192, 383, 384, 385, 511, 512, 4096, 70000] if quick else list(range(370, 400)) + [191, 192, 511, 512, 513, 1000, 4096, 32768, 70000]):
            if n <= len(base): continue
            s = base + bytes(R.rng.choice(b"./0123456789abcdefghijklmnopqrstuvwxyzABCDEFGHIJKLMNOPQRSTUVWXYZ") for _ in range(n - len(base)))
            add("K " + hx(s), "status=%d" % classify(s))
    add("P", None)
    rb = bytes(R.rng.randrange(256) for _ in range(64))
    for c in (0, 5, 11, 12):
        add("G rn - %d %s 64 192" % (c, hx(rb)), None)
        add("G rn 247924 %d %s 64 192" % (c, hx(rb)), None)   # placeholder, fixed below once P is known
    il, ml, opf = R.run_pair(ops)
    def proj(op, a, b):
        return None if a == b or (op.startswith("G ") and a.get("ret") == b.get("ret") and a.get("errno") == b.get("errno")) else "differs"
    diffs = compare(R, ops, il, ml, proj, "checksalt enumeration + preferred")
    bad = list(static_bad)
    n_strings = 0
    for op, e, line in zip(ops, exp, il):
        if op.startswith("KE"): n_strings += 255
        elif op.startswith("K "): n_strings += 1
        if e is not None and line != e:
            # locate the failing element inside an enumerated chunk
            if op.startswith("KE"):
                pfx = unhx(op.split(" ")[1]) or b""
                sub = ["K " + hx(pfx + bytes([b])) for b in range(1, 256)]
                for o2, l2 in zip(sub, R.run_impl(sub)):
                    s = unhx(o2.split(" ")[1])
                    if l2 != "status=%d" % classify(s):
                        bad.append((o2, "crypt_checksalt returns %s, documented class is %d" % (l2, classify(s)), l2)); break
            else:
                bad.append((op, "crypt_checksalt returns %s, documented class is %s" % (line, e), line))
    # preferred method: OK by checksalt; NULL prefix == that prefix
    pi = ops.index("P"); pref = fields(il[pi]).get("pref")
    if pref == "NULL":
        bad.append(("P", "crypt_preferred_method returns NULL in a build with default-capable methods", il[pi]))
    else:
        st = R.run_impl(["K " + pref])[0]
        if st != "status=0": bad.append(("K " + pref, "preferred method is not OK for crypt_checksalt: " + st, st))
        pairs = []
        for c in (0, 5, 11, 12):
            pairs += ["G rn - %d %s 64 192" % (c, hx(rb)), "G rn %s %d %s 64 192" % (pref, c, hx(rb))]
        out = R.run_impl(pairs)
        for i in range(0, len(pairs), 2):
            if out[i] != out[i + 1]:
                bad.append((pairs[i], "crypt_gensalt(NULL) differs from crypt_gensalt(preferred): %s vs %s" % (out[i], out[i + 1]), out[i]))
    # the same clauses in other build configurations (the property's "every build configuration"): the tree's own generators + gcc in a scratch
    # directory; selections with another, with a weaker, and with no default-capable method (seeded/C18c)
    import os, shutil, subprocess, cbuild
    import re as re_
    from checks.common import PREFIXES as PFX
    ncfg = 0
    for name, sel in [("all-but-yescrypt", [m for m in PFX if m != "yescrypt"]), ("glibc-like", ["sha512crypt", "sha256crypt", "md5crypt", "descrypt"]),
                      ("bcrypt-and-legacy", ["bcrypt", "md5crypt", "nt"]), ("no-default-capable", ["descrypt", "md5crypt", "sha256crypt"]),
                      # either DES method on its own still owns the two-character settings (seeded/C18g: bigcrypt unreachable without descrypt)
                      ("bigcrypt-without-descrypt", ["bigcrypt", "sha512crypt"]), ("descrypt-without-bigcrypt", ["descrypt", "yescrypt"])]:
        d = os.path.join(R.scratch, "c18cfg_" + name); os.makedirs(d, exist_ok=True)
        he = "," + ",".join(sorted(sel)) + ","
        try:
            cbuild.gen_headers(d, hashes_enabled=he, compat_abi=("yes" if "descrypt" in sel else "no"))
            objs = cbuild.compile_lib(d)
            exe = cbuild.build_harness(d, os.path.join(os.path.dirname(os.path.abspath(__file__)), "..", "harness", "harness.c"), objs, os.path.join(d, "harness"),
                                       extra=["-DXC_NO_PRIM"], ldextra=["-Wl,--wrap=arc4random_buf"])
        except Exception as e:
            bad.append(("CFG " + he, "the library does not build with --enable-hashes=%s: %s" % (he, str(e)[-300:]), "")); continue
        def ask(lines): return subprocess.run([exe], input="\n".join(lines) + "\n", text=True, capture_output=True).stdout.splitlines()
        cand = [m for m in ("yescrypt", "bcrypt", "sha512crypt") if m in sel]
        want = hx(PFX[cand[0]]) if cand else "NULL"
        pline = ask(["P"])[0]; pref = fields(pline).get("pref")
        tag = "[--enable-hashes=%s] " % he
        ncfg += 1
        if pref != want:
            bad.append((tag + "P", "crypt_preferred_method is %s; the strongest enabled default-capable method is %s" % (pref, want), pline)); 
        # every enabled method's setting is recognised (OK or LEGACY, never INVALID), a disabled method's is INVALID - whatever else is enabled
        from checks import settings as S_
        for m_, st_ in S_.CANON.items():
            on = m_ in sel or (m_ in ("descrypt", "bigcrypt") and ("descrypt" in sel or "bigcrypt" in sel))      # (checksalt looks at the tag only: C18_tag_only)
            kl = ask(["K " + hx(st_)])[0]
            if on and kl == "status=1": bad.append((tag + "K " + hx(st_), "crypt_checksalt returns INVALID for a setting of %s, which this configuration serves" % ("the DES family" if m_ in ("descrypt", "bigcrypt") else "the enabled method " + m_), kl))
            if not on and kl != "status=1": bad.append((tag + "K " + hx(st_), "crypt_checksalt recognises a setting of the disabled method %s: %s" % (m_, kl), kl))
        # the installed header's promise about crypt_gensalt (NULL, ...) is what the library does (seeded/C19g)
        try:
            mac = re_.search(r"#define\s+CRYPT_GENSALT_IMPLEMENTS_DEFAULT_PREFIX\s+(\d+)", open(os.path.join(d, "crypt.h")).read()).group(1)
        except Exception: mac = None
        if mac is not None and (mac == "1") != (pref not in (None, "NULL")):
            bad.append((tag + "crypt.h", "crypt.h says CRYPT_GENSALT_IMPLEMENTS_DEFAULT_PREFIX %s but crypt_preferred_method is %s" % (mac, pref), pline))
        if pref and pref != "NULL":
            st = ask(["K " + pref])[0]
            if st != "status=0": bad.append((tag + "K " + pref, "the preferred method's prefix is not OK for crypt_checksalt in this configuration: " + st, st))
            o = ask(["G rn - 0 %s 64 192" % hx(rb), "G rn %s 0 %s 64 192" % (pref, hx(rb))])
            if o[0] != o[1] or fields(o[0]).get("ret") == "NULL":
                bad.append((tag + "G rn - 0 %s 64 192" % hx(rb), "crypt_gensalt(NULL) does not work like crypt_gensalt(preferred): %s vs %s" % (o[0][:120], o[1][:120]), o[0]))
        else:
            o = ask(["G rn - 0 %s 64 192" % hx(rb)])
            if fields(o[0]).get("ret") != "NULL":
                bad.append((tag + "G rn - 0 ...", "crypt_gensalt(NULL) succeeds although no default-capable method is enabled", o[0]))
        shutil.rmtree(d, ignore_errors=True)
    R.cov["configurations_built"] = ncfg
    R.cov["evaluations"] = n_strings
    R.cov["exhaustive"] = True
    R.cov["rule"] = ("every byte string (bytes 1..255) of length <= %d, 4-byte strings starting with '$' or '_' (%s), random longer strings, every tag with filler "
                     "to lengths 191..70000 (around CRYPT_GENSALT_OUTPUT_SIZE, CRYPT_OUTPUT_SIZE, CRYPT_MAX_PASSPHRASE_SIZE); "
                     "non-trivial = strings whose class is not INVALID-by-character" % (2 if quick else 3, "sampled 2nd/3rd bytes" if quick else "all"))
    R.cov["distinct_nontrivial"] = sum(1 for op in ops if op.startswith("K ") and op != "K -" and classify(unhx(op.split(" ")[1])) != 1) + \
        sum(int(fields(l).get("n0", 0)) + int(fields(l).get("n3", 0)) for op, l in zip(ops, il) if op.startswith("KE"))
    R.cov["samples"] = [{"op": ops[i], "impl": il[i], "model": ml[i]} for i in R.rng.sample(range(len(ops)), 4)]
    for op, why, line in bad[:10]:
        R.add_violation(Violation("oracle", why + " at " + op, failing_input={"op": op, "why": why, "observed": line}))
    if diffs and not bad:
        R.add_violation(Violation("correspondence", "model and implementation disagree: " + diffs[0][1], detail={"first": diffs[:10]},
                                  unproved=["correspondence checksalt"]))
    if not ok and not bad:
        R.add_violation(Violation("proof", "theorems no longer check: " + ", ".join(badthm), detail={"log": getattr(R, "proof_log", "")}, unproved=badthm))

def replay(R, j):
    op = (j.get("failing_input") or {}).get("op")
    if not op: print("no concrete op; unproved:", j.get("unproved")); return 2
    out = R.run_impl([op])[0]; print(op, "->", out)
    if op.startswith("K "):
        e = "status=%d" % classify(unhx(op.split(" ")[1])); print("documented:", e); return 0 if out == e else 1
    return 0

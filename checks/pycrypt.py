"""Independent implementations of the password-hash methods, written from their public specifications
(PHK md5crypt, Drepper's SHA-crypt.txt, Solaris crypt_sunmd5(5), NetBSD sha1crypt, NT hash, crypt(3) DES,
BSDi extended DES, bigcrypt, RFC 7914 scrypt via hashlib).  Used only as oracles for C02/C03."""
import hashlib, hmac, struct
from checks import pydes
from checks.c16 import md4

A64 = b"./0123456789ABCDEFGHIJKLMNOPQRSTUVWXYZabcdefghijklmnopqrstuvwxyz"
def to64(v, n):
    out = bytearray()
    for _ in range(n): out.append(A64[v & 63]); v >>= 6
    return bytes(out)

def md5crypt(pw, salt):
    salt = salt[:8]
    alt = hashlib.md5(pw + salt + pw).digest()
    ctx = pw + b"$1$" + salt
    n = len(pw)
    while n > 0: ctx += alt[:min(n, 16)]; n -= 16
    i = len(pw)
    while i: ctx += (b"\0" if i & 1 else pw[:1]); i >>= 1
    d = hashlib.md5(ctx).digest()
    for i in range(1000):
        c = (pw if i & 1 else d) + (salt if i % 3 else b"") + (pw if i % 7 else b"") + (d if i & 1 else pw)
        d = hashlib.md5(c).digest()
    idx = [(0, 6, 12), (1, 7, 13), (2, 8, 14), (3, 9, 15), (4, 10, 5)]
    out = b"".join(to64((d[a] << 16) | (d[b] << 8) | d[c], 4) for a, b, c in idx) + to64(d[11], 2)
    return b"$1$" + salt + b"$" + out

def shacrypt(pw, salt, rounds, which):
    H = hashlib.sha256 if which == 5 else hashlib.sha512
    hl = 32 if which == 5 else 64
    salt = salt[:16]
    B = H(pw + salt + pw).digest()
    A = pw + salt
    n = len(pw)
    while n > hl: A += B; n -= hl
    A += B[:n]
    n = len(pw)
    while n: A += (B if n & 1 else pw); n >>= 1
    A = H(A).digest()
    DP = H(pw * len(pw)).digest()
    P = (DP * (len(pw) // hl + 1))[:len(pw)]
    DS = H(salt * (16 + A[0])).digest()
    S = (DS * (len(salt) // hl + 1))[:len(salt)]
    C = A
    for i in range(rounds):
        c = (P if i & 1 else C) + (S if i % 3 else b"") + (P if i % 7 else b"") + (C if i & 1 else P)
        C = H(c).digest()
    if which == 5:
        order = [(0, 10, 20), (21, 1, 11), (12, 22, 2), (3, 13, 23), (24, 4, 14), (15, 25, 5), (6, 16, 26), (27, 7, 17), (18, 28, 8), (9, 19, 29)]
        out = b"".join(to64((C[a] << 16) | (C[b] << 8) | C[c], 4) for a, b, c in order) + to64((C[31] << 8) | C[30], 3)
    else:
        order = [(0, 21, 42), (22, 43, 1), (44, 2, 23), (3, 24, 45), (25, 46, 4), (47, 5, 26), (6, 27, 48), (28, 49, 7), (50, 8, 29), (9, 30, 51), (31, 52, 10),
                 (53, 11, 32), (12, 33, 54), (34, 55, 13), (56, 14, 35), (15, 36, 57), (37, 58, 16), (59, 17, 38), (18, 39, 60), (40, 61, 19), (62, 20, 41)]
        out = b"".join(to64((C[a] << 16) | (C[b] << 8) | C[c], 4) for a, b, c in order) + to64(C[63], 2)
    return out

HAMLET = None
def sunmd5(pw, prefix, nrounds, hamlet):
    """prefix = the setting up to and including the salt (what is hashed and copied)"""
    d = hashlib.md5(pw + prefix).digest()
    def bit(dg, n): return (dg[(n % 128) // 8] >> (n % 8)) & 1
    for rnd in range(nrounds):
        x = y = 0
        for i in range(8):
            for off, tgt in ((0, "x"), (8, "y")):
                a = d[(i + off) % 16]; b = d[(i + off + 3) % 16]
                r = a >> (b % 5); v = d[r % 16]
                if b & (1 << (a % 8)): v //= 2
                if tgt == "x": x |= bit(d, v) << i
                else: y |= bit(d, v) << i
        if bit(d, rnd): x //= 2
        if bit(d, rnd + 64): y //= 2
        coin = bit(d, x) ^ bit(d, y)
        d = hashlib.md5(d + (hamlet if coin else b"") + str(rnd).encode()).digest()
    idx = [(0, 6, 12), (1, 7, 13), (2, 8, 14), (3, 9, 15), (4, 10, 5)]
    out = b"".join(to64((d[a] << 16) | (d[b] << 8) | d[c], 4) for a, b, c in idx) + to64(d[11], 2)
    return prefix + b"$" + out

def sha1crypt(pw, salt, iterations):
    h = hmac.new(pw, salt + b"$sha1$" + str(iterations).encode(), hashlib.sha1).digest()
    for _ in range(1, iterations): h = hmac.new(pw, h, hashlib.sha1).digest()
    out = b""
    for i in range(0, 18, 3): out += to64((h[i] << 16) | (h[i + 1] << 8) | h[i + 2], 4)
    out += to64((h[18] << 16) | (h[19] << 8) | h[0], 4)
    return b"$sha1$" + str(iterations).encode() + b"$" + salt + b"$" + out

def nthash(pw): return b"$3$$" + md4(b"".join(bytes([c, 0]) for c in pw)).hex().encode()

def des_enc(raw):
    v = int.from_bytes(raw, "big") << 2      # 64 bits -> 11 sextets, MSB first
    return bytes(A64[(v >> (60 - 6 * i)) & 63] for i in range(11))

def a2b(c): return A64.index(c)
def deskey(pw8): return bytes(((c << 1) & 0xff) for c in pw8.ljust(8, b"\0"))

def descrypt(pw, setting):
    salt = a2b(setting[0]) | (a2b(setting[1]) << 6)
    raw = pydes.crypt_block(deskey(pw[:8]), bytes(8), salt, 25)
    return bytes([A64[salt & 63], A64[(salt >> 6) & 63]]) + des_enc(raw)

def bigcrypt(pw, setting):
    salt = a2b(setting[0]) | (a2b(setting[1]) << 6)
    out = bytes([A64[salt & 63], A64[(salt >> 6) & 63]])
    segs = [pw[i:i + 8] for i in range(0, min(len(pw), 128), 8)] or [b""]
    for k, seg in enumerate(segs):
        h = des_enc(pydes.crypt_block(deskey(seg), bytes(8), salt, 25))
        out += h
        salt = a2b(h[0]) | (a2b(h[1]) << 6)
    return out

def bsdicrypt(pw, setting):
    count = sum(a2b(setting[1 + i]) << (6 * i) for i in range(4))
    salt = sum(a2b(setting[5 + i]) << (6 * i) for i in range(4))
    key = deskey(pw[:8]); rest = pw[8:]
    while rest:
        enc = pydes.crypt_block(key, key, 0, 1)
        blk = deskey(rest[:8]); key = bytes(a ^ b for a, b in zip(enc, blk)); rest = rest[8:]
    return setting[:9] + des_enc(pydes.crypt_block(key, bytes(8), salt, count))

def enc64(b):
    out = bytearray(); i = 0
    while i < len(b):
        v = 0; bits = 0
        while bits < 24 and i < len(b): v |= b[i] << bits; bits += 8; i += 1
        for k in range(0, bits, 6): out.append(A64[(v >> k) & 63])
    return bytes(out)

def scrypt7(pw, setting):
    nlog = a2b(setting[3]); r = sum(a2b(setting[4 + i]) << (6 * i) for i in range(5)); p = sum(a2b(setting[9 + i]) << (6 * i) for i in range(5))
    rest = setting[14:]; salt = rest[:rest.rindex(b"$")] if b"$" in rest else rest
    dk = hashlib.scrypt(pw, salt=salt, n=1 << nlog, r=r, p=p, dklen=32, maxmem=1 << 30)
    return setting[:14] + salt + b"$" + enc64(dk)

"""C05 — failures are fail-closed: NULL or '*' token, never a usable or stale hash."""
from checks.common import *
from checks import cryptstream as CS, settings as S

# bytes the generic filter rejects, plus printable bytes that pass the generic filter but are outside every method's own alphabet
# (seeded/C05: a method that echoes part of such a setting before validating it)
SPECIAL = list(b":;*!\\ \n\t\x7f\x80\xff\x01") + list(b"$-_=\",+~@#%&()[]{}<>?|^`'")

def build_ops(R):
    quick = R.tier == "quick"
    ops, meta = [], []
    def add(op, m): ops.append(op); meta.append(m)
    sizeof = 32768
    cur_errno = [0]
    # 1. mutation stream over canonical valid settings, three prior states of the object
    for m, base in S.CANON.items():
        danger = S.CANON_DANGER.get(m, [])
        # also a full hash of the method as base (setting followed by a digest-shaped tail)
        tailn = CS.DIGLEN.get(m, 11)
        bases = [base, base + (b"" if m in ("descrypt", "bigcrypt", "nt") else b"$") + S.rs(R.rng, S.A64, tailn)]
        for b in bases:
            vals = SPECIAL + ([R.rng.randrange(1, 256) for _ in range(6)] if quick else list(range(1, 256)))
            muts = S.mutations(b, danger, values=sorted(set(vals)))
            if quick: muts = R.rng.sample(muts, min(len(muts), 260))
            for s in muts:
                prior = R.rng.choice(["fresh", "success", "failure"])
                obj = {"fresh": 0, "success": 1, "failure": 2}[prior]
                if prior == "fresh": add("O 0 z 0", (m, "setup", 0, 0))
                if prior == "success": add(CS.crypt_op("rn", 1, b"prior", S.CANON["md5crypt"]), (m, "setup", 0, 0))
                if prior == "failure": add(CS.crypt_op("rn", 2, b"prior", b"*0"), (m, "setup", 0, 0))
                e = R.rng.choice(["rn", "r", "rn", "st"])
                # errno on entry: whatever an unrelated earlier failure of the application left there - a failing call must SET errno, not merely
                # leave a non-zero value in place (seeded/C05h: `if (!errno) errno = EINVAL`)
                ev = R.rng.choice([0, 0, 2, 11, 34, 12])
                if ev != cur_errno[0]: add("ERRNO %d" % ev, (m, "setup", 0, 0)); cur_errno[0] = ev
                add(CS.crypt_op(e, obj, b"pw", s), (m, "mutation:" + prior, 2, len(s)))
    add("ERRNO 0", ("generic", "setup", 0, 0))
    # 2. generic invalid requests x sizes x prior states
    generic = [(None, b"$1$salt"), (b"pw", None), (None, None), (b"x" * 512, b"$1$salt"), (b"x" * 513, b"$6$salt"), (b"x" * 1000, b"ab"),
               (b"pw", b""), (b"pw", b"*0"), (b"pw", b"*1"), (b"pw", b"*"), (b"pw", b"*0abc"), (b"pw", b"$"), (b"pw", b"$$"), (b"pw", b"$zz$abc"),
               (b"pw", b"$2$05$abcdefghijklmnopqrstuu"), (b"pw", b"$2c$05$abcdefghijklmnopqrstuu"), (b"pw", b"a"), (b"pw", b"!!"), (b"pw", b"$9$x"),
               (b"pw", b"$1$salt"), (b"pw", b"ab")]
    for ph, st in generic:
        for size in [-1, 0, 1, 2, 3, 100, sizeof - 1, sizeof, sizeof + 1]:
            for prior in ["fresh", "success", "failure", "garbage"]:
                obj = 3
                if prior == "fresh": add("O 3 z 0", ("generic", "setup", 0, 0))
                elif prior == "garbage": add("O 3 r %d %d" % (R.rng.randrange(16), R.rng.randrange(1 << 30)), ("generic", "setup", 0, 0))
                elif prior == "success": add(CS.crypt_op("rn", 3, b"prior", S.CANON["sha256crypt"]), ("generic", "setup", 0, 0))
                else: add(CS.crypt_op("rn", 3, b"prior", b"$1$bad:salt"), ("generic", "setup", 0, 0))
                add(CS.crypt_op("rn", 3, ph, st, size), ("generic", "size%d:%s" % (size, prior), len(ph or b""), len(st or b"")))
        for e in ("r", "st"):
            add(CS.crypt_op(e, 3, ph, st), ("generic", "entry-" + e, len(ph or b""), len(st or b"")))
    # 4. cost numbers beyond the documented range, including the values that fall back INTO the range when truncated to 32 bits or wrapped modulo
    #    2^64 (seeded/C05g: a round count narrowed before its range check): they must be refused like any other out-of-range number
    big = [10**9, 2**32 - 1, 2**32, 2**32 + 1000, 2**32 + 5000, 2**32 + 999999999, 2**33 + 1000, 2**40 + 5000, 2**63 + 1000, 2**64 - 1, 2**64 + 1000, 2**64 + 2**32 + 1000]
    for n in big:
        for st in (b"$5$rounds=%d$saltsalt" % n, b"$6$rounds=%d$saltsalt" % n, b"$6$rounds=%d$saltsalt$" % n + S.rs(R.rng, S.A64, 86)):
            add(CS.crypt_op("rn", 1, b"prior", S.CANON["md5crypt"]), ("sha512crypt", "setup", 0, 0))
            add(CS.crypt_op(R.rng.choice(["rn", "r"]), 1, b"pw", st), ("sha512crypt" if st[1:2] == b"6" else "sha256crypt", "cost-beyond-range", 2, len(st)))
    for n in [2**32, 2**32 + 24, 2**33 + 24, 2**64 + 24]:
        add(CS.crypt_op("rn", 1, b"pw", b"$sha1$%d$saltsalt$" % n), ("sha1crypt", "cost-beyond-range", 2, 0))
    for c in (b"32", b"40", b"99"):
        add(CS.crypt_op("rn", 1, b"pw", b"$2b$" + c + b"$abcdefghijklmnopqrstuu"), ("bcrypt", "cost-beyond-range", 2, 0))
    # 3. grammar-shaped stream (many rejected spellings of cost fields, truncated salts ...)
    g, gm = CS.gen_stream(R, 1500 if quick else 30000)
    ops += g; meta += gm
    return ops, meta

def c06_shape(setting, H):
    """None if H has the documented shape of the method the setting selects (recogniser of checks/c06.py, written from crypt(5))"""
    from checks.c06 import well_formed
    m = CS.method_of(setting)
    if m == "des-family": m = "bigcrypt"      # either DES-family shape is accepted by the recogniser
    try: return well_formed(m, H, setting)
    except KeyError: return None

def common_suffix(a, b):
    n = 0
    while n < len(a) and n < len(b) and a[-1 - n] == b[-1 - n]: n += 1
    return n

def cost_beyond_range(st):
    """crypt(5): sha256crypt / sha512crypt rounds are at most 999999999, sha1crypt's iteration count is a 32-bit number, bcrypt's cost at most 31"""
    import re
    m = re.match(rb"^\$[56]\$rounds=([0-9]+)\$", st)
    if m and int(m.group(1)) > 999999999: return True
    m = re.match(rb"^\$sha1\$([0-9]+)\$", st)
    if m and int(m.group(1)) > 2**32 - 1: return True
    m = re.match(rb"^\$2[abxy]\$([0-9][0-9])\$", st)
    if m and int(m.group(1)) > 31: return True
    return False

def oracle(ops, meta, il, ml=None):
    """fail-closed invariants, evaluated on the implementation's observations; the model's verdict is used only to
    name a request as 'cannot produce a hash' when the implementation itself raised EINVAL/ERANGE during the call"""
    bad = []
    last_success = {}   # object id -> hash held
    held = {}           # object id -> last terminated string seen in the output field
    for k, (op, m, line) in enumerate(zip(ops, meta, il)):
        if not op.startswith("C "): continue
        t = op.split(" "); entry, obj = t[1], t[2] if t[1] != "st" else "static"
        ph, st = unhx(t[3]), unhx(t[4]); size = int(t[5]) if len(t) > 5 else 32768
        f = fields(line)
        out = f.get("out"); ret = f.get("ret")
        must_fail = (ph is None or st is None or len(ph) >= 512 or any(c in BAD for c in st) or (entry == "rn" and size < 32768) or st == b"" or cost_beyond_range(st))
        failed = ret == "NULL" or (out not in (None, "?", "unterminated") and out.startswith("2a")) or (entry == "rn" and size < 32768)
        why = None
        if f.get("abort") != "0": why = "call aborted"
        elif must_fail and not failed: why = "an invalid request produced a hash"
        elif failed:
            if entry == "rn" and ret != "NULL": why = "crypt_rn returned non-NULL for a failed request"
            elif f.get("errno") not in ("EINVAL", "ERANGE", "ENOMEM"): why = "errno is %s after a failure" % f.get("errno")
            elif entry == "rn" and size < 3:
                want = {2: "2a", 1: "."}.get(size)
                if size >= 1 and out != want: why = "truncated token wrong for size %d: %s" % (size, out)
            else:
                tok = unhx(out) if out not in (None, "?", "unterminated") else None
                if tok is None: why = "output field holds no terminated string after a failure"
                elif not tok.startswith(b"*") or len(tok) >= 13: why = "output does not hold a '*' token"
                elif st is not None and tok == st: why = "failure token equals the setting"
                elif obj in last_success and tok == last_success[obj]: why = "stale hash left in output"
        cur = unhx(out) if out not in (None, "?", "unterminated") else None
        if why is None and not failed and cur is not None:
            prev = held.get(obj)
            # part of what the object held before survives inside a different "result": the call did not write a whole hash
            if prev is not None and cur != prev and not prev.startswith(b"*") and common_suffix(cur, prev) >= 11 and st is not None and not prev.startswith(st[:len(prev) - 11]) \
                    and not cur.startswith(st):      # (a result that begins with the complete setting is this call's own hash: e.g. $2b$ and $2y$ share digests)
                why = "the returned string ends with %d characters of the string the object held before the call (stale hash material)" % common_suffix(cur, prev)
            elif st is not None and CS.method_of(st) is not None and c06_shape(st, cur) is not None:
                # crypt(5) documents the shape of every method's hash: a "hash" that does not have it was produced from a malformed
                # setting that should have been refused (seeded/C05b: a cost field that is not two digits)
                why = "an invalid request produced a hash: the result %r %s" % (cur, c06_shape(st, cur))
            elif ml is not None and f.get("errno") in ("EINVAL", "ERANGE") and fields(ml[k]).get("ret") == "NULL":
                why = "the call raised %s (errno was 0 on entry) and the model rejects the setting, yet a string not starting with '*' is returned/left in output" % f.get("errno")
        if cur is not None: held[obj] = cur
        if not failed and cur is not None:
            last_success[obj] = cur
        if why: bad.append((op, why, line))
    return bad

def run(R):
    ok, badthm = R.prove()
    ops, meta = build_ops(R)
    # every 'setup' op and every grammar-stream op starts a self-contained group
    starts = [i for i, (o, m) in enumerate(zip(ops, meta)) if m[1] == "setup" or not any(m[1].startswith(p) for p in ("mutation", "size", "entry-"))]
    ops, meta, il, ml = CS.run_budgeted(R, ops, meta, group_starts=starts)
    def proj(op, a, b):
        if not op.startswith("C "): return None if a == b else "setup op differs"
        return CS.proj_crypt(op, a, b)
    diffs = compare(R, ops, il, ml, proj, "fail-closed")
    bad = oracle(ops, meta, il, ml)
    # the stale-material search is a heuristic (a shared suffix with what the object held before): a candidate is confirmed by running the same
    # request on a fresh zeroed object - if that gives the same string the suffix is this call's own digest (e.g. `$2b$` and `$2y$` settings with
    # the same salt and phrase share it: false alarm seen in the thorough tier), otherwise part of the result really came from the object
    kept = []
    for op, why, line in bad:
        if "stale hash material" in why and op.startswith("C ") and op.split(" ")[1] != "st":
            t = op.split(" ")
            fresh = R.run_impl(["O %s z 0 0" % t[2], op])
            if len(fresh) == 2 and fields(fresh[1]).get("out") == fields(line).get("out"): continue
        kept.append((op, why, line))
    bad = kept
    n = sum(1 for o in ops if o.startswith("C "))
    R.cov["evaluations"] = n
    R.cov["distinct_nontrivial"] = len({o for o, l in zip(ops, il) if o.startswith("C ") and (fields(l).get("ret") == "NULL" or fields(l).get("out", "").startswith("2a"))})
    R.cov["rule"] = ("mutation stream (byte values x positions x truncations of a valid setting and of a full hash per method), generic invalid "
                     "(phrase,setting,size) triples x sizes {-1,0,1,2,3,100,sizeof-1,sizeof,sizeof+1} x prior states {fresh,success,failure,garbage}, "
                     "grammar-shaped stream; non-trivial = distinct failing requests")
    CS.dist_cov(R, [m for o, m in zip(ops, meta) if o.startswith("C ")], [l for o, l in zip(ops, il) if o.startswith("C ")])
    CS.sample_cov(R, ops, il, ml)
    CS.finish_proof(R, ok, badthm, bad, diffs, "fail-closed")

def replay(R, j):
    op = (j.get("failing_input") or {}).get("op")
    if not op: print("no concrete op; unproved:", j.get("unproved")); return 2
    il = R.run_impl([op]); print(op); print(il[0])
    bad = oracle([op], [("x", "x", 0, 0)], il)
    for b in bad: print("FAILS:", b[1])
    return 1 if bad else 0

"""C11 — crypt_gensalt encodes the documented cost for every count."""
from checks.common import *
from checks import gensaltstream as GS, settings as S

def counts(R):
    quick = R.tier == "quick"
    cs = set(range(0, 40)) | {2**k + d for k in range(0, 64) for d in (-1, 0, 1)} | {10**k + d for k in range(0, 20) for d in (-1, 0, 1)}
    cs |= {GS.U64 - k for k in range(0, 4)} | {GS.U64 - 65536 + d for d in (-1, 0, 1)} | {999, 1000, 1001, 4999, 5000, 5001, 725, 724, 726, 0xffffff, 0x1000000, 262144,
          32767, 32768, 32769, 2**32 - 65537, 2**32 - 65536, 2**32 - 65535, 2**32 - 4097, 2**32 - 4096}
    cs |= {R.rng.randrange(2**64) for _ in range(50 if quick else 3000)} | {R.rng.randrange(2**32) for _ in range(50 if quick else 3000)}
    return sorted(c for c in cs if 0 <= c <= GS.U64)

def run(R):
    ok, badthm = R.prove()
    ops, meta = [], []
    for m, pfx in GS.TAGS.items():
        for c in counts(R):
            for rb in ([b"\xff" * 64, bytes(64), bytes(R.rng.randrange(256) for _ in range(64))] if R.tier == "quick" else
                       [b"\xff" * 64, bytes(64)] + [bytes(R.rng.randrange(256) for _ in range(64)) for _ in range(3)]):
                ops.append("G rn %s %d %s 64 192" % (hx(pfx), c, hx(rb))); meta.append((m, c))
    il, ml, _ = R.run_pair(ops)
    def proj(op, a, b): return None if (a.get("ret"), a.get("errno")) == (b.get("ret"), b.get("errno")) else "gensalt result differs"
    diffs = compare(R, ops, il, ml, proj, "gensalt cost")
    bad = []
    dist = R.cov["distribution"]
    for op, (m, c), line in zip(ops, meta, il):
        f = fields(line)
        doc = GS.documented_cost(m, c)
        k = m + ":" + ("EINVAL" if doc == "EINVAL" else "ok"); dist[k] = dist.get(k, 0) + 1
        if doc == "EINVAL":
            if f["ret"] != "NULL" or f["errno"] != "EINVAL":
                bad.append((op, "count %d is outside the documented range of %s but was not rejected with EINVAL" % (c, m), line))
            continue
        if f["ret"] == "NULL":
            bad.append((op, "count %d is valid for %s but gensalt failed (%s)" % (c, m, f["errno"]), line)); continue
        got = GS.decode_cost(m, unhx(f["ret"]))
        if doc[0] == "exact" and got != doc[1]:
            bad.append((op, "%s: count %d must give cost %r, the generated setting makes crypt use %r" % (m, c, doc[1], got), line))
        if doc[0] == "window" and not (doc[1] <= got <= doc[2]):
            bad.append((op, "%s: count %d must give a cost in [%d, %d], the generated setting makes crypt use %d" % (m, c, doc[1], doc[2], got), line))
    R.cov["evaluations"] = len(ops)
    R.cov["distinct_nontrivial"] = len({(m, c) for (m, c) in meta})
    R.cov["rule"] = "15 prefixes x counts (0..39, 2^k and 10^k +-1, boundaries of every method, ULONG_MAX-k, random 32/64-bit) x 3..5 random-byte strings; non-trivial = distinct (method, count)"
    R.cov["samples"] = [{"op": ops[i][:200], "impl": il[i], "model": ml[i]} for i in R.rng.sample(range(len(ops)), 4)]
    from checks.cryptstream import finish_proof
    finish_proof(R, ok, badthm, bad, diffs, "gensalt cost")

def replay(R, j):
    op = (j.get("failing_input") or {}).get("op")
    if not op: print("no concrete op; unproved:", j.get("unproved")); return 2
    il = R.run_impl([op]); print(op); print(il[0]); return 0

"""C14 — crypt_ra and crypt_gensalt_ra keep the caller's allocation protocol sound."""
from checks.common import *
from checks import cryptstream as CS, settings as S
from checks.cryptstream import finish_proof

WRAPS = ("arc4random_buf", "malloc", "calloc", "realloc", "free", "mmap", "munmap")
SIZEOF = 32768

def run(R):
    ok, badthm = R.prove()
    quick = R.tier == "quick"
    requests = [(b"pw", S.CANON[m]) for m in ("md5crypt", "sha256crypt", "descrypt", "bcrypt", "nt", "yescrypt", "bsdicrypt")] + \
               [(b"pw", b"*0"), (None, b"$1$x"), (b"pw", b"$1$bad:salt"), (b"x" * 600, b"$1$x"), (b"pw", b"$zz$"), (b"pw", None)]
    groups = []
    # fixed coverage: every kind of start the caller may hand in, each followed by two calls and the caller's free (seeded/C14e: a non-NULL block
    # with recorded size 0)
    for mode in ("null", "valid", "small 0", "small 1", "small 100", "small %d" % (SIZEOF - 1), "neg 1", "neg 100000", "big 1", "big 4096", "nullsize 64", "nullsize -3"):
        for req in (requests[0], requests[7]):
            ra = "RA 0 %s %s" % tuple(hx(x) for x in req)
            groups.append(["RASET 0 " + mode, ra, ra, "RAFREE 0"])
    for h in range(40 if quick else 1500):
        g = []
        for slot in range(2): g.append("RASET %d null" % slot)
        for k in range(R.rng.randrange(3, 41)):
            slot = R.rng.randrange(2); r = R.rng.random()
            if r < 0.25:
                mode = R.rng.choice(["null", "valid", "small 1", "small 10", "small %d" % (SIZEOF - 1), "small %d" % R.rng.randrange(1, SIZEOF), "neg 1", "neg 5", "neg 100000",
                                     "big 1", "big 4096", "small 0"])
                g.append("RASET %d %s" % (slot, mode))
            elif r < 0.32: g.append("RAFREE %d" % slot)
            elif r < 0.42: g += ["FAULT 1", "RA %d %s %s" % ((slot,) + tuple(hx(x) for x in R.rng.choice(requests)))]
            elif r < 0.5:
                g.append("GA %s 0 %s 16" % (hx(R.rng.choice([b"$6$", b"$1$", b"ab", b"$y$", b"$zz$"])), hx(bytes(R.rng.randrange(256) for _ in range(16)))))
            elif r < 0.55:
                g += ["FAULT %d" % R.rng.choice([1, 1, 2, 3]), "GA %s 0 %s 16" % (hx(R.rng.choice([b"$6$", b"$1$", b"$2b$", b"$y$", b"$zz$"])), hx(bytes(16)))]
            else: g.append("RA %d %s %s" % ((slot,) + tuple(hx(x) for x in R.rng.choice(requests))))
        g += ["RAFREE 0", "RAFREE 1"]
        groups.append(g)
    ops, il, ml = R.run_pair_sharded(groups, nshards=8, wraps=WRAPS)
    def proj(op, a, b):
        if op.startswith("RA "):
            for k in ("ret", "errno", "size", "out", "wz", "oldzero", "allocs", "fired", "leak", "dfree", "abort"):
                if k == "errno" and a.get("ret") != "NULL": continue
                if a.get(k) != b.get(k): return k + " differs"
            if (a.get("data") == "null") != (b.get("data") == "null"): return "data differs"
            return None
        if op.startswith("GA "):
            for k in ("ret", "errno", "allocs", "fired", "leak", "dfree"):
                if a.get(k) != b.get(k): return k + " differs"
            return None
        return None
    diffs = compare(R, ops, il, ml, proj, "allocation protocol")
    bad = []
    dist = R.cov["distribution"]
    for op, line in zip(ops, il):
        f = fields(line)
        if op.startswith("RAFREE") and line != "ok":
            bad.append((op, "the block in *data cannot be freed by the caller exactly once (%s)" % line, line))
        if op.startswith("RA "):
            cls = "grow" if f.get("allocs") == "1" else "reuse"; cls += ":fault" if f.get("fired") == "1" else ""
            dist[cls] = dist.get(cls, 0) + 1
            sizeb = int(f.get("sizeb", "0"))
            why = None
            if f.get("abort") != "0": why = "crypt_ra aborted"
            elif f.get("leak") != "0": why = "a block allocated inside the call is neither returned to the caller nor freed"
            elif f.get("dfree") != "0": why = "the library freed a block that was not live (double free)"
            elif f.get("data") != "null" and f.get("blk") != "ok" and f.get("fired") != "1": why = "*data is not a live block of at least *size bytes (%s)" % f.get("blk")
            elif f.get("data") == "moved" or (f.get("allocs") == "1" and f.get("fired") == "0"):
                if int(f["size"]) < SIZEOF: why = "*size %s after growth is below sizeof (struct crypt_data)" % f["size"]
                elif f.get("oldzero") == "0" and 0 < sizeb: why = "the undersized block was not erased before realloc"
                elif f.get("wz") == "0": why = "a block that had to grow is not zero-initialised afterwards (its scratch areas hold what the allocator returned)"
            if f.get("oldlive") == "1": why = "*data was replaced but the caller's previous block is still allocated: nobody holds its address any more (leak)"
            if f.get("ret") == "other": why = "the result does not point to the output field of *data"
            needs_alloc = f.get("datab") == "null" or sizeb < SIZEOF
            if f.get("fired") == "1" and needs_alloc and (f.get("ret") != "NULL" or f.get("errno") != "ENOMEM" or int(f["size"]) != sizeb):
                why = "allocation failure not reported as NULL/ENOMEM with the pair untouched"
            if f.get("fired") == "1" and not needs_alloc and (f.get("ret") != "NULL" or f.get("errno") not in ("ENOMEM", "EINVAL")):
                why = "a failing request inside the hashing method was not reported as a failure"
            if why: bad.append((op, why, line))
        if op.startswith("GA "):
            if f.get("leak") != "0" and f.get("ret") == "NULL": bad.append((op + " with an allocation request of the call failing", "crypt_gensalt_ra returned NULL but a block obtained during the call is still allocated", line))
            elif f.get("leak") != "0" or f.get("dfree") != "0": bad.append((op, "crypt_gensalt_ra leaks or double-frees", line))
            if f.get("ret") != "NULL" and f.get("blk") != "ok": bad.append((op, "crypt_gensalt_ra result is not a live malloc block", line))
            if f.get("fired") == "1" and (f.get("ret") != "NULL" or f.get("errno") != "ENOMEM"): bad.append((op, "allocation failure not reported", line))
    R.cov["evaluations"] = sum(1 for o in ops if o.startswith(("RA ", "GA ")))
    R.cov["distinct_nontrivial"] = len({o for o in ops if o.startswith(("RA ", "GA "))})
    R.cov["histories"] = len(groups)
    R.cov["rule"] = ("random histories (3..40 ops) over two (*data,*size) pairs: the caller resets the pair to NULL / valid / too small / negative size / larger blocks, "
                     "frees it, calls crypt_ra with succeeding and failing requests, with and without an injected realloc failure; crypt_gensalt_ra with and without malloc "
                     "failure; every malloc/realloc/free goes through a ledger (-Wl,--wrap); non-trivial = distinct calls")
    idx = [i for i, o in enumerate(ops) if o.startswith("RA ")]
    R.cov["samples"] = [{"op": ops[i][:160], "impl": il[i][:260], "model": ml[i][:200]} for i in R.rng.sample(idx, min(4, len(idx)))]
    finish_proof(R, ok, badthm, bad, diffs, "allocation protocol")

def replay(R, j):
    print("replay: failing input:", j.get("failing_input")); return 2

"""Grammar-directed setting generators, mutation stream and phrase generator.

Every generated setting is built from fields, so its compute cost is known by
construction; the spans of cost fields are returned so that the mutation
stream never turns a cheap setting into one that runs for hours
(`$sha1$-1$`, `$md5,rounds=4294963199$`, bcrypt cost 31, scrypt N=2^63 ...).
"""
A64 = b"./0123456789ABCDEFGHIJKLMNOPQRSTUVWXYZabcdefghijklmnopqrstuvwxyz"
BF64 = b"./ABCDEFGHIJKLMNOPQRSTUVWXYZabcdefghijklmnopqrstuvwxyz0123456789"
# printable, passwd-safe characters (what check_badsalt_chars lets through)
SAFE = bytes(c for c in range(0x21, 0x7f) if c not in b"!*:;\\")
METHODS = ["yescrypt", "gost_yescrypt", "scrypt", "bcrypt", "bcrypt_y", "bcrypt_a", "bcrypt_x", "sha512crypt",
           "sha256crypt", "sha1crypt", "sunmd5", "md5crypt", "nt", "bsdicrypt", "bigcrypt", "descrypt"]

def rs(rng, alphabet, n):
    return bytes(rng.choice(alphabet) for _ in range(n))

def pick_len(rng, mx, extra=3):
    r = rng.random()
    if r < 0.15: return 0
    if r < 0.35: return mx
    if r < 0.45: return mx + rng.randrange(1, extra + 1)
    return rng.randrange(0, mx + 1)

def tail(rng, digest_alpha, n):
    """optional '$' terminator, trailing hash portion, or junk"""
    r = rng.random()
    if r < 0.25: return b"", "bare"
    if r < 0.45: return b"$", "dollar"
    if r < 0.85: return b"$" + rs(rng, digest_alpha, n), "hash"
    return b"$" + rs(rng, SAFE, rng.randrange(1, 40)), "junk"

def gen_md5crypt(rng):
    salt = rs(rng, SAFE.replace(b"$", b"") if rng.random() < 0.8 else SAFE, pick_len(rng, 8))
    t, tag = tail(rng, A64, 22)
    return b"$1$" + salt + t, [], "md5:" + tag

def gen_sha(rng, tagc, dlen):
    pre = b"$" + tagc + b"$"
    danger = []
    r = rng.random()
    cls = "default"
    if r < 0.5:
        num, cls = rng.choice([(b"1000", "min"), (b"1001", "ok"), (b"1999", "ok"), (b"5000", "explicit-default"), (b"2500", "ok"),
                               (b"999", "below-min"), (b"0", "zero"), (b"01000", "leading-zero"), (b"1000000000", "above-max"),
                               (b"99999999999999999999999", "overflow"), (b"+1000", "plus"), (b"", "empty"), (b"1000x", "junk-after")])
        pre += b"rounds=" + num + (b"$" if rng.random() < 0.92 else b"")
        danger = [(len(pre) - len(num) - 1, len(pre))]
    salt = rs(rng, SAFE.replace(b"$", b"") if rng.random() < 0.8 else SAFE, pick_len(rng, 16))
    t, tag = tail(rng, A64, dlen)
    return pre + salt + t, danger, "sha:" + cls + ":" + tag

def gen_sunmd5(rng):
    pre = b"$md5"
    danger = []
    r = rng.random(); cls = "norounds"
    if r < 0.55:
        num, cls = rng.choice([(b"1", "ok"), (b"5", "ok"), (b"904", "ok"), (b"2000", "ok"), (b"4294967295", "wraps-to-4095"),
                               (b"4294963200", "wraps-to-0"), (b"0", "zero"), (b"01", "leading-zero"), (b"4294967296", "above-max"),
                               (b"99999999999999999999999", "overflow"), (b"", "empty")])
        pre += (b"," if rng.random() < 0.7 else b"$") + b"rounds=" + num
        danger = [(len(pre) - len(num), len(pre))]
        pre += b"$" if rng.random() < 0.92 else b""
    else:
        pre += rng.choice([b"$", b"$", b"$", b",", b""])
    salt = rs(rng, A64 if rng.random() < 0.9 else SAFE, pick_len(rng, 8))
    t, tag = rng.choice([(b"", "bare"), (b"$", "dollar"), (b"$$", "dollar-dollar"), (b"$" + rs(rng, A64, 22), "hash"),
                         (b"$$" + rs(rng, A64, 22), "dollar-dollar-hash"), (b"$x$" + rs(rng, A64, 5), "junk")])
    return pre + salt + t, danger, "sunmd5:" + cls + ":" + tag

def gen_sha1(rng, big=False):
    num, cls = rng.choice([(b"1", "ok"), (b"2", "ok"), (b"24", "ok"), (b"300", "ok"), (b"", "empty=0"), (b"0", "zero"), (b"+7", "plus"),
                           (b"-0", "minus-zero"), (b"-18446744073709551615", "minus-wraps-to-1"), (b"007", "leading-zero"),
                           (b"x", "nondigit"), (b"12x", "junk-after")])
    pre = b"$sha1$" + num
    danger = [(6, len(pre))]
    pre += b"$" if rng.random() < 0.95 else b""
    mx = 64
    ln = pick_len(rng, mx, 4) if not big else rng.choice([100, 200, 300, 320, 330, 336, 337, 338, 339, 340, 345, 350, 400, 1000, 5000, 40000])
    salt = rs(rng, A64 if rng.random() < 0.92 else SAFE, ln)
    t, tag = tail(rng, A64, 28)
    return pre + salt + t, danger, "sha1:" + cls + ":" + tag + (":bigsalt" if big else "")

def gen_nt(rng):
    t = rng.choice([b"", b"$", b"$" + rs(rng, b"0123456789abcdef", 32), rs(rng, SAFE, rng.randrange(1, 30))])
    return b"$3$" + t, [], "nt"

def gen_des(rng):
    r = rng.random()
    if r < 0.5: s = rs(rng, A64, 2)
    elif r < 0.8: s = rs(rng, A64, 13)
    elif r < 0.9: s = rs(rng, A64, 2) + rs(rng, SAFE, rng.randrange(0, 11))
    else: s = rs(rng, A64, rng.randrange(3, 13))
    return s, [], "des:%d" % len(s)

def gen_big(rng):
    n = rng.choice([14, 15, 24, 35, 90, 178, 179, 200])
    s = rs(rng, A64, 2) + (rs(rng, A64, n - 2) if rng.random() < 0.8 else rs(rng, SAFE, n - 2))
    return s, [], "big:%d" % n

def gen_bsdi(rng):
    cnt = rng.choice([1, 3, 25, 725, 1001, 0, 2, 4095])
    c4 = bytes([A64[cnt & 63], A64[(cnt >> 6) & 63], A64[0], A64[0]])
    salt = rs(rng, A64, 4)
    r = rng.random()
    if r < 0.4: t = b""
    elif r < 0.8: t = rs(rng, A64, 11)
    else: t = rs(rng, SAFE, rng.randrange(1, 20))
    s = b"_" + c4 + salt + t
    if rng.random() < 0.1: s = s[:rng.randrange(1, 9)]
    return s, [(1, 5)], "bsdi:%d" % cnt

def gen_bcrypt(rng, sub):
    cost, cls = rng.choice([(b"04", "ok"), (b"05", "ok"), (b"04", "ok"), (b"00", "too-low"), (b"03", "too-low"), (b"32", "too-high"),
                            (b"4$", "one-digit"), (b"0x", "nondigit"),
                            # spellings a numeric parse (strtoul/atoi) would accept where the documented field is two decimal digits (seeded/C06d)
                            (b"+4", "signed"), (b"+5", "signed"), (b"-4", "signed"), (b" 4", "space"), (b"4 ", "space"), (b"0+", "nondigit")])
    salt = rs(rng, BF64, 22)
    r = rng.random()
    if r < 0.1: salt = salt[:rng.randrange(0, 22)]
    elif r < 0.2: salt = salt[:rng.randrange(0, 22)] + rs(rng, SAFE, 1) + salt
    t = rng.choice([b"", rs(rng, BF64, 31), rs(rng, SAFE, rng.randrange(1, 40))])
    return b"$2" + sub + b"$" + cost + b"$" + salt + t, [(4, 6)], "bcrypt" + sub.decode() + ":" + cls

def enc_fixed30(v):
    return bytes(A64[(v >> (6 * i)) & 63] for i in range(5))

def gen_scrypt(rng, big=False):
    nlog = rng.choice([1, 2, 4, 6, 8, 10])
    r = rng.choice([1, 1, 2, 8]); p = rng.choice([1, 1, 2, 3])
    cls = "ok"
    if rng.random() < 0.1: r, cls = 0, "r=0"
    if rng.random() < 0.1: p, cls = 0, "p=0"
    pre = b"$7$" + bytes([A64[nlog]]) + enc_fixed30(r) + enc_fixed30(p)
    if rng.random() < 0.08: pre = b"$7$" + rs(rng, b"#%&()+,-<=>?@[]^_`{|}~$", 1) + pre[4:]; cls = "bad-N"
    ln = rng.choice([0, 1, 8, 16, 22, 43, 86, 100]) if not big else rng.choice([200, 250, 281, 282, 290, 295, 296, 300, 320, 325, 326, 330, 400])
    salt = rs(rng, A64 if rng.random() < 0.8 else A64 + b"$", ln)
    t, tag = tail(rng, A64, 43)
    return pre + salt + t, [(3, 14)], "scrypt:" + cls + ":" + tag + (":bigsalt" if big else "")

def enc_var(v, mn):
    """alg-yescrypt-common.c encode64_uint32"""
    start, end, chars, bits = 0, 47, 1, 0
    v -= mn
    while True:
        count = (end + 1 - start) << bits
        if v < count: break
        start = end + 1; end = start + (62 - end) // 2; v -= count; chars += 1; bits += 6
    out = [A64[start + (v >> bits)]]
    for _ in range(chars - 1):
        bits -= 6; out.append(A64[(v >> bits) & 63])
    return bytes(out)

def enc64(b):
    out = bytearray(); i = 0
    while i < len(b):
        v = 0; bits = 0
        while bits < 24 and i < len(b):
            v |= b[i] << bits; bits += 8; i += 1
        for k in range(0, bits, 6): out.append(A64[(v >> k) & 63])
    return bytes(out)

def gen_yescrypt(rng, tag=b"$y$"):
    flavor, cls = rng.choice([(47, "rw"), (47, "rw"), (47, "rw"), (0, "classic"), (1, "worm"), (2, "rw-bad-flavor"), (46, "bad-flavor"), (300, "flavor-too-big")])
    nlog = rng.choice([4, 6, 8, 9, 10]) if flavor == 47 else rng.choice([2, 4, 6, 8])
    r = rng.choice([1, 2, 8])
    pre = tag + enc_var(flavor, 0) + enc_var(nlog, 1) + enc_var(r, 1)
    have = 0; opt = b""
    if rng.random() < 0.3:
        p = rng.choice([2, 3]); t = rng.choice([0, 1, 2]); g = rng.choice([0, 0, 0, 1])
        have = 1 | (2 if t else 0) | (4 if g else 0)
        opt = enc_var(have, 1) + enc_var(p, 2) + (enc_var(t, 1) if t else b"") + (enc_var(g, 1) if g else b"")
        cls += ":p%d,t%d,g%d" % (p, t, g)
    if rng.random() < 0.05: opt = enc_var(8, 1) + enc_var(10, 1); cls += ":NROM"
    pre += opt
    danger = [(len(tag), len(pre))]
    pre += b"$" if rng.random() < 0.95 else b""
    nb = rng.choice([0, 1, 2, 3, 4, 8, 16, 17, 32, 63, 64, 65])
    salt = enc64(bytes(rng.randrange(256) for _ in range(nb)))
    if rng.random() < 0.1: salt = rs(rng, A64, rng.randrange(1, 90)); cls += ":rawsalt"
    t, tg = tail(rng, A64, 43)
    return pre + salt + t, danger, ("gost:" if tag == b"$gy$" else "yescrypt:") + cls + ":" + tg

def gen_setting(rng, m, big=False):
    if m == "md5crypt": return gen_md5crypt(rng)
    if m == "sha256crypt": return gen_sha(rng, b"5", 43)
    if m == "sha512crypt": return gen_sha(rng, b"6", 86)
    if m == "sunmd5": return gen_sunmd5(rng)
    if m == "sha1crypt": return gen_sha1(rng, big)
    if m == "nt": return gen_nt(rng)
    if m == "descrypt": return gen_des(rng)
    if m == "bigcrypt": return gen_big(rng)
    if m == "bsdicrypt": return gen_bsdi(rng)
    if m == "bcrypt": return gen_bcrypt(rng, b"b")
    if m == "bcrypt_a": return gen_bcrypt(rng, b"a")
    if m == "bcrypt_x": return gen_bcrypt(rng, b"x")
    if m == "bcrypt_y": return gen_bcrypt(rng, b"y")
    if m == "scrypt": return gen_scrypt(rng, big)
    if m == "yescrypt": return gen_yescrypt(rng)
    if m == "gost_yescrypt": return gen_yescrypt(rng, b"$gy$")
    raise KeyError(m)

# cheap canonical valid settings (one per method) for histories and mutation bases
CANON = {
    "md5crypt": b"$1$saltsalt", "sha256crypt": b"$5$rounds=1000$saltsaltsaltsalt", "sha512crypt": b"$6$rounds=1000$saltsaltsaltsalt",
    "sunmd5": b"$md5,rounds=5$saltsalt$", "sha1crypt": b"$sha1$24$saltsalt$", "nt": b"$3$", "descrypt": b"ab", "bigcrypt": b"ab............",
    "bsdicrypt": b"_J9..salt", "bcrypt": b"$2b$04$abcdefghijklmnopqrstuu", "bcrypt_a": b"$2a$04$abcdefghijklmnopqrstuu",
    "bcrypt_x": b"$2x$04$abcdefghijklmnopqrstuu", "bcrypt_y": b"$2y$04$abcdefghijklmnopqrstuu",
    "scrypt": b"$7$66..../....saltsalt", "yescrypt": b"$y$j75$saltsaltsalt", "gost_yescrypt": b"$gy$j75$saltsaltsalt",
}
CANON_DANGER = {"sha256crypt": [(10, 14)], "sha512crypt": [(10, 14)], "sunmd5": [(12, 13)], "sha1crypt": [(6, 8)], "bsdicrypt": [(1, 5)],
                "bcrypt": [(4, 6)], "bcrypt_a": [(4, 6)], "bcrypt_x": [(4, 6)], "bcrypt_y": [(4, 6)], "scrypt": [(3, 14)],
                "yescrypt": [(3, 6)], "gost_yescrypt": [(4, 7)]}

def in_danger(i, danger):
    return any(a <= i < b for a, b in danger)

def mutations(setting, danger, values=range(1, 256)):
    """every byte value at every position (cost fields only towards rejecting values), every truncation"""
    out = []
    for i in range(len(setting)):
        for v in values:
            if v == setting[i]: continue
            if in_danger(i, danger) and (chr(v).isalnum() or v in b"./+-"):
                continue
            out.append(setting[:i] + bytes([v]) + setting[i + 1:])
    for i in range(len(setting)):
        if not in_danger(i, danger) and not in_danger(i - 1, danger):
            out.append(setting[:i])
    return out

BOUNDARY = [0, 1, 7, 8, 9, 15, 16, 17, 55, 56, 57, 63, 64, 65, 71, 72, 73, 111, 112, 113, 119, 120, 127, 128, 129, 255, 256, 257, 510, 511]

def gen_phrase(rng, maxlen=511):
    r = rng.random()
    if r < 0.5: n = rng.choice([b for b in BOUNDARY if b <= maxlen])
    else: n = rng.randrange(0, maxlen + 1)
    r = rng.random()
    if r < 0.5: return bytes(rng.randrange(1, 256) for _ in range(n))
    if r < 0.8: return bytes(rng.randrange(0x20, 0x7f) for _ in range(n))
    if r < 0.9: return bytes([rng.choice([0xff, 0x80, 0x7f, 0x01])]) * n
    return bytes(rng.choice([0xff, 0x80, 0xa3, 0x33, 0x34]) for _ in range(n))

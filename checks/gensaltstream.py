"""Shared pieces for the gensalt-centred checks C10, C11, C12."""
from checks.common import *
from checks import settings as S

U64 = 2**64 - 1
TAGS = dict(PREFIXES)
TAGS["bigcrypt"] = b""        # with descrypt enabled bigcrypt's gensalt is descrypt's

def a64idx(c): return S.A64.index(c)

def dec_var(s, i, mn):
    """alg-yescrypt-common.c decode64_uint32 (independent re-implementation for the oracle)"""
    start, end, chars, bits = 0, 47, 1, 0
    c = a64idx(s[i]); i += 1
    v = mn
    while c > end:
        v += (end + 1 - start) << bits
        start = end + 1; end = start + (62 - end) // 2; chars += 1; bits += 6
    v += (c - start) << bits
    for _ in range(chars - 1):
        bits -= 6; v += a64idx(s[i]) << bits; i += 1
    return v, i

def decode_cost(method, setting):
    """what crypt will do for this setting: ('rounds', n) etc. - independent decoder written from crypt(5)"""
    s = setting
    if method in ("sha256crypt", "sha512crypt"):
        body = s[3:]
        if body.startswith(b"rounds="):
            return int(body[7:body.index(b"$")])
        return 5000
    if method == "md5crypt": return 1000
    if method == "sunmd5":
        assert s.startswith(b"$md5,rounds=") or s.startswith(b"$md5$rounds=")
        n = int(s[12:s.index(b"$", 12)])
        return (4096 + n) % 2**32          # crypt_sunmd5_rn counts in an unsigned int
    if method == "sha1crypt":
        return int(s[6:s.index(b"$", 6)])
    if method == "bsdicrypt":
        return sum(a64idx(s[1 + i]) << (6 * i) for i in range(4))
    if method in ("descrypt", "bigcrypt"): return 25
    if method == "nt": return 1
    if method.startswith("bcrypt"): return int(s[4:6])
    if method == "scrypt":
        return (a64idx(s[3]), sum(a64idx(s[4 + i]) << (6 * i) for i in range(5)), sum(a64idx(s[9 + i]) << (6 * i) for i in range(5)))
    if method in ("yescrypt", "gost_yescrypt"):
        i = 3 if method == "yescrypt" else 4
        flavor, i = dec_var(s, i, 0); nlog, i = dec_var(s, i, 1); r, i = dec_var(s, i, 1)
        return (flavor, nlog, r, s[i:i + 1] == b"$")
    raise KeyError(method)

def documented_cost(method, count):
    """C11's documented function of count: returns ('exact', v) | ('window', lo, hi) | 'EINVAL'"""
    if method in ("sha256crypt", "sha512crypt"):
        c = 5000 if count == 0 else count
        return ("exact", min(max(c, 1000), 999999999))
    if method in ("md5crypt",): return ("exact", 1000) if count == 0 else "EINVAL"
    if method in ("nt",): return ("exact", 1) if count == 0 else "EINVAL"
    if method in ("descrypt", "bigcrypt"): return ("exact", 25) if count == 0 else "EINVAL"
    if method == "bsdicrypt":
        c = 725 if count == 0 else count
        return ("exact", min(c, 0xffffff) | 1)
    if method == "sha1crypt":
        c = 262144 if count == 0 else count
        c = min(max(c, 4), 2**32 - 1)
        return ("window", c - c // 4 + 1, c)
    if method == "sunmd5":
        c = min(max(count, 32768), 2**32 - 1 - 65536)
        return ("window", 4096 + c, min(4096 + c + 65535, 2**32 - 1))
    if method in ("bcrypt", "bcrypt_a", "bcrypt_y"):
        c = 5 if count == 0 else count
        return ("exact", c) if 4 <= c <= 31 else "EINVAL"
    if method == "bcrypt_x": return "EINVAL"
    if method == "scrypt":
        c = 7 if count == 0 else count
        return ("exact", (c + 7, 32, 1)) if 6 <= c <= 11 else "EINVAL"
    if method in ("yescrypt", "gost_yescrypt"):
        c = 5 if count == 0 else count
        if not 1 <= c <= 11: return "EINVAL"
        return ("exact", (47, c + 9, 8, True)) if c < 3 else ("exact", (47, c + 7, 32, True))
    raise KeyError(method)

# minimum / standard salt sizes in bits (crypt(5) and the statement of C12)
MIN_BITS = {"descrypt": 12, "bigcrypt": 12, "bsdicrypt": 24, "md5crypt": 6, "sunmd5": 48, "sha1crypt": 6, "sha256crypt": 6, "sha512crypt": 6,
            "bcrypt": 128, "bcrypt_a": 128, "bcrypt_y": 128, "scrypt": 128, "yescrypt": 128, "gost_yescrypt": 128}
STD_BITS = {"descrypt": 12, "bigcrypt": 12, "bsdicrypt": 24, "md5crypt": 48, "sunmd5": 48, "sha1crypt": 72, "sha256crypt": 96, "sha512crypt": 96,
            "bcrypt": 128, "bcrypt_a": 128, "bcrypt_y": 128, "scrypt": 128, "yescrypt": 128, "gost_yescrypt": 128}

def salt_chars(method, setting):
    """the salt field of a generated setting (characters), by the documented layout"""
    s = setting
    if method in ("descrypt", "bigcrypt"): return s[:2]
    if method == "bsdicrypt": return s[5:9]
    if method in ("md5crypt", "sha256crypt", "sha512crypt"):
        body = s[3:]
        if body.startswith(b"rounds="): body = body[body.index(b"$") + 1:]
        return body.rstrip(b"$")
    if method == "sunmd5": return s[s.index(b"$", 5) + 1:].rstrip(b"$")
    if method == "sha1crypt": return s[s.index(b"$", 6) + 1:].rstrip(b"$")
    if method.startswith("bcrypt"): return s[7:29]
    if method == "scrypt": return s[14:]
    if method in ("yescrypt", "gost_yescrypt"): return s[s.rindex(b"$") + 1:]
    raise KeyError(method)

def salt_bits(method, setting):
    n = len(salt_chars(method, setting))
    if method.startswith("bcrypt"): return 128
    if method in ("scrypt", "yescrypt", "gost_yescrypt"): return n * 6 // 8 * 8
    return n * 6

# number of leading random bytes whose every bit must influence the output, as a function of nrbytes (C12 / DESIGN §6)
def consumed_window(method, n):
    if method in ("descrypt", "bigcrypt"): return [(0, 0x3f), (1, 0x3f)]
    if method == "bsdicrypt": return [(i, 0xff) for i in range(3)]
    if method == "md5crypt": k = min(3 * ((n - 1) // 3), 6); return [(i, 0xff) for i in range(k)]
    if method in ("sha256crypt", "sha512crypt"): k = min(3 * ((n - 1) // 3), 12); return [(i, 0xff) for i in range(k)]
    if method == "sunmd5": return [(i, 0xff) for i in range(2, 8)]
    if method == "sha1crypt": k = min(3 * ((n - 4 - 1) // 3), 45); return [(4 + i, 0xff) for i in range(k)]
    if method.startswith("bcrypt"): return [(i, 0xff) for i in range(16)]
    if method in ("scrypt", "yescrypt", "gost_yescrypt"): return [(i, 0xff) for i in range(min(n, 64))]
    return []

NEED = {"descrypt": 2, "bigcrypt": 2, "bsdicrypt": 3, "md5crypt": 4, "sha256crypt": 4, "sha512crypt": 4, "sunmd5": 8, "sha1crypt": 16,
        "bcrypt": 16, "bcrypt_a": 16, "bcrypt_y": 16, "scrypt": 16, "yescrypt": 16, "gost_yescrypt": 16, "nt": 0}

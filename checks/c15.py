"""C15 — allocation and mapping failures are reported cleanly and leak nothing."""
from checks.common import *
from checks import cryptstream as CS, settings as S
from checks.cryptstream import finish_proof
from checks.c14 import WRAPS

def run(R):
    ok, badthm = R.prove()
    quick = R.tier == "quick"
    corpus = []
    for m in S.METHODS:
        corpus.append((m, b"pw", S.CANON[m]))
        if not quick:
            for _ in range(6):
                st, _, tag = S.gen_setting(R.rng, m); corpus.append((m, S.gen_phrase(R.rng, 40), st))
    corpus += [("yescrypt", b"pw", b"$y$j85$abcd"), ("yescrypt", b"pw", b"$y$j75/.$abcd"), ("scrypt", b"pw", b"$7$8..../....abcd"), ("gost_yescrypt", b"pw", b"$gy$j85$abcd"),
               # crypt_gensalt's default cost (N*r = 0x20000: yescrypt sizes its area in a separate pass first, another place where a refused
               # mapping has to end the call - seeded/C15h) and the first cost with parallelism
               ("yescrypt", b"pw", b"$y$j9T$abcd"), ("gost_yescrypt", b"pw", b"$gy$j9T$abcd"), ("yescrypt", b"pw", b"$y$j9T0..$abcd")]
    groups = []
    for m, ph, st in corpus:
        for entry in (["rn", "r", "st"] if not quick else ["rn", "r"]):
            g = ["O 0 p 3", "CF %s 0 %s %s" % (entry, hx(ph), hx(st))]        # fault-free: learn the number of requests
            for k in (1, 2, 3):
                g += ["O 0 p 3", "FAULT %d" % k, "CF %s 0 %s %s" % (entry, hx(ph), hx(st)), "CF %s 0 %s %s" % (entry, hx(ph), hx(st))]   # failing call, then the next call
            groups.append(g)
        # crypt_ra: the realloc and the KDF's requests
        g = ["RASET 0 null", "FAULT 1", "RA 0 %s %s" % (hx(ph), hx(st)), "RA 0 %s %s" % (hx(ph), hx(st)), "RAFREE 0"]
        groups.append(g)
        # the same from a caller-owned block that is too small (or has a negative recorded size): fail the grow request twice
        # in a row, then let it succeed (seeded/C15: the pair must stay truthful across the failures)
        for mode in (["small 64", "small 1", "neg 5", "small 32767"] if not quick else [R.rng.choice(["small 64", "small 1", "neg 5", "small 32767"])]):
            ra = "RA 0 %s %s" % (hx(ph), hx(st))
            groups.append(["RASET 0 " + mode, "FAULT 1", ra, "FAULT 1", ra, ra, "RAFREE 0"])
    # crypt_gensalt_ra: its allocator requests fail in turn as well (a prefix of every method, NULL, an unknown one), then the same call again
    rb = hx(bytes(range(1, 65)))
    for pfx in sorted(set(PREFIXES.values())) + [None, b"$zz$"]:
        ga = "GA %s 0 %s 64" % (hx(pfx), rb)
        g = [ga]
        for k in (1, 2, 3): g += ["FAULT %d" % k, ga, ga]
        groups.append(g)
    ops, il, ml = R.run_pair_sharded(groups, nshards=8, wraps=WRAPS)
    def proj(op, a, b):
        if op.startswith("GA "):
            for k in ("ret", "errno", "allocs", "fired", "leak", "dfree"):
                if a.get(k) != b.get(k): return k + " differs"
            return None
        if op.startswith("CF "):
            d = CS.proj_crypt("C" + op[2:], a, b)
            if d: return d
            for k in ("allocs", "fired", "leak", "dfree", "maps", "badmunmap"):
                if a.get(k) != b.get(k): return k + " differs"
            return None
        if op.startswith("RA "):
            for k in ("ret", "size", "out", "allocs", "fired", "leak", "dfree"):
                if a.get(k) != b.get(k): return k + " differs"
        return None
    diffs = compare(R, ops, il, ml, proj, "fault schedule")
    bad = []
    dist = R.cov["distribution"]
    nreq = {}
    prev_fault = None
    cur_size = None      # what the caller's *size says before the call
    for i, (op, line) in enumerate(zip(ops, il)):
        if op.startswith("FAULT"): prev_fault = int(op.split(" ")[1]); continue
        if op.startswith("RASET"):
            t = op.split(" "); cur_size = {"null": 0, "valid": 32768}.get(t[2], int(t[3]) if len(t) > 3 else 0)
            if t[2] == "neg": cur_size = -int(t[3])
            if t[2] == "big": cur_size = 32768 + int(t[3])
            continue
        if op.startswith("RA "):
            f0 = fields(line)
            if f0.get("ret") == "NULL" and f0.get("errno") == "ENOMEM" and cur_size is not None and f0.get("size") != str(cur_size):
                bad.append((op + " with the allocation failing", "crypt_ra failed with ENOMEM but changed *size from %d to %s: the pair no longer describes the caller's block"
                            % (cur_size, f0.get("size")), line))
            if f0.get("size", "").lstrip("-").isdigit(): cur_size = int(f0["size"])
        if op.startswith("GA "):
            f = fields(line)
            if f.get("fired") == "1":
                dist["fault-fired"] = dist.get("fault-fired", 0) + 1; dist["gensalt_ra-fault-fired"] = dist.get("gensalt_ra-fault-fired", 0) + 1
                why = None
                if f.get("ret") != "NULL": why = "a setting was returned although request %s failed" % prev_fault
                elif f.get("errno") not in ("ENOMEM", "EINVAL", "ERANGE"): why = "errno %s is not a documented error code" % f.get("errno")
                elif f.get("dfree") != "0": why = "double free"
                elif f.get("leak") != "0": why = "crypt_gensalt_ra returned NULL but a block obtained during the call is still allocated (leaked)"
                if why: bad.append((op + " with request %s failing" % prev_fault, why, line))
                base = [l for o, l in zip(ops, il) if o == op and fields(l).get("fired") == "0"]
                if i + 1 < len(il) and ops[i + 1] == op and base and fields(il[i + 1]).get("ret") != fields(base[0]).get("ret"):
                    bad.append((op, "the crypt_gensalt_ra call following a failed one does not give the fault-free answer", il[i + 1]))
            elif f.get("leak") != "0" or f.get("dfree") != "0": bad.append((op, "crypt_gensalt_ra leaks or double-frees", line))
            prev_fault = None
            continue
        if not op.startswith(("CF ", "RA ")): continue
        f = fields(line)
        fired = f.get("fired") == "1"
        key = op
        if not fired and prev_fault is None: nreq[key] = int(f.get("allocs", 0))
        if fired:
            k = prev_fault
            dist["fault-fired"] = dist.get("fault-fired", 0) + 1
            failed = f.get("ret") == "NULL" or f.get("out", "").startswith("2a")
            munmap_fault = op.startswith("CF ") and int(f.get("allocs", 0)) == 2 and k == 2
            why = None
            if f.get("abort") != "0": why = "the call aborted"
            elif not failed: why = "a hash was returned although request %d failed" % k
            elif f.get("errno") not in ("ENOMEM", "EINVAL", "ERANGE"): why = "errno %s is not a documented error code" % f.get("errno")
            elif f.get("dfree") != "0": why = "double free"
            elif f.get("leak") != "0" and not munmap_fault: why = "a block or mapping the library still controls was leaked"
            elif op.startswith("CF ") and f.get("wz") == "0": why = "scratch memory not erased after the failure"
            if why: bad.append((op + " with request %d failing" % k, why, line))
            # the next call on the same objects behaves normally
            nxt = il[i + 1] if i + 1 < len(il) and not ops[i + 1].startswith(("FAULT", "RAFREE", "RASET")) else None   # (a further injected fault is a failing call again)
            base = [l for o, l in zip(ops, il) if o == op and fields(l).get("fired") == "0"]
            if nxt is not None and base and fields(nxt).get("out") != fields(base[0]).get("out"):
                bad.append((op, "the call following a failed one does not give the fault-free answer", nxt))
        else:
            dist["no-fault"] = dist.get("no-fault", 0) + 1
        prev_fault = None
    # large working areas (>= 32 MiB: alloc_region first asks for huge pages and retries with regular pages): implementation only, the
    # request pattern depends on whether the host has huge pages reserved, so the model does not predict it (seeded/C15b).  Every
    # single fault position 1..4: the process must survive, a failing call must fail cleanly, the next call must work.
    big = [b"$y$jAT$abcd", b"$gy$jAT$abcd", b"$7$A6..../....abcd"]
    bops = []
    for st in big:
        bops += ["O 0 p 3", "CF rn 0 %s %s" % (hx(b"pw"), hx(st))]
        for k in (1, 2, 3, 4):
            bops += ["O 0 p 3", "FAULT %d" % k, "CF rn 0 %s %s" % (hx(b"pw"), hx(st)), "CF rn 0 %s %s" % (hx(b"pw"), hx(st))]
    bl = R.run_impl(bops, wraps=WRAPS, timeout=600)
    if R.last_impl_rc != 0 or len(bl) != len(bops):
        # output is block-buffered: find the group that kills the process by running the groups one by one
        groups_b, cur = [], []
        for o in bops:
            if o.startswith("O ") and cur: groups_b.append(cur); cur = []
            cur.append(o)
        groups_b.append(cur)
        culprit, rc, err = None, R.last_impl_rc, R.last_impl_stderr
        for gb in groups_b:
            out1 = R.run_impl(gb, wraps=WRAPS, timeout=600)
            if R.last_impl_rc != 0 or len(out1) != len(gb):
                culprit, rc, err = " ; ".join(gb[1:3]), R.last_impl_rc, R.last_impl_stderr; break
        bad.append((culprit or bops[-1], "the process died (rc=%s) when a mapping request of a large yescrypt-family hash failed: %s"
                    % (rc, (err or "")[-200:].replace("\n", " ")), ""))
    else:
        ref_out = {}
        pf = None
        for i, (op, line) in enumerate(zip(bops, bl)):
            if op.startswith("FAULT"): pf = int(op.split(" ")[1]); continue
            if not op.startswith("CF "): continue
            f = fields(line)
            # whatever path the region allocator took (huge pages, the regular-page retry, an injected refusal): when the call returns, every
            # mapping it created is gone in full - the ledger records lengths, a partial munmap counts as a leak (seeded/C15g)
            if f.get("badmunmap", "0") != "0" or (f.get("maps", "0") != "0" and not (f.get("fired") == "1" and pf is not None and int(f.get("allocs", 0)) == pf)):
                bad.append((op + (" with request %d failing" % pf if pf else ""), "a mapping created during the call was not released in full (maps=%s, munmap with a wrong length: %s)"
                            % (f.get("maps"), f.get("badmunmap")), line))
            if pf is None and f.get("fired") == "0": ref_out.setdefault(op, f.get("out"))
            if f.get("fired") == "1":
                failed = f.get("ret") == "NULL" or f.get("out", "").startswith("2a")
                if f.get("abort") != "0": bad.append((op + " with request %d failing" % pf, "the call aborted", line))
                elif failed and f.get("errno") not in ("ENOMEM", "EINVAL", "ERANGE"): bad.append((op + " with request %d failing" % pf, "errno %s after a mapping failure" % f.get("errno"), line))
                elif not failed and f.get("out") != ref_out.get(op): bad.append((op + " with request %d failing" % pf, "a different hash was returned after a mapping failure", line))
                nxt = bl[i + 1] if i + 1 < len(bl) else None
                if nxt is not None and op in ref_out and fields(nxt).get("out") != ref_out[op]:
                    bad.append((op, "the call following a failed mapping request does not give the fault-free answer", nxt))
            pf = None
    R.cov["large_area_ops"] = len(bops)
    R.cov["evaluations"] = sum(1 for o in ops if o.startswith(("CF ", "RA ", "GA ")))
    R.cov["distinct_nontrivial"] = dist.get("fault-fired", 0)
    R.cov["exhaustive"] = True
    R.cov["rule"] = ("for every call of a corpus covering all 16 methods (x entry points rn/r/static, plus crypt_ra, plus crypt_gensalt_ra for every prefix): the fault-free run counts the allocator/mapper "
                     "requests (malloc/realloc/mmap/munmap through -Wl,--wrap), then every single position k = 1..3 fails in turn (positions beyond the request count "
                     "do not fire and are compared as fault-free runs), followed by the same call again; non-trivial = calls in which the injected fault fired")
    idx = [i for i, l in enumerate(il) if " fired=1" in l]
    R.cov["samples"] = [{"op": ops[i][:160], "impl": il[i][:260], "model": ml[i][:260]} for i in R.rng.sample(idx, min(4, len(idx)))]
    finish_proof(R, ok, badthm, bad, diffs, "fault schedule")

def replay(R, j):
    print("replay: failing input:", j.get("failing_input")); return 2

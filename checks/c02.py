"""C02 — hashes equal the published algorithms (cross-implementation, cross-release)."""
import os, subprocess
from checks.common import *
from checks import cryptstream as CS, settings as S, pycrypt
from checks.cryptstream import finish_proof
from checks.c20 import RELEASED_SO

def expected(m, ph, st, hamlet):
    """the hash an independent implementation of the published algorithm computes for a VALID canonical setting, or None"""
    try:
        if m == "md5crypt":
            body = st[3:]; salt = body.split(b"$")[0]; return pycrypt.md5crypt(ph, salt)
        if m in ("sha256crypt", "sha512crypt"):
            which = 5 if m == "sha256crypt" else 6
            body = st[3:]; rounds = 5000; pre = b"$%d$" % which
            if body.startswith(b"rounds="):
                rounds = int(body[7:body.index(b"$")]); pre += body[:body.index(b"$") + 1]; body = body[body.index(b"$") + 1:]
            salt = body.split(b"$")[0][:16]
            return pre + salt + b"$" + pycrypt.shacrypt(ph, salt, rounds, which)
        if m == "sha1crypt":
            _, _, it, salt = st.split(b"$")[:4]; return pycrypt.sha1crypt(ph, salt, int(it))
        if m == "nt": return pycrypt.nthash(ph)
        if m == "descrypt": return pycrypt.descrypt(ph, st)
        if m == "bigcrypt": return pycrypt.bigcrypt(ph, st) if not (len(ph) > 8 and len(st) <= 13) else pycrypt.descrypt(ph, st)
        if m == "bsdicrypt": return pycrypt.bsdicrypt(ph, st)
        if m == "scrypt": return pycrypt.scrypt7(ph, st)
        if m == "sunmd5":
            # canonical forms only: "$md5,rounds=N$salt$" / "$md5$salt$"
            i = st.index(b"$", 5) if st[4:5] == b"," or st[5:12] == b"rounds=" else 4
            n = 0
            if b"rounds=" in st[:13]: n = int(st[st.index(b"rounds=") + 7:i])
            j = st.index(b"$", i + 1)
            # Solaris rule: a '$' followed by another '$' or by the end of the string belongs to the salt
            if st[j + 1:j + 2] in (b"$", b""): j += 1
            return pycrypt.sunmd5(ph, st[:j], 4096 + n, hamlet)
    except Exception:
        return None
    return None

def released_accepts(st):
    """validity of a generated parameter set is decided by the released library (python's crypt module binds the system libcrypt), not by the model"""
    try:
        import warnings
        with warnings.catch_warnings():
            warnings.simplefilter("ignore"); import crypt as pycrypt_mod
        r = pycrypt_mod.crypt("x", st.decode("latin1"))
        return r is not None and not r.startswith("*")
    except Exception:
        return False

def run(R):
    ok, badthm = R.prove()
    quick = R.tier == "quick"
    # stream of VALID settings with compute-budgeted parameters
    canon_variants = {
        "md5crypt": [b"$1$", b"$1$s", b"$1$saltsalt", b"$1$saltsalt$"], "sha256crypt": [b"$5$rounds=1000$", b"$5$rounds=1000$saltsaltsaltsalt", b"$5$rounds=1234$salt$", b"$5$salt"],
        "sha512crypt": [b"$6$rounds=1000$", b"$6$rounds=1000$saltsaltsaltsalt", b"$6$rounds=1999$s$", b"$6$salt"], "sha1crypt": [b"$sha1$1$s", b"$sha1$24$saltsalt$", b"$sha1$300$" + b"x" * 64],
        "sunmd5": [b"$md5,rounds=5$saltsalt$", b"$md5$saltsalt$", b"$md5,rounds=904$x$"], "nt": [b"$3$"], "descrypt": [b"ab", b"..", b"zz", b"Kx"], "bigcrypt": [b"ab............", b"zz" + b"." * 30],
        # (odd and EVEN iteration counts: crypt_gensalt only emits odd ones, other implementations' hashes carry either - seeded/C02h)
        "bsdicrypt": [b"_J9..salt", b"_/...abcd", b"_1...zzzz", b"_.....aaa", b"_K9..Salt", b"_0...abcd", b"_2...wxyz", b"_Gl/.ABCD"], "scrypt": [b"$7$66..../....saltsalt", b"$7$4/..../....x", b"$7$86..../....SodiumChloride"],
        "bcrypt": [b"$2b$04$abcdefghijklmnopqrstuu", b"$2b$05$......................"], "bcrypt_a": [b"$2a$04$abcdefghijklmnopqrstuu"], "bcrypt_x": [b"$2x$04$abcdefghijklmnopqrstuu"],
        "bcrypt_y": [b"$2y$04$abcdefghijklmnopqrstuu"], "yescrypt": [b"$y$j75$saltsaltsalt", b"$y$j85$abcd", b"$y$j75/.$abcd", b"$y$.75$abcd", b"$y$/65$abcd",
                     # explicit parallelism p (not a power of two, so that N/p is odd) and time parameter t (seeded/C02)
                     b"$y$j85.1$saltsalt", b"$y$j750//$abcd", b"$y$j55./$abcd", b"$y$j75./$abcd", b"$y$j65.0$abcd"],
        "gost_yescrypt": [b"$gy$j75$saltsaltsalt", b"$gy$j85$abcd", b"$gy$j85.1$abcd", b"$gy$j550//$abcd"],
    }
    # plus grammar-generated yescrypt parameter sets (p in {2,3}, t in {0,1,2}, N = 2^4..2^10, r in {1,2,8}) that the model accepts
    for tag, m in ((b"$y$", "yescrypt"), (b"$gy$", "gost_yescrypt")):
        seen = 0
        for _ in range(400):
            st, _, cls = S.gen_yescrypt(R.rng, tag)
            if ":p" in cls and "rw" in cls and "bad" not in cls and "NROM" not in cls and ",g1" not in cls and "junk" not in cls and released_accepts(st):
                canon_variants[m].append(st); seen += 1
            if seen >= (6 if quick else 40): break
    ops, meta = [], []
    lens = list(range(0, 40)) + [55, 56, 57, 63, 64, 65, 71, 72, 73, 111, 112, 119, 120, 127, 128, 129, 200, 255, 256, 257, 510, 511] if quick else list(range(0, 512))
    for m, vs in canon_variants.items():
        for n in lens:
            heavy = m in ("sunmd5", "sha256crypt", "sha512crypt", "yescrypt", "gost_yescrypt", "scrypt")
            if quick and heavy and n > 130 and n not in (255, 256, 511): continue
            for st in (vs if (not quick or n < 20) else [R.rng.choice(vs)]):
                ph = bytes(R.rng.randrange(1, 256) for _ in range(n))
                ops.append(CS.crypt_op("rn", 0, ph, st)); meta.append((m, "valid", n, len(st)))
    # arithmetic-edge phrases: every byte 0xff / 0x80 / 0x01, and 0xff runs behind a carry-producing block, at lengths around the digests' block
    # sizes - carries in a 512-bit checksum (Streebog), counters and length fields behave differently on all-ones words than on random text
    # (seeded/C02e: a lost carry in add512 needs an aligned run of eight 0xff bytes in the second or a later 64-byte block)
    for m, vs in canon_variants.items():
        for n in ((8, 64, 80, 128, 200) if quick else (8, 63, 64, 65, 72, 79, 80, 96, 127, 128, 136, 192, 200, 256, 511)):
            for pat in (b"\xff" * n, b"\x80" * n, b"\x01" * n, (b"\xfe" * 64 + b"\xff" * n)[:max(n, 72)]):
                ops.append(CS.crypt_op("rn", 0, pat, vs[0])); meta.append((m, "edge-phrase", len(pat), len(vs[0])))
    # salt lengths: the hash underneath changes its code path with the length of what it absorbs (PBKDF2-HMAC-SHA256 has a one-block fast path
    # whose entry depends on the salt length modulo 64, the MD-style methods pad differently around 55/56/64): every salt length of the yescrypt
    # family up to two blocks, and the boundary lengths of the other variable-salt methods (seeded/C02c, C03c)
    def salted(m, body):
        return {"sha1crypt": b"$sha1$24$" + body + b"$", "sunmd5": b"$md5,rounds=5$" + body + b"$", "scrypt": b"$7$66..../...." + body,
                "yescrypt": b"$y$j75$" + S.enc64(body), "gost_yescrypt": b"$gy$j75$" + S.enc64(body)}[m]
    SL = {"sha1crypt": [1, 8, 40, 47, 48, 55, 56, 63, 64], "sunmd5": [1, 8, 30, 39, 40, 41, 47, 48, 55, 56, 64, 100],
          "scrypt": list(range(1, 135)) if not quick else list(range(28, 70)) + [1, 8, 100, 115, 116, 117, 127, 128, 129],
          "yescrypt": list(range(0, 65)) if not quick else [0, 1, 16, 30, 31, 32, 33, 47, 48, 50, 51, 52, 53, 54, 55, 56, 57, 60, 63, 64],
          "gost_yescrypt": list(range(0, 65)) if not quick else [1, 16, 31, 32, 51, 52, 53, 55, 56, 64]}
    for m, ls in SL.items():
        for L in ls:
            raw = m in ("yescrypt", "gost_yescrypt")
            body = bytes(R.rng.randrange(256) for _ in range(L)) if raw else S.rs(R.rng, S.A64, L)
            ph = bytes(R.rng.randrange(1, 256) for _ in range(R.rng.choice([1, 8, 20, 64, 65])))
            ops.append(CS.crypt_op("rn", 0, ph, salted(m, body))); meta.append((m, "salt-length", len(ph), L))
    # the costs people actually use: crypt_gensalt's default `$y$j9T$` / `$gy$j9T$` (N = 4096, r = 32: exactly at the threshold of yescrypt's pre-hash
    # pass, N/p*r == 0x20000) and its neighbours on both sides and at the same product (seeded/C02d); few phrases, they cost 16-32 MiB each
    for st in [b"$y$j9T$saltsalt", b"$gy$j9T$saltsalt", b"$y$jB5$abcd", b"$y$j8T$abcd", b"$y$jAT$abcd", b"$y$j9T$" + S.enc64(bytes(range(16)))]:
        for ph in ([b"pw", bytes(R.rng.randrange(1, 256) for _ in range(33))] if quick else [b"pw", b"", bytes(range(1, 65)), bytes(R.rng.randrange(1, 256) for _ in range(200))]):
            ops.append(CS.crypt_op("rn", 0, ph, st)); meta.append(("gost_yescrypt" if st.startswith(b"$gy$") else "yescrypt", "default-cost", len(ph), len(st)))
    starts = list(range(len(ops)))
    # the published function whatever the data object held: first call on an object the application filled (crypt.h asks only for
    # `initialized = 0`), every method, a phrase longer than the DES key and one of 257 bytes (seeded/C02f: a wrong bsdicrypt hash there)
    ph257 = bytes(0x21 + (i * 7) % 94 for i in range(257))
    for m, vs in canon_variants.items():
        for ph in (b"a phrase longer than eight bytes", ph257):
            for fill in "fr":
                starts.append(len(ops))
                ops.append("O 0 %s %d %d" % (fill, R.rng.randrange(16), R.rng.randrange(1 << 30))); meta.append(("setup", "obj", 0, 0))
                ops.append(CS.crypt_op("r" if fill == "f" else "rn", 0, ph, vs[0])); meta.append((m, "first-call-on-filled-object", len(ph), len(vs[0])))
    ops, meta, il, ml = CS.run_budgeted(R, ops, meta, group_starts=starts)
    diffs = compare(R, ops, il, ml, lambda op, a, b: CS.proj_crypt(op, a, b) if op.startswith("C ") else None, "full hashes")
    hamlet = bytes(R.genvals["B"]["hamlet_quotation"]) if hasattr(R, "genvals") else None
    bad = []
    n_spec = 0
    for op, m, line in zip(ops, meta, il):
        if not op.startswith("C "): continue
        f = fields(line); t = op.split(" ")
        if f.get("ret") == "NULL":
            bad.append((op, "a valid %s setting was rejected (%s)" % (m[0], f.get("errno")), line)); continue
        ph, st = unhx(t[3]) or b"", unhx(t[4])
        want = expected(m[0], ph, st, hamlet)
        if want is not None:
            n_spec += 1
            if unhx(f["out"]) != want:
                bad.append((op, "%s hash %r differs from the value an independent implementation of the published algorithm computes, %r" % (m[0], unhx(f["out"]), want), line))
    # cross-release: the released libxcrypt computes the same strings
    if os.path.exists(RELEASED_SO):
        exe, so = R.so_harness()
        r = subprocess.run([exe], input="\n".join(ops) + "\n", text=True, capture_output=True,
                           env=dict(os.environ, XC_SO_PATH=RELEASED_SO, LD_LIBRARY_PATH=os.path.dirname(RELEASED_SO)), timeout=3000)
        old = r.stdout.splitlines()
        for op, a, b in zip(ops, il, old):
            if op.startswith("C ") and fields(a).get("out") != fields(b).get("out"):
                bad.append((op, "result differs from the released libxcrypt 4.4.33: %s vs %s" % (fields(a).get("out"), fields(b).get("out")), a))
        R.cov["compared_with_released"] = len(old)
    # openssl passwd for the three methods it implements
    n_ossl = 0
    for op, m, line in list(zip(ops, meta, il))[::7]:
        if not op.startswith("C "): continue
        if m[0] not in ("md5crypt", "sha256crypt", "sha512crypt"): continue
        t = op.split(" "); ph, st = unhx(t[3]) or b"", unhx(t[4])
        # `openssl passwd -stdin` reads one line into a bounded buffer: only phrases of at most 200 bytes without line-control bytes are comparable
        if b"rounds=" in st or not ph or b"\n" in ph or b"\r" in ph or len(ph) > 200 or len(st) < 4: continue
        salt = st[3:].split(b"$")[0]
        if not salt or not all(c in S.A64 for c in salt): continue
        flag = {"md5crypt": "-1", "sha256crypt": "-5", "sha512crypt": "-6"}[m[0]]
        rr = subprocess.run(["openssl", "passwd", flag, "-salt", salt.decode(), "-stdin"], input=ph + b"\n", capture_output=True)
        if rr.returncode == 0:
            n_ossl += 1
            if rr.stdout.strip() != unhx(fields(line)["out"]):
                bad.append((op, "OpenSSL computes %r" % rr.stdout.strip(), line))
    R.cov["evaluations"] = len(ops)
    R.cov["distinct_nontrivial"] = len(set(ops))
    R.cov["checked_against_independent_spec"] = n_spec
    R.cov["checked_against_openssl"] = n_ossl
    R.cov["rule"] = ("valid settings of all 16 methods (several salt lengths / parameter spellings each, compute-budgeted costs) x phrase lengths 0..511 (every length in thorough) "
                     "with 8-bit bytes; each hash is compared with the Lean model (full string), with independent Python implementations written from the public specifications "
                     "(md5crypt, sha256/512crypt, sunmd5, sha1crypt, NT, descrypt, bigcrypt, bsdicrypt via a bit-level DES, scrypt via hashlib), with openssl passwd, and with "
                     "the released libxcrypt 4.4.33 (all methods incl. bcrypt, yescrypt, gost-yescrypt)")
    CS.dist_cov(R, meta, il); CS.sample_cov(R, ops, il, ml)
    finish_proof(R, ok, badthm, bad, diffs, "published algorithms")

def replay(R, j):
    op = (j.get("failing_input") or {}).get("op")
    if not op: print("no concrete op; unproved:", j.get("unproved")); return 2
    print(op); print(R.run_impl([op])[0]); return 0

"""C09 — working memory and passphrase copies are erased before returning."""
from checks.common import *
from checks import cryptstream as CS, settings as S
from checks.cryptstream import finish_proof
from checks.c14 import WRAPS

def run(R):
    ok, badthm = R.prove()
    quick = R.tier == "quick"
    # 1. object clause: histories over pre-filled objects, successful and every kind of failing call
    ops, meta, starts = [], [], []
    pool = []
    for m in S.METHODS:
        pool.append((m, S.CANON[m]))
        for _ in range(2 if quick else 10): pool.append((m, S.gen_setting(R.rng, m)[0]))
    bads = [b"*0", b"$zz$x", b"$1$a:b", b"", b"a", b"$6$rounds=1$x", b"$2b$03$abcdefghijklmnopqrstuu", b"_J9..sal", b"$sha1$x$salt", b"$md5,rounds=0$x", b"$y$j$x", b"$7$$$"]
    for h in range(60 if quick else 1500):
        starts.append(len(ops))
        for i in range(3):
            ops.append("O %d %s %d %d" % (i, R.rng.choice("frpz"), R.rng.randrange(16), R.rng.randrange(1 << 30))); meta.append(("setup", "obj", 0, 0))
        for k in range(R.rng.randrange(3, 25)):
            r = R.rng.random()
            n = R.rng.choice([6, 7, 8, 9, 15, 16, 17, 24, 55, 56, 64, 65, 100, 200, 511])
            ph = bytes(R.rng.randrange(1, 256) for _ in range(n))
            if r < 0.6: m, st = R.rng.choice(pool)
            elif r < 0.85: m, st = "bad", R.rng.choice(bads)
            elif r < 0.9: m, st, ph = "long", S.CANON["md5crypt"], b"x" * R.rng.choice([512, 513, 1000])
            else: m, st, ph = "null", R.rng.choice([None, S.CANON["md5crypt"]]), None
            if r < 0.97: ops.append(CS.crypt_op(R.rng.choice(["r", "rn"]), R.rng.randrange(3), ph, st))
            else: ops.append(CS.crypt_op("rn", R.rng.randrange(3), ph, st, R.rng.choice([0, 100, 32767])))
            meta.append((m, "call", len(ph or b""), len(st or b"")))
    ops, meta, il, ml = CS.run_budgeted(R, ops, meta, group_starts=starts)
    def proj(op, a, b):
        if op.startswith("C "): return CS.proj_crypt(op, a, b)
        return None
    diffs = compare(R, ops, il, ml, proj, "object wipe")
    bad = []
    # independent notion of "got past validation": both strings present, phrase < 512, no bad character, method recognised (crypt_checksalt)
    cs = sorted({o.split(" ")[4] for o in ops if o.startswith("C ") and o.split(" ")[4] not in ("-", ".")})
    status = dict(zip(cs, [fields(l).get("status") for l in R.run_impl(["K " + s for s in cs])]))
    for op, line in zip(ops, il):
        if not op.startswith("C "): continue
        t = op.split(" "); f = fields(line)
        ph, st = unhx(t[3]), unhx(t[4]); size = int(t[5]) if len(t) > 5 else 32768
        validated = ph is not None and st is not None and len(ph) < 512 and st != b"" and status.get(t[4]) in ("0", "3") and size >= 32768
        if validated and f.get("wz") != "1":
            bad.append((op, "internal/reserved/initialized are not all zero after a call that got past argument validation", line))
        if not validated and st != b"" and f.get("wu") != "1":
            bad.append((op, "the scratch areas were modified by a call that failed argument validation", line))
        if f.get("ph", "0") != "0":
            bad.append((op, "a copy of the passphrase (encoding mask %s) remains in the data object" % f.get("ph"), line))
    # 1b. stack clause: the library rebuilt at -O0 (no compiler-introduced spill copies, as the property says); the stack region below the
    #     caller is poisoned before and searched after every call for any 8-byte window of the passphrase in 7 encodings (harness/ops_crypt.h)
    sops = []
    slens = [8, 9, 15, 16, 17, 24, 31, 32, 33, 40, 48, 55, 56, 63, 64, 65, 72, 73, 100, 127, 128, 129, 200, 511] if quick else list(range(8, 512))
    cheap = {"yescrypt", "gost_yescrypt", "scrypt", "sunmd5", "sha512crypt", "sha256crypt"}
    for m in S.METHODS:
        for n in slens:
            if quick and m in cheap and n not in (8, 16, 33, 40, 56, 64, 65, 128, 511): continue
            if not quick and m in cheap and n % 8 not in (0, 1): continue
            ph = bytes(R.rng.randrange(1, 256) for _ in range(n))
            sops.append(CS.crypt_op(R.rng.choice(["rn", "r", "st"]), 0, ph, S.CANON[m]))
            if n in (16, 64): sops.append(CS.crypt_op("rn", 0, ph, S.CANON[m] + b"$" + S.rs(R.rng, S.A64, CS.DIGLEN.get(m, 11))))
    for st in bads:
        sops.append(CS.crypt_op("rn", 0, bytes(R.rng.randrange(1, 256) for _ in range(40)), st))
    # salt-length classes of the yescrypt family: PBKDF2-HMAC-SHA256 takes its c == 1 fast path or its generic path depending on the
    # salt length modulo 64 (fast iff (saltlen & 63) <= 51), and each path has its own stack temporaries to wipe (seeded/C09b)
    for sl in ([0, 1, 8, 16, 43, 50, 51, 52, 53, 57, 60, 63, 64, 65, 70, 115, 116, 120] if quick else list(range(0, 140))):
        for plen in ([40] if quick else [8, 33, 40, 64, 65, 100]):
            ph = bytes(R.rng.randrange(1, 256) for _ in range(plen))
            sops.append(CS.crypt_op("rn", 0, ph, b"$7$66..../...." + S.rs(R.rng, S.A64, sl)))
            if sl <= 86 and sl % 4 != 1:
                sops.append(CS.crypt_op("rn", 0, ph, b"$y$j75$" + S.enc64(bytes(R.rng.randrange(256) for _ in range(sl * 3 // 4)))))
    sgroups = [sops[i:i + 8] for i in range(0, len(sops), 8)]
    _, sil, sml = R.run_pair_sharded(sgroups, variant="O0", env={"XC_STACKSCAN": "1"})
    diffs += compare(R, sops, sil, sml, proj, "-O0 build")
    ENC = {1: "raw", 2: "UCS-2", 4: "shifted DES key", 8: "HMAC inner pad", 16: "HMAC outer pad", 32: "byte-swapped 32-bit words", 64: "byte-swapped 64-bit words",
           128: "the hashed HMAC key H(phrase)"}
    for op, line in zip(sops, sil):
        f = fields(line)
        if "stk" not in f and fields(line).get("ret") is not None and unhx(op.split(" ")[3]) is not None:
            bad.append((op, "the stack scan did not run (harness error)", line))
        if f.get("stk", "0") != "0":
            mask = int(f["stk"])
            bad.append((op, "part of the passphrase (%s) remains in the stack region the call used, %s bytes below the caller's frame, in a -O0 build"
                        % (", ".join(v for k, v in ENC.items() if mask & k), f.get("stkdepth")), line))
    # the same for the HMAC primitives called directly (-O0 build): what a later statement of the calling method happens to overwrite is still a
    # missed wipe of the primitive (seeded/C09h: SHA1(key) - the key HMAC uses for keys longer than its block - left behind, covered up in
    # crypt_sha1crypt_rn by a later snprintf at -O0)
    hops = []
    for alg in ("sha1", "sha256"):
        for kl in ([8, 20, 63, 64, 65, 100, 200, 511] if quick else list(range(8, 140)) + [200, 511]):
            for tl in (0, 13, 64, 100):
                hops.append("HM %s %s %s" % (alg, hx(bytes(R.rng.randrange(1, 256) for _ in range(kl))), hx(bytes(R.rng.randrange(256) for _ in range(tl))) if tl else "."))
    hl = R.run_impl(hops, variant="O0", env={"XC_STACKSCAN": "1"})
    for op, line in zip(hops, hl):
        f = fields(line)
        if "stk" not in f: bad.append((op, "the stack scan did not run (harness error)", line))
        elif f["stk"] != "0":
            mask = int(f["stk"])
            bad.append((op, "the HMAC key (%s) remains in the stack region the primitive used, in a -O0 build" % ", ".join(v for k, v in ENC.items() if mask & k), line))
    R.cov["hmac_stack_ops"] = len(hops)
    # 1c. the entropy crypt_gensalt* draws itself (rbytes == NULL; the OS source is interposed with a known byte string): successful calls and
    #     every kind of failing call of every method, three entry points; no 8-byte window of the drawn bytes may remain on the stack (-O0 build)
    from checks import gensaltstream as GS
    gsops = []
    osb = bytes(R.rng.randrange(1, 256) for _ in range(64))
    for m, pfx in GS.TAGS.items():
        for count in [0, 1, 3, 4, 5, 6, 7, 11, 12, 31, 32, 1000, 999999999, 2**32, 2**64 - 1]:
            for entry, sz in [("rn", 192), ("rn", R.rng.choice([3, 5, 10, 20, 30, 40, 60, 100])), ("ra", 192), ("st", 192)]:
                gsops.append("G %s %s %d - %d %d" % (entry, hx(pfx), count, R.rng.choice([0, 0, 16, 64, -1]), sz))
    for junk in [b"$zz$", b"*0", b"", b"$2x$"]:
        gsops.append("G rn %s 0 - 0 192" % hx(junk))
    gsl = R.run_impl(["OS " + hx(osb)] + gsops, variant="O0", env={"XC_STACKSCAN": "1"})[1:]
    nfail = 0
    for op, line in zip(gsops, gsl):
        f = fields(line)
        if f.get("ret") == "NULL": nfail += 1
        if "stk" not in f and f.get("ret") is not None:
            bad.append((op, "the gensalt stack scan did not run (harness error)", line))
        if f.get("stk", "0") != "0":
            bad.append((op, "the random bytes crypt_gensalt drew from the OS (OS %s) remain in the stack region the call used (%s call), in a -O0 build"
                        % (hx(osb), "failing" if f.get("ret") == "NULL" else "successful"), line))
    R.cov["stack_clause"] = {"calls": len(sops), "build": "-O0", "window": 8, "encodings": list(ENC.values()),
                             "gensalt_entropy_calls": len(gsops), "gensalt_entropy_failing_calls": nfail}
    # 2. contexts erased by the final call; HMAC buffer; crypt_ra erases before growing; gensalt's entropy: 1c above
    hops = []
    for alg in ["md4", "md5", "sha1", "sha256", "sha512", "gost256", "gost512"]:
        for n in [0, 1, 55, 56, 63, 64, 65, 111, 112, 127, 128, 129, 300]:
            hops.append("H %s 0 %s" % (alg, hx(bytes(R.rng.randrange(256) for _ in range(n)))))
    hops += ["HM gost256 %s %s" % (hx(bytes(R.rng.randrange(256) for _ in range(32))), hx(b"message"))]
    hl = R.run_impl(hops)
    for op, line in zip(hops, hl):
        f = fields(line)
        if op.startswith("H ") and f.get("ctxzero") != "1": bad.append((op, "digest context not erased when finalised", line))
        if f.get("d") == "NOTWIPED": bad.append((op, "HMAC buffer not erased", line))
    rops = []
    for k in [1, 10, 100, 4096, 32767]:
        rops += ["RASET 0 small %d" % k, "RA 0 %s %s" % (hx(b"secret passphrase"), hx(S.CANON["md5crypt"])), "RAFREE 0"]
    rl = R.run_impl(rops, wraps=WRAPS)
    for op, line in zip(rops, rl):
        if op.startswith("RA ") and fields(line).get("oldzero") != "1":
            bad.append((op, "crypt_ra did not erase the undersized buffer before reallocating it", line))
    n = sum(1 for o in ops if o.startswith("C "))
    R.cov["evaluations"] = n + len(hops) + len(rops) + len(sops)
    R.cov["distinct_nontrivial"] = len({o for o in ops if o.startswith("C ")})
    R.cov["rule"] = ("histories over three objects pre-filled with 0xff / pattern / random / zero at all alignments: successful calls of all 16 methods and every kind of failing "
                     "call (bad characters, unknown/malformed settings, long or NULL phrase, small size), phrases 6..511 bytes; after every call the object is scanned: "
                     "scratch all-zero iff validated, unchanged otherwise, and no passphrase copy in 6 encodings; stack clause: all 16 methods x phrase lengths %s in a -O0 build, "
                     "poisoned stack region searched for every 8-byte window of the phrase in 7 encodings; digest contexts after final; crypt_ra grow path" % ("8..511" if not quick else str(slens)))
    CS.dist_cov(R, [m for o, m in zip(ops, meta) if o.startswith("C ")], [l for o, l in zip(ops, il) if o.startswith("C ")])
    CS.sample_cov(R, ops, il, ml)
    finish_proof(R, ok, badthm, bad, diffs, "object wipe")

def replay(R, j):
    op = (j.get("failing_input") or {}).get("op")
    if not op: print("no concrete op; unproved:", j.get("unproved")); return 2
    print(op); print(R.run_impl(["O 0 f 0", op.replace(" " + op.split(" ")[2] + " ", " 0 ", 1)])[-1]); return 0

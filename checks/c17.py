"""C17 — DES core and the obsolete setkey/encrypt API implement standard DES."""
from checks.common import *
from checks import pydes, settings as S, cryptstream as CS
from checks.cryptstream import finish_proof

def w1(n=8): return [bytes([(1 << (7 - b)) if i == k else 0 for i in range(n)]) for k in range(n) for b in range(8)]
def inv(b): return bytes(x ^ 0xff for x in b)

# encrypt's edflag: 0 encrypts, EVERY non-zero value decrypts (crypt-obsolete.h, glibc) - not just 1 (seeded/C17e)
EDFLAGS = [0, 0, 0, 1, 1, 2, 255, 256, 65536, 2**30]

def run(R):
    ok, badthm = R.prove()
    quick = R.tier == "quick"
    rb = lambda n: bytes(R.rng.randrange(256) for _ in range(n))
    # ---- part 1: the internal block function (static objects): des_set_key / des_set_salt / des_crypt_block
    ops1, want1 = [], []
    keys = w1() + [inv(k) for k in w1()] + [rb(8) for _ in range(40 if quick else 2000)] + [bytes(8), b"\xff" * 8]
    blocks = w1() + [inv(k) for k in w1()] + [rb(8) for _ in range(40 if quick else 2000)]
    for k in keys:
        b = R.rng.choice(blocks)
        for dec in (0, 1):
            ops1.append("DB %s 0 1 %s %d" % (hx(k), hx(b), dec)); want1.append(pydes.crypt_block(k, b, 0, 1, bool(dec)).hex())
    for b in blocks:
        k = R.rng.choice(keys)
        ops1.append("DB %s 0 1 %s 0" % (hx(k), hx(b))); want1.append(pydes.crypt_block(k, b).hex())
    # every table slot: each byte value at each byte position of the block (both directions: IP reads the input, FP the result of the rounds) and of
    # the key, the other bytes random - the tables are indexed by bytes / 7-bit groups, a single wrong word shows for one value at one position only
    # (seeded/C17f: one of the 8448 table words; the table theorems name the table, this batch gives the failing block)
    for pos in range(8):
        for v in range(256):
            k = rb(8); b = bytearray(rb(8)); b[pos] = v; b = bytes(b)
            dec = (v + pos) & 1
            ops1.append("DB %s 0 1 %s %d" % (hx(k), hx(b), dec)); want1.append(pydes.crypt_block(k, b, 0, 1, bool(dec)).hex())
            if v % 2 == 0 or not quick:
                kk = bytearray(rb(8)); kk[pos] = v; kk = bytes(kk); bb = rb(8)
                ops1.append("DB %s 0 1 %s 0" % (hx(kk), hx(bb))); want1.append(pydes.crypt_block(kk, bb).hex())
    salts = [0, 1, 2, 1 << 11, 1 << 12, 1 << 23, 0xffffff, 0xfff, 0xaaaaaa, 0x555555] + [1 << i for i in range(24)] + [R.rng.randrange(1 << 24) for _ in range(20 if quick else 500)]
    for s in salts:
        k, b = rb(8), rb(8); c = R.rng.choice([0, 1, 2, 3, 25, 7])
        ops1.append("DB %s %d %d %s 0" % (hx(k), s, c, hx(b))); want1.append(pydes.crypt_block(k, b, s, c).hex())
    il1, ml1, _ = R.run_pair(ops1)
    def proj(op, a, b): return None if a == b else "differs"
    diffs = compare(R, ops1, il1, ml1, proj, "des block function")
    bad = []
    for op, w, line in zip(ops1, want1, il1):
        if fields(line).get("d") != w: bad.append((op, "block function result %s is not FIPS 46-3 DES (with crypt(3) salt/count): %s" % (fields(line).get("d"), w), line))
    # ---- part 2: setkey/encrypt (static) and setkey_r/encrypt_r through the shared library, interleaved with crypt calls
    ops2 = []
    key_static, key_obj = None, {}
    model_note = []
    keyed = {}       # object -> a key schedule is in place (encrypt_r on arbitrary bytes is outside the contract: it indexes tables)
    for _ in range(200 if quick else 6000):
        r = R.rng.random()
        if r < 0.08:
            # the caller's object may hold anything before setkey_r: only `initialized` has to be cleared (seeded/C17)
            o = R.rng.randrange(3); keyed[o] = False
            ops2.append("O %d %s %d %d" % (o, R.rng.choice("frpz"), R.rng.randrange(16), R.rng.randrange(1 << 30)))
        elif r < 0.2:
            k = R.rng.choice(keys); ops2.append("SK %s %d%s" % (hx(k), R.rng.randrange(0, 50), R.rng.choice(["", "", " T"])))
        elif r < 0.4:
            o = R.rng.randrange(3); keyed[o] = True
            k = R.rng.choice(keys); ops2.append("SKR %d %s %d" % (o, hx(k), R.rng.randrange(0, 50)))
        elif r < 0.6:
            # "T": the call runs on a fresh thread - the static key is process-wide, whichever thread set it
            ops2.append("EN %s %d %d%s" % (hx(R.rng.choice(blocks)), R.rng.choice(EDFLAGS), R.rng.randrange(0, 50), R.rng.choice(["", "", " T"])))
        elif r < 0.8:
            o = R.rng.randrange(3)
            if keyed.get(o) is False:
                keyed[o] = True; ops2.append("SKR %d %s %d" % (o, hx(R.rng.choice(keys)), R.rng.randrange(0, 50)))
            ops2.append("ENR %d %s %d %d" % (o, hx(R.rng.choice(blocks)), R.rng.choice(EDFLAGS), R.rng.randrange(0, 50)))
        elif r < 0.9:
            m = R.rng.choice(["descrypt", "md5crypt", "bsdicrypt", "nt"])
            ops2.append(CS.crypt_op(R.rng.choice(["r", "st"]), R.rng.randrange(3), rb(R.rng.randrange(0, 12)).replace(b"\0", b"x"), S.CANON[m]))
        else:
            ops2.append(CS.crypt_op("r", R.rng.randrange(3), b"pw", b"$1$bad:salt"))
    il2 = R.run_so(ops2)
    ml2 = R.run_model([o[:-2] if o.endswith(" T") else o for o in ops2])      # the model has one static key, whichever thread
    def proj2(op, a, b):
        if op.startswith("C "): return CS.proj_crypt(op, a, b)
        return None if a == b else "differs"
    diffs += compare(R, ops2, il2, ml2, proj2, "setkey/encrypt history")
    # oracle for part 2: python DES with explicit bookkeeping of which key is in force
    stat = None; objk = {}
    for op, line in zip(ops2, il2):
        t = op.split(" "); f = fields(line)
        if t[0] == "SK": stat = unhx(t[1])
        elif t[0] == "SKR": objk[t[1]] = unhx(t[2])
        elif t[0] == "O": objk[t[1]] = None
        elif t[0] == "C" and t[1] == "r":
            # a crypt_r call that gets past validation wipes the object's internal area, including the key schedule
            if fields(line).get("wu") == "0" or fields(line).get("wz") == "1": objk[t[2]] = "wiped"
        elif t[0] in ("EN", "ENR"):
            if f.get("bits01") != "1": bad.append((op, "encrypt produced bytes other than 0/1", line))
            k = stat if t[0] == "EN" else objk.get(t[1])
            blk, ed = (unhx(t[1]), int(t[2])) if t[0] == "EN" else (unhx(t[2]), int(t[3]))
            if k is None or k == "wiped": continue   # no key set / schedule erased: behaviour not specified by C17
            w = pydes.crypt_block(k, blk, 0, 1, bool(ed)).hex()
            if f.get("d") != w:
                bad.append((op, "%s with key %s gives %s, FIPS 46-3 DES gives %s" % (t[0], k.hex(), f.get("d"), w), line))
    R.cov["evaluations"] = len(ops1) + len(ops2)
    R.cov["distinct_nontrivial"] = len(set(ops1)) + len(set(ops2))
    R.cov["rule"] = ("block function: all weight-1 and weight-63 keys and blocks, random keys/blocks, every single salt bit, random 24-bit salts, counts {0,1,2,3,7,25}, "
                     "encrypt and decrypt, against a bit-level FIPS 46-3 implementation; obsolete API through the freshly linked libcrypt.so.1 (symbols bound at "
                     "GLIBC_2.2.5): random histories of setkey/encrypt/setkey_r/encrypt_r with noise in the upper 7 bits of every input byte, interleaved with "
                     "crypt_r/crypt on the same objects")
    R.cov["samples"] = [{"op": ops1[i], "impl": il1[i], "model": ml1[i]} for i in R.rng.sample(range(len(ops1)), 2)] + \
                       [{"op": ops2[i][:200], "impl": il2[i][:200], "model": ml2[i][:200]} for i in R.rng.sample(range(len(ops2)), 2)]
    finish_proof(R, ok, badthm, bad, diffs, "DES")

def replay(R, j):
    op = (j.get("failing_input") or {}).get("op")
    if not op: print("no concrete op; unproved:", j.get("unproved")); return 2
    print(op); print((R.run_impl([op]) if op.startswith("DB") else R.run_so([op]))[0]); return 0

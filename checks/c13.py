"""C13 — crypt_gensalt_rn honours output_size and reports errors without aborting."""
from checks.common import *
import itertools

U64 = 2**64 - 1

def grid(R):
    quick = R.tier == "quick"
    prefixes = [(k, v) for k, v in PREFIXES.items()] + [("NULL", None), ("unknown", b"$zz$"), ("bigcrypt14", b"ab............")]
    counts = [0, 1000, 4, 999999999, U64] if quick else \
             [0, 1, 4, 5, 6, 11, 12, 31, 32, 999, 1000, 1001, 9999, 10000, 10001, 100000, 32768, 262144,
              999999999, 1000000000, 2**32 - 1, 2**32, U64 - 65536, U64]
    # (more than 64 bytes: the writers cap what they consume at different places - seeded/C13g needs 65..123)
    nrbs = [0, 3, 8, 16, 64, 65, 100] if quick else [0, 1, 2, 3, 4, 6, 8, 9, 15, 16, 17, 20, 32, 63, 64, 65, 80, 96, 100, 123, 124, 128, 200, 256]
    sizes = list(range(-2, 257))
    ops, meta = [], []
    for (name, pfx), c, n in itertools.product(prefixes, counts, nrbs):
        rb = bytes(R.rng.randrange(256) for _ in range(n))
        for sz in sizes:
            ops.append("G rn %s %d %s %d %d" % (hx(pfx), c, hx(rb) if n else ".", n, sz))
            meta.append((name, c, n, sz, hx(rb)))
    # random large sizes
    for _ in range(200 if quick else 5000):
        name, pfx = R.rng.choice(prefixes); c = R.rng.choice(counts); n = R.rng.choice(nrbs)
        rb = bytes(R.rng.randrange(256) for _ in range(n))
        sz = R.rng.choice([257, 300, 384, 1000, 4096, 65536, 2**20])
        ops.append("G rn %s %d %s %d %d" % (hx(pfx), c, hx(rb) if n else ".", n, sz))
        meta.append((name, c, n, sz, hx(rb)))
    return ops, meta

def token_for(sz):
    return "2a30" if sz >= 3 else "2a" if sz == 2 else "." if sz == 1 else "-"

def oracle(ops, meta, il):
    """The property itself, evaluated on the implementation's observations."""
    bad = []
    full = {}   # (name,c,n) -> result at 192
    res = {}
    for op, m, line in zip(ops, meta, il):
        if line.startswith("crashed") or "ret" not in fields(line): continue      # the process died: reported from R.crashes with the op that kills it
        f = fields(line); name, c, n, sz, rbh = m
        res[m] = f
        why = None
        if f.get("abort") != "0": why = "process would terminate (assert/abort)"
        elif f.get("guard") != "ok": why = "write outside [0, output_size)"
        elif f["ret"] == "ELSEWHERE": why = "returned pointer is not the output buffer"
        elif f["ret"] != "NULL":
            s = unhx(f["ret"])
            if sz <= 0 or len(s) >= sz: why = "result does not fit output_size"
            elif f["buf"] != f["ret"]: why = "buffer does not hold the returned string"
            elif not passwd_safe(s) or len(s) == 0: why = "result is not a passwd-safe non-empty string"
        else:
            if f["errno"] not in ("ERANGE", "EINVAL"): why = "errno %s on failure" % f["errno"]
            elif f["buf"] != token_for(sz): why = "failure token not left in buffer (buf=%s)" % f["buf"]
            elif int(f["hi"]) > max(sz, 0): why = "wrote for size <= 0"
        if why: bad.append((op, why, line))
    # relational clauses
    by = {}
    for m, f in res.items():
        by.setdefault((m[0], m[1], m[2], m[4]), {})[m[3]] = f
    for k, d in by.items():
        s192 = d.get(192)
        for sz in sorted(d):
            f = d[sz]
            if f["ret"] != "NULL" and f.get("abort") == "0":
                nxt = d.get(sz + 1)
                if nxt is not None and nxt["ret"] == "NULL":
                    bad.append(("%s size %d -> %d" % (k, sz, sz + 1), "success is not monotone in output_size", str(nxt)))
                if s192 is not None and s192["ret"] != "NULL":
                    a, b = unhx(f["ret"]), unhx(s192["ret"])
                    if sz <= 192 and not b.startswith(a):
                        bad.append(("%s size %d" % (k, sz), "result is not a leading part of the 192-byte result", f["ret"]))
                    if sz >= 192 and a != b:
                        bad.append(("%s size %d" % (k, sz), "result differs from the 192-byte result", f["ret"]))
        if s192 is not None and k[2] <= 64 and s192["ret"] == "NULL" and s192["errno"] == "ERANGE":
            bad.append(("%s size 192" % (k,), "CRYPT_GENSALT_OUTPUT_SIZE bytes do not suffice", str(s192)))
    return bad

def proj(op, a, b):
    for k in ("ret", "errno", "abort"):
        if a.get(k) != b.get(k): return "%s differs" % k
    if a.get("abort") == "0" and a.get("buf") != b.get("buf"): return "buffer contents differ"
    if a.get("abort") == "0" and int(a.get("hi", 0)) > int(b.get("ext", 0)): return "implementation wrote beyond the model's extent"
    return None

def run(R):
    ok, badthm = R.prove()
    ops, meta = grid(R)
    il, ml, opf = R.run_pair(ops)
    diffs = compare(R, ops, il, ml, proj, "gensalt_rn grid")
    bad = oracle(ops, meta, il)
    for c in getattr(R, "crashes", []):
        bad.insert(0, (c["op"], "the process died (rc=%s) instead of returning NULL with ERANGE/EINVAL: %s" % (c["rc"], c["stderr"][-200:].replace("\n", " / ")), c["stderr"][:1000]))
    R.cov["evaluations"] = len(ops)
    R.cov["exhaustive"] = True
    R.cov["rule"] = ("complete grid output_size -2..256 x prefixes (15 tags, NULL, unknown, 14-char DES) x count classes x nrbytes classes, "
                     "plus random large sizes; non-trivial = distinct (prefix,count,nrbytes,size) whose outcome class is not the generic size<3 rejection")
    R.cov["distinct_nontrivial"] = len({m for m in meta if m[3] >= 3})
    dist = {}
    for m, line in zip(meta, il):
        f = fields(line)
        if "ret" not in f: cls = "crashed"
        else: cls = "abort" if f.get("abort") != "0" else ("ok" if f["ret"] != "NULL" else f["errno"])
        dist[m[0] + ":" + cls] = dist.get(m[0] + ":" + cls, 0) + 1
    R.cov["distribution"] = dist
    R.cov["samples"] = [{"op": ops[i], "impl": il[i], "model": ml[i]} for i in R.rng.sample(range(len(ops)), 4)]
    for op, why, line in bad[:20]:
        t = op.split(" ") if op.startswith("G ") else None
        fi = {"op": op, "why": why, "observed": line}
        if t: fi.update(prefix=t[2], count=t[3], nrbytes=t[5], osize=t[6])
        R.add_violation(Violation("oracle", "crypt_gensalt_rn: %s at %s" % (why, op), failing_input=fi))
    if diffs and not bad:
        R.add_violation(Violation("correspondence", "model and implementation disagree on the C13 projection: " + diffs[0][1],
                                  detail={"first": diffs[:10]}, unproved=["correspondence gensalt_rn grid"]))
    if not ok and not bad:
        R.add_violation(Violation("proof", "theorems no longer check: " + ", ".join(badthm), detail={"log": getattr(R, "proof_log", "")},
                                  unproved=badthm))

def replay(R, j):
    fi = j.get("failing_input") or {}
    op = fi.get("op")
    if not op or not op.startswith("G "):
        print("replay: no concrete op in file; unproved:", j.get("unproved")); return 2
    il = R.run_impl([op])
    print(op); print(il[0])
    bad = oracle([op], [("x", 0, 0, int(op.split(" ")[6]), "")], il)
    for b in bad: print("FAILS:", b[1])
    return 1 if bad else 0

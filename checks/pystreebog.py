"""GOST R 34.11-2012 (Streebog) written from the standard's structure: g_N(h, m) = E(LPS(h xor N), m) xor h xor m, 12 rounds with
iteration constants C_1..C_12, the 512-bit counters N and Sigma kept as Python integers (so every addition modulo 2^512 is exact and
shares nothing with the C carry logic), padding 0..01 || M, final g_0 over N and Sigma.
The combined LPS tables Ax[8][256] and the constants C[12] are NOT retyped here: they are the values the generator's probe program
printed from the working tree (the same values the Lean model is built from); self_test() validates them with the RFC 6986 examples."""
M64 = (1 << 64) - 1
M512 = (1 << 512) - 1

class Streebog:
    def __init__(self, Ax, C):
        assert len(Ax) == 8 and all(len(t) == 256 for t in Ax) and len(C) == 12 and all(len(c) == 8 for c in C)
        self.Ax = Ax; self.C = [self._int(c) for c in C]

    @staticmethod
    def _int(words): return sum(w << (64 * i) for i, w in enumerate(words))

    def lps(self, v):
        """S, P, L applied to a 512-bit value (little-endian quadwords), through the combined table"""
        q = [(v >> (64 * i)) & M64 for i in range(8)]
        out = 0
        for i in range(8):
            w = 0
            for k in range(8): w ^= self.Ax[k][(q[k] >> (8 * i)) & 0xff]
            out |= w << (64 * i)
        return out

    def g(self, h, N, m):
        k = self.lps(h ^ N)
        s = m
        for i in range(12):
            s = self.lps(s ^ k)
            k = self.lps(k ^ self.C[i])
        return (s ^ k) ^ h ^ m

    def digest(self, msg, bits):
        h = int.from_bytes(b"\x01" * 64, "little") if bits == 256 else 0
        N = 0; S = 0
        while len(msg) >= 64:
            m = int.from_bytes(msg[:64], "little"); msg = msg[64:]
            h = self.g(h, N, m); N = (N + 512) & M512; S = (S + m) & M512
        m = int.from_bytes(msg + b"\x01" + b"\x00" * (63 - len(msg)), "little")
        h = self.g(h, N, m); N = (N + 8 * len(msg)) & M512; S = (S + m) & M512
        h = self.g(h, 0, N); h = self.g(h, 0, S)
        out = h.to_bytes(64, "little")
        return out[32:] if bits == 256 else out

    def hmac256(self, key, text):
        """HMAC_GOSTR3411_2012_256 (RFC 7836): HMAC with a 64-byte block; keys of 32..64 bytes are used as they are"""
        k = key + b"\x00" * (64 - len(key))
        inner = self.digest(bytes(x ^ 0x36 for x in k) + text, 256)
        return self.digest(bytes(x ^ 0x5c for x in k) + inner, 256)

    def self_test(self):
        m1 = b"012345678901234567890123456789012345678901234567890123456789012"
        m2 = bytes.fromhex("fbe2e5f0eee3c820fbeafaebef20fffbf0e1e0f0f520e0ed20e8ece0ebe5f0f2f120fff0eeec20f120faf2fee5e2202ce8f6f3ede220e8e6eee1e8f0f2d1202ce8f0f2e5e220e5d1")[::-1]
        ok = self.digest(m1, 256).hex() == "9d151eefd8590b89daa6ba6cb74af9275dd051026bb149a452fd84e5e57b5500"
        ok &= self.digest(m1, 512).hex() == "1b54d01a4af5b9d5cc3d86d68d285462b19abc2475222f35c085122be4ba1ffa00ad30f8767b3a82384c6574f024c311e2a481332b08ef7f41797891c1646f48"
        # RFC 6986 M2 (given there most significant byte first: digest bytes reversed as well)
        ok &= self.digest(m2, 256)[::-1].hex() == "508f7e553c06501d749a66fc28c6cac0b005746d97537fa85d9e40904efed29d"
        ok &= self.digest(m2, 512)[::-1].hex() == "28fbc9bada033b1460642bdcddb90c3fb3e56c497ccd0f62b8a2ad4935e85f037613966de4ee00531ae60f3b5a47f8dae06915d5f2f194996fcabf2622e6881e"
        ok &= self.hmac256(bytes(range(32)), bytes.fromhex("0126bdb87800af214341456563780100")).hex() == "a1aa5f7de402d7b3d323f2991c8d4534013137010a83754fd0af6d7cd4922ed9"
        return bool(ok)

def from_genvals(v):
    W = v["W"]
    try:
        Ax = [list(W["sha512_gost_Ax_%d" % i]) for i in range(8)]; C = [list(W["sha512_gost_C_%d" % i]) for i in range(12)]
    except KeyError:
        return None
    return Streebog(Ax, C)

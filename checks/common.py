"""Shared helpers for the per-property check modules."""
import re, os, sys
sys.path.insert(0, os.path.join(os.path.dirname(os.path.abspath(__file__)), ".."))
from verif import Violation, log

def hx(b):
    if b is None: return "-"
    if isinstance(b, str): b = b.encode("latin-1")
    return b.hex() if len(b) else "."

def unhx(s):
    if s in ("-", "NULL", "?"): return None
    if s == ".": return b""
    return bytes.fromhex(s)

def fields(line):
    d = {}
    for tok in line.split(" "):
        if "=" in tok:
            k, v = tok.split("=", 1); d[k] = v
    return d

PREFIXES = {
    "yescrypt": b"$y$", "gost_yescrypt": b"$gy$", "scrypt": b"$7$", "bcrypt": b"$2b$", "bcrypt_y": b"$2y$",
    "bcrypt_a": b"$2a$", "bcrypt_x": b"$2x$", "sha512crypt": b"$6$", "sha256crypt": b"$5$", "sha1crypt": b"$sha1",
    "sunmd5": b"$md5", "md5crypt": b"$1$", "nt": b"$3$", "bsdicrypt": b"_", "descrypt": b"",
}
BAD = set(range(0, 0x21)) | set(range(0x7f, 0x100)) | set(b"!*:;\\")

def passwd_safe(b):
    return all(c not in BAD for c in b)

def compare(R, ops, il, ml, proj, what, opfile=None, maxrep=5):
    """Generic projection diff. proj(op, impl_fields, model_fields) -> None | str(difference)."""
    diffs = []
    if len(il) != len(ops) or len(ml) != len(ops):
        diffs.append((None, "line count: ops=%d impl=%d model=%d (impl rc=%s stderr=%s)" %
                      (len(ops), len(il), len(ml), getattr(R, "last_impl_rc", "?"), getattr(R, "last_impl_stderr", "")[-400:])))
    for op, a, b in zip(ops, il, ml):
        d = proj(op, fields(a), fields(b))
        if d:
            diffs.append((op, "%s | impl: %s | model: %s" % (d, a[:300], b[:300])))
            if len(diffs) >= 50: break
    key = "correspondence"
    c = R.cov[key].setdefault(what, {"ops": 0, "disagreements": 0})
    c["ops"] += len(ops); c["disagreements"] += len(diffs)
    return diffs

"""C07 — hashing is a pure function of its inputs across entry points and call history."""
from checks.common import *
from checks import cryptstream as CS, settings as S
from checks.c14 import WRAPS

def build_ops(R):
    quick = R.tier == "quick"
    ops, meta = [], []
    nhist = 60 if quick else 1200
    # a pool of requests that recur at different points of different histories
    pool = []
    for m in S.METHODS:
        for _ in range(3):
            st, _, tag = S.gen_setting(R.rng, m)
            ph = S.gen_phrase(R.rng, 80)
            pool.append((m, tag, ph, st))
        pool.append((m, "canon", b"pw", S.CANON[m]))
    pool += [("generic", "null-phrase", None, b"$1$x"), ("generic", "long", b"y" * 600, b"$1$x"), ("generic", "badchar", b"pw", b"$6$a:b"),
             ("generic", "token", b"pw", b"*0"), ("generic", "unknown", b"pw", b"$zz$")]
    # fixed coverage first, whatever the seed: the FIRST call on an object the application filled (0xff / random / pattern), for every method and
    # phrases of 2, 32, 257 and 511 bytes, next to the same request on a zeroed object - do_crypt wipes the scratch area on return, so only a first call
    # sees foreign contents (seeded/C07b, C04c); the random histories below reach the same situation only by chance
    long_ph = b"a phrase longer than eight bytes"
    # phrase-length classes: the methods size their scratch use by the phrase (8 / 72 / 256 / 511 are the documented or internal boundaries:
    # DES key, bcrypt key, NT's UCS-2 buffer half, CRYPT_MAX_PASSPHRASE_SIZE - 1; seeded/C07d needs > 256)
    ph257 = bytes(0x21 + (i * 7) % 94 for i in range(257)); ph511 = bytes(0x21 + (i * 11) % 94 for i in range(511))
    for m in S.METHODS:
        for ph in (b"pw", long_ph, ph257, ph511):
            for fill in ("zfrp" if len(ph) < 100 else "zfr"):
                ops.append("O 0 %s %d %d" % (fill, R.rng.randrange(16), R.rng.randrange(1 << 30))); meta.append(("setup", "obj", 0, 0))
                ops.append(CS.crypt_op("r" if fill in "zf" else "rn", 0, ph, S.CANON[m])); meta.append((m, "first-call-on-filled-object", len(ph), len(S.CANON[m])))
    # ... and the same request after the object held a LONGER result of another method / a failure token / nothing: `output` survives between
    # calls (it is not part of the wiped scratch area) and a method that uses it as working space must not read what was there - canonical and
    # non-canonical spellings of the cost field, whose printed form is shorter than what was parsed (seeded/C07g)
    odd_spell = [b"$sha1$00100$saltsalt$", b"$sha1$0000024$saltsalt", b"$sha1$+24$saltsalt$", b"$sha1$24$saltsalt$", b"$md5,rounds=005$saltsalt$", b"$md5,rounds=5$saltsalt$",
                 b"$5$rounds=001000$saltsalt", b"$6$rounds=+1000$saltsalt", b"$2b$04$abcdefghijklmnopqrstuu", b"_J9..salt", b"$1$saltsalt", b"$3$", b"ab"]
    for st in odd_spell:
        for ph in (b"pw", long_ph):
            for pre in ("O 0 z 0 1", CS.crypt_op("r", 0, b"other", S.CANON["sha512crypt"]), CS.crypt_op("r", 0, b"other", S.CANON["yescrypt"]),
                        CS.crypt_op("rn", 0, b"other", b"$1$bad:salt"), CS.crypt_op("st", 0, b"other", S.CANON["sha256crypt"])):
                ops.append(pre); meta.append(("setup", "obj", 0, 0))
                e = "st" if pre.startswith("C st") else R.rng.choice(["r", "rn"])
                ops.append(CS.crypt_op(e, 0, ph, st)); meta.append((CS.method_of(st) or "generic", "after-longer-result", len(ph), len(st)))
    for h in range(nhist):
        n = R.rng.randrange(5, 61)
        nobj = R.rng.randrange(1, 4)
        for i in range(nobj):
            ops.append("O %d %s %d %d" % (i, R.rng.choice("zfrp"), R.rng.randrange(16), R.rng.randrange(1 << 30))); meta.append(("setup", "obj", 0, 0))
        # errno on entry: half of the histories never clear it (each call sees what the previous one left: seeded/C07), the others set it at random points
        keep = R.rng.random() < 0.5
        ops.append("ERRNO keep" if keep else "ERRNO 0"); meta.append(("setup", "errno", 0, 0))
        for slot in range(2): ops.append("RASET %d null" % slot); meta.append(("setup", "raset", 0, 0))
        for k in range(n):
            r = R.rng.random()
            if r >= 0.10 and r < 0.14 and not keep:
                ops.append("ERRNO " + R.rng.choice(["ERANGE", "EINVAL", "ENOMEM", "4", "0", "11"])); meta.append(("setup", "errno", 0, 0)); continue
            if r >= 0.14 and r < 0.18:
                # calls that fail with ERANGE / EINVAL and leave it in errno
                ops.append(R.rng.choice(["G rn %s 0 %s 16 3" % (hx(b"$6$"), hx(bytes(16))), "G rn %s 0 %s 16 192" % (hx(b"$zz$"), hx(bytes(16))),
                                         CS.crypt_op("rn", R.rng.randrange(nobj), b"pw", b"$1$x", 100), CS.crypt_op("r", R.rng.randrange(nobj), b"z" * 512, b"$1$x")]))
                meta.append(("setup", "failing-call", 0, 0)); continue
            if r >= 0.22 and r < 0.32:
                m, tag, ph, st = R.rng.choice(pool)
                # half of the crypt_ra calls pass phrase and setting from the handle's own `input` / `setting` members (" I"), the way crypt.h lets an
                # application keep them; the answer is the same function of the request (seeded/C07f: crypt_ra wiping the block before reading them)
                ops.append("RA %d %s %s%s" % (R.rng.randrange(2), hx(ph), hx(st), R.rng.choice(["", " I"]))); meta.append((m, tag, len(ph or b""), len(st or b""))); continue
            if r < 0.05:
                ops.append("O %d %s %d %d" % (R.rng.randrange(nobj), R.rng.choice("zfrp"), R.rng.randrange(16), R.rng.randrange(1 << 30)))
                meta.append(("setup", "refill", 0, 0)); continue
            if r < 0.10:
                pfx = R.rng.choice([b"$1$", b"$5$", b"ab", b"_", b"$3$", b"$md5"])
                ops.append("G st %s 0 %s 16 0" % (hx(pfx), hx(bytes(R.rng.randrange(256) for _ in range(16))))); meta.append(("setup", "gensalt", 0, 0)); continue
            m, tag, ph, st = R.rng.choice(pool)
            e = R.rng.choice(["rn", "r", "st", "rn", "r"])
            ops.append(CS.crypt_op(e, R.rng.randrange(nobj), ph, st)); meta.append((m, tag, len(ph or b""), len(st or b"")))
    return ops, meta

def build_so_ops(R):
    """histories through the freshly linked shared library, with the obsolete DES interface (static area and objects) in between"""
    quick = R.tier == "quick"
    ops = []
    cheap = ["descrypt", "bigcrypt", "bsdicrypt", "md5crypt", "nt", "sha256crypt", "sha512crypt", "bcrypt", "sha1crypt", "sunmd5"]
    pool = [(R.rng.choice([b"pw", b"", b"correct horse", bytes(R.rng.randrange(1, 256) for _ in range(R.rng.randrange(1, 40)))]), S.CANON[m]) for m in cheap for _ in range(2)]
    pool += [(b"pw", b"$1$bad:salt"), (b"pw", b"*0"), (b"q" * 512, b"ab")]
    for h in range(12 if quick else 400):
        dirty = {}
        for i in range(3):
            fill = R.rng.choice("zfrp"); dirty[i] = fill != "z"
            ops.append("O %d %s %d %d" % (i, fill, R.rng.randrange(16), R.rng.randrange(1 << 30)))
        ops.append(R.rng.choice(["ERRNO keep", "ERRNO 0", "ERRNO ERANGE"]))
        for k in range(R.rng.randrange(10, 50)):
            r = R.rng.random()
            key = bytes(R.rng.randrange(256) for _ in range(8)); blk = bytes(R.rng.randrange(256) for _ in range(8))
            if r < 0.12: ops.append("SK %s %d" % (hx(key), R.rng.randrange(50)))
            elif r < 0.24: ops.append("EN %s %d %d" % (hx(blk), R.rng.randrange(2), R.rng.randrange(50)))
            elif r < 0.32: o = R.rng.randrange(3); dirty[o] = False; ops.append("SKR %d %s %d" % (o, hx(key), R.rng.randrange(50)))
            elif r < 0.40:
                o = R.rng.randrange(3)
                # encrypt_r on an object whose key schedule is arbitrary bytes is outside the interface's contract (the schedule indexes tables)
                if dirty[o]: dirty[o] = False; ops.append("SKR %d %s %d" % (o, hx(key), R.rng.randrange(50)))
                ops.append("ENR %d %s %d %d" % (o, hx(blk), R.rng.randrange(2), R.rng.randrange(50)))
            elif r < 0.45: ops.append("G st %s 0 %s 16 0" % (hx(R.rng.choice([b"$1$", b"ab", b"_", b"$5$"])), hx(bytes(R.rng.randrange(256) for _ in range(16)))))
            else:
                ph, st = R.rng.choice(pool)
                ops.append(CS.crypt_op(R.rng.choice(["rn", "r", "st"]), R.rng.randrange(3), ph, st))
    return ops

def oracle(ops, meta, il):
    """the same request must give the same answer wherever it occurs, through whichever entry point"""
    bad = []
    seen = {}
    for op, line in zip(ops, il):
        if not op.startswith(("C ", "RA ")): continue
        t = op.split(" "); f = fields(line)
        if t[0] == "C" and len(t) > 5: continue      # an explicit (too small) size is part of the request
        out = f.get("out", "")
        failed = f.get("ret") == "NULL" or out.startswith("2a")
        ans = ("fail",) if failed else ("ok", out)
        key = (t[3], t[4]) if t[0] == "C" else (t[2], t[3])
        if key in seen and seen[key][0] != ans:
            bad.append((op, "same (phrase, setting) answered differently at another point of the history / through another entry point: %s vs %s (first at: %s)"
                        % (ans, seen[key][0], seen[key][1]), line))
        seen.setdefault(key, (ans, op))
        if f.get("app") == "0": bad.append((op, "application-owned fields (setting/input) were modified", line))
        if f.get("abort") != "0": bad.append((op, "call aborted", line))
    return bad

def run(R):
    ok, badthm = R.prove()
    ops, meta = build_ops(R)
    starts = [i for i, m in enumerate(meta) if m[1] == "obj" and (i == 0 or meta[i - 1][1] != "obj")]
    ops, meta, il, ml = CS.run_budgeted(R, ops, meta, group_starts=starts, wraps=WRAPS)
    def proj(op, a, b):
        if op.startswith("C "): return CS.proj_crypt(op, a, b)
        if op.startswith("RA "):
            ka = (a.get("ret"), a.get("out"), a.get("errno") if a.get("ret") == "NULL" else None, a.get("wz"))
            kb = (b.get("ret"), b.get("out"), b.get("errno") if b.get("ret") == "NULL" else None, b.get("wz"))
            return None if ka == kb else "crypt_ra result differs"
        if op.startswith("G "): return None if (a.get("ret"), a.get("errno")) == (b.get("ret"), b.get("errno")) else "gensalt differs"
        return None if a == b else "setup differs"
    diffs = compare(R, ops, il, ml, proj, "history")
    bad = oracle(ops, meta, il)
    # part 2: the same through libcrypt.so.1 with setkey/encrypt/setkey_r/encrypt_r interleaved
    ops2 = build_so_ops(R)
    il2 = R.run_so(ops2); ml2 = R.run_model(ops2)
    diffs += compare(R, ops2, il2, ml2, proj, "history through the shared library")
    bad += oracle(ops2, None, il2)
    R.cov["so_history_ops"] = len(ops2)
    cm = [(o, m, l) for o, m, l in zip(ops, meta, il) if o.startswith(("C ", "RA "))]
    R.cov["evaluations"] = len(cm)
    R.cov["distinct_nontrivial"] = len({tuple(o.split(" ")[2:4]) if o.startswith("RA ") else (o.split(" ")[3], o.split(" ")[4]) for o, _, _ in cm})
    R.cov["histories"] = sum(1 for o, m in zip(ops, meta) if m[1] == "obj")
    R.cov["rule"] = ("random histories of 5..60 calls over 1..3 shared objects (pre-filled zero / 0xff / pattern / random, all 16 alignments, refilled mid-history), "
                     "mixing crypt_r, crypt_rn, crypt_ra, static crypt, crypt_gensalt, setkey/encrypt and failing requests, with errno on entry either never cleared "
                     "between calls or set to arbitrary values, drawn from a pool of recurring (phrase, setting) "
                     "pairs for all 16 methods; non-trivial = distinct (phrase, setting) pairs")
    CS.dist_cov(R, [m for _, m, _ in cm], [l for _, _, l in cm])
    CS.sample_cov(R, ops, il, ml)
    CS.finish_proof(R, ok, badthm, bad, diffs, "history")

def replay(R, j):
    print("replay: re-run the check with VERIF_SEED=%s; failing input:" % j.get("seed"), j.get("failing_input")); return 2

"""C07 — hashing is a pure function of its inputs across entry points and call history."""
from checks.common import *
from checks import cryptstream as CS, settings as S

def build_ops(R):
    quick = R.tier == "quick"
    ops, meta = [], []
    nhist = 60 if quick else 1200
    # a pool of requests that recur at different points of different histories
    pool = []
    for m in S.METHODS:
        for _ in range(3):
            st, _, tag = S.gen_setting(R.rng, m)
            ph = S.gen_phrase(R.rng, 80)
            pool.append((m, tag, ph, st))
        pool.append((m, "canon", b"pw", S.CANON[m]))
    pool += [("generic", "null-phrase", None, b"$1$x"), ("generic", "long", b"y" * 600, b"$1$x"), ("generic", "badchar", b"pw", b"$6$a:b"),
             ("generic", "token", b"pw", b"*0"), ("generic", "unknown", b"pw", b"$zz$")]
    for h in range(nhist):
        n = R.rng.randrange(5, 61)
        nobj = R.rng.randrange(1, 4)
        for i in range(nobj):
            ops.append("O %d %s %d %d" % (i, R.rng.choice("zfrp"), R.rng.randrange(16), R.rng.randrange(1 << 30))); meta.append(("setup", "obj", 0, 0))
        for k in range(n):
            r = R.rng.random()
            if r < 0.05:
                ops.append("O %d %s %d %d" % (R.rng.randrange(nobj), R.rng.choice("zfrp"), R.rng.randrange(16), R.rng.randrange(1 << 30)))
                meta.append(("setup", "refill", 0, 0)); continue
            if r < 0.10:
                pfx = R.rng.choice([b"$1$", b"$5$", b"ab", b"_", b"$3$", b"$md5"])
                ops.append("G st %s 0 %s 16 0" % (hx(pfx), hx(bytes(R.rng.randrange(256) for _ in range(16))))); meta.append(("setup", "gensalt", 0, 0)); continue
            m, tag, ph, st = R.rng.choice(pool)
            e = R.rng.choice(["rn", "r", "st", "rn", "r"])
            ops.append(CS.crypt_op(e, R.rng.randrange(nobj), ph, st)); meta.append((m, tag, len(ph or b""), len(st or b"")))
    return ops, meta

def oracle(ops, meta, il):
    """the same request must give the same answer wherever it occurs, through whichever entry point"""
    bad = []
    seen = {}
    for op, line in zip(ops, il):
        if not op.startswith("C "): continue
        t = op.split(" "); f = fields(line)
        out = f.get("out", "")
        failed = f.get("ret") == "NULL" or out.startswith("2a")
        ans = ("fail",) if failed else ("ok", out)
        key = (t[3], t[4])
        if key in seen and seen[key][0] != ans:
            bad.append((op, "same (phrase, setting) answered differently at another point of the history / through another entry point: %s vs %s (first at: %s)"
                        % (ans, seen[key][0], seen[key][1]), line))
        seen.setdefault(key, (ans, op))
        if f.get("app") == "0": bad.append((op, "application-owned fields (setting/input) were modified", line))
        if f.get("abort") != "0": bad.append((op, "call aborted", line))
    return bad

def run(R):
    ok, badthm = R.prove()
    ops, meta = build_ops(R)
    starts = [i for i, m in enumerate(meta) if m[1] == "obj" and (i == 0 or meta[i - 1][1] != "obj")]
    ops, meta, il, ml = CS.run_budgeted(R, ops, meta, group_starts=starts)
    def proj(op, a, b):
        if op.startswith("C "): return CS.proj_crypt(op, a, b)
        if op.startswith("G "): return None if (a.get("ret"), a.get("errno")) == (b.get("ret"), b.get("errno")) else "gensalt differs"
        return None if a == b else "setup differs"
    diffs = compare(R, ops, il, ml, proj, "history")
    bad = oracle(ops, meta, il)
    cm = [(o, m, l) for o, m, l in zip(ops, meta, il) if o.startswith("C ")]
    R.cov["evaluations"] = len(cm)
    R.cov["distinct_nontrivial"] = len({(o.split(" ")[3], o.split(" ")[4]) for o, _, _ in cm})
    R.cov["histories"] = sum(1 for o, m in zip(ops, meta) if m[1] == "obj")
    R.cov["rule"] = ("random histories of 5..60 calls over 1..3 shared objects (pre-filled zero / 0xff / pattern / random, all 16 alignments, refilled mid-history), "
                     "mixing crypt_r, crypt_rn, static crypt, crypt_gensalt and failing requests, drawn from a pool of recurring (phrase, setting) "
                     "pairs for all 16 methods; non-trivial = distinct (phrase, setting) pairs")
    CS.dist_cov(R, [m for _, m, _ in cm], [l for _, _, l in cm])
    CS.sample_cov(R, ops, il, ml)
    CS.finish_proof(R, ok, badthm, bad, diffs, "history")

def replay(R, j):
    print("replay: re-run the check with VERIF_SEED=%s; failing input:" % j.get("seed"), j.get("failing_input")); return 2

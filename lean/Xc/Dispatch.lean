/-
  lib/crypt.c: prefix dispatch (`get_hashfn`), the character filter
  (`check_badsalt_chars`), the failure token (`make_failure_token`),
  `crypt_checksalt`, `crypt_preferred_method`.
  All functions take the dispatch table as a parameter so that C19 can
  instantiate them with the table of any configuration; `Gen.table` is the
  table of the tree's own configuration.
-/
import Xc.Base
import Xc.Gen.Consts
import Xc.Gen.Table

namespace Xc

def isDesSaltChar (c : UInt8) : Bool :=
  (97 ≤ c && c ≤ 122) || (65 ≤ c && c ≤ 90) || (48 ≤ c && c ≤ 57) || c == 46 || c == 47

/-- does row `h` of the table match `setting` (`get_hashfn` loop body) -/
def HashEntry.matches (h : HashEntry) (s : Bytes) : Bool :=
  if h.plen > 0 then
    -- strncmp (setting, h->prefix, h->plen) == 0
    if h.plen ≤ h.pfx.length then hasPrefix s (h.pfx.take h.plen) else s == h.pfx
  else
    s.isEmpty || (isDesSaltChar (cat s 0) && isDesSaltChar (cat s 1))

def getHashFn (tbl : List HashEntry) (s : Bytes) : Option HashEntry :=
  tbl.find? (·.matches s)

/-- `check_badsalt_chars` -/
def checkBadSaltChars (s : Bytes) : Bool := s.any isBadSaltChar

/-- What `make_failure_token (setting, output, size)` leaves in `output`:
    `none` = nothing written (size ≤ 0), otherwise the C string written. -/
def failureToken (setting : Option Bytes) (size : Int) : Option Bytes :=
  if size ≥ 3 then
    match setting with
    | some s => if cat s 0 == 42 && cat s 1 == 48 then some [42, 49] else some [42, 48]
    | none => some [42, 48]
  else if size = 2 then some [42]
  else if size = 1 then some []
  else none

/-- number of bytes `make_failure_token` writes (including the NUL) -/
def failureTokenExtent (size : Int) : Nat :=
  if size ≥ 3 then 3 else if size = 2 then 2 else if size = 1 then 1 else 0

inductive SaltStatus | ok | invalid | disabled | legacy | tooCheap
  deriving DecidableEq, Repr

def SaltStatus.code : SaltStatus → Nat
  | .ok => Gen.CRYPT_SALT_OK | .invalid => Gen.CRYPT_SALT_INVALID
  | .disabled => Gen.CRYPT_SALT_METHOD_DISABLED | .legacy => Gen.CRYPT_SALT_METHOD_LEGACY
  | .tooCheap => Gen.CRYPT_SALT_TOO_CHEAP

/-- `crypt_checksalt` -/
def checksalt (tbl : List HashEntry) (setting : Option Bytes) : SaltStatus :=
  match setting with
  | none => .invalid
  | some s =>
    if s.isEmpty || checkBadSaltChars s then .invalid
    else match getHashFn tbl s with
      | none => .invalid
      | some h => if h.strong then .ok else .legacy

/-- `crypt_preferred_method` -/
def preferredMethod (dflt : Option Bytes) : Option Bytes := dflt

end Xc

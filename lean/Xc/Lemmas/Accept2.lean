/-
  C10/C11/C12, end to end for the yescrypt family, sunmd5 and bigcrypt: what `crypt` does with a setting that the method's
  `gensalt` wrote — the parameters it applies are the documented function of `count`, the salt is the caller's random input,
  and the generated setting is kept as a literal prefix of the hash.
-/
import Xc.Lemmas.Gost
import Xc.Lemmas.Accept
import Xc.Lemmas.Sunmd5
namespace Xc
open List

/-- the room argument of `encode64_uint32` only decides between failure and one fixed text -/
theorem yesEnc32_indep {d d' v m : Nat} {e : Bytes} (h : yesEnc32 d v m = some e) :
    yesEnc32 d' v m = none ∨ yesEnc32 d' v m = some e := by
  unfold yesEnc32 at h ⊢
  split at h; · cases h
  rename_i hm
  rw [if_neg hm]
  split at h; · cases h
  rename_i a b c g hgo
  try dsimp only at h ⊢
  split at h; · cases h
  split
  · left; rfl
  · right; exact h

/-- `yescrypt_encode_params_r` as `gensalt_yescrypt_rn` calls it: tag, three numbers, `$`, then the salt in base 64 -/
theorem yesEncodeParams_shape {N r : Nat} {src : Bytes} {buflen : Nat} {s : Bytes} (h : yesEncodeParams N r src buflen = some s) :
    ∃ e1 e2 e3 d1 d2 d3, yesEnc32 d1 (Gen.YESCRYPT_RW + Gen.YESCRYPT_DEFAULTS / 4) 0 = some e1 ∧ yesEnc32 d2 (n2log2 N) 1 = some e2 ∧
      yesEnc32 d3 r 1 = some e3 ∧ s = [36, 121, 36] ++ e1 ++ e2 ++ e3 ++ [36] ++ encode64 src ∧ s.length < buflen := by
  unfold yesEncodeParams at h
  simp only [] at h
  have hfl : (if Gen.YESCRYPT_DEFAULTS < Gen.YESCRYPT_RW then some Gen.YESCRYPT_DEFAULTS
      else if Gen.YESCRYPT_DEFAULTS &&& Gen.YESCRYPT_MODE_MASK = Gen.YESCRYPT_RW ∧
              Gen.YESCRYPT_DEFAULTS ≤ Gen.YESCRYPT_RW ||| Gen.YESCRYPT_RW_FLAVOR_MASK then
          some (Gen.YESCRYPT_RW + Gen.YESCRYPT_DEFAULTS / 4) else none) = some (Gen.YESCRYPT_RW + Gen.YESCRYPT_DEFAULTS / 4) := by decide
  rw [hfl] at h
  dsimp only at h
  split at h; · cases h
  split at h; · cases h
  split at h; · cases h
  rename_i p5 hdo
  split at h; · cases h
  rename_i hlen
  simp only [Option.some.injEq] at h
  subst h
  simp only [Option.bind_eq_bind] at hdo
  obtain ⟨e1, h1, hdo⟩ := Option.bind_eq_some_iff.mp hdo
  obtain ⟨e2, h2, hdo⟩ := Option.bind_eq_some_iff.mp hdo
  obtain ⟨e3, h3, hdo⟩ := Option.bind_eq_some_iff.mp hdo
  split at hdo; · cases hdo
  obtain ⟨e4, h4, hdo⟩ := Option.bind_eq_some_iff.mp hdo
  simp only [Option.pure_def, Option.some.injEq] at hdo
  unfold yesEncode64 at h4
  simp only [] at h4
  split at h4; · cases h4
  simp only [Option.some.injEq] at h4
  subst h4
  exact ⟨e1, e2, e3, _, _, _, h1, h2, h3, hdo.symm, by omega⟩

/-- the parameter string `gensalt_yescrypt_rn` writes for cost `c` (1..11): `$y$j<N><r>$` -/
def yesPfx (c : Nat) : Bytes :=
  [36, 121, 36] ++ (yesEnc32 100 (Gen.YESCRYPT_RW + Gen.YESCRYPT_DEFAULTS / 4) 0).getD [] ++ (yesEnc32 100 (n2log2 (yesRN c).2) 1).getD []
    ++ (yesEnc32 100 (yesRN c).1 1).getD [] ++ [36]

/-- the parameters the documentation promises for cost `c` -/
def yesParamsOf (c : Nat) : YParams :=
  { flags := Gen.YESCRYPT_DEFAULTS, N := (yesRN c).2, r := (yesRN c).1, p := 1, t := 0, g := 0, NROM := 0 }

theorem cases_1_11 {c : Nat} (h1 : 1 ≤ c) (h2 : c ≤ 11) : c = 1 ∨ c = 2 ∨ c = 3 ∨ c = 4 ∨ c = 5 ∨ c = 6 ∨ c = 7 ∨ c = 8 ∨ c = 9 ∨ c = 10 ∨ c = 11 := by omega

theorem yesPfx_some (c : Nat) (h1 : 1 ≤ c) (h2 : c ≤ 11) :
    (yesEnc32 100 (Gen.YESCRYPT_RW + Gen.YESCRYPT_DEFAULTS / 4) 0).isSome = true ∧ (yesEnc32 100 (n2log2 (yesRN c).2) 1).isSome = true ∧
    (yesEnc32 100 (yesRN c).1 1).isSome = true := by
  rcases cases_1_11 h1 h2 with rfl | rfl | rfl | rfl | rfl | rfl | rfl | rfl | rfl | rfl | rfl <;> decide

theorem yParams_yesPfx (c : Nat) (h1 : 1 ≤ c) (h2 : c ≤ 11) : yParams (yesPfx c) = some (yesParamsOf c, 7) := by
  rcases cases_1_11 h1 h2 with rfl | rfl | rfl | rfl | rfl | rfl | rfl | rfl | rfl | rfl | rfl <;> decide

/-- what `gensalt_yescrypt_rn` returns: the parameter string of the cost, then the random bytes in base 64 -/
theorem gensaltYescrypt_shape {count : Nat} {rb : Bytes} {n osize : Nat} {S : Bytes} {e : Nat}
    (h : gensaltYescrypt count rb n osize = .ok S e) :
    1 ≤ dfl count 5 ∧ dfl count 5 ≤ 11 ∧ 16 ≤ min n 64 ∧ S = yesPfx (dfl count 5) ++ encode64 (padTo rb (min n 64)) := by
  unfold gensaltYescrypt at h
  dsimp only at h
  split at h; · cases h
  split at h; · cases h
  rename_i hc
  split at h; · cases h
  rename_i s hs
  split at h; · cases h
  simp only [WOut.ok.injEq] at h
  obtain ⟨rfl, _⟩ := h
  have c1 : 1 ≤ dfl count 5 := by unfold dfl; split <;> omega
  have c2 : dfl count 5 ≤ 11 := by unfold dfl; split <;> omega
  refine ⟨c1, c2, by omega, ?_⟩
  obtain ⟨e1, e2, e3, d1, d2, d3, h1, h2, h3, hS, _⟩ := yesEncodeParams_shape hs
  obtain ⟨s1, s2, s3⟩ := yesPfx_some _ c1 c2
  have f1 : yesEnc32 100 (Gen.YESCRYPT_RW + Gen.YESCRYPT_DEFAULTS / 4) 0 = some e1 := by
    rcases yesEnc32_indep (d' := 100) h1 with z | z
    · rw [z] at s1; cases s1
    · exact z
  have f2 : yesEnc32 100 (n2log2 (yesRN (dfl count 5)).2) 1 = some e2 := by
    rcases yesEnc32_indep (d' := 100) h2 with z | z
    · rw [z] at s2; cases s2
    · exact z
  have f3 : yesEnc32 100 (yesRN (dfl count 5)).1 1 = some e3 := by
    rcases yesEnc32_indep (d' := 100) h3 with z | z
    · rw [z] at s3; cases s3
    · exact z
  rw [hS]; unfold yesPfx; rw [f1, f2, f3]; rfl

theorem cat_append_left' (a b : Bytes) (i : Nat) (h : i < a.length) : cat (a ++ b) i = cat a i := by
  simp [cat, List.getD_eq_getElem?_getD, List.getElem?_append_left h]

theorem yesPfx_length (c : Nat) (h1 : 1 ≤ c) (h2 : c ≤ 11) : (yesPfx c).length = 7 := by
  rcases cases_1_11 h1 h2 with rfl | rfl | rfl | rfl | rfl | rfl | rfl | rfl | rfl | rfl | rfl <;> decide

theorem yesPfx_cat1 (c : Nat) (tail : Bytes) : cat (yesPfx c ++ tail) 1 = 121 := by
  unfold yesPfx; simp [cat]

/-- the parser of `yescrypt_r` on a generated setting: the documented parameters, and the salt is the random input itself -/
theorem parseYescrypt_gen (c : Nat) (h1 : 1 ≤ c) (h2 : c ≤ 11) (src : Bytes) (hsrc : src.length ≤ 64) (buflen : Nat)
    (hb : 7 + (encode64 src).length + 1 + Gen.YESCRYPT_HASH_LEN + 1 ≤ buflen) :
    parseYescrypt (yesPfx c ++ encode64 src) buflen =
      some { params := yesParamsOf c, prefixlen := 7, saltstrlen := (encode64 src).length, salt := src } := by
  have hl := yesPfx_length c h1 h2
  obtain ⟨_, _, hloc⟩ := yParams_local (yParams_yesPfx c h1 h2)
  unfold parseYescrypt
  rw [hloc (yesPfx c ++ encode64 src) (fun i hi => cat_append_left' _ _ i (by omega))]
  dsimp only
  rw [yFinish_eq']
  have hdrop : (yesPfx c ++ encode64 src).drop 7 = encode64 src := by
    rw [← hl]; exact List.drop_left
  have hsl : ySl (yesPfx c ++ encode64 src) 7 = (encode64 src).length := by
    unfold ySl; rw [hdrop]
    have : strrchr (encode64 src) 36 = none := by
      unfold strrchr; exact strrchr_go_notin 36 _ 0 none (encode64_no36 src)
    rw [this]
  rw [hsl]
  unfold yFin
  have h55 : ¬ cat (yesPfx c ++ encode64 src) 1 = 55 := by rw [yesPfx_cat1]; decide
  rw [if_neg h55, hdrop, List.take_length, yDecode64_encode64, if_neg (by omega)]
  dsimp only
  rw [if_neg (by omega)]


theorem base64Len_le (n : Nat) (h : n ≤ 64) : base64Len n ≤ 86 := by unfold base64Len; omega

/-- `yescrypt_r` on a generated `$y$` setting -/
theorem yescryptR_gen (D : Digests) (hD : D.WF) (p : Bytes) (c : Nat) (h1 : 1 ≤ c) (h2 : c ≤ 11) (src : Bytes) (hsrc : src.length ≤ 64)
    (buflen : Nat) (hb : 138 ≤ buflen) :
    yescryptR D p (yesPfx c ++ encode64 src) buflen =
      (D.yescrypt (yesParamsOf c) src p).map fun hd => yesPfx c ++ encode64 src ++ 36 :: encode64 hd := by
  have hel : (encode64 src).length ≤ 86 := by rw [encode64_length]; exact base64Len_le _ hsrc
  have hparse := parseYescrypt_gen c h1 h2 src hsrc buflen (by
    have : Gen.YESCRYPT_HASH_LEN = 43 := rfl
    omega)
  unfold yescryptR
  rw [hparse]
  dsimp only
  cases hk : D.yescrypt (yesParamsOf c) src p with
  | none => rfl
  | some hd =>
    dsimp only
    have hl := yesPfx_length c h1 h2
    have h32 := hD.yes _ _ _ _ hk
    have htake : (yesPfx c ++ encode64 src).take (7 + (encode64 src).length) = yesPfx c ++ encode64 src :=
      List.take_of_length_le (by simp; omega)
    rw [htake]
    have hlen : ¬ (yesPfx c ++ encode64 src ++ [36] ++ encode64 hd).length ≥ buflen := by
      have : (encode64 hd).length = 43 := by rw [encode64_length, h32]; rfl
      simp only [List.length_append, List.length_cons, List.length_nil]; omega
    rw [if_neg hlen]
    simp

/-- **yescrypt, end to end**: `crypt` on a generated setting runs the KDF with exactly the documented parameters of the cost
    (`yesParamsOf`: N = 2^(c+9) and r = 8 below cost 3, N = 2^(c+7) and r = 32 from 3 on, p = 1, default flags) and with the
    caller's random bytes as the salt, and — when the KDF itself succeeds — returns the setting, `$`, and the digest text -/
theorem accept_yescrypt (count : Nat) (rb : Bytes) (n osize : Nat) (S : Bytes) (e : Nat)
    (h : gensaltYescrypt count rb n osize = .ok S e) (D : Digests) (hD : D.WF) (p : Bytes) :
    cryptYescrypt D p S =
      match D.yescrypt (yesParamsOf (dfl count 5)) (padTo rb (min n 64)) p with
      | none => .error .EINVAL
      | some hd => .ok (S ++ 36 :: encode64 hd) := by
  obtain ⟨c1, c2, hn, hS⟩ := gensaltYescrypt_shape h
  have hsl : (padTo rb (min n 64)).length ≤ 64 := by rw [padTo_length]; omega
  unfold cryptYescrypt cryptYescryptCore
  rw [hS, yescryptR_gen D hD p _ c1 c2 _ hsl _ (by decide)]
  cases D.yescrypt (yesParamsOf (dfl count 5)) (padTo rb (min n 64)) p <;> rfl

theorem yesPfx_split (c : Nat) : yesPfx c = [36, 121, 36] ++ (yesPfx c).drop 3 := by
  unfold yesPfx; simp

/-- what `gensalt_gost_yescrypt_rn` returns: the `$y$` setting with the tag replaced -/
theorem gensaltGost_shape {count : Nat} {rb : Bytes} {n osize : Nat} {S : Bytes} {e : Nat}
    (h : gensaltGost count rb n osize = .ok S e) :
    1 ≤ dfl count 5 ∧ dfl count 5 ≤ 11 ∧ 16 ≤ min n 64 ∧
      S = [36, 103, 121, 36] ++ (yesPfx (dfl count 5)).drop 3 ++ encode64 (padTo rb (min n 64)) := by
  unfold gensaltGost at h
  dsimp only at h
  split at h; · cases h
  split at h
  · rename_i s ext hs
    simp only [WOut.ok.injEq] at h
    obtain ⟨rfl, _⟩ := h
    obtain ⟨c1, c2, hn, hS⟩ := gensaltYescrypt_shape hs
    have hmm : min (min n 64) 64 = min n 64 := by omega
    rw [hmm] at hn hS
    refine ⟨c1, c2, hn, ?_⟩
    rw [hS, yesPfx_split]; simp
  · rename_i o hne
    exact absurd h (hne S e)

/-- **gost-yescrypt, end to end**: the inner KDF runs with the documented parameters and the caller's random bytes; the outer
    construction is keyed with the whole generated setting; the result is the setting, `$`, and the digest text -/
theorem accept_gost (count : Nat) (rb : Bytes) (n osize : Nat) (S : Bytes) (e : Nat)
    (h : gensaltGost count rb n osize = .ok S e) (D : Digests) (hD : D.WF) (p : Bytes) :
    cryptGost D p S =
      match D.yescrypt (yesParamsOf (dfl count 5)) (padTo rb (min n 64)) p with
      | none => .error .EINVAL
      | some hd => .ok (S ++ 36 :: encode64 (D.gostOuter p S hd)) := by
  obtain ⟨c1, c2, hn, hS⟩ := gensaltGost_shape h
  generalize hc : dfl count 5 = c at *
  generalize hsrc : padTo rb (min n 64) = src at *
  have hsl : src.length ≤ 64 := by rw [← hsrc, padTo_length]; omega
  have hel : (encode64 src).length ≤ 86 := by rw [encode64_length]; exact base64Len_le _ hsl
  have hpl := yesPfx_length c c1 c2
  have hd3 : ((yesPfx c).drop 3).length = 4 := by simp; omega
  have hSl : S.length = 8 + (encode64 src).length := by rw [hS]; simp; omega
  have hlen : ¬ Gen.CRYPT_OUTPUT_SIZE < S.length + 1 + 43 + 1 := by
    have : Gen.CRYPT_OUTPUT_SIZE = 384 := rfl
    omega
  have hpre : hasPrefix S [36, 103, 121, 36] = true := by rw [hS]; simp [hasPrefix]
  have hgs : [36, 121, 36] ++ S.drop 4 = yesPfx c ++ encode64 src := by
    rw [hS]
    have : ([36, 103, 121, 36] ++ (yesPfx c).drop 3 ++ encode64 src).drop 4 = (yesPfx c).drop 3 ++ encode64 src := by simp
    rw [this, ← List.append_assoc, ← yesPfx_split]
  have hR := yescryptR_gen D hD p c c1 c2 src hsl (Gen.CRYPT_OUTPUT_SIZE - 1) (by decide)
  cases hk : D.yescrypt (yesParamsOf c) src p with
  | none =>
    rw [hk] at hR
    unfold cryptGost
    rw [if_neg hlen]
    simp only [hpre, not_true_eq_false, if_false, hgs, hR, Option.map_none]
  | some hd =>
    rw [hk] at hR
    simp only [Option.map_some] at hR
    rw [← hgs] at hR
    have hy1 : cat ([36, 121, 36] ++ S.drop 4) 1 ≠ 55 := by simp [cat]
    obtain ⟨Q, hd', hQ, hD', _, _, _, _, hshape, _⟩ := yescryptR_Y_struct hR hy1
    have hparse := parseYescrypt_gen c c1 c2 src hsl (Gen.CRYPT_OUTPUT_SIZE - 1) (by
      have : Gen.YESCRYPT_HASH_LEN = 43 := rfl
      have : Gen.CRYPT_OUTPUT_SIZE = 384 := rfl
      omega)
    rw [hgs, hparse] at hQ
    simp only [Option.some.injEq] at hQ
    subst hQ
    dsimp only at hD' hshape
    rw [hk] at hD'
    simp only [Option.some.injEq] at hD'
    subst hD'
    have hev := gost_eval D p S _ 7 (encode64 src).length hd hlen hpre hR hshape
    rw [hev, if_pos (hD.yes _ _ _ _ hk)]
    dsimp only
    have hk8 : 7 + (encode64 src).length + 1 = S.length := by omega
    rw [hk8, List.take_of_length_le (Nat.le_refl _)]
    congr 1
    rw [hgs]
    have : (yesPfx c ++ encode64 src ++ 36 :: encode64 hd).take S.length = yesPfx c ++ encode64 src ++ [36] := by
      have hl : (yesPfx c ++ encode64 src ++ [36]).length = S.length := by simp; omega
      have : yesPfx c ++ encode64 src ++ 36 :: encode64 hd = (yesPfx c ++ encode64 src ++ [36]) ++ encode64 hd := by simp
      rw [this, List.take_left' hl]
    rw [this, hS]
    conv => lhs; rw [yesPfx_split c]
    simp

/-! ### scrypt (`$7$`) -/

/-- the parameter string `gensalt_scrypt_rn` writes for cost `c` (6..11): `$7$<N>` then r = 32 and p = 1 in five characters each -/
def scryptPfx (c : Nat) : Bytes :=
  [36, 55, 36] ++ [a64 (n2log2 (2 ^ (c + 7)))] ++ ((List.range 5).map fun i => a64 (32 / 64 ^ i)) ++ ((List.range 5).map fun i => a64 (1 / 64 ^ i))

def scryptParamsOf (c : Nat) : YParams := { flags := 0, N := 2 ^ (c + 7), r := 32, p := 1, t := 0, g := 0, NROM := 0 }

theorem cases_6_11 {c : Nat} (h1 : 6 ≤ c) (h2 : c ≤ 11) : c = 6 ∨ c = 7 ∨ c = 8 ∨ c = 9 ∨ c = 10 ∨ c = 11 := by omega

theorem yParams_scryptPfx (c : Nat) (h1 : 6 ≤ c) (h2 : c ≤ 11) : yParams (scryptPfx c) = some (scryptParamsOf c, 14) := by
  rcases cases_6_11 h1 h2 with rfl | rfl | rfl | rfl | rfl | rfl <;> decide

theorem scryptPfx_length (c : Nat) : (scryptPfx c).length = 14 := by simp [scryptPfx]

theorem scryptOutbuf_shape {c : Nat} {rb : Bytes} {n : Nat} {s : Bytes} (h : scryptOutbuf c rb n = .ok s) :
    s = scryptPfx c ++ encode64 (padTo rb n) := by
  unfold scryptOutbuf at h
  simp only [] at h
  split at h; · cases h
  split at h; · cases h
  rename_i e1 h1
  split at h; · cases h
  split at h; · cases h
  rename_i e2 h2
  split at h; · cases h
  simp only [Except.ok.injEq] at h
  unfold scryptEnc32 at h1 h2
  simp only [] at h1 h2
  split at h1; · cases h1
  split at h2; · cases h2
  simp only [Option.some.injEq] at h1 h2
  subst h1; subst h2
  rw [← h]; unfold scryptPfx; rfl

theorem gensaltScrypt_shape {count : Nat} {rb : Bytes} {n osize : Nat} {S : Bytes} {e : Nat}
    (h : gensaltScrypt count rb n osize = .ok S e) :
    6 ≤ dfl count 7 ∧ dfl count 7 ≤ 11 ∧ 16 ≤ min n 64 ∧ S = scryptPfx (dfl count 7) ++ encode64 (padTo rb (min n 64)) := by
  unfold gensaltScrypt at h
  dsimp only at h
  split at h; · cases h
  split at h; · cases h
  rename_i hc
  split at h; · cases h
  rename_i s hs
  split at h; · cases h
  simp only [WOut.ok.injEq] at h
  obtain ⟨rfl, _⟩ := h
  refine ⟨by unfold dfl; split <;> omega, by unfold dfl; split <;> omega, by omega, scryptOutbuf_shape hs⟩

theorem scryptPfx_cat1 (c : Nat) (tail : Bytes) : cat (scryptPfx c ++ tail) 1 = 55 := by
  unfold scryptPfx; simp [cat]

/-- the parser on a generated `$7$` setting: documented parameters; the salt handed to the KDF is the base-64 text itself -/
theorem parseYescrypt_gen7 (c : Nat) (h1 : 6 ≤ c) (h2 : c ≤ 11) (src : Bytes) (buflen : Nat)
    (hb : 14 + (encode64 src).length + 1 + Gen.YESCRYPT_HASH_LEN + 1 ≤ buflen) :
    parseYescrypt (scryptPfx c ++ encode64 src) buflen =
      some { params := scryptParamsOf c, prefixlen := 14, saltstrlen := (encode64 src).length, salt := encode64 src } := by
  have hl := scryptPfx_length c
  obtain ⟨_, _, hloc⟩ := yParams_local (yParams_scryptPfx c h1 h2)
  unfold parseYescrypt
  rw [hloc (scryptPfx c ++ encode64 src) (fun i hi => cat_append_left' _ _ i (by omega))]
  dsimp only
  rw [yFinish_eq']
  have hdrop : (scryptPfx c ++ encode64 src).drop 14 = encode64 src := by
    rw [← hl]; exact List.drop_left
  have hsl : ySl (scryptPfx c ++ encode64 src) 14 = (encode64 src).length := by
    unfold ySl; rw [hdrop]
    have : strrchr (encode64 src) 36 = none := by
      unfold strrchr; exact strrchr_go_notin 36 _ 0 none (encode64_no36 src)
    rw [this]
  rw [hsl]
  unfold yFin
  rw [if_pos (scryptPfx_cat1 c _), hdrop, List.take_length]
  dsimp only
  rw [if_neg (by omega)]

/-- **scrypt, end to end** -/
theorem accept_scrypt (count : Nat) (rb : Bytes) (n osize : Nat) (S : Bytes) (e : Nat)
    (h : gensaltScrypt count rb n osize = .ok S e) (D : Digests) (hD : D.WF) (p : Bytes) :
    cryptScrypt D p S =
      match D.yescrypt (scryptParamsOf (dfl count 7)) (encode64 (padTo rb (min n 64))) p with
      | none => .error .EINVAL
      | some hd => .ok (S ++ 36 :: encode64 hd) := by
  obtain ⟨c1, c2, hn, hS⟩ := gensaltScrypt_shape h
  generalize hc : dfl count 7 = c at *
  generalize hsrc : padTo rb (min n 64) = src at *
  have hsl : src.length ≤ 64 := by rw [← hsrc, padTo_length]; omega
  have hel : (encode64 src).length ≤ 86 := by rw [encode64_length]; exact base64Len_le _ hsl
  have hpl := scryptPfx_length c
  have hpre : hasPrefix S [36, 55, 36] = true := by rw [hS]; simp [hasPrefix, scryptPfx]
  have hver : scryptVerifySalt S = true := by
    apply verify_of_valid
    intro j h1 h2
    rw [hS]
    have : cat (scryptPfx c ++ encode64 src) j = cat (encode64 src) (j - 14) := by
      simp only [cat, List.getD_eq_getElem?_getD]
      rw [List.getElem?_append_right (by omega), hpl]
    rw [this]
    rw [hS] at h2
    have hj : j - 14 < (encode64 src).length := by simp at h2; omega
    have : cat (encode64 src) (j - 14) = (encode64 src)[j - 14] := by
      simp [cat, List.getD_eq_getElem?_getD, List.getElem?_eq_getElem hj]
    rw [this]
    exact encode64_valid src _ (List.getElem_mem hj)
  have hparse := parseYescrypt_gen7 c c1 c2 src Gen.CRYPT_OUTPUT_SIZE (by
    have : Gen.YESCRYPT_HASH_LEN = 43 := rfl
    have : Gen.CRYPT_OUTPUT_SIZE = 384 := rfl
    omega)
  unfold cryptScrypt
  rw [if_neg (by simp [hpre, hver])]
  unfold cryptYescryptCore yescryptR
  rw [hS, hparse]
  dsimp only
  cases hk : D.yescrypt (scryptParamsOf c) (encode64 src) p with
  | none => rfl
  | some hd =>
    dsimp only
    have h32 := hD.yes _ _ _ _ hk
    have htake : (scryptPfx c ++ encode64 src).take (14 + (encode64 src).length) = scryptPfx c ++ encode64 src :=
      List.take_of_length_le (by simp; omega)
    rw [htake]
    have hlen : ¬ (scryptPfx c ++ encode64 src ++ [36] ++ encode64 hd).length ≥ Gen.CRYPT_OUTPUT_SIZE := by
      have : (encode64 hd).length = 43 := by rw [encode64_length, h32]; rfl
      have : Gen.CRYPT_OUTPUT_SIZE = 384 := rfl
      simp only [List.length_append, List.length_cons, List.length_nil]; omega
    rw [if_neg hlen]
    simp

/-! ### sunmd5 -/

/-- **sunmd5, end to end**: the round count crypt applies is 4096 + the printed count, the salt (the whole generated setting,
    including its closing `$`) is fed to the hash, and the result is the setting, `$`, and the digest text -/
theorem accept_sunmd5 (count : Nat) (rb : Bytes) (n osize : Nat) (S : Bytes) (e : Nat)
    (h : gensaltSunmd5 count rb n osize = .ok S e) (D : Digests) (p : Bytes) :
    cryptSunmd5 D p S = .ok (S ++ [36] ++ permEncode Gen.perm_sunmd5 (D.sunmd5 p S (4096 + sunmd5Count count rb))) := by
  unfold gensaltSunmd5 at h
  split at h; · cases h
  split at h; · cases h
  dsimp only at h
  split at h; · cases h
  simp only [WOut.ok.injEq] at h
  obtain ⟨hS, _⟩ := h
  obtain ⟨hN1, hN2⟩ := sunmd5Count_bounds count rb
  generalize hNdef : sunmd5Count count rb = N at *
  have hmax : Gen.SUNMD5_MAX_ROUNDS = 4294967295 := rfl
  have hS' : S = [36, 109, 100, 53, 44] ++ roundsEq ++ (toDec N ++ 36 :: ((enc24 (rbAt rb 2 + rbAt rb 3 * 256 + rbAt rb 4 * 65536) ++ enc24 (rbAt rb 5 + rbAt rb 6 * 256 + rbAt rb 7 * 65536)) ++ [36])) := by
    rw [← hS]; simp [roundsEq, Gen.SUNMD5_PREFIX, List.append_assoc]
  clear hS
  generalize hsalt : enc24 (rbAt rb 2 + rbAt rb 3 * 256 + rbAt rb 4 * 65536) ++ enc24 (rbAt rb 5 + rbAt rb 6 * 256 + rbAt rb 7 * 65536) = salt at hS'
  have hsl : salt.length = 8 := by rw [← hsalt]; simp [enc24]
  have hsc : ∀ x ∈ salt, x ∈ Gen.ascii64 := by
    intro x hx; rw [← hsalt] at hx
    simp only [List.mem_append] at hx
    rcases hx with hx | hx
    · exact (enc24_chars _ x hx).1
    · exact (enc24_chars _ x hx).1
  obtain ⟨c0, t0, hdec, hc1, hc2⟩ := toDec_head N (by omega) (by omega)
  have hdl : (toDec N).length ≤ 10 := toDec_length_le10 N (by omega)
  have hst := strtoul10_toDec N (salt ++ [36]) (by unfold ULONG_MAX; omega)
  unfold cryptSunmd5
  have hparse : parseSunmd5 S = .ok { nrounds := 4096 + N, saltlen := S.length } := by
    have hpl : Gen.SUNMD5_PREFIX_LEN = 4 := rfl
    have e1 : hasPrefix S Gen.SUNMD5_PREFIX = true := by rw [hS']; simp [hasPrefix, Gen.SUNMD5_PREFIX]
    have e2 : cat S 4 = 44 := by rw [hS']; simp [cat]
    have e3 : S.drop 5 = roundsEq ++ (toDec N ++ 36 :: (salt ++ [36])) := by rw [hS']; simp
    have e4 : S.drop 12 = toDec N ++ 36 :: (salt ++ [36]) := by rw [hS']; simp [roundsEq]
    have e5 : cat S 12 = c0 := by
      have := cat_drop S 12 0; rw [e4, hdec] at this; simpa [cat] using this.symm
    have e6 : cat S (12 + (toDec N).length) = 36 := by
      have := cat_drop S 12 (toDec N).length; rw [e4] at this
      rw [← this]; exact cat_append_mid _ _ _
    have e7 : S.drop (12 + (toDec N).length + 1) = salt ++ 36 :: [] := by
      rw [Nat.add_assoc, ← List.drop_drop, e4]
      have : toDec N ++ 36 :: (salt ++ [36]) = (toDec N ++ [36]) ++ (salt ++ [36]) := by simp
      rw [this, List.drop_left' (by simp)]
    have e8 : S.length = 12 + (toDec N).length + 1 + 8 + 1 := by rw [hS']; simp [roundsEq]; omega
    have e9 : cat S (12 + (toDec N).length + 1 + 8) = 36 := by
      have := cat_drop S (12 + (toDec N).length + 1) 8; rw [e7] at this
      rw [← this, ← hsl]; exact cat_append_mid _ _ _
    have e10 : cat S (12 + (toDec N).length + 1 + 8 + 1) = 0 := by
      simp [cat, List.getD_eq_getElem?_getD, List.getElem?_eq_none (Nat.le_of_eq e8)]
    unfold parseSunmd5
    dsimp only
    rw [hpl, e1, e2]
    simp only [not_true_eq_false, ne_eq, false_or, false_and, if_false]
    have hrl : roundsEq.length = 7 := rfl
    have n5 : 4 + 1 = 5 := rfl
    have n12 : 5 + 7 = 12 := rfl
    rw [if_neg (by simp), n5, hrl, n12, e3, hasPrefix_append, if_pos rfl, e5, e4, hst]
    dsimp only
    have hcd : (decide (49 ≤ c0) && decide (c0 ≤ 57)) = true := by simp [hc1, hc2]
    rw [if_neg (by simp [hcd])]
    have hpos := toDec_length_pos N
    have hcond : ¬ ((toDec N).length = 0 ∨ N > Gen.SUNMD5_MAX_ROUNDS ∨ false = true) := by
      rw [hmax]; intro h
      rcases h with h | h | h
      · omega
      · omega
      · cases h
    rw [if_neg hcond, e6, if_neg (by simp)]
    have hmod : (4096 + N) % 2 ^ 32 = 4096 + N := Nat.mod_eq_of_lt (by simp only [Nat.reducePow]; omega)
    rw [hmod]
    unfold sunStep2
    dsimp only
    have h36 : (36 : UInt8) ∉ Gen.ascii64 := by decide
    rw [e7, strspn_stop salt 36 [] Gen.ascii64 hsc h36, hsl, e9]
    rw [if_neg (by simp), e10]
    simp only [beq_self_eq_true, Bool.or_true, Bool.and_self, if_true]
    rw [if_neg (by have : Gen.CRYPT_OUTPUT_SIZE = 384 := rfl
                   have : Gen.SUNMD5_BARE_OUTPUT_LEN = 22 := rfl
                   omega), e8]
  rw [hparse]
  simp only [List.take_length]

/-! ### bigcrypt -/

/-- bigcrypt: the generated setting is two salt characters (followed, in a build without descrypt, by twelve filler characters that
    only make it too long for descrypt); crypt keeps the two salt characters — and with descrypt enabled that is the whole setting -/
theorem accept_big (d : Bool) (count : Nat) (rb : Bytes) (n osize : Nat) (S : Bytes) (e : Nat)
    (h : gensaltBig d count rb n osize = .ok S e) (D : Digests) (p : Bytes) :
    ∃ H, cryptBig d D p S = .ok H ∧ S.take 2 <+: H ∧ (d = true → S <+: H) := by
  unfold gensaltBig at h
  cases d with
  | true =>
    simp only [if_true] at h
    have hS : S = [a64 (rbAt rb 0), a64 (rbAt rb 1)] := by
      unfold gensaltDes at h
      split at h; · cases h
      split at h; · cases h
      simp only [WOut.ok.injEq] at h
      exact h.1.symm
    unfold cryptBig
    split
    · simp only [if_true]
      obtain ⟨H, h1, h2⟩ := accept_des count rb n osize S e h D p
      exact ⟨H, h1, (List.take_prefix 2 S).trans h2, fun _ => h2⟩
    · have hp := parseDesSalt_canon (rbAt rb 0 % 64 + rbAt rb 1 % 64 * 64) (by omega) []
      have e1 : a64 (rbAt rb 0 % 64 + rbAt rb 1 % 64 * 64) = a64 (rbAt rb 0) := by
        have : (rbAt rb 0 % 64 + rbAt rb 1 % 64 * 64) % 64 = rbAt rb 0 % 64 := by omega
        simp only [a64]; rw [this]
      have e2 : a64 ((rbAt rb 0 % 64 + rbAt rb 1 % 64 * 64) / 64) = a64 (rbAt rb 1) := by
        have : (rbAt rb 0 % 64 + rbAt rb 1 % 64 * 64) / 64 = rbAt rb 1 % 64 := by omega
        rw [this]; simp [a64]
      rw [e1, e2] at hp
      simp only [List.append_nil] at hp
      rw [hS, hp]
      dsimp only
      rw [e1, e2]
      refine ⟨_, rfl, ?_, fun _ => ⟨_, rfl⟩⟩
      simp
  | false =>
    simp only [Bool.false_eq_true, if_false] at h
    split at h; · cases h
    split at h
    · rename_i s ext hs
      simp only [WOut.ok.injEq] at h
      have hs2 : s = [a64 (rbAt rb 0), a64 (rbAt rb 1)] := by
        unfold gensaltDes at hs
        split at hs; · cases hs
        split at hs; · cases hs
        simp only [WOut.ok.injEq] at hs
        exact hs.1.symm
      obtain ⟨hS, _⟩ := h
      have hp := parseDesSalt_canon (rbAt rb 0 % 64 + rbAt rb 1 % 64 * 64) (by omega) [46, 46, 46, 46, 46, 46, 46, 46, 46, 46, 46, 46]
      have e1 : a64 (rbAt rb 0 % 64 + rbAt rb 1 % 64 * 64) = a64 (rbAt rb 0) := by
        have : (rbAt rb 0 % 64 + rbAt rb 1 % 64 * 64) % 64 = rbAt rb 0 % 64 := by omega
        simp only [a64]; rw [this]
      have e2 : a64 ((rbAt rb 0 % 64 + rbAt rb 1 % 64 * 64) / 64) = a64 (rbAt rb 1) := by
        have : (rbAt rb 0 % 64 + rbAt rb 1 % 64 * 64) / 64 = rbAt rb 1 % 64 := by omega
        rw [this]; simp [a64]
      rw [e1, e2] at hp
      unfold cryptBig
      have hl : ¬ (p.length > 8 ∧ S.length ≤ 13) := by rw [← hS, hs2]; simp
      rw [if_neg hl, ← hS, hs2, hp]
      dsimp only
      rw [e1, e2]
      refine ⟨_, rfl, ?_, fun hd => by cases hd⟩
      simp
    · rename_i o hne
      exact absurd h (hne S e)
end Xc

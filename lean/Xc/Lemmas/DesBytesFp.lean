/- kernel-evaluated byte/group facts for Lemmas/DesRound.lean, one module each so that they build in parallel -/
import Xc.Spec.DesTables
import Xc.Gen.DesTables
import Xc.Lemmas.DesPerm
namespace Xc.Des
open Xc Xc.Spec.DesT

set_option maxRecDepth 100000 in
theorem fp_byte : ∀ i : Fin 8, ∀ b : Fin 256,
    (lookL Gen.des_fp_maskl i.val b.val, lookL Gen.des_fp_maskr i.val b.val) = perm64 IPinv (place i.val (UInt32.ofNat b.val)) := by
  decide +kernel
end Xc.Des

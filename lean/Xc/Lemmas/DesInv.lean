/-
  DES (C17): decryption inverts encryption for every key schedule, salt, count and block; key parity bits are ignored.
-/
import Xc.Lemmas.DesPerm
namespace Xc.Des
open Xc

/-- **decryption inverts encryption, and encryption inverts decryption**: `des_crypt_block` with `decrypt` set undoes
    `des_crypt_block` without it (and vice versa) for every key schedule, every salt, every iteration count and every 8-byte block -/
theorem cryptBlock_inverse (c : Ctx) (x : Bytes) (hx : x.length = 8) (count : Nat) :
    cryptBlock c (cryptBlock c x count false) count true = x ∧ cryptBlock c (cryptBlock c x count true) count false = x := by
  match x, hx with
  | [x0, x1, x2, x3, x4, x5, x6, x7], _ =>
    constructor
    · rw [cryptBlock_eq c _ count true, cryptBlock_eq c _ count false]
      obtain ⟨e0, e4⟩ := be32_toBe32
        (permLL Gen.des_fp_maskl Gen.des_fp_maskr (iter (pass c.saltbits (keyList c false)) (if count = 0 then 1 else count)
          (permLL Gen.des_ip_maskl Gen.des_ip_maskr (be32 [x0, x1, x2, x3, x4, x5, x6, x7] 0, be32 [x0, x1, x2, x3, x4, x5, x6, x7] 4)))).1
        (permLL Gen.des_fp_maskl Gen.des_fp_maskr (iter (pass c.saltbits (keyList c false)) (if count = 0 then 1 else count)
          (permLL Gen.des_ip_maskl Gen.des_ip_maskr (be32 [x0, x1, x2, x3, x4, x5, x6, x7] 0, be32 [x0, x1, x2, x3, x4, x5, x6, x7] 4)))).2
      rw [e0, e4, ip_fp, passes_inverse, fp_ip]
      exact toBe32_be32 x0 x1 x2 x3 x4 x5 x6 x7
    · rw [cryptBlock_eq c _ count false, cryptBlock_eq c _ count true]
      obtain ⟨e0, e4⟩ := be32_toBe32
        (permLL Gen.des_fp_maskl Gen.des_fp_maskr (iter (pass c.saltbits (keyList c true)) (if count = 0 then 1 else count)
          (permLL Gen.des_ip_maskl Gen.des_ip_maskr (be32 [x0, x1, x2, x3, x4, x5, x6, x7] 0, be32 [x0, x1, x2, x3, x4, x5, x6, x7] 4)))).1
        (permLL Gen.des_fp_maskl Gen.des_fp_maskr (iter (pass c.saltbits (keyList c true)) (if count = 0 then 1 else count)
          (permLL Gen.des_ip_maskl Gen.des_ip_maskr (be32 [x0, x1, x2, x3, x4, x5, x6, x7] 0, be32 [x0, x1, x2, x3, x4, x5, x6, x7] 4)))).2
      rw [e0, e4, ip_fp, iter_inverse _ _ (fun a => (pass_inverse c a).2), fp_ip]
      exact toBe32_be32 x0 x1 x2 x3 x4 x5 x6 x7
end Xc.Des

namespace Xc.Des
open Xc
theorem seven_byte (x0 x1 x2 x3 : UInt8) :
    ((((x0.toUInt32 <<< 24) ||| (x1.toUInt32 <<< 16) ||| (x2.toUInt32 <<< 8) ||| x3.toUInt32) >>> 25) &&& (0x7f : UInt32) = (x0 >>> 1).toUInt32) ∧
    ((((x0.toUInt32 <<< 24) ||| (x1.toUInt32 <<< 16) ||| (x2.toUInt32 <<< 8) ||| x3.toUInt32) >>> 17) &&& (0x7f : UInt32) = (x1 >>> 1).toUInt32) ∧
    ((((x0.toUInt32 <<< 24) ||| (x1.toUInt32 <<< 16) ||| (x2.toUInt32 <<< 8) ||| x3.toUInt32) >>> 9) &&& (0x7f : UInt32) = (x2 >>> 1).toUInt32) ∧
    ((((x0.toUInt32 <<< 24) ||| (x1.toUInt32 <<< 16) ||| (x2.toUInt32 <<< 8) ||| x3.toUInt32) >>> 1) &&& (0x7f : UInt32) = (x3 >>> 1).toUInt32) := by
  refine ⟨?_, ?_, ?_, ?_⟩
  all_goals apply UInt32.eq_of_toBitVec_eq
  all_goals ext i hi
  all_goals rcases cases32 hi with rfl | rfl | rfl | rfl | rfl | rfl | rfl | rfl | rfl | rfl | rfl | rfl | rfl | rfl | rfl | rfl | rfl | rfl | rfl | rfl |
    rfl | rfl | rfl | rfl | rfl | rfl | rfl | rfl | rfl | rfl | rfl | rfl
  all_goals simp

theorem sevenOfKey_eq (key : Bytes) : ∀ j : Fin 8, sevenOfKey (be32 key 0) (be32 key 4) j = ((key.getD j.val 0) >>> 1).toUInt32 := by
  obtain ⟨a0, a1, a2, a3⟩ := seven_byte (key.getD 0 0) (key.getD 1 0) (key.getD 2 0) (key.getD 3 0)
  obtain ⟨b0, b1, b2, b3⟩ := seven_byte (key.getD 4 0) (key.getD 5 0) (key.getD 6 0) (key.getD 7 0)
  intro j
  have h : j = 0 ∨ j = 1 ∨ j = 2 ∨ j = 3 ∨ j = 4 ∨ j = 5 ∨ j = 6 ∨ j = 7 := by omega
  rcases h with rfl | rfl | rfl | rfl | rfl | rfl | rfl | rfl
  · exact a0
  · exact a1
  · exact a2
  · exact a3
  · exact b0
  · exact b1
  · exact b2
  · exact b3

/-- **key parity bits are ignored**: `des_set_key` reads only the upper seven bits of every key byte -/
theorem setKey_parity (key key' : Bytes) (h : ∀ i, i < 8 → (key.getD i 0) >>> 1 = (key'.getD i 0) >>> 1) : setKey key = setKey key' := by
  have hs : sevenOfKey (be32 key 0) (be32 key 4) = sevenOfKey (be32 key' 0) (be32 key' 4) := by
    funext j
    rw [sevenOfKey_eq key j, sevenOfKey_eq key' j, h j.val j.isLt]
  unfold setKey
  simp only [hs]
end Xc.Des

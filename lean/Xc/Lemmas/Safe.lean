import Xc.Lemmas.Alpha
import Xc.Lemmas.Dec
namespace Xc

theorem passwdSafe_iff (s : Bytes) : passwdSafe s = true ↔ ∀ c ∈ s, isBadSaltChar c = false := by
  simp [passwdSafe]

theorem checkBad_eq (s : Bytes) : checkBadSaltChars s = !passwdSafe s := by
  simp only [checkBadSaltChars, passwdSafe]
  induction s with
  | nil => rfl
  | cons a t ih => simp only [List.any_cons, List.all_cons, ih]; cases isBadSaltChar a <;> simp

theorem passwdSafe_of_checkBad {s : Bytes} (h : checkBadSaltChars s = false) : passwdSafe s = true := by
  rw [checkBad_eq] at h; simpa using h

@[simp] theorem passwdSafe_append (a b : Bytes) : passwdSafe (a ++ b) = (passwdSafe a && passwdSafe b) := by
  simp [passwdSafe]

@[simp] theorem passwdSafe_nil : passwdSafe [] = true := rfl

@[simp] theorem passwdSafe_cons (a : UInt8) (b : Bytes) : passwdSafe (a :: b) = (!isBadSaltChar a && passwdSafe b) := by
  simp [passwdSafe]

theorem passwdSafe_take {s : Bytes} (h : passwdSafe s = true) (n : Nat) : passwdSafe (s.take n) = true := by
  rw [passwdSafe_iff] at *; intro c hc; exact h c (List.mem_of_mem_take hc)

theorem passwdSafe_drop {s : Bytes} (h : passwdSafe s = true) (n : Nat) : passwdSafe (s.drop n) = true := by
  rw [passwdSafe_iff] at *; intro c hc; exact h c (List.mem_of_mem_drop hc)

theorem digit_safe : ∀ k : Fin 10, isBadSaltChar (48 + (k.val).toUInt8) = false := by decide

theorem decDigitsAux_safe (fuel n : Nat) (acc : Bytes) (h : passwdSafe acc = true) :
    passwdSafe (decDigitsAux fuel n acc) = true := by
  induction fuel generalizing n acc with
  | zero => simpa [decDigitsAux] using h
  | succ f ih =>
    simp only [decDigitsAux]
    have hd : isBadSaltChar (48 + (n % 10).toUInt8) = false := digit_safe ⟨n % 10, Nat.mod_lt _ (by decide)⟩
    split
    · simp [hd, h]
    · apply ih; simp [hd, h]

theorem toDec_safe (n : Nat) : passwdSafe (toDec n) = true := decDigitsAux_safe 20 n [] rfl

theorem b64from24_safe (a b c n : Nat) : passwdSafe (b64from24 a b c n) = true := by
  rw [passwdSafe_iff]; intro x hx
  simp only [b64from24, List.mem_map] at hx
  obtain ⟨i, _, rfl⟩ := hx; exact a64_safe _

theorem permEncode_safe (sched : List (Nat × Nat × Nat × Nat)) (d : Bytes) : passwdSafe (permEncode sched d) = true := by
  rw [passwdSafe_iff]; intro x hx
  simp only [permEncode, List.mem_flatMap] at hx
  obtain ⟨⟨a, b, c, n⟩, _, hx⟩ := hx
  exact (passwdSafe_iff _).mp (b64from24_safe ..) x hx

theorem b64from24_length (a b c n : Nat) : (b64from24 a b c n).length = n := by simp [b64from24]

theorem permEncode_length (sched : List (Nat × Nat × Nat × Nat)) (d : Bytes) :
    (permEncode sched d).length = (sched.map (fun x => x.2.2.2)).sum := by
  induction sched with
  | nil => simp [permEncode]
  | cons x xs ih =>
    obtain ⟨a, b, c, n⟩ := x
    simp only [permEncode, List.flatMap_cons, List.length_append, List.map_cons, List.sum_cons, b64from24_length] at ih ⊢
    rw [ih]

theorem enc24_safe (v : Nat) : passwdSafe (enc24 v) = true := by
  simp [enc24, a64_safe]

theorem sha1Encode_safe (d : Bytes) : passwdSafe (sha1Encode d) = true := by
  simp [sha1Encode, enc24_safe]

theorem sha1Encode_length (d : Bytes) : (sha1Encode d).length = 28 := by
  simp only [sha1Encode, List.length_append, enc24]; rfl

theorem hexLower_safe (d : Bytes) : passwdSafe (hexLower d) = true := by
  rw [passwdSafe_iff]; intro x hx
  simp only [hexLower, List.mem_flatMap] at hx
  obtain ⟨b, _, hx⟩ := hx
  simp only [List.mem_cons, List.not_mem_nil, or_false] at hx
  rcases hx with rfl | rfl
  · exact hexDigit_safe _ (by have := b.toNat_lt; omega)
  · exact hexDigit_safe _ (Nat.mod_lt _ (by decide))

theorem hexLower_length (d : Bytes) : (hexLower d).length = 2 * d.length := by
  induction d with
  | nil => rfl
  | cons a t ih => simp only [hexLower, List.flatMap_cons, List.length_append, List.length_cons, List.length_nil] at ih ⊢; omega

theorem desEncode_safe : ∀ d : Bytes, passwdSafe (desEncode d) = true
  | [] => rfl
  | [_] => by simp [desEncode, a64_safe]
  | [_, _] => by simp [desEncode, a64_safe]
  | _ :: _ :: _ :: rest => by
    have := desEncode_safe rest
    simp [desEncode, a64_safe, this]

theorem desEncode_length8 (l : Bytes) (h : l.length = 8) : (desEncode l).length = 11 := by
  match l, h with
  | [_, _, _, _, _, _, _, _], _ => simp [desEncode]

theorem bfEncode_safe : ∀ d : Bytes, passwdSafe (bfEncode d) = true
  | [] => rfl
  | [_] => by simp [bfEncode, bf64_safe]
  | [_, _] => by simp [bfEncode, bf64_safe]
  | _ :: _ :: _ :: rest => by
    have := bfEncode_safe rest
    simp [bfEncode, bf64_safe, this]

theorem bfEncode_length23 (l : Bytes) (h : l.length = 23) : (bfEncode l).length = 31 := by
  match l, h with
  | [_, _, _, _, _, _, _, _, _, _, _, _, _, _, _, _, _, _, _, _, _, _, _], _ => simp [bfEncode]

theorem enc64Group_safe (g : Bytes) : passwdSafe (enc64Group g) = true := by
  rw [passwdSafe_iff]; intro x hx
  simp only [enc64Group, List.mem_map] at hx
  obtain ⟨i, _, rfl⟩ := hx; exact a64_safe _

theorem encode64_safe : ∀ d : Bytes, passwdSafe (encode64 d) = true
  | [] => rfl
  | [_] => by simp [encode64, enc64Group_safe]
  | [_, _] => by simp [encode64, enc64Group_safe]
  | _ :: _ :: _ :: rest => by
    have := encode64_safe rest
    simp [encode64, enc64Group_safe, this]

end Xc

/-
  C01, second clause ("only the prefix, options and salt of a setting influence the result"): hash-part lemmas for scrypt,
  sunmd5, gost-yescrypt and bigcrypt, `HashText` (text over `./0-9A-Za-z`) and the uniform statement `HashPart`.
-/
import Xc.Lemmas.Scrypt
import Xc.Lemmas.Sunmd5
import Xc.Lemmas.Gost
import Xc.Lemmas.Big
import Xc.Lemmas.U8
namespace Xc
open List

theorem cryptScrypt_hashpart (D : Digests) (p s H : Bytes) (h : cryptScrypt D p s = .ok H) :
    ∃ S dig, H = S ++ dig ∧ 15 ≤ S.length ∧ ∀ t : Bytes, (∀ c ∈ t, scryptSaltChar c = true) → (36 : UInt8) ∉ t → cryptScrypt D p (S ++ t) = .ok H := by
  unfold cryptScrypt at h
  split at h; · cases h
  rename_i hc
  simp only [not_or, Decidable.not_not] at hc
  obtain ⟨hpre, hver⟩ := hc
  have hver' : scryptVerifySalt s = true := by simpa using hver
  have hpre' : hasPrefix s [36, 55, 36] = true := by simpa using hpre
  -- the pieces of the successful parse
  have hcore := h
  unfold cryptYescryptCore at h
  split at h; · cases h
  rename_i out hout
  cases h
  obtain ⟨k, dig, hk1, hk2, e, hd, f⟩ := yescryptR_refeed hout
  have hout2 := hout
  unfold yescryptR at hout2
  split at hout2; · cases hout2
  rename_i Q hQ
  split at hout2; · cases hout2
  rename_i hdg hD
  dsimp only at hout2
  split at hout2; · cases hout2
  simp only [Option.some.injEq] at hout2
  unfold parseYescrypt at hQ
  split at hQ; · cases hQ
  rename_i P pl hP
  have h7 : cat s 1 = 55 := by
    unfold hasPrefix at hpre'
    rw [List.isPrefixOf_iff_prefix] at hpre'
    obtain ⟨t, rfl⟩ := hpre'
    rfl
  obtain ⟨hpl14, hpll, _⟩ := yParams_local7 hP h7
  obtain ⟨hsl, hpl⟩ := yFinish_sl hQ
  subst hpl14
  -- the last parameter character is not '$'
  have h13 : cat s 13 ≠ 36 := by
    intro h36
    unfold yParams at hP
    dsimp only at hP
    split at hP; · cases hP
    try rw [if_pos h7] at hP
    split at hP; · cases hP
    split at hP
    · rename_i r pp hr hp9
      unfold yDecFixed30 at hp9
      simp only [] at hp9
      split at hp9; · cases hp9
      rename_i hany
      simp only [List.any_eq_true, not_exists, not_and, List.mem_map, List.mem_range] at hany
      have := hany (yAtoi (cat s (9 + 4))) ⟨4, by omega, rfl⟩
      rw [show 9 + 4 = 13 from rfl, h36, yAtoi_dollar] at this
      simp at this
    · cases hP
  -- the characters kept by the result, from index 14 on, are salt characters
  have hvalid : ∀ j, 14 ≤ j → j < 14 + Q.saltstrlen → scryptSaltChar (cat s j) = true := by
    intro j hj1 hj2
    unfold scryptVerifySalt at hver'
    rcases verify_go_spec s (s.length + 1) 14 (by omega) hver' with hv | ⟨i, hi1, hi2, hi3, hi4, hi5, hi6⟩
    · -- every character is valid
      have hjl : j < s.length := by
        rw [hsl] at hj2; unfold ySl at hj2
        split at hj2
        · rename_i kk hk; have := strrchr_lt hk; simp at this; omega
        · simp at hj2; omega
      exact hv j hj1 hjl
    · -- the first invalid character follows the last '$'
      have hi15 : 15 ≤ i := by
        rcases Nat.eq_or_lt_of_le hi1 with e14 | e14
        · subst e14; exact absurd hi5 h13
        · omega
      have hdecomp : s.drop 14 = (s.drop 14).take (i - 15) ++ 36 :: s.drop i := by
        have h1 : (s.drop 14).drop (i - 15) = 36 :: s.drop i := by
          rw [List.drop_drop]
          have e1 : 14 + (i - 15) = i - 1 := by omega
          rw [e1]
          have hlt : i - 1 < s.length := by omega
          rw [List.drop_eq_getElem_cons hlt]
          have : s[i - 1] = 36 := by
            have := hi5; unfold cat at this
            rw [List.getD_eq_getElem?_getD, List.getElem?_eq_getElem hlt] at this; simpa using this
          rw [this]; congr 2; omega
        conv => lhs; rw [← List.take_append_drop (i - 15) (s.drop 14)]
        rw [h1]
      have hsl2 : Q.saltstrlen = i - 15 := by
        rw [hsl]; unfold ySl
        rw [hdecomp, strrchr_append_stop _ _ 36 hi6]
        simp only [List.length_take, List.length_drop]; omega
      exact hi3 j hj1 (by omega)
  -- shape of the result and its re-acceptance
  have hlen : 14 + Q.saltstrlen ≤ s.length := by
    obtain ⟨_, b, _⟩ := yFinish_refeed hQ ⟨by omega, hpll⟩ [] (by simp); omega
  rw [hpl] at hout2
  have hH : H = s.take (14 + Q.saltstrlen) ++ 36 :: encode64 hdg := by rw [← hout2]; simp
  refine ⟨s.take (14 + Q.saltstrlen) ++ [36], encode64 hdg, by rw [hH]; simp, by simp; omega, fun t htv ht36 => ?_⟩
  have hkk : s.take k = s.take (14 + Q.saltstrlen) ∧ dig = encode64 hdg := by
    rw [hH] at e
    have hl1 : (s.take (14 + Q.saltstrlen)).length = 14 + Q.saltstrlen := by simp; omega
    have hl2 : (s.take k).length = k := by simp; omega
    have hkeq : k = 14 + Q.saltstrlen := by
      -- both decompositions of H end with `$` followed by a `$`-free text
      have h1 := congrArg (fun l => strrchr l 36) e
      try dsimp only at h1
      rw [strrchr_append_stop _ _ 36 (encode64_no36 hdg), strrchr_append_stop _ _ 36 hd, hl1, hl2] at h1
      simpa using h1.symm
    subst hkeq
    have := List.append_cancel_left e
    simp only [List.cons.injEq, true_and] at this
    exact ⟨rfl, this.symm⟩
  have hfix : yescryptR D p (s.take (14 + Q.saltstrlen) ++ 36 :: t) Gen.CRYPT_OUTPUT_SIZE = some H := by
    have := f t ht36; rw [hkk.1, ← hkk.1, ← e] at this; rw [← hkk.1]; exact this
  have hvH : validFrom (s.take (14 + Q.saltstrlen) ++ 36 :: t) 14 := by
    intro j hj1 hj2
    have htl : (s.take (14 + Q.saltstrlen)).length = 14 + Q.saltstrlen := by simp; omega
    rcases Nat.lt_trichotomy j (14 + Q.saltstrlen) with hlt | heq | hgt
    · rw [cat_take_append s _ (14 + Q.saltstrlen) j hlt hlen]; exact hvalid j hj1 hlt
    · have := cat_append_mid (s.take (14 + Q.saltstrlen)) 36 t
      rw [htl] at this; rw [heq, this]; decide
    · have hm : cat (s.take (14 + Q.saltstrlen) ++ 36 :: t) j ∈ t := by
        unfold cat
        rw [List.getD_eq_getElem?_getD, List.getElem?_append_right (by omega), htl]
        have e2 : j - (14 + Q.saltstrlen) = (j - (14 + Q.saltstrlen) - 1) + 1 := by omega
        rw [e2, List.getElem?_cons_succ]
        simp only [List.length_append, List.length_cons, htl] at hj2
        rw [List.getElem?_eq_getElem (by omega)]
        simp
      exact htv _ hm
  have hpH : hasPrefix (s.take (14 + Q.saltstrlen) ++ 36 :: t) [36, 55, 36] = true := by
    unfold hasPrefix at hpre' ⊢
    rw [List.isPrefixOf_iff_prefix] at hpre' ⊢
    exact prefix_take_append' _ _ hpre' (by simp; omega)
  have hcat : s.take (14 + Q.saltstrlen) ++ [36] ++ t = s.take (14 + Q.saltstrlen) ++ 36 :: t := by simp
  rw [hcat]
  unfold cryptScrypt
  simp only [hpH, verify_of_valid _ hvH, not_true_eq_false, or_self, if_false]
  unfold cryptYescryptCore
  rw [hfix]

/-- sunmd5: any text that starts with a character other than `$` may replace the digest -/
theorem cryptSunmd5_hashpart (D : Digests) (p s H : Bytes) (h : cryptSunmd5 D p s = .ok H) :
    ∃ S dig, H = S ++ dig ∧ 6 ≤ S.length ∧ dig.length = 22 ∧ ∀ t : Bytes, cat t 0 ≠ 36 → cat t 0 ≠ 0 → cryptSunmd5 D p (S ++ t) = .ok H := by
  unfold cryptSunmd5 at h
  split at h; · cases h
  rename_i P hP
  simp only [Except.ok.injEq] at h
  obtain ⟨h5, hl0, _⟩ := parseSunmd5_refeed hP (permEncode Gen.perm_sunmd5 (D.sunmd5 p (s.take P.saltlen) P.nrounds)) (permEncode_head _)
  refine ⟨s.take P.saltlen ++ [36], permEncode Gen.perm_sunmd5 (D.sunmd5 p (s.take P.saltlen) P.nrounds), by rw [← h], by simp; omega, ?_, fun t h1 h2 => ?_⟩
  · rw [permEncode_length]; exact sunmd5_facts
  obtain ⟨_, hl, hre⟩ := parseSunmd5_refeed hP t ⟨h1, h2⟩
  unfold cryptSunmd5
  have hc : s.take P.saltlen ++ [36] ++ t = s.take P.saltlen ++ 36 :: t := by simp
  rw [hc, hre]
  simp only [Except.ok.injEq]
  have : (s.take P.saltlen ++ 36 :: t).take P.saltlen = s.take P.saltlen := List.take_left' (by simp; omega)
  rw [this, ← h]

/-- gost-yescrypt: any text free of `$` and of the digest's length may replace the digest (the length enters the wrapper's size
    pre-check, the content nothing) -/
theorem cryptGost_hashpart (D : Digests) (hD : D.WF) (p S H : Bytes) (h : cryptGost D p S = .ok H) :
    ∃ S' dig, H = S' ++ dig ∧ 5 ≤ S'.length ∧ ∀ t : Bytes, (36 : UInt8) ∉ t → t.length ≤ dig.length → cryptGost D p (S' ++ t) = .ok H := by
  have h0 := h
  unfold cryptGost at h0
  split at h0; · cases h0
  rename_i hlen
  split at h0; · cases h0
  rename_i hpre
  simp only [Bool.not_eq_true, Bool.not_eq_false] at hpre
  dsimp only at h0
  split at h0; · cases h0
  rename_i y hy
  clear h0
  have hy1 : cat ([36, 121, 36] ++ S.drop 4) 1 ≠ 55 := by simp [cat]
  obtain ⟨Q, hd, _, _, hpl, hsl, hk, hout, hshape, hrefeed⟩ := yescryptR_Y_struct hy hy1
  generalize Q.prefixlen = pl at *
  generalize Q.saltstrlen = sl at *
  have hev := gost_eval D p S y pl sl hd hlen hpre hy hshape
  rw [hev] at h
  split at h
  case isFalse => cases h
  rename_i h32
  simp only [Except.ok.injEq] at h
  obtain ⟨pre, e, hl, h4, c36, cp, cs⟩ := hshape
  have hS := hasPrefix_split hpre
  simp only [List.length_cons, List.length_nil] at hS
  generalize hrest : S.drop 4 = rest at *
  have hkr : pl + sl - 3 ≤ rest.length := by simp at hk; omega
  have hpre' : ([36, 121, 36] ++ rest).take (pl + sl) = [36, 121, 36] ++ rest.take (pl + sl - 3) := by
    rw [List.take_append, List.take_of_length_le (by simp; omega)]; rfl
  have hrl : (rest.take (pl + sl - 3)).length = pl + sl - 3 := by simp; omega
  have ytake : y.take (pl + sl + 1) = [36, 121, 36] ++ rest.take (pl + sl - 3) ++ [36] := by
    rw [hout, hpre', List.take_append, List.take_of_length_le (by simp; omega)]
    have : pl + sl + 1 - ([36, 121, 36] ++ rest.take (pl + sl - 3)).length = 1 := by simp; omega
    rw [this]; rfl
  generalize hg : D.gostOuter p (S.take (pl + sl + 1)) hd = g at h
  have hgl : (encode64 g).length = 43 := by rw [encode64_length, ← hg, hD.gost]; rfl
  have hH : H = [36, 103, 121, 36] ++ rest.take (pl + sl - 3) ++ 36 :: encode64 g := by rw [← h, ytake]; simp
  refine ⟨[36, 103, 121, 36] ++ rest.take (pl + sl - 3) ++ [36], encode64 g, by rw [hH]; simp, by simp, fun t ht htl => ?_⟩
  have hAl : ([36, 103, 121, 36] ++ rest.take (pl + sl - 3)).length = pl + sl + 1 := by rw [List.length_append, hrl]; simp; omega
  generalize hT : [36, 103, 121, 36] ++ rest.take (pl + sl - 3) ++ [36] ++ t = T
  have hTeq : T = [36, 103, 121, 36] ++ rest.take (pl + sl - 3) ++ 36 :: t := by rw [← hT]; simp
  have hTtake : T.take (pl + sl + 1) = S.take (pl + sl + 1) := by
    rw [hTeq, List.take_left' hAl]
    have h4l : ([36, 103, 121, 36] : Bytes).length = 4 := rfl
    rw [hS, List.take_append, List.take_of_length_le (l := [36, 103, 121, 36]) (by rw [h4l]; omega), h4l]
    have : pl + sl + 1 - 4 = pl + sl - 3 := by omega
    rw [this]
  have hTlen : ¬ Gen.CRYPT_OUTPUT_SIZE < T.length + 1 + 43 + 1 := by
    rw [hTeq, List.length_append, hAl, List.length_cons]
    have : Gen.CRYPT_OUTPUT_SIZE = 384 := rfl
    omega
  have hTpre : hasPrefix T [36, 103, 121, 36] = true := by rw [hTeq]; simp [hasPrefix]
  have hTdrop : [36, 121, 36] ++ T.drop 4 = ([36, 121, 36] ++ rest).take (pl + sl) ++ 36 :: t := by rw [hTeq, hpre']; simp
  have hyT : yescryptR D p ([36, 121, 36] ++ T.drop 4) (Gen.CRYPT_OUTPUT_SIZE - 1) = some y := by rw [hTdrop]; exact hrefeed _ ht
  have hevT := gost_eval D p T y pl sl hd hTlen hTpre hyT ⟨pre, e, hl, h4, c36, cp, cs⟩
  rw [hevT, if_pos h32, hTtake, hg, h]

/-- bigcrypt: the text after the two salt characters has no influence beyond its length (which selects between the descrypt
    fallback and the segment loop) -/
theorem cryptBig_hashpart (d : Bool) (D : Digests) (p s H : Bytes) (h : cryptBig d D p s = .ok H) :
    ∀ t : Bytes, t.length = s.length - 2 → 2 ≤ s.length → cryptBig d D p (s.take 2 ++ t) = .ok H := by
  intro t htl hs2
  have hlen : (s.take 2 ++ t).length = s.length := by simp; omega
  have hparse : parseDesSalt (s.take 2 ++ t) = parseDesSalt s := by
    unfold parseDesSalt
    have c0 : cat (s.take 2 ++ t) 0 = cat s 0 := by
      have := cat_take_append s t 2 0 (by omega) hs2; exact this
    have c1 : cat (s.take 2 ++ t) 1 = cat s 1 := by
      have := cat_take_append s t 2 1 (by omega) hs2; exact this
    rw [c0, c1]
  unfold cryptBig at h ⊢
  rw [hlen]
  split
  · rename_i hc
    rw [if_pos hc] at h
    cases d with
    | false => exact h
    | true =>
      simp only [if_true] at h ⊢
      unfold cryptDes at h ⊢
      rw [hparse]; exact h
  · rename_i hc
    rw [if_neg hc] at h
    rw [hparse]; exact h

/-- text over `./0-9A-Za-z` — a superset of every method's hash alphabet (ascii64, bcrypt's alphabet, lower-case hex) -/
def HashText (t : Bytes) : Prop := ∀ c ∈ t, scryptSaltChar c = true ∧ c ≠ 36

set_option maxRecDepth 100000 in
theorem hashText_facts : ∀ c : UInt8, scryptSaltChar c = true → c ≠ 36 → isBadSaltChar c = false ∧ c ≠ 0 :=
  forall_uint8 _ (by decide +kernel)

theorem HashText.no36 {t : Bytes} (h : HashText t) : (36 : UInt8) ∉ t := fun hm => (h 36 hm).2 rfl
theorem HashText.valid {t : Bytes} (h : HashText t) : ∀ c ∈ t, scryptSaltChar c = true := fun c hc => (h c hc).1
theorem HashText.safe {t : Bytes} (h : HashText t) : passwdSafe t = true :=
  (passwdSafe_iff t).mpr (fun c hc => (hashText_facts c (h c hc).1 (h c hc).2).1)
theorem HashText.head {t : Bytes} (h : HashText t) (hne : t ≠ []) : cat t 0 ≠ 36 ∧ cat t 0 ≠ 0 := by
  cases t with
  | nil => exact absurd rfl hne
  | cons a l =>
    have := h a (by simp)
    simp only [cat, List.getD_cons_zero]
    exact ⟨this.2, (hashText_facts a this.1 this.2).2⟩

/-- the hash-part clause for one front-end: `H = S ++ dig`, `S` holds at least `n` characters, and any same-length text over
    the hash alphabets in place of `dig` gives `H` again -/
def HashPart (f : Bytes → CRes) (H : Bytes) (n : Nat) : Prop :=
  ∃ S dig, H = S ++ dig ∧ n ≤ S.length ∧ ∀ t, t.length = dig.length → HashText t → f (S ++ t) = .ok H

end Xc

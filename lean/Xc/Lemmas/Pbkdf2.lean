/-
  PBKDF2-HMAC-SHA256 (alg-sha256.c): the c = 1 fast path - both HMAC contexts padded once with `SHA256_Pad_Almost`, then two
  compressions per output block with only the four counter bytes of the inner buffer rewritten - computes exactly RFC 2104 HMAC of
  `salt ‖ INT(i+1)`, hence `PBKDF2_SHA256` as written is RFC 8018 PBKDF2 for every input (C16).
-/
import Xc.Prim.Yescrypt
import Xc.Lemmas.MD
namespace Xc.Yes
open Xc Xc.MD

variable {σ : Type}

theorem lenField_length (A : Alg σ) (n : Nat) : (lenField A n).length = A.lenBytes := by
  unfold lenField leBytes; split <;> simp

theorem kpad_length (A : Alg σ) (k : Bytes) (p : UInt8) : (kpad A k p).length = A.block := by simp [kpad]

theorem toBe32_length (w : UInt32) : (toBe32 w).length = 4 := rfl

/-- a block-sized message is one compression -/
theorem absorb_one (A : Alg σ) (hb : 0 < A.block) (s : σ) (m : Bytes) (h : m.length = A.block) :
    absorb A s m = A.compress s m := by
  rw [absorb_step A s m hb (by omega), List.take_of_length_le (by omega), List.drop_of_length_le (by omega)]
  exact absorb_short A _ [] (by simpa using hb)

/-- appending to a context whose buffer stays short only extends the buffer -/
theorem update_short (A : Alg σ) (hb : 0 < A.block) (c : Ctx σ) (d : Bytes) (h : c.buf.length + d.length < A.block) :
    update A c d = { st := c.st, buf := c.buf ++ d, count := c.count + d.length } := by
  have hz : (c.buf ++ d).length / A.block = 0 := Nat.div_eq_of_lt (by simpa using h)
  simp only [update, hz, Nat.zero_mul, List.take_zero, List.drop_zero]
  rw [absorb_short A c.st [] (by simpa using hb)]

theorem rep_count_mod (A : Alg σ) (_hb : 0 < A.block) (c : Ctx σ) (m : Bytes) (h : Rep A c m) :
    c.count % A.block = c.buf.length ∧ c.buf.length = m.length % A.block := by
  obtain ⟨hc, hs, pre, k, hm, hpre, _⟩ := h
  have : m.length = k * A.block + c.buf.length := by rw [hm, List.length_append, hpre]
  rw [hc, this, Nat.mul_comm, Nat.mul_add_mod, Nat.mod_eq_of_lt hs]
  exact ⟨rfl, rfl⟩

/-- when the 0x80 marker and the length field fit, `Pad_Almost` is the standard padding -/
theorem padAlmost_eq (A : Alg σ) (_hb : 0 < A.block) (buf : Bytes) (count : Nat)
    (hm : count % A.block = buf.length) (hfit : buf.length + 1 + A.lenBytes ≤ A.block) :
    padAlmost A buf count = buf ++ padding A count := by
  have key : A.block - A.lenBytes - 1 - buf.length = zeroPad A.block A.lenBytes count := by
    unfold zeroPad
    have e : (count + 1 + A.lenBytes) % A.block = (buf.length + 1 + A.lenBytes) % A.block := by
      rw [← hm, Nat.add_assoc, Nat.add_mod, Nat.add_assoc (count % A.block), Nat.add_mod (count % A.block)]
      simp
    rw [e]
    by_cases hq : buf.length + 1 + A.lenBytes = A.block
    · rw [hq, Nat.mod_self]; simp; omega
    · have h1 : (buf.length + 1 + A.lenBytes) % A.block = buf.length + 1 + A.lenBytes := Nat.mod_eq_of_lt (by omega)
      rw [h1, Nat.mod_eq_of_lt (by omega)]; omega
  unfold padAlmost padding
  rw [key]; simp

theorem padAlmost_length (A : Alg σ) (buf : Bytes) (count : Nat) (hfit : buf.length + 1 + A.lenBytes ≤ A.block) :
    (padAlmost A buf count).length = A.block := by
  simp only [padAlmost, List.length_append, List.length_cons, List.length_replicate, lenField_length]
  omega

theorem splice0 (A : Alg σ) (x y : Bytes) (c : Nat) (h : x.length = y.length) :
    y ++ (padAlmost A x c).drop x.length = padAlmost A y c := by
  unfold padAlmost
  rw [List.append_assoc, List.drop_append_of_le_length (Nat.le_refl _), List.drop_length, List.nil_append, h, List.append_assoc]

theorem splice (A : Alg σ) (buf x y : Bytes) (c : Nat) (h : x.length = y.length) :
    (padAlmost A (buf ++ x) c).take buf.length ++ y ++ (padAlmost A (buf ++ x) c).drop (buf.length + x.length) =
      padAlmost A (buf ++ y) c := by
  rw [← splice0 A (buf ++ x) (buf ++ y) c (by simp [h])]
  have e : (padAlmost A (buf ++ x) c).take buf.length = buf := by
    unfold padAlmost
    rw [List.append_assoc, List.append_assoc, List.take_append_of_le_length (Nat.le_refl _), List.take_length]
  rw [e, List.length_append]

theorem add_mod_of (n b r k : Nat) (h : n % b = r) (hk : r + k < b) : (n + k) % b = r + k := by
  have := Nat.div_add_mod n b
  rw [← this, h, Nat.add_assoc, Nat.mul_add_mod, Nat.mod_eq_of_lt hk]

/-- **fast path = RFC 2104 HMAC of `salt ‖ INT(i+1)`**, for every password, salt and block index, whenever the
    guard of the C code holds (the salt's last partial block leaves room for the counter, 0x80 and the length) -/
theorem fastBlock_eq (A : Alg σ) (hlen : Nat) (hb : 0 < A.block)
    (hout : ∀ s b, (A.out (A.compress s b)).length = hlen) (hh : hlen + 1 + A.lenBytes ≤ A.block)
    (pw salt : Bytes) (i : Nat) (hg : salt.length % A.block + 4 + 1 + A.lenBytes ≤ A.block) :
    fastBlock A hlen pw salt i = Cores.hmacGen A pw (salt ++ toBe32 (i + 1).toUInt32) := by
  simp only [Cores.hmacGen, Cores.digestOf, List.foldl_cons, List.foldl_nil]
  change _ = final A (update A (update A (init A) (kpad A (hmacKey A pw) 0x5c))
      (final A (update A (update A (init A) (kpad A (hmacKey A pw) 0x36)) (salt ++ toBe32 (i + 1).toUInt32))))
  unfold fastBlock
  simp only []
  generalize hmacKey A pw = key
  generalize hbe : toBe32 (i + 1).toUInt32 = be
  have hbel : be.length = 4 := by rw [← hbe]; rfl
  -- the inner context
  have hR1 := update_rep A hb _ _ (kpad A key 0x36) (init_rep A hb)
  have hR0 := update_rep A hb _ _ salt hR1
  have hRf := update_rep A hb _ _ (salt ++ be) hR1
  generalize update A (init A) (kpad A key 0x36) = c1 at *
  have hRb := update_rep A hb _ _ be hR0
  obtain ⟨hcm, hbl⟩ := rep_count_mod A hb _ _ hR0
  generalize update A c1 salt = ictx0 at *
  have hr : ictx0.buf.length = salt.length % A.block := by
    rw [hbl]; simp [kpad_length]
  have hus := fun d (hd : d.length = 4) => update_short A hb ictx0 d (by rw [hr, hd]; omega)
  have hin : final A (update A c1 (salt ++ be)) = final A (update A ictx0 be) := by
    rw [final_rep A hb _ _ hRf, final_rep A hb _ _ hRb]; simp only [List.nil_append, List.append_assoc]
  rw [hin, hus be hbel, hus [0, 0, 0, 0] rfl]
  simp only [List.length_cons, List.length_nil, hbel, hcm]
  have hfit : (ictx0.buf ++ be).length + 1 + A.lenBytes ≤ A.block := by rw [List.length_append, hbel, hr]; omega
  have hinner : final A { st := ictx0.st, buf := ictx0.buf ++ be, count := ictx0.count + 4 } =
      A.out (A.compress ictx0.st (padAlmost A (ictx0.buf ++ be) (ictx0.count + 4))) := by
    simp only [final]
    rw [← padAlmost_eq A hb _ _ (by rw [List.length_append, hbel]; exact add_mod_of _ _ _ _ hcm (by rw [hr]; omega)) hfit,
      absorb_one A hb _ _ (padAlmost_length A _ _ hfit)]
  rw [hinner]
  have hsp := splice A ictx0.buf [0, 0, 0, 0] be (ictx0.count + 4) (by rw [hbel]; rfl)
  simp only [List.length_cons, List.length_nil] at hsp
  rw [hsp]
  generalize hI : A.out (A.compress ictx0.st (padAlmost A (ictx0.buf ++ be) (ictx0.count + 4))) = inner
  have hil : inner.length = hlen := by rw [← hI]; exact hout _ _
  -- the outer context
  have hO := update_rep A hb _ _ (kpad A key 0x5c) (init_rep A hb)
  obtain ⟨hocm, hobl⟩ := rep_count_mod A hb _ _ hO
  generalize update A (init A) (kpad A key 0x5c) = octx at *
  have hob : octx.buf = [] := by
    have : octx.buf.length = 0 := by rw [hobl]; simp [kpad_length]
    simpa using this
  rw [update_short A hb octx inner (by rw [hob, hil]; simp; omega)]
  simp only [final, hob, List.nil_append, hil]
  have hfit2 : inner.length + 1 + A.lenBytes ≤ A.block := by omega
  rw [← padAlmost_eq A hb _ _ (by rw [hil]; simpa using add_mod_of _ _ 0 hlen (by rw [hocm, hob]; rfl) (by omega)) hfit2,
    absorb_one A hb _ _ (padAlmost_length A _ _ hfit2),
    ← splice0 A (List.replicate hlen 0) inner _ (by simp [hil])]
  simp

theorem sha256_out_length (s : Sha256.State) (b : Bytes) : (Sha256.alg.out (Sha256.alg.compress s b)).length = 32 := by
  have h : (Sha256.compress s b).size = 8 := by
    unfold Sha256.compress
    simp only [Id.run, bind, pure, forIn]
    rfl
  show ((Sha256.compress s b).toList.flatMap toBe32).length = 32
  generalize Sha256.compress s b = a at h
  obtain ⟨l⟩ := a
  simp only [List.size_toArray] at h
  match l, h with
  | [_, _, _, _, _, _, _, _], _ => rfl

theorem flatten_length_const {α} (n : Nat) : ∀ (l : List (List α)), (∀ x ∈ l, x.length = n) → l.flatten.length = n * l.length
  | [], _ => by simp
  | x :: xs, h => by
    simp only [List.flatten_cons, List.length_append, List.length_cons, Nat.mul_add, Nat.mul_one]
    rw [flatten_length_const n xs (fun y hy => h y (List.mem_cons_of_mem _ hy)), h x List.mem_cons_self]; omega

/-- **the code's PBKDF2 is RFC 8018's**, for every password, salt, iteration count and output length -/
theorem pbkdf2Impl_eq (pw salt : Bytes) (c dkLen : Nat) : pbkdf2Impl pw salt c dkLen = pbkdf2Sha256 pw salt c dkLen := by
  unfold pbkdf2Impl
  split
  · rename_i h
    obtain ⟨hc, hd, hs⟩ := h
    simp only []
    split
    · rfl
    rename_i hfb
    subst hc
    unfold pbkdf2Sha256
    have hn : (dkLen + 31) / 32 = dkLen / 32 := by omega
    simp only [hn, Nat.sub_self, List.range_zero, List.foldl_nil, List.flatMap_id]
    have hblk : ∀ i, fastBlock Sha256.alg 32 pw salt i = hmacSha256 pw (salt ++ toBe32 (i + 1).toUInt32) := fun i =>
      fastBlock_eq Sha256.alg 32 (by decide) sha256_out_length (by decide) pw salt i (by show salt.length % 64 + 4 + 1 + 8 ≤ 64; omega)
    simp only [hblk]
    rw [List.take_of_length_le]
    rw [flatten_length_const 32]
    · simp; omega
    · intro x hx
      obtain ⟨i, _, rfl⟩ := List.mem_map.1 hx
      rw [← hblk]; exact sha256_out_length _ _
  · rfl
end Xc.Yes

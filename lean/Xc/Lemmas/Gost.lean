/-
  gost-yescrypt (`$gy$`): shape of the inner `$y$` result, `decode64 ∘ encode64 = id`, bounds on the parameter and salt strings
  (so that the result still passes the `set_size + 45` pre-check), and the round trip of crypt_gost_yescrypt_rn (C01).
-/
import Xc.Lemmas.Scrypt
import Xc.Lemmas.Inj
namespace Xc
open List

theorem walk_chars_le (c : Nat) : ∀ fuel dst start end_ chars bits,
    (yDec32.walk c fuel dst start end_ chars bits).2.2.1 ≤ chars + fuel := by
  intro fuel
  induction fuel with
  | zero => intro dst start end_ chars bits; simp [yDec32.walk]
  | succ f ih =>
    intro dst start end_ chars bits
    simp only [yDec32.walk]
    split
    · have := ih (dst + (end_ + 1 - start) * 2 ^ bits) (end_ + 1) (end_ + 1 + (62 - end_) / 2) (chars + 1) (bits + 6); omega
    · simp

theorem yDec32_tail_valid (s : Bytes) : ∀ (k j bits dst v : Nat), yDec32.tail s k j bits dst = some v →
    ∀ x, j ≤ x → x < j + k → ¬ yAtoi (cat s x) > 63 := by
  intro k
  induction k with
  | zero => intro j bits dst v _ x h1 h2; omega
  | succ k ih =>
    intro j bits dst v h x h1 h2
    simp only [yDec32.tail] at h
    split at h; · cases h
    rename_i hc
    by_cases hx : x = j
    · subst hx; exact hc
    · exact ih _ _ _ _ h x (by omega) (by omega)

/-- a successful `decode64_uint32` consumed between one and nine characters, all of them in the alphabet -/
theorem yDec32_chars {s : Bytes} {i min v n : Nat} (h : yDec32 s i min = some (v, n)) :
    1 ≤ n ∧ n ≤ 9 ∧ ∀ x, i ≤ x → x < i + n → ¬ yAtoi (cat s x) > 63 := by
  unfold yDec32 at h
  simp only [] at h
  split at h; · cases h
  rename_i hc
  generalize hw : yDec32.walk (yAtoi (cat s i)) 8 min 0 47 1 0 = w at h
  obtain ⟨dst, start, chars, bits⟩ := w
  have hch : 1 ≤ chars := by
    have := walk_chars_ge (yAtoi (cat s i)) 8 min 0 47 1 0; rw [hw] at this; exact this
  have hch9 : chars ≤ 9 := by
    have := walk_chars_le (yAtoi (cat s i)) 8 min 0 47 1 0; rw [hw] at this; exact this
  simp only [] at h
  split at h; · cases h
  rename_i v0 hv0
  simp only [Option.some.injEq, Prod.mk.injEq] at h
  obtain ⟨hv, hn⟩ := h
  subst hn
  refine ⟨hch, hch9, fun x h1 h2 => ?_⟩
  by_cases hx : x = i
  · subst hx; exact hc
  · exact yDec32_tail_valid s _ _ _ _ _ hv0 x (by omega) (by omega)

theorem yOpt_chars {s : Bytes} {cond : Bool} {i min dflt v j : Nat} (h : yOpt s cond i min dflt = some (v, j)) :
    i ≤ j ∧ j ≤ i + 9 ∧ ∀ x, i ≤ x → x < j → ¬ yAtoi (cat s x) > 63 := by
  unfold yOpt at h
  cases cond with
  | false =>
    simp only [Bool.false_eq_true, if_false, Option.some.injEq, Prod.mk.injEq] at h
    obtain ⟨rfl, rfl⟩ := h
    exact ⟨Nat.le_refl _, by omega, fun x h1 h2 => by omega⟩
  | true =>
    simp only [if_true, Option.map_eq_some_iff] at h
    obtain ⟨⟨v0, n0⟩, hd, he⟩ := h
    simp only [Prod.mk.injEq] at he
    obtain ⟨rfl, rfl⟩ := he
    obtain ⟨a, b, c⟩ := yDec32_chars hd
    exact ⟨by omega, by omega, c⟩

/-- `$y$` parameters: they end with `$` at `pl - 1`, everything between the tag and that `$` is in the alphabet, and they are short -/
theorem yParamsY_chars {s : Bytes} {P : YParams} {pl : Nat} (h : yParams s = some (P, pl)) (h7 : cat s 1 ≠ 55) :
    4 ≤ pl ∧ pl ≤ 76 ∧ cat s (pl - 1) = 36 ∧ ∀ x, 3 ≤ x → x < pl - 1 → ¬ yAtoi (cat s x) > 63 := by
  unfold yParams at h
  dsimp only at h
  split at h; · cases h
  rename_i hpre
  try rw [if_neg h7] at h
  split at h; · cases h
  rename_i flavor n1 hf
  split at h; · cases h
  rename_i flags hflags
  split at h; · cases h
  rename_i nlog n2 hn
  split at h; · cases h
  rename_i hnl
  split at h; · cases h
  rename_i r n3 hr
  obtain ⟨a1, b1, c1⟩ := yDec32_chars hf
  obtain ⟨a2, b2, c2⟩ := yDec32_chars hn
  obtain ⟨a3, b3, c3⟩ := yDec32_chars hr
  split at h
  · rename_i h36
    simp only [Option.some.injEq, Prod.mk.injEq] at h
    obtain ⟨hP, hpl⟩ := h
    subst hpl
    refine ⟨by omega, by omega, by simpa using h36, fun x h1 h2 => ?_⟩
    by_cases q1 : x < 3 + n1
    · exact c1 x h1 q1
    · by_cases q2 : x < 3 + n1 + n2
      · exact c2 x (by omega) q2
      · exact c3 x (by omega) (by omega)
  · rename_i hn36
    split at h; · cases h
    rename_i hv n4 hh
    split at h; · cases h
    rename_i pp i5 hp5
    split at h; · cases h
    rename_i tt i6 hp6
    split at h; · cases h
    rename_i gg i7 hp7
    split at h; · cases h
    rename_i nrom i8 hp8
    split at h; · cases h
    rename_i hnr
    split at h; · cases h
    rename_i h36
    simp only [Option.some.injEq, Prod.mk.injEq] at h
    obtain ⟨hP, hpl⟩ := h
    subst hpl
    simp only [ne_eq, Decidable.not_not] at h36
    obtain ⟨a4, b4, c4⟩ := yDec32_chars hh
    obtain ⟨a5, b5, c5⟩ := yOpt_chars hp5
    obtain ⟨a6, b6, c6⟩ := yOpt_chars hp6
    obtain ⟨a7, b7, c7⟩ := yOpt_chars hp7
    obtain ⟨a8, b8, c8⟩ := yOpt_chars hp8
    refine ⟨by omega, by omega, by simpa using h36, fun x h1 h2 => ?_⟩
    by_cases q1 : x < 3 + n1
    · exact c1 x h1 q1
    · by_cases q2 : x < 3 + n1 + n2
      · exact c2 x (by omega) q2
      · by_cases q3 : x < 3 + n1 + n2 + n3
        · exact c3 x (by omega) q3
        · by_cases q4 : x < 3 + n1 + n2 + n3 + n4
          · exact c4 x (by omega) q4
          · by_cases q5 : x < i5
            · exact c5 x (by omega) q5
            · by_cases q6 : x < i6
              · exact c6 x (by omega) q6
              · by_cases q7 : x < i7
                · exact c7 x (by omega) q7
                · exact c8 x (by omega) (by omega)

theorem yAtoi_a64 : ∀ k : Fin 64, yAtoi (a64 k.val) = k.val := by decide
theorem yAtoi_a64' (n : Nat) : yAtoi (a64 n) = n % 64 := by
  have := yAtoi_a64 ⟨n % 64, Nat.mod_lt _ (by decide)⟩
  simpa [a64] using this

theorem enc64Group1 (a : UInt8) : enc64Group [a] = [a64 a.toNat, a64 (a.toNat / 64)] := by
  simp [enc64Group, rbAt, List.range_succ]
theorem enc64Group2 (a b : UInt8) : enc64Group [a, b] =
    [a64 (a.toNat + b.toNat * 256), a64 ((a.toNat + b.toNat * 256) / 64), a64 ((a.toNat + b.toNat * 256) / 4096)] := by
  simp [enc64Group, rbAt, List.range_succ]
theorem enc64Group3 (a b c : UInt8) : enc64Group [a, b, c] =
    [a64 (a.toNat + b.toNat * 256 + c.toNat * 65536), a64 ((a.toNat + b.toNat * 256 + c.toNat * 65536) / 64),
     a64 ((a.toNat + b.toNat * 256 + c.toNat * 65536) / 4096), a64 ((a.toNat + b.toNat * 256 + c.toNat * 65536) / 262144)] := by
  simp [enc64Group, rbAt, List.range_succ]

theorem u8_of_nat (a : UInt8) (n : Nat) (h : n = a.toNat) : n.toUInt8 = a := by
  subst h; simp

/-- `decode64 ∘ encode64 = id` (the walk over the groups) -/
theorem yDecode64_go_encode64 : ∀ (d : Bytes) (fuel : Nat), (encode64 d).length < fuel → yDecode64.go fuel (encode64 d) = some d
  | [], fuel, h => by
    cases fuel with
    | zero => simp at h
    | succ f => simp [encode64, yDecode64.go]
  | [a], fuel, h => by
    cases fuel with
    | zero => simp at h
    | succ f =>
      have ha := a.toNat_lt
      simp only [encode64, enc64Group1, yDecode64.go, yAtoi_a64']
      have e : a.toNat % 64 + a.toNat / 64 % 64 * 64 = a.toNat := by omega
      rw [e]
      have : a.toNat / 256 = 0 := by omega
      simp only [this, ne_eq, not_true_eq_false, if_false, Option.some.injEq, List.cons.injEq, and_true]
      exact u8_of_nat a _ (by omega)
  | [a, b], fuel, h => by
    cases fuel with
    | zero => simp at h
    | succ f =>
      have ha := a.toNat_lt; have hb := b.toNat_lt
      simp only [encode64, enc64Group2, yDecode64.go, yAtoi_a64']
      generalize hv : a.toNat + b.toNat * 256 = v
      have e : v % 64 + v / 64 % 64 * 64 + v / 4096 % 64 * 4096 = v := by omega
      rw [e]
      have : v / 65536 = 0 := by omega
      simp only [this, ne_eq, not_true_eq_false, if_false, Option.some.injEq, List.cons.injEq, and_true]
      exact ⟨u8_of_nat a _ (by omega), u8_of_nat b _ (by omega)⟩
  | a :: b :: c :: rest, fuel, h => by
    cases fuel with
    | zero => simp at h
    | succ f =>
      have ha := a.toNat_lt; have hb := b.toNat_lt; have hc := c.toNat_lt
      simp only [encode64, enc64Group3, List.cons_append, List.nil_append, yDecode64.go, yAtoi_a64']
      have hr : (encode64 rest).length < f := by
        simp only [encode64, List.length_append, enc64Group_length, List.length_cons, List.length_nil] at h; omega
      rw [yDecode64_go_encode64 rest f hr]
      generalize hv : a.toNat + b.toNat * 256 + c.toNat * 65536 = v
      have e : v % 64 + v / 64 % 64 * 64 + v / 4096 % 64 * 4096 + v / 262144 % 64 * 262144 = v := by omega
      rw [e]
      simp only [Option.map_some, Option.some.injEq, List.cons.injEq, and_true]
      exact ⟨u8_of_nat a _ (by omega), u8_of_nat b _ (by omega), u8_of_nat c _ (by omega)⟩

theorem encode64_yvalid : ∀ d : Bytes, ∀ c ∈ encode64 d, ¬ yAtoi c > 63
  | [], c, h => by simp [encode64] at h
  | [_], c, h => by
    simp only [encode64, enc64Group, List.mem_map] at h
    obtain ⟨i, _, rfl⟩ := h; rw [yAtoi_a64']; omega
  | [_, _], c, h => by
    simp only [encode64, enc64Group, List.mem_map] at h
    obtain ⟨i, _, rfl⟩ := h; rw [yAtoi_a64']; omega
  | _ :: _ :: _ :: rest, c, h => by
    simp only [encode64, List.mem_append] at h
    rcases h with h | h
    · simp only [enc64Group, List.mem_map] at h
      obtain ⟨i, _, rfl⟩ := h; rw [yAtoi_a64']; omega
    · exact encode64_yvalid rest c h

/-- **`decode64 (encode64 d) = d`** whenever `d` fits the destination -/
theorem yDecode64_encode64 (d : Bytes) (m : Nat) : yDecode64 (encode64 d) m = if d.length > m then none else some d := by
  unfold yDecode64
  have hany : (encode64 d).any (fun c => decide (yAtoi c > 63)) = false := by
    rw [List.any_eq_false]; intro c hc; simpa using encode64_yvalid d c hc
  rw [hany]
  simp only [Bool.false_eq_true, if_false]
  rw [yDecode64_go_encode64 d _ (Nat.lt_succ_self _)]

theorem yDecode64_go_srclen : ∀ (fuel : Nat) (l out : Bytes), yDecode64.go fuel l = some out → 3 * l.length ≤ 4 * out.length + 4
  | 0, _, _, h => by simp [yDecode64.go] at h
  | f + 1, [], out, h => by simp
  | f + 1, [_], out, h => by simp [yDecode64.go] at h
  | f + 1, [a, b], out, h => by
    simp only [yDecode64.go] at h
    split at h; · cases h
    cases h; simp
  | f + 1, [a, b, c], out, h => by
    simp only [yDecode64.go] at h
    split at h; · cases h
    cases h; simp
  | f + 1, a :: b :: c :: d :: rest, out, h => by
    simp only [yDecode64.go, Option.map_eq_some_iff] at h
    obtain ⟨r, hr, e⟩ := h
    have := yDecode64_go_srclen f rest r hr
    subst e; simp only [List.length_cons]; omega

/-- what a successful `decode64` says about its source: in the alphabet, and not longer than the destination allows -/
theorem yDecode64_src {src out : Bytes} {m : Nat} (h : yDecode64 src m = some out) :
    (∀ c ∈ src, ¬ yAtoi c > 63) ∧ 3 * src.length ≤ 4 * m + 4 := by
  unfold yDecode64 at h
  split at h; · cases h
  rename_i hany
  split at h; · cases h
  rename_i o ho
  split at h; · cases h
  rename_i hlen
  refine ⟨fun c hc hbad => hany ?_, ?_⟩
  · rw [List.any_eq_true]; exact ⟨c, hc, by simpa using hbad⟩
  · have := yDecode64_go_srclen _ _ _ ho; omega

theorem strchr_spec : ∀ (l : Bytes) (c : UInt8) (i : Nat), i < l.length → cat l i = c → (∀ j, j < i → cat l j ≠ c) → strchr l c = some i := by
  intro l c i hi hc hb
  have key : ∀ (l : Bytes) (i : Nat), i < l.length → cat l i = c → (∀ j, j < i → cat l j ≠ c) → (l.takeWhile (· != c)).length = i := by
    intro l
    induction l with
    | nil => intro i hi; simp at hi
    | cons x xs ih =>
      intro i hi hc hb
      cases i with
      | zero =>
        simp only [cat, List.getD_cons_zero] at hc
        subst hc; simp
      | succ i =>
        have h0 := hb 0 (by omega)
        simp only [cat, List.getD_cons_zero] at h0
        have : (x != c) = true := by simpa using h0
        rw [List.takeWhile_cons, if_pos this, List.length_cons]
        have := ih i (by simpa using hi) (by simpa [cat] using hc) (fun j hj => by
          have := hb (j + 1) (by omega); simpa [cat] using this)
        omega
  unfold strchr
  simp only []
  rw [key l i hi hc hb, if_pos hi]

theorem yAtoi_36 : yAtoi 36 = 64 := by decide

/-- the shape of a `$y$` result: `pre ++ "$" ++ encode64 hd`, `pre` = tag, parameters ending in `$` at `pl-1`, salt string of
    `sl` characters; no other `$` after the tag -/
def YShape (y : Bytes) (pl sl : Nat) (hd : Bytes) : Prop :=
  ∃ pre, y = pre ++ 36 :: encode64 hd ∧ pre.length = pl + sl ∧ 4 ≤ pl ∧ cat pre (pl - 1) = 36 ∧
    (∀ x, 3 ≤ x → x < pl - 1 → cat pre x ≠ 36) ∧ (∀ x, pl ≤ x → x < pl + sl → cat pre x ≠ 36)

theorem yFinish_Y_salt {s : Bytes} {n pl : Nat} {P : YParams} {Q : YParsed} (h : yFinish s n P pl = some Q) (hy : cat s 1 ≠ 55) :
    yDecode64 ((s.drop pl).take Q.saltstrlen) 64 = some Q.salt ∧ pl + Q.saltstrlen + 1 + Gen.YESCRYPT_HASH_LEN + 1 ≤ n := by
  rw [yFinish_eq'] at h
  generalize ySl s pl = sl at h
  unfold yFin at h
  rw [if_neg hy] at h
  split at h; · cases h
  rename_i salt hsalt
  split at h; · cases h
  rename_i hneed
  simp only [Option.some.injEq] at h
  subst h
  exact ⟨hsalt, by dsimp only; omega⟩

/-- `yescrypt_r` on a `$y$` setting: shape of the result, bounds, and re-reading -/
theorem yescryptR_Y_struct {D : Digests} {p s out : Bytes} {n : Nat} (h : yescryptR D p s n = some out) (hy : cat s 1 ≠ 55) :
    ∃ Q hd, parseYescrypt s n = some Q ∧ D.yescrypt Q.params Q.salt p = some hd ∧
      Q.prefixlen ≤ 76 ∧ Q.saltstrlen ≤ 86 ∧ Q.prefixlen + Q.saltstrlen ≤ s.length ∧
      out = s.take (Q.prefixlen + Q.saltstrlen) ++ 36 :: encode64 hd ∧ YShape out Q.prefixlen Q.saltstrlen hd ∧
      ∀ tail, (36 : UInt8) ∉ tail → yescryptR D p (s.take (Q.prefixlen + Q.saltstrlen) ++ 36 :: tail) n = some out := by
  unfold yescryptR at h
  split at h; · cases h
  rename_i Q hQ
  split at h; · cases h
  rename_i hd hD
  dsimp only at h
  split at h; · cases h
  rename_i hfit
  simp only [Option.some.injEq] at h
  have hQ0 := hQ
  unfold parseYescrypt at hQ
  split at hQ; · cases hQ
  rename_i P pl hP
  obtain ⟨hpl3, hpll, hloc⟩ := yParams_local hP
  obtain ⟨c4, c76, c36, cval⟩ := yParamsY_chars hP hy
  obtain ⟨qa, qb, qc⟩ := yFinish_refeed hQ ⟨by omega, hpll⟩ [] (by simp)
  obtain ⟨hsalt, _⟩ := yFinish_Y_salt hQ hy
  obtain ⟨sval, slen⟩ := yDecode64_src hsalt
  have hsl : Q.saltstrlen ≤ 86 := by
    have : ((s.drop pl).take Q.saltstrlen).length = Q.saltstrlen := by simp; omega
    rw [this] at slen; omega
  have hout : out = s.take (pl + Q.saltstrlen) ++ 36 :: encode64 hd := by rw [← h, qa]; simp
  refine ⟨Q, hd, hQ0, hD, ?_⟩
  rw [qa]
  refine ⟨c76, hsl, qb, hout, ?_, ?_⟩
  · refine ⟨s.take (pl + Q.saltstrlen), hout, by simp; omega, c4, ?_, ?_, ?_⟩
    · have := cat_take_append s [] (pl + Q.saltstrlen) (pl - 1) (by omega) qb
      simp only [List.append_nil] at this; rw [this]; exact c36
    · intro x h1 h2
      have := cat_take_append s [] (pl + Q.saltstrlen) x (by omega) qb
      simp only [List.append_nil] at this; rw [this]
      intro e; have := cval x h1 h2; rw [e, yAtoi_36] at this; omega
    · intro x h1 h2
      have := cat_take_append s [] (pl + Q.saltstrlen) x (by omega) qb
      simp only [List.append_nil] at this; rw [this]
      intro e
      have hmem : cat s x ∈ (s.drop pl).take Q.saltstrlen := by
        have hx : x < s.length := by omega
        have : cat s x = ((s.drop pl).take Q.saltstrlen)[x - pl]'(by simp; omega) := by
          simp only [cat, List.getD_eq_getElem?_getD, List.getElem_take, List.getElem_drop]
          rw [List.getElem?_eq_getElem hx]; simp; congr 1; omega
        rw [this]; exact List.getElem_mem _
      have := sval _ hmem; rw [e, yAtoi_36] at this; omega
  · intro tail ht
    obtain ⟨a, b, c⟩ := yFinish_refeed hQ ⟨by omega, hpll⟩ tail ht
    unfold yescryptR parseYescrypt
    have hag : ∀ i, i < pl → cat (s.take (pl + Q.saltstrlen) ++ 36 :: tail) i = cat s i :=
      fun i hi => cat_take_append s _ (pl + Q.saltstrlen) i (by omega) b
    rw [hloc _ hag]
    dsimp only
    rw [c]
    simp only [hD]
    have htake : (s.take (pl + Q.saltstrlen) ++ 36 :: tail).take (Q.prefixlen + Q.saltstrlen) = s.take (pl + Q.saltstrlen) := by
      rw [a]; exact List.take_left' (by simp; omega)
    rw [htake]
    have hlen2 : ¬ (s.take (pl + Q.saltstrlen) ++ 36 :: encode64 hd).length ≥ n := by
      rw [a] at hfit; simpa using hfit
    simp only [List.append_assoc, List.singleton_append, if_neg hlen2]
    rw [hout]

/-- `crypt_gost_yescrypt_rn` evaluated on a setting whose inner `$y$` call returned `y` of known shape -/
theorem gost_eval (D : Digests) (p S y : Bytes) (pl sl : Nat) (hd : Bytes)
    (hlen : ¬ Gen.CRYPT_OUTPUT_SIZE < S.length + 1 + 43 + 1) (hpre : hasPrefix S [36, 103, 121, 36] = true)
    (hy : yescryptR D p ([36, 121, 36] ++ S.drop 4) (Gen.CRYPT_OUTPUT_SIZE - 1) = some y) (hs : YShape y pl sl hd) :
    cryptGost D p S = if hd.length = 32 then
        .ok ([36, 103] ++ (y.take (pl + sl + 1)).drop 1 ++ encode64 (D.gostOuter p (S.take (pl + sl + 1)) hd))
      else .error .EINVAL := by
  obtain ⟨pre, e, hl, h4, c36, cp, cs⟩ := hs
  have ylen : y.length = pl + sl + 1 + (encode64 hd).length := by rw [e]; simp; omega
  have ycat : ∀ x, x < pl + sl → cat y x = cat pre x := by
    intro x hx
    have := cat_take_append pre (36 :: encode64 hd) (pl + sl) x hx (by omega)
    rw [List.take_of_length_le (by omega)] at this; rw [e]; exact this
  have ycat36 : cat y (pl + sl) = 36 := by
    rw [e]; simp [cat, List.getD_eq_getElem?_getD, List.getElem?_append_right, hl]
  have k1 : strchr (y.drop 3) 36 = some (pl - 4) := by
    apply strchr_spec
    · simp; omega
    · rw [cat_drop, ycat _ (by omega)]; have : 3 + (pl - 4) = pl - 1 := by omega
      rw [this]; exact c36
    · intro j hj; rw [cat_drop, ycat _ (by omega)]; exact cp _ (by omega) (by omega)
  have k2 : strchr (y.drop (3 + (pl - 4) + 1)) 36 = some sl := by
    have : 3 + (pl - 4) + 1 = pl := by omega
    rw [this]
    apply strchr_spec
    · simp; omega
    · rw [cat_drop]; exact ycat36
    · intro j hj; rw [cat_drop, ycat _ (by omega)]; exact cs _ (by omega) (by omega)
  have hoff : 3 + (pl - 4) + 1 + sl + 1 = pl + sl + 1 := by omega
  have ydrop : y.drop (pl + sl + 1) = encode64 hd := by
    rw [e, List.drop_append, List.drop_of_length_le (by omega), hl]
    have : pl + sl + 1 - (pl + sl) = 1 := by omega
    rw [this]; rfl
  unfold cryptGost
  rw [if_neg hlen]
  simp only [hpre, not_true_eq_false, if_false, hy, k1, k2, hoff, ydrop, yDecode64_encode64]
  by_cases h32 : hd.length = 32
  · have : ¬ hd.length > 32 := by omega
    rw [if_neg this, if_pos h32]
    dsimp only
    rw [if_neg (by simpa using h32)]
  · rw [if_neg h32]
    by_cases hgt : hd.length > 32
    · rw [if_pos hgt]
    · rw [if_neg hgt]
      dsimp only
      rw [if_pos (by simpa using h32)]

theorem hasPrefix_split {s pfx : Bytes} (h : hasPrefix s pfx = true) : s = pfx ++ s.drop pfx.length := by
  unfold hasPrefix at h
  rw [List.isPrefixOf_iff_prefix] at h
  obtain ⟨t, rfl⟩ := h
  simp

/-- gost-yescrypt: the round trip (C01) -/
theorem cryptGost_fix (D : Digests) (hD : D.WF) (p S H : Bytes) (h : cryptGost D p S = .ok H) : cryptGost D p H = .ok H := by
  have h0 := h
  unfold cryptGost at h0
  split at h0; · cases h0
  rename_i hlen
  split at h0; · cases h0
  rename_i hpre
  simp only [Bool.not_eq_true, Bool.not_eq_false] at hpre
  dsimp only at h0
  split at h0; · cases h0
  rename_i y hy
  clear h0
  have hy1 : cat ([36, 121, 36] ++ S.drop 4) 1 ≠ 55 := by simp [cat]
  obtain ⟨Q, hd, _, _, hpl, hsl, hk, hout, hshape, hrefeed⟩ := yescryptR_Y_struct hy hy1
  generalize Q.prefixlen = pl at *
  generalize Q.saltstrlen = sl at *
  have hev := gost_eval D p S y pl sl hd hlen hpre hy hshape
  rw [hev] at h
  split at h
  case isFalse => cases h
  rename_i h32
  simp only [Except.ok.injEq] at h
  obtain ⟨pre, e, hl, h4, c36, cp, cs⟩ := hshape
  -- the pieces of H
  have hS := hasPrefix_split hpre
  simp only [List.length_cons, List.length_nil] at hS
  generalize hrest : S.drop 4 = rest at *
  have hkr : pl + sl - 3 ≤ rest.length := by simp at hk; omega
  have hpre' : ([36, 121, 36] ++ rest).take (pl + sl) = [36, 121, 36] ++ rest.take (pl + sl - 3) := by
    rw [List.take_append, List.take_of_length_le (by simp; omega)]; rfl
  have hrl : (rest.take (pl + sl - 3)).length = pl + sl - 3 := by simp; omega
  have ytake : y.take (pl + sl + 1) = [36, 121, 36] ++ rest.take (pl + sl - 3) ++ [36] := by
    rw [hout, hpre', List.take_append, List.take_of_length_le (by simp; omega)]
    have : pl + sl + 1 - ([36, 121, 36] ++ rest.take (pl + sl - 3)).length = 1 := by simp; omega
    rw [this]; rfl
  generalize hg : D.gostOuter p (S.take (pl + sl + 1)) hd = g at h
  have hH : H = [36, 103, 121, 36] ++ rest.take (pl + sl - 3) ++ 36 :: encode64 g := by
    rw [← h, ytake]; simp
  have hgl : (encode64 g).length = 43 := by
    rw [encode64_length, ← hg, hD.gost]; rfl
  have hAl : ([36, 103, 121, 36] ++ rest.take (pl + sl - 3)).length = pl + sl + 1 := by
    rw [List.length_append, hrl]; simp; omega
  have hHtake : H.take (pl + sl + 1) = S.take (pl + sl + 1) := by
    rw [hH, List.take_left' hAl]
    have h4l : ([36, 103, 121, 36] : Bytes).length = 4 := rfl
    rw [hS, List.take_append, List.take_of_length_le (l := [36, 103, 121, 36]) (by rw [h4l]; omega), h4l]
    have : pl + sl + 1 - 4 = pl + sl - 3 := by omega
    rw [this]
  have hHlen : ¬ Gen.CRYPT_OUTPUT_SIZE < H.length + 1 + 43 + 1 := by
    rw [hH, List.length_append, hAl, List.length_cons, hgl]
    have : Gen.CRYPT_OUTPUT_SIZE = 384 := rfl
    omega
  have hHpre : hasPrefix H [36, 103, 121, 36] = true := by rw [hH]; simp [hasPrefix]
  have hHdrop : [36, 121, 36] ++ H.drop 4 = ([36, 121, 36] ++ rest).take (pl + sl) ++ 36 :: encode64 g := by
    rw [hH, hpre']; simp
  have hyH : yescryptR D p ([36, 121, 36] ++ H.drop 4) (Gen.CRYPT_OUTPUT_SIZE - 1) = some y := by
    rw [hHdrop]; exact hrefeed _ (encode64_no36 g)
  have hevH := gost_eval D p H y pl sl hd hHlen hHpre hyH ⟨pre, e, hl, h4, c36, cp, cs⟩
  rw [hevH, if_pos h32, hHtake, hg, h]
end Xc

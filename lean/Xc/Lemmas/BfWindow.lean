/-
  bcrypt: `BF_set_key` reads at most 72 bytes of the phrase (C03, the documented window).
-/
import Xc.Prim.Blowfish
namespace Xc.Bf
open Xc

theorem keyStream_congr (A B : Bytes) (hag : ∀ i, i < 72 → cat A i = cat B i) (hA : 72 < A.length) (hB : 72 < B.length) :
    ∀ k pos, pos + k ≤ 72 → keyStream A k pos = keyStream B k pos := by
  intro k
  induction k with
  | zero => intro pos _; rfl
  | succ k ih =>
    intro pos h
    simp only [keyStream]
    rw [hag pos (by omega)]
    by_cases hc : cat B pos = 0
    · simp only [hc, if_true]
      have a : ¬ 0 ≥ A.length := by omega
      have b : ¬ 0 ≥ B.length := by omega
      rw [if_neg a, if_neg b, ih 0 (by omega)]
    · simp only [hc, if_false]
      have a : ¬ pos + 1 ≥ A.length := by omega
      have b : ¬ pos + 1 ≥ B.length := by omega
      rw [if_neg a, if_neg b, ih (pos + 1) (by omega)]

/-- `BF_set_key` reads at most the first 72 bytes of the phrase -/
theorem setKey_window (p t t' : Bytes) (flags : Nat) (h : p.length = 72) : setKey (p ++ t) flags = setKey (p ++ t') flags := by
  unfold setKey
  rw [keyStream_congr (p ++ t ++ [0]) (p ++ t' ++ [0]) ?_ (by simp; omega) (by simp; omega) 72 0 (by omega)]
  intro i hi
  have hi' : i < p.length := by omega
  simp [cat, List.getD, List.getElem?_append_left hi']

theorem bcryptCore_window (flags cost : Nat) (salt p t t' : Bytes) (h : p.length = 72) :
    bcryptCore flags cost salt (p ++ t) = bcryptCore flags cost salt (p ++ t') := by
  unfold bcryptCore bcryptRaw
  rw [setKey_window p t t' flags h]
end Xc.Bf

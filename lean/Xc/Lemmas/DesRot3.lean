/- kernel-free bit-vector identities: rotating a 28-bit half by the cumulative shifts of the DES key schedule (for Lemmas/DesKs.lean); four modules so that they build in parallel -/
import Xc.Spec.DesTables
import Xc.Lemmas.DesPerm
namespace Xc.Des
open Xc Xc.Spec.DesT

set_option maxRecDepth 100000 in
theorem rot_15 (k : UInt32) : (((k &&& 0x0fffffff) <<< 15) ||| ((k &&& 0x0fffffff) >>> 13)) &&& 0x0fffffff = rotl28 (k &&& 0x0fffffff) 15 := by
  have ht : rotTbl 15 = [16, 17, 18, 19, 20, 21, 22, 23, 24, 25, 26, 27, 28, 1, 2, 3, 4, 5, 6, 7, 8, 9, 10, 11, 12, 13, 14, 15] := by decide
  simp only [rotl28, ht, gather, bitAt, List.length_cons, List.length_nil, List.range, List.range.loop, List.foldl, List.getD_cons_zero, List.getD_cons_succ]
  apply UInt32.eq_of_toBitVec_eq
  ext i hi
  rcases cases32 hi with rfl | rfl | rfl | rfl | rfl | rfl | rfl | rfl | rfl | rfl | rfl | rfl | rfl | rfl | rfl | rfl | rfl | rfl | rfl | rfl |
    rfl | rfl | rfl | rfl | rfl | rfl | rfl | rfl | rfl | rfl | rfl | rfl <;> simp

set_option maxRecDepth 100000 in
theorem rot_17 (k : UInt32) : (((k &&& 0x0fffffff) <<< 17) ||| ((k &&& 0x0fffffff) >>> 11)) &&& 0x0fffffff = rotl28 (k &&& 0x0fffffff) 17 := by
  have ht : rotTbl 17 = [18, 19, 20, 21, 22, 23, 24, 25, 26, 27, 28, 1, 2, 3, 4, 5, 6, 7, 8, 9, 10, 11, 12, 13, 14, 15, 16, 17] := by decide
  simp only [rotl28, ht, gather, bitAt, List.length_cons, List.length_nil, List.range, List.range.loop, List.foldl, List.getD_cons_zero, List.getD_cons_succ]
  apply UInt32.eq_of_toBitVec_eq
  ext i hi
  rcases cases32 hi with rfl | rfl | rfl | rfl | rfl | rfl | rfl | rfl | rfl | rfl | rfl | rfl | rfl | rfl | rfl | rfl | rfl | rfl | rfl | rfl |
    rfl | rfl | rfl | rfl | rfl | rfl | rfl | rfl | rfl | rfl | rfl | rfl <;> simp

set_option maxRecDepth 100000 in
theorem rot_19 (k : UInt32) : (((k &&& 0x0fffffff) <<< 19) ||| ((k &&& 0x0fffffff) >>> 9)) &&& 0x0fffffff = rotl28 (k &&& 0x0fffffff) 19 := by
  have ht : rotTbl 19 = [20, 21, 22, 23, 24, 25, 26, 27, 28, 1, 2, 3, 4, 5, 6, 7, 8, 9, 10, 11, 12, 13, 14, 15, 16, 17, 18, 19] := by decide
  simp only [rotl28, ht, gather, bitAt, List.length_cons, List.length_nil, List.range, List.range.loop, List.foldl, List.getD_cons_zero, List.getD_cons_succ]
  apply UInt32.eq_of_toBitVec_eq
  ext i hi
  rcases cases32 hi with rfl | rfl | rfl | rfl | rfl | rfl | rfl | rfl | rfl | rfl | rfl | rfl | rfl | rfl | rfl | rfl | rfl | rfl | rfl | rfl |
    rfl | rfl | rfl | rfl | rfl | rfl | rfl | rfl | rfl | rfl | rfl | rfl <;> simp

set_option maxRecDepth 100000 in
theorem rot_21 (k : UInt32) : (((k &&& 0x0fffffff) <<< 21) ||| ((k &&& 0x0fffffff) >>> 7)) &&& 0x0fffffff = rotl28 (k &&& 0x0fffffff) 21 := by
  have ht : rotTbl 21 = [22, 23, 24, 25, 26, 27, 28, 1, 2, 3, 4, 5, 6, 7, 8, 9, 10, 11, 12, 13, 14, 15, 16, 17, 18, 19, 20, 21] := by decide
  simp only [rotl28, ht, gather, bitAt, List.length_cons, List.length_nil, List.range, List.range.loop, List.foldl, List.getD_cons_zero, List.getD_cons_succ]
  apply UInt32.eq_of_toBitVec_eq
  ext i hi
  rcases cases32 hi with rfl | rfl | rfl | rfl | rfl | rfl | rfl | rfl | rfl | rfl | rfl | rfl | rfl | rfl | rfl | rfl | rfl | rfl | rfl | rfl |
    rfl | rfl | rfl | rfl | rfl | rfl | rfl | rfl | rfl | rfl | rfl | rfl <;> simp

end Xc.Des

/-
  C13: every gensalt writer is monotone in the output size, a smaller buffer receives a leading part of what a larger one
  receives, and CRYPT_GENSALT_OUTPUT_SIZE bytes are enough for up to 64 random bytes.
-/
import Xc.Lemmas.Accept2
namespace Xc
open List

/-- what "monotone in output_size, and the smaller buffer receives a leading part" means for one writer -/
def WMono (w : Nat → WOut) : Prop :=
  ∀ o o' S e, w o = .ok S e → o ≤ o' → ∃ S' e', w o' = .ok S' e' ∧ S <+: S'

theorem mono_des (count : Nat) (rb : Bytes) (n : Nat) : WMono (gensaltDes count rb n) := by
  intro o o' S e h ho
  unfold gensaltDes at h ⊢
  split at h; · cases h
  split at h; · cases h
  rename_i h1 h2
  simp only [WOut.ok.injEq] at h
  rw [if_neg (by omega), if_neg h2]
  exact ⟨_, _, rfl, by rw [h.1]; exact List.prefix_refl _⟩

theorem des_text {count : Nat} {rb : Bytes} {n o : Nat} {s : Bytes} {e : Nat} (h : gensaltDes count rb n o = .ok s e) :
    s = [a64 (rbAt rb 0), a64 (rbAt rb 1)] := by
  unfold gensaltDes at h
  split at h; · cases h
  split at h; · cases h
  simp only [WOut.ok.injEq] at h
  exact h.1.symm

theorem mono_big (d : Bool) (count : Nat) (rb : Bytes) (n : Nat) : WMono (gensaltBig d count rb n) := by
  intro o o' S e h ho
  unfold gensaltBig at h ⊢
  cases d with
  | true => simp only [if_true] at h ⊢; exact mono_des count rb n o o' S e h ho
  | false =>
    simp only [Bool.false_eq_true, if_false] at h ⊢
    split at h; · cases h
    rw [if_neg (by omega)]
    split at h
    · rename_i s ext hs
      simp only [WOut.ok.injEq] at h
      obtain ⟨s', e', hs', hp⟩ := mono_des count rb n o o' s ext hs ho
      rw [hs']
      -- the DES writer's text does not depend on the size at all
      have : s' = s := by rw [des_text hs, des_text hs']
      subst this
      exact ⟨_, _, rfl, by rw [h.1]; exact List.prefix_refl _⟩
    · rename_i x hne
      exact absurd h (hne S e)

theorem mono_bsdi (count : Nat) (rb : Bytes) (n : Nat) : WMono (gensaltBsdi count rb n) := by
  intro o o' S e h ho
  unfold gensaltBsdi at h ⊢
  split at h; · cases h
  split at h; · cases h
  rename_i h1 h2
  simp only [WOut.ok.injEq] at h
  rw [if_neg (by omega), if_neg h2]
  exact ⟨_, _, rfl, by rw [h.1]; exact List.prefix_refl _⟩

theorem mono_nt (count : Nat) : WMono (gensaltNt count) := by
  intro o o' S e h ho
  unfold gensaltNt at h ⊢
  split at h; · cases h
  split at h; · cases h
  rename_i h1 h2
  simp only [WOut.ok.injEq] at h
  rw [if_neg (by omega), if_neg h2]
  exact ⟨_, _, rfl, by rw [h.1]; exact List.prefix_refl _⟩

theorem mono_bf (sub : UInt8) (count : Nat) (rb : Bytes) (n : Nat) : WMono (gensaltBf sub count rb n) := by
  intro o o' S e h ho
  unfold gensaltBf at h ⊢
  simp only [] at h ⊢
  split at h; · cases h
  split at h; · cases h
  rename_i h1 h2
  simp only [WOut.ok.injEq] at h
  rw [if_neg h1, if_neg (by omega)]
  exact ⟨_, _, rfl, by rw [h.1]; exact List.prefix_refl _⟩

theorem mono_sunmd5 (count : Nat) (rb : Bytes) (n : Nat) : WMono (gensaltSunmd5 count rb n) := by
  intro o o' S e h ho
  unfold gensaltSunmd5 at h ⊢
  split at h; · cases h
  split at h; · cases h
  dsimp only at h ⊢
  split at h; · cases h
  rename_i h1 h2 h3
  simp only [WOut.ok.injEq] at h
  rw [if_neg (by omega), if_neg h2, if_neg h3]
  exact ⟨_, _, rfl, by rw [h.1]; exact List.prefix_refl _⟩

theorem shaSaltLoop_mono (m n o o' : Nat) (rb : Bytes) (ho : o ≤ o') : ∀ fuel written used,
    shaSaltLoop m n o rb fuel written used <+: shaSaltLoop m n o' rb fuel written used := by
  intro fuel
  induction fuel with
  | zero => intro w u; simp [shaSaltLoop]
  | succ f ih =>
    intro w u
    simp only [shaSaltLoop]
    by_cases hc : w + 4 < o ∧ u + 3 < n ∧ u * 4 / 3 < m
    · have hc' : w + 4 < o' ∧ u + 3 < n ∧ u * 4 / 3 < m := ⟨by omega, hc.2.1, hc.2.2⟩
      rw [if_pos hc, if_pos hc']
      exact (List.prefix_append_right_inj _).mpr (ih _ _)
    · rw [if_neg hc]; exact List.nil_prefix

theorem mono_shaCore (tag : UInt8) (maxsalt defcount count : Nat) (rb : Bytes) (n : Nat) :
    WMono (gensaltShaCore tag maxsalt defcount count rb n) := by
  intro o o' S e h ho
  unfold gensaltShaCore at h ⊢
  dsimp only at h ⊢
  generalize hol : (if count ≠ defcount then 8 + 9 + ceilingSteps count else 8) = outputLen at h ⊢
  generalize hhd : (if count = defcount then ([36, tag, 36] : Bytes)
      else [36, tag, 36] ++ [114, 111, 117, 110, 100, 115, 61] ++ toDec count ++ [36]) = head at h ⊢
  split at h; · cases h
  split at h; · cases h
  rename_i h1 h2
  simp only [WOut.ok.injEq] at h
  rw [if_neg (by omega), if_neg (by omega)]
  refine ⟨_, _, rfl, ?_⟩
  rw [← h.1]
  exact (List.prefix_append_right_inj _).mpr (shaSaltLoop_mono _ _ _ _ _ ho _ _ _)

theorem mono_sha (tag : UInt8) (maxsalt defc minc maxc count : Nat) (rb : Bytes) (n : Nat) :
    WMono (gensaltSha tag maxsalt defc minc maxc count rb n) := by
  intro o o' S e h ho
  unfold gensaltSha at h ⊢
  split at h; · cases h
  rename_i h1
  rw [if_neg h1]
  exact mono_shaCore _ _ _ _ _ _ o o' S e h ho

theorem mono_md5 (count : Nat) (rb : Bytes) (n : Nat) : WMono (gensaltMd5 count rb n) := by
  intro o o' S e h ho
  unfold gensaltMd5 at h ⊢
  split at h; · cases h
  rename_i h1
  rw [if_neg h1]
  exact mono_sha _ _ _ _ _ _ _ _ o o' S e h ho

theorem mono_sha256 (count : Nat) (rb : Bytes) (n : Nat) : WMono (gensaltSha256 count rb n) :=
  fun o o' S e h ho => mono_sha _ _ _ _ _ _ _ _ o o' S e h ho
theorem mono_sha512 (count : Nat) (rb : Bytes) (n : Nat) : WMono (gensaltSha512 count rb n) :=
  fun o o' S e h ho => mono_sha _ _ _ _ _ _ _ _ o o' S e h ho

theorem mono_scrypt (count : Nat) (rb : Bytes) (n : Nat) : WMono (gensaltScrypt count rb n) := by
  intro o o' S e h ho
  unfold gensaltScrypt at h ⊢
  dsimp only at h ⊢
  split at h; · cases h
  rename_i h1
  split at h; · cases h
  rename_i h2
  rw [if_neg (by omega), if_neg h2]
  split at h; · cases h
  rename_i s hs
  try dsimp only
  split at h; · cases h
  simp only [WOut.ok.injEq] at h
  rw [if_neg (by omega)]
  exact ⟨_, _, rfl, by rw [h.1]; exact List.prefix_refl _⟩

theorem yesEnc32_mono {d d' v m : Nat} {e : Bytes} (h : yesEnc32 d v m = some e) (hd : d ≤ d') : yesEnc32 d' v m = some e := by
  unfold yesEnc32 at h ⊢
  split at h; · cases h
  rename_i hm
  rw [if_neg hm]
  split at h; · cases h
  try dsimp only at h ⊢
  split at h; · cases h
  rw [if_neg (by omega)]
  exact h

theorem yesEncodeParams_mono {N r : Nat} {src : Bytes} {b b' : Nat} {s : Bytes} (h : yesEncodeParams N r src b = some s) (hb : b ≤ b') :
    yesEncodeParams N r src b' = some s := by
  unfold yesEncodeParams at h ⊢
  simp only [] at h ⊢
  have hfl : (if Gen.YESCRYPT_DEFAULTS < Gen.YESCRYPT_RW then some Gen.YESCRYPT_DEFAULTS
      else if Gen.YESCRYPT_DEFAULTS &&& Gen.YESCRYPT_MODE_MASK = Gen.YESCRYPT_RW ∧
              Gen.YESCRYPT_DEFAULTS ≤ Gen.YESCRYPT_RW ||| Gen.YESCRYPT_RW_FLAVOR_MASK then
          some (Gen.YESCRYPT_RW + Gen.YESCRYPT_DEFAULTS / 4) else none) = some (Gen.YESCRYPT_RW + Gen.YESCRYPT_DEFAULTS / 4) := by decide
  rw [hfl] at h ⊢
  dsimp only at h ⊢
  split at h; · cases h
  rename_i hn
  split at h; · cases h
  rename_i hr
  rw [if_neg hn, if_neg hr]
  split at h; · cases h
  rename_i p5 hdo
  split at h; · cases h
  rename_i hlen
  simp only [Option.some.injEq] at h
  subst h
  simp only [Option.bind_eq_bind] at hdo ⊢
  obtain ⟨e1, h1, hdo⟩ := Option.bind_eq_some_iff.mp hdo
  obtain ⟨e2, h2, hdo⟩ := Option.bind_eq_some_iff.mp hdo
  obtain ⟨e3, h3, hdo⟩ := Option.bind_eq_some_iff.mp hdo
  split at hdo; · cases hdo
  rename_i hl3
  obtain ⟨e4, h4, hdo⟩ := Option.bind_eq_some_iff.mp hdo
  simp only [Option.pure_def, Option.some.injEq] at hdo
  have g1 := yesEnc32_mono h1 (Nat.sub_le_sub_right hb _)
  have g2 := yesEnc32_mono h2 (Nat.sub_le_sub_right hb _)
  have g3 := yesEnc32_mono h3 (Nat.sub_le_sub_right hb _)
  have g4 : yesEncode64 (b' - length ([36, 121, 36] ++ e1 ++ e2 ++ e3 ++ [36])) src = some e4 := by
    unfold yesEncode64 at h4 ⊢
    simp only [] at h4 ⊢
    split at h4; · cases h4
    rw [if_neg (by omega)]; exact h4
  rw [g1]
  simp only [Option.bind_some]
  rw [g2]
  simp only [Option.bind_some]
  rw [g3]
  simp only [Option.bind_some]
  rw [if_neg (by omega), g4]
  simp only [Option.bind_some, Option.pure_def, hdo]
  rw [if_neg (by omega)]

theorem mono_yescrypt_eq {count : Nat} {rb : Bytes} {n o o' : Nat} {S : Bytes} {e : Nat}
    (h : gensaltYescrypt count rb n o = .ok S e) (ho : o ≤ o') : ∃ e', gensaltYescrypt count rb n o' = .ok S e' := by
  unfold gensaltYescrypt at h ⊢
  dsimp only at h ⊢
  split at h; · cases h
  rename_i h1
  split at h; · cases h
  rename_i h2
  rw [if_neg (by omega), if_neg h2]
  split at h; · cases h
  rename_i s hs
  rw [yesEncodeParams_mono hs ho]
  try dsimp only
  split at h; · cases h
  simp only [WOut.ok.injEq] at h
  rw [if_neg (by omega)]
  exact ⟨_, by rw [h.1]⟩

theorem mono_yescrypt (count : Nat) (rb : Bytes) (n : Nat) : WMono (gensaltYescrypt count rb n) := by
  intro o o' S e h ho
  obtain ⟨e', h'⟩ := mono_yescrypt_eq h ho
  exact ⟨S, e', h', List.prefix_refl _⟩

theorem mono_gost (count : Nat) (rb : Bytes) (n : Nat) : WMono (gensaltGost count rb n) := by
  intro o o' S e h ho
  unfold gensaltGost at h ⊢
  dsimp only at h ⊢
  split at h; · cases h
  rename_i h1
  rw [if_neg (by omega)]
  split at h
  · rename_i s ext hs
    obtain ⟨e', hs'⟩ := mono_yescrypt_eq hs (show o - 1 ≤ o' - 1 by omega)
    rw [hs']
    simp only [WOut.ok.injEq] at h
    exact ⟨_, _, rfl, by rw [← h.1]; exact List.prefix_refl _⟩
  · rename_i x hne
    exact absurd h (hne S e)

theorem sha1SaltLoop_congr (rb : Bytes) (rlim A B n0 : Nat)
    (hAB : ∀ r o, 3 * o + 16 = 4 * r + 3 * n0 → r + 3 < rlim → (o + 4 < A ↔ o + 4 < B)) :
    ∀ fuel r o, 3 * o + 16 = 4 * r + 3 * n0 → sha1SaltLoop rb rlim A fuel r o = sha1SaltLoop rb rlim B fuel r o := by
  intro fuel
  induction fuel with
  | zero => intro r o _; rfl
  | succ f ih =>
    intro r o hinv
    simp only [sha1SaltLoop]
    by_cases hr : r + 3 < rlim
    · have := hAB r o hinv hr
      by_cases ha : o + 4 < A
      · rw [if_pos ⟨hr, ha⟩, if_pos ⟨hr, this.mp ha⟩, ih (r + 3) (o + 4) (by omega)]
      · rw [if_neg (fun c => ha c.2), if_neg (fun c => ha (this.mpr c.2))]
    · rw [if_neg (fun c => hr c.1), if_neg (fun c => hr c.1)]

/-- sha1crypt: once the buffer passes the size test, the text does not depend on its size -/
theorem mono_sha1_eq {count : Nat} {rb : Bytes} {n o o' : Nat} {S : Bytes} {e : Nat}
    (h : gensaltSha1 count rb n o = .ok S e) (ho : o ≤ o') : ∃ e', gensaltSha1 count rb n o' = .ok S e' := by
  unfold gensaltSha1 at h ⊢
  have hsl : Gen.CRYPT_SHA1_SALT_LENGTH = 64 := by decide
  generalize Gen.CRYPT_SHA1_SALT_LENGTH = F at h hsl ⊢
  have hr := sha1Rounds_lt count rb
  generalize sha1Rounds count rb = r at *
  have hdl : (toDec r).length ≤ 10 := toDec_length_le10 r (by omega)
  have hn0l : ([36, 115, 104, 97, 49, 36] ++ toDec r ++ [36] : Bytes).length = 7 + (toDec r).length := by
    simp only [List.length_append, List.length_cons, List.length_nil]; omega
  split at h; · cases h
  rename_i hn
  split at h; · cases h
  rename_i hsz
  rw [if_neg hn, if_neg (by omega)]
  dsimp only at h ⊢
  split at h; · cases h
  rename_i hab
  rw [if_neg (by omega)]
  simp only [WOut.ok.injEq] at h
  generalize hn0 : ([36, 115, 104, 97, 49, 36] ++ toDec r ++ [36] : Bytes).length = n0 at *
  have key : ∀ oo, (n - 4) * 4 / 3 + 9 + 10 ≤ oo →
      sha1SaltLoop rb n (if n0 + F + 2 > oo then oo - 2 else n0 + F) (F + 1) 4 n0 = sha1SaltLoop rb n (n0 + F) (F + 1) 4 n0 := by
    intro oo hoo
    apply sha1SaltLoop_congr rb n _ _ n0 ?_ (F + 1) 4 n0 (by omega)
    intro r' o'' hinv hr'
    split
    · constructor <;> intro _ <;> omega
    · exact Iff.rfl
  rw [key o' (by omega)]
  rw [key o (by omega)] at h
  exact ⟨_, by rw [h.1]⟩

theorem mono_sha1 (count : Nat) (rb : Bytes) (n : Nat) : WMono (gensaltSha1 count rb n) := by
  intro o o' S e h ho
  obtain ⟨e', h'⟩ := mono_sha1_eq h ho
  exact ⟨S, e', h', List.prefix_refl _⟩

/-- every writer is monotone in the output size, and the smaller buffer receives a leading part of what the larger one receives -/
theorem mono_method (d : Bool) (m : Method) (count : Nat) (rb : Bytes) (n : Nat) : WMono (gensaltMethod d m count rb n) := by
  intro o o' S e h ho
  cases m <;> simp only [gensaltMethod] at h ⊢
  case yescrypt => exact mono_yescrypt _ _ _ o o' S e h ho
  case gost_yescrypt => exact mono_gost _ _ _ o o' S e h ho
  case scrypt => exact mono_scrypt _ _ _ o o' S e h ho
  case bcrypt => exact mono_bf _ _ _ _ o o' S e h ho
  case bcrypt_y => exact mono_bf _ _ _ _ o o' S e h ho
  case bcrypt_a => exact mono_bf _ _ _ _ o o' S e h ho
  case bcrypt_x => cases h
  case sha512crypt => exact mono_sha512 _ _ _ o o' S e h ho
  case sha256crypt => exact mono_sha256 _ _ _ o o' S e h ho
  case sha1crypt => exact mono_sha1 _ _ _ o o' S e h ho
  case sunmd5 => exact mono_sunmd5 _ _ _ o o' S e h ho
  case md5crypt => exact mono_md5 _ _ _ o o' S e h ho
  case nt => exact mono_nt _ o o' S e h ho
  case bsdicrypt => exact mono_bsdi _ _ _ o o' S e h ho
  case bigcrypt => exact mono_big _ _ _ _ o o' S e h ho
  case descrypt => exact mono_des _ _ _ o o' S e h ho

/-- **C13, monotonicity**: if `crypt_gensalt_rn` succeeds with a buffer of `osize` bytes it succeeds with every larger buffer, and
    what the smaller buffer received is a leading part of what the larger one receives (for all writers but the shared
    sha/md5 one — whose salt grows with the room — it is the same string) -/
theorem gensaltRn_monotone (cfg : Config) (pfx : Option Bytes) (count : Nat) (rb : Option Bytes) (nrb : Int) (osize osize' : Int)
    (os : Nat → Bytes) (S : Bytes) (h : (gensaltRn cfg pfx count rb nrb osize os).ret = some S) (ho : osize ≤ osize') :
    ∃ S', (gensaltRn cfg pfx count rb nrb osize' os).ret = some S' ∧ S <+: S' := by
  unfold gensaltRn at h ⊢
  by_cases h3 : osize < 3
  · rw [if_pos h3] at h; simp [GRes.fail] at h
  · rw [if_neg h3] at h
    rw [if_neg (by omega)]
    cases hp : resolvePrefix cfg pfx with
    | none => rw [hp] at h; simp [GRes.fail] at h
    | some p =>
      rw [hp] at h
      simp only [] at h ⊢
      cases hg : getHashFn cfg.table p with
      | none => rw [hg] at h; simp [GRes.fail] at h
      | some hh =>
        rw [hg] at h
        simp only [] at h ⊢
        cases hw : gensaltMethod cfg.descryptOn hh.gensalt count (rbArgs hh rb nrb os).1 (rbArgs hh rb nrb os).2 osize.toNat with
        | err e => rw [hw] at h; simp [GRes.fail] at h
        | abort => rw [hw] at h; simp [GRes.fail] at h
        | ok s ext =>
          rw [hw] at h
          simp only [Option.some.injEq] at h
          subst h
          obtain ⟨S', e', hw', hp'⟩ := mono_method cfg.descryptOn hh.gensalt count _ _ osize.toNat osize'.toNat s ext hw (by omega)
          rw [hw']
          exact ⟨S', rfl, hp'⟩

/-! ### CRYPT_GENSALT_OUTPUT_SIZE bytes always suffice for up to 64 random bytes -/

theorem yesPfx_lens (c : Nat) (h1 : 1 ≤ c) (h2 : c ≤ 11) :
    (yesEnc32 100 (Gen.YESCRYPT_RW + Gen.YESCRYPT_DEFAULTS / 4) 0).map List.length = some 1 ∧
    (yesEnc32 100 (n2log2 (yesRN c).2) 1).map List.length = some 1 ∧
    (yesEnc32 100 (yesRN c).1 1).map List.length = some 1 ∧ n2log2 (yesRN c).2 ≠ 0 ∧ (yesRN c).1 * 1 < 2 ^ 30 := by
  rcases cases_1_11 h1 h2 with rfl | rfl | rfl | rfl | rfl | rfl | rfl | rfl | rfl | rfl | rfl <;> decide

theorem yesEncodeParams_room (c : Nat) (h1 : 1 ≤ c) (h2 : c ≤ 11) (src : Bytes) (hsrc : src.length ≤ 64) (b : Nat) (hb : 150 ≤ b) :
    (yesEncodeParams (yesRN c).2 (yesRN c).1 src b).isSome = true := by
  obtain ⟨l1, l2, l3, hn, hr⟩ := yesPfx_lens c h1 h2
  obtain ⟨e1, g1, q1⟩ := Option.map_eq_some_iff.mp l1
  obtain ⟨e2, g2, q2⟩ := Option.map_eq_some_iff.mp l2
  obtain ⟨e3, g3, q3⟩ := Option.map_eq_some_iff.mp l3
  have hel : (encode64 src).length ≤ 86 := by rw [encode64_length]; exact base64Len_le _ hsrc
  unfold yesEncodeParams
  simp only []
  have hfl : (if Gen.YESCRYPT_DEFAULTS < Gen.YESCRYPT_RW then some Gen.YESCRYPT_DEFAULTS
      else if Gen.YESCRYPT_DEFAULTS &&& Gen.YESCRYPT_MODE_MASK = Gen.YESCRYPT_RW ∧
              Gen.YESCRYPT_DEFAULTS ≤ Gen.YESCRYPT_RW ||| Gen.YESCRYPT_RW_FLAVOR_MASK then
          some (Gen.YESCRYPT_RW + Gen.YESCRYPT_DEFAULTS / 4) else none) = some (Gen.YESCRYPT_RW + Gen.YESCRYPT_DEFAULTS / 4) := by decide
  rw [hfl]
  dsimp only
  rw [if_neg hn, if_neg (by omega)]
  have f1 := yesEnc32_mono g1 (show 100 ≤ b - ([36, 121, 36] : Bytes).length by simp; omega)
  have f2 := yesEnc32_mono g2 (show 100 ≤ b - (([36, 121, 36] : Bytes) ++ e1).length by simp; omega)
  have f3 := yesEnc32_mono g3 (show 100 ≤ b - (([36, 121, 36] : Bytes) ++ e1 ++ e2).length by simp; omega)
  simp only [Option.bind_eq_bind]
  rw [f1]
  simp only [Option.bind_some]
  rw [f2]
  simp only [Option.bind_some]
  rw [f3]
  simp only [Option.bind_some]
  rw [if_neg (by simp; omega)]
  have f4 : yesEncode64 (b - (([36, 121, 36] : Bytes) ++ e1 ++ e2 ++ e3 ++ [36]).length) src = some (encode64 src) := by
    unfold yesEncode64
    simp only []
    rw [if_neg (by simp; omega)]
  rw [f4]
  simp only [Option.bind_some, Option.pure_def]
  rw [if_neg (by simp; omega)]
  rfl

theorem room_yescrypt (count : Nat) (rb : Bytes) (n b : Nat) (hb : 150 ≤ b) : gensaltYescrypt count rb n b ≠ .err .ERANGE := by
  have hg : Gen.CRYPT_GENSALT_OUTPUT_SIZE = 192 := rfl
  have hbl : base64Len (min n 64) ≤ 86 := base64Len_le _ (by omega)
  unfold gensaltYescrypt
  dsimp only
  rw [if_neg (by rw [hg]; omega)]
  split
  · intro h; cases h
  · rename_i hc
    have c1 : 1 ≤ dfl count 5 := by unfold dfl; split <;> omega
    have c2 : dfl count 5 ≤ 11 := by unfold dfl; split <;> omega
    have := yesEncodeParams_room _ c1 c2 (padTo rb (min n 64)) (by rw [padTo_length]; omega) b hb
    cases hq : yesEncodeParams (yesRN (dfl count 5)).2 (yesRN (dfl count 5)).1 (padTo rb (min n 64)) b with
    | none => rw [hq] at this; cases this
    | some s => dsimp only; split <;> (intro h; cases h)

theorem room_method (d : Bool) (m : Method) (count : Nat) (rb : Bytes) (n : Nat) (hn : n ≤ 64) :
    gensaltMethod d m count rb n Gen.CRYPT_GENSALT_OUTPUT_SIZE ≠ .err .ERANGE := by
  have hg : Gen.CRYPT_GENSALT_OUTPUT_SIZE = 192 := rfl
  rw [hg]
  have hbl : base64Len (min n 64) ≤ 86 := base64Len_le _ (by omega)
  have sha : ∀ cnt tag maxsalt defc minc maxc, 1 ≤ defc → 1 ≤ minc → minc ≤ maxc → maxc < 10000000000 →
      gensaltSha tag maxsalt defc minc maxc cnt rb n 192 ≠ .err .ERANGE := by
    intro cnt tag maxsalt defc minc maxc h1 h2 h3 h4
    unfold gensaltSha
    split
    · intro h; cases h
    · have hb := shaClamp_bounds defc minc maxc cnt h1 h2 h3
      generalize shaClamp defc minc maxc cnt = c at hb
      have hcs := ceilingSteps_eq c hb.1 (by omega)
      have hnd := numDigits_le c (by omega)
      unfold gensaltShaCore
      dsimp only
      have : ¬ 192 < (if c ≠ defc then 8 + 9 + ceilingSteps c else 8) := by split <;> omega
      rw [if_neg this]
      (intro h; split at h <;> (try split at h) <;> (try split at h) <;> cases h)
  cases m <;> simp only [gensaltMethod]
  case yescrypt => exact room_yescrypt _ _ _ _ (by omega)
  case gost_yescrypt =>
    unfold gensaltGost
    dsimp only
    rw [if_neg (by rw [hg]; omega)]
    have := room_yescrypt count rb (min n 64) (192 - 1) (by omega)
    cases hq : gensaltYescrypt count rb (min n 64) (192 - 1) with
    | ok s e => dsimp only; intro h; cases h
    | err e => dsimp only; intro h; rw [hq] at this; exact this h
    | abort => dsimp only; intro h; cases h
  case scrypt =>
    unfold gensaltScrypt
    dsimp only
    rw [if_neg (by rw [hg]; omega)]
    split
    · intro h; cases h
    · have : ∀ c, scryptOutbuf c rb (min n 64) ≠ .error .ERANGE := by
        intro c
        unfold scryptOutbuf
        simp only []
        split
        · intro h; cases h
        · have e1 : scryptEnc32 ((Gen.CRYPT_GENSALT_OUTPUT_SIZE : Int) - 4) 32 30 = some ((List.range 5).map fun i => a64 (32 / 64 ^ i)) := by
            unfold scryptEnc32; rw [hg]; rfl
          rw [e1]
          dsimp only
          split
          · intro h; cases h
          · split
            · rename_i hnone
              unfold scryptEnc32 at hnone
              simp only [hg] at hnone
              split at hnone
              · rename_i hc; first | (simp at hc; done) | (simp at hc; omega)
              · cases hnone
            · (intro h; split at h <;> (try split at h) <;> (try split at h) <;> cases h)
      cases hq : scryptOutbuf (dfl count 7) rb (min n 64) with
      | error e => dsimp only; intro h; simp only [WOut.err.injEq] at h; rw [h] at hq; exact this _ hq
      | ok s => dsimp only; (intro h; split at h <;> (try split at h) <;> (try split at h) <;> cases h)
  case bcrypt | bcrypt_y | bcrypt_a =>
    unfold gensaltBf
    simp only []
    split
    · intro h; cases h
    · rw [if_neg (by omega)]; intro h; cases h
  case bcrypt_x => intro h; cases h
  case sha512crypt => exact sha _ _ _ _ _ _ (by decide) (by decide) (by decide) (by decide)
  case sha256crypt => exact sha _ _ _ _ _ _ (by decide) (by decide) (by decide) (by decide)
  case md5crypt =>
    unfold gensaltMd5
    split
    · intro h; cases h
    · exact sha 1000 49 Gen.MD5_SALT_LEN_MAX 1000 1000 1000 (by decide) (by decide) (by decide) (by decide)
  case sha1crypt =>
    unfold gensaltSha1
    split
    · intro h; cases h
    · rw [if_neg (by omega)]
      dsimp only
      (intro h; split at h <;> (try split at h) <;> (try split at h) <;> cases h)
  case sunmd5 =>
    unfold gensaltSunmd5
    have : Gen.SUNMD5_MAX_SETTING_LEN = 32 := rfl
    rw [if_neg (by omega)]
    split
    · intro h; cases h
    · dsimp only; (intro h; split at h <;> (try split at h) <;> (try split at h) <;> cases h)
  case nt =>
    unfold gensaltNt
    rw [if_neg (by omega)]
    (intro h; split at h <;> (try split at h) <;> (try split at h) <;> cases h)
  case bsdicrypt =>
    unfold gensaltBsdi
    rw [if_neg (by omega)]
    (intro h; split at h <;> (try split at h) <;> (try split at h) <;> cases h)
  case descrypt =>
    unfold gensaltDes
    rw [if_neg (by omega)]
    (intro h; split at h <;> (try split at h) <;> (try split at h) <;> cases h)
  case bigcrypt =>
    unfold gensaltBig gensaltDes
    cases d with
    | true => simp only [if_true]; rw [if_neg (by omega)]; (intro h; split at h <;> (try split at h) <;> (try split at h) <;> cases h)
    | false =>
      simp only [Bool.false_eq_true, if_false]
      rw [if_neg (by omega), if_neg (by omega)]
      (intro h; split at h <;> (try split at h) <;> (try split at h) <;> cases h)
end Xc

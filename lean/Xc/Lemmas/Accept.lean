/-
  C10: what a `gensalt_*_rn` writer produced is accepted by the same method's `crypt_*_rn` front-end, and the result keeps the
  generated setting as a literal prefix (for arbitrary digest functions).
-/
import Xc.Lemmas.Inj
namespace Xc
open List
set_option maxRecDepth 100000


/-! ### C10: what a writer produced is accepted by the method's front-end and kept as a literal prefix -/

theorem accept_nt (count osize : Nat) (S : Bytes) (e : Nat) (h : gensaltNt count osize = .ok S e) (D : Digests) (p : Bytes) :
    ∃ H, cryptNt D p S = .ok H ∧ S <+: H := by
  unfold gensaltNt at h
  split at h; · cases h
  split at h; · cases h
  simp only [WOut.ok.injEq] at h
  obtain ⟨rfl, _⟩ := h
  refine ⟨ntMagic ++ [36] ++ hexLower (D.nt p), ?_, ⟨[36] ++ hexLower (D.nt p), by simp [ntMagic]⟩⟩
  unfold cryptNt; simp [hasPrefix, ntMagic]

theorem a64_mod (x : Nat) : a64 (x % 64) = a64 x := by simp [a64]

theorem accept_des (count : Nat) (rb : Bytes) (n osize : Nat) (S : Bytes) (e : Nat) (h : gensaltDes count rb n osize = .ok S e)
    (D : Digests) (p : Bytes) : ∃ H, cryptDes D p S = .ok H ∧ S <+: H := by
  unfold gensaltDes at h
  split at h; · cases h
  split at h; · cases h
  simp only [WOut.ok.injEq] at h
  obtain ⟨rfl, _⟩ := h
  refine ⟨[a64 (rbAt rb 0 % 64 + rbAt rb 1 % 64 * 64), a64 ((rbAt rb 0 % 64 + rbAt rb 1 % 64 * 64) / 64)]
      ++ desEncode (D.desHash (desKey p) (rbAt rb 0 % 64 + rbAt rb 1 % 64 * 64) 25), ?_, ?_⟩
  · unfold cryptDes parseDesSalt
    simp only [cat, List.getD_cons_zero, List.getD_cons_succ, asciiToBin_a64']
  · have e1 : a64 (rbAt rb 0 % 64 + rbAt rb 1 % 64 * 64) = a64 (rbAt rb 0) := by
      have : (rbAt rb 0 % 64 + rbAt rb 1 % 64 * 64) % 64 = rbAt rb 0 % 64 := by omega
      rw [← a64_mod (rbAt rb 0 % 64 + rbAt rb 1 % 64 * 64), this, a64_mod]
    have e2 : a64 ((rbAt rb 0 % 64 + rbAt rb 1 % 64 * 64) / 64) = a64 (rbAt rb 1) := by
      have : (rbAt rb 0 % 64 + rbAt rb 1 % 64 * 64) / 64 = rbAt rb 1 % 64 := by omega
      rw [this, a64_mod]
    simp only [e1, e2, List.cons_append, List.nil_append]
    exact ⟨_, rfl⟩

theorem dec24_enc24 (v : Nat) (hv : v < 2 ^ 24) (pre tail : Bytes) :
    dec24 (pre ++ enc24 v ++ tail) pre.length = some v := by
  unfold dec24 enc24
  have c : ∀ k, k < 4 → cat (pre ++ [a64 v, a64 (v / 64), a64 (v / 4096), a64 (v / 262144)] ++ tail) (pre.length + k)
      = cat [a64 v, a64 (v / 64), a64 (v / 4096), a64 (v / 262144)] k := by
    intro k hk
    unfold cat
    simp only [List.getD_eq_getElem?_getD, List.append_assoc]
    rw [List.getElem?_append_right (by omega)]
    simp only [Nat.add_sub_cancel_left]
    rw [List.getElem?_append_left (by simpa using hk)]
  have c0 := c 0 (by omega); have c1 := c 1 (by omega); have c2 := c 2 (by omega); have c3 := c 3 (by omega)
  try simp only [Nat.add_zero] at c0
  rw [c0, c1, c2, c3]
  simp only [cat, List.getD_cons_zero, List.getD_cons_succ, asciiToBin_a64', Option.some.injEq]
  omega

theorem accept_bsdi (count : Nat) (rb : Bytes) (n osize : Nat) (S : Bytes) (e : Nat) (h : gensaltBsdi count rb n osize = .ok S e)
    (D : Digests) (p : Bytes) : ∃ H, cryptBsdi D p S = .ok H ∧ S <+: H := by
  unfold gensaltBsdi at h
  split at h; · cases h
  split at h; · cases h
  simp only [WOut.ok.injEq] at h
  obtain ⟨rfl, _⟩ := h
  generalize hc : (if (if (if count = 0 then 725 else count) > 16777215 then 16777215 else if count = 0 then 725 else count) % 2 = 0 then
      (if (if count = 0 then 725 else count) > 16777215 then 16777215 else if count = 0 then 725 else count) + 1
      else if (if count = 0 then 725 else count) > 16777215 then 16777215 else if count = 0 then 725 else count) = c
  have hcl : c < 2 ^ 24 := by rw [← hc]; split <;> split <;> (try split) <;> omega
  have hsl : le24 rb 0 < 2 ^ 24 := by
    unfold le24 rbAt
    have a := (rb.getD 0 0).toNat_lt; have b := (rb.getD (0 + 1) 0).toNat_lt; have c := (rb.getD (0 + 2) 0).toNat_lt
    omega
  have d1 := dec24_enc24 c hcl [95] (enc24 (le24 rb 0))
  have d5 := dec24_enc24 (le24 rb 0) hsl ([95] ++ enc24 c) []
  simp only [List.length_cons, List.length_nil, List.append_nil, List.length_append, enc24] at d1 d5
  refine ⟨[95] ++ enc24 c ++ enc24 (le24 rb 0) ++ desEncode (D.bsdi p (le24 rb 0) c), ?_, ⟨_, rfl⟩⟩
  unfold cryptBsdi
  simp only [enc24] at d1 d5 ⊢
  have hc0 : cat ([95] ++ [a64 c, a64 (c / 64), a64 (c / 4096), a64 (c / 262144)] ++ [a64 (le24 rb 0), a64 (le24 rb 0 / 64), a64 (le24 rb 0 / 4096), a64 (le24 rb 0 / 262144)]) 0 = 95 := rfl
  simp only [hc0, ne_eq, not_true_eq_false, List.length_append, List.length_cons, List.length_nil, false_or, if_false, d1, d5]
  simp


theorem a64_mem (i : Nat) : a64 i ∈ Gen.ascii64 := by
  have : ∀ k : Fin 64, a64 k.val ∈ Gen.ascii64 := by decide
  have := this ⟨i % 64, Nat.mod_lt _ (by decide)⟩; simpa [a64] using this

theorem a64_notTerm (i : Nat) : a64 i ∉ saltTerm := by
  have : ∀ k : Fin 64, a64 k.val ∉ saltTerm := by decide
  have := this ⟨i % 64, Nat.mod_lt _ (by decide)⟩; simpa [a64] using this

theorem enc24_chars (v : Nat) : ∀ c ∈ enc24 v, c ∈ Gen.ascii64 ∧ c ∉ saltTerm := by
  intro c hc
  simp only [enc24, List.mem_cons, List.mem_nil_iff, or_false] at hc
  rcases hc with rfl | rfl | rfl | rfl <;> exact ⟨a64_mem _, a64_notTerm _⟩

/-- the salt loop of `gensalt_sha_rn` emits alphabet characters only, and never more than `maxsalt` of them (a multiple of 4) -/
theorem shaSaltLoop_spec (maxsalt n osize : Nat) (rb : Bytes) (h4 : maxsalt % 4 = 0) :
    ∀ fuel written k, (∀ c ∈ shaSaltLoop maxsalt n osize rb fuel written (3 * k), c ∈ Gen.ascii64 ∧ c ∉ saltTerm) ∧
      4 * k + (shaSaltLoop maxsalt n osize rb fuel written (3 * k)).length ≤ max maxsalt (4 * k) := by
  intro fuel
  induction fuel with
  | zero => intro w k; simp [shaSaltLoop]; omega
  | succ f ih =>
    intro w k
    simp only [shaSaltLoop]
    split
    · rename_i hc
      have e3 : 3 * k + 3 = 3 * (k + 1) := by omega
      rw [e3]
      obtain ⟨i1, i2⟩ := ih (w + 4) (k + 1)
      refine ⟨?_, ?_⟩
      · intro c hc'
        simp only [List.mem_append] at hc'
        rcases hc' with h | h
        · exact enc24_chars _ c h
        · exact i1 c h
      · simp only [List.length_append, enc24_length]
        have : 3 * k * 4 / 3 = 4 * k := by omega
        rw [this] at hc
        omega
    · simp; omega

theorem scanSalt_end (salt : Bytes) (mx : Nat) (h1 : ∀ x ∈ salt, x ∉ saltTerm) (h2 : salt.length ≤ mx) : scanSalt salt mx = some salt := by
  unfold scanSalt
  have hn : strcspn salt saltTerm = salt.length := by
    unfold strcspn
    have := List.takeWhile_append_of_pos (p := fun c => !saltTerm.contains c) (l₁ := salt) (l₂ := []) (by intro x hx; simpa using h1 x hx)
    simp only [List.append_nil, List.takeWhile_nil] at this
    rw [this]
  have hc : cat salt salt.length = 0 := by simp [cat, List.getD_eq_getElem?_getD]
  simp only [hn, hc]
  simp [Nat.min_eq_left h2]

/-- a setting that ends with its salt (what `crypt_gensalt` writes for md5crypt / SHA-crypt) parses to that salt -/
theorem parseSha_gensalt (pfx rp : Bytes) (d mn mx sm c : Nat) (salt : Bytes) (hmx : mx ≤ ULONG_MAX) (h1 : ∀ x ∈ salt, x ∈ Gen.ascii64 ∧ x ∉ saltTerm)
    (h2 : salt.length ≤ sm) (hr : mn ≤ c ∧ c ≤ mx ∧ 0 < c) (hrp : ∃ x ∈ rp, x ∉ Gen.ascii64) :
    parseSha pfx rp d mn mx sm (pfx ++ (if c = d then [] else rp ++ toDec c ++ [36]) ++ salt) =
      .ok { rounds := if c = d then d else c, custom := !(decide (c = d)), salt := salt } := by
  unfold parseSha
  simp only []
  by_cases hcd : c = d
  · simp only [hcd, if_true, List.append_nil, decide_true, Bool.not_true]
    rw [stripPfx_append]
    have hnp : hasPrefix salt rp = false := by
      unfold hasPrefix
      cases hh : rp.isPrefixOf salt with
      | false => rfl
      | true =>
        exfalso
        rw [List.isPrefixOf_iff_prefix] at hh
        obtain ⟨x, hx, hxn⟩ := hrp
        exact hxn (h1 x (hh.subset hx)).1
    rw [hnp]
    simp only [Bool.false_eq_true, if_false]
    rw [scanSalt_end salt sm (fun x hx => (h1 x hx).2) h2]
  · simp only [hcd, if_false, decide_false, Bool.not_false]
    have e1 : pfx ++ (rp ++ toDec c ++ [36]) ++ salt = pfx ++ (rp ++ (toDec c ++ 36 :: salt)) := by simp
    rw [e1, stripPfx_append, hasPrefix_append]
    simp only [if_true, List.drop_left]
    obtain ⟨c0, t, e, h49, h57⟩ := toDec_head c (by unfold ULONG_MAX at hmx; omega) hr.2.2
    have hcat0 : cat (toDec c ++ 36 :: salt) 0 = c0 := by rw [e]; simp [cat]
    rw [hcat0, strtoul10_toDec c _ (by omega)]
    simp only [cat_append_mid]
    have hpos := toDec_length_pos c
    have : (49 ≤ c0 && c0 ≤ 57) = true := by simp [h49, h57]
    simp only [this]
    have hd : (toDec c ++ 36 :: salt).drop ((toDec c).length + 1) = salt := by
      rw [show toDec c ++ 36 :: salt = (toDec c ++ [36]) ++ salt by simp]
      rw [show (toDec c).length + 1 = (toDec c ++ [36]).length by simp, List.drop_left]
    rw [hd, scanSalt_end salt sm (fun x hx => (h1 x hx).2) h2]
    have : ¬ ((toDec c).length = 0 ∨ (36 : UInt8) ≠ 36 ∨ c < mn ∨ c > mx ∨ false = true) := by
      intro h; rcases h with h | h | h | h | h
      · omega
      · exact h rfl
      · omega
      · omega
      · cases h
    simp only [not_true_eq_false, if_false, this]

/-- what `gensalt_sha_rn` wrote: the tag, the rounds field unless the count is the default, then alphabet characters -/
theorem gensaltSha_shape (tag : UInt8) (maxsalt defc minc maxc count : Nat) (rb : Bytes) (n osize : Nat) (S : Bytes) (e : Nat)
    (h4 : maxsalt % 4 = 0) (hdef : 1 ≤ defc) (hmin : 1 ≤ minc) (hmm : minc ≤ maxc)
    (h : gensaltSha tag maxsalt defc minc maxc count rb n osize = .ok S e) :
    ∃ c salt, S = [36, tag, 36] ++ (if c = defc then [] else [114, 111, 117, 110, 100, 115, 61] ++ toDec c ++ [36]) ++ salt ∧
      1 ≤ c ∧ c ≤ maxc ∧ minc ≤ c ∧ (∀ x ∈ salt, x ∈ Gen.ascii64 ∧ x ∉ saltTerm) ∧ salt.length ≤ maxsalt ∧
      c = shaClamp defc minc maxc count := by
  unfold gensaltSha at h
  split at h; · cases h
  have hb := shaClamp_bounds defc minc maxc count hdef hmin hmm
  have hge : minc ≤ shaClamp defc minc maxc count := by
    unfold shaClamp; simp only []; repeat' split
    all_goals omega
  generalize hcdef : shaClamp defc minc maxc count = c at *
  unfold gensaltShaCore at h
  by_cases hcd : c = defc
  · subst hcd
    simp only [ne_eq, not_true_eq_false, if_false, if_true] at h
    split at h; · cases h
    split at h; · cases h
    simp only [WOut.ok.injEq] at h
    obtain ⟨hS, _⟩ := h
    obtain ⟨sp1, sp2⟩ := shaSaltLoop_spec maxsalt n osize rb h4 (maxsalt + 1) ([36, tag, 36] : Bytes).length 0
    simp only [Nat.mul_zero, Nat.zero_add, Nat.max_def] at sp1 sp2
    refine ⟨c, _, ?_, hb.1, hb.2, hge, sp1, by split at sp2 <;> omega, rfl⟩
    rw [← hS]; simp
  · simp only [ne_eq, hcd, not_false_eq_true, if_true, if_false] at h
    split at h; · cases h
    split at h; · cases h
    simp only [WOut.ok.injEq] at h
    obtain ⟨hS, _⟩ := h
    obtain ⟨sp1, sp2⟩ := shaSaltLoop_spec maxsalt n osize rb h4 (maxsalt + 1)
      ([36, tag, 36] ++ [114, 111, 117, 110, 100, 115, 61] ++ toDec c ++ [36] : Bytes).length 0
    simp only [Nat.mul_zero, Nat.zero_add, Nat.max_def] at sp1 sp2
    refine ⟨c, _, ?_, hb.1, hb.2, hge, sp1, by split at sp2 <;> omega, rfl⟩
    rw [← hS]; simp [hcd]

theorem rounds_prefix_has_eq : ∃ x ∈ ([114, 111, 117, 110, 100, 115, 61] : Bytes), x ∉ Gen.ascii64 := ⟨61, by decide, by decide⟩

theorem accept_sha_gen (tag : UInt8) (pfx rp : Bytes) (sm d mn mx count : Nat) (rb : Bytes) (n osize : Nat) (S : Bytes) (e : Nat)
    (hpfx : pfx = [36, tag, 36]) (hrp : rp = [114, 111, 117, 110, 100, 115, 61]) (h4 : sm % 4 = 0) (hd : 1 ≤ d) (hmn : 1 ≤ mn) (hmm : mn ≤ mx)
    (hmx : mx ≤ ULONG_MAX)
    (h : gensaltSha tag sm d mn mx count rb n osize = .ok S e) (dig : ShaParsed → Bytes) :
    ∃ P, parseSha pfx rp d mn mx sm S = .ok P ∧ S <+: emitSha pfx rp P (dig P) ∧ P.rounds = shaClamp d mn mx count := by
  obtain ⟨c, salt, hS, c1, c2, c3, hch, hlen, hcc⟩ := gensaltSha_shape tag sm d mn mx count rb n osize S e h4 hd hmn hmm h
  subst hpfx; subst hrp
  have hp := parseSha_gensalt [36, tag, 36] [114, 111, 117, 110, 100, 115, 61] d mn mx sm c salt hmx hch hlen ⟨c3, c2, by omega⟩ rounds_prefix_has_eq
  rw [← hS] at hp
  refine ⟨_, hp, ?_, by rw [← hcc]; dsimp only; split <;> rename_i hq <;> first | exact hq.symm | rfl⟩
  rw [hS]
  unfold emitSha
  by_cases hcd : c = d
  · refine ⟨[36] ++ dig { rounds := if c = d then d else c, custom := !(decide (c = d)), salt := salt }, ?_⟩; simp [hcd]
  · refine ⟨[36] ++ dig { rounds := if c = d then d else c, custom := !(decide (c = d)), salt := salt }, ?_⟩; simp [hcd]

theorem accept_md5 (count : Nat) (rb : Bytes) (n osize : Nat) (S : Bytes) (e : Nat) (h : gensaltMd5 count rb n osize = .ok S e)
    (D : Digests) (p : Bytes) : ∃ H, cryptMd5 D p S = .ok H ∧ S <+: H := by
  unfold gensaltMd5 at h
  split at h; · cases h
  obtain ⟨c, salt, hS, c1, c2, c3, hch, hlen, _⟩ := gensaltSha_shape 49 Gen.MD5_SALT_LEN_MAX 1000 1000 1000 1000 rb n osize S e (by decide) (by omega) (by omega) (by omega) h
  have hc : c = 1000 := by omega
  subst hc
  simp only [if_true, List.append_nil] at hS
  subst hS
  refine ⟨Gen.md5_salt_prefix ++ salt ++ [36] ++ permEncode Gen.perm_md5crypt (D.md5crypt p salt), ?_, ?_⟩
  · unfold cryptMd5
    rw [show ([36, 49, 36] : Bytes) = Gen.md5_salt_prefix by decide, stripPfx_append, scanSalt_end salt _ (fun x hx => (hch x hx).2) hlen]
  · rw [show ([36, 49, 36] : Bytes) = Gen.md5_salt_prefix by decide]
    simp only [List.append_assoc]; exact ⟨_, rfl⟩

theorem accept_sha256 (count : Nat) (rb : Bytes) (n osize : Nat) (S : Bytes) (e : Nat) (h : gensaltSha256 count rb n osize = .ok S e)
    (D : Digests) (p : Bytes) : ∃ H, cryptSha256 D p S = .ok H ∧ S <+: H := by
  obtain ⟨P, hP, hpre, _⟩ := accept_sha_gen 53 Gen.sha256_salt_prefix Gen.sha256_rounds_prefix _ _ _ _ count rb n osize S e (by decide) (by decide)
    (by decide) (by decide) (by decide) (by decide) (by decide) h (fun P => permEncode Gen.perm_sha256crypt (D.sha256crypt p P.salt P.rounds))
  exact ⟨_, by unfold cryptSha256; rw [hP], hpre⟩

theorem accept_sha512 (count : Nat) (rb : Bytes) (n osize : Nat) (S : Bytes) (e : Nat) (h : gensaltSha512 count rb n osize = .ok S e)
    (D : Digests) (p : Bytes) : ∃ H, cryptSha512 D p S = .ok H ∧ S <+: H := by
  obtain ⟨P, hP, hpre, _⟩ := accept_sha_gen 54 Gen.sha512_salt_prefix Gen.sha512_rounds_prefix _ _ _ _ count rb n osize S e (by decide) (by decide)
    (by decide) (by decide) (by decide) (by decide) (by decide) h (fun P => permEncode Gen.perm_sha512crypt (D.sha512crypt p P.salt P.rounds))
  exact ⟨_, by unfold cryptSha512; rw [hP], hpre⟩


/-! ### sha1crypt -/
theorem sha1SaltLoop_spec (rb : Bytes) (rlim olim : Nat) : ∀ fuel r o,
    (∀ c ∈ sha1SaltLoop rb rlim olim fuel r o, c ∈ Gen.ascii64) ∧ o + (sha1SaltLoop rb rlim olim fuel r o).length ≤ max olim o := by
  intro fuel
  induction fuel with
  | zero => intro r o; simp [sha1SaltLoop]; omega
  | succ f ih =>
    intro r o
    simp only [sha1SaltLoop]
    split
    · rename_i hc
      obtain ⟨i1, i2⟩ := ih (r + 3) (o + 4)
      refine ⟨?_, ?_⟩
      · intro c hc'
        simp only [List.mem_append] at hc'
        rcases hc' with h | h
        · exact (enc24_chars _ c h).1
        · exact i1 c h
      · simp only [List.length_append, enc24_length]; omega
    · simp; omega

theorem sha1SaltLoop_nonempty (rb : Bytes) (rlim olim fuel r o : Nat) (h : r + 3 < rlim ∧ o + 4 < olim) :
    0 < (sha1SaltLoop rb rlim olim (fuel + 1) r o).length := by
  simp only [sha1SaltLoop, h, and_self, if_true, List.length_append, enc24_length]; omega

/-- a canonical sha1crypt setting parses to its fields -/
theorem parseSha1_canon (r : Nat) (salt tail : Bytes) (hr : r ≤ ULONG_MAX) (hs : ∀ x ∈ salt, x ∈ Gen.ascii64) (hne : salt.length ≠ 0)
    (hfit : ¬ (sha1Magic.length + (toDec r).length + 1 + salt.length + 1 + Gen.SHA1_OUTPUT_SIZE + 1 > Gen.CRYPT_OUTPUT_SIZE)) :
    parseSha1 (sha1Magic ++ (toDec r ++ 36 :: (salt ++ 36 :: tail))) = .ok { iterations := r, salt := salt } := by
  unfold parseSha1
  simp only []
  rw [hasPrefix_append]
  simp only [List.drop_left, not_true_eq_false, if_false]
  rw [strtoul10_toDec r _ hr]
  simp only [cat_append_mid, ne_eq, not_true_eq_false, if_false]
  have hd : (toDec r ++ 36 :: (salt ++ 36 :: tail)).drop ((toDec r).length + 1) = salt ++ 36 :: tail := by
    rw [show toDec r ++ 36 :: (salt ++ 36 :: tail) = (toDec r ++ [36]) ++ (salt ++ 36 :: tail) by simp only [List.append_assoc, List.singleton_append]]
    rw [show (toDec r).length + 1 = (toDec r ++ [36]).length by simp only [List.length_append, List.length_cons, List.length_nil], List.drop_left]
  rw [hd, strspn_stop salt 36 tail Gen.ascii64 hs (by decide), cat_append_mid]
  have c2 : ¬ (salt.length = 0 ∨ ¬ (36 : UInt8) = 0 ∧ ¬ True) := by
    intro h; rcases h with h | h
    · exact hne h
    · exact h.2 trivial
  simp only [c2, if_false, hfit, List.take_left]

theorem cryptSha1_of_parse (D : Digests) (p s : Bytes) (P : Sha1Parsed) (h : parseSha1 s = .ok P) :
    cryptSha1 D p s = .ok (sha1Magic ++ toDec P.iterations ++ [36] ++ P.salt ++ [36] ++ sha1Encode (D.sha1crypt p P.salt P.iterations)) := by
  unfold cryptSha1; rw [h]

theorem accept_sha1 (count : Nat) (rb : Bytes) (n osize : Nat) (S : Bytes) (e : Nat) (h : gensaltSha1 count rb n osize = .ok S e)
    (D : Digests) (p : Bytes) : ∃ H, cryptSha1 D p S = .ok H ∧ S <+: H := by
  unfold gensaltSha1 at h
  have hsl : Gen.CRYPT_SHA1_SALT_LENGTH = 64 := by decide
  generalize Gen.CRYPT_SHA1_SALT_LENGTH = F at h hsl
  have hr := sha1Rounds_lt count rb
  generalize sha1Rounds count rb = r at *
  have hdl : (toDec r).length ≤ 10 := toDec_length_le10 r (by omega)
  have hdp := toDec_length_pos r
  have hn0l : ([36, 115, 104, 97, 49, 36] ++ toDec r ++ [36] : Bytes).length = 7 + (toDec r).length := by
    simp only [List.length_append, List.length_cons, List.length_nil]; omega
  split at h; · cases h
  rename_i hn
  split at h; · cases h
  rename_i hos
  simp only [hn0l] at h
  generalize hL : (toDec r).length = L at *
  split at h; · cases h
  rename_i hn0
  simp only [WOut.ok.injEq] at h
  obtain ⟨hS, _⟩ := h
  simp only [Nat.not_lt] at hn hos
  -- the effective output limit
  generalize holim : (if 7 + L + F + 2 > osize then osize - 2 else 7 + L + F) = olim at hS
  have holb : 7 + L + 4 < olim ∧ olim ≤ 7 + L + 64 := by rw [← holim, hsl]; split <;> omega
  generalize hsalt : sha1SaltLoop rb n olim (F + 1) 4 (7 + L) = salt at hS
  obtain ⟨sp1, sp2⟩ := sha1SaltLoop_spec rb n olim (F + 1) 4 (7 + L)
  have spos := sha1SaltLoop_nonempty rb n olim F 4 (7 + L) ⟨by omega, holb.1⟩
  rw [hsalt] at sp1 sp2 spos
  have hslen : salt.length ≤ 64 := by rw [Nat.max_def] at sp2; split at sp2 <;> omega
  have hm : ([36, 115, 104, 97, 49, 36] : Bytes) = sha1Magic := rfl
  subst hS
  refine ⟨sha1Magic ++ toDec r ++ [36] ++ salt ++ [36] ++ sha1Encode (D.sha1crypt p salt r), ?_, ⟨sha1Encode (D.sha1crypt p salt r), by rw [hm]⟩⟩
  have e1 : ([36, 115, 104, 97, 49, 36] : Bytes) ++ toDec r ++ [36] ++ salt ++ [36] = sha1Magic ++ (toDec r ++ 36 :: (salt ++ 36 :: [])) := by
    rw [hm]; simp only [List.append_assoc, List.singleton_append, List.cons_append, List.nil_append]
  have hfit : ¬ (sha1Magic.length + (toDec r).length + 1 + salt.length + 1 + Gen.SHA1_OUTPUT_SIZE + 1 > Gen.CRYPT_OUTPUT_SIZE) := by
    have : sha1Magic.length = 6 := rfl
    have : Gen.SHA1_OUTPUT_SIZE = 28 := by decide
    have : Gen.CRYPT_OUTPUT_SIZE = 384 := by decide
    omega
  have hp := parseSha1_canon r salt [] (by unfold ULONG_MAX; omega) sp1 (by omega) hfit
  rw [e1]
  exact cryptSha1_of_parse D p _ _ hp

/-! ### bcrypt -/
theorem bfEncode_chars : ∀ l : Bytes, ∀ c ∈ bfEncode l, ∃ v, c = bf64 v
  | [], c, h => by simp [bfEncode] at h
  | [a], c, h => by
    simp only [bfEncode, List.mem_cons, List.mem_nil_iff, or_false] at h
    rcases h with rfl | rfl <;> exact ⟨_, rfl⟩
  | [a, b], c, h => by
    simp only [bfEncode, List.mem_cons, List.mem_nil_iff, or_false] at h
    rcases h with rfl | rfl | rfl <;> exact ⟨_, rfl⟩
  | a :: b :: c' :: rest, c, h => by
    simp only [bfEncode, List.mem_append, List.mem_cons, List.mem_nil_iff, or_false] at h
    rcases h with (rfl | rfl | rfl | rfl) | h
    · exact ⟨_, rfl⟩
    · exact ⟨_, rfl⟩
    · exact ⟨_, rfl⟩
    · exact ⟨_, rfl⟩
    · exact bfEncode_chars rest c h

theorem bfAtoi_bf64' (v : Nat) : bfAtoi (bf64 v) = some (v % 64) := by
  have := bfAtoi_bf64 ⟨v % 64, Nat.mod_lt _ (by decide)⟩
  simpa [bf64] using this

/-- 22 valid characters decode to something -/
theorem bfDecode16_some (x : Bytes) (h : ∀ i, i < 22 → ∃ v, bfAtoi (cat x i) = some v) : ∃ out, bfDecode16 x = some out := by
  obtain ⟨v0, h0⟩ := h 0 (by omega); obtain ⟨v1, h1⟩ := h 1 (by omega); obtain ⟨v2, h2⟩ := h 2 (by omega); obtain ⟨v3, h3⟩ := h 3 (by omega)
  obtain ⟨v4, h4⟩ := h 4 (by omega); obtain ⟨v5, h5⟩ := h 5 (by omega); obtain ⟨v6, h6⟩ := h 6 (by omega); obtain ⟨v7, h7⟩ := h 7 (by omega)
  obtain ⟨v8, h8⟩ := h 8 (by omega); obtain ⟨v9, h9⟩ := h 9 (by omega); obtain ⟨v10, h10⟩ := h 10 (by omega); obtain ⟨v11, h11⟩ := h 11 (by omega)
  obtain ⟨v12, h12⟩ := h 12 (by omega); obtain ⟨v13, h13⟩ := h 13 (by omega); obtain ⟨v14, h14⟩ := h 14 (by omega); obtain ⟨v15, h15⟩ := h 15 (by omega)
  obtain ⟨v16, h16⟩ := h 16 (by omega); obtain ⟨v17, h17⟩ := h 17 (by omega); obtain ⟨v18, h18⟩ := h 18 (by omega); obtain ⟨v19, h19⟩ := h 19 (by omega)
  obtain ⟨v20, h20⟩ := h 20 (by omega); obtain ⟨v21, h21⟩ := h 21 (by omega)
  simp only [bfDecode16, bfDecode16.go, Nat.zero_add, Nat.reduceAdd, Nat.reduceEqDiff, if_false, if_true,
    h0, h1, h2, h3, h4, h5, h6, h7, h8, h9, h10, h11, h12, h13, h14, h15, h16, h17, h18, h19, h20, h21, Option.map_some]
  exact ⟨_, rfl⟩

theorem bf_cost_digits : ∀ c : Fin 32, 4 ≤ c.val →
    let d1 := (48 + c.val / 10).toUInt8; let d2 := (48 + c.val % 10).toUInt8
    ¬ (d1 < 48 ∨ d1 > 51 ∨ d2 < 48 ∨ d2 > 57 ∨ (d1 = 51 ∧ d2 > 49)) ∧ (d1.toNat - 48) * 10 + (d2.toNat - 48) = c.val ∧ ¬ (2 ^ c.val < 16) := by decide

theorem take_succ_getD (l : Bytes) (n : Nat) (h : l.length = n + 1) : l.take n ++ [l.getD n 0] = l := by
  have h1 : l.drop n = [l.getD n 0] := by
    have hl : (l.drop n).length = 1 := by simp [h]
    match hd : l.drop n, hl with
    | [x], _ =>
      have : l.getD n 0 = x := by
        have := congrArg (fun t => t.getD 0 0) hd
        simpa [List.getD_eq_getElem?_getD] using this
      rw [this]
  conv => rhs; rw [← List.take_append_drop n l]
  rw [h1]

theorem bfEncode_last16 (l : Bytes) (h : l.length = 16) : ∃ v, v < 4 ∧ cat (bfEncode l) 21 = bf64 (v * 16) := by
  match l, h with
  | [x0, x1, x2, x3, x4, x5, x6, x7, x8, x9, x10, x11, x12, x13, x14, x15], _ =>
    refine ⟨x15.toNat % 4, Nat.mod_lt _ (by decide), ?_⟩
    simp [bfEncode, cat]

theorem accept_bf (sub : UInt8) (count : Nat) (rb : Bytes) (n osize : Nat) (S : Bytes) (e : Nat) (h : gensaltBf sub count rb n osize = .ok S e)
    (D : Digests) (hst : ∀ f, D.bfSelfTest f = true) (p : Bytes) : ∃ H, cryptBf D p S = .ok H ∧ S <+: H := by
  unfold gensaltBf at h
  simp only [] at h
  split at h; · cases h
  rename_i hc
  split at h; · cases h
  simp only [WOut.ok.injEq] at h
  obtain ⟨hS, _⟩ := h
  simp only [not_or, Nat.not_lt, not_and, Decidable.not_not] at hc
  obtain ⟨_, hc4, hc31, hsub⟩ := hc
  generalize dfl count 5 = c at *
  have hcd := bf_cost_digits ⟨c, by omega⟩ (by simpa using hc4)
  simp only [] at hcd
  obtain ⟨hd, hcost, hpow⟩ := hcd
  -- the 22 salt characters
  have hel := bfEncode_length16 (padTo rb 16) (padTo_length rb 16)
  have hch := bfEncode_chars (padTo rb 16)
  obtain ⟨v21, hv21, hlast⟩ := bfEncode_last16 (padTo rb 16) (padTo_length rb 16)
  generalize bfEncode (padTo rb 16) = enc at *
  have hS' : S = [36, 50, sub, 36, (48 + c / 10).toUInt8, (48 + c % 10).toUInt8, 36] ++ enc := hS.symm
  have hlen : S.length = 29 := by rw [hS']; simp [hel]
  have hcat : ∀ i, i < 22 → cat S (7 + i) = cat enc i := by
    intro i hi; rw [hS']; simp only [cat, List.getD_eq_getElem?_getD]
    rw [List.getElem?_append_right (by simp)]; simp
  have hvalid : ∀ i, i < 22 → ∃ v, bfAtoi (cat enc i) = some v := by
    intro i hi
    have hm : cat enc i ∈ enc := by
      unfold cat; rw [List.getD_eq_getElem?_getD, List.getElem?_eq_getElem (by omega)]; simp
    obtain ⟨v, hv⟩ := hch _ hm
    exact ⟨v % 64, by rw [hv, bfAtoi_bf64']⟩
  obtain ⟨salt, hsalt⟩ := bfDecode16_some (S.drop 7) (by intro i hi; rw [cat_drop, hcat i hi]; exact hvalid i hi)
  -- the parse
  have hflags : (Gen.flags_by_subtype.getD (sub.toNat - 97) 0).toNat ≠ 0 := by
    rcases Classical.em (sub = 97) with h | h
    · subst h; decide
    · rcases Classical.em (sub = 98) with h2 | h2
      · subst h2; decide
      · have := hsub h h2; subst this; decide
  have hrange : ¬ (sub < 97 ∨ sub > 122) := by
    rcases Classical.em (sub = 97) with h | h
    · subst h; decide
    · rcases Classical.em (sub = 98) with h2 | h2
      · subst h2; decide
      · have := hsub h h2; subst this; decide
  have hparse : parseBf S = some { flags := (Gen.flags_by_subtype.getD (sub.toNat - 97) 0).toNat, cost := c, salt := salt } := by
    unfold parseBf
    have c0 : cat S 0 = 36 := by rw [hS']; rfl
    have c1 : cat S 1 = 50 := by rw [hS']; rfl
    have c2 : cat S 2 = sub := by rw [hS']; rfl
    have c3 : cat S 3 = 36 := by rw [hS']; rfl
    have c4 : cat S 4 = (48 + c / 10).toUInt8 := by rw [hS']; rfl
    have c5 : cat S 5 = (48 + c % 10).toUInt8 := by rw [hS']; rfl
    have c6 : cat S 6 = 36 := by rw [hS']; rfl
    simp only [c0, c1, c2, c3, c4, c5, c6, hsalt]
    have g1 : ¬ ((36 : UInt8) ≠ 36 ∨ (50 : UInt8) ≠ 50 ∨ sub < 97 ∨ sub > 122) := by
      intro h; rcases h with h | h | h
      · exact h rfl
      · exact h rfl
      · exact hrange h
    have g2 : ¬ ((Gen.flags_by_subtype.getD (sub.toNat - 97) 0).toNat = 0 ∨ (36 : UInt8) ≠ 36 ∨ (48 + c / 10).toUInt8 < 48 ∨
            (48 + c / 10).toUInt8 > 51 ∨ (48 + c % 10).toUInt8 < 48 ∨ (48 + c % 10).toUInt8 > 57 ∨
            (48 + c / 10).toUInt8 = 51 ∧ (48 + c % 10).toUInt8 > 49 ∨ (36 : UInt8) ≠ 36) := by
      intro h; rcases h with h | h | h | h | h | h | h | h
      · exact hflags h
      · exact h rfl
      · exact hd (Or.inl h)
      · exact hd (Or.inr (Or.inl h))
      · exact hd (Or.inr (Or.inr (Or.inl h)))
      · exact hd (Or.inr (Or.inr (Or.inr (Or.inl h))))
      · exact hd (Or.inr (Or.inr (Or.inr (Or.inr h))))
      · exact h rfl
    rw [if_neg g1, if_neg g2, hcost, if_neg hpow]
  -- the 29th character is kept as it is: its four unused bits are already zero
  have h28 : cat S 28 = bf64 (v21 * 16) := by
    have := hcat 21 (by omega); rw [show 7 + 21 = 28 from rfl] at this; rw [this, hlast]
  refine ⟨S ++ bfEncode (D.bf (Gen.flags_by_subtype.getD (sub.toNat - 97) 0).toNat c salt p), ?_, ⟨_, rfl⟩⟩
  unfold cryptBf
  rw [hparse]
  simp only [hst, not_true_eq_false, if_false]
  have hB : Gen.BF_SETTING_LENGTH - 1 = 28 := by decide
  rw [hB, h28, bfAtoi_bf64']
  have e16 : v21 * 16 % 64 / 16 * 16 = v21 * 16 := by omega
  simp only [Option.getD_some, e16]
  rw [← h28]
  have := take_succ_getD S 28 hlen
  unfold cat
  rw [this]

end Xc

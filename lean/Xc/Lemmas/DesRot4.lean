/- kernel-free bit-vector identities: rotating a 28-bit half by the cumulative shifts of the DES key schedule (for Lemmas/DesKs.lean); four modules so that they build in parallel -/
import Xc.Spec.DesTables
import Xc.Lemmas.DesPerm
namespace Xc.Des
open Xc Xc.Spec.DesT

set_option maxRecDepth 100000 in
theorem rot_23 (k : UInt32) : (((k &&& 0x0fffffff) <<< 23) ||| ((k &&& 0x0fffffff) >>> 5)) &&& 0x0fffffff = rotl28 (k &&& 0x0fffffff) 23 := by
  have ht : rotTbl 23 = [24, 25, 26, 27, 28, 1, 2, 3, 4, 5, 6, 7, 8, 9, 10, 11, 12, 13, 14, 15, 16, 17, 18, 19, 20, 21, 22, 23] := by decide
  simp only [rotl28, ht, gather, bitAt, List.length_cons, List.length_nil, List.range, List.range.loop, List.foldl, List.getD_cons_zero, List.getD_cons_succ]
  apply UInt32.eq_of_toBitVec_eq
  ext i hi
  rcases cases32 hi with rfl | rfl | rfl | rfl | rfl | rfl | rfl | rfl | rfl | rfl | rfl | rfl | rfl | rfl | rfl | rfl | rfl | rfl | rfl | rfl |
    rfl | rfl | rfl | rfl | rfl | rfl | rfl | rfl | rfl | rfl | rfl | rfl <;> simp

set_option maxRecDepth 100000 in
theorem rot_25 (k : UInt32) : (((k &&& 0x0fffffff) <<< 25) ||| ((k &&& 0x0fffffff) >>> 3)) &&& 0x0fffffff = rotl28 (k &&& 0x0fffffff) 25 := by
  have ht : rotTbl 25 = [26, 27, 28, 1, 2, 3, 4, 5, 6, 7, 8, 9, 10, 11, 12, 13, 14, 15, 16, 17, 18, 19, 20, 21, 22, 23, 24, 25] := by decide
  simp only [rotl28, ht, gather, bitAt, List.length_cons, List.length_nil, List.range, List.range.loop, List.foldl, List.getD_cons_zero, List.getD_cons_succ]
  apply UInt32.eq_of_toBitVec_eq
  ext i hi
  rcases cases32 hi with rfl | rfl | rfl | rfl | rfl | rfl | rfl | rfl | rfl | rfl | rfl | rfl | rfl | rfl | rfl | rfl | rfl | rfl | rfl | rfl |
    rfl | rfl | rfl | rfl | rfl | rfl | rfl | rfl | rfl | rfl | rfl | rfl <;> simp

set_option maxRecDepth 100000 in
theorem rot_27 (k : UInt32) : (((k &&& 0x0fffffff) <<< 27) ||| ((k &&& 0x0fffffff) >>> 1)) &&& 0x0fffffff = rotl28 (k &&& 0x0fffffff) 27 := by
  have ht : rotTbl 27 = [28, 1, 2, 3, 4, 5, 6, 7, 8, 9, 10, 11, 12, 13, 14, 15, 16, 17, 18, 19, 20, 21, 22, 23, 24, 25, 26, 27] := by decide
  simp only [rotl28, ht, gather, bitAt, List.length_cons, List.length_nil, List.range, List.range.loop, List.foldl, List.getD_cons_zero, List.getD_cons_succ]
  apply UInt32.eq_of_toBitVec_eq
  ext i hi
  rcases cases32 hi with rfl | rfl | rfl | rfl | rfl | rfl | rfl | rfl | rfl | rfl | rfl | rfl | rfl | rfl | rfl | rfl | rfl | rfl | rfl | rfl |
    rfl | rfl | rfl | rfl | rfl | rfl | rfl | rfl | rfl | rfl | rfl | rfl <;> simp

set_option maxRecDepth 100000 in
theorem rot_28 (k : UInt32) : (((k &&& 0x0fffffff) <<< 28) ||| ((k &&& 0x0fffffff) >>> 0)) &&& 0x0fffffff = rotl28 (k &&& 0x0fffffff) 28 := by
  have ht : rotTbl 28 = [1, 2, 3, 4, 5, 6, 7, 8, 9, 10, 11, 12, 13, 14, 15, 16, 17, 18, 19, 20, 21, 22, 23, 24, 25, 26, 27, 28] := by decide
  simp only [rotl28, ht, gather, bitAt, List.length_cons, List.length_nil, List.range, List.range.loop, List.foldl, List.getD_cons_zero, List.getD_cons_succ]
  apply UInt32.eq_of_toBitVec_eq
  ext i hi
  rcases cases32 hi with rfl | rfl | rfl | rfl | rfl | rfl | rfl | rfl | rfl | rfl | rfl | rfl | rfl | rfl | rfl | rfl | rfl | rfl | rfl | rfl |
    rfl | rfl | rfl | rfl | rfl | rfl | rfl | rfl | rfl | rfl | rfl | rfl <;> simp

end Xc.Des

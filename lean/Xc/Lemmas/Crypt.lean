import Xc.Api
namespace Xc

def errOk (e : Errno) : Prop := e = .EINVAL ∨ e = .ERANGE

macro "err_cases" h:ident : tactic =>
  `(tactic| (repeat' (split at $h:ident)) <;> (first | (cases $h:ident; done) | (cases $h:ident; simp [errOk]; done) | skip))

theorem parseSha_err {pfx rp : Bytes} {d mn mx sm : Nat} {s : Bytes} {e : Errno}
    (h : parseSha pfx rp d mn mx sm s = .error e) : e = .EINVAL := by
  unfold parseSha at h
  simp only [] at h
  repeat' (split at h)
  all_goals first | (cases h; rfl) | (cases h; done)

theorem cryptMd5_err {D : Digests} {p s : Bytes} {e : Errno} (h : cryptMd5 D p s = .error e) : errOk e := by
  unfold cryptMd5 at h
  split at h
  · cases h; simp [errOk]
  · cases h

theorem cryptSha256_err {D : Digests} {p s : Bytes} {e : Errno} (h : cryptSha256 D p s = .error e) : errOk e := by
  unfold cryptSha256 at h
  split at h
  · cases h; rename_i h'; rw [parseSha_err h']; simp [errOk]
  · cases h

theorem cryptSha512_err {D : Digests} {p s : Bytes} {e : Errno} (h : cryptSha512 D p s = .error e) : errOk e := by
  unfold cryptSha512 at h
  split at h
  · cases h; rename_i h'; rw [parseSha_err h']; simp [errOk]
  · cases h


theorem sunStep2_err {s : Bytes} {n p : Nat} {e : Errno} (h : sunStep2 s n p = .error e) : errOk e := by
  unfold sunStep2 at h
  simp only [] at h
  repeat' (split at h)
  all_goals first | (cases h; simp [errOk]; done) | (cases h; done)

theorem parseSunmd5_err {s : Bytes} {e : Errno} (h : parseSunmd5 s = .error e) : errOk e := by
  unfold parseSunmd5 at h
  simp only [] at h
  repeat' (split at h)
  all_goals first | (cases h; simp [errOk]; done) | (cases h; done) | exact sunStep2_err h

theorem cryptSunmd5_err {D : Digests} {p s : Bytes} {e : Errno} (h : cryptSunmd5 D p s = .error e) : errOk e := by
  unfold cryptSunmd5 at h
  split at h
  · cases h; rename_i h'; exact parseSunmd5_err h'
  · cases h

theorem parseSha1_err {s : Bytes} {e : Errno} (h : parseSha1 s = .error e) : errOk e := by
  unfold parseSha1 at h
  simp only [] at h
  repeat' (split at h)
  all_goals first | (cases h; simp [errOk]; done) | (cases h; done)

theorem cryptSha1_err {D : Digests} {p s : Bytes} {e : Errno} (h : cryptSha1 D p s = .error e) : errOk e := by
  unfold cryptSha1 at h
  split at h
  · cases h; rename_i h'; exact parseSha1_err h'
  · cases h

theorem cryptNt_err {D : Digests} {p s : Bytes} {e : Errno} (h : cryptNt D p s = .error e) : errOk e := by
  unfold cryptNt at h
  split at h
  · cases h; simp [errOk]
  · cases h

theorem cryptDes_err {D : Digests} {p s : Bytes} {e : Errno} (h : cryptDes D p s = .error e) : errOk e := by
  unfold cryptDes at h
  split at h
  · cases h; simp [errOk]
  · cases h

theorem cryptBig_err {d : Bool} {D : Digests} {p s : Bytes} {e : Errno} (h : cryptBig d D p s = .error e) : errOk e := by
  unfold cryptBig at h
  split at h
  · split at h
    · exact cryptDes_err h
    · cases h; simp [errOk]
  · split at h
    · cases h; simp [errOk]
    · cases h

theorem cryptBsdi_err {D : Digests} {p s : Bytes} {e : Errno} (h : cryptBsdi D p s = .error e) : errOk e := by
  unfold cryptBsdi at h
  repeat' (split at h)
  all_goals first | (cases h; simp [errOk]; done) | (cases h; done)

theorem cryptBf_err {D : Digests} {p s : Bytes} {e : Errno} (h : cryptBf D p s = .error e) : errOk e := by
  unfold cryptBf at h
  simp only [] at h
  repeat' (split at h)
  all_goals first | (cases h; simp [errOk]; done) | (cases h; done)

theorem cryptYescryptCore_err {D : Digests} {p s : Bytes} {e : Errno} (h : cryptYescryptCore D p s = .error e) : errOk e := by
  unfold cryptYescryptCore at h
  repeat' (split at h)
  all_goals first | (cases h; simp [errOk]; done) | (cases h; done)

theorem cryptScrypt_err {D : Digests} {p s : Bytes} {e : Errno} (h : cryptScrypt D p s = .error e) : errOk e := by
  unfold cryptScrypt at h
  split at h; · cases h; simp [errOk]
  exact cryptYescryptCore_err h

theorem cryptGost_err {D : Digests} {p s : Bytes} {e : Errno} (h : cryptGost D p s = .error e) : errOk e := by
  unfold cryptGost at h
  simp only [] at h
  repeat' (split at h)
  all_goals first | (cases h; simp [errOk]; done) | (cases h; done)

/-- every method reports failure with EINVAL or ERANGE -/
theorem cryptMethod_err {d : Bool} {D : Digests} {m : Method} {p s : Bytes} {e : Errno}
    (h : cryptMethod d D m p s = .error e) : errOk e := by
  cases m <;> simp only [cryptMethod] at h
  · exact cryptYescryptCore_err h
  · exact cryptGost_err h
  · exact cryptScrypt_err h
  · exact cryptBf_err h
  · exact cryptBf_err h
  · exact cryptBf_err h
  · exact cryptBf_err h
  · exact cryptSha512_err h
  · exact cryptSha256_err h
  · exact cryptSha1_err h
  · exact cryptSunmd5_err h
  · exact cryptMd5_err h
  · exact cryptNt_err h
  · exact cryptBsdi_err h
  · exact cryptBig_err h
  · exact cryptDes_err h

end Xc

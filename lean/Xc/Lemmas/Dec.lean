import Xc.Base
namespace Xc

/-- digit count with the recursion skeleton of `decDigitsAux` -/
def ndF : Nat → Nat → Nat
  | 0, _ => 0
  | f + 1, n => if n / 10 = 0 then 1 else 1 + ndF f (n / 10)

theorem decDigitsAux_length (fuel n : Nat) (acc : Bytes) :
    (decDigitsAux fuel n acc).length = acc.length + ndF fuel n := by
  induction fuel generalizing n acc with
  | zero => simp [decDigitsAux, ndF]
  | succ f ih =>
    simp only [decDigitsAux, ndF]
    split
    · simp
    · rw [ih]; simp; omega

theorem ndF_eq (k : Nat) : ∀ f n, 10 ^ k ≤ n → n < 10 ^ (k + 1) → k < f → ndF f n = k + 1 := by
  induction k with
  | zero =>
    intro f n _ h2 hf
    cases f with
    | zero => omega
    | succ f => simp only [ndF]; have : n / 10 = 0 := by simp at h2; omega
                simp [this]
  | succ k ih =>
    intro f n h1 h2 hf
    cases f with
    | zero => omega
    | succ f =>
      simp only [ndF]
      have hp : 10 ^ (k + 1) = 10 ^ k * 10 := Nat.pow_succ 10 k
      have hp2 : 10 ^ (k + 1 + 1) = 10 ^ (k + 1) * 10 := Nat.pow_succ 10 (k + 1)
      have hk : 0 < 10 ^ k := Nat.pow_pos (by decide)
      have hne : ¬ n / 10 = 0 := by omega
      simp only [hne, if_false]
      have := ih f (n / 10) (by omega) (by omega) (by omega)
      omega

theorem ndF_zero (f : Nat) : ndF (f + 1) 0 = 1 := by simp [ndF]

/-- number of decimal digits, as a closed case split (valid below 10^11) -/
def numDigits (n : Nat) : Nat :=
  if n < 10 then 1 else if n < 100 then 2 else if n < 1000 then 3 else if n < 10000 then 4
  else if n < 100000 then 5 else if n < 1000000 then 6 else if n < 10000000 then 7
  else if n < 100000000 then 8 else if n < 1000000000 then 9 else if n < 10000000000 then 10
  else 11

theorem toDec_length (n : Nat) (h : n < 100000000000) : (toDec n).length = numDigits n := by
  unfold toDec
  rw [decDigitsAux_length]
  simp only [List.length_nil, Nat.zero_add]
  by_cases h0 : n = 0
  · subst h0; simp [ndF, numDigits]
  unfold numDigits
  split; · exact ndF_eq 0 20 n (by omega) (by omega) (by omega)
  split; · exact ndF_eq 1 20 n (by omega) (by omega) (by omega)
  split; · exact ndF_eq 2 20 n (by omega) (by omega) (by omega)
  split; · exact ndF_eq 3 20 n (by omega) (by omega) (by omega)
  split; · exact ndF_eq 4 20 n (by omega) (by omega) (by omega)
  split; · exact ndF_eq 5 20 n (by omega) (by omega) (by omega)
  split; · exact ndF_eq 6 20 n (by omega) (by omega) (by omega)
  split; · exact ndF_eq 7 20 n (by omega) (by omega) (by omega)
  split; · exact ndF_eq 8 20 n (by omega) (by omega) (by omega)
  split; · exact ndF_eq 9 20 n (by omega) (by omega) (by omega)
  exact ndF_eq 10 20 n (by omega) (by omega) (by omega)

theorem toDec_length_pos (n : Nat) : 0 < (toDec n).length := by
  unfold toDec; rw [decDigitsAux_length]; show 0 < 0 + ndF (19 + 1) n; rw [ndF]; split <;> omega

end Xc

/- kernel-evaluated byte/group facts for Lemmas/DesRound.lean, one module each so that they build in parallel -/
import Xc.Spec.DesTables
import Xc.Gen.DesTables
import Xc.Lemmas.DesPerm
namespace Xc.Des
open Xc Xc.Spec.DesT

set_option maxRecDepth 100000 in
theorem pc1_byte : ∀ i : Fin 8, ∀ b : Fin 256,
    (lookL Gen.des_key_perm_maskl i.val (b.val / 2), lookL Gen.des_key_perm_maskr i.val (b.val / 2)) = selN 32 PC1 28 (place i.val (UInt32.ofNat b.val)) := by
  decide +kernel
end Xc.Des

/-
  DES (C17): the table-driven round of `des_crypt_block` (alg-des.c: E by masks and shifts, the salt's XOR-swap, four lookups
  `psbox[b][m_sbox[b][12 bits]]` OR-ed together) is the round of FIPS 46-3, `L' = R, R' = L ⊕ P(S(E(R) ⊕ K))`, stated bit by bit
  from the FIPS tables E, S1…S8 and P (Spec/DesTables.lean: `fipsF`), for every salt, every pair of halves and every round key of
  two 24-bit halves; `des_set_key` only produces such keys; hence a whole pass of the code is sixteen FIPS rounds.

  Ingredients: E as a bit-vector identity (32 bit positions, `simp`); P is OR-linear (`gather_or`, any bit-selection table); the
  tables extracted from the tree are, entry by entry, the S-box pair outputs (`msbox_flat`) and P applied to one byte in place
  (`psbox_gather`) - kernel-evaluated over all 4 x 4096 resp. 4 x 256 entries; index arithmetic by `omega`.
-/
import Xc.Spec.DesTables
import Xc.Gen.DesTables
import Xc.Lemmas.DesPerm
import Xc.Lemmas.DesBytesIp
import Xc.Lemmas.DesBytesFp
import Xc.Lemmas.DesBytesPc1
import Xc.Lemmas.DesBytesPc2
namespace Xc.Des
open Xc Xc.Spec.DesT

def r48l (r : UInt32) : UInt32 := ((r &&& 0x00000001) <<< 23) ||| ((r &&& 0xf8000000) >>> 9) ||| ((r &&& 0x1f800000) >>> 11)
              ||| ((r &&& 0x01f80000) >>> 13) ||| ((r &&& 0x001f8000) >>> 15)
def r48r (r : UInt32) : UInt32 := ((r &&& 0x0001f800) <<< 7) ||| ((r &&& 0x00001f80) <<< 5) ||| ((r &&& 0x000001f8) <<< 3)
              ||| ((r &&& 0x0000001f) <<< 1) ||| ((r &&& 0x80000000) >>> 31)

set_option maxRecDepth 100000 in
theorem r48l_eq (r : UInt32) : r48l r = gather (E.take 24) 32 r := by
  simp only [r48l, gather, bitAt, E, List.take, List.length_cons, List.length_nil, List.range, List.range.loop, List.foldl, List.getD_cons_zero, List.getD_cons_succ]
  apply UInt32.eq_of_toBitVec_eq
  ext i hi
  rcases cases32 hi with rfl | rfl | rfl | rfl | rfl | rfl | rfl | rfl | rfl | rfl | rfl | rfl | rfl | rfl | rfl | rfl | rfl | rfl | rfl | rfl |
    rfl | rfl | rfl | rfl | rfl | rfl | rfl | rfl | rfl | rfl | rfl | rfl <;> simp

set_option maxRecDepth 100000 in
theorem r48r_eq (r : UInt32) : r48r r = gather (E.drop 24) 32 r := by
  simp only [r48r, gather, bitAt, E, List.drop, List.length_cons, List.length_nil, List.range, List.range.loop, List.foldl, List.getD_cons_zero, List.getD_cons_succ]
  apply UInt32.eq_of_toBitVec_eq
  ext i hi
  rcases cases32 hi with rfl | rfl | rfl | rfl | rfl | rfl | rfl | rfl | rfl | rfl | rfl | rfl | rfl | rfl | rfl | rfl | rfl | rfl | rfl | rfl |
    rfl | rfl | rfl | rfl | rfl | rfl | rfl | rfl | rfl | rfl | rfl | rfl <;> simp

theorem bitAt_or (n : Nat) (a b : UInt32) (j : Nat) (d : UInt32) :
    bitAt n (a ||| b) j <<< d = bitAt n a j <<< d ||| bitAt n b j <<< d := by
  unfold bitAt
  rw [UInt32.shiftRight_or, ← UInt32.shiftLeft_or]
  congr 1
  simp [← UInt32.toBitVec_inj, BitVec.and_or_distrib_right]

/-- a bit-selection table distributes over OR (it only moves and copies bits) -/
theorem gather_or (tbl : List Nat) (n : Nat) (a b : UInt32) : gather tbl n (a ||| b) = gather tbl n a ||| gather tbl n b := by
  unfold gather
  generalize tbl.length - 1 = m
  have key : ∀ (l : List Nat) (x y : UInt32),
      l.foldl (fun acc i => acc ||| (bitAt n (a ||| b) (tbl.getD i 0) <<< (m - i).toUInt32)) (x ||| y) =
      l.foldl (fun acc i => acc ||| (bitAt n a (tbl.getD i 0) <<< (m - i).toUInt32)) x |||
      l.foldl (fun acc i => acc ||| (bitAt n b (tbl.getD i 0) <<< (m - i).toUInt32)) y := by
    intro l
    induction l with
    | nil => intro x y; rfl
    | cons i l ih =>
      intro x y
      simp only [List.foldl_cons]
      rw [bitAt_or, ← ih]
      congr 1
      ac_rfl
  have := key (List.range tbl.length) 0 0
  simpa using this

/-- the salt: where a salt bit is set the corresponding bits of the two halves of E(R) change places -/
theorem salt_swap (x y s : UInt32) : x ^^^ ((x ^^^ y) &&& s) = (x &&& ~~~ s) ||| (y &&& s) := by
  apply UInt32.eq_of_toBitVec_eq
  ext i hi
  simp
  generalize x.toBitVec[i] = a; generalize y.toBitVec[i] = b; generalize s.toBitVec[i] = c
  cases a <;> cases b <;> cases c <;> rfl

/-! ### the tables -/
def psboxL (b v : Nat) : UInt32 := (Gen.des_psbox.getD b []).getD v 0
def msboxL (b x : Nat) : UInt8 := ((Gen.des_m_sbox.getD b []).flatMap id).getD x 0

theorem psbox_get (b v : Nat) : (psbox[b]!)[v]! = psboxL b v := by
  unfold psbox tbl psboxL
  simp only [List.getD_eq_getElem?_getD]
  by_cases hi : b < Gen.des_psbox.length
  · simp [hi]
    by_cases hx : v < Gen.des_psbox[b].length
    · simp [hx]
    · simp [hx]; rfl
  · simp [hi]; rfl

theorem msbox_get (b x : Nat) : (mSbox[b]!)[x]! = msboxL b x := by
  unfold mSbox msboxL
  simp only [List.getD_eq_getElem?_getD]
  by_cases hi : b < Gen.des_m_sbox.length
  · simp [hi]
    rfl
  · simp [hi]; rfl

set_option maxRecDepth 100000 in
theorem msbox_flat : ∀ b : Fin 4, (Gen.des_m_sbox.getD b.val []).flatMap id = (List.range 4096).map (fun i => (mSboxEntry b.val i).toUInt8) := by
  decide +kernel

set_option maxRecDepth 100000 in
theorem psbox_flat : ∀ b : Fin 4, Gen.des_psbox.getD b.val [] = (List.range 256).map (fun i => (psboxEntry b.val i).toUInt32) := by
  decide +kernel

set_option maxRecDepth 100000 in
theorem usbox_lt : ∀ i : Fin 8, ∀ j : Fin 64, uSbox i.val j.val < 16 := by decide +kernel

set_option maxRecDepth 100000 in
/-- a `psbox` entry is the P permutation applied to the byte in its place -/
theorem psbox_gather : ∀ b : Fin 4, ∀ v : Fin 256,
    (psboxEntry b.val v.val).toUInt32 = gather PBOX 32 (v.val.toUInt32 <<< (24 - 8 * b.val).toUInt32) := by
  decide +kernel

set_option maxRecDepth 100000 in
theorem nibbles : ∀ b : Fin 4, ∀ u1 u2 : Fin 16,
    (u1.val * 16 + u2.val).toUInt32 <<< (24 - 8 * b.val).toUInt32 =
      u1.val.toUInt32 <<< (28 - 8 * b.val).toUInt32 ||| u2.val.toUInt32 <<< (24 - 8 * b.val).toUInt32 := by
  decide +kernel

/-! ### assembling the round -/

/-- a value that fits in 24 bits -/
def M24 (x : UInt32) : Prop := x &&& 0xffffff = x

theorem M24_lt {x : UInt32} (h : M24 x) : x.toNat < 2 ^ 24 := by
  unfold M24 at h
  have h2 := congrArg UInt32.toNat h
  rw [UInt32.toNat_and] at h2
  have hm : (0xffffff : UInt32).toNat = 2 ^ 24 - 1 := rfl
  rw [hm, Nat.and_two_pow_sub_one_eq_mod] at h2
  rw [← h2]; exact Nat.mod_lt _ (by decide)

theorem M24_of_lt {x : UInt32} (h : x.toNat < 2 ^ 24) : M24 x := by
  unfold M24
  apply UInt32.toNat_inj.mp
  rw [UInt32.toNat_and]
  have hm : (0xffffff : UInt32).toNat = 2 ^ 24 - 1 := rfl
  rw [hm, Nat.and_two_pow_sub_one_eq_mod]
  exact Nat.mod_eq_of_lt h

theorem M24_xor {a b : UInt32} (ha : M24 a) (hb : M24 b) : M24 (a ^^^ b) := by
  unfold M24 at *
  have : (a ^^^ b) &&& 0xffffff = (a &&& 0xffffff) ^^^ (b &&& 0xffffff) := by
    apply UInt32.eq_of_toBitVec_eq
    apply BitVec.eq_of_getElem_eq
    intro i hi
    simp only [UInt32.toBitVec_and, UInt32.toBitVec_xor, BitVec.getElem_and, BitVec.getElem_xor]
    generalize a.toBitVec[i] = x; generalize b.toBitVec[i] = y; generalize (UInt32.toBitVec 0xffffff)[i] = z
    cases x <;> cases y <;> cases z <;> rfl
  rw [this, ha, hb]

theorem M24_or {a b : UInt32} (ha : M24 a) (hb : M24 b) : M24 (a ||| b) := by
  unfold M24 at *
  have : (a ||| b) &&& 0xffffff = (a &&& 0xffffff) ||| (b &&& 0xffffff) := by
    simp [← UInt32.toBitVec_inj, BitVec.and_or_distrib_right]
  rw [this, ha, hb]

theorem M24_and {a : UInt32} (c : UInt32) (ha : M24 a) : M24 (a &&& c) := by
  unfold M24 at *
  have : (a &&& c) &&& 0xffffff = (a &&& 0xffffff) &&& c := by
    simp [← UInt32.toBitVec_inj]; ac_rfl
  rw [this, ha]

theorem r48l_M24 (r : UInt32) : M24 (r48l r) := by
  unfold M24 r48l
  apply UInt32.eq_of_toBitVec_eq
  ext i hi
  rcases cases32 hi with rfl | rfl | rfl | rfl | rfl | rfl | rfl | rfl | rfl | rfl | rfl | rfl | rfl | rfl | rfl | rfl | rfl | rfl | rfl | rfl |
    rfl | rfl | rfl | rfl | rfl | rfl | rfl | rfl | rfl | rfl | rfl | rfl <;> simp

theorem r48r_M24 (r : UInt32) : M24 (r48r r) := by
  unfold M24 r48r
  apply UInt32.eq_of_toBitVec_eq
  ext i hi
  rcases cases32 hi with rfl | rfl | rfl | rfl | rfl | rfl | rfl | rfl | rfl | rfl | rfl | rfl | rfl | rfl | rfl | rfl | rfl | rfl | rfl | rfl |
    rfl | rfl | rfl | rfl | rfl | rfl | rfl | rfl | rfl | rfl | rfl | rfl <;> simp

/-- one table term of the round: `psbox[b][m_sbox[b][idx]]` is P applied to the outputs of S-boxes 2b+1 and 2b+2 (FIPS numbering) in their places -/
theorem term_eq (b : Nat) (hb : b < 4) (idx : Nat) (h : idx < 4096) :
    (psbox[b]!)[((mSbox[b]!)[idx]!).toNat]! =
      gather PBOX 32 ((uSbox (2 * b) (idx / 64)).toUInt32 <<< (28 - 8 * b).toUInt32 |||
                      (uSbox (2 * b + 1) (idx % 64)).toUInt32 <<< (24 - 8 * b).toUInt32) := by
  have h1 : idx / 64 < 64 := by omega
  have h2 : idx % 64 < 64 := by omega
  have hu1 := usbox_lt ⟨2 * b, by omega⟩ ⟨idx / 64, h1⟩
  have hu2 := usbox_lt ⟨2 * b + 1, by omega⟩ ⟨idx % 64, h2⟩
  simp only at hu1 hu2
  rw [msbox_get, psbox_get]
  unfold msboxL psboxL
  rw [msbox_flat ⟨b, hb⟩, psbox_flat ⟨b, hb⟩]
  have hm : mSboxEntry b idx = uSbox (2 * b) (idx / 64) * 16 + uSbox (2 * b + 1) (idx % 64) := rfl
  have hlt : mSboxEntry b idx < 256 := by rw [hm]; omega
  have e1 : ((List.range 4096).map (fun i => (mSboxEntry b i).toUInt8)).getD idx 0 = (mSboxEntry b idx).toUInt8 := by
    simp [List.getD_eq_getElem?_getD, h]
  rw [e1]
  have e2 : (mSboxEntry b idx).toUInt8.toNat = mSboxEntry b idx := by
    simp [Nat.toUInt8]; omega
  rw [e2]
  have e3 : ((List.range 256).map (fun i => (psboxEntry b i).toUInt32)).getD (mSboxEntry b idx) 0 = (psboxEntry b (mSboxEntry b idx)).toUInt32 := by
    simp [List.getD_eq_getElem?_getD, hlt]
  rw [e3, psbox_gather ⟨b, hb⟩ ⟨mSboxEntry b idx, hlt⟩]
  simp only
  rw [hm, nibbles ⟨b, hb⟩ ⟨_, hu1⟩ ⟨_, hu2⟩]

theorem or8_assoc (a b c d e f g h : UInt32) :
    a ||| b ||| c ||| d ||| e ||| f ||| g ||| h = a ||| b ||| (c ||| d) ||| (e ||| f) ||| (g ||| h) := by
  simp only [UInt32.or_assoc]

theorem toNat_shr12 (x : UInt32) : (x >>> 12).toNat = x.toNat / 4096 := by
  rw [UInt32.toNat_shiftRight]; simp [Nat.shiftRight_eq_div_pow]

theorem toNat_and_fff (x : UInt32) : (x &&& 0xfff).toNat = x.toNat % 4096 := by
  rw [UInt32.toNat_and]
  have hm : (0xfff : UInt32).toNat = 2 ^ 12 - 1 := rfl
  rw [hm, Nat.and_two_pow_sub_one_eq_mod]

/-- **the table-driven round of alg-des.c is the FIPS 46-3 round**: for every salt, every pair of halves and every 48-bit round key
    (two 24-bit halves), `L' = R`, `R' = L ⊕ P(S(E(R) ⊕ K))` with the salt's exchange of E-bits -/
theorem round_fips (salt l r kl kr : UInt32) (hkl : kl.toNat < 2 ^ 24) (hkr : kr.toNat < 2 ^ 24) :
    round salt l r kl kr = (r, l ^^^ fipsF salt r kl kr) := by
  have hx : round salt l r kl kr =
      (r, ((psbox[0]!)[((mSbox[0]!)[((r48l r ^^^ ((r48l r ^^^ r48r r) &&& salt) ^^^ kl) >>> 12).toNat]!).toNat]! |||
           (psbox[1]!)[((mSbox[1]!)[((r48l r ^^^ ((r48l r ^^^ r48r r) &&& salt) ^^^ kl) &&& 0xfff).toNat]!).toNat]! |||
           (psbox[2]!)[((mSbox[2]!)[((r48r r ^^^ ((r48l r ^^^ r48r r) &&& salt) ^^^ kr) >>> 12).toNat]!).toNat]! |||
           (psbox[3]!)[((mSbox[3]!)[((r48r r ^^^ ((r48l r ^^^ r48r r) &&& salt) ^^^ kr) &&& 0xfff).toNat]!).toNat]!) ^^^ l) := rfl
  rw [hx]
  have el : r48l r ^^^ ((r48l r ^^^ r48r r) &&& salt) = (r48l r &&& ~~~ salt) ||| (r48r r &&& salt) := salt_swap _ _ _
  have er : r48r r ^^^ ((r48l r ^^^ r48r r) &&& salt) = (r48r r &&& ~~~ salt) ||| (r48l r &&& salt) := by
    rw [UInt32.xor_comm (r48l r) (r48r r)]; exact salt_swap _ _ _
  rw [el, er]
  have ml : M24 (((r48l r &&& ~~~ salt) ||| (r48r r &&& salt)) ^^^ kl) :=
    M24_xor (M24_or (M24_and _ (r48l_M24 r)) (M24_and _ (r48r_M24 r))) (M24_of_lt hkl)
  have mr : M24 (((r48r r &&& ~~~ salt) ||| (r48l r &&& salt)) ^^^ kr) :=
    M24_xor (M24_or (M24_and _ (r48r_M24 r)) (M24_and _ (r48l_M24 r))) (M24_of_lt hkr)
  unfold fipsF
  simp only [← r48l_eq, ← r48r_eq]
  generalize ((r48l r &&& ~~~ salt) ||| (r48r r &&& salt)) ^^^ kl = xl at *
  generalize ((r48r r &&& ~~~ salt) ||| (r48l r &&& salt)) ^^^ kr = xr at *
  have bl := M24_lt ml
  have br := M24_lt mr
  rw [toNat_shr12, toNat_and_fff, toNat_shr12, toNat_and_fff]
  have t0 : (psbox[0]!)[((mSbox[0]!)[xl.toNat / 4096]!).toNat]! =
      gather PBOX 32 ((uSbox 0 (xl.toNat / 4096 / 64)).toUInt32 <<< 28 ||| (uSbox 1 (xl.toNat / 4096 % 64)).toUInt32 <<< 24) :=
    term_eq 0 (by decide) (xl.toNat / 4096) (by omega)
  have t1 : (psbox[1]!)[((mSbox[1]!)[xl.toNat % 4096]!).toNat]! =
      gather PBOX 32 ((uSbox 2 (xl.toNat % 4096 / 64)).toUInt32 <<< 20 ||| (uSbox 3 (xl.toNat % 4096 % 64)).toUInt32 <<< 16) :=
    term_eq 1 (by decide) (xl.toNat % 4096) (by omega)
  have t2 : (psbox[2]!)[((mSbox[2]!)[xr.toNat / 4096]!).toNat]! =
      gather PBOX 32 ((uSbox 4 (xr.toNat / 4096 / 64)).toUInt32 <<< 12 ||| (uSbox 5 (xr.toNat / 4096 % 64)).toUInt32 <<< 8) :=
    term_eq 2 (by decide) (xr.toNat / 4096) (by omega)
  have t3 : (psbox[3]!)[((mSbox[3]!)[xr.toNat % 4096]!).toNat]! =
      gather PBOX 32 ((uSbox 6 (xr.toNat % 4096 / 64)).toUInt32 <<< 4 ||| (uSbox 7 (xr.toNat % 4096 % 64)).toUInt32 <<< 0) :=
    term_eq 3 (by decide) (xr.toNat % 4096) (by omega)
  rw [t0, t1, t2, t3, ← gather_or, ← gather_or, ← gather_or, UInt32.xor_comm, UInt32.shiftLeft_zero]
  have a0 : xl.toNat / 4096 / 64 = xl.toNat / 2 ^ (18 - 6 * 0) % 64 := by simp <;> omega
  have a1 : xl.toNat / 4096 % 64 = xl.toNat / 2 ^ (18 - 6 * 1) % 64 := by simp <;> omega
  have a2 : xl.toNat % 4096 / 64 = xl.toNat / 2 ^ (18 - 6 * 2) % 64 := by simp <;> omega
  have a3 : xl.toNat % 4096 % 64 = xl.toNat / 2 ^ (18 - 6 * 3) % 64 := by simp <;> omega
  have b0 : xr.toNat / 4096 / 64 = xr.toNat / 2 ^ (18 - 6 * 0) % 64 := by simp <;> omega
  have b1 : xr.toNat / 4096 % 64 = xr.toNat / 2 ^ (18 - 6 * 1) % 64 := by simp <;> omega
  have b2 : xr.toNat % 4096 / 64 = xr.toNat / 2 ^ (18 - 6 * 2) % 64 := by simp <;> omega
  have b3 : xr.toNat % 4096 % 64 = xr.toNat / 2 ^ (18 - 6 * 3) % 64 := by simp <;> omega
  have key : sboxOut xl xr =
      ((uSbox 0 (xl.toNat / 4096 / 64)).toUInt32 <<< 28 ||| (uSbox 1 (xl.toNat / 4096 % 64)).toUInt32 <<< 24 |||
        ((uSbox 2 (xl.toNat % 4096 / 64)).toUInt32 <<< 20 ||| (uSbox 3 (xl.toNat % 4096 % 64)).toUInt32 <<< 16) |||
        ((uSbox 4 (xr.toNat / 4096 / 64)).toUInt32 <<< 12 ||| (uSbox 5 (xr.toNat / 4096 % 64)).toUInt32 <<< 8) |||
        ((uSbox 6 (xr.toNat % 4096 / 64)).toUInt32 <<< 4 ||| (uSbox 7 (xr.toNat % 4096 % 64)).toUInt32)) := by
    unfold sboxOut sixAt
    rw [a0, a1, a2, a3, b0, b1, b2, b3]
    exact or8_assoc _ _ _ _ _ _ _ _
  rw [key]
theorem M24_zero : M24 0 := by unfold M24; rfl

theorem foldl_inv {α β : Type} (Inv : β → Prop) (f : β → α → β) (h : ∀ b a, Inv b → Inv (f b a)) :
    ∀ (l : List α) (b : β), Inv b → Inv (l.foldl f b)
  | [], _, hb => hb
  | a :: l, b, hb => foldl_inv Inv f h l (f b a) (h b a hb)

def allM24 (t : List (List UInt32)) : Bool := t.all fun row => row.all fun x => x &&& 0xffffff == x

theorem lookL_M24 (t : List (List UInt32)) (ht : allM24 t = true) (i n : Nat) : M24 (lookL t i n) := by
  unfold lookL
  simp only [List.getD_eq_getElem?_getD]
  cases hi : t[i]? with
  | none => simpa using M24_zero
  | some row =>
    simp only [Option.getD_some]
    cases hn : row[n]? with
    | none => simpa using M24_zero
    | some x =>
      simp only [Option.getD_some]
      unfold allM24 at ht
      rw [List.all_eq_true] at ht
      have hr := ht row (List.mem_of_getElem? hi)
      rw [List.all_eq_true] at hr
      have hx := hr x (List.mem_of_getElem? hn)
      simpa [M24] using hx

set_option maxRecDepth 100000 in
theorem comp_M24 : allM24 Gen.des_comp_maskl = true ∧ allM24 Gen.des_comp_maskr = true := by
  constructor <;> decide +kernel

theorem or8_M24 (t : List (List UInt32)) (ht : allM24 t = true) (ix : Fin 8 → UInt32) : M24 (or8 (tbl t) ix) := by
  rw [or8_tbl]
  exact M24_or (M24_or (M24_or (M24_or (M24_or (M24_or (M24_or (lookL_M24 t ht _ _) (lookL_M24 t ht _ _)) (lookL_M24 t ht _ _)) (lookL_M24 t ht _ _))
    (lookL_M24 t ht _ _)) (lookL_M24 t ht _ _)) (lookL_M24 t ht _ _)) (lookL_M24 t ht _ _)

/-- every round key `des_set_key` produces fits in 24 bits (per half) -/
theorem setKey_M24 (key : Bytes) : (∀ x ∈ (setKey key).1.toList, M24 x) ∧ (∀ x ∈ (setKey key).2.toList, M24 x) := by
  unfold setKey
  simp only [Id.run]
  simp
  generalize hA : List.foldl _ _ (List.range' 0 16) = A
  have hinv : (∀ x ∈ A.2.1.toList, M24 x) ∧ (∀ x ∈ A.2.2.toList, M24 x) := by
    rw [← hA]
    apply foldl_inv (fun (st : UInt32 × Array UInt32 × Array UInt32) => (∀ x ∈ st.2.1.toList, M24 x) ∧ (∀ x ∈ st.2.2.toList, M24 x))
    · intro b a hb
      constructor
      · intro x hx
        simp only [Array.toList_push, List.mem_append, List.mem_singleton] at hx
        rcases hx with hx | rfl
        · exact hb.1 x hx
        · exact or8_M24 _ comp_M24.1 _
      · intro x hx
        simp only [Array.toList_push, List.mem_append, List.mem_singleton] at hx
        rcases hx with hx | rfl
        · exact hb.2 x hx
        · exact or8_M24 _ comp_M24.2 _
    · simp
  simpa [pure] using hinv

theorem getElemBang_M24 (a : Array UInt32) (h : ∀ x ∈ a.toList, M24 x) (i : Nat) : M24 a[i]! := by
  by_cases hi : i < a.size
  · rw [getElem!_pos a i hi]
    exact h _ (by simp)
  · rw [getElem!_neg a i hi]
    exact M24_zero

/-- the round keys the code walks through - forwards or backwards - are 24-bit halves -/
theorem keyList_24 (key : Bytes) (salt : Nat) (decrypt : Bool) :
    ∀ k ∈ keyList (mkCtx key salt) decrypt, k.1.toNat < 2 ^ 24 ∧ k.2.toNat < 2 ^ 24 := by
  intro k hk
  have hm := setKey_M24 key
  have hin : k ∈ (List.range 16).map fun i => ((setKey key).1[i]!, (setKey key).2[i]!) := by
    unfold keyList mkCtx at hk
    by_cases hd : decrypt = true
    · simpa [hd] using hk
    · simpa [hd] using hk
  obtain ⟨i, _, rfl⟩ := List.mem_map.1 hin
  exact ⟨M24_lt (getElemBang_M24 _ hm.1 i), M24_lt (getElemBang_M24 _ hm.2 i)⟩

/-- sixteen FIPS rounds and the final exchange of the halves -/
def passFips (salt : UInt32) (ks : List (UInt32 × UInt32)) (p : UInt32 × UInt32) : UInt32 × UInt32 :=
  let q := ks.foldl (fun (p : UInt32 × UInt32) k => (p.2, p.1 ^^^ fipsF salt p.2 k.1 k.2)) p
  (q.2, q.1)

theorem pass_fips (salt : UInt32) (ks : List (UInt32 × UInt32)) (h : ∀ k ∈ ks, k.1.toNat < 2 ^ 24 ∧ k.2.toNat < 2 ^ 24) (p : UInt32 × UInt32) :
    pass salt ks p = passFips salt ks p := by
  unfold pass passFips
  have key : ∀ (l : List (UInt32 × UInt32)), (∀ k ∈ l, k.1.toNat < 2 ^ 24 ∧ k.2.toNat < 2 ^ 24) → ∀ p : UInt32 × UInt32,
      l.foldl (fun (p : UInt32 × UInt32) k => round salt p.1 p.2 k.1 k.2) p =
      l.foldl (fun (p : UInt32 × UInt32) k => (p.2, p.1 ^^^ fipsF salt p.2 k.1 k.2)) p := by
    intro l
    induction l with
    | nil => intro _ p; rfl
    | cons k l ih =>
      intro hl p
      simp only [List.foldl_cons]
      rw [round_fips salt p.1 p.2 k.1 k.2 (hl k List.mem_cons_self).1 (hl k List.mem_cons_self).2]
      exact ih (fun k' hk' => hl k' (List.mem_cons_of_mem _ hk')) _
  rw [key ks h p]
theorem gatherN_or (h : Nat) (tbl : List Nat) (l l' r r' : UInt32) :
    gatherN h tbl (l ||| l') (r ||| r') = gatherN h tbl l r ||| gatherN h tbl l' r' := by
  unfold gatherN
  generalize tbl.length - 1 = m
  have term : ∀ j d, bitAtN h (l ||| l') (r ||| r') j <<< d = bitAtN h l r j <<< d ||| bitAtN h l' r' j <<< d := by
    intro j d; unfold bitAtN; split <;> exact bitAt_or _ _ _ _ _
  have key : ∀ (ls : List Nat) (x y : UInt32),
      ls.foldl (fun acc i => acc ||| (bitAtN h (l ||| l') (r ||| r') (tbl.getD i 0) <<< (m - i).toUInt32)) (x ||| y) =
      ls.foldl (fun acc i => acc ||| (bitAtN h l r (tbl.getD i 0) <<< (m - i).toUInt32)) x |||
      ls.foldl (fun acc i => acc ||| (bitAtN h l' r' (tbl.getD i 0) <<< (m - i).toUInt32)) y := by
    intro ls
    induction ls with
    | nil => intro x y; rfl
    | cons i ls ih =>
      intro x y
      simp only [List.foldl_cons]
      rw [term, ← ih]
      congr 1
      ac_rfl
  have := key (List.range tbl.length) 0 0
  simpa using this

theorem selN_or (h : Nat) (tbl : List Nat) (k : Nat) (p q : UInt32 × UInt32) : selN h tbl k (por p q) = por (selN h tbl k p) (selN h tbl k q) := by
  unfold selN por
  simp only [gatherN_or]


/-! ### the key schedule's two permuted choices -/

theorem sev25 (a : UInt32) : (a >>> 25) &&& (0x7f : UInt32) = ((a >>> 24) &&& (0xff : UInt32)) >>> (1 : UInt32) := by
  apply UInt32.eq_of_toBitVec_eq; ext i hi
  rcases cases32 hi with rfl | rfl | rfl | rfl | rfl | rfl | rfl | rfl | rfl | rfl | rfl | rfl | rfl | rfl | rfl | rfl | rfl | rfl | rfl | rfl |
    rfl | rfl | rfl | rfl | rfl | rfl | rfl | rfl | rfl | rfl | rfl | rfl <;> simp
theorem sev17 (a : UInt32) : (a >>> 17) &&& (0x7f : UInt32) = ((a >>> 16) &&& (0xff : UInt32)) >>> (1 : UInt32) := by
  apply UInt32.eq_of_toBitVec_eq; ext i hi
  rcases cases32 hi with rfl | rfl | rfl | rfl | rfl | rfl | rfl | rfl | rfl | rfl | rfl | rfl | rfl | rfl | rfl | rfl | rfl | rfl | rfl | rfl |
    rfl | rfl | rfl | rfl | rfl | rfl | rfl | rfl | rfl | rfl | rfl | rfl <;> simp
theorem sev9 (a : UInt32) : (a >>> 9) &&& (0x7f : UInt32) = ((a >>> 8) &&& (0xff : UInt32)) >>> (1 : UInt32) := by
  apply UInt32.eq_of_toBitVec_eq; ext i hi
  rcases cases32 hi with rfl | rfl | rfl | rfl | rfl | rfl | rfl | rfl | rfl | rfl | rfl | rfl | rfl | rfl | rfl | rfl | rfl | rfl | rfl | rfl |
    rfl | rfl | rfl | rfl | rfl | rfl | rfl | rfl | rfl | rfl | rfl | rfl <;> simp
theorem sev1 (a : UInt32) : (a >>> 1) &&& (0x7f : UInt32) = (a &&& (0xff : UInt32)) >>> (1 : UInt32) := by
  apply UInt32.eq_of_toBitVec_eq; ext i hi
  rcases cases32 hi with rfl | rfl | rfl | rfl | rfl | rfl | rfl | rfl | rfl | rfl | rfl | rfl | rfl | rfl | rfl | rfl | rfl | rfl | rfl | rfl |
    rfl | rfl | rfl | rfl | rfl | rfl | rfl | rfl | rfl | rfl | rfl | rfl <;> simp

theorem seven_eq_byte (a b : UInt32) (j : Fin 8) : (sevenOfKey a b j).toNat = (bytesOf a b j).toNat / 2 := by
  have e : sevenOfKey a b j = bytesOf a b j >>> 1 := by
    have h : j = 0 ∨ j = 1 ∨ j = 2 ∨ j = 3 ∨ j = 4 ∨ j = 5 ∨ j = 6 ∨ j = 7 := by omega
    rcases h with rfl | rfl | rfl | rfl | rfl | rfl | rfl | rfl
    · exact sev25 a
    · exact sev17 a
    · exact sev9 a
    · exact sev1 a
    · exact sev25 b
    · exact sev17 b
    · exact sev9 b
    · exact sev1 b
  rw [e, UInt32.toNat_shiftRight]
  simp [Nat.shiftRight_eq_div_pow]

/-- a pair of byte-indexed (through `g`) table lookups OR-ed over the eight bytes of a block computes `spec` on every block, if `spec`
    distributes over OR and agrees on every single byte in place -/
theorem permG_spec (tl tr : List (List UInt32)) (g : Nat → Nat) (spec : UInt32 × UInt32 → UInt32 × UInt32)
    (hor : ∀ p q, spec (por p q) = por (spec p) (spec q))
    (hbyte : ∀ i : Fin 8, ∀ b : Fin 256, (lookL tl i.val (g b.val), lookL tr i.val (g b.val)) = spec (place i.val (UInt32.ofNat b.val)))
    (p : UInt32 × UInt32) :
    (lookL tl 0 (g (bytesOf p.1 p.2 0).toNat) ||| lookL tl 1 (g (bytesOf p.1 p.2 1).toNat) ||| lookL tl 2 (g (bytesOf p.1 p.2 2).toNat) |||
     lookL tl 3 (g (bytesOf p.1 p.2 3).toNat) ||| lookL tl 4 (g (bytesOf p.1 p.2 4).toNat) ||| lookL tl 5 (g (bytesOf p.1 p.2 5).toNat) |||
     lookL tl 6 (g (bytesOf p.1 p.2 6).toNat) ||| lookL tl 7 (g (bytesOf p.1 p.2 7).toNat),
     lookL tr 0 (g (bytesOf p.1 p.2 0).toNat) ||| lookL tr 1 (g (bytesOf p.1 p.2 1).toNat) ||| lookL tr 2 (g (bytesOf p.1 p.2 2).toNat) |||
     lookL tr 3 (g (bytesOf p.1 p.2 3).toNat) ||| lookL tr 4 (g (bytesOf p.1 p.2 4).toNat) ||| lookL tr 5 (g (bytesOf p.1 p.2 5).toNat) |||
     lookL tr 6 (g (bytesOf p.1 p.2 6).toNat) ||| lookL tr 7 (g (bytesOf p.1 p.2 7).toNat)) = spec p := by
  have hb : ∀ i : Fin 8, (lookL tl i.val (g (bytesOf p.1 p.2 i).toNat), lookL tr i.val (g (bytesOf p.1 p.2 i).toNat))
      = spec (place i.val (bytesOf p.1 p.2 i)) := by
    intro i
    have := hbyte i ⟨(bytesOf p.1 p.2 i).toNat, bytesOf_lt _ _ _⟩
    simp only [UInt32.ofNat_toNat] at this
    exact this
  have h0 := hb 0; have h1 := hb 1; have h2 := hb 2; have h3 := hb 3; have h4 := hb 4; have h5 := hb 5; have h6 := hb 6; have h7 := hb 7
  simp only [Fin.val_zero, Fin.val_one] at h0 h1
  have e2 : ((2 : Fin 8) : Nat) = 2 := rfl
  have e3 : ((3 : Fin 8) : Nat) = 3 := rfl
  have e4 : ((4 : Fin 8) : Nat) = 4 := rfl
  have e5 : ((5 : Fin 8) : Nat) = 5 := rfl
  have e6 : ((6 : Fin 8) : Nat) = 6 := rfl
  have e7 : ((7 : Fin 8) : Nat) = 7 := rfl
  rw [e2] at h2; rw [e3] at h3; rw [e4] at h4; rw [e5] at h5; rw [e6] at h6; rw [e7] at h7
  have chain : ∀ (a0 a1 a2 a3 a4 a5 a6 a7 b0 b1 b2 b3 b4 b5 b6 b7 : UInt32),
      (a0 ||| a1 ||| a2 ||| a3 ||| a4 ||| a5 ||| a6 ||| a7, b0 ||| b1 ||| b2 ||| b3 ||| b4 ||| b5 ||| b6 ||| b7) =
      por (por (por (por (por (por (por (a0, b0) (a1, b1)) (a2, b2)) (a3, b3)) (a4, b4)) (a5, b5)) (a6, b6)) (a7, b7) := by
    intros; rfl
  rw [chain, h0, h1, h2, h3, h4, h5, h6, h7]
  simp only [← hor]
  congr 1
  obtain ⟨l, r⟩ := p
  have b0 : bytesOf l r 0 = (l >>> 24) &&& 0xff := rfl
  have b1 : bytesOf l r 1 = (l >>> 16) &&& 0xff := rfl
  have b2 : bytesOf l r 2 = (l >>> 8) &&& 0xff := rfl
  have b3 : bytesOf l r 3 = l &&& 0xff := rfl
  have b4 : bytesOf l r 4 = (r >>> 24) &&& 0xff := rfl
  have b5 : bytesOf l r 5 = (r >>> 16) &&& 0xff := rfl
  have b6 : bytesOf l r 6 = (r >>> 8) &&& 0xff := rfl
  have b7 : bytesOf l r 7 = r &&& 0xff := rfl
  dsimp only at *
  rw [b0, b1, b2, b3, b4, b5, b6, b7]
  simp only [place, por, UInt32.or_zero, UInt32.zero_or]
  rw [recompose l, recompose r]


/-! #### IP and IP⁻¹ -/



/-- the table-driven initial and final permutations are IP and IP⁻¹ of FIPS 46-3 on every block -/
theorem ip_fips (p : UInt32 × UInt32) : permLL Gen.des_ip_maskl Gen.des_ip_maskr p = perm64 IP p :=
  permG_spec Gen.des_ip_maskl Gen.des_ip_maskr id (perm64 IP) (selN_or 32 IP 32) ip_byte p
theorem fp_fips (p : UInt32 × UInt32) : permLL Gen.des_fp_maskl Gen.des_fp_maskr p = perm64 IPinv p :=
  permG_spec Gen.des_fp_maskl Gen.des_fp_maskr id (perm64 IPinv) (selN_or 32 IPinv 32) fp_byte p

/-! #### PC-1 -/


/-- **permuted choice 1**: the first step of `des_set_key` (two table passes over the upper seven bits of the key bytes) selects exactly
    the 56 key bits of FIPS 46-3's PC-1, C0 and D0 as 28-bit words, for every 64-bit key -/
theorem pc1_fips (raw0 raw1 : UInt32) :
    (or8 keyPermL (sevenOfKey raw0 raw1), or8 keyPermR (sevenOfKey raw0 raw1)) = selN 32 PC1 28 (raw0, raw1) := by
  unfold keyPermL keyPermR
  rw [or8_tbl, or8_tbl]
  simp only [seven_eq_byte]
  exact permG_spec Gen.des_key_perm_maskl Gen.des_key_perm_maskr (· / 2) (selN 32 PC1 28) (selN_or 32 PC1 28) pc1_byte (raw0, raw1)

/-! #### PC-2 -/

/-- the low 28 bits of a word are the OR of its four 7-bit groups put back in place -/
theorem recompose28 (l : UInt32) :
    ((((l >>> 21) &&& 0x7f) <<< 21) ||| (((l >>> 14) &&& 0x7f) <<< 14) ||| (((l >>> 7) &&& 0x7f) <<< 7) ||| (l &&& 0x7f)) = l &&& 0x0fffffff := by
  apply UInt32.eq_of_toBitVec_eq
  ext i hi
  rcases cases32 hi with rfl | rfl | rfl | rfl | rfl | rfl | rfl | rfl | rfl | rfl | rfl | rfl | rfl | rfl | rfl | rfl | rfl | rfl | rfl | rfl |
    rfl | rfl | rfl | rfl | rfl | rfl | rfl | rfl | rfl | rfl | rfl | rfl <;> simp

theorem seven_lt (w : UInt32) : (w &&& 0x7f).toNat < 128 := by
  rw [UInt32.toNat_and]
  have h : (0x7f : UInt32).toNat = 2 ^ 7 - 1 := rfl
  rw [h, Nat.and_two_pow_sub_one_eq_mod]
  exact Nat.mod_lt _ (by decide)

theorem sevenOfT_lt (x y : UInt32) (j : Fin 8) : (sevenOfT x y j).toNat < 128 := by
  have h : j = 0 ∨ j = 1 ∨ j = 2 ∨ j = 3 ∨ j = 4 ∨ j = 5 ∨ j = 6 ∨ j = 7 := by omega
  rcases h with rfl | rfl | rfl | rfl | rfl | rfl | rfl | rfl <;> exact seven_lt _

/-- the analogue of `permG_spec` for tables indexed by the 7-bit groups of two 28-bit words -/
theorem permT_spec (tl tr : List (List UInt32)) (spec : UInt32 × UInt32 → UInt32 × UInt32)
    (hor : ∀ p q, spec (por p q) = por (spec p) (spec q))
    (hgrp : ∀ i : Fin 8, ∀ g : Fin 128, (lookL tl i.val g.val, lookL tr i.val g.val) = spec (place7 i.val (UInt32.ofNat g.val)))
    (p : UInt32 × UInt32) :
    (lookL tl 0 (sevenOfT p.1 p.2 0).toNat ||| lookL tl 1 (sevenOfT p.1 p.2 1).toNat ||| lookL tl 2 (sevenOfT p.1 p.2 2).toNat |||
     lookL tl 3 (sevenOfT p.1 p.2 3).toNat ||| lookL tl 4 (sevenOfT p.1 p.2 4).toNat ||| lookL tl 5 (sevenOfT p.1 p.2 5).toNat |||
     lookL tl 6 (sevenOfT p.1 p.2 6).toNat ||| lookL tl 7 (sevenOfT p.1 p.2 7).toNat,
     lookL tr 0 (sevenOfT p.1 p.2 0).toNat ||| lookL tr 1 (sevenOfT p.1 p.2 1).toNat ||| lookL tr 2 (sevenOfT p.1 p.2 2).toNat |||
     lookL tr 3 (sevenOfT p.1 p.2 3).toNat ||| lookL tr 4 (sevenOfT p.1 p.2 4).toNat ||| lookL tr 5 (sevenOfT p.1 p.2 5).toNat |||
     lookL tr 6 (sevenOfT p.1 p.2 6).toNat ||| lookL tr 7 (sevenOfT p.1 p.2 7).toNat) = spec (p.1 &&& 0x0fffffff, p.2 &&& 0x0fffffff) := by
  have hb : ∀ i : Fin 8, (lookL tl i.val (sevenOfT p.1 p.2 i).toNat, lookL tr i.val (sevenOfT p.1 p.2 i).toNat)
      = spec (place7 i.val (sevenOfT p.1 p.2 i)) := by
    intro i
    have := hgrp i ⟨(sevenOfT p.1 p.2 i).toNat, sevenOfT_lt _ _ _⟩
    simp only [UInt32.ofNat_toNat] at this
    exact this
  have h0 := hb 0; have h1 := hb 1; have h2 := hb 2; have h3 := hb 3; have h4 := hb 4; have h5 := hb 5; have h6 := hb 6; have h7 := hb 7
  simp only [Fin.val_zero, Fin.val_one] at h0 h1
  have e2 : ((2 : Fin 8) : Nat) = 2 := rfl
  have e3 : ((3 : Fin 8) : Nat) = 3 := rfl
  have e4 : ((4 : Fin 8) : Nat) = 4 := rfl
  have e5 : ((5 : Fin 8) : Nat) = 5 := rfl
  have e6 : ((6 : Fin 8) : Nat) = 6 := rfl
  have e7 : ((7 : Fin 8) : Nat) = 7 := rfl
  rw [e2] at h2; rw [e3] at h3; rw [e4] at h4; rw [e5] at h5; rw [e6] at h6; rw [e7] at h7
  have chain : ∀ (a0 a1 a2 a3 a4 a5 a6 a7 b0 b1 b2 b3 b4 b5 b6 b7 : UInt32),
      (a0 ||| a1 ||| a2 ||| a3 ||| a4 ||| a5 ||| a6 ||| a7, b0 ||| b1 ||| b2 ||| b3 ||| b4 ||| b5 ||| b6 ||| b7) =
      por (por (por (por (por (por (por (a0, b0) (a1, b1)) (a2, b2)) (a3, b3)) (a4, b4)) (a5, b5)) (a6, b6)) (a7, b7) := by
    intros; rfl
  rw [chain, h0, h1, h2, h3, h4, h5, h6, h7]
  simp only [← hor]
  congr 1
  obtain ⟨l, r⟩ := p
  have b0 : sevenOfT l r 0 = (l >>> 21) &&& 0x7f := rfl
  have b1 : sevenOfT l r 1 = (l >>> 14) &&& 0x7f := rfl
  have b2 : sevenOfT l r 2 = (l >>> 7) &&& 0x7f := rfl
  have b3 : sevenOfT l r 3 = l &&& 0x7f := rfl
  have b4 : sevenOfT l r 4 = (r >>> 21) &&& 0x7f := rfl
  have b5 : sevenOfT l r 5 = (r >>> 14) &&& 0x7f := rfl
  have b6 : sevenOfT l r 6 = (r >>> 7) &&& 0x7f := rfl
  have b7 : sevenOfT l r 7 = r &&& 0x7f := rfl
  dsimp only at *
  rw [b0, b1, b2, b3, b4, b5, b6, b7]
  simp only [place7, por, UInt32.or_zero, UInt32.zero_or]
  rw [recompose28 l, recompose28 r]


/-- **permuted choice 2**: the two table passes that turn the rotated halves C, D (the low 28 bits of the two words) into a round key
    select exactly the 48 bits of FIPS 46-3's PC-2, as two 24-bit halves -/
theorem pc2_fips (t0 t1 : UInt32) :
    (or8 compL (sevenOfT t0 t1), or8 compR (sevenOfT t0 t1)) = selN 28 PC2 24 (t0 &&& 0x0fffffff, t1 &&& 0x0fffffff) := by
  unfold compL compR
  rw [or8_tbl, or8_tbl]
  exact permT_spec Gen.des_comp_maskl Gen.des_comp_maskr (selN 28 PC2 24) (selN_or 28 PC2 24) pc2_group (t0, t1)

/-! ### the whole block function -/

/-- DES on one block from the FIPS pieces: IP, `count` passes of sixteen rounds with the given round keys, IP⁻¹ -/
def blockFips (salt : UInt32) (ks : List (UInt32 × UInt32)) (count : Nat) (p : UInt32 × UInt32) : UInt32 × UInt32 :=
  perm64 IPinv (iter (passFips salt ks) count (perm64 IP p))

theorem iter_congr {α : Type} (f g : α → α) (h : ∀ a, f a = g a) : ∀ (n : Nat) (a : α), iter f n a = iter g n a
  | 0, _ => rfl
  | n + 1, a => by simp only [iter]; rw [h a]; exact iter_congr f g h n (g a)

/-- **`des_crypt_block` is DES as FIPS 46-3 defines it** (given the round keys `des_set_key` produced): initial permutation, `count`
    times sixteen rounds `L' = R, R' = L ⊕ P(S(E(R) ⊕ K))` (with crypt(3)'s salt exchange) and the exchange of the halves, inverse
    initial permutation - on the big-endian halves of the input, for every key, salt, count, direction and block -/
theorem cryptBlock_fips (key : Bytes) (salt : Nat) (x : Bytes) (count : Nat) (decrypt : Bool) :
    cryptBlock (mkCtx key salt) x count decrypt =
      toBe32 (blockFips (saltBits salt) (keyList (mkCtx key salt) decrypt) (if count = 0 then 1 else count) (be32 x 0, be32 x 4)).1 ++
      toBe32 (blockFips (saltBits salt) (keyList (mkCtx key salt) decrypt) (if count = 0 then 1 else count) (be32 x 0, be32 x 4)).2 := by
  rw [cryptBlock_eq]
  unfold blockFips
  have hs : (mkCtx key salt).saltbits = saltBits salt := rfl
  rw [hs, fp_fips, ip_fips,
    iter_congr _ _ (fun a => pass_fips (saltBits salt) (keyList (mkCtx key salt) decrypt) (keyList_24 key salt decrypt) a)]
end Xc.Des

import Xc.Base
namespace Xc

/-- a property of bytes can be checked on the 256 values -/
theorem forall_uint8 (P : UInt8 → Prop) (h : ∀ k : Fin 256, P (UInt8.ofNat k.val)) (c : UInt8) : P c := by
  have := h ⟨c.toNat, c.toNat_lt⟩
  simpa using this

theorem forall_uint8_2 (P : UInt8 → UInt8 → Prop) (h : ∀ k : Fin 65536, P (UInt8.ofNat (k.val / 256)) (UInt8.ofNat (k.val % 256))) (a b : UInt8) : P a b := by
  have ha := a.toNat_lt; have hb := b.toNat_lt
  have := h ⟨a.toNat * 256 + b.toNat, by omega⟩
  have e1 : (a.toNat * 256 + b.toNat) / 256 = a.toNat := by omega
  have e2 : (a.toNat * 256 + b.toNat) % 256 = b.toNat := by omega
  simp only [e1, e2] at this
  simpa using this

end Xc

/- kernel-free bit-vector identities: rotating a 28-bit half by the cumulative shifts of the DES key schedule (for Lemmas/DesKs.lean); four modules so that they build in parallel -/
import Xc.Spec.DesTables
import Xc.Lemmas.DesPerm
namespace Xc.Des
open Xc Xc.Spec.DesT

set_option maxRecDepth 100000 in
theorem rot_8 (k : UInt32) : (((k &&& 0x0fffffff) <<< 8) ||| ((k &&& 0x0fffffff) >>> 20)) &&& 0x0fffffff = rotl28 (k &&& 0x0fffffff) 8 := by
  have ht : rotTbl 8 = [9, 10, 11, 12, 13, 14, 15, 16, 17, 18, 19, 20, 21, 22, 23, 24, 25, 26, 27, 28, 1, 2, 3, 4, 5, 6, 7, 8] := by decide
  simp only [rotl28, ht, gather, bitAt, List.length_cons, List.length_nil, List.range, List.range.loop, List.foldl, List.getD_cons_zero, List.getD_cons_succ]
  apply UInt32.eq_of_toBitVec_eq
  ext i hi
  rcases cases32 hi with rfl | rfl | rfl | rfl | rfl | rfl | rfl | rfl | rfl | rfl | rfl | rfl | rfl | rfl | rfl | rfl | rfl | rfl | rfl | rfl |
    rfl | rfl | rfl | rfl | rfl | rfl | rfl | rfl | rfl | rfl | rfl | rfl <;> simp

set_option maxRecDepth 100000 in
theorem rot_10 (k : UInt32) : (((k &&& 0x0fffffff) <<< 10) ||| ((k &&& 0x0fffffff) >>> 18)) &&& 0x0fffffff = rotl28 (k &&& 0x0fffffff) 10 := by
  have ht : rotTbl 10 = [11, 12, 13, 14, 15, 16, 17, 18, 19, 20, 21, 22, 23, 24, 25, 26, 27, 28, 1, 2, 3, 4, 5, 6, 7, 8, 9, 10] := by decide
  simp only [rotl28, ht, gather, bitAt, List.length_cons, List.length_nil, List.range, List.range.loop, List.foldl, List.getD_cons_zero, List.getD_cons_succ]
  apply UInt32.eq_of_toBitVec_eq
  ext i hi
  rcases cases32 hi with rfl | rfl | rfl | rfl | rfl | rfl | rfl | rfl | rfl | rfl | rfl | rfl | rfl | rfl | rfl | rfl | rfl | rfl | rfl | rfl |
    rfl | rfl | rfl | rfl | rfl | rfl | rfl | rfl | rfl | rfl | rfl | rfl <;> simp

set_option maxRecDepth 100000 in
theorem rot_12 (k : UInt32) : (((k &&& 0x0fffffff) <<< 12) ||| ((k &&& 0x0fffffff) >>> 16)) &&& 0x0fffffff = rotl28 (k &&& 0x0fffffff) 12 := by
  have ht : rotTbl 12 = [13, 14, 15, 16, 17, 18, 19, 20, 21, 22, 23, 24, 25, 26, 27, 28, 1, 2, 3, 4, 5, 6, 7, 8, 9, 10, 11, 12] := by decide
  simp only [rotl28, ht, gather, bitAt, List.length_cons, List.length_nil, List.range, List.range.loop, List.foldl, List.getD_cons_zero, List.getD_cons_succ]
  apply UInt32.eq_of_toBitVec_eq
  ext i hi
  rcases cases32 hi with rfl | rfl | rfl | rfl | rfl | rfl | rfl | rfl | rfl | rfl | rfl | rfl | rfl | rfl | rfl | rfl | rfl | rfl | rfl | rfl |
    rfl | rfl | rfl | rfl | rfl | rfl | rfl | rfl | rfl | rfl | rfl | rfl <;> simp

set_option maxRecDepth 100000 in
theorem rot_14 (k : UInt32) : (((k &&& 0x0fffffff) <<< 14) ||| ((k &&& 0x0fffffff) >>> 14)) &&& 0x0fffffff = rotl28 (k &&& 0x0fffffff) 14 := by
  have ht : rotTbl 14 = [15, 16, 17, 18, 19, 20, 21, 22, 23, 24, 25, 26, 27, 28, 1, 2, 3, 4, 5, 6, 7, 8, 9, 10, 11, 12, 13, 14] := by decide
  simp only [rotl28, ht, gather, bitAt, List.length_cons, List.length_nil, List.range, List.range.loop, List.foldl, List.getD_cons_zero, List.getD_cons_succ]
  apply UInt32.eq_of_toBitVec_eq
  ext i hi
  rcases cases32 hi with rfl | rfl | rfl | rfl | rfl | rfl | rfl | rfl | rfl | rfl | rfl | rfl | rfl | rfl | rfl | rfl | rfl | rfl | rfl | rfl |
    rfl | rfl | rfl | rfl | rfl | rfl | rfl | rfl | rfl | rfl | rfl | rfl <;> simp

end Xc.Des

/-
  `%lu` and `strtoul` are inverse on the unsigned long range: what a front-end prints into the cost field is what the
  parser reads back (needed by the C01 round-trip theorems).
-/
import Xc.Lemmas.Dec
namespace Xc

def digitOf (n : Nat) : UInt8 := 48 + (n % 10).toUInt8

theorem digitOf_isDigit (n : Nat) : isDigit (digitOf n) = true := by
  have h : ∀ k : Fin 10, isDigit (48 + (k.val).toUInt8) = true := by decide
  exact h ⟨n % 10, Nat.mod_lt _ (by decide)⟩

theorem digitOf_val (n : Nat) : (digitOf n).toNat - 48 = n % 10 := by
  have h : ∀ k : Fin 10, ((48 : UInt8) + (k.val).toUInt8).toNat - 48 = k.val := by decide
  exact h ⟨n % 10, Nat.mod_lt _ (by decide)⟩

theorem digitOf_pos (n : Nat) (h : n % 10 ≠ 0) : 49 ≤ digitOf n ∧ digitOf n ≤ 57 := by
  have h' : ∀ k : Fin 10, k.val ≠ 0 → (49 : UInt8) ≤ 48 + (k.val).toUInt8 ∧ (48 : UInt8) + (k.val).toUInt8 ≤ 57 := by decide
  exact h' ⟨n % 10, Nat.mod_lt _ (by decide)⟩ h

theorem decDigitsAux_acc (fuel n : Nat) (acc : Bytes) : decDigitsAux fuel n acc = decDigitsAux fuel n [] ++ acc := by
  induction fuel generalizing n acc with
  | zero => simp [decDigitsAux]
  | succ f ih =>
    simp only [decDigitsAux]
    split
    · simp
    · rw [ih (n / 10) (_ :: acc), ih (n / 10) [_]]; simp

theorem decDigitsAux_succ (f n : Nat) : decDigitsAux (f + 1) n [] = (if n / 10 = 0 then [] else decDigitsAux f (n / 10) []) ++ [digitOf n] := by
  simp only [decDigitsAux]
  split
  · simp [digitOf]
  · rw [decDigitsAux_acc]; simp [digitOf]

theorem digitsValue_snoc (ds : Bytes) (c : UInt8) : digitsValue (ds ++ [c]) = digitsValue ds * 10 + (c.toNat - 48) := by
  simp [digitsValue, List.foldl_append]

theorem decDigits_all (f n : Nat) : ∀ c ∈ decDigitsAux f n [], isDigit c = true := by
  induction f generalizing n with
  | zero => simp [decDigitsAux]
  | succ f ih =>
    rw [decDigitsAux_succ]
    intro c hc
    simp only [List.mem_append, List.mem_singleton] at hc
    rcases hc with hc | rfl
    · split at hc
      · simp at hc
      · exact ih _ c hc
    · exact digitOf_isDigit n

theorem decDigits_value (f n : Nat) (h : n < 10 ^ f) : digitsValue (decDigitsAux f n []) = n := by
  induction f generalizing n with
  | zero => simp at h; subst h; simp [decDigitsAux, digitsValue]
  | succ f ih =>
    rw [decDigitsAux_succ, digitsValue_snoc, digitOf_val]
    split
    · rename_i h0; simp [digitsValue]; omega
    · rw [ih (n / 10) (by rw [Nat.pow_succ] at h; omega)]; omega

theorem decDigits_head (f n : Nat) (h : n < 10 ^ f) (hn : 0 < n) :
    ∃ c t, decDigitsAux f n [] = c :: t ∧ 49 ≤ c ∧ c ≤ 57 := by
  induction f generalizing n with
  | zero => simp at h; omega
  | succ f ih =>
    rw [decDigitsAux_succ]
    split
    · rename_i h0
      have := digitOf_pos n (by omega)
      exact ⟨digitOf n, [], by simp, this.1, this.2⟩
    · rename_i h0
      obtain ⟨c, t, e, a, b⟩ := ih (n / 10) (by rw [Nat.pow_succ] at h; omega) (by omega)
      exact ⟨c, t ++ [digitOf n], by simp [e], a, b⟩

theorem toDec_digits (n : Nat) : ∀ c ∈ toDec n, isDigit c = true := decDigits_all 20 n
theorem toDec_value (n : Nat) (h : n < 10 ^ 20) : digitsValue (toDec n) = n := decDigits_value 20 n h
theorem toDec_head (n : Nat) (h : n < 10 ^ 20) (hn : 0 < n) : ∃ c t, toDec n = c :: t ∧ 49 ≤ c ∧ c ≤ 57 := decDigits_head 20 n h hn
theorem toDec_cons (n : Nat) : ∃ c t, toDec n = c :: t ∧ isDigit c = true := by
  have := toDec_length_pos n
  cases h : toDec n with
  | nil => simp [h] at this
  | cons c t => exact ⟨c, t, rfl, toDec_digits n c (by simp [h])⟩

/-- `strtoul` reads back what `%lu` printed, and stops at the `$` that follows -/
theorem strtoul10_toDec (n : Nat) (rest : Bytes) (h : n ≤ ULONG_MAX) :
    strtoul10 (toDec n ++ 36 :: rest) = { value := n, consumed := (toDec n).length, erange := false } := by
  obtain ⟨c, t, e, hc⟩ := toDec_cons n
  have hall := toDec_digits n
  have hv := toDec_value n (by unfold ULONG_MAX at h; omega)
  have htw : (toDec n ++ 36 :: rest).takeWhile isDigit = toDec n := by
    rw [List.takeWhile_append_of_pos hall]; simp [isDigit]
  have c45 : c ≠ 45 := by intro h; subst h; simp [isDigit] at hc
  have c43 : c ≠ 43 := by intro h; subst h; simp [isDigit] at hc
  unfold strtoul10
  rw [e] at htw ⊢
  simp only [List.cons_append]
  split
  · rename_i heq; simp at heq; exact absurd heq.1 c45
  · rename_i heq; simp at heq; exact absurd heq.1 c43
  · simp only [List.drop_zero]
    rw [show c :: (t ++ 36 :: rest) = (c :: t) ++ 36 :: rest from rfl, htw]
    rw [e] at hv
    have hle : ¬ n > ULONG_MAX := Nat.not_lt.mpr h
    simp [hv, hle]
end Xc

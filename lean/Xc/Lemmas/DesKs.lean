/-
  DES key schedule (C17): `des_set_key` computes the key schedule KS of FIPS 46-3 - PC-1, cumulative left rotations of the 28-bit halves
  by the published shift schedule, PC-2 - for every key and round; together with Lemmas/DesRound.lean (`cryptBlock_fips`) the whole
  `des_set_key; des_set_salt; des_crypt_block` is DES as the standard defines it (`des_fips`).

  The loop is unrolled by `simp` (sixteen concrete cumulative shifts, taken from the tree's `key_shifts`); each rotation expression
  `(k << s) | (k >> (28 - s))` on a 28-bit value is the FIPS-style selection table `rotTbl s` (Lemmas/DesRot*.lean); PC-1's output fits
  in 28 bits because every entry of the tree's `key_perm_mask` tables does.
-/
import Xc.Lemmas.DesRound
import Xc.Lemmas.DesRot1
import Xc.Lemmas.DesRot2
import Xc.Lemmas.DesRot3
import Xc.Lemmas.DesRot4
namespace Xc.Des
open Xc Xc.Spec.DesT

/-- one round key from the cumulative shift `s` -/
def rkOf (k0 k1 s : UInt32) : UInt32 × UInt32 :=
  (or8 compL (sevenOfT (k0 <<< s ||| k0 >>> (28 - s)) (k1 <<< s ||| k1 >>> (28 - s))),
   or8 compR (sevenOfT (k0 <<< s ||| k0 >>> (28 - s)) (k1 <<< s ||| k1 >>> (28 - s))))

theorem setKey_unrolled (key : Bytes) :
    setKey key =
      (let k0 := or8 keyPermL (sevenOfKey (be32 key 0) (be32 key 4))
       let k1 := or8 keyPermR (sevenOfKey (be32 key 0) (be32 key 4))
       (([1, 2, 4, 6, 8, 10, 12, 14, 15, 17, 19, 21, 23, 25, 27, 28].map fun s => (rkOf k0 k1 s).1).toArray,
        ([1, 2, 4, 6, 8, 10, 12, 14, 15, 17, 19, 21, 23, 25, 27, 28].map fun s => (rkOf k0 k1 s).2).toArray)) := by
  unfold setKey
  simp only [Id.run]
  simp [List.range', rkOf, keyShifts, Gen.des_key_shifts]
  rfl
/-- a value that fits in 28 bits -/
def M28 (x : UInt32) : Prop := x &&& 0x0fffffff = x
theorem M28_zero : M28 0 := by unfold M28; rfl
theorem M28_or {a b : UInt32} (ha : M28 a) (hb : M28 b) : M28 (a ||| b) := by
  unfold M28 at *
  have : (a ||| b) &&& 0x0fffffff = (a &&& 0x0fffffff) ||| (b &&& 0x0fffffff) := by
    simp [← UInt32.toBitVec_inj, BitVec.and_or_distrib_right]
  rw [this, ha, hb]
def allM28 (t : List (List UInt32)) : Bool := t.all fun row => row.all fun x => x &&& 0x0fffffff == x
theorem lookL_M28 (t : List (List UInt32)) (ht : allM28 t = true) (i n : Nat) : M28 (lookL t i n) := by
  unfold lookL
  simp only [List.getD_eq_getElem?_getD]
  cases hi : t[i]? with
  | none => simpa using M28_zero
  | some row =>
    simp only [Option.getD_some]
    cases hn : row[n]? with
    | none => simpa using M28_zero
    | some x =>
      simp only [Option.getD_some]
      unfold allM28 at ht
      rw [List.all_eq_true] at ht
      have hr := ht row (List.mem_of_getElem? hi)
      rw [List.all_eq_true] at hr
      have hx := hr x (List.mem_of_getElem? hn)
      simpa [M28] using hx
set_option maxRecDepth 100000 in
theorem keyperm_M28 : allM28 Gen.des_key_perm_maskl = true ∧ allM28 Gen.des_key_perm_maskr = true := by
  constructor <;> decide +kernel
theorem or8_M28 (t : List (List UInt32)) (ht : allM28 t = true) (ix : Fin 8 → UInt32) : M28 (or8 (tbl t) ix) := by
  rw [or8_tbl]
  exact M28_or (M28_or (M28_or (M28_or (M28_or (M28_or (M28_or (lookL_M28 t ht _ _) (lookL_M28 t ht _ _)) (lookL_M28 t ht _ _)) (lookL_M28 t ht _ _))
    (lookL_M28 t ht _ _)) (lookL_M28 t ht _ _)) (lookL_M28 t ht _ _)) (lookL_M28 t ht _ _)


/-- one round key of the code = one round key of FIPS 46-3, given the cumulative shift and the matching rotation lemma -/
theorem rk_fips (raw0 raw1 : UInt32) (s : UInt32) (n : Nat)
    (hrot : ∀ k : UInt32, (((k &&& 0x0fffffff) <<< s) ||| ((k &&& 0x0fffffff) >>> (28 - s))) &&& 0x0fffffff = rotl28 (k &&& 0x0fffffff) n) :
    rkOf (or8 keyPermL (sevenOfKey raw0 raw1)) (or8 keyPermR (sevenOfKey raw0 raw1)) s =
      selN 28 PC2 24 (rotl28 (selN 32 PC1 28 (raw0, raw1)).1 n, rotl28 (selN 32 PC1 28 (raw0, raw1)).2 n) := by
  have h0 : M28 (or8 keyPermL (sevenOfKey raw0 raw1)) := or8_M28 _ keyperm_M28.1 _
  have h1 : M28 (or8 keyPermR (sevenOfKey raw0 raw1)) := or8_M28 _ keyperm_M28.2 _
  have hp := pc1_fips raw0 raw1
  have e0 : (selN 32 PC1 28 (raw0, raw1)).1 = or8 keyPermL (sevenOfKey raw0 raw1) := by rw [← hp]
  have e1 : (selN 32 PC1 28 (raw0, raw1)).2 = or8 keyPermR (sevenOfKey raw0 raw1) := by rw [← hp]
  rw [e0, e1]
  generalize or8 keyPermL (sevenOfKey raw0 raw1) = k0 at *
  generalize or8 keyPermR (sevenOfKey raw0 raw1) = k1 at *
  unfold rkOf
  rw [pc2_fips]
  unfold M28 at h0 h1
  have r0 := hrot k0
  have r1 := hrot k1
  rw [h0] at r0
  rw [h1] at r1
  rw [r0, r1]

/-- **the key schedule is FIPS 46-3's KS**: for every 8-byte key and every round r < 16, the round key `des_set_key` stores is
    PC-2 of the halves C0, D0 = PC-1(key) rotated left by the cumulative published shift -/
theorem setKey_fips (key : Bytes) (r : Nat) (hr : r < 16) :
    ((setKey key).1[r]!, (setKey key).2[r]!) = ksFips (be32 key 0, be32 key 4) r := by
  rw [setKey_unrolled]
  unfold ksFips
  have c : r = 0 ∨ r = 1 ∨ r = 2 ∨ r = 3 ∨ r = 4 ∨ r = 5 ∨ r = 6 ∨ r = 7 ∨ r = 8 ∨ r = 9 ∨ r = 10 ∨ r = 11 ∨ r = 12 ∨ r = 13 ∨ r = 14 ∨ r = 15 := by omega
  rcases c with rfl | rfl | rfl | rfl | rfl | rfl | rfl | rfl | rfl | rfl | rfl | rfl | rfl | rfl | rfl | rfl
  · exact rk_fips _ _ 1 1 rot_1
  · exact rk_fips _ _ 2 2 rot_2
  · exact rk_fips _ _ 4 4 rot_4
  · exact rk_fips _ _ 6 6 rot_6
  · exact rk_fips _ _ 8 8 rot_8
  · exact rk_fips _ _ 10 10 rot_10
  · exact rk_fips _ _ 12 12 rot_12
  · exact rk_fips _ _ 14 14 rot_14
  · exact rk_fips _ _ 15 15 rot_15
  · exact rk_fips _ _ 17 17 rot_17
  · exact rk_fips _ _ 19 19 rot_19
  · exact rk_fips _ _ 21 21 rot_21
  · exact rk_fips _ _ 23 23 rot_23
  · exact rk_fips _ _ 25 25 rot_25
  · exact rk_fips _ _ 27 27 rot_27
  · exact rk_fips _ _ 28 28 rot_28

/-- the sixteen round keys in the order of use -/
def keysFips (raw : UInt32 × UInt32) (decrypt : Bool) : List (UInt32 × UInt32) :=
  let ks := (List.range 16).map (ksFips raw)
  if decrypt then ks.reverse else ks

theorem keyList_fips (key : Bytes) (salt : Nat) (decrypt : Bool) :
    keyList (mkCtx key salt) decrypt = keysFips (be32 key 0, be32 key 4) decrypt := by
  have h : (List.range 16).map (fun i => ((mkCtx key salt).keysl[i]!, (mkCtx key salt).keysr[i]!)) = (List.range 16).map (ksFips (be32 key 0, be32 key 4)) := by
    apply List.map_congr_left
    intro i hi
    exact setKey_fips key i (List.mem_range.1 hi)
  unfold keyList keysFips
  simp only [h]

/-- **`des_set_key` + `des_set_salt` + `des_crypt_block` is DES as FIPS 46-3 defines it** (with crypt(3)'s salt and iteration count):
    key schedule KS (PC-1, the published rotations, PC-2), initial permutation, `count` times sixteen rounds
    `L' = R, R' = L ⊕ P(S(E(R) ⊕ K))` and the exchange of the halves, inverse initial permutation - for every 8-byte key, salt, count,
    direction and 8-byte block -/
theorem des_fips (key : Bytes) (salt : Nat) (x : Bytes) (count : Nat) (decrypt : Bool) :
    cryptBlock (mkCtx key salt) x count decrypt =
      toBe32 (blockFips (saltBits salt) (keysFips (be32 key 0, be32 key 4) decrypt) (if count = 0 then 1 else count) (be32 x 0, be32 x 4)).1 ++
      toBe32 (blockFips (saltBits salt) (keysFips (be32 key 0, be32 key 4) decrypt) (if count = 0 then 1 else count) (be32 x 0, be32 x 4)).2 := by
  rw [cryptBlock_fips, keyList_fips]

theorem saltBits_zero : saltBits 0 = 0 := by decide

/-- `setkey; encrypt` (the obsolete API's core on the packed key and block: salt 0, one pass) is plain FIPS 46-3 DES -/
theorem setkey_encrypt_fips (key x : Bytes) (decrypt : Bool) :
    cryptBlock (mkCtx key 0) x 1 decrypt =
      toBe32 (blockFips 0 (keysFips (be32 key 0, be32 key 4) decrypt) 1 (be32 x 0, be32 x 4)).1 ++
      toBe32 (blockFips 0 (keysFips (be32 key 0, be32 key 4) decrypt) 1 (be32 x 0, be32 x 4)).2 := by
  rw [des_fips, saltBits_zero]; rfl

/-- the core of traditional crypt(3) (`des_gen_hash`): `count` DES encryptions of the zero block with the salt's E-bit exchange -/
theorem desHash_fips (key : Bytes) (salt count : Nat) :
    desHash key salt count =
      toBe32 (blockFips (saltBits salt) (keysFips (be32 key 0, be32 key 4) false) (if count = 0 then 1 else count) (0, 0)).1 ++
      toBe32 (blockFips (saltBits salt) (keysFips (be32 key 0, be32 key 4) false) (if count = 0 then 1 else count) (0, 0)).2 := by
  unfold desHash
  rw [des_fips]
  rfl
end Xc.Des

/-
  DES: decryption inverts encryption at the level of the sixteen rounds (C17) — the Feistel argument, for ANY round function,
  key schedule and salt; the initial/final permutations and the byte packing are not part of this file.
-/
import Xc.Prim.Des
namespace Xc.Des
open Xc

/-- the Feistel step: whatever the round function computes from `r`, the salt and the round key -/
theorem round_shape (sb l r kl kr : UInt32) : ∃ f : UInt32, round sb l r kl kr = (r, f ^^^ l) ∧ ∀ l', round sb l' r kl kr = (r, f ^^^ l') := by
  unfold round
  exact ⟨_, rfl, fun _ => rfl⟩

/-- swap ∘ round is an involution -/
theorem round_swap_invol (sb : UInt32) (k : UInt32 × UInt32) (p : UInt32 × UInt32) :
    let q := round sb p.1 p.2 k.1 k.2
    let q' := round sb q.2 q.1 k.1 k.2
    (q'.2, q'.1) = p := by
  obtain ⟨l, r⟩ := p
  obtain ⟨f, h1, h2⟩ := round_shape sb l r k.1 k.2
  dsimp only
  rw [h1]
  dsimp only
  rw [h2 (f ^^^ l)]
  dsimp only
  rw [← UInt32.xor_assoc, UInt32.xor_self, UInt32.zero_xor]

def rounds (sb : UInt32) (ks : List (UInt32 × UInt32)) (p : UInt32 × UInt32) : UInt32 × UInt32 :=
  ks.foldl (fun (p : UInt32 × UInt32) k => round sb p.1 p.2 k.1 k.2) p

def swap (p : UInt32 × UInt32) : UInt32 × UInt32 := (p.2, p.1)

theorem pass_eq (sb : UInt32) (ks : List (UInt32 × UInt32)) (p : UInt32 × UInt32) : pass sb ks p = swap (rounds sb ks p) := rfl

/-- running the rounds with the keys reversed on the swapped result undoes them (any key list, any salt) -/
theorem rounds_reverse (sb : UInt32) : ∀ (ks : List (UInt32 × UInt32)) (p : UInt32 × UInt32),
    rounds sb ks.reverse (swap (rounds sb ks p)) = swap p := by
  intro ks
  induction ks with
  | nil => intro p; rfl
  | cons k t ih =>
    intro p
    rw [List.reverse_cons]
    unfold rounds at ih ⊢
    rw [List.foldl_cons, List.foldl_append, List.foldl_cons, List.foldl_nil, ih (round sb p.1 p.2 k.1 k.2)]
    have hinv := round_swap_invol sb k p
    dsimp only at hinv
    unfold swap
    dsimp only
    generalize hx : round sb (round sb p.1 p.2 k.1 k.2).2 (round sb p.1 p.2 k.1 k.2).1 k.1 k.2 = x at hinv
    rw [← hinv]

/-- **decryption inverts encryption, at the level of one DES pass**: for every key schedule, salt and block halves -/
theorem pass_inverse (c : Ctx) (p : UInt32 × UInt32) :
    pass c.saltbits (keyList c true) (pass c.saltbits (keyList c false) p) = p ∧
    pass c.saltbits (keyList c false) (pass c.saltbits (keyList c true) p) = p := by
  unfold keyList
  simp only [if_true, Bool.false_eq_true, if_false]
  generalize (List.range 16).map (fun i => (c.keysl[i]!, c.keysr[i]!)) = ks
  rw [pass_eq, pass_eq, pass_eq, pass_eq]
  constructor
  · rw [rounds_reverse]; rfl
  · have := rounds_reverse c.saltbits ks.reverse p
    rw [List.reverse_reverse] at this
    rw [this]; rfl

theorem iter_succ' {α : Type} (f : α → α) : ∀ n a, iter f (n + 1) a = f (iter f n a) := by
  intro n
  induction n with
  | zero => intro a; rfl
  | succ n ih => intro a; rw [iter, ih (f a)]; rfl

theorem iter_inverse {α : Type} (f g : α → α) (h : ∀ a, f (g a) = a) : ∀ n a, iter f n (iter g n a) = a := by
  intro n
  induction n with
  | zero => intro a; rfl
  | succ n ih => intro a; rw [iter_succ' g, iter, h, ih]

/-- … and for every iteration count -/
theorem passes_inverse (c : Ctx) (n : Nat) (p : UInt32 × UInt32) :
    iter (pass c.saltbits (keyList c true)) n (iter (pass c.saltbits (keyList c false)) n p) = p :=
  iter_inverse _ _ (fun a => (pass_inverse c a).1) n p
end Xc.Des

import Xc.Gensalt
import Xc.Lemmas.Dec
namespace Xc

theorem ceilingSteps_eq (c : Nat) (h1 : 1 ≤ c) (h2 : c < 10000000000) : ceilingSteps c + 1 = numDigits c := by
  unfold ceilingSteps numDigits
  simp only [ceilingSteps.go, Nat.reduceMul, Nat.reduceAdd]
  have hc : c < 10 ∨ (10 ≤ c ∧ c < 100) ∨ (100 ≤ c ∧ c < 1000) ∨ (1000 ≤ c ∧ c < 10000) ∨
      (10000 ≤ c ∧ c < 100000) ∨ (100000 ≤ c ∧ c < 1000000) ∨ (1000000 ≤ c ∧ c < 10000000) ∨
      (10000000 ≤ c ∧ c < 100000000) ∨ (100000000 ≤ c ∧ c < 1000000000) ∨
      (1000000000 ≤ c ∧ c < 10000000000) := by omega
  rcases hc with h | h | h | h | h | h | h | h | h | h
  all_goals simp (disch := omega) only [if_pos, if_neg]

end Xc

namespace Xc

/-- what C13 asks of one writer call with buffer size `osize` -/
def WOut.good (osize : Nat) : WOut → Prop
  | .ok s ext => s.length < osize ∧ ext ≤ osize
  | .err e => e = .EINVAL ∨ e = .ERANGE
  | .abort => False

theorem numDigits_le (n : Nat) (h : n < 10000000000) : numDigits n ≤ 10 := by
  unfold numDigits; repeat' split
  all_goals omega

theorem numDigits_pos (n : Nat) : 1 ≤ numDigits n := by
  unfold numDigits; repeat' split
  all_goals omega

@[simp] theorem enc24_length (v : Nat) : (enc24 v).length = 4 := rfl

theorem shaSaltLoop_fits (maxsalt n osize : Nat) (rb : Bytes) :
    ∀ fuel written used, written < osize →
      written + (shaSaltLoop maxsalt n osize rb fuel written used).length < osize := by
  intro fuel
  induction fuel with
  | zero => intro w u h; simpa [shaSaltLoop] using h
  | succ f ih =>
    intro w u h
    simp only [shaSaltLoop]
    split
    · rename_i hc
      have := ih (w + 4) (u + 3) (by omega)
      simp only [List.length_append, enc24_length]; omega
    · simpa using h

theorem shaClamp_bounds (d mn mx c : Nat) (hd : 1 ≤ d) (hmn : 1 ≤ mn) (hmm : mn ≤ mx) :
    1 ≤ shaClamp d mn mx c ∧ shaClamp d mn mx c ≤ mx := by
  unfold shaClamp; simp only []
  repeat' split
  all_goals omega

theorem gensaltShaCore_good (tag : UInt8) (maxsalt defc c : Nat) (rb : Bytes) (n osize : Nat)
    (hc1 : 1 ≤ c) (hc2 : c < 10000000000) :
    (gensaltShaCore tag maxsalt defc c rb n osize).good osize := by
  have hlen : (toDec c).length = numDigits c := toDec_length c (by omega)
  have hcs := ceilingSteps_eq c hc1 hc2
  have hnd := numDigits_pos c
  unfold gensaltShaCore
  by_cases hd : c = defc
  · subst hd
    simp only [ne_eq, not_true_eq_false, if_false, if_true, List.length_cons, List.length_nil, Nat.zero_add, Nat.reduceAdd]
    split; · simp [WOut.good]
    split; · omega
    simp only [WOut.good, List.length_append, List.length_cons, List.length_nil]
    have := shaSaltLoop_fits maxsalt n osize rb (maxsalt + 1) 3 0 (by omega)
    omega
  · simp only [ne_eq, hd, not_false_eq_true, if_true, if_false]
    have hl : ([36, tag, 36] ++ [114, 111, 117, 110, 100, 115, 61] ++ toDec c ++ [36]).length = 11 + numDigits c := by
      simp only [List.length_append, List.length_cons, List.length_nil, hlen]; omega
    rw [hl]
    split; · simp [WOut.good]
    split; · omega
    simp only [WOut.good, List.length_append]
    have := shaSaltLoop_fits maxsalt n osize rb (maxsalt + 1) (11 + numDigits c) 0 (by omega)
    simp only [List.length_append] at hl
    omega

theorem gensaltSha_good (tag : UInt8) (maxsalt defc minc maxc count : Nat) (rb : Bytes) (n osize : Nat)
    (hmax : maxc < 10000000000) (hdef : 1 ≤ defc) (hmin : 1 ≤ minc) (hmm : minc ≤ maxc) :
    (gensaltSha tag maxsalt defc minc maxc count rb n osize).good osize := by
  unfold gensaltSha
  split; · simp [WOut.good]
  have := shaClamp_bounds defc minc maxc count hdef hmin hmm
  exact gensaltShaCore_good _ _ _ _ _ _ _ this.1 (by omega)


theorem gensaltMd5_good (count : Nat) (rb : Bytes) (n osize : Nat) : (gensaltMd5 count rb n osize).good osize := by
  unfold gensaltMd5
  split; · simp [WOut.good]
  exact gensaltSha_good _ _ _ _ _ _ _ _ _ (by decide) (by decide) (by decide) (by decide)

theorem gensaltSha256_good (count : Nat) (rb : Bytes) (n osize : Nat) : (gensaltSha256 count rb n osize).good osize :=
  gensaltSha_good _ _ _ _ _ _ _ _ _ (by decide) (by decide) (by decide) (by decide)

theorem gensaltSha512_good (count : Nat) (rb : Bytes) (n osize : Nat) : (gensaltSha512 count rb n osize).good osize :=
  gensaltSha_good _ _ _ _ _ _ _ _ _ (by decide) (by decide) (by decide) (by decide)

theorem toDec_length_le10 (n : Nat) (h : n < 10000000000) : (toDec n).length ≤ 10 := by
  rw [toDec_length n (by omega)]; exact numDigits_le n h

theorem sunmd5Count_bounds (count : Nat) (rb : Bytes) :
    1 ≤ sunmd5Count count rb ∧ sunmd5Count count rb ≤ 4294963199 := by
  have hm : Gen.SUNMD5_MAX_ROUNDS = 4294967295 := by decide
  unfold sunmd5Count; rw [hm]; simp only []
  repeat' split
  all_goals omega

theorem gensaltSunmd5_good (count : Nat) (rb : Bytes) (n osize : Nat) : (gensaltSunmd5 count rb n osize).good osize := by
  unfold gensaltSunmd5
  have hm : Gen.SUNMD5_MAX_SETTING_LEN = 32 := by decide
  rw [hm]
  split; · simp [WOut.good]
  split; · simp [WOut.good]
  rename_i hsz _
  have hcb := sunmd5Count_bounds count rb
  simp only []
  split; · omega
  have hd := toDec_length_le10 (sunmd5Count count rb) (by omega)
  have hp : Gen.SUNMD5_PREFIX.length = 4 := by decide
  simp only [WOut.good, List.length_append, enc24_length, hp, List.length_cons, List.length_nil]
  omega

theorem sha1SaltLoop_fits (rb : Bytes) (rlim olim : Nat) :
    ∀ fuel r o, o ≤ olim → o + (sha1SaltLoop rb rlim olim fuel r o).length ≤ olim := by
  intro fuel
  induction fuel with
  | zero => intro r o h; simpa [sha1SaltLoop] using h
  | succ f ih =>
    intro r o h
    simp only [sha1SaltLoop]
    split
    · have := ih (r + 3) (o + 4) (by omega)
      simp only [List.length_append, enc24_length]; omega
    · simpa using h

theorem sha1Rounds_lt (count : Nat) (rb : Bytes) : sha1Rounds count rb < 4294967296 := by
  unfold sha1Rounds
  simp only []
  omega

theorem gensaltSha1_good (count : Nat) (rb : Bytes) (n osize : Nat) : (gensaltSha1 count rb n osize).good osize := by
  unfold gensaltSha1
  have hs : Gen.CRYPT_SHA1_SALT_LENGTH = 64 := by decide
  rw [hs]
  split; · simp [WOut.good]
  split; · simp [WOut.good]
  rename_i hn hsz
  have hr := sha1Rounds_lt count rb
  have hd := toDec_length_le10 (sha1Rounds count rb) (by omega)
  have hpos := toDec_length_pos (sha1Rounds count rb)
  simp only [List.length_append, List.length_cons, List.length_nil, Nat.zero_add, Nat.reduceAdd]
  generalize hL : (toDec (sha1Rounds count rb)).length = L at *
  split; · omega
  simp only [WOut.good, List.length_append, List.length_cons, List.length_nil, Nat.zero_add, Nat.reduceAdd]
  split
  · have := sha1SaltLoop_fits rb n (osize - 2) 65 4 (6 + L + 1) (by omega)
    omega
  · have := sha1SaltLoop_fits rb n (6 + L + 1 + 64) 65 4 (6 + L + 1) (by omega)
    omega


theorem padTo_length (rb : Bytes) (k : Nat) : (padTo rb k).length = k := by simp [padTo]

theorem bfEncode_length16 (l : Bytes) (h : l.length = 16) : (bfEncode l).length = 22 := by
  match l, h with
  | [_, _, _, _, _, _, _, _, _, _, _, _, _, _, _, _], _ => simp [bfEncode]

theorem gensaltBf_good (sub : UInt8) (count : Nat) (rb : Bytes) (n osize : Nat) : (gensaltBf sub count rb n osize).good osize := by
  unfold gensaltBf
  simp only []
  split; · simp [WOut.good]
  split; · simp [WOut.good]
  simp only [WOut.good, List.length_append, List.length_cons, List.length_nil, bfEncode_length16 _ (padTo_length rb 16)]
  omega

theorem gensaltDes_good (count : Nat) (rb : Bytes) (n osize : Nat) : (gensaltDes count rb n osize).good osize := by
  unfold gensaltDes
  split; · simp [WOut.good]
  split; · simp [WOut.good]
  simp only [WOut.good, List.length_cons, List.length_nil]; omega

theorem gensaltDes_ok_len (count : Nat) (rb : Bytes) (n osize : Nat) (s : Bytes) (e : Nat)
    (h : gensaltDes count rb n osize = .ok s e) : s.length = 2 := by
  unfold gensaltDes at h
  split at h; · cases h
  split at h; · cases h
  cases h; rfl

theorem gensaltBig_good (d : Bool) (count : Nat) (rb : Bytes) (n osize : Nat) : (gensaltBig d count rb n osize).good osize := by
  unfold gensaltBig
  split; · exact gensaltDes_good ..
  split; · simp [WOut.good]
  have hg := gensaltDes_good count rb n osize
  generalize h : gensaltDes count rb n osize = o at hg
  cases o with
  | ok s e =>
    have := gensaltDes_ok_len _ _ _ _ _ _ h
    simp only [WOut.good, List.length_append, List.length_cons, List.length_nil]; omega
  | err e => exact hg
  | abort => exact hg

theorem gensaltBsdi_good (count : Nat) (rb : Bytes) (n osize : Nat) : (gensaltBsdi count rb n osize).good osize := by
  unfold gensaltBsdi
  split; · simp [WOut.good]
  split; · simp [WOut.good]
  simp only [WOut.good, List.length_append, List.length_cons, List.length_nil, enc24_length]; omega

theorem gensaltNt_good (count osize : Nat) : (gensaltNt count osize).good osize := by
  unfold gensaltNt
  split; · simp [WOut.good]
  split; · simp [WOut.good]
  simp only [WOut.good, List.length_cons, List.length_nil]; omega

theorem base64Len_add3 (n : Nat) : base64Len (n + 3) = base64Len n + 4 := by unfold base64Len; omega

theorem encode64_length : ∀ l : Bytes, (encode64 l).length = base64Len l.length
  | [] => by simp [encode64, base64Len]
  | [_] => by simp [encode64, enc64Group, base64Len]
  | [_, _] => by simp [encode64, enc64Group, base64Len]
  | _ :: _ :: _ :: rest => by
    have ih := encode64_length rest
    simp only [encode64, List.length_append, ih, List.length_cons]
    rw [show rest.length + 1 + 1 + 1 = rest.length + 3 from rfl, base64Len_add3]
    simp [enc64Group]; omega

theorem scryptEnc32_length (dl : Int) (src bits : Nat) (e : Bytes) (h : scryptEnc32 dl src bits = some e) :
    e.length = (bits + 5) / 6 := by
  unfold scryptEnc32 at h
  simp only [] at h
  split at h
  · cases h
  · cases h; simp

theorem scryptOutbuf_ok (count : Nat) (rb : Bytes) (n : Nat) (s : Bytes)
    (h : scryptOutbuf count rb n = .ok s) : s.length = 14 + base64Len n := by
  unfold scryptOutbuf at h
  simp only [] at h
  split at h; · cases h
  split at h; · cases h
  split at h; · cases h
  split at h; · cases h
  split at h; · cases h
  have l1 := scryptEnc32_length _ _ _ _ ‹scryptEnc32 _ 32 30 = some _›
  have l2 := scryptEnc32_length _ _ _ _ ‹scryptEnc32 _ 1 30 = some _›
  cases h
  simp only [List.length_append, List.length_cons, List.length_nil, encode64_length, padTo_length, l1, l2]

theorem scryptOutbuf_err (count : Nat) (rb : Bytes) (n : Nat) (e : Errno)
    (h : scryptOutbuf count rb n = .error e) : e = .EINVAL ∨ e = .ERANGE := by
  unfold scryptOutbuf at h
  simp only [] at h
  split at h; · cases h; simp
  split at h; · cases h; simp
  split at h; · cases h; simp
  split at h; · cases h; simp
  split at h; · cases h; simp
  cases h

theorem gensaltScrypt_good (count : Nat) (rb : Bytes) (n osize : Nat) : (gensaltScrypt count rb n osize).good osize := by
  unfold gensaltScrypt
  simp only []
  split; · simp [WOut.good]
  split; · simp [WOut.good]
  split
  · rename_i e he; exact scryptOutbuf_err _ _ _ _ he
  · rename_i s hs
    have := scryptOutbuf_ok _ _ _ _ hs
    split
    · omega
    · simp only [WOut.good]; omega

theorem yesEncodeParams_lt (N r : Nat) (src : Bytes) (buflen : Nat) (s : Bytes)
    (h : yesEncodeParams N r src buflen = some s) : s.length < buflen := by
  unfold yesEncodeParams at h
  simp only [] at h
  split at h; · cases h
  split at h; · cases h
  split at h; · cases h
  split at h; · cases h
  split at h
  · cases h
  · cases h; omega

theorem gensaltYescrypt_good (count : Nat) (rb : Bytes) (n osize : Nat) : (gensaltYescrypt count rb n osize).good osize := by
  unfold gensaltYescrypt
  simp only []
  split; · simp [WOut.good]
  split; · simp [WOut.good]
  split
  · simp [WOut.good]
  · rename_i s hs
    have := yesEncodeParams_lt _ _ _ _ _ hs
    split
    · omega
    · simp only [WOut.good]; omega

theorem gensaltGost_good (count : Nat) (rb : Bytes) (n osize : Nat) : (gensaltGost count rb n osize).good osize := by
  unfold gensaltGost
  simp only []
  split; · simp [WOut.good]
  rename_i hneed
  have hg := gensaltYescrypt_good count rb (min n 64) (osize - 1)
  generalize gensaltYescrypt count rb (min n 64) (osize - 1) = o at hg
  cases o with
  | ok s e =>
    simp only [WOut.good] at hg ⊢
    simp only [List.length_append, List.length_cons, List.length_nil, List.length_drop]
    omega
  | err e => exact hg
  | abort => exact hg

theorem gensaltMethod_good (d : Bool) (m : Method) (count : Nat) (rb : Bytes) (n osize : Nat) :
    (gensaltMethod d m count rb n osize).good osize := by
  cases m <;> simp only [gensaltMethod]
  · exact gensaltYescrypt_good ..
  · exact gensaltGost_good ..
  · exact gensaltScrypt_good ..
  · exact gensaltBf_good ..
  · exact gensaltBf_good ..
  · exact gensaltBf_good ..
  · simp [WOut.good]
  · exact gensaltSha512_good ..
  · exact gensaltSha256_good ..
  · exact gensaltSha1_good ..
  · exact gensaltSunmd5_good ..
  · exact gensaltMd5_good ..
  · exact gensaltNt_good ..
  · exact gensaltBsdi_good ..
  · exact gensaltBig_good ..
  · exact gensaltDes_good ..

end Xc

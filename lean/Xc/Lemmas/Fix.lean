/-
  Re-feeding a result to the method that produced it (C01): for each front-end a `_refeed` lemma says that the result
  is `settingPart ++ digestText` and that hashing the same phrase with `settingPart ++ ANY text` gives the same result.
  Hence both clauses of C01: the round trip (take the text to be the digest) and "only prefix, options and salt matter".
-/
import Xc.Lemmas.Shape
import Xc.Lemmas.DecInv
import Xc.Lemmas.U8
namespace Xc
open List
set_option maxRecDepth 100000

theorem take_takeWhile_all {α} (p : α → Bool) : ∀ (l : List α) (k : Nat), k ≤ (l.takeWhile p).length → ∀ c ∈ l.take k, p c = true := by
  intro l
  induction l with
  | nil => intro k _ c hc; simp at hc
  | cons x xs ih =>
    intro k hk c hc
    cases k with
    | zero => simp at hc
    | succ k =>
      by_cases hx : p x = true
      · simp only [List.takeWhile_cons, hx, if_true, List.length_cons] at hk
        simp only [List.take_succ_cons, List.mem_cons] at hc
        rcases hc with rfl | hc
        · exact hx
        · exact ih k (by omega) c hc
      · simp [hx] at hk

theorem hasPrefix_append (p x : Bytes) : hasPrefix (p ++ x) p = true := by simp [hasPrefix]
theorem stripPfx_append (p x : Bytes) : stripPfx (p ++ x) p = x := by simp [stripPfx, hasPrefix_append]
theorem cat_append_mid (a : Bytes) (c : UInt8) (b : Bytes) : cat (a ++ c :: b) a.length = c := by simp [cat]

theorem strcspn_stop (a : Bytes) (c : UInt8) (b T : Bytes) (ha : ∀ x ∈ a, x ∉ T) (hc : c ∈ T) :
    strcspn (a ++ c :: b) T = a.length := by
  unfold strcspn
  rw [List.takeWhile_append_of_pos (by intro x hx; simpa using ha x hx)]
  simp [hc]

theorem scanSalt_chars {s : Bytes} {mx : Nat} {salt : Bytes} (h : scanSalt s mx = some salt) :
    (∀ x ∈ salt, x ∉ saltTerm) ∧ salt.length ≤ mx ∧ ∃ k, salt = s.take k := by
  unfold scanSalt at h; simp only [] at h
  split at h
  · cases h
  · cases h
    refine ⟨?_, by simp; omega, _, rfl⟩
    intro x hx
    have := take_takeWhile_all (fun c => !saltTerm.contains c) s (min (strcspn s saltTerm) mx) (by unfold strcspn; omega) x hx
    simpa using this

theorem scanSalt_canon (salt tail : Bytes) (mx : Nat) (h1 : ∀ x ∈ salt, x ∉ saltTerm) (h2 : salt.length ≤ mx) :
    scanSalt (salt ++ 36 :: tail) mx = some salt := by
  unfold scanSalt
  simp only [strcspn_stop salt 36 tail saltTerm h1 (by decide), cat_append_mid]
  simp [Nat.min_eq_left h2]

/-- a prefix test that failed on `s` still fails on `take k s ++ "$" ++ anything` when the tested prefix has no `$` -/
theorem noPrefix_take (s rp tail : Bytes) (k : Nat) (h : hasPrefix s rp = false) (h36 : (36 : UInt8) ∉ rp) :
    hasPrefix (s.take k ++ 36 :: tail) rp = false := by
  unfold hasPrefix at *
  cases hh : rp.isPrefixOf (s.take k ++ 36 :: tail) with
  | false => rfl
  | true =>
    exfalso
    rw [List.isPrefixOf_iff_prefix, List.prefix_iff_eq_take] at hh
    by_cases hl : rp.length ≤ (s.take k).length
    · rw [List.take_append_of_le_length hl, List.take_take] at hh
      have : rp <+: s := by rw [hh]; exact List.take_prefix _ _
      rw [← List.isPrefixOf_iff_prefix] at this
      rw [this] at h; cases h
    · rw [List.take_append] at hh
      have hpos : rp.length - (s.take k).length = (rp.length - (s.take k).length - 1) + 1 := by omega
      rw [hpos, List.take_succ_cons] at hh
      apply h36; rw [hh]; simp


/-! ### md5crypt -/
theorem cryptMd5_refeed {D : Digests} {p s H : Bytes} (h : cryptMd5 D p s = .ok H) :
    ∃ salt : Bytes, H = Gen.md5_salt_prefix ++ salt ++ [36] ++ permEncode Gen.perm_md5crypt (D.md5crypt p salt) ∧
      ∀ tail, cryptMd5 D p (Gen.md5_salt_prefix ++ salt ++ [36] ++ tail) = .ok H := by
  unfold cryptMd5 at h
  split at h
  · cases h
  · rename_i salt hs
    cases h
    obtain ⟨a, b, _⟩ := scanSalt_chars hs
    refine ⟨salt, rfl, fun tail => ?_⟩
    unfold cryptMd5
    rw [show Gen.md5_salt_prefix ++ salt ++ [36] ++ tail = Gen.md5_salt_prefix ++ (salt ++ 36 :: tail) by simp,
        stripPfx_append, scanSalt_canon salt tail _ a b]

/-! ### sha256crypt / sha512crypt -/
structure ShaCanon (rp : Bytes) (d mn mx sm : Nat) (P : ShaParsed) (tail : Bytes) : Prop where
  salt_chars : ∀ x ∈ P.salt, x ∉ saltTerm
  salt_len : P.salt.length ≤ sm
  custom : P.custom = true → mn ≤ P.rounds ∧ P.rounds ≤ mx ∧ 0 < P.rounds
  plain : P.custom = false → P.rounds = d ∧ hasPrefix (P.salt ++ 36 :: tail) rp = false

theorem parseSha_canon (pfx rp : Bytes) (d mn mx sm : Nat) (P : ShaParsed) (tail : Bytes) (hmx : mx ≤ ULONG_MAX)
    (hc : ShaCanon rp d mn mx sm P tail) :
    parseSha pfx rp d mn mx sm (pfx ++ (if P.custom then rp ++ toDec P.rounds ++ [36] else []) ++ P.salt ++ 36 :: tail) = .ok P := by
  unfold parseSha
  simp only []
  cases hcu : P.custom with
  | true =>
    obtain ⟨a, b, c⟩ := hc.custom hcu
    have e1 : pfx ++ (if true = true then rp ++ toDec P.rounds ++ [36] else []) ++ P.salt ++ 36 :: tail
        = pfx ++ (rp ++ (toDec P.rounds ++ 36 :: (P.salt ++ 36 :: tail))) := by simp
    rw [e1, stripPfx_append, hasPrefix_append]
    simp only [if_true, List.drop_left]
    obtain ⟨c0, t, e, h49, h57⟩ := toDec_head P.rounds (by unfold ULONG_MAX at hmx; omega) c
    have hcat0 : cat (toDec P.rounds ++ 36 :: (P.salt ++ 36 :: tail)) 0 = c0 := by rw [e]; simp [cat]
    rw [hcat0, strtoul10_toDec P.rounds _ (by omega)]
    simp only [cat_append_mid]
    have hpos := toDec_length_pos P.rounds
    have : (49 ≤ c0 && c0 ≤ 57) = true := by simp [h49, h57]
    simp only [this]
    have hd : (toDec P.rounds ++ 36 :: (P.salt ++ 36 :: tail)).drop ((toDec P.rounds).length + 1) = P.salt ++ 36 :: tail := by
      rw [show toDec P.rounds ++ 36 :: (P.salt ++ 36 :: tail) = (toDec P.rounds ++ [36]) ++ (P.salt ++ 36 :: tail) by simp]
      rw [show (toDec P.rounds).length + 1 = (toDec P.rounds ++ [36]).length by simp, List.drop_left]
    rw [hd, scanSalt_canon _ _ _ hc.salt_chars hc.salt_len]
    have : ¬ ((toDec P.rounds).length = 0 ∨ (36 : UInt8) ≠ 36 ∨ P.rounds < mn ∨ P.rounds > mx ∨ false = true) := by
      intro h; rcases h with h | h | h | h | h
      · omega
      · exact h rfl
      · omega
      · omega
      · cases h
    simp only [not_true_eq_false, if_false, this]
    cases P; simp_all
  | false =>
    obtain ⟨a, b⟩ := hc.plain hcu
    have e1 : pfx ++ (if false = true then rp ++ toDec P.rounds ++ [36] else []) ++ P.salt ++ 36 :: tail
        = pfx ++ (P.salt ++ 36 :: tail) := by simp
    rw [e1, stripPfx_append, b]
    simp only [Bool.false_eq_true, if_false]
    rw [scanSalt_canon _ _ _ hc.salt_chars hc.salt_len]
    cases P; simp_all

theorem parseSha_shape {pfx rp : Bytes} {d mn mx sm : Nat} {s : Bytes} {P : ShaParsed} (tail : Bytes)
    (h : parseSha pfx rp d mn mx sm s = .ok P) (h36 : (36 : UInt8) ∉ rp) (hmn : 0 < mn) : ShaCanon rp d mn mx sm P tail := by
  unfold parseSha at h
  simp only [] at h
  split at h
  · split at h; · cases h
    split at h; · cases h
    rename_i hcond
    split at h; · cases h
    rename_i salt hsalt
    cases h
    obtain ⟨a, b, _⟩ := scanSalt_chars hsalt
    refine { salt_chars := a, salt_len := b, custom := fun _ => ?_, plain := fun hc => by simp at hc }
    simp only [not_or, Nat.not_lt] at hcond
    dsimp only
    omega
  · rename_i hnp
    split at h; · cases h
    rename_i salt hsalt
    cases h
    obtain ⟨a, b, k, rfl⟩ := scanSalt_chars hsalt
    refine { salt_chars := a, salt_len := b, custom := fun hc => by simp at hc, plain := fun _ => ⟨rfl, ?_⟩ }
    exact noPrefix_take _ _ _ _ (by simpa using hnp) h36

theorem sha256_consts : (36 : UInt8) ∉ Gen.sha256_rounds_prefix ∧ 0 < Gen.SHA256_ROUNDS_MIN ∧ Gen.SHA256_ROUNDS_MAX ≤ ULONG_MAX := by decide
theorem sha512_consts : (36 : UInt8) ∉ Gen.sha512_rounds_prefix ∧ 0 < Gen.SHA512_ROUNDS_MIN ∧ Gen.SHA512_ROUNDS_MAX ≤ ULONG_MAX := by decide

theorem emitSha_eq (pfx rp : Bytes) (P : ShaParsed) (dig : Bytes) :
    emitSha pfx rp P dig = pfx ++ (if P.custom then rp ++ toDec P.rounds ++ [36] else []) ++ P.salt ++ 36 :: dig := by
  simp [emitSha]

/-- sha256crypt: the result depends on the setting only through (rounds, explicit?, salt), and re-hashing with the
    result's own setting part followed by ANY text gives the same result -/
theorem cryptSha256_refeed {D : Digests} {p s H : Bytes} (h : cryptSha256 D p s = .ok H) :
    ∃ P : ShaParsed, H = emitSha Gen.sha256_salt_prefix Gen.sha256_rounds_prefix P (permEncode Gen.perm_sha256crypt (D.sha256crypt p P.salt P.rounds)) ∧
      ∀ tail, cryptSha256 D p (emitSha Gen.sha256_salt_prefix Gen.sha256_rounds_prefix P tail) = .ok H := by
  obtain ⟨c1, c2, c3⟩ := sha256_consts
  unfold cryptSha256 at h
  split at h
  · cases h
  · rename_i P hP
    cases h
    refine ⟨P, rfl, fun tail => ?_⟩
    unfold cryptSha256
    rw [emitSha_eq, parseSha_canon _ _ _ _ _ _ P tail c3 (parseSha_shape tail hP c1 c2)]

theorem cryptSha512_refeed {D : Digests} {p s H : Bytes} (h : cryptSha512 D p s = .ok H) :
    ∃ P : ShaParsed, H = emitSha Gen.sha512_salt_prefix Gen.sha512_rounds_prefix P (permEncode Gen.perm_sha512crypt (D.sha512crypt p P.salt P.rounds)) ∧
      ∀ tail, cryptSha512 D p (emitSha Gen.sha512_salt_prefix Gen.sha512_rounds_prefix P tail) = .ok H := by
  obtain ⟨c1, c2, c3⟩ := sha512_consts
  unfold cryptSha512 at h
  split at h
  · cases h
  · rename_i P hP
    cases h
    refine ⟨P, rfl, fun tail => ?_⟩
    unfold cryptSha512
    rw [emitSha_eq, parseSha_canon _ _ _ _ _ _ P tail c3 (parseSha_shape tail hP c1 c2)]


/-! ### NT -/
theorem cryptNt_refeed {D : Digests} {p s H : Bytes} (h : cryptNt D p s = .ok H) :
    H = ntMagic ++ [36] ++ hexLower (D.nt p) ∧ ∀ tail, cryptNt D p (ntMagic ++ tail) = .ok H := by
  unfold cryptNt at h
  split at h
  · cases h
  · cases h
    refine ⟨rfl, fun tail => ?_⟩
    unfold cryptNt
    simp [hasPrefix_append]

/-! ### sha1crypt -/
theorem strspn_stop (a : Bytes) (c : UInt8) (b T : Bytes) (ha : ∀ x ∈ a, x ∈ T) (hc : c ∉ T) :
    strspn (a ++ c :: b) T = a.length := by
  unfold strspn
  rw [List.takeWhile_append_of_pos (by intro x hx; simpa using ha x hx)]
  simp [hc]

theorem strtoul10_le (s : Bytes) : (strtoul10 s).value ≤ ULONG_MAX := by
  have hm : ∀ v : Nat, (2 ^ 64 - v) % 2 ^ 64 ≤ ULONG_MAX := by
    intro v; have : (2 ^ 64 - v) % 2 ^ 64 < 2 ^ 64 := Nat.mod_lt _ (by decide)
    unfold ULONG_MAX; omega
  unfold strtoul10
  split <;> (simp only []; split)
  all_goals first
    | (simp; done)
    | (split
       · simp
       · rename_i h; simp only [Nat.not_lt] at h; split <;> first | exact hm _ | exact h)

theorem takeWhile_length_le {α} (p : α → Bool) (l : List α) : (l.takeWhile p).length ≤ l.length := by
  induction l with
  | nil => simp
  | cons x xs ih => simp only [List.takeWhile_cons]; split <;> simp <;> omega

theorem cryptSha1_refeed {D : Digests} {p s H : Bytes} (h : cryptSha1 D p s = .ok H) :
    ∃ P : Sha1Parsed, H = sha1Magic ++ toDec P.iterations ++ [36] ++ P.salt ++ [36] ++ sha1Encode (D.sha1crypt p P.salt P.iterations) ∧
      ∀ tail, cryptSha1 D p (sha1Magic ++ toDec P.iterations ++ [36] ++ P.salt ++ [36] ++ tail) = .ok H := by
  unfold cryptSha1 at h
  split at h
  · cases h
  · rename_i P hP
    cases h
    refine ⟨P, rfl, fun tail => ?_⟩
    -- facts from the first parse
    unfold parseSha1 at hP
    simp only [] at hP
    split at hP; · cases hP
    split at hP; · cases hP
    split at hP; · cases hP
    rename_i hsl
    split at hP; · cases hP
    rename_i hfit
    cases hP
    generalize hs1 : s.drop sha1Magic.length = s1 at *
    generalize hr : strtoul10 s1 = r at *
    generalize hs2 : s1.drop (r.consumed + 1) = s2 at *
    have hle : r.value ≤ ULONG_MAX := by rw [← hr]; exact strtoul10_le s1
    have hsl' : (s2.takeWhile fun c => Gen.ascii64.contains c).length ≤ s2.length := takeWhile_length_le _ _
    have hsaltlen : (s2.take (strspn s2 Gen.ascii64)).length = strspn s2 Gen.ascii64 := by
      simp only [List.length_take]; unfold strspn; omega
    have hsaltch : ∀ x ∈ s2.take (strspn s2 Gen.ascii64), x ∈ Gen.ascii64 := by
      intro x hx
      have := take_takeWhile_all (fun c => Gen.ascii64.contains c) s2 (strspn s2 Gen.ascii64) (by unfold strspn; omega) x hx
      simpa using this
    simp only [not_or, Decidable.not_not] at hsl
    have hk0 := hsl.1
    generalize hk : strspn s2 Gen.ascii64 = k at *
    generalize hsalt : s2.take k = salt at *
    subst hsaltlen
    -- the second parse
    unfold cryptSha1 parseSha1
    simp only []
    have e1 : sha1Magic ++ toDec r.value ++ [36] ++ salt ++ [36] ++ tail
        = sha1Magic ++ (toDec r.value ++ 36 :: (salt ++ 36 :: tail)) := by simp
    rw [e1, hasPrefix_append]
    simp only [List.drop_left, not_true_eq_false, if_false]
    rw [strtoul10_toDec r.value _ hle]
    simp only [cat_append_mid, ne_eq, not_true_eq_false, if_false]
    have hd : (toDec r.value ++ 36 :: (salt ++ 36 :: tail)).drop ((toDec r.value).length + 1) = salt ++ 36 :: tail := by
      rw [show toDec r.value ++ 36 :: (salt ++ 36 :: tail) = (toDec r.value ++ [36]) ++ (salt ++ 36 :: tail) by simp]
      rw [show (toDec r.value).length + 1 = (toDec r.value ++ [36]).length by simp, List.drop_left]
    rw [hd, strspn_stop _ 36 tail Gen.ascii64 hsaltch (by decide), cat_append_mid]
    have c1 : ¬ (salt.length = 0 ∨ (¬ (36 : UInt8) = 0 ∧ ¬ (36 : UInt8) = 36)) := by
      intro h; rcases h with h | h
      · exact hk0 h
      · exact h.2 rfl
    have c2 : ¬ (salt.length = 0 ∨ ¬ (36 : UInt8) = 0 ∧ ¬ True) := by simp [hk0]
    simp only [c2, if_false, hfit, List.take_left]


/-! ### DES family -/
theorem asciiToBin_a64 : ∀ k : Fin 64, asciiToBin (a64 k.val) = some k.val := by decide +kernel
theorem asciiToBin_a64' (n : Nat) : asciiToBin (a64 n) = some (n % 64) := by
  have := asciiToBin_a64 ⟨n % 64, Nat.mod_lt _ (by decide)⟩
  simpa [a64] using this
theorem asciiToBin_lt (c : UInt8) (v : Nat) (h : asciiToBin c = some v) : v < 64 := by
  have H : ∀ c : UInt8, ∀ v, asciiToBin c = some v → v < 64 := by
    apply forall_uint8; decide +kernel
  exact H c v h

theorem parseDesSalt_canon (salt : Nat) (h : salt < 4096) (tail : Bytes) :
    parseDesSalt ([a64 salt, a64 (salt / 64)] ++ tail) = some salt := by
  unfold parseDesSalt
  simp only [cat, List.cons_append, List.getD_cons_zero, List.getD_cons_succ, asciiToBin_a64']
  simp; omega

theorem parseDesSalt_lt {s : Bytes} {salt : Nat} (h : parseDesSalt s = some salt) : salt < 4096 := by
  unfold parseDesSalt at h
  split at h; · cases h
  rename_i i0 h0
  split at h; · cases h
  rename_i i1 h1
  cases h
  have := asciiToBin_lt _ _ h0; have := asciiToBin_lt _ _ h1; omega

theorem cryptDes_refeed {D : Digests} {p s H : Bytes} (h : cryptDes D p s = .ok H) :
    ∃ salt : Nat, H = [a64 salt, a64 (salt / 64)] ++ desEncode (D.desHash (desKey p) salt 25) ∧
      ∀ tail, cryptDes D p ([a64 salt, a64 (salt / 64)] ++ tail) = .ok H := by
  unfold cryptDes at h
  split at h
  · cases h
  · rename_i salt hs
    cases h
    refine ⟨salt, rfl, fun tail => ?_⟩
    unfold cryptDes
    rw [parseDesSalt_canon salt (parseDesSalt_lt hs) tail]


theorem cat_take_append (s tail : Bytes) (n i : Nat) (hi : i < n) (hn : n ≤ s.length) : cat (s.take n ++ tail) i = cat s i := by
  unfold cat
  simp only [List.getD_eq_getElem?_getD]
  rw [List.getElem?_append_left (by simp; omega), List.getElem?_take_of_lt hi]

theorem dec24_take_append (s tail : Bytes) (n i : Nat) (hi : i + 3 < n) (hn : n ≤ s.length) : dec24 (s.take n ++ tail) i = dec24 s i := by
  unfold dec24
  rw [cat_take_append s tail n i (by omega) hn, cat_take_append s tail n (i + 1) (by omega) hn,
      cat_take_append s tail n (i + 2) (by omega) hn, cat_take_append s tail n (i + 3) (by omega) hn]

theorem cryptBsdi_refeed {D : Digests} {p s H : Bytes} (h : cryptBsdi D p s = .ok H) :
    ∃ dig : Bytes, H = s.take 9 ++ dig ∧ ∀ tail, cryptBsdi D p (s.take 9 ++ tail) = .ok H := by
  unfold cryptBsdi at h
  split at h; · cases h
  rename_i hc
  simp only [not_or, Nat.not_lt, Decidable.not_not] at hc
  split at h; · cases h
  rename_i count hcount
  split at h; · cases h
  rename_i salt hsalt
  cases h
  refine ⟨_, rfl, fun tail => ?_⟩
  unfold cryptBsdi
  have h0 : cat (s.take 9 ++ tail) 0 = 95 := by rw [cat_take_append s tail 9 0 (by omega) hc.2]; exact hc.1
  have hl : ¬ (s.take 9 ++ tail).length < 9 := by simp; omega
  simp only [h0, hl, ne_eq, not_true_eq_false, or_self, if_false]
  rw [dec24_take_append s tail 9 1 (by omega) hc.2, dec24_take_append s tail 9 5 (by omega) hc.2, hcount, hsalt]
  simp only [List.take_left']
  rw [List.take_left' (by simp; omega)]


/-! ### bigcrypt -/


theorem bigSegments_len_ge (D : Digests) (hD : D.WF) (fuel : Nat) (p : Bytes) (salt : Nat) :
    11 ≤ (bigSegments D (fuel + 1) p salt).length := by
  unfold bigSegments
  have hl := desEncode_length8 _ (hD.des (desKey p) salt 25)
  simp only []
  split
  · omega
  · simp only [List.length_append]; omega

theorem cryptBig_fix (d : Bool) (D : Digests) (hD : D.WF) (p s H : Bytes) (h : cryptBig d D p s = .ok H) :
    cryptBig d D p H = .ok H := by
  unfold cryptBig at h
  split at h
  · rename_i hc
    split at h
    · rename_i hd
      have hl := (cryptDes_good hD h).2
      obtain ⟨salt, e, f⟩ := cryptDes_refeed h
      unfold cryptBig
      have : p.length > 8 ∧ H.length ≤ 13 := ⟨hc.1, by omega⟩
      simp only [this, and_self, if_true, hd]
      have := f (desEncode (D.desHash (desKey p) salt 25)); rwa [← e] at this
    · cases h
  · rename_i hc
    split at h; · cases h
    rename_i salt hs
    cases h
    unfold cryptBig
    have hlen : ¬ (p.length > 8 ∧ ([a64 salt, a64 (salt / 64)] ++ bigSegments D 16 p salt).length ≤ 13) := by
      intro hh
      have h8 := hh.1
      have : s.length > 13 := by
        simp only [not_and, Nat.not_le] at hc; exact hc h8
      -- two segments at least
      have hseg : 22 ≤ (bigSegments D 16 p salt).length := by
        rw [show (16 : Nat) = 15 + 1 from rfl, bigSegments]
        have hl := desEncode_length8 _ (hD.des (desKey p) salt 25)
        simp only []
        split
        · rename_i he; simp at he; omega
        · have : 11 ≤ (bigSegments D 15 (p.drop 8)
            ((asciiToBin ((desEncode (D.desHash (desKey p) salt 25)).getD 0 0)).getD 0 + (asciiToBin ((desEncode (D.desHash (desKey p) salt 25)).getD 1 0)).getD 0 * 64)).length :=
            bigSegments_len_ge D hD 14 _ _
          simp only [List.length_append]; omega
      have := hh.2
      simp only [List.length_append, List.length_cons, List.length_nil] at this
      omega
    simp only [hlen, if_false]
    rw [parseDesSalt_canon salt (parseDesSalt_lt hs)]

/-! ### bcrypt -/

theorem bfDecode16_congr (x y : Bytes) (h : ∀ i, i < 21 → cat x i = cat y i)
    (a b : Nat) (ha : bfAtoi (cat x 21) = some a) (hb : bfAtoi (cat y 21) = some b) (hab : a / 16 = b / 16) :
    bfDecode16 x = bfDecode16 y := by
  have h0 := h 0 (by omega); have h1 := h 1 (by omega); have h2 := h 2 (by omega); have h3 := h 3 (by omega)
  have h4 := h 4 (by omega); have h5 := h 5 (by omega); have h6 := h 6 (by omega); have h7 := h 7 (by omega)
  have h8 := h 8 (by omega); have h9 := h 9 (by omega); have h10 := h 10 (by omega); have h11 := h 11 (by omega)
  have h12 := h 12 (by omega); have h13 := h 13 (by omega); have h14 := h 14 (by omega); have h15 := h 15 (by omega)
  have h16 := h 16 (by omega); have h17 := h 17 (by omega); have h18 := h 18 (by omega); have h19 := h 19 (by omega)
  have h20 := h 20 (by omega)
  simp only [bfDecode16, bfDecode16.go, Nat.zero_add, Nat.reduceAdd, Nat.reduceEqDiff, if_false, if_true,
    h0, h1, h2, h3, h4, h5, h6, h7, h8, h9, h10, h11, h12, h13, h14, h15, h16, h17, h18, h19, h20, ha, hb]
  cases bfAtoi (cat y 20) with
  | none => rfl
  | some c1 => simp only [hab]

/-- a successful decode consumed 22 valid characters; in particular the last one is valid -/
theorem bfDecode16_last {x out : Bytes} (h : bfDecode16 x = some out) : ∃ c, bfAtoi (cat x 21) = some c := by
  simp only [bfDecode16, bfDecode16.go, Nat.zero_add, Nat.reduceAdd, Nat.reduceEqDiff, if_false, if_true] at h
  split at h <;> try (simp at h; done)
  simp only [Option.map_eq_some_iff] at h
  obtain ⟨_, h, _⟩ := h
  split at h <;> try (simp at h; done)
  simp only [Option.map_eq_some_iff] at h
  obtain ⟨_, h, _⟩ := h
  split at h <;> try (simp at h; done)
  simp only [Option.map_eq_some_iff] at h
  obtain ⟨_, h, _⟩ := h
  split at h <;> try (simp at h; done)
  simp only [Option.map_eq_some_iff] at h
  obtain ⟨_, h, _⟩ := h
  split at h <;> try (simp at h; done)
  simp only [Option.map_eq_some_iff] at h
  obtain ⟨_, h, _⟩ := h
  split at h <;> try (simp at h; done)
  rename_i c2 _ hc2
  exact ⟨c2, hc2⟩

theorem cat_drop (l : Bytes) (n i : Nat) : cat (l.drop n) i = cat l (n + i) := by
  simp [cat, List.getD_eq_getElem?_getD]

theorem cat_ne_zero_lt {l : Bytes} {i : Nat} (h : cat l i ≠ 0) : i < l.length := by
  apply Decidable.byContradiction
  intro hn
  apply h
  simp [cat, List.getD_eq_getElem?_getD, List.getElem?_eq_none (Nat.le_of_not_lt hn)]

set_option maxRecDepth 100000 in
theorem bfAtoi_bf64 : ∀ k : Fin 64, bfAtoi (bf64 k.val) = some k.val := by decide +kernel
set_option maxRecDepth 100000 in
theorem bfAtoi_lt (c : UInt8) (v : Nat) (h : bfAtoi c = some v) : v < 64 := by
  have H : ∀ c : UInt8, ∀ v, bfAtoi c = some v → v < 64 := by
    apply forall_uint8; decide +kernel
  exact H c v h
theorem bfAtoi_zero : bfAtoi 0 = none := by decide

theorem cryptBf_refeed {D : Digests} {p s H : Bytes} (h : cryptBf D p s = .ok H) :
    ∃ c22 dig, 28 < s.length ∧ H = s.take 28 ++ [c22] ++ dig ∧ ∀ tail, cryptBf D p (s.take 28 ++ [c22] ++ tail) = .ok H := by
  have hBF : Gen.BF_SETTING_LENGTH - 1 = 28 := by decide
  unfold cryptBf at h
  split at h; · cases h
  rename_i P hP
  split at h; · cases h
  rename_i hst
  cases h
  -- the original parse reached the salt decoder successfully
  have hdec : ∃ out, bfDecode16 (s.drop 7) = some out := by
    unfold parseBf at hP; simp only [] at hP
    split at hP; · cases hP
    split at hP; · cases hP
    split at hP; · cases hP
    split at hP; · cases hP
    rename_i out ho
    exact ⟨out, ho⟩
  obtain ⟨out, hout⟩ := hdec
  obtain ⟨c, hc⟩ := bfDecode16_last hout
  rw [cat_drop] at hc
  have hc64 := bfAtoi_lt _ _ hc
  have hlen : 28 < s.length := by
    apply cat_ne_zero_lt
    intro h0; rw [show 7 + 21 = 28 from rfl] at hc; rw [h0, bfAtoi_zero] at hc; cases hc
  rw [show 7 + 21 = 28 from rfl] at hc
  simp only [hBF, hc, Option.getD_some]
  refine ⟨_, _, hlen, rfl, fun tail => ?_⟩
  generalize hc22 : bf64 (c / 16 * 16) = c22
  have hatoi : bfAtoi c22 = some (c / 16 * 16) := by
    rw [← hc22]; have := bfAtoi_bf64 ⟨c / 16 * 16, by omega⟩; simpa using this
  have hcat : ∀ i, i < 28 → cat (s.take 28 ++ [c22] ++ tail) i = cat s i := by
    intro i hi; rw [List.append_assoc]; exact cat_take_append s _ 28 i hi (by omega)
  have h28 : cat (s.take 28 ++ [c22] ++ tail) 28 = c22 := by
    have := cat_append_mid (s.take 28) c22 tail
    rw [show (s.take 28).length = 28 by simp; omega] at this
    simpa using this
  have hparse : parseBf (s.take 28 ++ [c22] ++ tail) = parseBf s := by
    unfold parseBf
    simp only [hcat 0 (by omega), hcat 1 (by omega), hcat 2 (by omega), hcat 3 (by omega), hcat 4 (by omega),
      hcat 5 (by omega), hcat 6 (by omega)]
    have : bfDecode16 ((s.take 28 ++ [c22] ++ tail).drop 7) = bfDecode16 (s.drop 7) := by
      apply bfDecode16_congr _ _ _ (c / 16 * 16) c
      · rw [cat_drop, show 7 + 21 = 28 from rfl, h28]; exact hatoi
      · rw [cat_drop]; exact hc
      · omega
      · intro i hi; rw [cat_drop, cat_drop]; exact hcat _ (by omega)
    rw [this]
  unfold cryptBf
  rw [hparse, hP]
  simp only [hst, not_false_eq_true, if_false, hBF, h28, hatoi, Option.getD_some, not_true_eq_false]
  have e1 : c / 16 * 16 / 16 * 16 = c / 16 * 16 := by omega
  rw [e1, hc22]
  have e2 : (s.take 28 ++ [c22] ++ tail).take 28 = s.take 28 := by
    rw [List.append_assoc]; exact List.take_left' (by simp; omega)
  rw [e2]


/-! ### prefix-locality of `takeWhile` and of yescrypt's `decode64_uint32` (used by the sunmd5 / yescrypt round trips) -/


/-- `takeWhile` only looks at the list up to the first failing element -/
theorem takeWhile_take_append {α} (p : α → Bool) : ∀ (l : List α) (m : Nat) (z : List α),
    (l.takeWhile p).length < m → m ≤ l.length → (l.take m ++ z).takeWhile p = l.takeWhile p := by
  intro l
  induction l with
  | nil => intro m z h1 h2; simp at h2; omega
  | cons x xs ih =>
    intro m z h1 h2
    cases m with
    | zero => omega
    | succ m =>
      simp only [List.take_succ_cons, List.cons_append, List.takeWhile_cons]
      by_cases hx : p x = true
      · simp only [hx, if_true]
        simp only [List.takeWhile_cons, hx, if_true, List.length_cons] at h1
        rw [ih m z (by omega) (by simpa using h2)]
      · simp [hx]

theorem takeWhile_lt_of_stop {α} (p : α → Bool) (l : List α) (i : Nat) (hi : i < l.length) (hs : p (l[i]) = false)
    : (l.takeWhile p).length ≤ i := by
  induction l generalizing i with
  | nil => simp at hi
  | cons x xs ih =>
    simp only [List.takeWhile_cons]
    by_cases hx : p x = true
    · simp only [hx, if_true, List.length_cons]
      cases i with
      | zero => simp [hx] at hs
      | succ i =>
        have := ih i (by simpa using hi) (by simpa using hs); omega
    · simp [hx]


theorem yDec32_tail_congr (s s' : Bytes) : ∀ (k j bits dst : Nat), (∀ x, j ≤ x → x < j + k → cat s x = cat s' x) →
    yDec32.tail s k j bits dst = yDec32.tail s' k j bits dst := by
  intro k
  induction k with
  | zero => intro j bits dst _; simp [yDec32.tail]
  | succ k ih =>
    intro j bits dst h
    simp only [yDec32.tail]
    rw [h j (Nat.le_refl _) (by omega)]
    split
    · rfl
    · exact ih _ _ _ (fun x h1 h2 => h x (by omega) (by omega))

theorem walk_chars_ge (c : Nat) : ∀ fuel dst start end_ chars bits, chars ≤ (yDec32.walk c fuel dst start end_ chars bits).2.2.1 := by
  intro fuel
  induction fuel with
  | zero => intro dst start end_ chars bits; simp [yDec32.walk]
  | succ f ih =>
    intro dst start end_ chars bits
    simp only [yDec32.walk]
    split
    · have := ih (dst + (end_ + 1 - start) * 2 ^ bits) (end_ + 1) (end_ + 1 + (62 - end_) / 2) (chars + 1) (bits + 6); omega
    · simp

/-- the characters a successful `decode64_uint32` consumed determine its result -/
theorem yDec32_congr (s s' : Bytes) (i min v n : Nat) (h : yDec32 s i min = some (v, n))
    (hag : ∀ x, i ≤ x → x < i + n → cat s x = cat s' x) : yDec32 s' i min = some (v, n) := by
  unfold yDec32 at h ⊢
  simp only [] at h ⊢
  split at h; · cases h
  rename_i hc
  generalize hw : yDec32.walk (yAtoi (cat s i)) 8 min 0 47 1 0 = w at h
  obtain ⟨dst, start, chars, bits⟩ := w
  have hch : 1 ≤ chars := by
    have := walk_chars_ge (yAtoi (cat s i)) 8 min 0 47 1 0; rw [hw] at this; exact this
  simp only [] at h
  split at h; · cases h
  rename_i v0 hv0
  simp only [Option.some.injEq, Prod.mk.injEq] at h
  obtain ⟨hv, hn⟩ := h
  subst hn
  have e0 : cat s' i = cat s i := (hag i (Nat.le_refl _) (by omega)).symm
  rw [e0, if_neg hc, hw]
  simp only []
  rw [← yDec32_tail_congr s s' (chars - 1) (i + 1) bits _ (fun x h1 h2 => hag x (by omega) (by omega)), hv0]
  simp [hv]


/-! ### yescrypt family: locality of the parameter parser, `strrchr` -/


theorem yAtoi_zero : yAtoi 0 = 64 := by decide

theorem yAtoi_valid_ne_zero {c : UInt8} (h : ¬ yAtoi c > 63) : c ≠ 0 := by
  intro h0; subst h0; rw [yAtoi_zero] at h; omega

theorem yDecFixed30_congr (s s' : Bytes) (i : Nat) (h : ∀ k, k < 5 → cat s' (i + k) = cat s (i + k)) :
    yDecFixed30 s' i = yDecFixed30 s i := by
  unfold yDecFixed30
  have : (List.range 5).map (fun k => yAtoi (cat s' (i + k))) = (List.range 5).map (fun k => yAtoi (cat s (i + k))) := by
    apply List.map_congr_left
    intro k hk
    rw [h k (by simpa using hk)]
  rw [this]

/-- a successful fixed-width decode read five valid characters; in particular the last one exists -/
theorem yDecFixed30_last {s : Bytes} {i v : Nat} (h : yDecFixed30 s i = some v) : i + 4 < s.length := by
  unfold yDecFixed30 at h
  simp only [] at h
  split at h; · cases h
  rename_i hany
  simp only [List.any_eq_true, not_exists, not_and, List.mem_map, List.mem_range] at hany
  apply cat_ne_zero_lt
  apply yAtoi_valid_ne_zero
  have := hany (yAtoi (cat s (i + 4))) ⟨4, by omega, rfl⟩
  simpa using this

/-- `$7$` parameters: fixed positions 3..13 -/
theorem yParams_local7 {s : Bytes} {P : YParams} {pl : Nat} (h : yParams s = some (P, pl)) (h7 : cat s 1 = 55) :
    pl = 14 ∧ pl ≤ s.length ∧ ∀ s' : Bytes, (∀ i, i < pl → cat s' i = cat s i) → yParams s' = some (P, pl) := by
  unfold yParams at h
  simp only [] at h
  split at h; · cases h
  rename_i hpre
  try rw [if_pos h7] at h
  try simp only [] at h
  split at h; · cases h
  rename_i hnlog
  split at h
  · rename_i r p hr hp
    simp only [Option.some.injEq, Prod.mk.injEq] at h
    obtain ⟨hP, hpl⟩ := h
    subst hpl
    have hlen := yDecFixed30_last hp
    refine ⟨rfl, by omega, fun s' hag => ?_⟩
    unfold yParams
    dsimp only
    have e0 := hag 0 (by omega); have e1 := hag 1 (by omega); have e2 := hag 2 (by omega); have e3 := hag 3 (by omega)
    have d4 := yDecFixed30_congr s s' 4 (fun k hk => hag (4 + k) (by omega))
    have d9 := yDecFixed30_congr s s' 9 (fun k hk => hag (9 + k) (by omega))
    simp only [e0, e1, e2, e3, d4, d9, hr, hp, if_neg hpre, if_pos h7, if_neg hnlog, hP]
  · cases h


theorem strrchr_go_notin (c : UInt8) : ∀ (l : Bytes) (i : Nat) (best : Option Nat), c ∉ l → strrchr.go c l i best = best := by
  intro l
  induction l with
  | nil => intro i best _; rfl
  | cons x xs ih =>
    intro i best h
    simp only [List.mem_cons, not_or] at h
    simp only [strrchr.go]
    have : (x == c) = false := by simpa using fun e => h.1 e.symm
    rw [this]; exact ih _ _ h.2

theorem strrchr_go_append (c : UInt8) : ∀ (a b : Bytes) (i : Nat) (best : Option Nat), c ∉ b →
    strrchr.go c (a ++ c :: b) i best = some (i + a.length) := by
  intro a
  induction a with
  | nil => intro b i best h; simp [strrchr.go, strrchr_go_notin c b _ _ h]
  | cons x xs ih =>
    intro b i best h
    simp only [List.cons_append, strrchr.go, List.length_cons]
    rw [ih b (i + 1) _ h]; congr 1; omega

/-- the last occurrence: `a ++ c :: b` with no `c` in `b` -/
theorem strrchr_append_stop (a b : Bytes) (c : UInt8) (h : c ∉ b) : strrchr (a ++ c :: b) c = some a.length := by
  unfold strrchr; rw [strrchr_go_append c a b 0 none h]; simp

theorem strrchr_go_lt (c : UInt8) : ∀ (l : Bytes) (i : Nat) (best : Option Nat) (k : Nat),
    strrchr.go c l i best = some k → best = some k ∨ (i ≤ k ∧ k < i + l.length) := by
  intro l
  induction l with
  | nil => intro i best k h; left; simpa [strrchr.go] using h
  | cons x xs ih =>
    intro i best k h
    simp only [strrchr.go] at h
    rcases ih _ _ _ h with h1 | h1
    · split at h1
      · right; simp at h1; simp; omega
      · left; exact h1
    · right; simp; omega

theorem strrchr_lt {l : Bytes} {c : UInt8} {k : Nat} (h : strrchr l c = some k) : k < l.length := by
  unfold strrchr at h
  rcases strrchr_go_lt c l 0 none k h with h1 | h1
  · cases h1
  · omega



theorem yOpt_local {s : Bytes} {cond : Bool} {i min dflt v j : Nat} (h : yOpt s cond i min dflt = some (v, j)) :
    i ≤ j ∧ ∀ s' : Bytes, (∀ x, i ≤ x → x < j → cat s x = cat s' x) → yOpt s' cond i min dflt = some (v, j) := by
  unfold yOpt at h ⊢
  cases cond with
  | false =>
    simp only [Bool.false_eq_true, if_false, Option.some.injEq, Prod.mk.injEq] at h
    obtain ⟨rfl, rfl⟩ := h
    exact ⟨Nat.le_refl _, fun s' _ => by simp⟩
  | true =>
    simp only [if_true, Option.map_eq_some_iff] at h
    obtain ⟨⟨v0, n0⟩, hd, he⟩ := h
    simp only [Prod.mk.injEq] at he
    obtain ⟨rfl, rfl⟩ := he
    refine ⟨by omega, fun s' hag => ?_⟩
    simp only [if_true]
    rw [yDec32_congr s s' i min v0 n0 hd hag]
    simp

/-- `$y$` parameters: everything is read below the returned prefix length -/
theorem yParams_localY {s : Bytes} {P : YParams} {pl : Nat} (h : yParams s = some (P, pl)) (h7 : cat s 1 ≠ 55) :
    3 < pl ∧ pl ≤ s.length ∧ ∀ s' : Bytes, (∀ i, i < pl → cat s' i = cat s i) → yParams s' = some (P, pl) := by
  unfold yParams at h
  dsimp only at h
  split at h; · cases h
  rename_i hpre
  try rw [if_neg h7] at h
  split at h; · cases h
  rename_i flavor n1 hf
  split at h; · cases h
  rename_i flags hflags
  split at h; · cases h
  rename_i nlog n2 hn
  split at h; · cases h
  rename_i hnl
  split at h; · cases h
  rename_i r n3 hr
  split at h
  · -- short form: `$y$<flavor><N><r>$`
    rename_i h36
    simp only [Option.some.injEq, Prod.mk.injEq] at h
    obtain ⟨hP, hpl⟩ := h
    have hlen : 3 + n1 + n2 + n3 < s.length := cat_ne_zero_lt (by rw [h36]; decide)
    refine ⟨by omega, by omega, fun s' hag => ?_⟩
    have ag : ∀ x, x < pl → cat s x = cat s' x := fun x hx => (hag x hx).symm
    unfold yParams
    dsimp only
    have e0 := hag 0 (by omega); have e1 := hag 1 (by omega); have e2 := hag 2 (by omega)
    have f1 := yDec32_congr s s' 3 0 flavor n1 hf (fun x _ h2 => ag x (by omega))
    have f2 := yDec32_congr s s' (3 + n1) 1 nlog n2 hn (fun x _ h2 => ag x (by omega))
    have f3 := yDec32_congr s s' (3 + n1 + n2) 1 r n3 hr (fun x _ h2 => ag x (by omega))
    have e36 := hag (3 + n1 + n2 + n3) (by omega)
    simp only [e0, e1, e2, if_neg hpre, if_neg h7, f1, hflags, f2, if_neg hnl, f3, e36, h36, if_true, hP, hpl]
  · -- long form with the optional fields
    rename_i hn36
    split at h; · cases h
    rename_i hv n4 hh
    split at h; · cases h
    rename_i pp i5 hp5
    split at h; · cases h
    rename_i tt i6 hp6
    split at h; · cases h
    rename_i gg i7 hp7
    split at h; · cases h
    rename_i nrom i8 hp8
    split at h; · cases h
    rename_i hnr
    split at h; · cases h
    rename_i h36
    simp only [Option.some.injEq, Prod.mk.injEq] at h
    obtain ⟨hP, hpl⟩ := h
    simp only [ne_eq, Decidable.not_not] at h36
    obtain ⟨b5, l5⟩ := yOpt_local hp5
    obtain ⟨b6, l6⟩ := yOpt_local hp6
    obtain ⟨b7, l7⟩ := yOpt_local hp7
    obtain ⟨b8, l8⟩ := yOpt_local hp8
    have hlen : i8 < s.length := cat_ne_zero_lt (by rw [h36]; decide)
    refine ⟨by omega, by omega, fun s' hag => ?_⟩
    have ag : ∀ x, x < pl → cat s x = cat s' x := fun x hx => (hag x hx).symm
    unfold yParams
    dsimp only
    have e0 := hag 0 (by omega); have e1 := hag 1 (by omega); have e2 := hag 2 (by omega)
    have f1 := yDec32_congr s s' 3 0 flavor n1 hf (fun x _ h2 => ag x (by omega))
    have f2 := yDec32_congr s s' (3 + n1) 1 nlog n2 hn (fun x _ h2 => ag x (by omega))
    have f3 := yDec32_congr s s' (3 + n1 + n2) 1 r n3 hr (fun x _ h2 => ag x (by omega))
    have f4 := yDec32_congr s s' (3 + n1 + n2 + n3) 1 hv n4 hh (fun x _ h2 => ag x (by omega))
    have e36a := hag (3 + n1 + n2 + n3) (by omega)
    have g5 := l5 s' (fun x _ h2 => ag x (by omega))
    have g6 := l6 s' (fun x _ h2 => ag x (by omega))
    have g7 := l7 s' (fun x _ h2 => ag x (by omega))
    have g8 := l8 s' (fun x _ h2 => ag x (by omega))
    have e36 := hag i8 (by omega)
    simp only [e0, e1, e2, if_neg hpre, if_neg h7, f1, hflags, f2, if_neg hnl, f3, e36a, if_neg hn36, f4, g5, g6, g7, g8,
      if_neg hnr, e36, h36, ne_eq, not_true_eq_false, if_false, hP, hpl]

theorem a64_ne_36 : ∀ k : Fin 64, a64 k.val ≠ 36 := by decide
theorem a64_ne_36' (n : Nat) : a64 n ≠ 36 := by
  have := a64_ne_36 ⟨n % 64, Nat.mod_lt _ (by decide)⟩; simpa [a64] using this

theorem enc64Group_no36 (g : Bytes) : (36 : UInt8) ∉ enc64Group g := by
  intro h
  simp only [enc64Group, List.mem_map] at h
  obtain ⟨i, _, hi⟩ := h
  exact a64_ne_36' _ hi

theorem encode64_no36 : ∀ d : Bytes, (36 : UInt8) ∉ encode64 d
  | [] => by simp [encode64]
  | [_] => by simp only [encode64]; exact enc64Group_no36 _
  | [_, _] => by simp only [encode64]; exact enc64Group_no36 _
  | _ :: _ :: _ :: rest => by
    have := encode64_no36 rest
    simp only [encode64, List.mem_append, not_or]
    exact ⟨enc64Group_no36 _, this⟩

/-- `yFinish` once the length of the salt string is known -/
def yFin (s : Bytes) (n : Nat) (P : YParams) (pl sl : Nat) : Option YParsed :=
  match (if cat s 1 = 55 then some ((s.drop pl).take sl) else yDecode64 ((s.drop pl).take sl) 64) with
  | none => none
  | some salt =>
    if pl + sl + 1 + Gen.YESCRYPT_HASH_LEN + 1 > n then none else
    some { params := P, prefixlen := pl, saltstrlen := sl, salt := salt }

theorem yFinish_eq (s : Bytes) (n : Nat) (P : YParams) (pl : Nat) :
    yFinish s n P pl = yFin s n P pl (match strrchr (s.drop pl) 36 with | some k => k | none => (s.drop pl).length) := rfl

/-- the salt part re-read from `take (pl + sl) s ++ "$" ++ text` (text free of `$`) -/
theorem yFinish_refeed {s : Bytes} {n pl : Nat} {P : YParams} {Q : YParsed} (h : yFinish s n P pl = some Q) (hpl : 1 < pl ∧ pl ≤ s.length)
    (tail : Bytes) (ht : (36 : UInt8) ∉ tail) :
    Q.prefixlen = pl ∧ pl + Q.saltstrlen ≤ s.length ∧ yFinish (s.take (pl + Q.saltstrlen) ++ 36 :: tail) n P pl = some Q := by
  rw [yFinish_eq] at h
  generalize hsl : (match strrchr (s.drop pl) 36 with | some k => k | none => (s.drop pl).length) = sl at h
  have hsle : sl ≤ (s.drop pl).length := by
    rw [← hsl]; split
    · rename_i k hk; exact Nat.le_of_lt (strrchr_lt hk)
    · exact Nat.le_refl _
  unfold yFin at h
  split at h; · cases h
  rename_i salt hsalt
  split at h; · cases h
  rename_i hneed
  simp only [Option.some.injEq] at h
  subst h
  have hlen : pl + sl ≤ s.length := by simp at hsle; omega
  refine ⟨rfl, hlen, ?_⟩
  rw [yFinish_eq]
  dsimp only
  have hdrop : (s.take (pl + sl) ++ 36 :: tail).drop pl = (s.drop pl).take sl ++ 36 :: tail := by
    rw [List.drop_append_of_le_length (by simp; omega), List.drop_take]; congr 2; omega
  have hxl : ((s.drop pl).take sl).length = sl := by simp; simp at hsle; omega
  rw [hdrop, strrchr_append_stop _ _ 36 ht, hxl]
  unfold yFin
  have h1 : cat (s.take (pl + sl) ++ 36 :: tail) 1 = cat s 1 := cat_take_append s _ (pl + sl) 1 (by omega) hlen
  have htk : ((s.drop pl).take sl ++ 36 :: tail).take sl = (s.drop pl).take sl := by
    exact List.take_left' hxl
  rw [hdrop, htk, h1, hsalt]
  simp only [hneed, if_false]

theorem yParams_local {s : Bytes} {P : YParams} {pl : Nat} (h : yParams s = some (P, pl)) :
    3 < pl ∧ pl ≤ s.length ∧ ∀ s' : Bytes, (∀ i, i < pl → cat s' i = cat s i) → yParams s' = some (P, pl) := by
  by_cases h7 : cat s 1 = 55
  · obtain ⟨a, b, c⟩ := yParams_local7 h h7
    exact ⟨by omega, b, c⟩
  · exact yParams_localY h h7

/-- `yescrypt_r`: the result is `take (prefixlen + saltstrlen) setting ++ "$" ++ digest`, and hashing the same phrase with
    that part followed by `$` and ANY text free of `$` gives the same result -/
theorem yescryptR_refeed {D : Digests} {p s out : Bytes} {n : Nat} (h : yescryptR D p s n = some out) :
    ∃ k dig, k ≤ s.length ∧ 3 < k ∧ out = s.take k ++ 36 :: dig ∧ (36 : UInt8) ∉ dig ∧
      ∀ tail, (36 : UInt8) ∉ tail → yescryptR D p (s.take k ++ 36 :: tail) n = some (s.take k ++ 36 :: dig) := by
  unfold yescryptR at h
  split at h; · cases h
  rename_i Q hQ
  split at h; · cases h
  rename_i hd hD
  dsimp only at h
  split at h; · cases h
  rename_i hfit
  simp only [Option.some.injEq] at h
  unfold parseYescrypt at hQ
  split at hQ; · cases hQ
  rename_i P pl hP
  obtain ⟨hpl3, hpll, hloc⟩ := yParams_local hP
  have e36 := encode64_no36 hd
  refine ⟨Q.prefixlen + Q.saltstrlen, encode64 hd, ?_, ?_, ?_, e36, ?_⟩
  · obtain ⟨a, b, _⟩ := yFinish_refeed hQ ⟨by omega, hpll⟩ [] (by simp); omega
  · obtain ⟨a, b, _⟩ := yFinish_refeed hQ ⟨by omega, hpll⟩ [] (by simp); omega
  · rw [← h]; simp
  · intro tail ht
    obtain ⟨a, b, c⟩ := yFinish_refeed hQ ⟨by omega, hpll⟩ tail ht
    rw [a]
    unfold yescryptR parseYescrypt
    have hag : ∀ i, i < pl → cat (s.take (pl + Q.saltstrlen) ++ 36 :: tail) i = cat s i :=
      fun i hi => cat_take_append s _ (pl + Q.saltstrlen) i (by omega) b
    rw [hloc _ hag]
    dsimp only
    rw [c]
    simp only [hD]
    have htake : (s.take (pl + Q.saltstrlen) ++ 36 :: tail).take (Q.prefixlen + Q.saltstrlen) = s.take (pl + Q.saltstrlen) := by
      rw [a]; exact List.take_left' (by simp; omega)
    rw [htake]
    have hlen2 : ¬ (s.take (pl + Q.saltstrlen) ++ 36 :: encode64 hd).length ≥ n := by
      rw [a] at hfit; simpa using hfit
    simp only [List.append_assoc, List.singleton_append, if_neg hlen2]

end Xc

/-
  sunmd5: locality of `strtoul`, the salt part of the parser re-read from the result, and the round trip of crypt_sunmd5_rn (C01).
-/
import Xc.Lemmas.Scrypt
namespace Xc
open List


/-- `strtoul` on a string that starts with a digit: only the run of digits matters -/
def strtoulDigits (ds : Bytes) : StrtoulResult :=
  if ds.isEmpty then { value := 0, consumed := 0, erange := false }
  else if digitsValue ds > ULONG_MAX then { value := ULONG_MAX, consumed := 0 + ds.length, erange := true }
  else { value := if false = true then (2 ^ 64 - digitsValue ds) % 2 ^ 64 else digitsValue ds, consumed := 0 + ds.length, erange := false }

theorem strtoul10_nosign (x : Bytes) (h0 : isDigit (cat x 0) = true) : strtoul10 x = strtoulDigits (x.takeWhile isDigit) := by
  cases x with
  | nil => simp [cat, isDigit] at h0
  | cons c t =>
    have hc : isDigit c = true := by simpa [cat] using h0
    have c45 : c ≠ 45 := by intro h; subst h; simp [isDigit] at hc
    have c43 : c ≠ 43 := by intro h; subst h; simp [isDigit] at hc
    unfold strtoul10
    split
    rename_i neg sl heq
    split at heq
    · rename_i h2; simp at h2; exact absurd h2.1 c45
    · rename_i h2; simp at h2; exact absurd h2.1 c43
    · simp only [Prod.mk.injEq] at heq
      obtain ⟨rfl, rfl⟩ := heq
      simp only [List.drop_zero]; rfl

theorem strtoul10_local (x z : Bytes) (m : Nat) (h0 : isDigit (cat x 0) = true) (hm : (x.takeWhile isDigit).length < m) (hle : m ≤ x.length) :
    strtoul10 (x.take m ++ z) = strtoul10 x := by
  have htw := takeWhile_take_append isDigit x m z hm hle
  have h0' : isDigit (cat (x.take m ++ z) 0) = true := by
    rw [cat_take_append x z m 0 (by omega) hle]; exact h0
  rw [strtoul10_nosign _ h0, strtoul10_nosign _ h0', htw]


theorem takeWhile_eq_take (p : UInt8 → Bool) (l : Bytes) : l.takeWhile p = l.take (l.takeWhile p).length := by
  induction l with
  | nil => simp
  | cons x xs ih =>
    simp only [List.takeWhile_cons]
    split
    · simp only [List.length_cons, List.take_succ_cons]; rw [← ih]
    · simp

theorem cat_eq_getElem {l : Bytes} {i : Nat} (h : i < l.length) : cat l i = l[i] := by
  simp [cat, List.getD_eq_getElem?_getD, h]

theorem take_succ_of_cat (l : Bytes) (k : Nat) (c : UInt8) (hc : c ≠ 0) (h : cat l k = c) : l.take (k + 1) = l.take k ++ [c] := by
  have hk : k < l.length := cat_ne_zero_lt (by rw [h]; exact hc)
  rw [List.take_succ, List.getElem?_eq_getElem hk]
  simp only [Option.toList_some]
  rw [← cat_eq_getElem hk, h]

/-- re-reading the salt part from `take saltlen s ++ "$" ++ text`, where the text does not begin with `$` -/
theorem sunStep2_refeed {s : Bytes} {n p : Nat} {P : SunParsed} (h : sunStep2 s n p = .ok P) (hp : p ≤ s.length) (tail : Bytes)
    (ht : cat tail 0 ≠ 36 ∧ cat tail 0 ≠ 0) :
    p ≤ P.saltlen ∧ P.saltlen ≤ s.length ∧ sunStep2 (s.take P.saltlen ++ 36 :: tail) n p = .ok P := by
  unfold sunStep2 at h
  dsimp only at h
  generalize hk : strspn (s.drop p) Gen.ascii64 = k at h
  have hkl : k ≤ (s.drop p).length := by rw [← hk]; unfold strspn; exact takeWhile_length_le _ _
  have hkl' : p + k ≤ s.length := by simp at hkl; omega
  have hrun : ∀ x ∈ (s.drop p).take k, x ∈ Gen.ascii64 := by
    intro x hx
    have := take_takeWhile_all (fun c => Gen.ascii64.contains c) (s.drop p) k (by rw [← hk]; unfold strspn; exact Nat.le_refl _) x hx
    simpa using this
  split at h; · cases h
  rename_i hend
  by_cases hq : (cat s (p + k) == 36 && (cat s (p + k + 1) == 36 || cat s (p + k + 1) == 0)) = true
  · -- the `$` after the salt is part of the salt
    simp only [hq, if_true] at h
    split at h; · cases h
    rename_i hfit
    simp only [Except.ok.injEq] at h
    subst h
    dsimp only
    have h36 : cat s (p + k) = 36 := by simp only [Bool.and_eq_true, beq_iff_eq] at hq; exact hq.1
    have hlt : p + k < s.length := cat_ne_zero_lt (by rw [h36]; decide)
    refine ⟨by omega, by omega, ?_⟩
    unfold sunStep2
    dsimp only
    have hdrop : (s.take (p + k + 1) ++ 36 :: tail).drop p = (s.drop p).take k ++ 36 :: (36 :: tail) := by
      rw [List.drop_append_of_le_length (by simp; omega), List.drop_take]
      rw [show p + k + 1 - p = k + 1 by omega]
      rw [take_succ_of_cat (s.drop p) k 36 (by decide) (by rw [cat_drop]; exact h36)]
      simp
    have hsp : strspn ((s.take (p + k + 1) ++ 36 :: tail).drop p) Gen.ascii64 = k := by
      rw [hdrop, strspn_stop _ 36 _ Gen.ascii64 hrun (by decide)]; simp; simp at hkl; omega
    rw [hsp]
    have c1 : cat (s.take (p + k + 1) ++ 36 :: tail) (p + k) = 36 := by
      rw [cat_take_append s _ (p + k + 1) (p + k) (by omega) (by omega)]; exact h36
    have c2 : cat (s.take (p + k + 1) ++ 36 :: tail) (p + k + 1) = 36 := by
      have := cat_append_mid (s.take (p + k + 1)) 36 tail
      rw [show (s.take (p + k + 1)).length = p + k + 1 by simp; omega] at this; exact this
    simp only [c1, c2, ne_eq, not_true_eq_false, and_false, if_false, beq_self_eq_true, Bool.true_or, Bool.and_self, if_true, hfit]
  · -- the salt ends before the `$` (or at the end of the string)
    simp only [hq, Bool.false_eq_true, if_false] at h
    split at h; · cases h
    rename_i hfit
    simp only [Except.ok.injEq] at h
    subst h
    dsimp only
    refine ⟨by omega, hkl', ?_⟩
    unfold sunStep2
    dsimp only
    have hdrop : (s.take (p + k) ++ 36 :: tail).drop p = (s.drop p).take k ++ 36 :: tail := by
      rw [List.drop_append_of_le_length (by simp; omega), List.drop_take]
      rw [show p + k - p = k by omega]
    have hsp : strspn ((s.take (p + k) ++ 36 :: tail).drop p) Gen.ascii64 = k := by
      rw [hdrop, strspn_stop _ 36 _ Gen.ascii64 hrun (by decide)]; simp; simp at hkl; omega
    rw [hsp]
    have c1 : cat (s.take (p + k) ++ 36 :: tail) (p + k) = 36 := by
      have := cat_append_mid (s.take (p + k)) 36 tail
      rw [show (s.take (p + k)).length = p + k by simp; omega] at this; exact this
    have c2 : cat (s.take (p + k) ++ 36 :: tail) (p + k + 1) = cat tail 0 := by
      unfold cat
      simp only [List.getD_eq_getElem?_getD]
      rw [List.getElem?_append_right (by simp; omega)]
      rw [show (s.take (p + k)).length = p + k by simp; omega, show p + k + 1 - (p + k) = 1 by omega]
      simp
    have hq2 : ¬ ((cat tail 0 == 36 || cat tail 0 == 0) = true) := by simp [ht.1, ht.2]
    simp only [c1, c2, ne_eq, not_true_eq_false, and_false, if_false, beq_self_eq_true, Bool.true_and, hq2, Bool.false_eq_true, hfit]

theorem a64_ne_zero : ∀ k : Fin 64, a64 k.val ≠ 0 := by decide
theorem permEncode_head (d : Bytes) : cat (permEncode Gen.perm_sunmd5 d) 0 ≠ 36 ∧ cat (permEncode Gen.perm_sunmd5 d) 0 ≠ 0 := by
  have h : ∃ v, cat (permEncode Gen.perm_sunmd5 d) 0 = a64 v := by
    simp [permEncode, Gen.perm_sunmd5, b64from24, cat, List.range, List.range.loop]
    exact ⟨_, rfl⟩
  obtain ⟨v, hv⟩ := h
  rw [hv]
  refine ⟨a64_ne_36' v, ?_⟩
  have := a64_ne_zero ⟨v % 64, Nat.mod_lt _ (by decide)⟩
  simpa [a64] using this

theorem parseSunmd5_refeed {s : Bytes} {P : SunParsed} (h : parseSunmd5 s = .ok P) (tail : Bytes)
    (ht : cat tail 0 ≠ 36 ∧ cat tail 0 ≠ 0) :
    5 ≤ P.saltlen ∧ P.saltlen ≤ s.length ∧ parseSunmd5 (s.take P.saltlen ++ 36 :: tail) = .ok P := by
  have hpl : Gen.SUNMD5_PREFIX_LEN = 4 := by decide
  have hpx : Gen.SUNMD5_PREFIX = [36, 109, 100, 53] := by decide
  have hre : roundsEq.length = 7 := by decide
  unfold parseSunmd5 at h
  dsimp only at h
  split at h; · cases h
  rename_i hhead
  simp only [not_or, Decidable.not_not, not_and] at hhead
  obtain ⟨hpre, hsep⟩ := hhead
  have hlen5 : 5 ≤ s.length := by
    have : cat s 4 ≠ 0 := by
      intro h0; rw [hpl] at hsep
      by_cases h36 : cat s 4 = 36
      · rw [h0] at h36; exact absurd h36 (by decide)
      · have := hsep h36; rw [h0] at this; exact absurd this (by decide)
    have := cat_ne_zero_lt this; omega
  split at h
  · -- explicit rounds
    rename_i hrp
    split at h; · cases h
    rename_i hc0
    split at h; · cases h
    rename_i hrc
    split at h; · cases h
    rename_i h36
    simp only [ne_eq, Decidable.not_not] at h36
    simp only [not_or, Nat.not_lt] at hrc
    have hp2 : Gen.SUNMD5_PREFIX_LEN + 1 + roundsEq.length + (strtoul10 (s.drop (Gen.SUNMD5_PREFIX_LEN + 1 + roundsEq.length))).consumed < s.length :=
      cat_ne_zero_lt (by rw [h36]; decide)
    obtain ⟨a, b, c⟩ := sunStep2_refeed h (by omega) tail ht
    refine ⟨by rw [hpl] at a; omega, b, ?_⟩
    simp only [hpl, hre] at a hrp hc0 hrc h36 hp2 c
    generalize hcon : (strtoul10 (s.drop (4 + 1 + 7))).consumed = cn at *
    generalize hval : (strtoul10 (s.drop (4 + 1 + 7))).value = vl at *
    generalize hera : (strtoul10 (s.drop (4 + 1 + 7))).erange = er at *
    generalize P.saltlen = L at *
    have hag : ∀ i, i < L → cat (s.take L ++ 36 :: tail) i = cat s i := fun i hi => cat_take_append s _ L i hi b
    unfold parseSunmd5
    dsimp only
    have hpre' : hasPrefix (s.take L ++ 36 :: tail) Gen.SUNMD5_PREFIX = true := by
      unfold hasPrefix at hpre ⊢
      rw [List.isPrefixOf_iff_prefix] at hpre ⊢
      exact prefix_take_append' _ L hpre (by rw [hpx]; simp; omega)
    have hrp' : hasPrefix ((s.take L ++ 36 :: tail).drop (4 + 1)) roundsEq = true := by
      rw [List.drop_append_of_le_length (by simp; omega), List.drop_take]
      unfold hasPrefix at hrp ⊢
      rw [List.isPrefixOf_iff_prefix] at hrp ⊢
      exact prefix_take_append' _ (L - (4 + 1)) hrp (by rw [hre]; omega)
    -- the digits of the round count lie inside the kept part
    have hdig : isDigit (cat (s.drop (4 + 1 + 7)) 0) = true := by
      rw [cat_drop]; simp only [Bool.and_eq_true, decide_eq_true_eq, Bool.not_eq_true] at hc0
      simp only [isDigit, Bool.and_eq_true, decide_eq_true_eq]
      have : (49 ≤ cat s (4 + 1 + 7) && cat s (4 + 1 + 7) ≤ 57) = true := by simpa using hc0
      simp only [Bool.and_eq_true, decide_eq_true_eq] at this
      exact ⟨Nat.le_trans (by decide) this.1, this.2⟩
    have hns := strtoul10_nosign _ hdig
    have hcn : cn = ((s.drop (4 + 1 + 7)).takeWhile isDigit).length := by
      rw [← hcon, hns]; unfold strtoulDigits; split
      · rename_i he; simp at he; simp [he]
      · split <;> simp
    have hst : strtoul10 ((s.take L ++ 36 :: tail).drop (4 + 1 + 7)) = strtoul10 (s.drop (4 + 1 + 7)) := by
      rw [List.drop_append_of_le_length (by simp; omega), List.drop_take]
      exact strtoul10_local _ _ _ hdig (by omega) (by simp; omega)
    rw [hpl, hre]
    have e4 := hag 4 (by omega)
    have e12 := hag (4 + 1 + 7) (by omega)
    have ep2 := hag (4 + 1 + 7 + cn) (by omega)
    have hs : ¬ (cat s 4 ≠ 36 ∧ cat s 4 ≠ 44) := by
      intro hh; exact hh.2 (hsep hh.1)
    simp only [hpre', e4, hrp', not_true_eq_false, false_or, if_true, e12, hst, hcon, hval, hera, ep2]
    rw [if_neg hs, if_neg hc0]
    have hrc' : ¬ (cn = 0 ∨ vl > Gen.SUNMD5_MAX_ROUNDS ∨ er = true) := by
      intro hh; rcases hh with hh | hh | hh
      · exact hrc.1 hh
      · omega
      · exact hrc.2.2 hh
    rw [if_neg hrc', if_neg (by simpa using h36)]
    exact c
  · rename_i hrp
    obtain ⟨a, b, c⟩ := sunStep2_refeed h (by omega) tail ht
    refine ⟨by rw [hpl] at a; omega, b, ?_⟩
    rw [hpl] at a hrp hsep
    generalize P.saltlen = L at *
    have hag : ∀ i, i < L → cat (s.take L ++ 36 :: tail) i = cat s i := fun i hi => cat_take_append s _ L i hi b
    unfold parseSunmd5
    dsimp only
    have hpre' : hasPrefix (s.take L ++ 36 :: tail) Gen.SUNMD5_PREFIX = true := by
      unfold hasPrefix at hpre ⊢
      rw [List.isPrefixOf_iff_prefix] at hpre ⊢
      exact prefix_take_append' _ L hpre (by rw [hpx]; simp; omega)
    have hnp : hasPrefix ((s.take L ++ 36 :: tail).drop (Gen.SUNMD5_PREFIX_LEN + 1)) roundsEq = false := by
      rw [hpl, List.drop_append_of_le_length (by simp; omega), List.drop_take]
      exact noPrefix_take _ _ _ _ (by simpa using hrp) (by decide)
    rw [hpl] at hnp ⊢
    have e4 := hag 4 (by omega)
    simp only [hpre', e4, hnp, not_true_eq_false, false_or, Bool.false_eq_true, if_false]
    have hs : ¬ (cat s 4 ≠ 36 ∧ cat s 4 ≠ 44) := by
      intro hh; exact hh.2 (hsep hh.1)
    rw [if_neg hs]
    exact c

/-- sunmd5: the result is `take saltlen setting ++ "$" ++ digest`, and that string parses to the same (rounds, saltlen) -/
theorem cryptSunmd5_fix (D : Digests) (p s H : Bytes) (h : cryptSunmd5 D p s = .ok H) : cryptSunmd5 D p H = .ok H := by
  unfold cryptSunmd5 at h
  split at h; · cases h
  rename_i P hP
  simp only [Except.ok.injEq] at h
  obtain ⟨_, hl, hre⟩ := parseSunmd5_refeed hP (permEncode Gen.perm_sunmd5 (D.sunmd5 p (s.take P.saltlen) P.nrounds)) (permEncode_head _)
  have hH : H = s.take P.saltlen ++ 36 :: permEncode Gen.perm_sunmd5 (D.sunmd5 p (s.take P.saltlen) P.nrounds) := by
    rw [← h]; simp
  unfold cryptSunmd5
  rw [hH, hre]
  simp only [Except.ok.injEq]
  have : (s.take P.saltlen ++ 36 :: permEncode Gen.perm_sunmd5 (D.sunmd5 p (s.take P.saltlen) P.nrounds)).take P.saltlen = s.take P.saltlen :=
    List.take_left' (by simp; omega)
  rw [this]; simp

end Xc

/-
  bigcrypt: equality of two segment strings is a DES collision at every segment (C03).
-/
import Xc.Lemmas.Inj
import Xc.Lemmas.Safe
namespace Xc
open List

/-- segment-wise collision: what equality of two bigcrypt segment strings means.  At each of the (at most 16) segments the two
    8-byte keys collide under the segment's salt; both phrases end at the same segment, except that at the last segment
    (`fuel = 1`) one of them may go on: bytes beyond 128 are not read. -/
def SegColl (D : Digests) : Nat → Bytes → Bytes → Nat → Prop
  | 0, _, _, _ => True
  | fuel + 1, p, p', salt =>
    D.desHash (desKey p) salt 25 = D.desHash (desKey p') salt 25 ∧
    (((p.drop 8).isEmpty = (p'.drop 8).isEmpty) ∨ fuel = 0) ∧
    ((p.drop 8).isEmpty = false → (p'.drop 8).isEmpty = false →
      ∃ salt', SegColl D fuel (p.drop 8) (p'.drop 8) salt')

theorem bigSegments_coll (D : Digests) (hD : D.WF) : ∀ (fuel : Nat) (p p' : Bytes) (salt : Nat),
    bigSegments D fuel p salt = bigSegments D fuel p' salt → SegColl D fuel p p' salt := by
  intro fuel
  induction fuel with
  | zero => intro p p' salt _; trivial
  | succ f ih =>
    intro p p' salt h
    simp only [bigSegments] at h
    have l1 : (desEncode (D.desHash (desKey p) salt 25)).length = 11 := desEncode_length8 _ (hD.des _ _ _)
    have l2 : (desEncode (D.desHash (desKey p') salt 25)).length = 11 := desEncode_length8 _ (hD.des _ _ _)
    generalize hh1 : desEncode (D.desHash (desKey p) salt 25) = h1 at h l1
    generalize hh2 : desEncode (D.desHash (desKey p') salt 25) = h2 at h l2
    have hseg : ∀ fuel q s, fuel = 0 ∨ 11 ≤ (bigSegments D fuel q s).length := by
      intro fuel q s
      cases fuel with
      | zero => left; rfl
      | succ k => right; exact bigSegments_len_ge D hD k q s
    have heq : h1 = h2 := by
      by_cases e1 : (p.drop 8).isEmpty <;> by_cases e2 : (p'.drop 8).isEmpty
      · simpa [e1, e2] using h
      · simp only [e1, e2, if_true, Bool.false_eq_true, if_false] at h
        have := congrArg (List.take 11) h
        rw [List.take_of_length_le (by omega), List.take_left' l2] at this; exact this
      · simp only [e1, e2, if_true, Bool.false_eq_true, if_false] at h
        have := congrArg (List.take 11) h
        rw [List.take_of_length_le (l := h2) (by omega), List.take_left' l1] at this; exact this
      · simp only [e1, e2, Bool.false_eq_true, if_false] at h
        exact (List.append_inj h (by omega)).1
    subst heq
    have hdig : D.desHash (desKey p) salt 25 = D.desHash (desKey p') salt 25 :=
      desEncode_inj _ _ (by rw [hD.des, hD.des]) (hh1.trans hh2.symm)
    refine ⟨hdig, ?_, ?_⟩
    · by_cases e1 : (p.drop 8).isEmpty <;> by_cases e2 : (p'.drop 8).isEmpty
      · left; rw [e1, e2]
      · right
        simp only [e1, e2, if_true, Bool.false_eq_true, if_false] at h
        have hl := congrArg List.length h
        simp only [List.length_append] at hl
        rcases hseg f (p'.drop 8) ((asciiToBin (h1.getD 0 0)).getD 0 + (asciiToBin (h1.getD 1 0)).getD 0 * 64) with z | z
        · exact z
        · omega
      · right
        simp only [e1, e2, if_true, Bool.false_eq_true, if_false] at h
        have hl := congrArg List.length h
        simp only [List.length_append] at hl
        rcases hseg f (p.drop 8) ((asciiToBin (h1.getD 0 0)).getD 0 + (asciiToBin (h1.getD 1 0)).getD 0 * 64) with z | z
        · exact z
        · omega
      · left
        have a : (p.drop 8).isEmpty = false := by simpa using e1
        have b : (p'.drop 8).isEmpty = false := by simpa using e2
        rw [a, b]
    · intro e1 e2
      simp only [e1, e2, Bool.false_eq_true, if_false] at h
      exact ⟨_, ih _ _ _ (List.append_cancel_left h)⟩

theorem bigSegments_take11 (D : Digests) (hD : D.WF) (f : Nat) (p : Bytes) (salt : Nat) :
    (bigSegments D (f + 1) p salt).take 11 = desEncode (D.desHash (desKey p) salt 25) := by
  have l1 : (desEncode (D.desHash (desKey p) salt 25)).length = 11 := desEncode_length8 _ (hD.des _ _ _)
  simp only [bigSegments]
  split
  · exact List.take_of_length_le (by omega)
  · exact List.take_left' l1

/-- what a bigcrypt result looks like: two salt characters, then either one DES hash (the descrypt fallback) or the segments -/
theorem cryptBig_shape {d : Bool} {D : Digests} {p s H : Bytes} (h : cryptBig d D p s = .ok H) :
    ∃ salt, salt < 4096 ∧ (H = [a64 salt, a64 (salt / 64)] ++ desEncode (D.desHash (desKey p) salt 25) ∨
      H = [a64 salt, a64 (salt / 64)] ++ bigSegments D 16 p salt) := by
  unfold cryptBig at h
  split at h
  · split at h
    · unfold cryptDes at h
      split at h; · cases h
      rename_i salt hs
      simp only [Except.ok.injEq] at h
      exact ⟨salt, parseDesSalt_lt hs, Or.inl h.symm⟩
    · cases h
  · split at h; · cases h
    rename_i salt hs
    simp only [Except.ok.injEq] at h
    exact ⟨salt, parseDesSalt_lt hs, Or.inr h.symm⟩

theorem salt_chars_inj {a b : Nat} (ha : a < 4096) (hb : b < 4096) (h0 : a64 a = a64 b) (h1 : a64 (a / 64) = a64 (b / 64)) : a = b := by
  have := a64_inj _ _ h0; have := a64_inj _ _ h1; omega

end Xc

/- kernel-evaluated byte/group facts for Lemmas/DesRound.lean, one module each so that they build in parallel -/
import Xc.Spec.DesTables
import Xc.Gen.DesTables
import Xc.Lemmas.DesPerm
namespace Xc.Des
open Xc Xc.Spec.DesT

def place7 (i : Nat) (g : UInt32) : UInt32 × UInt32 :=
  match i with
  | 0 => (g <<< 21, 0) | 1 => (g <<< 14, 0) | 2 => (g <<< 7, 0) | 3 => (g, 0)
  | 4 => (0, g <<< 21) | 5 => (0, g <<< 14) | 6 => (0, g <<< 7) | _ => (0, g)


set_option maxRecDepth 100000 in
theorem pc2_group : ∀ i : Fin 8, ∀ g : Fin 128,
    (lookL Gen.des_comp_maskl i.val g.val, lookL Gen.des_comp_maskr i.val g.val) = selN 28 PC2 24 (place7 i.val (UInt32.ofNat g.val)) := by
  decide +kernel
end Xc.Des

/-
  scrypt (`$7$`): `verify_salt` specification, `strrchr` specification, and the round trip of crypt_scrypt_rn (C01).
-/
import Xc.Lemmas.Fix
namespace Xc
open List


def validFrom (s : Bytes) (i : Nat) : Prop := ∀ j, i ≤ j → j < s.length → scryptSaltChar (cat s j) = true

theorem verify_go_valid (s : Bytes) : ∀ fuel i, validFrom s i → scryptVerifySalt.go s fuel i = true := by
  intro fuel
  induction fuel with
  | zero => intro i _; simp [scryptVerifySalt.go]
  | succ f ih =>
    intro i hv
    simp only [scryptVerifySalt.go]
    split
    · rename_i hlt
      have := hv i (Nat.le_refl _) hlt
      simp only [this, not_true_eq_false, if_false]
      exact ih (i + 1) (fun j h1 h2 => hv j (by omega) h2)
    · rfl

theorem verify_of_valid (s : Bytes) (h : validFrom s 14) : scryptVerifySalt s = true := by
  unfold scryptVerifySalt; exact verify_go_valid s _ 14 h

/-- what a successful `verify_salt` says: from `i` on either every character is a salt character, or the first one that is not
    follows a `$` and no further `$` comes after it -/
theorem verify_go_spec (s : Bytes) : ∀ fuel i, s.length < i + fuel → scryptVerifySalt.go s fuel i = true →
    validFrom s i ∨ ∃ k, i ≤ k ∧ k < s.length ∧ (∀ j, i ≤ j → j < k → scryptSaltChar (cat s j) = true) ∧
      scryptSaltChar (cat s k) = false ∧ cat s (k - 1) = 36 ∧ (36 : UInt8) ∉ s.drop k := by
  intro fuel
  induction fuel with
  | zero => intro i hl _; left; intro j h1 h2; omega
  | succ f ih =>
    intro i hl h
    simp only [scryptVerifySalt.go] at h
    split at h
    · rename_i hlt
      split at h
      · rename_i hbad
        right
        simp only [Bool.and_eq_true, beq_iff_eq, Bool.not_eq_true', List.contains_eq_mem, decide_eq_false_iff_not] at h
        refine ⟨i, Nat.le_refl _, hlt, fun j h1 h2 => by omega, by simpa using hbad, h.1, h.2⟩
      · rename_i hok
        simp only [Bool.not_eq_true, Bool.not_eq_false] at hok
        rcases ih (i + 1) (by omega) h with hv | ⟨k, hk1, hk2, hk3, hk4, hk5, hk6⟩
        · left
          intro j h1 h2
          rcases Nat.eq_or_lt_of_le h1 with e | e
          · subst e; exact hok
          · exact hv j (by omega) h2
        · right
          refine ⟨k, by omega, hk2, ?_, hk4, hk5, hk6⟩
          intro j h1 h2
          rcases Nat.eq_or_lt_of_le h1 with e | e
          · subst e; exact hok
          · exact hk3 j (by omega) h2
    · left; intro j h1 h2; omega


theorem strrchr_go_full (c : UInt8) : ∀ (l : Bytes) (i : Nat) (best : Option Nat),
    (c ∉ l → strrchr.go c l i best = best) ∧
    (c ∈ l → ∃ k, strrchr.go c l i best = some (i + k) ∧ k < l.length ∧ cat l k = c ∧ c ∉ l.drop (k + 1)) := by
  intro l
  induction l with
  | nil => intro i best; exact ⟨fun _ => rfl, fun h => by simp at h⟩
  | cons x xs ih =>
    intro i best
    refine ⟨fun h => strrchr_go_notin c _ i best h, fun hm => ?_⟩
    simp only [strrchr.go]
    by_cases hx : c ∈ xs
    · obtain ⟨k, hk, hk1, hk2, hk3⟩ := (ih (i + 1) (if (x == c) = true then some i else best)).2 hx
      refine ⟨k + 1, by rw [hk]; congr 1; omega, by simp; omega, by simpa [cat] using hk2, by simpa using hk3⟩
    · have hxc : x = c := by
        simp only [List.mem_cons] at hm
        rcases hm with h | h
        · exact h.symm
        · exact absurd h hx
      subst hxc
      rw [(ih (i + 1) _).1 hx]
      simp only [beq_self_eq_true, if_true]
      exact ⟨0, rfl, by simp, by simp [cat], by simpa using hx⟩

theorem strrchr_some_spec {l : Bytes} {c : UInt8} {k : Nat} (h : strrchr l c = some k) :
    k < l.length ∧ cat l k = c ∧ c ∉ l.drop (k + 1) := by
  unfold strrchr at h
  by_cases hm : c ∈ l
  · obtain ⟨k', hk, a, b, d⟩ := (strrchr_go_full c l 0 none).2 hm
    rw [hk] at h
    simp only [Nat.zero_add, Option.some.injEq] at h
    subst h
    exact ⟨a, b, d⟩
  · rw [(strrchr_go_full c l 0 none).1 hm] at h; cases h

theorem strrchr_none_spec {l : Bytes} {c : UInt8} (h : strrchr l c = none) : c ∉ l := by
  intro hm
  unfold strrchr at h
  obtain ⟨k', hk, _⟩ := (strrchr_go_full c l 0 none).2 hm
  rw [hk] at h; cases h

/-- length of the salt string: up to the last `$`, or all of it -/
def ySl (s : Bytes) (pl : Nat) : Nat := match strrchr (s.drop pl) 36 with | some k => k | none => (s.drop pl).length

theorem yFinish_eq' (s : Bytes) (n : Nat) (P : YParams) (pl : Nat) : yFinish s n P pl = yFin s n P pl (ySl s pl) := rfl

theorem yFinish_sl {s : Bytes} {n pl : Nat} {P : YParams} {Q : YParsed} (h : yFinish s n P pl = some Q) :
    Q.saltstrlen = ySl s pl ∧ Q.prefixlen = pl := by
  rw [yFinish_eq'] at h
  generalize ySl s pl = sl at h
  unfold yFin at h
  split at h; · cases h
  split at h; · cases h
  simp only [Option.some.injEq] at h
  subst h
  exact ⟨rfl, rfl⟩

theorem scryptSaltChar_a64 : ∀ k : Fin 64, scryptSaltChar (a64 k.val) = true := by decide
theorem scryptSaltChar_a64' (n : Nat) : scryptSaltChar (a64 n) = true := by
  have := scryptSaltChar_a64 ⟨n % 64, Nat.mod_lt _ (by decide)⟩; simpa [a64] using this

theorem encode64_valid : ∀ d : Bytes, ∀ c ∈ encode64 d, scryptSaltChar c = true
  | [], c, h => by simp [encode64] at h
  | [_], c, h => by
    simp only [encode64, enc64Group, List.mem_map] at h
    obtain ⟨i, _, rfl⟩ := h; exact scryptSaltChar_a64' _
  | [_, _], c, h => by
    simp only [encode64, enc64Group, List.mem_map] at h
    obtain ⟨i, _, rfl⟩ := h; exact scryptSaltChar_a64' _
  | _ :: _ :: _ :: rest, c, h => by
    simp only [encode64, List.mem_append] at h
    rcases h with h | h
    · simp only [enc64Group, List.mem_map] at h
      obtain ⟨i, _, rfl⟩ := h; exact scryptSaltChar_a64' _
    · exact encode64_valid rest c h

theorem prefix_take_append' {pfx s : Bytes} (x : Bytes) (n : Nat) (h : pfx <+: s) (hn : pfx.length ≤ n) : pfx <+: s.take n ++ x := by
  obtain ⟨t, rfl⟩ := h
  rw [List.take_append, List.take_of_length_le hn, List.append_assoc]
  exact List.prefix_append _ _

theorem yAtoi_dollar : yAtoi 36 = 64 := by decide

/-- scrypt (`$7$`): the characters of the setting that the result keeps are all salt characters, so `verify_salt`
    accepts the result, and `yescrypt_r` reproduces it -/
theorem cryptScrypt_fix (D : Digests) (p s H : Bytes) (h : cryptScrypt D p s = .ok H) : cryptScrypt D p H = .ok H := by
  unfold cryptScrypt at h
  split at h; · cases h
  rename_i hc
  simp only [not_or, Decidable.not_not] at hc
  obtain ⟨hpre, hver⟩ := hc
  have hver' : scryptVerifySalt s = true := by simpa using hver
  have hpre' : hasPrefix s [36, 55, 36] = true := by simpa using hpre
  -- the pieces of the successful parse
  have hcore := h
  unfold cryptYescryptCore at h
  split at h; · cases h
  rename_i out hout
  cases h
  obtain ⟨k, dig, hk1, hk2, e, hd, f⟩ := yescryptR_refeed hout
  have hout2 := hout
  unfold yescryptR at hout2
  split at hout2; · cases hout2
  rename_i Q hQ
  split at hout2; · cases hout2
  rename_i hdg hD
  dsimp only at hout2
  split at hout2; · cases hout2
  simp only [Option.some.injEq] at hout2
  unfold parseYescrypt at hQ
  split at hQ; · cases hQ
  rename_i P pl hP
  have h7 : cat s 1 = 55 := by
    unfold hasPrefix at hpre'
    rw [List.isPrefixOf_iff_prefix] at hpre'
    obtain ⟨t, rfl⟩ := hpre'
    rfl
  obtain ⟨hpl14, hpll, _⟩ := yParams_local7 hP h7
  obtain ⟨hsl, hpl⟩ := yFinish_sl hQ
  subst hpl14
  -- the last parameter character is not '$'
  have h13 : cat s 13 ≠ 36 := by
    intro h36
    unfold yParams at hP
    dsimp only at hP
    split at hP; · cases hP
    try rw [if_pos h7] at hP
    split at hP; · cases hP
    split at hP
    · rename_i r pp hr hp9
      unfold yDecFixed30 at hp9
      simp only [] at hp9
      split at hp9; · cases hp9
      rename_i hany
      simp only [List.any_eq_true, not_exists, not_and, List.mem_map, List.mem_range] at hany
      have := hany (yAtoi (cat s (9 + 4))) ⟨4, by omega, rfl⟩
      rw [show 9 + 4 = 13 from rfl, h36, yAtoi_dollar] at this
      simp at this
    · cases hP
  -- the characters kept by the result, from index 14 on, are salt characters
  have hvalid : ∀ j, 14 ≤ j → j < 14 + Q.saltstrlen → scryptSaltChar (cat s j) = true := by
    intro j hj1 hj2
    unfold scryptVerifySalt at hver'
    rcases verify_go_spec s (s.length + 1) 14 (by omega) hver' with hv | ⟨i, hi1, hi2, hi3, hi4, hi5, hi6⟩
    · -- every character is valid
      have hjl : j < s.length := by
        rw [hsl] at hj2; unfold ySl at hj2
        split at hj2
        · rename_i kk hk; have := strrchr_lt hk; simp at this; omega
        · simp at hj2; omega
      exact hv j hj1 hjl
    · -- the first invalid character follows the last '$'
      have hi15 : 15 ≤ i := by
        rcases Nat.eq_or_lt_of_le hi1 with e14 | e14
        · subst e14; exact absurd hi5 h13
        · omega
      have hdecomp : s.drop 14 = (s.drop 14).take (i - 15) ++ 36 :: s.drop i := by
        have h1 : (s.drop 14).drop (i - 15) = 36 :: s.drop i := by
          rw [List.drop_drop]
          have e1 : 14 + (i - 15) = i - 1 := by omega
          rw [e1]
          have hlt : i - 1 < s.length := by omega
          rw [List.drop_eq_getElem_cons hlt]
          have : s[i - 1] = 36 := by
            have := hi5; unfold cat at this
            rw [List.getD_eq_getElem?_getD, List.getElem?_eq_getElem hlt] at this; simpa using this
          rw [this]; congr 2; omega
        conv => lhs; rw [← List.take_append_drop (i - 15) (s.drop 14)]
        rw [h1]
      have hsl2 : Q.saltstrlen = i - 15 := by
        rw [hsl]; unfold ySl
        rw [hdecomp, strrchr_append_stop _ _ 36 hi6]
        simp only [List.length_take, List.length_drop]; omega
      exact hi3 j hj1 (by omega)
  -- shape of the result and its re-acceptance
  have hlen : 14 + Q.saltstrlen ≤ s.length := by
    obtain ⟨_, b, _⟩ := yFinish_refeed hQ ⟨by omega, hpll⟩ [] (by simp); omega
  rw [hpl] at hout2
  have hH : H = s.take (14 + Q.saltstrlen) ++ 36 :: encode64 hdg := by rw [← hout2]; simp
  have hfix : yescryptR D p H Gen.CRYPT_OUTPUT_SIZE = some H := by
    have := f dig hd; rw [← e] at this; exact this
  have hvH : validFrom H 14 := by
    intro j hj1 hj2
    rw [hH] at hj2 ⊢
    have htl : (s.take (14 + Q.saltstrlen)).length = 14 + Q.saltstrlen := by simp; omega
    rcases Nat.lt_trichotomy j (14 + Q.saltstrlen) with hlt | heq | hgt
    · rw [cat_take_append s _ (14 + Q.saltstrlen) j hlt hlen]; exact hvalid j hj1 hlt
    · have := cat_append_mid (s.take (14 + Q.saltstrlen)) 36 (encode64 hdg)
      rw [htl] at this; rw [heq, this]; decide
    · have hm : cat (s.take (14 + Q.saltstrlen) ++ 36 :: encode64 hdg) j ∈ encode64 hdg := by
        unfold cat
        rw [List.getD_eq_getElem?_getD, List.getElem?_append_right (by omega), htl]
        have e2 : j - (14 + Q.saltstrlen) = (j - (14 + Q.saltstrlen) - 1) + 1 := by omega
        rw [e2, List.getElem?_cons_succ]
        simp only [List.length_append, List.length_cons, htl] at hj2
        rw [List.getElem?_eq_getElem (by omega)]
        simp
      exact encode64_valid hdg _ hm
  have hpH : hasPrefix H [36, 55, 36] = true := by
    unfold hasPrefix at hpre' ⊢
    rw [List.isPrefixOf_iff_prefix] at hpre' ⊢
    rw [hH]
    exact prefix_take_append' _ _ hpre' (by simp; omega)
  unfold cryptScrypt
  simp only [hpH, verify_of_valid H hvH, not_true_eq_false, or_self, if_false]
  unfold cryptYescryptCore
  rw [hfix]
end Xc

/-
  The specification of the entry points relative to the pure function
  `cryptAnswer`: for an ARBITRARY prior object state `d`.
-/
import Xc.Lemmas.Shape
namespace Xc

theorem goodHash_nostar {H : Bytes} (h : goodHash H) : ∃ c rest, H = c :: rest ∧ c ≠ 42 := by
  obtain ⟨hs, hl, _⟩ := h
  match H, hl with
  | c :: rest, _ =>
    refine ⟨c, rest, rfl, ?_⟩
    simp only [passwdSafe_cons, Bool.and_eq_true, Bool.not_eq_true'] at hs
    intro hc; rw [hc] at hs; exact absurd hs.1 (by decide)

/-- the failure token for a size ≥ 3 always starts with '*' and has length 2 -/
theorem failureToken_big (setting : Option Bytes) (size : Int) (h : 3 ≤ size) :
    ∃ c, failureToken setting size = some [42, c] ∧ (c = 48 ∨ c = 49) := by
  unfold failureToken
  rw [if_pos (by omega)]
  cases setting with
  | none => exact ⟨48, rfl, Or.inl rfl⟩
  | some s =>
    simp only []
    split
    · exact ⟨49, rfl, Or.inr rfl⟩
    · exact ⟨48, rfl, Or.inl rfl⟩

/-- the request gets past argument validation in `do_crypt` (and therefore reaches the wipe) -/
def validated (cfg : Config) (phrase setting : Option Bytes) : Bool :=
  match phrase, setting with
  | some p, some s =>
    decide (p.length < Gen.CRYPT_MAX_PASSPHRASE_SIZE) && !checkBadSaltChars s && (getHashFn cfg.table s).isSome
  | _, _ => false

/-- what `do_crypt` does, in terms of the pure answer, from an ARBITRARY object state -/
theorem doCrypt_eq (cfg : Config) (D : Digests) (phrase setting : Option Bytes) (d : DataObj) :
    doCrypt cfg D phrase setting d =
      match cryptAnswer cfg D phrase setting with
      | .ok H => if validated cfg phrase setting then ({ out := some H, scratchZero := true }, none, true)
                 else (d, some .EINVAL, false)
      | .error e => ({ d with scratchZero := d.scratchZero || validated cfg phrase setting }, some e,
                      validated cfg phrase setting) := by
  cases phrase with
  | none => simp [doCrypt, cryptAnswer, validated]
  | some p =>
    cases setting with
    | none => simp [doCrypt, cryptAnswer, validated]
    | some s =>
      simp only [doCrypt, cryptAnswer, cryptPure, validated]
      by_cases h1 : p.length ≥ Gen.CRYPT_MAX_PASSPHRASE_SIZE
      · have : ¬ p.length < Gen.CRYPT_MAX_PASSPHRASE_SIZE := by omega
        simp [h1, this]
      · have h1' : p.length < Gen.CRYPT_MAX_PASSPHRASE_SIZE := by omega
        by_cases h2 : checkBadSaltChars s = true
        · simp [h1, h2]
        · have h2' : checkBadSaltChars s = false := by simpa using h2
          rw [if_neg h1, if_neg h2, if_neg h1, if_neg h2]
          split
          · rename_i hg; simp [hg]
          · rename_i h hg
            simp only [hg]
            split
            · rename_i H hm; simp [hm, h1', h2']
            · rename_i e hm; simp [hm, h1', h2']

theorem cryptAnswer_ok_validated {cfg : Config} {D : Digests} {phrase setting : Option Bytes} {H : Bytes}
    (h : cryptAnswer cfg D phrase setting = .ok H) : validated cfg phrase setting = true := by
  cases phrase with
  | none => simp [cryptAnswer] at h
  | some p =>
    cases setting with
    | none => simp [cryptAnswer] at h
    | some s =>
      simp only [cryptAnswer, cryptPure] at h
      simp only [validated]
      split at h; · cases h
      split at h; · cases h
      split at h; · cases h
      rename_i h1 h2 _ _ h3
      simp [h3]
      exact ⟨by omega, by simpa using h2⟩

theorem cryptAnswer_ok_good {cfg : Config} {D : Digests} (hD : D.WF) {phrase setting : Option Bytes} {H : Bytes}
    (h : cryptAnswer cfg D phrase setting = .ok H) : goodHash H := by
  cases phrase with
  | none => simp [cryptAnswer] at h
  | some p =>
    cases setting with
    | none => simp [cryptAnswer] at h
    | some s =>
      simp only [cryptAnswer, cryptPure] at h
      split at h; · cases h
      split at h; · cases h
      split at h; · cases h
      rename_i h2 _ _ _
      exact cryptMethod_good hD (by simpa using h2) h

theorem cryptAnswer_err {cfg : Config} {D : Digests} {phrase setting : Option Bytes} {e : Errno}
    (h : cryptAnswer cfg D phrase setting = .error e) : errOk e := by
  cases phrase with
  | none => simp [cryptAnswer] at h; subst h; exact Or.inl rfl
  | some p =>
    cases setting with
    | none => simp [cryptAnswer] at h; subst h; exact Or.inl rfl
    | some s =>
      simp only [cryptAnswer, cryptPure] at h
      split at h; · cases h; exact Or.inr rfl
      split at h; · cases h; exact Or.inl rfl
      split at h; · cases h; exact Or.inl rfl
      exact cryptMethod_err h

end Xc

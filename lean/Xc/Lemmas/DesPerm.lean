/-
  DES (C17): the initial and final permutations of `des_crypt_block` are inverse to each other on all 2^64 blocks, the big-endian
  packing round-trips, and hence — with the Feistel argument of Lemmas/Feistel.lean — decryption inverts encryption for every
  key schedule, salt, count and block.

  The permutations are table-driven (eight byte-indexed lookups OR-ed together).  Each table is shown to be the OR of its eight
  single-bit entries (`IsLin`, 4 x 2048 kernel-evaluated cases), so a table-driven permutation distributes over OR
  (`permLL_or`); a block is the OR of its eight bytes in place (`recompose`); and the second permutation puts the image of every
  single byte value at every byte position back where it was (`fp_ip_byte`, `ip_fp_byte`: 2 x 2048 kernel-evaluated cases).
-/
import Xc.Lemmas.Feistel
namespace Xc
theorem cases32 {i : Nat} (h : i < 32) : i = 0 ∨ i = 1 ∨ i = 2 ∨ i = 3 ∨ i = 4 ∨ i = 5 ∨ i = 6 ∨ i = 7 ∨ i = 8 ∨ i = 9 ∨ i = 10 ∨ i = 11 ∨ i = 12 ∨
    i = 13 ∨ i = 14 ∨ i = 15 ∨ i = 16 ∨ i = 17 ∨ i = 18 ∨ i = 19 ∨ i = 20 ∨ i = 21 ∨ i = 22 ∨ i = 23 ∨ i = 24 ∨ i = 25 ∨ i = 26 ∨ i = 27 ∨
    i = 28 ∨ i = 29 ∨ i = 30 ∨ i = 31 := by omega
theorem cases8 {i : Nat} (h : i < 8) : i = 0 ∨ i = 1 ∨ i = 2 ∨ i = 3 ∨ i = 4 ∨ i = 5 ∨ i = 6 ∨ i = 7 := by omega

theorem u8_u32 (v : UInt32) : v.toUInt8.toUInt32 = v &&& 0xff := by
  apply UInt32.toNat_inj.mp
  rw [UInt32.toNat_and]
  have h : (0xff : UInt32).toNat = 2 ^ 8 - 1 := rfl
  rw [h, Nat.and_two_pow_sub_one_eq_mod]
  simp

theorem be32_of_bytes (a : UInt32) :
    ((a >>> 24).toUInt8.toUInt32 <<< 24) ||| ((a >>> 16).toUInt8.toUInt32 <<< 16) ||| ((a >>> 8).toUInt8.toUInt32 <<< 8) ||| a.toUInt8.toUInt32 = a := by
  simp only [u8_u32]
  apply UInt32.eq_of_toBitVec_eq
  ext i hi
  rcases cases32 hi with rfl | rfl | rfl | rfl | rfl | rfl | rfl | rfl | rfl | rfl | rfl | rfl | rfl | rfl | rfl | rfl | rfl | rfl | rfl | rfl |
    rfl | rfl | rfl | rfl | rfl | rfl | rfl | rfl | rfl | rfl | rfl | rfl <;> simp

theorem be32_toBe32 (a b : UInt32) : be32 (toBe32 a ++ toBe32 b) 0 = a ∧ be32 (toBe32 a ++ toBe32 b) 4 = b := by
  constructor
  · simp only [be32, toBe32, List.cons_append, List.nil_append, List.getD_cons_zero, List.getD_cons_succ]
    exact be32_of_bytes a
  · simp only [be32, toBe32, List.cons_append, List.nil_append, List.getD_cons_zero, List.getD_cons_succ]
    exact be32_of_bytes b

theorem byte_of_be32 (x0 x1 x2 x3 : UInt8) :
    (((x0.toUInt32 <<< 24) ||| (x1.toUInt32 <<< 16) ||| (x2.toUInt32 <<< 8) ||| x3.toUInt32) >>> 24).toUInt8 = x0 ∧
    (((x0.toUInt32 <<< 24) ||| (x1.toUInt32 <<< 16) ||| (x2.toUInt32 <<< 8) ||| x3.toUInt32) >>> 16).toUInt8 = x1 ∧
    (((x0.toUInt32 <<< 24) ||| (x1.toUInt32 <<< 16) ||| (x2.toUInt32 <<< 8) ||| x3.toUInt32) >>> 8).toUInt8 = x2 ∧
    ((x0.toUInt32 <<< 24) ||| (x1.toUInt32 <<< 16) ||| (x2.toUInt32 <<< 8) ||| x3.toUInt32).toUInt8 = x3 := by
  refine ⟨?_, ?_, ?_, ?_⟩
  all_goals apply UInt8.eq_of_toBitVec_eq
  all_goals ext i hi
  all_goals rcases cases8 hi with rfl | rfl | rfl | rfl | rfl | rfl | rfl | rfl
  all_goals simp

theorem toBe32_be32 (x0 x1 x2 x3 x4 x5 x6 x7 : UInt8) :
    toBe32 (be32 [x0, x1, x2, x3, x4, x5, x6, x7] 0) ++ toBe32 (be32 [x0, x1, x2, x3, x4, x5, x6, x7] 4) = [x0, x1, x2, x3, x4, x5, x6, x7] := by
  simp only [be32, toBe32, List.getD_cons_zero, List.getD_cons_succ, List.cons_append, List.nil_append]
  obtain ⟨a0, a1, a2, a3⟩ := byte_of_be32 x0 x1 x2 x3
  obtain ⟨b0, b1, b2, b3⟩ := byte_of_be32 x4 x5 x6 x7
  rw [a0, a1, a2, a3, b0, b1, b2, b3]
end Xc

namespace Xc.Des
open Xc

def lookL (t : List (List UInt32)) (i : Nat) (n : Nat) : UInt32 := (t.getD i []).getD n 0

theorem look_tbl (t : List (List UInt32)) (i : Nat) (x : UInt32) : look (tbl t) i x = lookL t i x.toNat := by
  unfold look tbl lookL
  simp only [List.getD_eq_getElem?_getD]
  by_cases hi : i < t.length
  · simp [hi]
    by_cases hx : x.toNat < t[i].length
    · simp [hx]
    · simp [hx]; rfl
  · simp [hi]; rfl

/-- a byte-indexed table that is the OR of its eight single-bit entries -/
def lin8 (e : Nat → UInt32) (n : Nat) : UInt32 :=
  (if n.testBit 0 then e 0 else 0) ||| (if n.testBit 1 then e 1 else 0) ||| (if n.testBit 2 then e 2 else 0) ||| (if n.testBit 3 then e 3 else 0) |||
  (if n.testBit 4 then e 4 else 0) ||| (if n.testBit 5 then e 5 else 0) ||| (if n.testBit 6 then e 6 else 0) ||| (if n.testBit 7 then e 7 else 0)

theorem ite_or (p q : Bool) (v : UInt32) : (if (p || q) = true then v else 0) = (if p = true then v else 0) ||| (if q = true then v else 0) := by
  cases p <;> cases q <;> simp

theorem lin8_or (e : Nat → UInt32) (a b : Nat) : lin8 e (a ||| b) = lin8 e a ||| lin8 e b := by
  unfold lin8
  simp only [Nat.testBit_or, ite_or]
  ac_rfl

def IsLin (t : List (List UInt32)) : Prop := ∀ i : Fin 8, ∀ b : Fin 256, lookL t i.val b.val = lin8 (fun k => lookL t i.val (2 ^ k)) b.val

instance (t : List (List UInt32)) : Decidable (IsLin t) := by unfold IsLin; infer_instance

set_option maxRecDepth 100000 in
theorem lin_ipl : IsLin Gen.des_ip_maskl := by decide +kernel
set_option maxRecDepth 100000 in
theorem lin_ipr : IsLin Gen.des_ip_maskr := by decide +kernel
set_option maxRecDepth 100000 in
theorem lin_fpl : IsLin Gen.des_fp_maskl := by decide +kernel
set_option maxRecDepth 100000 in
theorem lin_fpr : IsLin Gen.des_fp_maskr := by decide +kernel

theorem lookL_or {t : List (List UInt32)} (ht : IsLin t) (i : Nat) (hi : i < 8) (x y : Nat) (hx : x < 256) (hy : y < 256) :
    lookL t i (x ||| y) = lookL t i x ||| lookL t i y := by
  have hxy : x ||| y < 256 := Nat.or_lt_two_pow (n := 8) hx hy
  have a := ht ⟨i, hi⟩ ⟨x, hx⟩
  have b := ht ⟨i, hi⟩ ⟨y, hy⟩
  have c := ht ⟨i, hi⟩ ⟨x ||| y, hxy⟩
  simp only at a b c
  rw [a, b, c, lin8_or]

theorem lookL_zero {t : List (List UInt32)} (ht : IsLin t) (i : Nat) (hi : i < 8) : lookL t i 0 = 0 := by
  have a := ht ⟨i, hi⟩ ⟨0, by omega⟩
  simp only at a
  rw [a]; simp [lin8]
theorem byte_or (a b : UInt32) (s : UInt32) : ((a ||| b) >>> s) &&& 0xff = ((a >>> s) &&& 0xff) ||| ((b >>> s) &&& 0xff) := by
  apply UInt32.eq_of_toBitVec_eq
  ext i hi
  simp [Bool.and_or_distrib_right]

theorem byte0_or (a b : UInt32) : (a ||| b) &&& 0xff = (a &&& 0xff) ||| (b &&& 0xff) := by
  apply UInt32.eq_of_toBitVec_eq
  ext i hi
  simp [Bool.and_or_distrib_right]

theorem byte_lt (w : UInt32) : (w &&& 0xff).toNat < 256 := by
  rw [UInt32.toNat_and]
  have : w.toNat &&& (0xff : UInt32).toNat ≤ (0xff : UInt32).toNat := Nat.and_le_right
  have h : (0xff : UInt32).toNat = 255 := rfl
  omega

/-- a word is the OR of its four bytes put back in place -/
theorem recompose (l : UInt32) :
    ((((l >>> 24) &&& 0xff) <<< 24) ||| (((l >>> 16) &&& 0xff) <<< 16) ||| (((l >>> 8) &&& 0xff) <<< 8) ||| (l &&& 0xff)) = l := by
  apply UInt32.eq_of_toBitVec_eq
  ext i hi
  rcases cases32 hi with rfl | rfl | rfl | rfl | rfl | rfl | rfl | rfl | rfl | rfl | rfl | rfl | rfl | rfl | rfl | rfl | rfl | rfl | rfl | rfl |
    rfl | rfl | rfl | rfl | rfl | rfl | rfl | rfl | rfl | rfl | rfl | rfl <;> simp
def permLL (tl tr : List (List UInt32)) (p : UInt32 × UInt32) : UInt32 × UInt32 :=
  let ix := bytesOf p.1 p.2
  (lookL tl 0 (ix 0).toNat ||| lookL tl 1 (ix 1).toNat ||| lookL tl 2 (ix 2).toNat ||| lookL tl 3 (ix 3).toNat |||
   lookL tl 4 (ix 4).toNat ||| lookL tl 5 (ix 5).toNat ||| lookL tl 6 (ix 6).toNat ||| lookL tl 7 (ix 7).toNat,
   lookL tr 0 (ix 0).toNat ||| lookL tr 1 (ix 1).toNat ||| lookL tr 2 (ix 2).toNat ||| lookL tr 3 (ix 3).toNat |||
   lookL tr 4 (ix 4).toNat ||| lookL tr 5 (ix 5).toNat ||| lookL tr 6 (ix 6).toNat ||| lookL tr 7 (ix 7).toNat)

def place (i : Nat) (b : UInt32) : UInt32 × UInt32 :=
  match i with
  | 0 => (b <<< 24, 0) | 1 => (b <<< 16, 0) | 2 => (b <<< 8, 0) | 3 => (b, 0)
  | 4 => (0, b <<< 24) | 5 => (0, b <<< 16) | 6 => (0, b <<< 8) | _ => (0, b)

def por (p q : UInt32 × UInt32) : UInt32 × UInt32 := (p.1 ||| q.1, p.2 ||| q.2)

theorem bytesOf_or (x x' y y' : UInt32) (j : Fin 8) : bytesOf (x ||| x') (y ||| y') j = bytesOf x y j ||| bytesOf x' y' j := by
  have h : j = 0 ∨ j = 1 ∨ j = 2 ∨ j = 3 ∨ j = 4 ∨ j = 5 ∨ j = 6 ∨ j = 7 := by omega
  rcases h with rfl | rfl | rfl | rfl | rfl | rfl | rfl | rfl <;> simp only [bytesOf] <;> first | exact byte_or _ _ _ | exact byte0_or _ _

theorem bytesOf_lt (x y : UInt32) (j : Fin 8) : (bytesOf x y j).toNat < 256 := by
  have h : j = 0 ∨ j = 1 ∨ j = 2 ∨ j = 3 ∨ j = 4 ∨ j = 5 ∨ j = 6 ∨ j = 7 := by omega
  rcases h with rfl | rfl | rfl | rfl | rfl | rfl | rfl | rfl <;> simp only [bytesOf] <;> exact byte_lt _

/-- a table-driven permutation whose tables are linear distributes over OR -/
theorem permLL_or {tl tr : List (List UInt32)} (hl : IsLin tl) (hr : IsLin tr) (p q : UInt32 × UInt32) :
    permLL tl tr (por p q) = por (permLL tl tr p) (permLL tl tr q) := by
  unfold permLL por
  dsimp only
  have key : ∀ (t : List (List UInt32)), IsLin t → ∀ j : Fin 8,
      lookL t j.val (bytesOf (p.1 ||| q.1) (p.2 ||| q.2) j).toNat = lookL t j.val (bytesOf p.1 p.2 j).toNat ||| lookL t j.val (bytesOf q.1 q.2 j).toNat := by
    intro t ht j
    rw [bytesOf_or, UInt32.toNat_or, lookL_or ht j.val j.isLt _ _ (bytesOf_lt _ _ _) (bytesOf_lt _ _ _)]
  have k0 := key tl hl 0; have k1 := key tl hl 1; have k2 := key tl hl 2; have k3 := key tl hl 3
  have k4 := key tl hl 4; have k5 := key tl hl 5; have k6 := key tl hl 6; have k7 := key tl hl 7
  have r0 := key tr hr 0; have r1 := key tr hr 1; have r2 := key tr hr 2; have r3 := key tr hr 3
  have r4 := key tr hr 4; have r5 := key tr hr 5; have r6 := key tr hr 6; have r7 := key tr hr 7
  simp only [Fin.val_zero, Fin.val_one] at k0 k1 r0 r1
  have e2 : ((2 : Fin 8) : Nat) = 2 := rfl
  have e3 : ((3 : Fin 8) : Nat) = 3 := rfl
  have e4 : ((4 : Fin 8) : Nat) = 4 := rfl
  have e5 : ((5 : Fin 8) : Nat) = 5 := rfl
  have e6 : ((6 : Fin 8) : Nat) = 6 := rfl
  have e7 : ((7 : Fin 8) : Nat) = 7 := rfl
  rw [e2] at k2 r2; rw [e3] at k3 r3; rw [e4] at k4 r4; rw [e5] at k5 r5; rw [e6] at k6 r6; rw [e7] at k7 r7
  rw [k0, k1, k2, k3, k4, k5, k6, k7, r0, r1, r2, r3, r4, r5, r6, r7]
  congr 1 <;> ac_rfl

theorem permLL_chain (tl tr : List (List UInt32)) (p : UInt32 × UInt32) :
    permLL tl tr p =
      por (por (por (por (por (por (por
        (lookL tl 0 (bytesOf p.1 p.2 0).toNat, lookL tr 0 (bytesOf p.1 p.2 0).toNat)
        (lookL tl 1 (bytesOf p.1 p.2 1).toNat, lookL tr 1 (bytesOf p.1 p.2 1).toNat))
        (lookL tl 2 (bytesOf p.1 p.2 2).toNat, lookL tr 2 (bytesOf p.1 p.2 2).toNat))
        (lookL tl 3 (bytesOf p.1 p.2 3).toNat, lookL tr 3 (bytesOf p.1 p.2 3).toNat))
        (lookL tl 4 (bytesOf p.1 p.2 4).toNat, lookL tr 4 (bytesOf p.1 p.2 4).toNat))
        (lookL tl 5 (bytesOf p.1 p.2 5).toNat, lookL tr 5 (bytesOf p.1 p.2 5).toNat))
        (lookL tl 6 (bytesOf p.1 p.2 6).toNat, lookL tr 6 (bytesOf p.1 p.2 6).toNat))
        (lookL tl 7 (bytesOf p.1 p.2 7).toNat, lookL tr 7 (bytesOf p.1 p.2 7).toNat) := rfl

/-- if `U` is linear and undoes the contribution of every single byte of `T`, then `U ∘ T = id` on all 2^64 blocks -/
theorem perm_inverse {tl tr ul ur : List (List UInt32)} (hul : IsLin ul) (hur : IsLin ur)
    (hbyte : ∀ i : Fin 8, ∀ b : Fin 256, permLL ul ur (lookL tl i.val b.val, lookL tr i.val b.val) = place i.val (UInt32.ofNat b.val))
    (p : UInt32 × UInt32) : permLL ul ur (permLL tl tr p) = p := by
  have hb : ∀ i : Fin 8, permLL ul ur (lookL tl i.val (bytesOf p.1 p.2 i).toNat, lookL tr i.val (bytesOf p.1 p.2 i).toNat)
      = place i.val (bytesOf p.1 p.2 i) := by
    intro i
    have := hbyte i ⟨(bytesOf p.1 p.2 i).toNat, bytesOf_lt _ _ _⟩
    simp only [UInt32.ofNat_toNat] at this
    exact this
  rw [permLL_chain tl tr p]
  simp only [permLL_or hul hur]
  have h0 := hb 0; have h1 := hb 1; have h2 := hb 2; have h3 := hb 3; have h4 := hb 4; have h5 := hb 5; have h6 := hb 6; have h7 := hb 7
  simp only [Fin.val_zero, Fin.val_one] at h0 h1
  have e2 : ((2 : Fin 8) : Nat) = 2 := rfl
  have e3 : ((3 : Fin 8) : Nat) = 3 := rfl
  have e4 : ((4 : Fin 8) : Nat) = 4 := rfl
  have e5 : ((5 : Fin 8) : Nat) = 5 := rfl
  have e6 : ((6 : Fin 8) : Nat) = 6 := rfl
  have e7 : ((7 : Fin 8) : Nat) = 7 := rfl
  rw [e2] at h2; rw [e3] at h3; rw [e4] at h4; rw [e5] at h5; rw [e6] at h6; rw [e7] at h7
  rw [h0, h1, h2, h3, h4, h5, h6, h7]
  obtain ⟨l, r⟩ := p
  have b0 : bytesOf l r 0 = (l >>> 24) &&& 0xff := rfl
  have b1 : bytesOf l r 1 = (l >>> 16) &&& 0xff := rfl
  have b2 : bytesOf l r 2 = (l >>> 8) &&& 0xff := rfl
  have b3 : bytesOf l r 3 = l &&& 0xff := rfl
  have b4 : bytesOf l r 4 = (r >>> 24) &&& 0xff := rfl
  have b5 : bytesOf l r 5 = (r >>> 16) &&& 0xff := rfl
  have b6 : bytesOf l r 6 = (r >>> 8) &&& 0xff := rfl
  have b7 : bytesOf l r 7 = r &&& 0xff := rfl
  dsimp only at *
  rw [b0, b1, b2, b3, b4, b5, b6, b7]
  simp only [place, por, UInt32.or_zero, UInt32.zero_or]
  rw [recompose l, recompose r]

set_option maxRecDepth 100000 in
theorem fp_ip_byte : ∀ i : Fin 8, ∀ b : Fin 256,
    permLL Gen.des_fp_maskl Gen.des_fp_maskr (lookL Gen.des_ip_maskl i.val b.val, lookL Gen.des_ip_maskr i.val b.val) = place i.val (UInt32.ofNat b.val) := by
  decide +kernel

set_option maxRecDepth 100000 in
theorem ip_fp_byte : ∀ i : Fin 8, ∀ b : Fin 256,
    permLL Gen.des_ip_maskl Gen.des_ip_maskr (lookL Gen.des_fp_maskl i.val b.val, lookL Gen.des_fp_maskr i.val b.val) = place i.val (UInt32.ofNat b.val) := by
  decide +kernel

/-- **FP ∘ IP = id and IP ∘ FP = id** on every 64-bit block -/
theorem fp_ip (p : UInt32 × UInt32) : permLL Gen.des_fp_maskl Gen.des_fp_maskr (permLL Gen.des_ip_maskl Gen.des_ip_maskr p) = p :=
  perm_inverse lin_fpl lin_fpr fp_ip_byte p
theorem ip_fp (p : UInt32 × UInt32) : permLL Gen.des_ip_maskl Gen.des_ip_maskr (permLL Gen.des_fp_maskl Gen.des_fp_maskr p) = p :=
  perm_inverse lin_ipl lin_ipr ip_fp_byte p

theorem or8_tbl (t : List (List UInt32)) (ix : Fin 8 → UInt32) :
    or8 (tbl t) ix = lookL t 0 (ix 0).toNat ||| lookL t 1 (ix 1).toNat ||| lookL t 2 (ix 2).toNat ||| lookL t 3 (ix 3).toNat |||
      lookL t 4 (ix 4).toNat ||| lookL t 5 (ix 5).toNat ||| lookL t 6 (ix 6).toNat ||| lookL t 7 (ix 7).toNat := by
  unfold or8; simp only [look_tbl]

/-- `des_crypt_block` as IP, the passes, FP -/
theorem cryptBlock_eq (c : Ctx) (input : Bytes) (count : Nat) (decrypt : Bool) :
    cryptBlock c input count decrypt =
      toBe32 (permLL Gen.des_fp_maskl Gen.des_fp_maskr (iter (pass c.saltbits (keyList c decrypt)) (if count = 0 then 1 else count)
        (permLL Gen.des_ip_maskl Gen.des_ip_maskr (be32 input 0, be32 input 4)))).1 ++
      toBe32 (permLL Gen.des_fp_maskl Gen.des_fp_maskr (iter (pass c.saltbits (keyList c decrypt)) (if count = 0 then 1 else count)
        (permLL Gen.des_ip_maskl Gen.des_ip_maskr (be32 input 0, be32 input 4)))).2 := by
  unfold cryptBlock permLL
  simp only [ipMaskL, ipMaskR, fpMaskL, fpMaskR, or8_tbl]

theorem iter_inverse' {α : Type} (f g : α → α) (h : ∀ a, f (g a) = a) (n : Nat) (a : α) : iter f n (iter g n a) = a :=
  iter_inverse f g h n a

end Xc.Des

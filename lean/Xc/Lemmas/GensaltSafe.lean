/-
  C10: every setting a gensalt writer produces is passwd(5)-safe printable ASCII.
-/
import Xc.Lemmas.Mono
import Xc.Lemmas.Alpha
namespace Xc
open List

theorem safe_append (a b : Bytes) : passwdSafe (a ++ b) = (passwdSafe a && passwdSafe b) := by simp [passwdSafe, List.all_append]
theorem safe_cons (c : UInt8) (b : Bytes) : passwdSafe (c :: b) = (!isBadSaltChar c && passwdSafe b) := by simp [passwdSafe]
theorem safe_nil : passwdSafe [] = true := rfl

theorem a64_ok64 : ∀ k : Fin 64, isBadSaltChar (a64 k.val) = false := by decide
theorem a64_safe' (n : Nat) : isBadSaltChar (a64 n) = false := by
  have := a64_ok64 (Fin.mk (n % 64) (Nat.mod_lt _ (by decide))); simpa [a64] using this
theorem ascii64_safe : ∀ x ∈ Gen.ascii64, isBadSaltChar x = false := by decide

theorem safe_of_mem {l : Bytes} (h : ∀ x ∈ l, isBadSaltChar x = false) : passwdSafe l = true := (passwdSafe_iff l).mpr h

theorem safe_des {count : Nat} {rb : Bytes} {n o : Nat} {S : Bytes} {e : Nat} (h : gensaltDes count rb n o = .ok S e) : passwdSafe S = true := by
  rw [des_text h]; simp [safe_cons, a64_safe', safe_nil]

theorem safe_big {d : Bool} {count : Nat} {rb : Bytes} {n o : Nat} {S : Bytes} {e : Nat} (h : gensaltBig d count rb n o = .ok S e) : passwdSafe S = true := by
  unfold gensaltBig at h
  cases d with
  | true => simp only [if_true] at h; exact safe_des h
  | false =>
    simp only [Bool.false_eq_true, if_false] at h
    split at h; · cases h
    split at h
    · rename_i s ext hs
      simp only [WOut.ok.injEq] at h
      rw [← h.1, safe_append, safe_des hs]; decide
    · rename_i x hne; exact absurd h (hne S e)

theorem safe_bsdi {count : Nat} {rb : Bytes} {n o : Nat} {S : Bytes} {e : Nat} (h : gensaltBsdi count rb n o = .ok S e) : passwdSafe S = true := by
  unfold gensaltBsdi at h
  split at h; · cases h
  split at h; · cases h
  simp only [WOut.ok.injEq] at h
  rw [← h.1, safe_append, safe_append, enc24_safe, enc24_safe]; decide

theorem safe_nt {count o : Nat} {S : Bytes} {e : Nat} (h : gensaltNt count o = .ok S e) : passwdSafe S = true := by
  unfold gensaltNt at h
  split at h; · cases h
  split at h; · cases h
  simp only [WOut.ok.injEq] at h
  rw [← h.1]; decide

theorem digit2_safe : ∀ c : Fin 32, isBadSaltChar (48 + c.val / 10).toUInt8 = false ∧ isBadSaltChar (48 + c.val % 10).toUInt8 = false := by decide

theorem safe_bf {sub : UInt8} {count : Nat} {rb : Bytes} {n o : Nat} {S : Bytes} {e : Nat} (h : gensaltBf sub count rb n o = .ok S e) : passwdSafe S = true := by
  unfold gensaltBf at h
  simp only [] at h
  split at h; · cases h
  rename_i hc
  split at h; · cases h
  simp only [WOut.ok.injEq] at h
  simp only [not_or, Nat.not_lt, not_and, Decidable.not_not] at hc
  obtain ⟨_, _, hc31, hsub⟩ := hc
  have hd := digit2_safe ⟨dfl count 5, by omega⟩
  have hs : isBadSaltChar sub = false := by
    by_cases h1 : sub = 97
    · rw [h1]; decide
    · by_cases h2 : sub = 98
      · rw [h2]; decide
      · rw [hsub h1 h2]; decide
  rw [← h.1, safe_append, bfEncode_safe]
  simp only [safe_cons, safe_nil, hs, hd.1, hd.2]
  decide

theorem safe_sha {tag : UInt8} {maxsalt defc minc maxc count : Nat} {rb : Bytes} {n o : Nat} {S : Bytes} {e : Nat}
    (htag : isBadSaltChar tag = false) (h4 : maxsalt % 4 = 0) (hdef : 1 ≤ defc) (hmin : 1 ≤ minc) (hmm : minc ≤ maxc)
    (h : gensaltSha tag maxsalt defc minc maxc count rb n o = .ok S e) : passwdSafe S = true := by
  obtain ⟨c, salt, hS, _, _, _, hch, _, _⟩ := gensaltSha_shape tag maxsalt defc minc maxc count rb n o S e h4 hdef hmin hmm h
  have hsalt : passwdSafe salt = true := safe_of_mem (fun x hx => ascii64_safe x (hch x hx).1)
  rw [hS, safe_append, safe_append, hsalt]
  have h3 : passwdSafe [36, tag, 36] = true := by simp [safe_cons, safe_nil, htag]; decide
  rw [h3]
  split
  · rfl
  · rw [safe_append, safe_append, toDec_safe]; decide

theorem safe_md5 {count : Nat} {rb : Bytes} {n o : Nat} {S : Bytes} {e : Nat} (h : gensaltMd5 count rb n o = .ok S e) : passwdSafe S = true := by
  unfold gensaltMd5 at h
  split at h; · cases h
  exact safe_sha (by decide) (by decide) (by decide) (by decide) (by decide) h
theorem safe_sha256 {count : Nat} {rb : Bytes} {n o : Nat} {S : Bytes} {e : Nat} (h : gensaltSha256 count rb n o = .ok S e) : passwdSafe S = true :=
  safe_sha (by decide) (by decide) (by decide) (by decide) (by decide) h
theorem safe_sha512 {count : Nat} {rb : Bytes} {n o : Nat} {S : Bytes} {e : Nat} (h : gensaltSha512 count rb n o = .ok S e) : passwdSafe S = true :=
  safe_sha (by decide) (by decide) (by decide) (by decide) (by decide) h

theorem safe_sha1 {count : Nat} {rb : Bytes} {n o : Nat} {S : Bytes} {e : Nat} (h : gensaltSha1 count rb n o = .ok S e) : passwdSafe S = true := by
  unfold gensaltSha1 at h
  split at h; · cases h
  split at h; · cases h
  dsimp only at h
  split at h; · cases h
  simp only [WOut.ok.injEq] at h
  rw [← h.1, safe_append, safe_append, safe_append, safe_append, toDec_safe]
  have hs := (sha1SaltLoop_spec rb n
      (if ([36, 115, 104, 97, 49, 36] ++ toDec (sha1Rounds count rb) ++ [36]).length + Gen.CRYPT_SHA1_SALT_LENGTH + 2 > o then o - 2
        else ([36, 115, 104, 97, 49, 36] ++ toDec (sha1Rounds count rb) ++ [36]).length + Gen.CRYPT_SHA1_SALT_LENGTH)
      (Gen.CRYPT_SHA1_SALT_LENGTH + 1) 4 ([36, 115, 104, 97, 49, 36] ++ toDec (sha1Rounds count rb) ++ [36]).length).1
  rw [safe_of_mem (fun x hx => ascii64_safe x (hs x hx))]
  decide

theorem safe_sunmd5 {count : Nat} {rb : Bytes} {n o : Nat} {S : Bytes} {e : Nat} (h : gensaltSunmd5 count rb n o = .ok S e) : passwdSafe S = true := by
  unfold gensaltSunmd5 at h
  split at h; · cases h
  split at h; · cases h
  dsimp only at h
  split at h; · cases h
  simp only [WOut.ok.injEq] at h
  rw [← h.1]
  simp only [safe_append, toDec_safe, enc24_safe]
  decide

theorem yesPfx_safe (c : Nat) (h1 : 1 ≤ c) (h2 : c ≤ 11) : passwdSafe (yesPfx c) = true ∧ passwdSafe ((yesPfx c).drop 3) = true := by
  rcases cases_1_11 h1 h2 with rfl | rfl | rfl | rfl | rfl | rfl | rfl | rfl | rfl | rfl | rfl <;> decide

theorem safe_yescrypt {count : Nat} {rb : Bytes} {n o : Nat} {S : Bytes} {e : Nat} (h : gensaltYescrypt count rb n o = .ok S e) : passwdSafe S = true := by
  obtain ⟨c1, c2, _, hS⟩ := gensaltYescrypt_shape h
  rw [hS, safe_append, (yesPfx_safe _ c1 c2).1, encode64_safe]; rfl

theorem safe_gost {count : Nat} {rb : Bytes} {n o : Nat} {S : Bytes} {e : Nat} (h : gensaltGost count rb n o = .ok S e) : passwdSafe S = true := by
  obtain ⟨c1, c2, _, hS⟩ := gensaltGost_shape h
  rw [hS, safe_append, safe_append, (yesPfx_safe _ c1 c2).2, encode64_safe]; decide

theorem scryptPfx_safe (c : Nat) : passwdSafe (scryptPfx c) = true := by
  unfold scryptPfx
  simp only [safe_append]
  have h1 : passwdSafe [a64 (n2log2 (2 ^ (c + 7)))] = true := by simp [safe_cons, safe_nil, a64_safe']
  have h2 : ∀ v, passwdSafe ((List.range 5).map fun i => a64 (v / 64 ^ i)) = true := by
    intro v; apply safe_of_mem; intro x hx
    simp only [List.mem_map] at hx
    obtain ⟨i, _, rfl⟩ := hx; exact a64_safe' _
  rw [h1, h2 32, h2 1]; decide

theorem safe_scrypt {count : Nat} {rb : Bytes} {n o : Nat} {S : Bytes} {e : Nat} (h : gensaltScrypt count rb n o = .ok S e) : passwdSafe S = true := by
  obtain ⟨_, _, _, hS⟩ := gensaltScrypt_shape h
  rw [hS, safe_append, scryptPfx_safe, encode64_safe]; rfl

/-- **every generated setting is passwd(5)-safe printable ASCII** (no `: ; * ! \`, no whitespace, no control or 8-bit bytes) -/
theorem gensaltMethod_safe (d : Bool) (m : Method) (count : Nat) (rb : Bytes) (n o : Nat) (S : Bytes) (e : Nat)
    (h : gensaltMethod d m count rb n o = .ok S e) : passwdSafe S = true := by
  cases m <;> simp only [gensaltMethod] at h
  case yescrypt => exact safe_yescrypt h
  case gost_yescrypt => exact safe_gost h
  case scrypt => exact safe_scrypt h
  case bcrypt => exact safe_bf h
  case bcrypt_y => exact safe_bf h
  case bcrypt_a => exact safe_bf h
  case bcrypt_x => cases h
  case sha512crypt => exact safe_sha512 h
  case sha256crypt => exact safe_sha256 h
  case sha1crypt => exact safe_sha1 h
  case sunmd5 => exact safe_sunmd5 h
  case md5crypt => exact safe_md5 h
  case nt => exact safe_nt h
  case bsdicrypt => exact safe_bsdi h
  case bigcrypt => exact safe_big h
  case descrypt => exact safe_des h
end Xc

/-
  Injectivity of the digest encoders (C03): the text of a hash determines the digest bytes, so two phrases with the same
  hash under the same salt collide in the underlying function.
-/
import Xc.Lemmas.Fix
namespace Xc
open List

theorem a64_inj64 : ∀ i j : Fin 64, a64 i.val = a64 j.val → i = j := by decide
theorem a64_inj (x y : Nat) (h : a64 x = a64 y) : x % 64 = y % 64 := by
  have := a64_inj64 ⟨x % 64, Nat.mod_lt _ (by decide)⟩ ⟨y % 64, Nat.mod_lt _ (by decide)⟩ (by simpa [a64] using h)
  exact Fin.mk.inj_iff.mp this

/-- `n ≤ 4` sextets determine a value below `64^n` -/
theorem sextets_inj (w w' n : Nat) (hn : n ≤ 4) (hw : w < 64 ^ n) (hw' : w' < 64 ^ n)
    (h : (List.range n).map (fun i => a64 (w / 64 ^ i)) = (List.range n).map (fun i => a64 (w' / 64 ^ i))) : w = w' := by
  have hi : ∀ i, i < n → (w / 64 ^ i) % 64 = (w' / 64 ^ i) % 64 := by
    intro i hi
    have := congrArg (fun l => l[i]?) h
    simp only [List.getElem?_map, List.getElem?_range hi, Option.map_some, Option.some.injEq] at this
    exact a64_inj _ _ this
  match n, hn with
  | 0, _ => simp at hw hw'; omega
  | 1, _ => have := hi 0 (by omega); simp at this hw hw'; omega
  | 2, _ => have a := hi 0 (by omega); have b := hi 1 (by omega); simp at a b hw hw'; omega
  | 3, _ => have a := hi 0 (by omega); have b := hi 1 (by omega); have c := hi 2 (by omega); simp at a b c hw hw'; omega
  | 4, _ => have a := hi 0 (by omega); have b := hi 1 (by omega); have c := hi 2 (by omega); have d := hi 3 (by omega)
            simp at a b c d hw hw'; omega

theorem byteAt_lt (d : Bytes) (i : Nat) : byteAt d i < 256 := by
  unfold byteAt; split
  · omega
  · exact (d.getD i 0).toNat_lt

/-- an entry of an output schedule whose sextets determine the bytes it names -/
def entryOk (e : Nat × Nat × Nat × Nat) : Bool :=
  e.2.2.2 == 4 || (e.2.2.2 == 3 && e.1 == 255) || (e.2.2.2 == 2 && e.1 == 255 && e.2.1 == 255)

theorem entry_inj (e : Nat × Nat × Nat × Nat) (hok : entryOk e = true) (d d' : Bytes)
    (h : b64from24 (byteAt d e.1) (byteAt d e.2.1) (byteAt d e.2.2.1) e.2.2.2 = b64from24 (byteAt d' e.1) (byteAt d' e.2.1) (byteAt d' e.2.2.1) e.2.2.2) :
    byteAt d e.1 = byteAt d' e.1 ∧ byteAt d e.2.1 = byteAt d' e.2.1 ∧ byteAt d e.2.2.1 = byteAt d' e.2.2.1 := by
  obtain ⟨a, b, c, n⟩ := e
  simp only [entryOk, Bool.or_eq_true, Bool.and_eq_true, beq_iff_eq] at hok
  simp only [b64from24] at h
  have ha := byteAt_lt d a; have hb := byteAt_lt d b; have hc := byteAt_lt d c
  have ha' := byteAt_lt d' a; have hb' := byteAt_lt d' b; have hc' := byteAt_lt d' c
  have z : ∀ x : Bytes, byteAt x 255 = 0 := fun x => by simp [byteAt]
  rcases hok with (h4 | ⟨h3, ha255⟩) | ⟨⟨h2, ha255⟩, hb255⟩
  · subst h4
    have := sextets_inj _ _ 4 (by omega) (by simp only [Nat.reducePow]; omega) (by simp only [Nat.reducePow]; omega) h
    dsimp only
    omega
  · subst h3; subst ha255
    have z1 := z d; have z2 := z d'
    rw [z1, z2] at h
    have := sextets_inj _ _ 3 (by omega) (by simp only [Nat.reducePow]; omega) (by simp only [Nat.reducePow]; omega) h
    dsimp only
    rw [z1, z2]
    omega
  · subst h2; subst ha255; subst hb255
    have z1 := z d; have z2 := z d'
    rw [z1, z2] at h
    have := sextets_inj _ _ 2 (by omega) (by simp only [Nat.reducePow]; omega) (by simp only [Nat.reducePow]; omega) h
    dsimp only
    rw [z1, z2]
    omega

/-- pieces of equal length: equal concatenations have equal pieces -/
theorem flatMap_eq_pieces {α} (f g : α → Bytes) : ∀ (l : List α), (∀ x ∈ l, (f x).length = (g x).length) →
    l.flatMap f = l.flatMap g → ∀ x ∈ l, f x = g x := by
  intro l
  induction l with
  | nil => intro _ _ x hx; simp at hx
  | cons a as ih =>
    intro hlen h x hx
    simp only [List.flatMap_cons] at h
    have := List.append_inj h (hlen a (by simp))
    simp only [List.mem_cons] at hx
    rcases hx with rfl | hx
    · exact this.1
    · exact ih (fun y hy => hlen y (by simp [hy])) this.2 x hx

/-- every byte position below `L` is named by some entry of the schedule -/
def covers (sched : List (Nat × Nat × Nat × Nat)) (L : Nat) : Bool :=
  (List.range L).all fun i => sched.any fun e => e.1 == i || e.2.1 == i || e.2.2.1 == i

/-- **the digest text determines the digest**: an output schedule whose entries are `entryOk` and which names every byte
    position is injective on digests of that length -/
theorem permEncode_inj (sched : List (Nat × Nat × Nat × Nat)) (L : Nat) (hok : sched.all entryOk = true) (hcov : covers sched L = true)
    (hL : L ≤ 255) (d d' : Bytes) (hl : d.length = L) (hl' : d'.length = L) (h : permEncode sched d = permEncode sched d') : d = d' := by
  unfold permEncode at h
  have hp := flatMap_eq_pieces _ _ sched (by intro x _; simp [b64from24_length]) h
  apply List.ext_getElem (by omega)
  intro i h1 h2
  simp only [covers, List.all_eq_true, List.mem_range, List.any_eq_true, Bool.or_eq_true, beq_iff_eq] at hcov
  obtain ⟨e, he, hi⟩ := hcov i (by omega)
  have hoke : entryOk e = true := by simp only [List.all_eq_true] at hok; exact hok e he
  have := entry_inj e hoke d d' (by have := hp e he; obtain ⟨a, b, c, n⟩ := e; exact this)
  have hb : ∀ (x : Bytes) (hx : i < x.length), byteAt x i = (x[i]).toNat := by
    intro x hx; unfold byteAt; rw [if_neg (by omega)]; simp [List.getD_eq_getElem?_getD, hx]
  have key : byteAt d i = byteAt d' i := by
    rcases hi with (hi | hi) | hi <;> subst hi
    · exact this.1
    · exact this.2.1
    · exact this.2.2
  rw [hb d h1, hb d' h2] at key
  exact UInt8.toNat_inj.mp key

theorem md5_sched_ok : Gen.perm_md5crypt.all entryOk = true ∧ covers Gen.perm_md5crypt 16 = true := by decide
theorem sha256_sched_ok : Gen.perm_sha256crypt.all entryOk = true ∧ covers Gen.perm_sha256crypt 32 = true := by decide
theorem sha512_sched_ok : Gen.perm_sha512crypt.all entryOk = true ∧ covers Gen.perm_sha512crypt 64 = true := by decide
theorem sunmd5_sched_ok : Gen.perm_sunmd5.all entryOk = true ∧ covers Gen.perm_sunmd5 16 = true := by decide


/-- two strings that both continue with `c` after a `c`-free part split at the same place -/
theorem append_stop_inj {α} [DecidableEq α] (c : α) : ∀ (a a' x x' : List α), c ∉ a → c ∉ a' → a ++ c :: x = a' ++ c :: x' → a = a' ∧ x = x' := by
  intro a
  induction a with
  | nil =>
    intro a' x x' _ h' h
    cases a' with
    | nil => simp at h; exact ⟨rfl, h⟩
    | cons y ys => simp at h; simp at h'; exact absurd h.1 h'.1
  | cons y ys ih =>
    intro a' x x' hn h' h
    cases a' with
    | nil => simp at h; simp at hn; exact absurd h.1.symm hn.1
    | cons z zs =>
      simp only [List.cons_append, List.cons.injEq] at h
      simp only [List.mem_cons, not_or] at hn h'
      obtain ⟨e1, e2⟩ := ih zs x x' hn.2 h'.2 h.2
      exact ⟨by rw [h.1, e1], e2⟩

/-- md5crypt: a false accept is a collision of the core function on the SAME salt -/
theorem md5crypt_reduction (D : Digests) (hD : D.WF) (p p' s s' H : Bytes) (h1 : cryptMd5 D p s = .ok H) (h2 : cryptMd5 D p' s' = .ok H) :
    ∃ salt, D.md5crypt p salt = D.md5crypt p' salt := by
  unfold cryptMd5 at h1 h2
  split at h1; · cases h1
  rename_i salt hs
  split at h2; · cases h2
  rename_i salt' hs'
  cases h1
  simp only [Except.ok.injEq, List.append_assoc, List.append_cancel_left_eq, List.singleton_append] at h2
  obtain ⟨a, _, _⟩ := scanSalt_chars hs
  obtain ⟨a', _, _⟩ := scanSalt_chars hs'
  have n36 : (36 : UInt8) ∉ salt := fun hm => a 36 hm (by decide)
  have n36' : (36 : UInt8) ∉ salt' := fun hm => a' 36 hm (by decide)
  obtain ⟨e1, e2⟩ := append_stop_inj 36 _ _ _ _ n36' n36 h2
  subst e1
  obtain ⟨o1, o2⟩ := md5_sched_ok
  exact ⟨salt', (permEncode_inj _ 16 o1 o2 (by omega) _ _ (hD.md5 _ _) (hD.md5 _ _) e2).symm⟩

theorem permEncode_no36 (sched : List (Nat × Nat × Nat × Nat)) (d : Bytes) : (36 : UInt8) ∉ permEncode sched d := by
  intro h
  simp only [permEncode, List.mem_flatMap] at h
  obtain ⟨⟨a, b, c, n⟩, _, hm⟩ := h
  simp only [b64from24, List.mem_map] at hm
  obtain ⟨i, _, hi⟩ := hm
  exact a64_ne_36' _ hi

theorem toDec_no36 (n : Nat) : (36 : UInt8) ∉ toDec n := by
  intro h; have := toDec_digits n 36 h; simp [isDigit] at this

theorem toDec_inj (a b : Nat) (ha : a < 10 ^ 20) (hb : b < 10 ^ 20) (h : toDec a = toDec b) : a = b := by
  rw [← toDec_value a ha, ← toDec_value b hb, h]

/-- two SHA-crypt results with the same text come from the same (rounds, salt) and the same digest -/
theorem emitSha_inj (pfx rp : Bytes) (P P' : ShaParsed) (dig dig' : Bytes) (h36 : (36 : UInt8) ∉ rp)
    (hs : (36 : UInt8) ∉ P.salt) (hs' : (36 : UInt8) ∉ P'.salt) (hd : (36 : UInt8) ∉ dig) (hd' : (36 : UInt8) ∉ dig')
    (hr : P.rounds < 10 ^ 20) (hr' : P'.rounds < 10 ^ 20)
    (hc : P.custom = false → P'.custom = false → P.rounds = P'.rounds)
    (h : emitSha pfx rp P dig = emitSha pfx rp P' dig') : P.rounds = P'.rounds ∧ P.salt = P'.salt ∧ dig = dig' := by
  unfold emitSha at h
  simp only [List.append_assoc, List.append_cancel_left_eq, List.singleton_append] at h
  cases hc1 : P.custom <;> cases hc2 : P'.custom <;> simp only [hc1, hc2, if_true, if_false, Bool.false_eq_true, List.nil_append, List.append_assoc, List.singleton_append] at h
  · obtain ⟨e1, e2⟩ := append_stop_inj 36 _ _ _ _ hs hs' h
    exact ⟨hc hc1 hc2, e1, e2⟩
  · -- P plain, P' custom: the salt of P would be "rounds=N" and its digest would contain '$'
    exfalso
    have hn : (36 : UInt8) ∉ rp ++ toDec P'.rounds := by simp [h36, toDec_no36]
    rw [← List.append_assoc] at h
    obtain ⟨_, e2⟩ := append_stop_inj 36 _ _ _ _ hs hn h
    rw [e2] at hd; simp at hd
  · exfalso
    have hn : (36 : UInt8) ∉ rp ++ toDec P.rounds := by simp [h36, toDec_no36]
    rw [← List.append_assoc] at h
    obtain ⟨_, e2⟩ := append_stop_inj 36 _ _ _ _ hn hs' h
    rw [← e2] at hd'; simp at hd'
  · simp only [List.append_cancel_left_eq] at h
    obtain ⟨e1, e2⟩ := append_stop_inj 36 _ _ _ _ (toDec_no36 _) (toDec_no36 _) h
    obtain ⟨e3, e4⟩ := append_stop_inj 36 _ _ _ _ hs hs' e2
    exact ⟨toDec_inj _ _ hr hr' e1, e3, e4⟩

theorem sha_reduction_gen (pfx rp : Bytes) (d mn mx sm : Nat) (sched : List (Nat × Nat × Nat × Nat)) (L : Nat)
    (hsched : sched.all entryOk = true ∧ covers sched L = true) (hL : L ≤ 255) (h36 : (36 : UInt8) ∉ rp) (hmn : 0 < mn) (hmx : mx ≤ ULONG_MAX)
    (hdf : d ≤ ULONG_MAX) (f : Bytes → Bytes → Nat → Bytes) (hf : ∀ p s r, (f p s r).length = L)
    (p p' s s' : Bytes) (P P' : ShaParsed) (hP : parseSha pfx rp d mn mx sm s = .ok P) (hP' : parseSha pfx rp d mn mx sm s' = .ok P')
    (h : emitSha pfx rp P (permEncode sched (f p P.salt P.rounds)) = emitSha pfx rp P' (permEncode sched (f p' P'.salt P'.rounds))) :
    ∃ salt rounds, f p salt rounds = f p' salt rounds := by
  have c1 := parseSha_shape [] hP h36 hmn
  have c2 := parseSha_shape [] hP' h36 hmn
  have n1 : (36 : UInt8) ∉ P.salt := fun hm => c1.salt_chars 36 hm (by decide)
  have n2 : (36 : UInt8) ∉ P'.salt := fun hm => c2.salt_chars 36 hm (by decide)
  have rb : ∀ Q : ShaParsed, ShaCanon rp d mn mx sm Q [] → Q.rounds < 10 ^ 20 := by
    intro Q c
    cases hc : Q.custom
    · have := (c.plain hc).1; unfold ULONG_MAX at hdf; omega
    · have := c.custom hc; unfold ULONG_MAX at hmx; omega
  obtain ⟨e1, e2, e3⟩ := emitSha_inj pfx rp P P' _ _ h36 n1 n2 (permEncode_no36 _ _) (permEncode_no36 _ _) (rb P c1) (rb P' c2)
    (fun a b => by rw [(c1.plain a).1, (c2.plain b).1]) h
  refine ⟨P'.salt, P'.rounds, ?_⟩
  have := permEncode_inj sched L hsched.1 hsched.2 hL _ _ (hf _ _ _) (hf _ _ _) e3
  rw [e1, e2] at this
  exact this

def sha1Sched : List (Nat × Nat × Nat × Nat) := [(0, 1, 2, 4), (3, 4, 5, 4), (6, 7, 8, 4), (9, 10, 11, 4), (12, 13, 14, 4), (15, 16, 17, 4), (18, 19, 0, 4)]

theorem sha1Encode_eq (d : Bytes) : sha1Encode d = permEncode sha1Sched d := by
  simp [sha1Encode, permEncode, sha1Sched, b64from24, enc24, List.range, List.range.loop]

theorem sha1Encode_inj (d d' : Bytes) (hl : d.length = 20) (hl' : d'.length = 20) (h : sha1Encode d = sha1Encode d') : d = d' := by
  rw [sha1Encode_eq, sha1Encode_eq] at h
  exact permEncode_inj sha1Sched 20 (by decide) (by decide) (by omega) d d' hl hl' h

theorem sha1Encode_no36 (d : Bytes) : (36 : UInt8) ∉ sha1Encode d := by rw [sha1Encode_eq]; exact permEncode_no36 _ _

theorem parseSha1_shape {s : Bytes} {P : Sha1Parsed} (h : parseSha1 s = .ok P) :
    (36 : UInt8) ∉ P.salt ∧ P.iterations ≤ ULONG_MAX := by
  unfold parseSha1 at h
  simp only [] at h
  split at h; · cases h
  split at h; · cases h
  split at h; · cases h
  split at h; · cases h
  cases h
  refine ⟨?_, strtoul10_le _⟩
  intro hm
  have := take_takeWhile_all (fun c => Gen.ascii64.contains c) _ _ (by unfold strspn; exact Nat.le_refl _) 36 hm
  revert this; decide


/-! ### the DES / bcrypt / yescrypt digest encoders -/


theorem a64_eq_lt {x y : Nat} (hx : x < 64) (hy : y < 64) (h : a64 x = a64 y) : x = y := by
  have := a64_inj x y h; omega

theorem desEncode_inj : ∀ (x y : Bytes), x.length = y.length → desEncode x = desEncode y → x = y
  | [], [], _, _ => rfl
  | [a], [a'], _, h => by
    simp only [desEncode, List.cons.injEq, and_true] at h
    have ha := a.toNat_lt; have ha' := a'.toNat_lt
    have e1 := a64_eq_lt (by omega) (by omega) h.1
    have e2 := a64_eq_lt (by omega) (by omega) h.2
    have : a.toNat = a'.toNat := by omega
    rw [UInt8.toNat_inj.mp this]
  | [a, b], [a', b'], _, h => by
    simp only [desEncode, List.cons.injEq, and_true] at h
    have ha := a.toNat_lt; have ha' := a'.toNat_lt; have hb := b.toNat_lt; have hb' := b'.toNat_lt
    have e1 := a64_eq_lt (by omega) (by omega) h.1
    have e2 := a64_eq_lt (by omega) (by omega) h.2.1
    have e3 := a64_eq_lt (by omega) (by omega) h.2.2
    have h1 : a.toNat = a'.toNat := by omega
    have h2 : b.toNat = b'.toNat := by omega
    rw [UInt8.toNat_inj.mp h1, UInt8.toNat_inj.mp h2]
  | a :: b :: c :: rest, a' :: b' :: c' :: rest', hl, h => by
    simp only [desEncode, List.cons_append, List.nil_append, List.cons.injEq] at h
    have ha := a.toNat_lt; have ha' := a'.toNat_lt; have hb := b.toNat_lt; have hb' := b'.toNat_lt
    have hc := c.toNat_lt; have hc' := c'.toNat_lt
    have e1 := a64_eq_lt (by omega) (by omega) h.1
    have e2 := a64_eq_lt (by omega) (by omega) h.2.1
    have e3 := a64_eq_lt (by omega) (by omega) h.2.2.1
    have e4 := a64_eq_lt (by omega) (by omega) h.2.2.2.1
    have h1 : a.toNat = a'.toNat := by omega
    have h2 : b.toNat = b'.toNat := by omega
    have h3 : c.toNat = c'.toNat := by omega
    have := desEncode_inj rest rest' (by simpa using hl) h.2.2.2.2
    rw [UInt8.toNat_inj.mp h1, UInt8.toNat_inj.mp h2, UInt8.toNat_inj.mp h3, this]
  | [], _ :: _, hl, _ => by simp at hl
  | _ :: _, [], hl, _ => by simp at hl
  | [_], _ :: _ :: _, hl, _ => by simp at hl
  | _ :: _ :: _, [_], hl, _ => by simp at hl
  | [_, _], _ :: _ :: _ :: _, hl, _ => by simp at hl
  | _ :: _ :: _ :: _, [_, _], hl, _ => by simp at hl

theorem bf64_inj64 : ∀ i j : Fin 64, bf64 i.val = bf64 j.val → i = j := by decide
theorem bf64_eq_lt {x y : Nat} (hx : x < 64) (hy : y < 64) (h : bf64 x = bf64 y) : x = y := by
  have := bf64_inj64 ⟨x, hx⟩ ⟨y, hy⟩ h
  exact Fin.mk.inj_iff.mp this

theorem bfEncode_inj : ∀ (x y : Bytes), x.length = y.length → bfEncode x = bfEncode y → x = y
  | [], [], _, _ => rfl
  | [a], [a'], _, h => by
    simp only [bfEncode, List.cons.injEq, and_true] at h
    have ha := a.toNat_lt; have ha' := a'.toNat_lt
    have e1 := bf64_eq_lt (by omega) (by omega) h.1
    have e2 := bf64_eq_lt (by omega) (by omega) h.2
    have : a.toNat = a'.toNat := by omega
    rw [UInt8.toNat_inj.mp this]
  | [a, b], [a', b'], _, h => by
    simp only [bfEncode, List.cons.injEq, and_true] at h
    have ha := a.toNat_lt; have ha' := a'.toNat_lt; have hb := b.toNat_lt; have hb' := b'.toNat_lt
    have e1 := bf64_eq_lt (by omega) (by omega) h.1
    have e2 := bf64_eq_lt (by omega) (by omega) h.2.1
    have e3 := bf64_eq_lt (by omega) (by omega) h.2.2
    have h1 : a.toNat = a'.toNat := by omega
    have h2 : b.toNat = b'.toNat := by omega
    rw [UInt8.toNat_inj.mp h1, UInt8.toNat_inj.mp h2]
  | a :: b :: c :: rest, a' :: b' :: c' :: rest', hl, h => by
    simp only [bfEncode, List.cons_append, List.nil_append, List.cons.injEq] at h
    have ha := a.toNat_lt; have ha' := a'.toNat_lt; have hb := b.toNat_lt; have hb' := b'.toNat_lt
    have hc := c.toNat_lt; have hc' := c'.toNat_lt
    have e1 := bf64_eq_lt (by omega) (by omega) h.1
    have e2 := bf64_eq_lt (by omega) (by omega) h.2.1
    have e3 := bf64_eq_lt (by omega) (by omega) h.2.2.1
    have e4 := bf64_eq_lt (by omega) (by omega) h.2.2.2.1
    have h1 : a.toNat = a'.toNat := by omega
    have h2 : b.toNat = b'.toNat := by omega
    have h3 : c.toNat = c'.toNat := by omega
    have := bfEncode_inj rest rest' (by simpa using hl) h.2.2.2.2
    rw [UInt8.toNat_inj.mp h1, UInt8.toNat_inj.mp h2, UInt8.toNat_inj.mp h3, this]
  | [], _ :: _, hl, _ => by simp at hl
  | _ :: _, [], hl, _ => by simp at hl
  | [_], _ :: _ :: _, hl, _ => by simp at hl
  | _ :: _ :: _, [_], hl, _ => by simp at hl
  | [_, _], _ :: _ :: _ :: _, hl, _ => by simp at hl
  | _ :: _ :: _ :: _, [_, _], hl, _ => by simp at hl

theorem enc64Group_inj (g g' : Bytes) (hl : g.length = g'.length) (h3 : g.length ≤ 3) (hne : 0 < g.length)
    (h : enc64Group g = enc64Group g') : rbAt g 0 + rbAt g 1 * 256 + rbAt g 2 * 65536 = rbAt g' 0 + rbAt g' 1 * 256 + rbAt g' 2 * 65536 := by
  unfold enc64Group at h
  simp only [] at h
  rw [← hl] at h
  have b0 : ∀ x : Bytes, ∀ i, rbAt x i < 256 := fun x i => by unfold rbAt; exact (x.getD i 0).toNat_lt
  have z : ∀ x : Bytes, ∀ i, x.length ≤ i → rbAt x i = 0 := by
    intro x i hi; unfold rbAt; simp [List.getD_eq_getElem?_getD, List.getElem?_eq_none hi]
  have l1 : g.length = 1 ∨ g.length = 2 ∨ g.length = 3 := by omega
  have a0 := b0 g 0; have a1 := b0 g 1; have a2 := b0 g 2; have c0 := b0 g' 0; have c1 := b0 g' 1; have c2 := b0 g' 2
  rcases l1 with e | e | e
  · have := z g 1 (by omega); have := z g 2 (by omega); have := z g' 1 (by omega); have := z g' 2 (by omega)
    rw [e] at h
    exact sextets_inj _ _ 2 (by omega) (by simp only [Nat.reducePow]; omega) (by simp only [Nat.reducePow]; omega) h
  · have := z g 2 (by omega); have := z g' 2 (by omega)
    rw [e] at h
    exact sextets_inj _ _ 3 (by omega) (by simp only [Nat.reducePow]; omega) (by simp only [Nat.reducePow]; omega) h
  · rw [e] at h
    exact sextets_inj _ _ 4 (by omega) (by simp only [Nat.reducePow]; omega) (by simp only [Nat.reducePow]; omega) h

theorem enc64Group_length (g : Bytes) : (enc64Group g).length = (8 * g.length + 5) / 6 := by simp [enc64Group]

theorem encode64_inj : ∀ (x y : Bytes), x.length = y.length → encode64 x = encode64 y → x = y
  | [], [], _, _ => rfl
  | [a], [a'], _, h => by
    simp only [encode64] at h
    have := enc64Group_inj [a] [a'] rfl (by simp) (by simp) h
    simp [rbAt] at this
    rw [UInt8.toNat_inj.mp this]
  | [a, b], [a', b'], _, h => by
    simp only [encode64] at h
    have := enc64Group_inj [a, b] [a', b'] rfl (by simp) (by simp) h
    simp [rbAt] at this
    have ha := a.toNat_lt; have ha' := a'.toNat_lt; have hb := b.toNat_lt; have hb' := b'.toNat_lt
    have h1 : a.toNat = a'.toNat := by omega
    have h2 : b.toNat = b'.toNat := by omega
    rw [UInt8.toNat_inj.mp h1, UInt8.toNat_inj.mp h2]
  | a :: b :: c :: rest, a' :: b' :: c' :: rest', hl, h => by
    simp only [encode64] at h
    obtain ⟨h1, h2⟩ := List.append_inj h (by simp [enc64Group_length])
    have := enc64Group_inj [a, b, c] [a', b', c'] rfl (by simp) (by simp) h1
    simp [rbAt] at this
    have ha := a.toNat_lt; have ha' := a'.toNat_lt; have hb := b.toNat_lt; have hb' := b'.toNat_lt
    have hc := c.toNat_lt; have hc' := c'.toNat_lt
    have e1 : a.toNat = a'.toNat := by omega
    have e2 : b.toNat = b'.toNat := by omega
    have e3 : c.toNat = c'.toNat := by omega
    have := encode64_inj rest rest' (by simpa using hl) h2
    rw [UInt8.toNat_inj.mp e1, UInt8.toNat_inj.mp e2, UInt8.toNat_inj.mp e3, this]
  | [], _ :: _, hl, _ => by simp at hl
  | _ :: _, [], hl, _ => by simp at hl
  | [_], _ :: _ :: _, hl, _ => by simp at hl
  | _ :: _ :: _, [_], hl, _ => by simp at hl
  | [_, _], _ :: _ :: _ :: _, hl, _ => by simp at hl
  | _ :: _ :: _ :: _, [_, _], hl, _ => by simp at hl

end Xc

import Xc.Crypt
namespace Xc

theorem ascii64_all_safe : ∀ k : Fin 64, isBadSaltChar (Gen.ascii64.getD k.val 0) = false := by decide
theorem bf64_all_safe : ∀ k : Fin 64, isBadSaltChar (Gen.BF_itoa64.getD k.val 0) = false := by decide

theorem a64_safe (i : Nat) : isBadSaltChar (a64 i) = false :=
  ascii64_all_safe ⟨i % 64, Nat.mod_lt _ (by decide)⟩

theorem bf64_safe (i : Nat) : isBadSaltChar (bf64 i) = false :=
  bf64_all_safe ⟨i % 64, Nat.mod_lt _ (by decide)⟩

theorem hexDigit_safe (n : Nat) (h : n < 16) : isBadSaltChar (hexDigit n) = false := by
  have : ∀ k : Fin 16, isBadSaltChar (hexDigit k.val) = false := by decide
  exact this ⟨n, h⟩

theorem a64_ne_star (i : Nat) : a64 i ≠ 42 := by
  intro h; have := a64_safe i; rw [h] at this; exact absurd this (by decide)

end Xc

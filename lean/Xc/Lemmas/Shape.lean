/-
  Per-method facts about successful results: passwd-safety, length bounds, and
  the decomposition of the result into (setting part) ++ (digest text).
-/
import Xc.Lemmas.Safe
import Xc.Lemmas.Crypt
import Xc.Lemmas.Gensalt
namespace Xc

/-- C06's generic clause: passwd-safe, non-empty, shorter than CRYPT_OUTPUT_SIZE -/
def goodHash (H : Bytes) : Prop := passwdSafe H = true ∧ 0 < H.length ∧ H.length < 384

theorem ndF_le (f n : Nat) : ndF f n ≤ f := by
  induction f generalizing n with
  | zero => simp [ndF]
  | succ f ih => simp only [ndF]; split; · omega
                 have := ih (n / 10); omega

theorem toDec_length_le20 (n : Nat) : (toDec n).length ≤ 20 := by
  unfold toDec; rw [decDigitsAux_length]; have := ndF_le 20 n; simp; omega

theorem scanSalt_spec {s : Bytes} {mx : Nat} {salt : Bytes} (h : scanSalt s mx = some salt) :
    ∃ n, salt = s.take n ∧ n ≤ mx := by
  unfold scanSalt at h; simp only [] at h
  split at h
  · cases h
  · cases h; exact ⟨_, rfl, Nat.min_le_right _ _⟩

theorem scanSalt_safe {s : Bytes} {mx : Nat} {salt : Bytes} (h : scanSalt s mx = some salt)
    (hs : passwdSafe s = true) : passwdSafe salt = true ∧ salt.length ≤ mx := by
  obtain ⟨n, rfl, hn⟩ := scanSalt_spec h
  exact ⟨passwdSafe_take hs n, by simp; omega⟩

theorem stripPfx_safe {s : Bytes} (h : passwdSafe s = true) (pfx : Bytes) : passwdSafe (stripPfx s pfx) = true := by
  unfold stripPfx; split
  · exact passwdSafe_drop h _
  · exact h

theorem md5_prefix_facts : passwdSafe Gen.md5_salt_prefix = true ∧ Gen.md5_salt_prefix.length = 3 ∧ Gen.MD5_SALT_LEN_MAX = 8
    ∧ (Gen.perm_md5crypt.map (fun x => x.2.2.2)).sum = 22 := by decide

theorem cryptMd5_good {D : Digests} {p s H : Bytes} (hs : checkBadSaltChars s = false)
    (h : cryptMd5 D p s = .ok H) : goodHash H := by
  have hsafe := passwdSafe_of_checkBad hs
  obtain ⟨f1, f2, f3, f4⟩ := md5_prefix_facts
  unfold cryptMd5 at h
  split at h
  · cases h
  · rename_i salt hsalt
    cases h
    obtain ⟨g1, g2⟩ := scanSalt_safe hsalt (stripPfx_safe hsafe _)
    refine ⟨?_, ?_, ?_⟩
    · simp [f1, g1, permEncode_safe]; decide
    · simp only [List.length_append, f2]; omega
    · simp only [List.length_append, permEncode_length, f2, f4, List.length_cons, List.length_nil]; omega


theorem parseSha_spec {pfx rp : Bytes} {d mn mx sm : Nat} {s : Bytes} {P : ShaParsed}
    (h : parseSha pfx rp d mn mx sm s = .ok P) (hs : passwdSafe s = true) :
    passwdSafe P.salt = true ∧ P.salt.length ≤ sm := by
  unfold parseSha at h
  simp only [] at h
  have h0 := stripPfx_safe hs pfx
  split at h
  · split at h; · cases h
    split at h; · cases h
    split at h; · cases h
    rename_i salt hsalt
    cases h
    exact scanSalt_safe hsalt (passwdSafe_drop (passwdSafe_drop h0 _) _)
  · split at h; · cases h
    rename_i salt hsalt
    cases h
    exact scanSalt_safe hsalt h0

theorem emitSha_good {pfx rp : Bytes} {P : ShaParsed} {dig : Bytes} (hp : passwdSafe pfx = true) (hr : passwdSafe rp = true)
    (hs : passwdSafe P.salt = true) (hd : passwdSafe dig = true) (hl : pfx.length + rp.length + 20 + 1 + P.salt.length + 1 + dig.length < 384) :
    goodHash (emitSha pfx rp P dig) := by
  have := toDec_length_le20 P.rounds
  unfold emitSha
  refine ⟨?_, ?_, ?_⟩
  · split <;> simp [hp, hr, hs, hd, toDec_safe] <;> decide
  · simp only [List.length_append, List.length_cons, List.length_nil]; omega
  · split <;> simp only [List.length_append, List.length_cons, List.length_nil] <;> omega

theorem sha256_facts : passwdSafe Gen.sha256_salt_prefix = true ∧ passwdSafe Gen.sha256_rounds_prefix = true ∧
    Gen.sha256_salt_prefix.length = 3 ∧ Gen.sha256_rounds_prefix.length = 7 ∧ Gen.SHA256_SALT_LEN_MAX = 16 ∧
    (Gen.perm_sha256crypt.map (fun x => x.2.2.2)).sum = 43 := by decide

theorem sha512_facts : passwdSafe Gen.sha512_salt_prefix = true ∧ passwdSafe Gen.sha512_rounds_prefix = true ∧
    Gen.sha512_salt_prefix.length = 3 ∧ Gen.sha512_rounds_prefix.length = 7 ∧ Gen.SHA512_SALT_LEN_MAX = 16 ∧
    (Gen.perm_sha512crypt.map (fun x => x.2.2.2)).sum = 86 := by decide

theorem cryptSha256_good {D : Digests} {p s H : Bytes} (hs : checkBadSaltChars s = false)
    (h : cryptSha256 D p s = .ok H) : goodHash H := by
  have hsafe := passwdSafe_of_checkBad hs
  obtain ⟨f1, f2, f3, f4, f5, f6⟩ := sha256_facts
  unfold cryptSha256 at h
  split at h
  · cases h
  · rename_i P hP
    cases h
    obtain ⟨g1, g2⟩ := parseSha_spec hP hsafe
    exact emitSha_good f1 f2 g1 (permEncode_safe _ _) (by rw [permEncode_length, f3, f4, f6]; omega)

theorem cryptSha512_good {D : Digests} {p s H : Bytes} (hs : checkBadSaltChars s = false)
    (h : cryptSha512 D p s = .ok H) : goodHash H := by
  have hsafe := passwdSafe_of_checkBad hs
  obtain ⟨f1, f2, f3, f4, f5, f6⟩ := sha512_facts
  unfold cryptSha512 at h
  split at h
  · cases h
  · rename_i P hP
    cases h
    obtain ⟨g1, g2⟩ := parseSha_spec hP hsafe
    exact emitSha_good f1 f2 g1 (permEncode_safe _ _) (by rw [permEncode_length, f3, f4, f6]; omega)


theorem sunStep2_bound {s : Bytes} {n p : Nat} {P : SunParsed} (h : sunStep2 s n p = .ok P) : P.saltlen + 24 ≤ 384 := by
  unfold sunStep2 at h
  simp only [] at h
  have hc : Gen.CRYPT_OUTPUT_SIZE = 384 := by decide
  have hb : Gen.SUNMD5_BARE_OUTPUT_LEN = 22 := by decide
  repeat' (split at h)
  all_goals first | (cases h; done) | (cases h; simp only [hc, hb] at *; omega)

theorem parseSunmd5_bound {s : Bytes} {P : SunParsed} (h : parseSunmd5 s = .ok P) : P.saltlen + 24 ≤ 384 := by
  unfold parseSunmd5 at h
  simp only [] at h
  repeat' (split at h)
  all_goals first | (cases h; done) | exact sunStep2_bound h

theorem sunmd5_facts : (Gen.perm_sunmd5.map (fun x => x.2.2.2)).sum = 22 := by decide

theorem cryptSunmd5_good {D : Digests} {p s H : Bytes} (hs : checkBadSaltChars s = false)
    (h : cryptSunmd5 D p s = .ok H) : goodHash H := by
  have hsafe := passwdSafe_of_checkBad hs
  unfold cryptSunmd5 at h
  split at h
  · cases h
  · rename_i P hP
    cases h
    have hb := parseSunmd5_bound hP
    refine ⟨?_, ?_, ?_⟩
    · simp [passwdSafe_take hsafe, permEncode_safe]; decide
    · simp only [List.length_append, List.length_cons, List.length_nil]; omega
    · simp only [List.length_append, permEncode_length, sunmd5_facts, List.length_cons, List.length_nil, List.length_take]; omega

theorem parseSha1_spec {s : Bytes} {P : Sha1Parsed} (h : parseSha1 s = .ok P) (hs : passwdSafe s = true) :
    passwdSafe P.salt = true ∧ 6 + (toDec P.iterations).length + 1 + P.salt.length + 1 + 28 + 1 ≤ 384 := by
  unfold parseSha1 at h
  simp only [] at h
  have hc : Gen.CRYPT_OUTPUT_SIZE = 384 := by decide
  have hb : Gen.SHA1_OUTPUT_SIZE = 28 := by decide
  have hm : sha1Magic.length = 6 := by decide
  split at h; · cases h
  split at h; · cases h
  split at h; · cases h
  split at h; · cases h
  cases h
  refine ⟨passwdSafe_take (passwdSafe_drop (passwdSafe_drop hs _) _) _, ?_⟩
  simp only [hc, hb, hm, List.length_take] at *
  omega

theorem cryptSha1_good {D : Digests} {p s H : Bytes} (hs : checkBadSaltChars s = false)
    (h : cryptSha1 D p s = .ok H) : goodHash H := by
  have hsafe := passwdSafe_of_checkBad hs
  unfold cryptSha1 at h
  split at h
  · cases h
  · rename_i P hP
    cases h
    obtain ⟨g1, g2⟩ := parseSha1_spec hP hsafe
    have hm : sha1Magic.length = 6 := by decide
    have hms : passwdSafe sha1Magic = true := by decide
    refine ⟨?_, ?_, ?_⟩
    · simp [hms, toDec_safe, g1, sha1Encode_safe]; decide
    · simp only [List.length_append, hm]; omega
    · simp only [List.length_append, hm, sha1Encode_length, List.length_cons, List.length_nil]; omega

theorem cryptNt_good {D : Digests} (hD : D.WF) {p s H : Bytes} (h : cryptNt D p s = .ok H) : goodHash H := by
  unfold cryptNt at h
  split at h
  · cases h
  · cases h
    refine ⟨?_, ?_, ?_⟩
    · simp [hexLower_safe]; decide
    · simp [ntMagic]
    · simp only [List.length_append, hexLower_length, hD.nt, ntMagic, List.length_cons, List.length_nil]; omega

theorem desKey_length (p : Bytes) : (desKey p).length = 8 := by simp [desKey, padTo_length]

theorem cryptDes_good {D : Digests} (hD : D.WF) {p s H : Bytes} (h : cryptDes D p s = .ok H) : goodHash H ∧ H.length = 13 := by
  unfold cryptDes at h
  split at h
  · cases h
  · cases h
    have hl := desEncode_length8 _ (hD.des (desKey p) ‹Nat› 25)
    refine ⟨⟨?_, ?_, ?_⟩, ?_⟩
    · simp [a64_safe, desEncode_safe]
    · simp
    · simp only [List.length_append, hl, List.length_cons, List.length_nil]; omega
    · simp only [List.length_append, hl, List.length_cons, List.length_nil]

theorem bigSegments_spec (D : Digests) (hD : D.WF) : ∀ fuel (p : Bytes) salt,
    passwdSafe (bigSegments D fuel p salt) = true ∧ (bigSegments D fuel p salt).length ≤ 11 * fuel := by
  intro fuel
  induction fuel with
  | zero => intro p salt; simp [bigSegments]
  | succ f ih =>
    intro p salt
    simp only [bigSegments]
    have hl := desEncode_length8 _ (hD.des (desKey p) salt 25)
    split
    · exact ⟨desEncode_safe _, by omega⟩
    · refine ⟨by simp [desEncode_safe, (ih _ _).1], ?_⟩
      have := (ih (p.drop 8) ((asciiToBin ((desEncode (D.desHash (desKey p) salt 25)).getD 0 0)).getD 0 +
          (asciiToBin ((desEncode (D.desHash (desKey p) salt 25)).getD 1 0)).getD 0 * 64)).2
      simp only [List.length_append, hl]; omega

theorem cryptBig_good {d : Bool} {D : Digests} (hD : D.WF) {p s H : Bytes} (h : cryptBig d D p s = .ok H) : goodHash H := by
  unfold cryptBig at h
  split at h
  · split at h
    · exact (cryptDes_good hD h).1
    · cases h
  · split at h
    · cases h
    · cases h
      have := bigSegments_spec D hD 16 p ‹Nat›
      refine ⟨?_, ?_, ?_⟩
      · simp [a64_safe, this.1]
      · simp
      · simp only [List.length_append, List.length_cons, List.length_nil]; omega

theorem cryptBsdi_good {D : Digests} (hD : D.WF) {p s H : Bytes} (hs : checkBadSaltChars s = false)
    (h : cryptBsdi D p s = .ok H) : goodHash H := by
  have hsafe := passwdSafe_of_checkBad hs
  unfold cryptBsdi at h
  split at h; · cases h
  split at h; · cases h
  split at h; · cases h
  cases h
  rename_i hlen _ _ _ _ _ _
  have hl : ∀ a b, (desEncode (D.bsdi p a b)).length = 11 := fun a b => desEncode_length8 _ (hD.bsdi p a b)
  refine ⟨?_, ?_, ?_⟩
  · simp [passwdSafe_take hsafe, desEncode_safe]
  · simp only [List.length_append, hl]; omega
  · simp only [List.length_append, hl, List.length_take]; omega

theorem cryptBf_good {D : Digests} (hD : D.WF) {p s H : Bytes} (hs : checkBadSaltChars s = false)
    (h : cryptBf D p s = .ok H) : goodHash H := by
  have hsafe := passwdSafe_of_checkBad hs
  unfold cryptBf at h
  split at h; · cases h
  split at h; · cases h
  cases h
  rename_i P _ _
  have hl := bfEncode_length23 _ (hD.bf P.flags P.cost P.salt p)
  have hB : Gen.BF_SETTING_LENGTH = 29 := by decide
  refine ⟨?_, ?_, ?_⟩
  · simp [passwdSafe_take hsafe, bfEncode_safe, bf64_safe]
  · simp only [List.length_append, hl]; omega
  · simp only [List.length_append, hl, List.length_take, hB, List.length_cons, List.length_nil]; omega

theorem yescryptR_good {D : Digests} {p s out : Bytes} {buflen : Nat} (hs : passwdSafe s = true)
    (h : yescryptR D p s buflen = some out) : passwdSafe out = true ∧ 0 < out.length ∧ out.length < buflen := by
  unfold yescryptR at h
  split at h; · cases h
  split at h; · cases h
  simp only [] at h
  split at h; · cases h
  rename_i hlt
  cases h
  refine ⟨?_, ?_, by omega⟩
  · simp [passwdSafe_take hs, encode64_safe]; decide
  · simp only [List.length_append, List.length_cons, List.length_nil]; omega

theorem cryptYescryptCore_good {D : Digests} {p s H : Bytes} (hs : checkBadSaltChars s = false)
    (h : cryptYescryptCore D p s = .ok H) : goodHash H := by
  have hsafe := passwdSafe_of_checkBad hs
  unfold cryptYescryptCore at h
  split at h; · cases h
  cases h
  rename_i out hout
  have := yescryptR_good hsafe hout
  have hc : Gen.CRYPT_OUTPUT_SIZE = 384 := by decide
  rw [hc] at this
  exact this

theorem cryptScrypt_good {D : Digests} {p s H : Bytes} (hs : checkBadSaltChars s = false)
    (h : cryptScrypt D p s = .ok H) : goodHash H := by
  unfold cryptScrypt at h
  split at h; · cases h
  exact cryptYescryptCore_good hs h


theorem yDecode64_go_len : ∀ fuel (l out : Bytes), yDecode64.go fuel l = some out → out.length * 4 ≤ l.length * 3 := by
  intro fuel
  induction fuel with
  | zero => intro l out h; simp [yDecode64.go] at h
  | succ f ih =>
    intro l out h
    match l with
    | [] => simp [yDecode64.go] at h; subst h; simp
    | [_] => simp [yDecode64.go] at h
    | [a, b] =>
      simp only [yDecode64.go] at h
      split at h
      · cases h
      · cases h; simp
    | [a, b, c] =>
      simp only [yDecode64.go] at h
      split at h
      · cases h
      · cases h; simp
    | a :: b :: c :: d :: rest =>
      simp only [yDecode64.go, Option.map_eq_some_iff] at h
      obtain ⟨r, hr, rfl⟩ := h
      have := ih rest r hr
      simp only [List.length_cons]; omega

theorem yDecode64_len {src out : Bytes} {m : Nat} (h : yDecode64 src m = some out) : out.length * 4 ≤ src.length * 3 := by
  unfold yDecode64 at h
  split at h; · cases h
  split at h; · cases h
  split at h; · cases h
  cases h
  exact yDecode64_go_len _ _ _ ‹_›

theorem strchr_lt {s : Bytes} {c : UInt8} {k : Nat} (h : strchr s c = some k) : k < s.length := by
  unfold strchr at h; simp only [] at h
  split at h
  · cases h; assumption
  · cases h

theorem cryptGost_good {D : Digests} (hD : D.WF) {p s H : Bytes} (hs : checkBadSaltChars s = false)
    (h : cryptGost D p s = .ok H) : goodHash H := by
  have hsafe := passwdSafe_of_checkBad hs
  unfold cryptGost at h
  simp only [] at h
  split at h; · cases h
  split at h; · cases h
  split at h; · cases h
  split at h; · cases h
  split at h; · cases h
  split at h; · cases h
  split at h; · cases h
  cases h
  rename_i y hy _ k1 hk1 _ k2 hk2 _ yb hyb hlen
  have hg : passwdSafe ([36, 121, 36] ++ s.drop 4) = true := by simp [passwdSafe_drop hsafe]; decide
  have hyg := yescryptR_good hg hy
  have hc : Gen.CRYPT_OUTPUT_SIZE = 384 := by decide
  rw [hc] at hyg
  have h1 := strchr_lt hk1
  have h2 := strchr_lt hk2
  have h3 := yDecode64_len hyb
  simp only [List.length_drop] at h1 h2 h3
  have hyl : yb.length = 32 := by simpa using hlen
  have he : (encode64 (D.gostOuter p (s.take (3 + k1 + 1 + k2 + 1)) yb)).length = 43 := by
    rw [encode64_length, hD.gost]; decide
  refine ⟨?_, ?_, ?_⟩
  · have hd := passwdSafe_drop (passwdSafe_take hyg.1 (3 + k1 + 1 + k2 + 1)) 1
    rw [passwdSafe_append, passwdSafe_append, hd, encode64_safe]; decide
  · simp only [List.length_append, List.length_cons, List.length_nil]; omega
  · simp only [List.length_append, List.length_cons, List.length_nil, List.length_drop, List.length_take, he]; omega

/-- C06 (generic clause) for every method -/
theorem cryptMethod_good {d : Bool} {D : Digests} (hD : D.WF) {m : Method} {p s H : Bytes}
    (hs : checkBadSaltChars s = false) (h : cryptMethod d D m p s = .ok H) : goodHash H := by
  cases m <;> simp only [cryptMethod] at h
  · exact cryptYescryptCore_good hs h
  · exact cryptGost_good hD hs h
  · exact cryptScrypt_good hs h
  · exact cryptBf_good hD hs h
  · exact cryptBf_good hD hs h
  · exact cryptBf_good hD hs h
  · exact cryptBf_good hD hs h
  · exact cryptSha512_good hs h
  · exact cryptSha256_good hs h
  · exact cryptSha1_good hs h
  · exact cryptSunmd5_good hs h
  · exact cryptMd5_good hs h
  · exact cryptNt_good hD h
  · exact cryptBsdi_good hD hs h
  · exact cryptBig_good hD h
  · exact (cryptDes_good hD h).1

end Xc

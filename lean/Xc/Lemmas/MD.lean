/-
  Streaming = one-shot for the generic Merkle–Damgård context (C16): whatever the chunking,
  `final (update … (update init c₁) … cₙ) = hash (c₁ ++ … ++ cₙ)`.
-/
import Xc.Prim.MD
namespace Xc.MD

variable {σ : Type}

theorem absorb_short (A : Alg σ) (s : σ) (m : Bytes) (h : m.length < A.block) : absorb A s m = s := by
  rw [absorb]; simp [h]

theorem absorb_step (A : Alg σ) (s : σ) (m : Bytes) (hb : 0 < A.block) (h : A.block ≤ m.length) :
    absorb A s m = absorb A (A.compress s (m.take A.block)) (m.drop A.block) := by
  rw [absorb]
  have : ¬ (A.block = 0 ∨ m.length < A.block) := by omega
  simp [this]

/-- processing `k` whole blocks and then the rest -/
theorem absorb_append (A : Alg σ) (hb : 0 < A.block) : ∀ (k : Nat) (s : σ) (x y : Bytes),
    x.length = k * A.block → absorb A s (x ++ y) = absorb A (absorb A s x) y := by
  intro k
  induction k with
  | zero =>
    intro s x y hx
    have : x = [] := by simpa using hx
    subst this
    simp [absorb_short A s [] (by simpa using hb)]
  | succ k ih =>
    intro s x y hx
    have hxl : A.block ≤ x.length := by rw [hx]; exact Nat.le_mul_of_pos_left _ (by omega)
    rw [absorb_step A s (x ++ y) hb (by simp; omega), absorb_step A s x hb hxl]
    have ht : (x ++ y).take A.block = x.take A.block := by
      rw [List.take_append_of_le_length hxl]
    have hd : (x ++ y).drop A.block = x.drop A.block ++ y := by
      rw [List.drop_append_of_le_length hxl]
    rw [ht, hd]
    apply ih
    simp only [List.length_drop, hx]
    rw [Nat.succ_mul]; omega

/-- a context that has been fed exactly the message `m` -/
structure Rep (A : Alg σ) (c : Ctx σ) (m : Bytes) : Prop where
  count : c.count = m.length
  short : c.buf.length < A.block
  split : ∃ pre k, m = pre ++ c.buf ∧ pre.length = k * A.block ∧ c.st = absorb A A.iv pre

theorem init_rep (A : Alg σ) (hb : 0 < A.block) : Rep A (init A) [] :=
  ⟨rfl, by simpa [init] using hb, [], 0, by simp [init], by simp, by simp [init, absorb_short A A.iv [] (by simpa using hb)]⟩

theorem update_rep (A : Alg σ) (hb : 0 < A.block) (c : Ctx σ) (m d : Bytes) (h : Rep A c m) :
    Rep A (update A c d) (m ++ d) := by
  obtain ⟨hc, hs, pre, k, hm, hpre, hst⟩ := h
  have hdm := Nat.div_add_mod (c.buf ++ d).length A.block
  have hml := Nat.mod_lt (c.buf ++ d).length hb
  have hle : (c.buf ++ d).length / A.block * A.block ≤ (c.buf ++ d).length := Nat.div_mul_le_self _ _
  refine ⟨by simp [update, hc], ?_, pre ++ (c.buf ++ d).take ((c.buf ++ d).length / A.block * A.block),
    k + (c.buf ++ d).length / A.block, ?_, ?_, ?_⟩
  · simp only [update, List.length_drop]
    rw [Nat.mul_comm] at hdm; omega
  · simp only [update]
    rw [hm, List.append_assoc, List.append_assoc, List.take_append_drop]
  · simp only [List.length_append, List.length_take, hpre]
    rw [Nat.min_eq_left (by simpa using hle), Nat.add_mul]
  · simp only [update]
    rw [hst, ← absorb_append A hb k A.iv pre _ hpre]

theorem final_rep (A : Alg σ) (hb : 0 < A.block) (c : Ctx σ) (m : Bytes) (h : Rep A c m) :
    final A c = hash A m := by
  obtain ⟨hc, _, pre, k, hm, hpre, hst⟩ := h
  simp only [final, hash]
  rw [hc, hst, ← absorb_append A hb k A.iv pre _ hpre]
  subst hm
  rw [List.append_assoc]

theorem foldl_rep (A : Alg σ) (hb : 0 < A.block) (chunks : List Bytes) (c : Ctx σ) (m : Bytes) (h : Rep A c m) :
    Rep A (chunks.foldl (update A) c) (m ++ chunks.flatten) := by
  induction chunks generalizing c m with
  | nil => simpa using h
  | cons d rest ih =>
    simp only [List.foldl_cons, List.flatten_cons]
    rw [← List.append_assoc]
    exact ih _ _ (update_rep A hb c m d h)

/-- **streaming = one-shot**, any number of chunks of any sizes -/
theorem streaming_eq_hash (A : Alg σ) (hb : 0 < A.block) (chunks : List Bytes) :
    final A (chunks.foldl (update A) (init A)) = hash A chunks.flatten := by
  have := foldl_rep A hb chunks (init A) [] (init_rep A hb)
  simpa using final_rep A hb _ _ this

/-- the result does not depend on how the input is split across update calls -/
theorem chunking_irrelevant (A : Alg σ) (hb : 0 < A.block) (c1 c2 : List Bytes) (h : c1.flatten = c2.flatten) :
    final A (c1.foldl (update A) (init A)) = final A (c2.foldl (update A) (init A)) := by
  rw [streaming_eq_hash A hb, streaming_eq_hash A hb, h]

end Xc.MD

/-
  The model of build-aux/scripts/gen-crypt-hashes-h: from lib/hashes.conf (Gen.hashesConf) and a
  selection of enabled methods to the dispatch table and the default prefix of that configuration.
-/
import Xc.Gensalt

namespace Xc

/-- rank of the method *name* in the order perl's `cmp` gives (`sort { $a->name cmp $b->name }`) -/
def Method.nameRank : Method → Nat
  | .bcrypt => 0 | .bcrypt_a => 1 | .bcrypt_x => 2 | .bcrypt_y => 3 | .bigcrypt => 4 | .bsdicrypt => 5
  | .descrypt => 6 | .gost_yescrypt => 7 | .md5crypt => 8 | .nt => 9 | .scrypt => 10 | .sha1crypt => 11
  | .sha256crypt => 12 | .sha512crypt => 13 | .sunmd5 => 14 | .yescrypt => 15

/-- lexicographic `cmp` on byte strings: a < b -/
def bytesLt : Bytes → Bytes → Bool
  | [], [] => false
  | [], _ :: _ => true
  | _ :: _, [] => false
  | a :: as, b :: bs => a < b || (a == b && bytesLt as bs)

/-- stable insertion sort by a strict "comes before" relation -/
def insertBy {α} (lt : α → α → Bool) (x : α) : List α → List α
  | [] => [x]
  | y :: ys => if lt y x then y :: insertBy lt x ys else x :: y :: ys

def sortBy {α} (lt : α → α → Bool) (l : List α) : List α := l.foldr (insertBy lt) []

/-- table order: descending prefix length, then prefix, ties keep the (name-sorted) input order -/
def tableLt (a b : ConfEntry) : Bool :=
  a.pfx.length > b.pfx.length || (a.pfx.length == b.pfx.length && bytesLt a.pfx b.pfx)

def mkTable (conf : List ConfEntry) (enabled : Method → Bool) : List HashEntry :=
  let byName := sortBy (fun a b => a.name.nameRank < b.name.nameRank) (conf.filter fun e => enabled e.name)
  (sortBy tableLt byName).map fun e =>
    { pfx := e.pfx, plen := e.pfx.length, crypt := e.name, gensalt := e.name, nrbytes := e.nrbytes, strong := e.strong }

/-- HASH_ALGORITHM_DEFAULT: the first enabled DEFAULT candidate in file order -/
def mkDefault (conf : List ConfEntry) (enabled : Method → Bool) : Option Bytes :=
  ((conf.filter fun e => e.dflt).find? fun e => enabled e.name).map (·.pfx)

def mkConfig (conf : List ConfEntry) (enabled : Method → Bool) : Config :=
  { table := mkTable conf enabled, dflt := mkDefault conf enabled, descryptOn := enabled .descrypt }

/-- the n-th subset of the sixteen methods -/
def subsetOf (n : Nat) : Method → Bool := fun m => n / 2 ^ m.nameRank % 2 = 1

def enabledOfList (l : List Method) : Method → Bool := fun m => l.contains m

end Xc

/-
  lib/crypt.c entry points as a state machine over `struct crypt_data` objects:
  `crypt_rn`, `crypt_r`, `crypt_ra` (allocation protocol in Xc/Heap.lean),
  the static `crypt`.  The object is modelled by what the properties observe:
  the C string in `output`, whether `internal/reserved/initialized` are all
  zero, and whether `setting/input` (application-owned) were modified.
-/
import Xc.Crypt

namespace Xc

/-- observable state of one `struct crypt_data` -/
structure DataObj where
  /-- C string held in the `output` field; `none` = no NUL within the field (arbitrary fill) -/
  out : Option Bytes
  /-- `internal`, `reserved`, `initialized` are all zero -/
  scratchZero : Bool
  deriving DecidableEq, Repr, Inhabited

/-- what one call lets the caller observe -/
structure CObs where
  /-- returned pointer: `none` = NULL, `some s` = pointer to `output` holding `s` -/
  ret : Option Bytes
  /-- errno after a failing call (`none` when the call succeeded) -/
  errno : Option Errno
  /-- scratch areas all zero after the call -/
  wz : Bool
  /-- scratch areas unchanged by the call -/
  wu : Bool
  /-- application-owned fields untouched (the model never writes them) -/
  app : Bool := true
  deriving DecidableEq, Repr

/-- `do_crypt`: returns (new object, errno if failed, validated?) given that the failure
    token `tok` is already in `output` -/
def doCrypt (cfg : Config) (D : Digests) (phrase setting : Option Bytes) (d : DataObj) :
    DataObj × Option Errno × Bool :=
  match phrase, setting with
  | some p, some s =>
    if p.length ≥ Gen.CRYPT_MAX_PASSPHRASE_SIZE then (d, some .ERANGE, false) else
    if checkBadSaltChars s then (d, some .EINVAL, false) else
    match getHashFn cfg.table s with
    | none => (d, some .EINVAL, false)
    | some h =>
      -- the method runs, then internal/reserved/initialized are wiped unconditionally
      match cryptMethod cfg.descryptOn D h.crypt p s with
      | .ok H => ({ out := some H, scratchZero := true }, none, true)
      | .error e => ({ d with scratchZero := true }, some e, true)
  | _, _ => (d, some .EINVAL, false)

def mkObs (pre : DataObj) (post : DataObj) (errno : Option Errno) (validated : Bool) (retOut : Bool) : CObs :=
  let star : Bool := match post.out with | some (42 :: _) => true | _ => false
  { ret := if retOut && !star then post.out else none,
    errno := if retOut && !star then none else errno,
    wz := post.scratchZero, wu := !validated || pre.scratchZero }

/-- `crypt_rn (phrase, setting, data, size)` -/
def cryptRn (cfg : Config) (D : Digests) (phrase setting : Option Bytes) (d : DataObj) (size : Int) :
    DataObj × CObs :=
  let d1 : DataObj :=
    match failureToken setting (min size Gen.CRYPT_OUTPUT_SIZE) with
    | some t => { d with out := some t }
    | none => d
  if size < 0 ∨ size < Gen.sizeof_crypt_data then
    (d1, { ret := none, errno := some .ERANGE, wz := d.scratchZero, wu := true })
  else
    let (d2, e, v) := doCrypt cfg D phrase setting d1
    (d2, mkObs d d2 e v true)

/-- `crypt_r (phrase, setting, data)`; `tokens` = ENABLE_FAILURE_TOKENS -/
def cryptR (cfg : Config) (D : Digests) (tokens : Bool) (phrase setting : Option Bytes) (d : DataObj) :
    DataObj × CObs :=
  let d1 : DataObj :=
    match failureToken setting Gen.CRYPT_OUTPUT_SIZE with
    | some t => { d with out := some t }
    | none => d
  let (d2, e, v) := doCrypt cfg D phrase setting d1
  let o := mkObs d d2 e v true
  if tokens then (d2, { o with ret := d2.out }) else (d2, o)

/-- the pure answer of the API for (phrase, setting): what every entry point must return
    irrespective of the object's history (C07) -/
def cryptAnswer (cfg : Config) (D : Digests) (phrase setting : Option Bytes) : CRes :=
  match phrase, setting with
  | some p, some s => cryptPure cfg D p s
  | _, _ => .error .EINVAL

end Xc

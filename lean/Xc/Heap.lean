/-
  The allocation protocol of `crypt_ra` / `crypt_gensalt_ra` (lib/crypt.c) over an abstract heap with a
  failure oracle, and the allocator/mapper requests of the yescrypt family (alg-yescrypt-platform.c).
-/
import Xc.Api

namespace Xc

/-- one heap block as the protocol sees it -/
structure HBlock where
  size : Nat
  live : Bool
  zero : Bool          -- all bytes zero
  deriving DecidableEq, Repr

structure Heap where
  blocks : List HBlock     -- block id = index
  deriving Repr

def Heap.get (h : Heap) (i : Nat) : Option HBlock := h.blocks[i]?
def Heap.set (h : Heap) (i : Nat) (b : HBlock) : Heap := { blocks := h.blocks.set i b }
def Heap.alloc (h : Heap) (b : HBlock) : Heap × Nat := ({ blocks := h.blocks ++ [b] }, h.blocks.length)
def Heap.liveCount (h : Heap) : Nat := (h.blocks.filter (·.live)).length

/-- the caller's `(*data, *size)` pair -/
structure RaPair where
  data : Option Nat
  size : Int
  deriving DecidableEq, Repr

structure RaObs where
  ret : Option Bytes
  errno : Option Errno
  grew : Bool            -- the realloc path was taken
  oldErased : Bool       -- the block handed to realloc was all-zero at that moment
  requests : Nat         -- allocator requests issued
  deriving Repr

/-- `crypt_ra (phrase, setting, &data, &size)`; `allocOk` is the allocator's answer to the (at most one) request.
    `obj` is the observable state of the crypt_data object living in the block (if it is large enough). -/
def cryptRa (cfg : Config) (D : Digests) (ph st : Option Bytes) (h : Heap) (p : RaPair) (obj : DataObj) (allocOk : Bool) :
    Heap × RaPair × DataObj × RaObs :=
  let sz := Gen.sizeof_crypt_data
  if p.data.isNone ∨ p.size < 0 ∨ p.size < sz then
    -- erase what the caller says is there, then realloc
    let (h1, erased) : Heap × Bool :=
      match p.data with
      | some i =>
        (match h.get i with
         | some b => if p.size > 0 then (h.set i { b with zero := b.zero || decide (b.size ≤ p.size.toNat) }, b.zero || decide (b.size ≤ p.size.toNat))
                     else (h, b.zero)
         | none => (h, false))
      | none => (h, true)
    if !allocOk then
      (h1, p, obj, { ret := none, errno := some .ENOMEM, grew := true, oldErased := erased, requests := 1 })
    else
      -- the old block (if any) is consumed by realloc; a fresh zeroed block of sizeof (struct crypt_data) results
      let h2 := match p.data with | some i => (match h1.get i with | some b => h1.set i { b with live := false } | none => h1) | none => h1
      let (h3, j) := h2.alloc { size := sz, live := true, zero := true }
      let fresh : DataObj := { out := some [], scratchZero := true }
      let (d, o) := cryptR cfg D false ph st fresh
      (h3.set j { size := sz, live := true, zero := false }, { data := some j, size := sz }, d,
       { ret := o.ret, errno := o.errno, grew := true, oldErased := erased, requests := 1 })
  else
    let (d, o) := cryptR cfg D false ph st obj
    (h, p, d, { ret := o.ret, errno := o.errno, grew := false, oldErased := true, requests := 0 })

/-- allocator / mapper requests a hashing call issues (everything but the yescrypt family: none) -/
def cryptRequests (cfg : Config) (ph st : Option Bytes) : Nat :=
  match ph, st with
  | some p, some s =>
    if p.length ≥ Gen.CRYPT_MAX_PASSPHRASE_SIZE ∨ checkBadSaltChars s then 0 else
    match getHashFn cfg.table s with
    | some h =>
      (match h.crypt with
       | .yescrypt | .scrypt =>
         (match parseYescrypt s Gen.CRYPT_OUTPUT_SIZE with
          | some P => if (h.crypt == .scrypt && !(hasPrefix s [36, 55, 36] && scryptVerifySalt s)) then 0 else if yesKdfParamsOk P.params then 2 else 0
          | none => 0)
       | .gost_yescrypt =>
         if Gen.CRYPT_OUTPUT_SIZE < s.length + 1 + 43 + 1 then 0 else
         (match parseYescrypt ([36, 121, 36] ++ s.drop 4) (Gen.CRYPT_OUTPUT_SIZE - 1) with
          | some P => if yesKdfParamsOk P.params then 2 else 0
          | none => 0)
       | _ => 0)
    | none => 0
  | _, _ => 0

end Xc

/-
  The sixteen hashing methods of libxcrypt and the shape of one row of the
  dispatch table / of hashes.conf.  The *contents* of both tables are generated
  (Xc/Gen/Table.lean); only the vocabulary is fixed here.
-/
namespace Xc

abbrev Bytes := List UInt8

inductive Method
  | yescrypt | gost_yescrypt | scrypt | bcrypt | bcrypt_y | bcrypt_a | bcrypt_x
  | sha512crypt | sha256crypt | sha1crypt | sunmd5 | md5crypt | nt | bsdicrypt
  | bigcrypt | descrypt
  deriving DecidableEq, Repr, Inhabited

def Method.all : List Method :=
  [.yescrypt, .gost_yescrypt, .scrypt, .bcrypt, .bcrypt_y, .bcrypt_a, .bcrypt_x,
   .sha512crypt, .sha256crypt, .sha1crypt, .sunmd5, .md5crypt, .nt, .bsdicrypt,
   .bigcrypt, .descrypt]

theorem Method.mem_all (m : Method) : m ∈ Method.all := by
  cases m <;> decide

def Method.name : Method → String
  | .yescrypt => "yescrypt" | .gost_yescrypt => "gost_yescrypt" | .scrypt => "scrypt"
  | .bcrypt => "bcrypt" | .bcrypt_y => "bcrypt_y" | .bcrypt_a => "bcrypt_a" | .bcrypt_x => "bcrypt_x"
  | .sha512crypt => "sha512crypt" | .sha256crypt => "sha256crypt" | .sha1crypt => "sha1crypt"
  | .sunmd5 => "sunmd5" | .md5crypt => "md5crypt" | .nt => "nt" | .bsdicrypt => "bsdicrypt"
  | .bigcrypt => "bigcrypt" | .descrypt => "descrypt"

/-- One row of `hash_algorithms[]` (lib/crypt.c `struct hashfn`). -/
structure HashEntry where
  pfx : Bytes
  plen : Nat
  crypt : Method
  gensalt : Method
  nrbytes : Nat
  strong : Bool
  deriving DecidableEq, Repr

/-- One row of lib/hashes.conf. -/
structure ConfEntry where
  name : Method
  pfx : Bytes
  nrbytes : Nat
  strong : Bool
  dflt : Bool
  deriving DecidableEq, Repr

end Xc

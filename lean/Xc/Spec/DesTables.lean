/-
  The DES lookup tables re-derived inside Lean from the FIPS 46-3 permutations and S-boxes
  by the construction of lib/gen-des-tables.c (`des_init`).  Comparing them with the tables
  extracted from the tree (Gen.DesTables) is C17's `des_tables_ok`.
-/
namespace Xc.Spec.DesT

/-- FIPS 46-3 initial permutation IP -/
def IP : List Nat := [
  58, 50, 42, 34, 26, 18, 10,  2, 60, 52, 44, 36, 28, 20, 12,  4,
  62, 54, 46, 38, 30, 22, 14,  6, 64, 56, 48, 40, 32, 24, 16,  8,
  57, 49, 41, 33, 25, 17,  9,  1, 59, 51, 43, 35, 27, 19, 11,  3,
  61, 53, 45, 37, 29, 21, 13,  5, 63, 55, 47, 39, 31, 23, 15,  7]

/-- permuted choice 1 -/
def PC1 : List Nat := [
  57, 49, 41, 33, 25, 17,  9,  1, 58, 50, 42, 34, 26, 18,
  10,  2, 59, 51, 43, 35, 27, 19, 11,  3, 60, 52, 44, 36,
  63, 55, 47, 39, 31, 23, 15,  7, 62, 54, 46, 38, 30, 22,
  14,  6, 61, 53, 45, 37, 29, 21, 13,  5, 28, 20, 12,  4]

/-- permuted choice 2 -/
def PC2 : List Nat := [
  14, 17, 11, 24,  1,  5,  3, 28, 15,  6, 21, 10,
  23, 19, 12,  4, 26,  8, 16,  7, 27, 20, 13,  2,
  41, 52, 31, 37, 47, 55, 30, 40, 51, 45, 33, 48,
  44, 49, 39, 56, 34, 53, 46, 42, 50, 36, 29, 32]

def SBOX : List (List Nat) := [
  [14,  4, 13,  1,  2, 15, 11,  8,  3, 10,  6, 12,  5,  9,  0,  7,
    0, 15,  7,  4, 14,  2, 13,  1, 10,  6, 12, 11,  9,  5,  3,  8,
    4,  1, 14,  8, 13,  6,  2, 11, 15, 12,  9,  7,  3, 10,  5,  0,
   15, 12,  8,  2,  4,  9,  1,  7,  5, 11,  3, 14, 10,  0,  6, 13],
  [15,  1,  8, 14,  6, 11,  3,  4,  9,  7,  2, 13, 12,  0,  5, 10,
    3, 13,  4,  7, 15,  2,  8, 14, 12,  0,  1, 10,  6,  9, 11,  5,
    0, 14,  7, 11, 10,  4, 13,  1,  5,  8, 12,  6,  9,  3,  2, 15,
   13,  8, 10,  1,  3, 15,  4,  2, 11,  6,  7, 12,  0,  5, 14,  9],
  [10,  0,  9, 14,  6,  3, 15,  5,  1, 13, 12,  7, 11,  4,  2,  8,
   13,  7,  0,  9,  3,  4,  6, 10,  2,  8,  5, 14, 12, 11, 15,  1,
   13,  6,  4,  9,  8, 15,  3,  0, 11,  1,  2, 12,  5, 10, 14,  7,
    1, 10, 13,  0,  6,  9,  8,  7,  4, 15, 14,  3, 11,  5,  2, 12],
  [ 7, 13, 14,  3,  0,  6,  9, 10,  1,  2,  8,  5, 11, 12,  4, 15,
   13,  8, 11,  5,  6, 15,  0,  3,  4,  7,  2, 12,  1, 10, 14,  9,
   10,  6,  9,  0, 12, 11,  7, 13, 15,  1,  3, 14,  5,  2,  8,  4,
    3, 15,  0,  6, 10,  1, 13,  8,  9,  4,  5, 11, 12,  7,  2, 14],
  [ 2, 12,  4,  1,  7, 10, 11,  6,  8,  5,  3, 15, 13,  0, 14,  9,
   14, 11,  2, 12,  4,  7, 13,  1,  5,  0, 15, 10,  3,  9,  8,  6,
    4,  2,  1, 11, 10, 13,  7,  8, 15,  9, 12,  5,  6,  3,  0, 14,
   11,  8, 12,  7,  1, 14,  2, 13,  6, 15,  0,  9, 10,  4,  5,  3],
  [12,  1, 10, 15,  9,  2,  6,  8,  0, 13,  3,  4, 14,  7,  5, 11,
   10, 15,  4,  2,  7, 12,  9,  5,  6,  1, 13, 14,  0, 11,  3,  8,
    9, 14, 15,  5,  2,  8, 12,  3,  7,  0,  4, 10,  1, 13, 11,  6,
    4,  3,  2, 12,  9,  5, 15, 10, 11, 14,  1,  7,  6,  0,  8, 13],
  [ 4, 11,  2, 14, 15,  0,  8, 13,  3, 12,  9,  7,  5, 10,  6,  1,
   13,  0, 11,  7,  4,  9,  1, 10, 14,  3,  5, 12,  2, 15,  8,  6,
    1,  4, 11, 13, 12,  3,  7, 14, 10, 15,  6,  8,  0,  5,  9,  2,
    6, 11, 13,  8,  1,  4, 10,  7,  9,  5,  0, 15, 14,  2,  3, 12],
  [13,  2,  8,  4,  6, 15, 11,  1, 10,  9,  3, 14,  5,  0, 12,  7,
    1, 15, 13,  8, 10,  3,  7,  4, 12,  5,  6, 11,  0, 14,  9,  2,
    7, 11,  4,  1,  9, 12, 14,  2,  0,  6, 10, 13, 15,  3,  5,  8,
    2,  1, 14,  7,  4, 10,  8, 13, 15, 12,  9,  0,  3,  5,  6, 11]]

/-- the P permutation -/
def PBOX : List Nat := [
  16,  7, 20, 21, 29, 12, 28, 17,  1, 15, 23, 26,  5, 18, 31, 10,
   2,  8, 24, 14, 32, 27,  3,  9, 19, 13, 30,  6, 22, 11,  4, 25]

def bit32 (i : Nat) : Nat := 2 ^ (31 - i)          -- bits32[i]
def bit28 (i : Nat) : Nat := 2 ^ (27 - i)          -- bits28[i] = bits32[i + 4]
def bit24 (i : Nat) : Nat := 2 ^ (23 - i)          -- bits24[i] = bits32[i + 8]
def bit8set (v j : Nat) : Bool := v / 2 ^ (7 - j) % 2 = 1       -- i & bits8[j]

/-- index of `x` in `l` (the C builds inverse permutations by scattering) -/
def inv (l : List Nat) (x : Nat) : Option Nat :=
  let i := (l.takeWhile (· != x)).length
  if i < l.length then some i else none

def finalPerm (i : Nat) : Nat := IP.getD i 0 - 1                 -- final_perm[i] = IP[i] - 1
def initPerm (i : Nat) : Nat := (inv IP (i + 1)).getD 0          -- init_perm[final_perm[i]] = i

def sumBits (f : Nat → Option Nat) (n : Nat) : Nat := (List.range n).foldl (fun acc j => acc + (f j).getD 0) 0

/-- one entry of ip_maskl/ip_maskr/fp_maskl/fp_maskr -/
def ipMask (left : Bool) (k i : Nat) : Nat :=
  sumBits (fun j => if bit8set i j then
    let o := initPerm (8 * k + j)
    if left then (if o < 32 then some (bit32 o) else none) else (if o < 32 then none else some (bit32 (o - 32))) else none) 8

def fpMask (left : Bool) (k i : Nat) : Nat :=
  sumBits (fun j => if bit8set i j then
    let o := finalPerm (8 * k + j)
    if left then (if o < 32 then some (bit32 o) else none) else (if o < 32 then none else some (bit32 (o - 32))) else none) 8

def keyPermMask (left : Bool) (k i : Nat) : Nat :=
  sumBits (fun j => if bit8set i (j + 1) then
    match inv PC1 (8 * k + j + 1) with
    | none => none
    | some o => if left then (if o < 28 then some (bit28 o) else none) else (if o < 28 then none else some (bit28 (o - 28))) else none) 7

def compMask (left : Bool) (k i : Nat) : Nat :=
  sumBits (fun j => if bit8set i (j + 1) then
    match inv PC2 (7 * k + j + 1) with
    | none => none
    | some o => if left then (if o < 24 then some (bit24 o) else none) else (if o < 24 then none else some (bit24 (o - 24))) else none) 7

def psboxEntry (b i : Nat) : Nat :=
  sumBits (fun j => if bit8set i j then (inv PBOX (8 * b + j + 1)).map bit32 else none) 8

/-- u_sbox[i][j] = sbox[i][(j & 0x20) | ((j & 1) << 4) | ((j >> 1) & 0xf)] -/
def uSbox (i j : Nat) : Nat :=
  (SBOX.getD i []).getD ((j / 32 % 2) * 32 + (j % 2) * 16 + (j / 2 % 16)) 0

def mSboxEntry (b idx : Nat) : Nat := uSbox (2 * b) (idx / 64) * 16 + uSbox (2 * b + 1) (idx % 64)

def tab32 (f : Nat → Nat → Nat) (k n : Nat) : List UInt32 := (List.range n).map fun i => (f k i).toUInt32
def tab8 (f : Nat → Nat → Nat) (b lo n : Nat) : List UInt8 := (List.range n).map fun i => (f b (lo + i)).toUInt8


/-! ### the cipher function f of FIPS 46-3, bit level (used by Lemmas/DesRound.lean: the table-driven round computes it) -/

/-- FIPS 46-3 E bit-selection table -/
def E : List Nat := [
  32,  1,  2,  3,  4,  5,  4,  5,  6,  7,  8,  9,  8,  9, 10, 11, 12, 13, 12, 13, 14, 15, 16, 17,
  16, 17, 18, 19, 20, 21, 20, 21, 22, 23, 24, 25, 24, 25, 26, 27, 28, 29, 28, 29, 30, 31, 32,  1]

/-- bit `j` of an `n`-bit word in FIPS numbering (1 = leftmost = most significant) -/
def bitAt (n : Nat) (w : UInt32) (j : Nat) : UInt32 := (w >>> (n - j).toUInt32) &&& 1

/-- a FIPS bit-selection table applied to an `n`-bit word: bit i of the result is bit `tbl[i]` of the input -/
def gather (tbl : List Nat) (n : Nat) (w : UInt32) : UInt32 :=
  (List.range tbl.length).foldl (fun acc i => acc ||| (bitAt n w (tbl.getD i 0) <<< (tbl.length - 1 - i).toUInt32)) 0


/-- the `s`-th (0…3) six-bit group of a 24-bit half, leftmost first -/
def sixAt (x : UInt32) (s : Nat) : Nat := x.toNat / 2 ^ (18 - 6 * s) % 64

/-- the eight S-boxes (`uSbox s g`: row = first and last bit of the group `g`, column = its middle four bits) applied to the eight
    six-bit groups of a 48-bit value given as two 24-bit halves; the eight 4-bit results side by side -/
def sboxOut (xl xr : UInt32) : UInt32 :=
  (uSbox 0 (sixAt xl 0)).toUInt32 <<< 28 ||| (uSbox 1 (sixAt xl 1)).toUInt32 <<< 24 ||| (uSbox 2 (sixAt xl 2)).toUInt32 <<< 20 |||
  (uSbox 3 (sixAt xl 3)).toUInt32 <<< 16 ||| (uSbox 4 (sixAt xr 0)).toUInt32 <<< 12 ||| (uSbox 5 (sixAt xr 1)).toUInt32 <<< 8 |||
  (uSbox 6 (sixAt xr 2)).toUInt32 <<< 4 ||| (uSbox 7 (sixAt xr 3)).toUInt32

/-- the cipher function f(R, K) = P(S(E(R) ⊕ K)) of FIPS 46-3, K given as two 24-bit halves; crypt(3)'s salt exchanges bit i of the
    two halves of E(R) wherever salt bit i is set (salt 0: plain DES) -/
def fipsF (salt r kl kr : UInt32) : UInt32 :=
  let el := gather (E.take 24) 32 r
  let er := gather (E.drop 24) 32 r
  let xl := ((el &&& ~~~ salt) ||| (er &&& salt)) ^^^ kl
  let xr := ((er &&& ~~~ salt) ||| (el &&& salt)) ^^^ kr
  gather PBOX 32 (sboxOut xl xr)


/-- FIPS 46-3 inverse initial permutation IP⁻¹ -/
def IPinv : List Nat := [
  40,  8, 48, 16, 56, 24, 64, 32, 39,  7, 47, 15, 55, 23, 63, 31,
  38,  6, 46, 14, 54, 22, 62, 30, 37,  5, 45, 13, 53, 21, 61, 29,
  36,  4, 44, 12, 52, 20, 60, 28, 35,  3, 43, 11, 51, 19, 59, 27,
  34,  2, 42, 10, 50, 18, 58, 26, 33,  1, 41,  9, 49, 17, 57, 25]

/-- bit `j` (1…2h, FIPS numbering) of a 2h-bit value given as two h-bit halves (h = 32: a block L‖R; h = 28: C‖D of the key schedule) -/
def bitAtN (h : Nat) (l r : UInt32) (j : Nat) : UInt32 := if j ≤ h then bitAt h l j else bitAt h r (j - h)

/-- a bit-selection table of at most 32 entries applied to such a value -/
def gatherN (h : Nat) (tbl : List Nat) (l r : UInt32) : UInt32 :=
  (List.range tbl.length).foldl (fun acc i => acc ||| (bitAtN h l r (tbl.getD i 0) <<< (tbl.length - 1 - i).toUInt32)) 0

/-- a FIPS selection table whose result is split after `k` entries (IP: 32 + 32, PC-1: 28 + 28, PC-2: 24 + 24) -/
def selN (h : Nat) (tbl : List Nat) (k : Nat) (p : UInt32 × UInt32) : UInt32 × UInt32 :=
  (gatherN h (tbl.take k) p.1 p.2, gatherN h (tbl.drop k) p.1 p.2)

/-- a 64-entry FIPS permutation of a 64-bit block -/
def perm64 (tbl : List Nat) (p : UInt32 × UInt32) : UInt32 × UInt32 := selN 32 tbl 32 p


/-! ### the key schedule KS of FIPS 46-3 -/
/-- the published left-shift schedule of FIPS 46-3 -/
def SHIFTS : List Nat := [1, 1, 2, 2, 2, 2, 2, 2, 1, 2, 2, 2, 2, 2, 2, 1]
/-- total rotation after round r (0-based) -/
def cumShift (r : Nat) : Nat := (SHIFTS.take (r + 1)).foldl (· + ·) 0
/-- rotating a 28-bit half left by `s` places as a FIPS-style selection table: bit j of the result is bit ((j - 1 + s) mod 28) + 1 of the input -/
def rotTbl (s : Nat) : List Nat := (List.range 28).map fun j => (j + s) % 28 + 1
def rotl28 (c : UInt32) (s : Nat) : UInt32 := gather (rotTbl s) 28 c
/-- the key schedule KS of FIPS 46-3: PC-1, cumulative left rotations of C and D, PC-2; the round key as two 24-bit halves -/
def ksFips (raw : UInt32 × UInt32) (r : Nat) : UInt32 × UInt32 :=
  let cd := selN 32 PC1 28 raw
  selN 28 PC2 24 (rotl28 cd.1 (cumShift r), rotl28 cd.2 (cumShift r))

end Xc.Spec.DesT

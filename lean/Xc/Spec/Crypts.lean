/-
  The published password-hash constructions written the way their specifications read: one-shot
  digests over whole (concatenated) messages — PHK's md5crypt, Drepper's SHA-crypt (steps 1-21),
  Solaris SunMD5, NetBSD sha1crypt (PBKDF1 with HMAC-SHA1), the NT hash.  These are the right-hand
  sides of C02; the C-shaped cores (Xc/Prim/Cores.lean) are the left-hand sides.
-/
import Xc.Prim.Cores

namespace Xc.Spec
open Xc

/-- md5crypt (Poul-Henning Kamp): -/
def md5crypt (pw salt : Bytes) : Bytes :=
  let H := Md5.hash
  let alt := H (pw ++ salt ++ pw)
  let rec altBytes : Nat → Nat → Bytes
    | 0, _ => []
    | fuel + 1, cnt => if cnt > 16 then alt ++ altBytes fuel (cnt - 16) else alt.take cnt
  let rec bitBytes : Nat → Nat → Bytes
    | 0, _ => []
    | fuel + 1, cnt => if cnt > 0 then (if cnt % 2 = 1 then [0] else pw.take 1) ++ bitBytes fuel (cnt / 2) else []
  let r0 := H (pw ++ Gen.md5_salt_prefix ++ salt ++ altBytes (pw.length + 1) pw.length ++ bitBytes (pw.length + 1) pw.length)
  (List.range 1000).foldl (fun r i =>
    H ((if i % 2 = 1 then pw else r) ++ (if i % 3 ≠ 0 then salt else []) ++ (if i % 7 ≠ 0 then pw else []) ++ (if i % 2 = 1 then r else pw))) r0

/-- `len` bytes of `block` repeated: Drepper's "produce byte sequence of length N by repeating DP" -/
def repeatTo (block : Bytes) (hlen len : Nat) : Bytes :=
  (List.replicate (len / hlen) block).flatten ++ block.take (len % hlen)

/-- SHA-crypt (Ulrich Drepper, "Unix crypt using SHA-256 and SHA-512"), steps 1-21 -/
def shaCrypt (H : Bytes → Bytes) (hlen : Nat) (pw salt : Bytes) (rounds : Nat) : Bytes :=
  let B := H (pw ++ salt ++ pw)                                            -- steps 4-8
  let rec altBytes : Nat → Nat → Bytes                                     -- steps 9-10
    | 0, _ => []
    | fuel + 1, cnt => if cnt > hlen then B ++ altBytes fuel (cnt - hlen) else B.take cnt
  let rec bitBytes : Nat → Nat → Bytes                                     -- step 11
    | 0, _ => []
    | fuel + 1, cnt => if cnt > 0 then (if cnt % 2 = 1 then B else pw) ++ bitBytes fuel (cnt / 2) else []
  let A := H (pw ++ salt ++ altBytes (pw.length + 1) pw.length ++ bitBytes (pw.length + 1) pw.length)   -- steps 1-3, 12
  let DP := H (List.replicate pw.length pw).flatten                          -- steps 13-15
  let DS := H (List.replicate (16 + (A.getD 0 0).toNat) salt).flatten        -- steps 17-19
  let P := repeatTo DP hlen pw.length                                      -- step 16
  let S := repeatTo DS hlen salt.length                                    -- step 20
  (List.range rounds).foldl (fun C i =>                                    -- step 21
    H ((if i % 2 = 1 then P else C) ++ (if i % 3 ≠ 0 then S else []) ++ (if i % 7 ≠ 0 then P else []) ++ (if i % 2 = 1 then C else P))) A

def sha256crypt := shaCrypt Sha256.hash 32
def sha512crypt := shaCrypt Sha512.hash 64

/-- SunMD5 (crypt_sunmd5(5)): -/
def sunmd5 (pw pre : Bytes) (nrounds : Nat) : Bytes :=
  (List.range nrounds).foldl (fun dg i =>
    Md5.hash (dg ++ (if Cores.muffetCoinToss dg i then Gen.hamlet_quotation else []) ++ toDec i)) (Md5.hash (pw ++ pre))

/-- RFC 2104 HMAC over a one-shot hash with a 64-byte block -/
def hmac (H : Bytes → Bytes) (block : Nat) (key text : Bytes) : Bytes :=
  let k' := if key.length > block then H key else key
  let pad (p : UInt8) := (List.range block).map fun i => p ^^^ k'.getD i 0
  H (pad 0x5c ++ H (pad 0x36 ++ text))

/-- sha1crypt (NetBSD): PBKDF1-style chain of HMAC-SHA1 keyed with the passphrase -/
def sha1crypt (pw salt : Bytes) (iterations : Nat) : Bytes :=
  let h0 := hmac Sha1.hash 64 pw (salt ++ [36, 115, 104, 97, 49, 36] ++ toDec iterations)
  (List.range (iterations - 1)).foldl (fun h _ => hmac Sha1.hash 64 pw h) h0

/-- NT hash: MD4 of the UCS-2LE passphrase -/
def nt (pw : Bytes) : Bytes := Md4.hash (pw.flatMap fun c => [c, 0])

end Xc.Spec

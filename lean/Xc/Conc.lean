/-
  A small interleaving semantics (C08).  Threads share an immutable part `S` and each owns a private
  component `L`; one step of thread `t` is `step t : S → L → L` — by its type it cannot change the shared
  part or another thread's component.  For EVERY schedule each thread ends in the state it reaches when it
  runs alone; the number of threads and of steps is unbounded.
-/
namespace Xc.Conc

variable {S L : Type} {T : Type} [DecidableEq T]

/-- global state: private component of every thread -/
abbrev G (T L : Type) := T → L

/-- thread `t` performs one step -/
def stepAt (shared : S) (step : T → S → L → L) (g : G T L) (t : T) : G T L :=
  fun u => if u = t then step t shared (g t) else g u

/-- run a schedule (the list of thread ids in the order in which they step) -/
def runSched (shared : S) (step : T → S → L → L) : G T L → List T → G T L
  | g, [] => g
  | g, t :: rest => runSched shared step (stepAt shared step g t) rest

/-- a thread running alone for `n` steps -/
def solo (shared : S) (step : T → S → L → L) (t : T) : Nat → L → L
  | 0, l => l
  | n + 1, l => solo shared step t n (step t shared l)

/-- **every interleaving**: the final private state of thread `t` is what `t` computes alone in as many
    steps as the schedule grants it -/
theorem interleaving_irrelevant (shared : S) (step : T → S → L → L) (sched : List T) (g : G T L) (t : T) :
    runSched shared step g sched t = solo shared step t (sched.count t) (g t) := by
  induction sched generalizing g with
  | nil => rfl
  | cons u rest ih =>
    simp only [runSched]
    rw [ih]
    by_cases h : u = t
    · subst h
      simp [List.count_cons_self, solo, stepAt]
    · have hne : ¬ (t = u) := fun e => h e.symm
      have hb : (u == t) = false := by simpa using h
      simp [List.count_cons, stepAt, hne, hb]

/-- two schedules that give every thread the same number of steps are indistinguishable to every thread -/
theorem schedules_equivalent (shared : S) (step : T → S → L → L) (s1 s2 : List T) (g : G T L)
    (h : ∀ t, s1.count t = s2.count t) : runSched shared step g s1 = runSched shared step g s2 := by
  funext t
  rw [interleaving_irrelevant, interleaving_irrelevant, h t]

end Xc.Conc

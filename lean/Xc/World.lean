/-
  Histories: a process-wide state with any number of caller-owned `struct crypt_data`
  objects, the library's static objects, and arbitrary interleaved operations.
-/
import Xc.Api

namespace Xc

inductive Op
  /-- `crypt_rn (ph, st, &obj[id], size)` -/
  | rn (id : Nat) (ph st : Option Bytes) (size : Int)
  /-- `crypt_r (ph, st, &obj[id])` -/
  | r (id : Nat) (ph st : Option Bytes)
  /-- `crypt (ph, st)` on the library's static object -/
  | static (ph st : Option Bytes)
  /-- `crypt (ph, crypt_gensalt (...))`: the static gensalt result handed straight to crypt -/
  | staticFromGensalt (ph : Option Bytes) (pfx : Option Bytes) (count : Nat) (rb : Option Bytes) (nrb : Int)
  /-- `crypt_gensalt (...)` alone -/
  | gensalt (pfx : Option Bytes) (count : Nat) (rb : Option Bytes) (nrb : Int)
  /-- anything else that writes the object: the application, `setkey_r`/`encrypt_r` (they keep
      their key schedule in `internal`), a memset ... -/
  | clobber (id : Nat) (d : DataObj)

structure World where
  objs : Nat → DataObj
  stat : DataObj            -- `nr_crypt_ctx` of crypt-static.c
  gsOut : Option Bytes      -- `output` of crypt-gensalt-static.c (C string, if any)

def World.set (w : World) (id : Nat) (d : DataObj) : World :=
  { w with objs := fun i => if i = id then d else w.objs i }

structure Ctx where
  cfg : Config
  D : Digests
  tokens : Bool
  os : Nat → Bytes

/-- one operation: new world and what the caller observes (`none` for ops that return nothing of interest) -/
def step (c : Ctx) (w : World) : Op → World × Option CObs
  | .rn id ph st size =>
    let (d, o) := cryptRn c.cfg c.D ph st (w.objs id) size
    (w.set id d, some o)
  | .r id ph st =>
    let (d, o) := cryptR c.cfg c.D c.tokens ph st (w.objs id)
    (w.set id d, some o)
  | .static ph st =>
    let (d, o) := cryptR c.cfg c.D c.tokens ph st w.stat
    ({ w with stat := d }, some o)
  | .staticFromGensalt ph pfx count rb nrb =>
    let g := gensaltStatic c.cfg pfx count rb nrb c.os
    let w1 := { w with gsOut := match g.buf with | some b => some b | none => w.gsOut }
    -- crypt receives the pointer crypt_gensalt returned (NULL on failure)
    let (d, o) := cryptR c.cfg c.D c.tokens ph g.ret w1.stat
    ({ w1 with stat := d }, some o)
  | .gensalt pfx count rb nrb =>
    let g := gensaltStatic c.cfg pfx count rb nrb c.os
    ({ w with gsOut := match g.buf with | some b => some b | none => w.gsOut }, none)
  | .clobber id d => (w.set id d, none)

def run (c : Ctx) : World → List Op → List (Option CObs)
  | _, [] => []
  | w, op :: rest => (step c w op).2 :: run c (step c w op).1 rest

/-- the history-free prediction of what an operation returns: (returned string, errno) -/
def pureObs (c : Ctx) : Op → Option (Option Bytes × Option Errno)
  | .rn _ ph st size =>
    if size < Gen.sizeof_crypt_data then some (none, some .ERANGE) else
    (match cryptAnswer c.cfg c.D ph st with
     | .ok H => some (some H, none)
     | .error e => some (none, some e))
  | .r _ ph st | .static ph st =>
    (match cryptAnswer c.cfg c.D ph st with
     | .ok H => some (some H, none)
     | .error e => some (if c.tokens then failureToken st Gen.CRYPT_OUTPUT_SIZE else none, some e))
  | .staticFromGensalt ph pfx count rb nrb =>
    let st := (gensaltStatic c.cfg pfx count rb nrb c.os).ret
    (match cryptAnswer c.cfg c.D ph st with
     | .ok H => some (some H, none)
     | .error e => some (if c.tokens then failureToken st Gen.CRYPT_OUTPUT_SIZE else none, some e))
  | .gensalt .. => none
  | .clobber .. => none

end Xc

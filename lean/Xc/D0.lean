/-
  The concrete instantiation of `Digests` used by the driver.  Fields are
  replaced by the executable primitives of Xc/Prim as they are built; a method
  listed in `exactMethods` has its full output compared with the C code, the
  others only their setting part, digest length and alphabet.
-/
import Xc.Api

namespace Xc

def zeros (n : Nat) : Bytes := List.replicate n 0

def D0 : Digests where
  md5crypt := fun _ _ => zeros 16
  sha256crypt := fun _ _ _ => zeros 32
  sha512crypt := fun _ _ _ => zeros 64
  sunmd5 := fun _ _ _ => zeros 16
  sha1crypt := fun _ _ _ => zeros 20
  nt := fun _ => zeros 16
  desHash := fun _ _ _ => zeros 8
  bsdi := fun _ _ _ => zeros 8
  bf := fun _ _ _ _ => zeros 23
  bfSelfTest := fun _ => true
  yescrypt := fun P _ _ => if yesKdfParamsOk P then some (zeros 32) else none
  gostOuter := fun _ _ _ => zeros 32

def exactMethods : List Method := []

/-- number of trailing characters of a successful result that depend on the digest -/
def digestChars (m : Method) (H : Bytes) : Nat :=
  match m with
  | .md5crypt | .sunmd5 => 22
  | .sha256crypt | .yescrypt | .gost_yescrypt | .scrypt => 43
  | .sha512crypt => 86
  | .sha1crypt => 28
  | .nt => 32
  | .descrypt | .bsdicrypt => 11
  | .bigcrypt => H.length - 2
  | .bcrypt | .bcrypt_a | .bcrypt_x | .bcrypt_y => 31

end Xc

/-
  The concrete instantiation of `Digests` used by the driver.  Fields are
  replaced by the executable primitives of Xc/Prim as they are built; a method
  listed in `exactMethods` has its full output compared with the C code, the
  others only their setting part, digest length and alphabet.
-/
import Xc.Api
import Xc.Prim.Cores
import Xc.Prim.Des
import Xc.Prim.Blowfish
import Xc.Prim.Yescrypt
import Xc.Prim.Streebog

namespace Xc

def zeros (n : Nat) : Bytes := List.replicate n 0

def D0 : Digests where
  md5crypt := Cores.md5cryptCore
  sha256crypt := Cores.sha256cryptCore
  sha512crypt := Cores.sha512cryptCore
  sunmd5 := Cores.sunmd5Core
  sha1crypt := Cores.sha1cryptCore
  nt := Cores.ntCore
  desHash := Des.desHash
  bsdi := Des.bsdiCore
  bf := Bf.bcryptCore
  bfSelfTest := fun _ => true
  yescrypt := fun P salt phrase => if yesKdfParamsOk P then some (Yes.kdf P salt phrase) else none
  gostOuter := Streebog.gostOuter

def exactMethods : List Method := [.md5crypt, .sha256crypt, .sha512crypt, .sunmd5, .sha1crypt, .nt, .descrypt, .bigcrypt, .bsdicrypt, .bcrypt, .bcrypt_a, .bcrypt_x, .bcrypt_y, .yescrypt, .scrypt, .gost_yescrypt]

/-- number of trailing characters of a successful result that depend on the digest -/
def digestChars (m : Method) (H : Bytes) : Nat :=
  match m with
  | .md5crypt | .sunmd5 => 22
  | .sha256crypt | .yescrypt | .gost_yescrypt | .scrypt => 43
  | .sha512crypt => 86
  | .sha1crypt => 28
  | .nt => 32
  | .descrypt | .bsdicrypt => 11
  | .bigcrypt => H.length - 2
  | .bcrypt | .bcrypt_a | .bcrypt_x | .bcrypt_y => 31

end Xc

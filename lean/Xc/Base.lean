/-
  C-level vocabulary shared by the whole model: byte strings seen as
  NUL-terminated C strings, the libc string functions the library uses
  (written from the C standard), decimal printing/parsing with the 64-bit
  `unsigned long` behaviour, errno values.
  No Mathlib; everything here is executable and links into the driver.
-/
import Xc.Method

namespace Xc

inductive Errno | EINVAL | ERANGE | ENOMEM | EIO | ENOSYS
  deriving DecidableEq, Repr, Inhabited

def Errno.name : Errno → String
  | .EINVAL => "EINVAL" | .ERANGE => "ERANGE" | .ENOMEM => "ENOMEM" | .EIO => "EIO" | .ENOSYS => "ENOSYS"

/-- `s[i]` for a NUL-terminated string whose characters are `s`: the terminator
    is at index `s.length`.  (Reads beyond it are what C04 rules out.) -/
def cat (s : Bytes) (i : Nat) : UInt8 := s.getD i 0

def ch (c : Char) : UInt8 := c.toNat.toUInt8

def str (s : String) : Bytes := s.toList.map ch

/-- `strncmp (s, p, |p|) == 0` for NUL-free `p`. -/
def hasPrefix (s p : Bytes) : Bool := p.isPrefixOf s

/-- `strcspn (s, reject)` -/
def strcspn (s reject : Bytes) : Nat := (s.takeWhile (fun c => !reject.contains c)).length

/-- `strspn (s, accept)` -/
def strspn (s accept : Bytes) : Nat := (s.takeWhile (fun c => accept.contains c)).length

/-- index of the last occurrence of `c` (`strrchr`), if any -/
def strrchr (s : Bytes) (c : UInt8) : Option Nat :=
  let rec go (l : Bytes) (i : Nat) (best : Option Nat) : Option Nat :=
    match l with
    | [] => best
    | x :: xs => go xs (i + 1) (if x == c then some i else best)
  go s 0 none

/-- index of the first occurrence of `c` (`strchr`), if any -/
def strchr (s : Bytes) (c : UInt8) : Option Nat :=
  let i := (s.takeWhile (· != c)).length
  if i < s.length then some i else none

def isDigit (c : UInt8) : Bool := 48 ≤ c && c ≤ 57

/-! ### decimal printing (`%lu`, `%u`, `%zu`) -/

def decDigitsAux : Nat → Nat → Bytes → Bytes
  | 0, _, acc => acc
  | fuel + 1, n, acc =>
    let acc' := (48 + (n % 10).toUInt8) :: acc
    if n / 10 = 0 then acc' else decDigitsAux fuel (n / 10) acc'

/-- decimal representation without leading zeros (`"0"` for zero); exact for
    every `n < 10^20`, which covers the 64-bit `unsigned long` / `size_t` range -/
def toDec (n : Nat) : Bytes := decDigitsAux 20 n []

/-! ### `strtoul (s, &end, 10)` on a 64-bit `unsigned long` -/

def ULONG_MAX : Nat := 2 ^ 64 - 1
def UINT_MAX : Nat := 2 ^ 32 - 1

structure StrtoulResult where
  value : Nat          -- the returned unsigned long
  consumed : Nat       -- end - nptr
  erange : Bool        -- errno = ERANGE was set
  deriving Repr, DecidableEq

/-- value of the maximal digit prefix, unbounded -/
def digitsValue (ds : Bytes) : Nat := ds.foldl (fun a c => a * 10 + (c.toNat - 48)) 0

/-- C `strtoul` in base 10 *without* the leading-whitespace skip: the library never
    passes whitespace to it (`check_badsalt_chars` rejects bytes ≤ 0x20 first). -/
def strtoul10 (s : Bytes) : StrtoulResult :=
  let (neg, signLen) :=
    match s with
    | 45 :: _ => (true, 1)
    | 43 :: _ => (false, 1)
    | _ => (false, 0)
  let body := s.drop signLen
  let ds := body.takeWhile isDigit
  if ds.isEmpty then { value := 0, consumed := 0, erange := false }
  else
    let v := digitsValue ds
    if v > ULONG_MAX then { value := ULONG_MAX, consumed := signLen + ds.length, erange := true }
    else { value := if neg then (2 ^ 64 - v) % 2 ^ 64 else v, consumed := signLen + ds.length, erange := false }

/-! ### passwd(5)-safety -/

/-- the characters `check_badsalt_chars` rejects -/
def isBadSaltChar (c : UInt8) : Bool :=
  c ≤ 0x20 || c ≥ 0x7f || c == 33 || c == 42 || c == 58 || c == 59 || c == 92

def passwdSafe (s : Bytes) : Bool := s.all (fun c => !isBadSaltChar c)

/-- BASE64_LEN(bytes) of crypt-port.h -/
def base64Len (n : Nat) : Nat := (n * 8 + 5) / 6

def hex (b : Bytes) : String :=
  let d (n : UInt8) : Char := if n < 10 then Char.ofNat (48 + n.toNat) else Char.ofNat (87 + n.toNat)
  String.ofList (b.flatMap fun (x : UInt8) => [d (x >>> 4), d (x &&& 15)])

def unhex (s : String) : Option Bytes :=
  let v (c : Char) : Option UInt8 :=
    if '0' ≤ c && c ≤ '9' then some (c.toNat - 48).toUInt8
    else if 'a' ≤ c && c ≤ 'f' then some (c.toNat - 87).toUInt8
    else if 'A' ≤ c && c ≤ 'F' then some (c.toNat - 55).toUInt8 else none
  let rec go : List Char → Option Bytes
    | [] => some []
    | a :: b :: rest => do
      let x ← v a; let y ← v b; let r ← go rest
      pure ((x <<< 4 ||| y) :: r)
    | _ => none
  go s.toList

end Xc

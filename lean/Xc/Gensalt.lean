/-
  The sixteen `gensalt_*_rn` writers and `crypt_gensalt_rn` / `_ra` / static,
  in the shape of the C functions (same order of checks, same early returns).

  A writer returns either the C string it leaves in `output` together with the
  *extent* of its writes (1 + highest index written; the NUL is at
  `s.length`), or an errno (nothing written; the failure token put there by
  `crypt_gensalt_rn` stays), or `abort` (an `assert` fires).
-/
import Xc.Dispatch
import Xc.Gen.Alphabets

namespace Xc

inductive WOut
  | ok (s : Bytes) (ext : Nat)
  | err (e : Errno)
  | abort
  deriving DecidableEq, Repr

/-- `ascii64[i & 0x3f]` -/
def a64 (i : Nat) : UInt8 := Gen.ascii64.getD (i % 64) 0

/-- four characters for a 24-bit value, least significant sextet first -/
def enc24 (v : Nat) : Bytes := [a64 v, a64 (v / 64), a64 (v / 4096), a64 (v / 262144)]

def rbAt (rb : Bytes) (i : Nat) : Nat := (rb.getD i 0).toNat

/-- `rb[i] | rb[i+1] << 8 | rb[i+2] << 16` -/
def le24 (rb : Bytes) (i : Nat) : Nat := rbAt rb i + rbAt rb (i + 1) * 256 + rbAt rb (i + 2) * 65536

/-! ### util-gensalt-sha.c -/

/-- the `for (ceiling = 10; ceiling <= count; ceiling *= 10)` loop: number of iterations -/
def ceilingSteps (count : Nat) : Nat :=
  let rec go : Nat → Nat → Nat → Nat
    | 0, _, acc => acc
    | fuel + 1, ceiling, acc => if ceiling ≤ count then go fuel (ceiling * 10) (acc + 1) else acc
  go 20 10 0

def shaSaltLoop (maxsalt n osize : Nat) (rb : Bytes) : Nat → Nat → Nat → Bytes
  | 0, _, _ => []
  | fuel + 1, written, used =>
    if written + 4 < osize ∧ used + 3 < n ∧ used * 4 / 3 < maxsalt then
      enc24 (le24 rb used) ++ shaSaltLoop maxsalt n osize rb fuel (written + 4) (used + 3)
    else []

/-- `count` after the three clamping statements -/
def shaClamp (defcount mincount maxcount count : Nat) : Nat :=
  let count := if count = 0 then defcount else count
  let count := if count < mincount then mincount else count
  if count > maxcount then maxcount else count

/-- the part of `gensalt_sha_rn` after the count has been clamped to `count` -/
def gensaltShaCore (tag : UInt8) (maxsalt defcount count : Nat) (rb : Bytes) (n osize : Nat) : WOut :=
  let outputLen := if count ≠ defcount then 8 + 9 + ceilingSteps count else 8
  if osize < outputLen then .err .ERANGE else
  let head : Bytes :=
    if count = defcount then [36, tag, 36]
    else [36, tag, 36] ++ /- "rounds=" -/ [114, 111, 117, 110, 100, 115, 61] ++ toDec count ++ [36]
  let written := head.length
  -- assert (written + 4 < output_size)
  if ¬ (written + 4 < osize) then .abort else
  let salt := shaSaltLoop maxsalt n osize rb (maxsalt + 1) written 0
  .ok (head ++ salt) (written + salt.length + 1)

def gensaltSha (tag : UInt8) (maxsalt defcount mincount maxcount count : Nat)
    (rb : Bytes) (n osize : Nat) : WOut :=
  if n < 4 then .err .EINVAL else
  gensaltShaCore tag maxsalt defcount (shaClamp defcount mincount maxcount count) rb n osize

/-! ### crypt-sunmd5.c -/

/-- the round count `gensalt_sunmd5_rn` prints -/
def sunmd5Count (count : Nat) (rb : Bytes) : Nat :=
  let count := if count < 32768 then 32768
               else if count > Gen.SUNMD5_MAX_ROUNDS - 65536 then Gen.SUNMD5_MAX_ROUNDS - 65536 else count
  let count := count + rbAt rb 0 * 256
  let count := count + rbAt rb 1
  if count > Gen.SUNMD5_MAX_ROUNDS - 4096 then Gen.SUNMD5_MAX_ROUNDS - 4096 else count

def gensaltSunmd5 (count : Nat) (rb : Bytes) (n osize : Nat) : WOut :=
  if osize < Gen.SUNMD5_MAX_SETTING_LEN + 1 then .err .ERANGE else
  if n < 6 + 2 then .err .EINVAL else
  let count := sunmd5Count count rb
  if count = 0 then .abort else
  let head := Gen.SUNMD5_PREFIX ++ /- ",rounds=" -/ [44, 114, 111, 117, 110, 100, 115, 61] ++ toDec count ++ [36]
  let s := head ++ enc24 (rbAt rb 2 + rbAt rb 3 * 256 + rbAt rb 4 * 65536)
                ++ enc24 (rbAt rb 5 + rbAt rb 6 * 256 + rbAt rb 7 * 65536) ++ [36]
  .ok s (head.length + 10)

/-! ### crypt-pbkdf1-sha1.c -/

def sha1SaltLoop (rb : Bytes) (rlim olim : Nat) : Nat → Nat → Nat → Bytes
  | 0, _, _ => []
  | fuel + 1, r, o =>
    if r + 3 < rlim ∧ o + 4 < olim then
      enc24 (rbAt rb r * 65536 + rbAt rb (r + 1) * 256 + rbAt rb (r + 2))
        ++ sha1SaltLoop rb rlim olim fuel (r + 3) (o + 4)
    else []

/-- `count` after the default and the two clamps of `gensalt_sha1crypt_rn` -/
def sha1Clamp (count : Nat) : Nat :=
  let count := if count = 0 then Gen.CRYPT_SHA1_ITERATIONS else count
  let count := if count < 4 then 4 else count
  if count > UINT_MAX then UINT_MAX else count

/-- the iteration count `gensalt_sha1crypt_rn` prints (`uint32_t rounds`) -/
def sha1Rounds (count : Nat) (rb : Bytes) : Nat :=
  let random := rbAt rb 0 + rbAt rb 1 * 256 + rbAt rb 2 * 65536 + rbAt rb 3 * 16777216
  (sha1Clamp count - random % (sha1Clamp count / 4)) % 2 ^ 32

def gensaltSha1 (count : Nat) (rb : Bytes) (n osize : Nat) : WOut :=
  if n < 12 + 4 then .err .EINVAL else
  if osize < (n - 4) * 4 / 3 + 9 + 10 then .err .ERANGE else
  let head := /- "$sha1$" -/ [36, 115, 104, 97, 49, 36] ++ toDec (sha1Rounds count rb) ++ [36]
  let n0 := head.length
  if ¬ (n0 ≥ 1 ∧ n0 + 2 < osize) then .abort else
  let olim := n0 + Gen.CRYPT_SHA1_SALT_LENGTH
  let olim := if olim + 2 > osize then osize - 2 else olim
  let salt := sha1SaltLoop rb n olim (Gen.CRYPT_SHA1_SALT_LENGTH + 1) 4 n0
  .ok (head ++ salt ++ [36]) (n0 + salt.length + 2)

/-- `if (!count) count = d;` -/
def dfl (count d : Nat) : Nat := if count = 0 then d else count

/-! ### crypt-bcrypt.c -/

def bf64 (i : Nat) : UInt8 := Gen.BF_itoa64.getD (i % 64) 0

/-- `BF_encode`: 3 bytes → 4 characters, most significant first; a trailing
    1 (2) byte group gives 2 (3) characters -/
def bfEncode : Bytes → Bytes
  | [] => []
  | [a] => [bf64 (a.toNat / 4), bf64 ((a.toNat % 4) * 16)]
  | [a, b] => [bf64 (a.toNat / 4), bf64 ((a.toNat % 4) * 16 + b.toNat / 16), bf64 ((b.toNat % 16) * 4)]
  | a :: b :: c :: rest =>
    [bf64 (a.toNat / 4), bf64 ((a.toNat % 4) * 16 + b.toNat / 16),
     bf64 ((b.toNat % 16) * 4 + c.toNat / 64), bf64 (c.toNat % 64)] ++ bfEncode rest

def padTo (rb : Bytes) (k : Nat) : Bytes := (List.range k).map (fun i => rb.getD i 0)

def gensaltBf (subtype : UInt8) (count : Nat) (rb : Bytes) (n osize : Nat) : WOut :=
  let count := dfl count 5
  if n < 16 ∨ count < 4 ∨ count > 31 ∨ (subtype ≠ 97 ∧ subtype ≠ 98 ∧ subtype ≠ 121) then .err .EINVAL else
  if osize < 7 + 22 + 1 then .err .ERANGE else
  let s := [36, 50, subtype, 36, (48 + count / 10).toUInt8, (48 + count % 10).toUInt8, 36]
            ++ bfEncode (padTo rb 16)
  .ok s 30

/-! ### crypt-des.c -/

def gensaltDes (count : Nat) (rb : Bytes) (n osize : Nat) : WOut :=
  if osize < 3 then .err .ERANGE else
  if n < 2 ∨ count ≠ 0 then .err .EINVAL else
  .ok [a64 (rbAt rb 0), a64 (rbAt rb 1)] 3

/-- `descryptOn` = INCLUDE_descrypt of the configuration -/
def gensaltBig (descryptOn : Bool) (count : Nat) (rb : Bytes) (n osize : Nat) : WOut :=
  if descryptOn then gensaltDes count rb n osize
  else
    if osize < 3 + 12 then .err .ERANGE else
    match gensaltDes count rb n osize with
    | .ok s _ => .ok (s ++ /- "............" -/ [46, 46, 46, 46, 46, 46, 46, 46, 46, 46, 46, 46]) osize   -- strcpy_or_abort zero-fills to output_size
    | o => o

def gensaltBsdi (count : Nat) (rb : Bytes) (n osize : Nat) : WOut :=
  if osize < 1 + 4 + 4 + 1 then .err .ERANGE else
  if n < 3 then .err .EINVAL else
  let count := if count = 0 then 725 else count
  let count := if count > 0xffffff then 0xffffff else count
  let count := if count % 2 = 0 then count + 1 else count
  .ok ([95] ++ enc24 count ++ enc24 (le24 rb 0)) 10

/-! ### crypt-nthash.c, crypt-md5.c, crypt-sha256.c, crypt-sha512.c -/

def gensaltNt (count : Nat) (osize : Nat) : WOut :=
  if osize < 3 + 1 then .err .ERANGE else
  if count ≠ 0 then .err .EINVAL else
  .ok (/- "$3$" -/ [36, 51, 36]) osize      -- strcpy_or_abort zero-fills to o_size

def gensaltMd5 (count : Nat) (rb : Bytes) (n osize : Nat) : WOut :=
  if count ≠ 0 then .err .EINVAL else
  gensaltSha 49 Gen.MD5_SALT_LEN_MAX 1000 1000 1000 1000 rb n osize

def gensaltSha256 (count : Nat) (rb : Bytes) (n osize : Nat) : WOut :=
  gensaltSha 53 Gen.SHA256_SALT_LEN_MAX Gen.SHA256_ROUNDS_DEFAULT Gen.SHA256_ROUNDS_MIN
    Gen.SHA256_ROUNDS_MAX count rb n osize

def gensaltSha512 (count : Nat) (rb : Bytes) (n osize : Nat) : WOut :=
  gensaltSha 54 Gen.SHA512_SALT_LEN_MAX Gen.SHA512_ROUNDS_DEFAULT Gen.SHA512_ROUNDS_MIN
    Gen.SHA512_ROUNDS_MAX count rb n osize

/-! ### crypt-scrypt.c, crypt-yescrypt.c, crypt-gost-yescrypt.c, alg-yescrypt-common.c -/

/-- `N2log2` -/
def n2log2 (N : Nat) : Nat :=
  if N < 2 then 0 else
  let l := Nat.log2 N
  if N = 2 ^ l then l else 0

/-- crypt-scrypt.c `encode64_uint32 (dst, dstlen, src, srcbits)`: fixed number of
    sextets, least significant first; `none` when `dstlen` runs out -/
def scryptEnc32 (dstlen : Int) (src bits : Nat) : Option Bytes :=
  let k := (bits + 5) / 6
  if dstlen < k then none else some ((List.range k).map fun i => a64 (src / 64 ^ i))

/-- sextets of a group of 1, 2 or 3 bytes (little endian), `ceil(8k/6)` characters -/
def enc64Group (g : Bytes) : Bytes :=
  let v := rbAt g 0 + rbAt g 1 * 256 + rbAt g 2 * 65536
  let k := (8 * g.length + 5) / 6
  (List.range k).map fun i => a64 (v / 64 ^ i)

/-- `encode64` (both copies): bytes → characters, 3 bytes per 4 characters -/
def encode64 : Bytes → Bytes
  | [] => []
  | [a] => enc64Group [a]
  | [a, b] => enc64Group [a, b]
  | a :: b :: c :: rest => enc64Group [a, b, c] ++ encode64 rest

/-- the assembly of `outbuf` in `gensalt_scrypt_rn`, with the C bookkeeping of `out_s`
    and its three `out_s > BASE64_LEN (..)` guards (`n` already capped at 64) -/
def scryptOutbuf (count : Nat) (rb : Bytes) (n : Nat) : Except Errno Bytes :=
  let N := 2 ^ (count + 7)
  let outS0 : Int := Gen.CRYPT_GENSALT_OUTPUT_SIZE - 4
  if ¬ (outS0 > base64Len 30) then .error .EINVAL /- unreachable: would silently keep the token -/ else
  match scryptEnc32 outS0 32 30 with
  | none => .error .ERANGE
  | some e1 =>
    let outS1 := outS0 - (4 + e1.length)
    if ¬ (outS1 > base64Len 30) then .error .EINVAL else
    match scryptEnc32 outS1 1 30 with
    | none => .error .ERANGE
    | some e2 =>
      let outS2 := outS1 - (4 + e1.length + e2.length)
      if ¬ (outS2 > base64Len n) then .error .EINVAL else
      .ok (/- "$7$" -/ [36, 55, 36] ++ [a64 (n2log2 N)] ++ e1 ++ e2 ++ encode64 (padTo rb n))

def gensaltScrypt (count : Nat) (rb : Bytes) (n osize : Nat) : WOut :=
  let n := min n 64
  let need := 3 + 1 + 5 * 2 + base64Len n + 1
  if osize < need ∨ Gen.CRYPT_GENSALT_OUTPUT_SIZE < need then .err .ERANGE else
  if (count > 0 ∧ count < 6) ∨ count > 11 ∨ n < 16 then .err .EINVAL else
  match scryptOutbuf (dfl count 7) rb n with
  | .error e => .err e
  | .ok s =>
    -- strcpy_or_abort (output, o_size, outbuf)
    if osize < s.length + 1 then .abort else .ok s osize

/-- alg-yescrypt-common.c `encode64_uint32 (dst, dstlen, src, min)`: variable-length
    encoding; `none` on `src < min`, value too large, or `dstlen <= chars` -/
def yesEnc32 (dstlen : Nat) (src min : Nat) : Option Bytes :=
  if src < min then none else
  let rec go : Nat → Nat → Nat → Nat → Nat → Nat → Option (Nat × Nat × Nat × Nat)
    | 0, _, _, _, _, _ => none
    | fuel + 1, src, start, end_, chars, bits =>
      let count := (end_ + 1 - start) * 2 ^ bits
      if src < count then some (src, start, chars, bits)
      else if start ≥ 63 then none
      else go fuel (src - count) (end_ + 1) (end_ + 1 + (62 - end_) / 2) (chars + 1) (bits + 6)
  match go 8 (src - min) 0 47 1 0 with
  | none => none
  | some (src, start, chars, bits) =>
    if dstlen ≤ chars then none else
    some (Gen.ascii64.getD (start + src / 2 ^ bits) 0 ::
          (List.range (chars - 1)).map fun i => a64 (src / 2 ^ (bits - 6 * (i + 1))))

/-- `encode64_uint32_fixed` applied groupwise = alg-yescrypt-common.c `encode64` with
    its room checks: every character needs `dstlen ≥ 2`, the final NUL `dstlen ≥ 1` -/
def yesEncode64 (dstlen : Nat) (src : Bytes) : Option Bytes :=
  let e := encode64 src
  if dstlen < e.length + 1 then none else some e

/-- `yescrypt_encode_params_r` restricted to what `gensalt_yescrypt_rn` passes
    (flags = YESCRYPT_DEFAULTS, p = 1, t = g = NROM = 0) -/
def yesEncodeParams (N r : Nat) (src : Bytes) (buflen : Nat) : Option Bytes :=
  let flags := Gen.YESCRYPT_DEFAULTS
  let flavor? : Option Nat :=
    if flags < Gen.YESCRYPT_RW then some flags
    else if flags &&& Gen.YESCRYPT_MODE_MASK = Gen.YESCRYPT_RW
            ∧ flags ≤ (Gen.YESCRYPT_RW ||| Gen.YESCRYPT_RW_FLAVOR_MASK)
      then some (Gen.YESCRYPT_RW + flags / 4) else none
  match flavor? with
  | none => none
  | some flavor =>
    let nlog := n2log2 N
    if nlog = 0 then none else
    if r * 1 ≥ 2 ^ 30 then none else
    match (do
      let p0 : Bytes := /- "$y$" -/ [36, 121, 36]
      let e1 ← yesEnc32 (buflen - p0.length) flavor 0
      let p1 := p0 ++ e1
      let e2 ← yesEnc32 (buflen - p1.length) nlog 1
      let p2 := p1 ++ e2
      let e3 ← yesEnc32 (buflen - p2.length) r 1
      let p3 := p2 ++ e3
      if p3.length ≥ buflen then none else
      let p4 := p3 ++ [36]
      let e4 ← yesEncode64 (buflen - p4.length) src
      pure (p4 ++ e4) : Option Bytes) with
    | none => none
    | some p5 => if p5.length ≥ buflen then none else some p5   -- `dst >= buf + buflen`

/-- `(r, N)` chosen by `gensalt_yescrypt_rn` for a (non-zero) cost `count` -/
def yesRN (count : Nat) : Nat × Nat :=
  if count < 3 then (8, 2 ^ (count + 9)) else (32, 2 ^ (count + 7))

def gensaltYescrypt (count : Nat) (rb : Bytes) (n osize : Nat) : WOut :=
  let n := min n 64
  let need := 3 + 8 * 6 + 1 + base64Len n + 1
  if osize < need ∨ Gen.CRYPT_GENSALT_OUTPUT_SIZE < need then .err .ERANGE else
  if count > 11 ∨ n < 16 then .err .EINVAL else
  let count := dfl count 5
  match yesEncodeParams (yesRN count).2 (yesRN count).1 (padTo rb n) osize with
  | none => .err .ERANGE
  | some s => if osize < s.length + 1 then .abort else .ok s osize

def gensaltGost (count : Nat) (rb : Bytes) (n osize : Nat) : WOut :=
  let n := min n 64
  let need := 4 + 8 * 6 + base64Len n + 1
  if osize < need ∨ Gen.CRYPT_GENSALT_OUTPUT_SIZE < need then .err .ERANGE else
  match gensaltYescrypt count rb n (osize - 1) with
  | .ok s ext => .ok ([36, 103] ++ s.drop 1) (max ext (s.length + 2))
  | o => o

/-! ### dispatch -/

def gensaltMethod (descryptOn : Bool) (m : Method) (count : Nat) (rb : Bytes) (n osize : Nat) : WOut :=
  match m with
  | .yescrypt => gensaltYescrypt count rb n osize
  | .gost_yescrypt => gensaltGost count rb n osize
  | .scrypt => gensaltScrypt count rb n osize
  | .bcrypt => gensaltBf 98 count rb n osize
  | .bcrypt_y => gensaltBf 121 count rb n osize
  | .bcrypt_a => gensaltBf 97 count rb n osize
  | .bcrypt_x => .err .EINVAL
  | .sha512crypt => gensaltSha512 count rb n osize
  | .sha256crypt => gensaltSha256 count rb n osize
  | .sha1crypt => gensaltSha1 count rb n osize
  | .sunmd5 => gensaltSunmd5 count rb n osize
  | .md5crypt => gensaltMd5 count rb n osize
  | .nt => gensaltNt count osize
  | .bsdicrypt => gensaltBsdi count rb n osize
  | .bigcrypt => gensaltBig descryptOn count rb n osize
  | .descrypt => gensaltDes count rb n osize

/-- Observable result of `crypt_gensalt_rn`. `buf` is the C string left in the
    output buffer (`none`: buffer untouched); `ext` bounds every index written. -/
structure GRes where
  ret : Option Bytes        -- returned string (none = NULL)
  errno : Option Errno      -- errno set by the call (none on success)
  buf : Option Bytes
  ext : Nat
  aborted : Bool := false
  deriving DecidableEq, Repr

structure Config where
  table : List HashEntry
  dflt : Option Bytes
  descryptOn : Bool

def Config.tree : Config :=
  { table := Gen.table, dflt := Gen.defaultPrefix, descryptOn := Gen.enabled.contains .descrypt }

/-- `if (!prefix) prefix = HASH_ALGORITHM_DEFAULT` (or EINVAL when there is none) -/
def resolvePrefix (cfg : Config) (pfx : Option Bytes) : Option Bytes :=
  match pfx with | some p => some p | none => cfg.dflt

/-- the `(rbytes, (size_t) nrbytes)` pair handed to the writer -/
def rbArgs (h : HashEntry) (rbytes : Option Bytes) (nrbytes : Int) (os : Nat → Bytes) : Bytes × Nat :=
  match rbytes with
  | some rb => (rb, if nrbytes < 0 then (2 ^ 64 - nrbytes.natAbs) else nrbytes.toNat)
  | none => (os h.nrbytes, h.nrbytes)

def GRes.fail (osize : Int) (e : Errno) : GRes :=
  { ret := none, errno := some e, buf := failureToken (some []) osize, ext := failureTokenExtent osize }

/-- `crypt_gensalt_rn (prefix, count, rbytes, nrbytes, output, output_size)`.
    `rbytes = none` is the NULL pointer; then `os` supplies the bytes that
    `get_random_bytes` returns (the OS CSPRNG is a parameter of the model).
    With `rbytes = some rb`, `nrbytes` is the caller's count (`rb` holds at least
    that many bytes; a negative count is converted like the C cast). -/
def gensaltRn (cfg : Config) (pfx : Option Bytes) (count : Nat) (rbytes : Option Bytes)
    (nrbytes : Int) (osize : Int) (os : Nat → Bytes := fun k => List.replicate k 0) : GRes :=
  if osize < 3 then GRes.fail osize .ERANGE else
  match resolvePrefix cfg pfx with
  | none => GRes.fail osize .EINVAL
  | some p =>
    match getHashFn cfg.table p with
    | none => GRes.fail osize .EINVAL
    | some h =>
      match gensaltMethod cfg.descryptOn h.gensalt count (rbArgs h rbytes nrbytes os).1
              (rbArgs h rbytes nrbytes os).2 osize.toNat with
      | .ok s ext => { ret := some s, errno := none, buf := some s, ext := max (failureTokenExtent osize) ext }
      | .err e => GRes.fail osize e
      | .abort => { GRes.fail osize .EINVAL with errno := none, aborted := true }

/-- `crypt_gensalt_ra`: malloc (CRYPT_GENSALT_OUTPUT_SIZE) then `_rn`; the block is
    freed when the result is NULL. `mallocOk = false` models allocation failure. -/
def gensaltRa (cfg : Config) (pfx : Option Bytes) (count : Nat) (rbytes : Option Bytes)
    (nrbytes : Int) (mallocOk : Bool := true) (os : Nat → Bytes := fun k => List.replicate k 0) : GRes :=
  if !mallocOk then { ret := none, errno := some .ENOMEM, buf := none, ext := 0 }
  else gensaltRn cfg pfx count rbytes nrbytes Gen.CRYPT_GENSALT_OUTPUT_SIZE os

/-- `crypt_gensalt` (static buffer of CRYPT_GENSALT_OUTPUT_SIZE bytes) -/
def gensaltStatic (cfg : Config) (pfx : Option Bytes) (count : Nat) (rbytes : Option Bytes)
    (nrbytes : Int) (os : Nat → Bytes := fun k => List.replicate k 0) : GRes :=
  gensaltRn cfg pfx count rbytes nrbytes Gen.CRYPT_GENSALT_OUTPUT_SIZE os

end Xc

/-
  C14 — crypt_ra and crypt_gensalt_ra keep the caller's allocation protocol sound.
  The heap is abstract; the allocator's answer to each request is an arbitrary parameter, so the
  statements hold for every failure pattern and, by induction, for every history of calls.
-/
import Xc.Heap
import Xc.Thm.C05

namespace Xc.C14
open Xc

/-- the caller's side of the contract: `*data` is NULL or a live block whose real size is at least the
    recorded `*size` whenever that is positive -/
def PairOk (h : Heap) (p : RaPair) : Prop :=
  match p.data with
  | none => True
  | some i => ∃ b, h.get i = some b ∧ b.live = true ∧ (0 < p.size → (p.size.toNat ≤ b.size))

/-- what the library guarantees after a call: `*data` unchanged, or a live block of at least
    `*size ≥ sizeof (struct crypt_data)` bytes -/
def PairGood (h : Heap) (p : RaPair) : Prop :=
  match p.data with
  | none => True
  | some i => ∃ b, h.get i = some b ∧ b.live = true ∧ (Gen.sizeof_crypt_data : Int) ≤ p.size ∧ p.size.toNat ≤ b.size

theorem get_set_same (h : Heap) (i : Nat) (b b' : HBlock) (hg : h.get i = some b) : (h.set i b').get i = some b' := by
  unfold Heap.get Heap.set at *
  have : i < h.blocks.length := by
    rcases Nat.lt_or_ge i h.blocks.length with hh | hh
    · exact hh
    · simp [List.getElem?_eq_none hh] at hg
  simp [this]

theorem get_alloc_new (h : Heap) (b : HBlock) : (h.alloc b).1.get (h.alloc b).2 = some b := by
  simp [Heap.alloc, Heap.get]

/-- **one call, any prior pair, any allocator answer**:
    * result non-NULL ⇒ `*data` is a live block of ≥ `*size` ≥ sizeof bytes (the result is its `output` field, offset 0);
    * allocation failure ⇒ NULL, ENOMEM, pair untouched;
    * no growth needed ⇒ no allocator request, pair untouched. -/
theorem C14_step (cfg : Config) (D : Digests) (ph st : Option Bytes) (h : Heap) (p : RaPair) (obj : DataObj) (ok : Bool)
    (hp : PairOk h p) :
    let r := cryptRa cfg D ph st h p obj ok
    (r.2.2.2.grew = false → r.2.1 = p ∧ r.1 = h ∧ r.2.2.2.requests = 0) ∧
    (r.2.2.2.grew = true ∧ ok = false → r.2.1 = p ∧ r.2.2.2.ret = none ∧ r.2.2.2.errno = some .ENOMEM) ∧
    (r.2.2.2.grew = true ∧ ok = true → PairGood r.1 r.2.1 ∧ r.2.1.size = Gen.sizeof_crypt_data) ∧
    r.2.2.2.requests ≤ 1 := by
  intro r
  simp only [r, cryptRa]
  by_cases hc : p.data.isNone = true ∨ p.size < 0 ∨ p.size < (Gen.sizeof_crypt_data : Int)
  · rw [if_pos hc]
    cases ok with
    | false => simp
    | true =>
      simp only [Bool.not_true, Bool.false_eq_true, if_false]
      refine ⟨by simp, by simp, ?_, by simp⟩
      intro _
      refine ⟨?_, by simp⟩
      simp only [PairGood]
      exact ⟨_, get_set_same _ _ _ _ (get_alloc_new _ _), rfl, by simp, by simp⟩
  · rw [if_neg hc]
    simp

/-- when a block has to grow and the recorded size is positive and truthful, every byte of it has been
    erased before it is handed to realloc -/
theorem C14_erased_before_realloc (cfg : Config) (D : Digests) (ph st : Option Bytes) (h : Heap) (i : Nat) (b : HBlock) (size : Int)
    (obj : DataObj) (ok : Bool) (hb : h.get i = some b) (hs : 0 < size) (hlt : size < (Gen.sizeof_crypt_data : Int))
    (hexact : b.size ≤ size.toNat) :
    (cryptRa cfg D ph st h { data := some i, size := size } obj ok).2.2.2.oldErased = true := by
  have hc : (some i).isNone = true ∨ size < 0 ∨ size < (Gen.sizeof_crypt_data : Int) := Or.inr (Or.inr hlt)
  simp only [cryptRa, hc, if_true, hb, hs, hexact, decide_true, Bool.or_true]
  cases ok <;> simp

/-- the new block is zero-initialised before use: the hashing call sees a fresh all-zero object, so the
    result is the pure answer (C07) whatever the old block held -/
theorem C14_fresh_object (cfg : Config) (D : Digests) (hD : D.WF) (ph st : Option Bytes) (h : Heap) (p : RaPair) (obj : DataObj)
    (hc : p.data.isNone = true ∨ p.size < 0 ∨ p.size < (Gen.sizeof_crypt_data : Int)) (H : Bytes)
    (ha : cryptAnswer cfg D ph st = .ok H) :
    (cryptRa cfg D ph st h p obj true).2.2.2.ret = some H := by
  simp only [cryptRa, hc, if_true, Bool.not_true, Bool.false_eq_true, if_false]
  exact (C05.C05_r_ok cfg D ph st _ false H ha hD).1

/-- crypt_gensalt_ra: NULL with nothing allocated, or a block the caller frees -/
theorem C14_gensalt_ra (cfg : Config) (pfx : Option Bytes) (count : Nat) (rb : Option Bytes) (nrb : Int) (os : Nat → Bytes) :
    (gensaltRa cfg pfx count rb nrb false os).ret = none ∧ (gensaltRa cfg pfx count rb nrb false os).errno = some .ENOMEM := by
  simp [gensaltRa]

end Xc.C14

/-
  C02 — hashes equal the published algorithms.
  For the digest-based methods the model follows the C code call by call (Init / Update / Final on a
  streaming context, `*_recycled` helpers); the published constructions are stated over one-shot digests
  of concatenated messages (Xc/Spec/Crypts.lean).  Theorems: the two are the same function, for every
  phrase, salt and round count.  (Streaming = one-shot is C16.)
-/
import Xc.Spec.Crypts
import Xc.Thm.C16
namespace Xc.C02
open Xc MD

theorem digestOf_eq {σ} (A : Alg σ) (hb : 0 < A.block) (chunks : List Bytes) :
    Cores.digestOf A chunks = hash A chunks.flatten := by
  unfold Cores.digestOf; exact streaming_eq_hash A hb chunks

/-- NT = MD4 (UCS-2LE phrase) -/
theorem C02_nt (pw : Bytes) : Cores.ntCore pw = Spec.nt pw := by
  simp [Cores.ntCore, Spec.nt, digestOf_eq Md4.alg (by decide), Md4.hash]

/-- HMAC-SHA1 as called by sha1crypt = RFC 2104 -/
theorem hmacSha1_eq (key text : Bytes) : Cores.hmacSha1 key text = Spec.hmac Sha1.hash 64 key text := by
  rw [C16.C16_hmac_sha1]; rfl

/-- sha1crypt = the published HMAC chain -/
theorem C02_sha1crypt (pw salt : Bytes) (iterations : Nat) : Cores.sha1cryptCore pw salt iterations = Spec.sha1crypt pw salt iterations := by
  simp only [Cores.sha1cryptCore, Spec.sha1crypt, hmacSha1_eq]

/-- SunMD5 = the published round structure -/
theorem C02_sunmd5 (pw pre : Bytes) (n : Nat) : Cores.sunmd5Core pw pre n = Spec.sunmd5 pw pre n := by
  simp only [Cores.sunmd5Core, Spec.sunmd5, digestOf_eq Md5.alg (by decide), Md5.hash]
  congr 1
  · funext dg i
    split <;> simp
  · simp

theorem md5_alt_flatten (alt : Bytes) : ∀ fuel cnt,
    (Cores.md5cryptCore.altChunks alt fuel cnt).flatten = Spec.md5crypt.altBytes alt fuel cnt := by
  intro fuel
  induction fuel with
  | zero => intro cnt; rfl
  | succ f ih =>
    intro cnt
    simp only [Cores.md5cryptCore.altChunks, Spec.md5crypt.altBytes]
    split
    · simp [ih]
    · simp

theorem md5_bit_flatten (pw : Bytes) : ∀ fuel cnt,
    (Cores.md5cryptCore.bitChunks pw fuel cnt).flatten = Spec.md5crypt.bitBytes pw fuel cnt := by
  intro fuel
  induction fuel with
  | zero => intro cnt; rfl
  | succ f ih =>
    intro cnt
    simp only [Cores.md5cryptCore.bitChunks, Spec.md5crypt.bitBytes]
    split
    · simp [ih]
    · simp

/-- md5crypt = PHK's algorithm over one-shot MD5 -/
theorem C02_md5crypt (pw salt : Bytes) : Cores.md5cryptCore pw salt = Spec.md5crypt pw salt := by
  simp only [Cores.md5cryptCore, Spec.md5crypt, digestOf_eq Md5.alg (by decide), Md5.hash]
  congr 1
  · funext r i
    congr 1
    split <;> split <;> split <;> simp
  · simp [md5_alt_flatten, md5_bit_flatten]

theorem sha_alt_flatten (alt : Bytes) (hlen : Nat) : ∀ fuel cnt,
    (Cores.shaCryptCore.altChunks hlen alt fuel cnt).flatten = Spec.shaCrypt.altBytes hlen alt fuel cnt := by
  intro fuel
  induction fuel with
  | zero => intro cnt; rfl
  | succ f ih =>
    intro cnt
    simp only [Cores.shaCryptCore.altChunks, Spec.shaCrypt.altBytes]
    split
    · simp [ih]
    · simp

theorem sha_bit_flatten (pw alt : Bytes) : ∀ fuel cnt,
    (Cores.shaCryptCore.bitChunks pw alt fuel cnt).flatten = Spec.shaCrypt.bitBytes pw alt fuel cnt := by
  intro fuel
  induction fuel with
  | zero => intro cnt; rfl
  | succ f ih =>
    intro cnt
    simp only [Cores.shaCryptCore.bitChunks, Spec.shaCrypt.bitBytes]
    split
    · simp [ih]
    · simp

theorem recycled_flatten (block : Bytes) (hlen len : Nat) :
    (Cores.recycled block hlen len).flatten = Spec.repeatTo block hlen len := by
  simp [Cores.recycled, Spec.repeatTo]

/-- sha256crypt / sha512crypt = Drepper's specification over the one-shot hash (any MD algorithm, any digest length) -/
theorem C02_shacrypt {σ} (A : Alg σ) (hb : 0 < A.block) (hlen : Nat) (pw salt : Bytes) (rounds : Nat) :
    Cores.shaCryptCore A hlen pw salt rounds = Spec.shaCrypt (hash A) hlen pw salt rounds := by
  simp only [Cores.shaCryptCore, Spec.shaCrypt, digestOf_eq A hb, List.flatten_append, List.flatten_cons, List.flatten_nil,
    List.append_nil, sha_alt_flatten, sha_bit_flatten, List.append_assoc]
  congr 1
  funext r i
  congr 1
  split <;> split <;> split <;> simp [recycled_flatten]

theorem C02_sha256crypt (pw salt : Bytes) (rounds : Nat) : Cores.sha256cryptCore pw salt rounds = Spec.sha256crypt pw salt rounds :=
  C02_shacrypt Sha256.alg (by decide) 32 pw salt rounds

theorem C02_sha512crypt (pw salt : Bytes) (rounds : Nat) : Cores.sha512cryptCore pw salt rounds = Spec.sha512crypt pw salt rounds :=
  C02_shacrypt Sha512.alg (by decide) 64 pw salt rounds

end Xc.C02

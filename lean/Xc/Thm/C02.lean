import Xc.Thm.C16
namespace Xc.C02
theorem placeholder : True := trivial
end Xc.C02

/-
  C05 — failures are fail-closed: NULL or '*' token, never a usable or stale hash.
  All statements quantify over an ARBITRARY prior object state `d` (fresh, holding a
  previous success, a previous failure, or garbage), any configuration, any digests.
-/
import Xc.Lemmas.Api

namespace Xc.C05
open Xc

/-! ### which requests fail (the pure answer) -/

theorem C05_reject_null (cfg : Config) (D : Digests) (x : Option Bytes) :
    cryptAnswer cfg D none x = .error .EINVAL ∧ cryptAnswer cfg D x none = .error .EINVAL := by
  cases x <;> simp [cryptAnswer]

theorem C05_reject_long (cfg : Config) (D : Digests) (p s : Bytes) (h : Gen.CRYPT_MAX_PASSPHRASE_SIZE ≤ p.length) :
    cryptAnswer cfg D (some p) (some s) = .error .ERANGE := by
  simp [cryptAnswer, cryptPure, h]

/-- a byte that is not printable ASCII, or one of `: ; * ! \`, anywhere in the setting -/
theorem C05_reject_chars (cfg : Config) (D : Digests) (p s : Bytes) (hp : p.length < Gen.CRYPT_MAX_PASSPHRASE_SIZE)
    (c : UInt8) (hc : c ∈ s) (hbad : c ≤ 0x20 ∨ c ≥ 0x7f ∨ c = 33 ∨ c = 42 ∨ c = 58 ∨ c = 59 ∨ c = 92) :
    cryptAnswer cfg D (some p) (some s) = .error .EINVAL := by
  have hb : isBadSaltChar c = true := by
    simp only [isBadSaltChar, Bool.or_eq_true, decide_eq_true_eq, beq_iff_eq]
    rcases hbad with h | h | h | h | h | h | h <;> simp [h]
  have : checkBadSaltChars s = true := by
    simp only [checkBadSaltChars, List.any_eq_true]; exact ⟨c, hc, hb⟩
  have hp' : ¬ p.length ≥ Gen.CRYPT_MAX_PASSPHRASE_SIZE := by omega
  simp [cryptAnswer, cryptPure, this, hp']

theorem C05_reject_unknown (cfg : Config) (D : Digests) (p s : Bytes) (h : getHashFn cfg.table s = none) :
    ∃ e, cryptAnswer cfg D (some p) (some s) = .error e := by
  simp only [cryptAnswer, cryptPure, h]
  split; · exact ⟨_, rfl⟩
  split <;> exact ⟨_, rfl⟩

/-- every failing request fails with EINVAL or ERANGE -/
theorem C05_errno (cfg : Config) (D : Digests) (ph st : Option Bytes) (e : Errno)
    (h : cryptAnswer cfg D ph st = .error e) : e = .EINVAL ∨ e = .ERANGE := cryptAnswer_err h

/-! ### what the entry points return and leave behind -/

/-- crypt_rn with a full-size object, request succeeds: returns the hash, which is what `output` holds -/
theorem C05_rn_ok (cfg : Config) (D : Digests) (ph st : Option Bytes) (d : DataObj) (size : Int)
    (hsz : (Gen.sizeof_crypt_data : Int) ≤ size) (H : Bytes) (h : cryptAnswer cfg D ph st = .ok H) (hD : D.WF) :
    (cryptRn cfg D ph st d size).2.ret = some H ∧ (cryptRn cfg D ph st d size).2.errno = none ∧
    (cryptRn cfg D ph st d size).1.out = some H := by
  have hv := cryptAnswer_ok_validated h
  obtain ⟨c, rest, rfl, hc⟩ := goodHash_nostar (cryptAnswer_ok_good hD h)
  have h1 : ¬ (size < 0 ∨ size < (Gen.sizeof_crypt_data : Int)) := by omega
  simp only [cryptRn, h1, if_false, doCrypt_eq, h, hv, if_true, mkObs]
  split <;> simp_all

/-- crypt_rn, request fails (any reason, any prior state): NULL, errno of the pure answer,
    and `output` holds exactly the failure token — never an earlier hash -/
theorem C05_rn_fail (cfg : Config) (D : Digests) (ph st : Option Bytes) (d : DataObj) (size : Int)
    (hsz : (Gen.sizeof_crypt_data : Int) ≤ size) (e : Errno) (h : cryptAnswer cfg D ph st = .error e) :
    (cryptRn cfg D ph st d size).2.ret = none ∧ (cryptRn cfg D ph st d size).2.errno = some e ∧
    (cryptRn cfg D ph st d size).1.out = failureToken st Gen.CRYPT_OUTPUT_SIZE := by
  have h1 : ¬ (size < 0 ∨ size < (Gen.sizeof_crypt_data : Int)) := by omega
  have hmin : min size (Gen.CRYPT_OUTPUT_SIZE : Int) = Gen.CRYPT_OUTPUT_SIZE := by
    have : (Gen.CRYPT_OUTPUT_SIZE : Int) ≤ Gen.sizeof_crypt_data := by decide
    omega
  obtain ⟨c, htok, _⟩ := failureToken_big st Gen.CRYPT_OUTPUT_SIZE (by decide)
  simp only [cryptRn, h1, if_false, doCrypt_eq, h, hmin, htok, mkObs]
  simp

/-- crypt_rn with a too-small or negative size: ERANGE, NULL, and only the token that fits is written -/
theorem C05_rn_small (cfg : Config) (D : Digests) (ph st : Option Bytes) (d : DataObj) (size : Int)
    (hsz : size < (Gen.sizeof_crypt_data : Int)) :
    (cryptRn cfg D ph st d size).2.ret = none ∧ (cryptRn cfg D ph st d size).2.errno = some .ERANGE ∧
    (cryptRn cfg D ph st d size).1.out =
      (match failureToken st (min size Gen.CRYPT_OUTPUT_SIZE) with | some t => some t | none => d.out) := by
  have h1 : (size < 0 ∨ size < (Gen.sizeof_crypt_data : Int)) := Or.inr hsz
  simp only [cryptRn, h1, if_true]
  split <;> rename_i heq <;> simp [heq]

/-- crypt_r returns the token (failure tokens enabled) exactly when crypt_rn returns NULL -/
theorem C05_r_fail (cfg : Config) (D : Digests) (ph st : Option Bytes) (d : DataObj) (tokens : Bool) (e : Errno)
    (h : cryptAnswer cfg D ph st = .error e) :
    (cryptR cfg D tokens ph st d).1.out = failureToken st Gen.CRYPT_OUTPUT_SIZE ∧
    (cryptR cfg D tokens ph st d).2.errno = some e ∧
    (cryptR cfg D tokens ph st d).2.ret = (if tokens then failureToken st Gen.CRYPT_OUTPUT_SIZE else none) := by
  obtain ⟨c, htok, _⟩ := failureToken_big st Gen.CRYPT_OUTPUT_SIZE (by decide)
  simp only [cryptR, doCrypt_eq, h, htok, mkObs]
  cases tokens <;> simp

theorem C05_r_ok (cfg : Config) (D : Digests) (ph st : Option Bytes) (d : DataObj) (tokens : Bool) (H : Bytes)
    (h : cryptAnswer cfg D ph st = .ok H) (hD : D.WF) :
    (cryptR cfg D tokens ph st d).2.ret = some H ∧ (cryptR cfg D tokens ph st d).1.out = some H ∧
    (cryptR cfg D tokens ph st d).2.errno = none := by
  have hv := cryptAnswer_ok_validated h
  obtain ⟨c, rest, rfl, hc⟩ := goodHash_nostar (cryptAnswer_ok_good hD h)
  obtain ⟨c', htok, _⟩ := failureToken_big st Gen.CRYPT_OUTPUT_SIZE (by decide)
  simp only [cryptR, doCrypt_eq, h, hv, if_true, htok, mkObs]
  cases tokens <;> (split <;> simp_all)

/-! ### the token itself -/

/-- for sizes ≥ 3 the token is "*0" or "*1": starts with '*', shorter than 13 characters,
    differs from the setting, and is itself rejected as a setting by every entry point -/
theorem C05_token (cfg : Config) (D : Digests) (st : Option Bytes) (size : Int) (h3 : 3 ≤ size) :
    ∃ t, failureToken st size = some t ∧ t.length = 2 ∧ t.head? = some 42 ∧ st ≠ some t ∧
      (∀ p, ∃ e, cryptAnswer cfg D (some p) (some t) = .error e) ∧ checksalt cfg.table (some t) = .invalid := by
  unfold failureToken
  rw [if_pos (by omega)]
  have rej : ∀ (t : Bytes), t = [42, 48] ∨ t = [42, 49] →
      (∀ p, ∃ e, cryptAnswer cfg D (some p) (some t) = .error e) ∧ checksalt cfg.table (some t) = .invalid := by
    intro t ht
    have hb : checkBadSaltChars t = true := by rcases ht with rfl | rfl <;> decide
    have hne : t ≠ [] := by rcases ht with rfl | rfl <;> simp
    refine ⟨fun p => ?_, by simp [checksalt, hb, hne]⟩
    simp only [cryptAnswer, cryptPure, hb, if_true]
    split <;> exact ⟨_, rfl⟩
  cases st with
  | none => exact ⟨[42, 48], rfl, rfl, rfl, by simp, rej _ (Or.inl rfl)⟩
  | some s =>
    simp only []
    split
    · rename_i hs
      refine ⟨[42, 49], rfl, rfl, rfl, ?_, rej _ (Or.inr rfl)⟩
      intro heq; simp only [Option.some.injEq] at heq; subst heq
      simp [cat] at hs
    · rename_i hs
      refine ⟨[42, 48], rfl, rfl, rfl, ?_, rej _ (Or.inl rfl)⟩
      intro heq; simp only [Option.some.injEq] at heq; subst heq
      simp [cat] at hs

/-- truncated tokens for sizes 2, 1 and nothing at all for sizes ≤ 0 -/
theorem C05_token_small (st : Option Bytes) :
    failureToken st 2 = some [42] ∧ failureToken st 1 = some [] ∧ ∀ n : Int, n ≤ 0 → failureToken st n = none := by
  refine ⟨by simp [failureToken], by simp [failureToken], ?_⟩
  intro n hn; unfold failureToken
  rw [if_neg (by omega), if_neg (by omega), if_neg (by omega)]

/-- **no stale hash**: whatever the object held before (in particular the hash of an earlier call),
    after a failing call `output` does not hold any well-formed hash -/
theorem C05_no_stale (cfg : Config) (D : Digests) (ph st : Option Bytes) (d : DataObj) (size : Int)
    (hsz : (Gen.sizeof_crypt_data : Int) ≤ size) (e : Errno) (h : cryptAnswer cfg D ph st = .error e)
    (Hold : Bytes) (hold : goodHash Hold) :
    (cryptRn cfg D ph st d size).1.out ≠ some Hold ∧ (cryptR cfg D true ph st d).1.out ≠ some Hold ∧
    (cryptR cfg D true ph st d).2.ret ≠ some Hold := by
  obtain ⟨c, htok, _⟩ := failureToken_big st Gen.CRYPT_OUTPUT_SIZE (by decide)
  obtain ⟨c', rest, rfl, hc'⟩ := goodHash_nostar hold
  have e1 := (C05_rn_fail cfg D ph st d size hsz e h).2.2
  have e2 := C05_r_fail cfg D ph st d true e h
  rw [e1, e2.1, e2.2.2, htok]
  simp only [if_true, ne_eq, Option.some.injEq, List.cons.injEq, not_and]
  exact ⟨fun h => absurd h.symm hc', fun h => absurd h.symm hc', fun h => absurd h.symm hc'⟩

/-! Non-vacuity -/
example : failureToken (some [42, 48, 120]) 384 = some [42, 49] := by decide
example : failureToken (some [36, 49, 36]) 384 = some [42, 48] := by decide
example : checkBadSaltChars [36, 54, 36, 58] = true := by decide

end Xc.C05

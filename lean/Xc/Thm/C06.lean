/-
  C06 — successful hashes are well-formed passwd(5)-safe strings of the method's shape.
-/
import Xc.Lemmas.Api
import Xc.Thm.C01
namespace Xc.C06
open Xc

/-- **generic clause**, every method, every configuration, any digests of the right lengths:
    a successful result is NUL-free printable ASCII without `: ; * ! \` and whitespace,
    non-empty, shorter than CRYPT_OUTPUT_SIZE, and does not begin with '*' -/
theorem C06_safe (cfg : Config) (D : Digests) (hD : D.WF) (ph st : Option Bytes) (H : Bytes)
    (h : cryptAnswer cfg D ph st = .ok H) :
    (∀ c ∈ H, 0x21 ≤ c ∧ c ≤ 0x7e ∧ c ≠ 58 ∧ c ≠ 59 ∧ c ≠ 42 ∧ c ≠ 33 ∧ c ≠ 92) ∧
    0 < H.length ∧ H.length < Gen.CRYPT_OUTPUT_SIZE ∧ H.head? ≠ some 42 := by
  have hg := cryptAnswer_ok_good hD h
  obtain ⟨c0, rest, rfl, hc0⟩ := goodHash_nostar hg
  obtain ⟨hs, hl, hlt⟩ := hg
  refine ⟨?_, hl, hlt, by simpa using hc0⟩
  intro c hc
  have := (passwdSafe_iff _).mp hs c hc
  simp only [isBadSaltChar, Bool.or_eq_false_iff, decide_eq_false_iff_not, beq_eq_false_iff_ne, ne_eq] at this
  obtain ⟨⟨⟨⟨⟨⟨h1, h2⟩, h3⟩, h4⟩, h5⟩, h6⟩, h7⟩ := this
  have h1' : ¬ c.toNat ≤ 0x20 := fun hh => h1 (UInt8.le_iff_toNat_le.mpr hh)
  have h2' : ¬ 0x7f ≤ c.toNat := fun hh => h2 (UInt8.le_iff_toNat_le.mpr hh)
  refine ⟨UInt8.le_iff_toNat_le.mpr (by simp; omega), UInt8.le_iff_toNat_le.mpr (by simp; omega), h5, h6, h4, h3, h7⟩

/-- the three hash alphabets are passwd-safe: the digest-dependent part of a hash can never
    introduce a delimiter -/
theorem C06_alphabets :
    (∀ k : Fin 64, isBadSaltChar (Gen.ascii64.getD k.val 0) = false) ∧
    (∀ k : Fin 64, isBadSaltChar (Gen.BF_itoa64.getD k.val 0) = false) ∧
    (∀ k : Fin 16, isBadSaltChar (hexDigit k.val) = false) := by
  refine ⟨ascii64_all_safe, bf64_all_safe, by decide⟩

/-- fixed digest lengths (characters): the schedules generated from the tree emit exactly
    22 / 43 / 86 / 22 characters, sha1crypt 28, NT 32 hex digits, DES 11, bcrypt 31, yescrypt family 43 -/
theorem C06_digest_lengths (D : Digests) (hD : D.WF) :
    (∀ d, (permEncode Gen.perm_md5crypt d).length = 22) ∧ (∀ d, (permEncode Gen.perm_sha256crypt d).length = 43) ∧
    (∀ d, (permEncode Gen.perm_sha512crypt d).length = 86) ∧ (∀ d, (permEncode Gen.perm_sunmd5 d).length = 22) ∧
    (∀ d, (sha1Encode d).length = 28) ∧ (∀ p, (hexLower (D.nt p)).length = 32) ∧
    (∀ k s c, (desEncode (D.desHash k s c)).length = 11) ∧ (∀ f c s p, (bfEncode (D.bf f c s p)).length = 31) ∧
    (∀ P s p h, D.yescrypt P s p = some h → (encode64 h).length = 43) := by
  refine ⟨fun d => ?_, fun d => ?_, fun d => ?_, fun d => ?_, sha1Encode_length, fun p => ?_, fun k s c => ?_, fun f c s p => ?_, fun P s p h hh => ?_⟩
  · rw [permEncode_length]; decide
  · rw [permEncode_length]; decide
  · rw [permEncode_length]; decide
  · rw [permEncode_length]; decide
  · rw [hexLower_length, hD.nt]
  · exact desEncode_length8 _ (hD.des k s c)
  · exact bfEncode_length23 _ (hD.bf f c s p)
  · rw [encode64_length, hD.yes P s p h hh]; decide

/-- descrypt results are exactly 13 characters; bcrypt results exactly 60 -/
theorem C06_des_13 (D : Digests) (hD : D.WF) (p s H : Bytes) (h : cryptDes D p s = .ok H) : H.length = 13 :=
  (cryptDes_good hD h).2

/-- **the result selects the same method as the setting**, as a setting and as a gensalt prefix: it is dispatched to the same row
    of the table (so it begins with the same method prefix), hashing with it reproduces it, and `crypt_gensalt*` given the
    result as its prefix argument behaves exactly as with the original setting — every configuration whose table is `TableOk` -/
theorem C06_same_method (cfg : Config) (hT : C18.TableOk cfg.table = true) (D : Digests) (hD : D.WF) (p s H : Bytes)
    (h : cryptPure cfg D p s = .ok H) :
    getHashFn cfg.table H = getHashFn cfg.table s ∧ cryptPure cfg D p H = .ok H ∧
    ∀ (count : Nat) (rb : Option Bytes) (nrb osize : Int) (os : Nat → Bytes),
      gensaltRn cfg (some H) count rb nrb osize os = gensaltRn cfg (some s) count rb nrb osize os := by
  obtain ⟨h1, h2⟩ := C01.C01_roundtrip_row cfg hT D hD p s H h
  refine ⟨h2, h1, fun count rb nrb osize os => ?_⟩
  simp [gensaltRn, resolvePrefix, h2]

end Xc.C06

/-
  C11 — crypt_gensalt encodes the documented cost for every count.
-/
import Xc.Lemmas.Gensalt
import Xc.Lemmas.Accept2
namespace Xc.C11
open Xc

/-- fixed-cost methods accept only count 0 -/
theorem C11_fixed (count : Nat) (rb : Bytes) (n osize : Nat) (h : count ≠ 0) :
    gensaltMd5 count rb n osize = .err .EINVAL ∧
    (3 + 1 ≤ osize → gensaltNt count osize = .err .EINVAL) ∧
    (3 ≤ osize → gensaltDes count rb n osize = .err .EINVAL) := by
  refine ⟨by simp [gensaltMd5, h], fun ho => ?_, fun ho => ?_⟩
  · unfold gensaltNt; rw [if_neg (by omega), if_pos h]
  · unfold gensaltDes; rw [if_neg (by omega), if_pos (Or.inr h)]

/-- `$2x$` never generates a setting -/
theorem C11_bcrypt_x (d : Bool) (count : Nat) (rb : Bytes) (n osize : Nat) :
    gensaltMethod d .bcrypt_x count rb n osize = .err .EINVAL := rfl

/-- logarithmic-cost methods reject out-of-range counts with EINVAL (whenever the buffer is large enough
    for the size test that precedes it in scrypt/yescrypt) -/
theorem C11_log_reject_bcrypt (sub : UInt8) (count : Nat) (rb : Bytes) (n osize : Nat)
    (h : (count ≠ 0 ∧ count < 4) ∨ 31 < count) : gensaltBf sub count rb n osize = .err .EINVAL := by
  unfold gensaltBf dfl
  simp only []
  rw [if_pos]
  rcases h with ⟨h0, h4⟩ | h
  · simp [h0]; omega
  · have : count ≠ 0 := by omega
    simp [this]; omega

/-- sha256crypt/sha512crypt/md5crypt: the count that reaches the writer is the documented clamp -/
theorem C11_sha_clamp (count : Nat) :
    shaClamp 5000 1000 999999999 count = (if count = 0 then 5000 else if count < 1000 then 1000 else if count > 999999999 then 999999999 else count) := by
  unfold shaClamp; simp only []
  repeat' split
  all_goals omega

/-- no accepted count makes SunMD5 cheaper than its minimum, and the printed count never wraps crypt's
    32-bit round counter (this is what commit 5081cef repaired) -/
theorem C11_sunmd5_floor (count : Nat) (rb : Bytes) :
    32768 ≤ sunmd5Count count rb ∧ 4096 + sunmd5Count count rb < 2 ^ 32 := by
  have hm : Gen.SUNMD5_MAX_ROUNDS = 4294967295 := by decide
  unfold sunmd5Count; rw [hm]; simp only []
  repeat' split
  all_goals omega

theorem sha1Clamp_bounds (count : Nat) : 4 ≤ sha1Clamp count ∧ sha1Clamp count ≤ 4294967295 ∧
    sha1Clamp count = (if count = 0 then 262144 else if count < 4 then 4 else if count > 4294967295 then 4294967295 else count) := by
  have hi : Gen.CRYPT_SHA1_ITERATIONS = 262144 := by decide
  have hu : UINT_MAX = 4294967295 := by decide
  unfold sha1Clamp; rw [hi, hu]; simp only []
  repeat' split
  all_goals omega

/-- sha1crypt: the printed iteration count lies in the window (K - K/4, K] around the clamped count K -/
theorem C11_sha1_window (count : Nat) (rb : Bytes) :
    sha1Clamp count - sha1Clamp count / 4 < sha1Rounds count rb ∧ sha1Rounds count rb ≤ sha1Clamp count := by
  obtain ⟨h4, hmax, _⟩ := sha1Clamp_bounds count
  unfold sha1Rounds; simp only []
  generalize (rbAt rb 0 + rbAt rb 1 * 256 + rbAt rb 2 * 65536 + rbAt rb 3 * 16777216) = rnd
  have hx : rnd % (sha1Clamp count / 4) < sha1Clamp count / 4 := Nat.mod_lt _ (by omega)
  generalize rnd % (sha1Clamp count / 4) = x at hx
  generalize sha1Clamp count = c at *
  have : (c - x) % 2 ^ 32 = c - x := Nat.mod_eq_of_lt (by omega)
  rw [this]; omega

/-- bsdicrypt: odd, at most 2^24 - 1, default 725 -/
theorem C11_bsdi (count : Nat) (rb : Bytes) (n osize : Nat) (s : Bytes) (e : Nat)
    (h : gensaltBsdi count rb n osize = .ok s e) :
    let c := if count = 0 then 725 else count
    let c := if c > 0xffffff then 0xffffff else c
    let c := if c % 2 = 0 then c + 1 else c
    s = [95] ++ enc24 c ++ enc24 (le24 rb 0) ∧ c % 2 = 1 ∧ c ≤ 0xffffff := by
  unfold gensaltBsdi at h
  split at h; · cases h
  split at h; · cases h
  simp only [] at h ⊢
  cases h
  refine ⟨rfl, ?_, ?_⟩ <;> (repeat' split) <;> omega

/-! ### the cost that `crypt` APPLIES to a generated setting (end to end: writer, then the method's parser) -/

/-- yescrypt: for cost `c = count` (or 5 when `count = 0`) the KDF runs with `N = 2^(c+9), r = 8` below 3 and `N = 2^(c+7), r = 32`
    from 3 on, `p = 1`, default flags — decoded back from the generated text by `yescrypt_r`'s own parser -/
theorem C11_yescrypt_applied (count : Nat) (rb : Bytes) (n osize : Nat) (S : Bytes) (e : Nat)
    (h : gensaltYescrypt count rb n osize = .ok S e) (D : Digests) (hD : D.WF) (p : Bytes) :
    1 ≤ dfl count 5 ∧ dfl count 5 ≤ 11 ∧
    (yesParamsOf (dfl count 5)).N = (if dfl count 5 < 3 then 2 ^ (dfl count 5 + 9) else 2 ^ (dfl count 5 + 7)) ∧
    (yesParamsOf (dfl count 5)).r = (if dfl count 5 < 3 then 8 else 32) ∧
    cryptYescrypt D p S = (match D.yescrypt (yesParamsOf (dfl count 5)) (padTo rb (min n 64)) p with
      | none => .error .EINVAL
      | some hd => .ok (S ++ 36 :: encode64 hd)) := by
  obtain ⟨c1, c2, _, _⟩ := gensaltYescrypt_shape h
  refine ⟨c1, c2, ?_, ?_, accept_yescrypt count rb n osize S e h D hD p⟩
  · unfold yesParamsOf yesRN; split <;> rfl
  · unfold yesParamsOf yesRN; split <;> rfl

/-- gost-yescrypt: the same parameters reach the inner KDF -/
theorem C11_gost_applied (count : Nat) (rb : Bytes) (n osize : Nat) (S : Bytes) (e : Nat)
    (h : gensaltGost count rb n osize = .ok S e) (D : Digests) (hD : D.WF) (p : Bytes) :
    1 ≤ dfl count 5 ∧ dfl count 5 ≤ 11 ∧
    cryptGost D p S = (match D.yescrypt (yesParamsOf (dfl count 5)) (padTo rb (min n 64)) p with
      | none => .error .EINVAL
      | some hd => .ok (S ++ 36 :: encode64 (D.gostOuter p S hd))) := by
  obtain ⟨c1, c2, _, _⟩ := gensaltGost_shape h
  exact ⟨c1, c2, accept_gost count rb n osize S e h D hD p⟩

/-- scrypt: cost `c = count` (or 7) in 6..11 gives `N = 2^(c+7), r = 32, p = 1` -/
theorem C11_scrypt_applied (count : Nat) (rb : Bytes) (n osize : Nat) (S : Bytes) (e : Nat)
    (h : gensaltScrypt count rb n osize = .ok S e) (D : Digests) (hD : D.WF) (p : Bytes) :
    6 ≤ dfl count 7 ∧ dfl count 7 ≤ 11 ∧
    cryptScrypt D p S = (match D.yescrypt { flags := 0, N := 2 ^ (dfl count 7 + 7), r := 32, p := 1, t := 0, g := 0, NROM := 0 }
        (encode64 (padTo rb (min n 64))) p with
      | none => .error .EINVAL
      | some hd => .ok (S ++ 36 :: encode64 hd)) := by
  obtain ⟨c1, c2, _, _⟩ := gensaltScrypt_shape h
  exact ⟨c1, c2, accept_scrypt count rb n osize S e h D hD p⟩

/-- the logarithmic-cost writers of the yescrypt family reject out-of-range counts (given a buffer that passes their size test) -/
theorem C11_log_reject_yescrypt (count : Nat) (rb : Bytes) (n osize : Nat) (ho : 192 ≤ osize) (h : 11 < count) :
    gensaltYescrypt count rb n osize = .err .EINVAL ∧ gensaltGost count rb n osize = .err .EINVAL ∧
    gensaltScrypt count rb n osize = .err .EINVAL := by
  have hb : ∀ k, k ≤ 64 → base64Len k ≤ 86 := fun k hk => by unfold base64Len; omega
  have hg : Gen.CRYPT_GENSALT_OUTPUT_SIZE = 192 := rfl
  have hmin : min n 64 ≤ 64 := by omega
  have hbl := hb (min n 64) hmin
  have hy : ∀ o, 191 ≤ o → gensaltYescrypt count rb (min n 64) o = .err .EINVAL := by
    intro o ho'
    unfold gensaltYescrypt
    dsimp only
    have hmm : min (min n 64) 64 = min n 64 := by omega
    rw [hmm, if_neg (by rw [hg]; omega), if_pos (Or.inl h)]
  refine ⟨?_, ?_, ?_⟩
  · unfold gensaltYescrypt
    dsimp only
    rw [if_neg (by rw [hg]; omega), if_pos (Or.inl h)]
  · unfold gensaltGost
    dsimp only
    rw [if_neg (by rw [hg]; omega), hy (osize - 1) (by omega)]
  · unfold gensaltScrypt
    dsimp only
    rw [if_neg (by rw [hg]; omega), if_pos (Or.inr (Or.inl h))]

/-- scrypt also rejects the costs 1..5 -/
theorem C11_log_reject_scrypt_low (count : Nat) (rb : Bytes) (n osize : Nat) (ho : 192 ≤ osize) (h : 0 < count ∧ count < 6) :
    gensaltScrypt count rb n osize = .err .EINVAL := by
  have hg : Gen.CRYPT_GENSALT_OUTPUT_SIZE = 192 := rfl
  have hbl : base64Len (min n 64) ≤ 86 := by unfold base64Len; omega
  unfold gensaltScrypt
  dsimp only
  rw [if_neg (by rw [hg]; omega), if_pos (Or.inl h)]

/-- sunmd5: crypt applies 4096 + the printed count, which lies in [4096 + 32768, 2^32) -/
theorem C11_sunmd5_applied (count : Nat) (rb : Bytes) (n osize : Nat) (S : Bytes) (e : Nat)
    (h : gensaltSunmd5 count rb n osize = .ok S e) (D : Digests) (p : Bytes) :
    cryptSunmd5 D p S = .ok (S ++ [36] ++ permEncode Gen.perm_sunmd5 (D.sunmd5 p S (4096 + sunmd5Count count rb))) :=
  accept_sunmd5 count rb n osize S e h D p

/-- sha256crypt / sha512crypt: the rounds the parser reads back from a generated setting are the documented clamp of `count` -/
theorem C11_sha_applied (count : Nat) (rb : Bytes) (n osize : Nat) (S : Bytes) (e : Nat) :
    (gensaltSha256 count rb n osize = .ok S e → ∃ P, parseSha Gen.sha256_salt_prefix Gen.sha256_rounds_prefix Gen.SHA256_ROUNDS_DEFAULT
        Gen.SHA256_ROUNDS_MIN Gen.SHA256_ROUNDS_MAX Gen.SHA256_SALT_LEN_MAX S = .ok P ∧
        P.rounds = shaClamp Gen.SHA256_ROUNDS_DEFAULT Gen.SHA256_ROUNDS_MIN Gen.SHA256_ROUNDS_MAX count) ∧
    (gensaltSha512 count rb n osize = .ok S e → ∃ P, parseSha Gen.sha512_salt_prefix Gen.sha512_rounds_prefix Gen.SHA512_ROUNDS_DEFAULT
        Gen.SHA512_ROUNDS_MIN Gen.SHA512_ROUNDS_MAX Gen.SHA512_SALT_LEN_MAX S = .ok P ∧
        P.rounds = shaClamp Gen.SHA512_ROUNDS_DEFAULT Gen.SHA512_ROUNDS_MIN Gen.SHA512_ROUNDS_MAX count) := by
  constructor
  · intro h
    obtain ⟨P, hP, _, hr⟩ := accept_sha_gen 53 Gen.sha256_salt_prefix Gen.sha256_rounds_prefix _ _ _ _ count rb n osize S e (by decide) (by decide)
      (by decide) (by decide) (by decide) (by decide) (by decide) h (fun _ => [])
    exact ⟨P, hP, hr⟩
  · intro h
    obtain ⟨P, hP, _, hr⟩ := accept_sha_gen 54 Gen.sha512_salt_prefix Gen.sha512_rounds_prefix _ _ _ _ count rb n osize S e (by decide) (by decide)
      (by decide) (by decide) (by decide) (by decide) (by decide) h (fun _ => [])
    exact ⟨P, hP, hr⟩

end Xc.C11

/-
  C11 — crypt_gensalt encodes the documented cost for every count.
-/
import Xc.Lemmas.Gensalt
import Xc.Lemmas.Accept2
namespace Xc.C11
open Xc

/-- fixed-cost methods accept only count 0 -/
theorem C11_fixed (count : Nat) (rb : Bytes) (n osize : Nat) (h : count ≠ 0) :
    gensaltMd5 count rb n osize = .err .EINVAL ∧
    (3 + 1 ≤ osize → gensaltNt count osize = .err .EINVAL) ∧
    (3 ≤ osize → gensaltDes count rb n osize = .err .EINVAL) := by
  refine ⟨by simp [gensaltMd5, h], fun ho => ?_, fun ho => ?_⟩
  · unfold gensaltNt; rw [if_neg (by omega), if_pos h]
  · unfold gensaltDes; rw [if_neg (by omega), if_pos (Or.inr h)]

/-- `$2x$` never generates a setting -/
theorem C11_bcrypt_x (d : Bool) (count : Nat) (rb : Bytes) (n osize : Nat) :
    gensaltMethod d .bcrypt_x count rb n osize = .err .EINVAL := rfl

/-- logarithmic-cost methods reject out-of-range counts with EINVAL (whenever the buffer is large enough
    for the size test that precedes it in scrypt/yescrypt) -/
theorem C11_log_reject_bcrypt (sub : UInt8) (count : Nat) (rb : Bytes) (n osize : Nat)
    (h : (count ≠ 0 ∧ count < 4) ∨ 31 < count) : gensaltBf sub count rb n osize = .err .EINVAL := by
  unfold gensaltBf dfl
  simp only []
  rw [if_pos]
  rcases h with ⟨h0, h4⟩ | h
  · simp [h0]; omega
  · have : count ≠ 0 := by omega
    simp [this]; omega

/-- sha256crypt/sha512crypt/md5crypt: the count that reaches the writer is the documented clamp -/
theorem C11_sha_clamp (count : Nat) :
    shaClamp 5000 1000 999999999 count = (if count = 0 then 5000 else if count < 1000 then 1000 else if count > 999999999 then 999999999 else count) := by
  unfold shaClamp; simp only []
  repeat' split
  all_goals omega

/-- no accepted count makes SunMD5 cheaper than its minimum, and the printed count never wraps crypt's
    32-bit round counter (this is what commit 5081cef repaired) -/
theorem C11_sunmd5_floor (count : Nat) (rb : Bytes) :
    32768 ≤ sunmd5Count count rb ∧ 4096 + sunmd5Count count rb < 2 ^ 32 := by
  have hm : Gen.SUNMD5_MAX_ROUNDS = 4294967295 := by decide
  unfold sunmd5Count; rw [hm]; simp only []
  repeat' split
  all_goals omega

theorem sha1Clamp_bounds (count : Nat) : 4 ≤ sha1Clamp count ∧ sha1Clamp count ≤ 4294967295 ∧
    sha1Clamp count = (if count = 0 then 262144 else if count < 4 then 4 else if count > 4294967295 then 4294967295 else count) := by
  have hi : Gen.CRYPT_SHA1_ITERATIONS = 262144 := by decide
  have hu : UINT_MAX = 4294967295 := by decide
  unfold sha1Clamp; rw [hi, hu]; simp only []
  repeat' split
  all_goals omega

/-- sha1crypt: the printed iteration count lies in the window (K - K/4, K] around the clamped count K -/
theorem C11_sha1_window (count : Nat) (rb : Bytes) :
    sha1Clamp count - sha1Clamp count / 4 < sha1Rounds count rb ∧ sha1Rounds count rb ≤ sha1Clamp count := by
  obtain ⟨h4, hmax, _⟩ := sha1Clamp_bounds count
  unfold sha1Rounds; simp only []
  generalize (rbAt rb 0 + rbAt rb 1 * 256 + rbAt rb 2 * 65536 + rbAt rb 3 * 16777216) = rnd
  have hx : rnd % (sha1Clamp count / 4) < sha1Clamp count / 4 := Nat.mod_lt _ (by omega)
  generalize rnd % (sha1Clamp count / 4) = x at hx
  generalize sha1Clamp count = c at *
  have : (c - x) % 2 ^ 32 = c - x := Nat.mod_eq_of_lt (by omega)
  rw [this]; omega

/-- bsdicrypt: odd, at most 2^24 - 1, default 725 -/
theorem C11_bsdi (count : Nat) (rb : Bytes) (n osize : Nat) (s : Bytes) (e : Nat)
    (h : gensaltBsdi count rb n osize = .ok s e) :
    let c := if count = 0 then 725 else count
    let c := if c > 0xffffff then 0xffffff else c
    let c := if c % 2 = 0 then c + 1 else c
    s = [95] ++ enc24 c ++ enc24 (le24 rb 0) ∧ c % 2 = 1 ∧ c ≤ 0xffffff := by
  unfold gensaltBsdi at h
  split at h; · cases h
  split at h; · cases h
  simp only [] at h ⊢
  cases h
  refine ⟨rfl, ?_, ?_⟩ <;> (repeat' split) <;> omega

/-! ### the cost that `crypt` APPLIES to a generated setting (end to end: writer, then the method's parser) -/

/-- yescrypt: for cost `c = count` (or 5 when `count = 0`) the KDF runs with `N = 2^(c+9), r = 8` below 3 and `N = 2^(c+7), r = 32`
    from 3 on, `p = 1`, default flags — decoded back from the generated text by `yescrypt_r`'s own parser -/
theorem C11_yescrypt_applied (count : Nat) (rb : Bytes) (n osize : Nat) (S : Bytes) (e : Nat)
    (h : gensaltYescrypt count rb n osize = .ok S e) (D : Digests) (hD : D.WF) (p : Bytes) :
    1 ≤ dfl count 5 ∧ dfl count 5 ≤ 11 ∧
    (yesParamsOf (dfl count 5)).N = (if dfl count 5 < 3 then 2 ^ (dfl count 5 + 9) else 2 ^ (dfl count 5 + 7)) ∧
    (yesParamsOf (dfl count 5)).r = (if dfl count 5 < 3 then 8 else 32) ∧
    cryptYescrypt D p S = (match D.yescrypt (yesParamsOf (dfl count 5)) (padTo rb (min n 64)) p with
      | none => .error .EINVAL
      | some hd => .ok (S ++ 36 :: encode64 hd)) := by
  obtain ⟨c1, c2, _, _⟩ := gensaltYescrypt_shape h
  refine ⟨c1, c2, ?_, ?_, accept_yescrypt count rb n osize S e h D hD p⟩
  · unfold yesParamsOf yesRN; split <;> rfl
  · unfold yesParamsOf yesRN; split <;> rfl

/-- gost-yescrypt: the same parameters reach the inner KDF -/
theorem C11_gost_applied (count : Nat) (rb : Bytes) (n osize : Nat) (S : Bytes) (e : Nat)
    (h : gensaltGost count rb n osize = .ok S e) (D : Digests) (hD : D.WF) (p : Bytes) :
    1 ≤ dfl count 5 ∧ dfl count 5 ≤ 11 ∧
    cryptGost D p S = (match D.yescrypt (yesParamsOf (dfl count 5)) (padTo rb (min n 64)) p with
      | none => .error .EINVAL
      | some hd => .ok (S ++ 36 :: encode64 (D.gostOuter p S hd))) := by
  obtain ⟨c1, c2, _, _⟩ := gensaltGost_shape h
  exact ⟨c1, c2, accept_gost count rb n osize S e h D hD p⟩

/-- scrypt: cost `c = count` (or 7) in 6..11 gives `N = 2^(c+7), r = 32, p = 1` -/
theorem C11_scrypt_applied (count : Nat) (rb : Bytes) (n osize : Nat) (S : Bytes) (e : Nat)
    (h : gensaltScrypt count rb n osize = .ok S e) (D : Digests) (hD : D.WF) (p : Bytes) :
    6 ≤ dfl count 7 ∧ dfl count 7 ≤ 11 ∧
    cryptScrypt D p S = (match D.yescrypt { flags := 0, N := 2 ^ (dfl count 7 + 7), r := 32, p := 1, t := 0, g := 0, NROM := 0 }
        (encode64 (padTo rb (min n 64))) p with
      | none => .error .EINVAL
      | some hd => .ok (S ++ 36 :: encode64 hd)) := by
  obtain ⟨c1, c2, _, _⟩ := gensaltScrypt_shape h
  exact ⟨c1, c2, accept_scrypt count rb n osize S e h D hD p⟩

/-- the logarithmic-cost writers of the yescrypt family reject out-of-range counts (given a buffer that passes their size test) -/
theorem C11_log_reject_yescrypt (count : Nat) (rb : Bytes) (n osize : Nat) (ho : 192 ≤ osize) (h : 11 < count) :
    gensaltYescrypt count rb n osize = .err .EINVAL ∧ gensaltGost count rb n osize = .err .EINVAL ∧
    gensaltScrypt count rb n osize = .err .EINVAL := by
  have hb : ∀ k, k ≤ 64 → base64Len k ≤ 86 := fun k hk => by unfold base64Len; omega
  have hg : Gen.CRYPT_GENSALT_OUTPUT_SIZE = 192 := rfl
  have hmin : min n 64 ≤ 64 := by omega
  have hbl := hb (min n 64) hmin
  have hy : ∀ o, 191 ≤ o → gensaltYescrypt count rb (min n 64) o = .err .EINVAL := by
    intro o ho'
    unfold gensaltYescrypt
    dsimp only
    have hmm : min (min n 64) 64 = min n 64 := by omega
    rw [hmm, if_neg (by rw [hg]; omega), if_pos (Or.inl h)]
  refine ⟨?_, ?_, ?_⟩
  · unfold gensaltYescrypt
    dsimp only
    rw [if_neg (by rw [hg]; omega), if_pos (Or.inl h)]
  · unfold gensaltGost
    dsimp only
    rw [if_neg (by rw [hg]; omega), hy (osize - 1) (by omega)]
  · unfold gensaltScrypt
    dsimp only
    rw [if_neg (by rw [hg]; omega), if_pos (Or.inr (Or.inl h))]

/-- scrypt also rejects the costs 1..5 -/
theorem C11_log_reject_scrypt_low (count : Nat) (rb : Bytes) (n osize : Nat) (ho : 192 ≤ osize) (h : 0 < count ∧ count < 6) :
    gensaltScrypt count rb n osize = .err .EINVAL := by
  have hg : Gen.CRYPT_GENSALT_OUTPUT_SIZE = 192 := rfl
  have hbl : base64Len (min n 64) ≤ 86 := by unfold base64Len; omega
  unfold gensaltScrypt
  dsimp only
  rw [if_neg (by rw [hg]; omega), if_pos (Or.inl h)]

/-- sunmd5: crypt applies 4096 + the printed count, which lies in [4096 + 32768, 2^32) -/
theorem C11_sunmd5_applied (count : Nat) (rb : Bytes) (n osize : Nat) (S : Bytes) (e : Nat)
    (h : gensaltSunmd5 count rb n osize = .ok S e) (D : Digests) (p : Bytes) :
    cryptSunmd5 D p S = .ok (S ++ [36] ++ permEncode Gen.perm_sunmd5 (D.sunmd5 p S (4096 + sunmd5Count count rb))) :=
  accept_sunmd5 count rb n osize S e h D p

/-- sha256crypt / sha512crypt: the rounds the parser reads back from a generated setting are the documented clamp of `count` -/
theorem C11_sha_applied (count : Nat) (rb : Bytes) (n osize : Nat) (S : Bytes) (e : Nat) :
    (gensaltSha256 count rb n osize = .ok S e → ∃ P, parseSha Gen.sha256_salt_prefix Gen.sha256_rounds_prefix Gen.SHA256_ROUNDS_DEFAULT
        Gen.SHA256_ROUNDS_MIN Gen.SHA256_ROUNDS_MAX Gen.SHA256_SALT_LEN_MAX S = .ok P ∧
        P.rounds = shaClamp Gen.SHA256_ROUNDS_DEFAULT Gen.SHA256_ROUNDS_MIN Gen.SHA256_ROUNDS_MAX count) ∧
    (gensaltSha512 count rb n osize = .ok S e → ∃ P, parseSha Gen.sha512_salt_prefix Gen.sha512_rounds_prefix Gen.SHA512_ROUNDS_DEFAULT
        Gen.SHA512_ROUNDS_MIN Gen.SHA512_ROUNDS_MAX Gen.SHA512_SALT_LEN_MAX S = .ok P ∧
        P.rounds = shaClamp Gen.SHA512_ROUNDS_DEFAULT Gen.SHA512_ROUNDS_MIN Gen.SHA512_ROUNDS_MAX count) := by
  constructor
  · intro h
    obtain ⟨P, hP, _, hr⟩ := accept_sha_gen 53 Gen.sha256_salt_prefix Gen.sha256_rounds_prefix _ _ _ _ count rb n osize S e (by decide) (by decide)
      (by decide) (by decide) (by decide) (by decide) (by decide) h (fun _ => [])
    exact ⟨P, hP, hr⟩
  · intro h
    obtain ⟨P, hP, _, hr⟩ := accept_sha_gen 54 Gen.sha512_salt_prefix Gen.sha512_rounds_prefix _ _ _ _ count rb n osize S e (by decide) (by decide)
      (by decide) (by decide) (by decide) (by decide) (by decide) h (fun _ => [])
    exact ⟨P, hP, hr⟩


/-! ### applied cost for bsdicrypt, bcrypt and sha1crypt -/

/-- the iteration count `gensalt_bsdicrypt_rn` encodes: default 725, at most 2^24 - 1, made odd -/
def bsdiCount (count : Nat) : Nat :=
  let c := if count = 0 then 725 else count
  let c := if c > 0xffffff then 0xffffff else c
  if c % 2 = 0 then c + 1 else c

/-- bsdicrypt, end to end: hashing with a generated setting runs the DES core with exactly the encoded count (and the generated salt) -/
theorem C11_bsdi_applied (count : Nat) (rb : Bytes) (n osize : Nat) (S : Bytes) (e : Nat) (h : gensaltBsdi count rb n osize = .ok S e)
    (D : Digests) (p : Bytes) : cryptBsdi D p S = .ok (S ++ desEncode (D.bsdi p (le24 rb 0) (bsdiCount count))) := by
  unfold gensaltBsdi at h
  split at h; · cases h
  split at h; · cases h
  simp only [WOut.ok.injEq] at h
  obtain ⟨rfl, _⟩ := h
  have hcc : (if (if (if count = 0 then 725 else count) > 16777215 then 16777215 else if count = 0 then 725 else count) % 2 = 0 then
      (if (if count = 0 then 725 else count) > 16777215 then 16777215 else if count = 0 then 725 else count) + 1
      else if (if count = 0 then 725 else count) > 16777215 then 16777215 else if count = 0 then 725 else count) = bsdiCount count := rfl
  rw [hcc]
  have hcl : bsdiCount count < 2 ^ 24 := by unfold bsdiCount; dsimp only; split <;> split <;> (try split) <;> omega
  generalize bsdiCount count = c at *
  have hsl : le24 rb 0 < 2 ^ 24 := by
    unfold le24 rbAt
    have a := (rb.getD 0 0).toNat_lt; have b := (rb.getD (0 + 1) 0).toNat_lt; have c := (rb.getD (0 + 2) 0).toNat_lt
    omega
  have d1 := dec24_enc24 c hcl [95] (enc24 (le24 rb 0))
  have d5 := dec24_enc24 (le24 rb 0) hsl ([95] ++ enc24 c) []
  simp only [List.length_cons, List.length_nil, List.append_nil, List.length_append, enc24] at d1 d5
  unfold cryptBsdi
  simp only [enc24] at d1 d5 ⊢
  have hc0 : cat ([95] ++ [a64 c, a64 (c / 64), a64 (c / 4096), a64 (c / 262144)] ++ [a64 (le24 rb 0), a64 (le24 rb 0 / 64), a64 (le24 rb 0 / 4096), a64 (le24 rb 0 / 262144)]) 0 = 95 := rfl
  simp only [hc0, ne_eq, not_true_eq_false, List.length_append, List.length_cons, List.length_nil, false_or, if_false, d1, d5]
  simp

/-- bcrypt, end to end: hashing with a generated setting runs eksblowfish with exactly the requested cost (2^count iterations; 5 when
    `count` is 0) - read back from the two cost digits by the method's own parser -/
theorem C11_bcrypt_applied (sub : UInt8) (count : Nat) (rb : Bytes) (n osize : Nat) (S : Bytes) (e : Nat) (h : gensaltBf sub count rb n osize = .ok S e)
    (D : Digests) (hst : ∀ f, D.bfSelfTest f = true) (p : Bytes) :
    ∃ salt, cryptBf D p S = .ok (S ++ bfEncode (D.bf (Gen.flags_by_subtype.getD (sub.toNat - 97) 0).toNat (dfl count 5) salt p)) := by
  unfold gensaltBf at h
  simp only [] at h
  split at h; · cases h
  rename_i hc
  split at h; · cases h
  simp only [WOut.ok.injEq] at h
  obtain ⟨hS, _⟩ := h
  simp only [not_or, Nat.not_lt, not_and, Decidable.not_not] at hc
  obtain ⟨_, hc4, hc31, hsub⟩ := hc
  generalize dfl count 5 = c at *
  have hcd := bf_cost_digits ⟨c, by omega⟩ (by simpa using hc4)
  simp only [] at hcd
  obtain ⟨hd, hcost, hpow⟩ := hcd
  -- the 22 salt characters
  have hel := bfEncode_length16 (padTo rb 16) (padTo_length rb 16)
  have hch := bfEncode_chars (padTo rb 16)
  obtain ⟨v21, hv21, hlast⟩ := bfEncode_last16 (padTo rb 16) (padTo_length rb 16)
  generalize bfEncode (padTo rb 16) = enc at *
  have hS' : S = [36, 50, sub, 36, (48 + c / 10).toUInt8, (48 + c % 10).toUInt8, 36] ++ enc := hS.symm
  have hlen : S.length = 29 := by rw [hS']; simp [hel]
  have hcat : ∀ i, i < 22 → cat S (7 + i) = cat enc i := by
    intro i hi; rw [hS']; simp only [cat, List.getD_eq_getElem?_getD]
    rw [List.getElem?_append_right (by simp)]; simp
  have hvalid : ∀ i, i < 22 → ∃ v, bfAtoi (cat enc i) = some v := by
    intro i hi
    have hm : cat enc i ∈ enc := by
      unfold cat; rw [List.getD_eq_getElem?_getD, List.getElem?_eq_getElem (by omega)]; simp
    obtain ⟨v, hv⟩ := hch _ hm
    exact ⟨v % 64, by rw [hv, bfAtoi_bf64']⟩
  obtain ⟨salt, hsalt⟩ := bfDecode16_some (S.drop 7) (by intro i hi; rw [cat_drop, hcat i hi]; exact hvalid i hi)
  -- the parse
  have hflags : (Gen.flags_by_subtype.getD (sub.toNat - 97) 0).toNat ≠ 0 := by
    rcases Classical.em (sub = 97) with h | h
    · subst h; decide
    · rcases Classical.em (sub = 98) with h2 | h2
      · subst h2; decide
      · have := hsub h h2; subst this; decide
  have hrange : ¬ (sub < 97 ∨ sub > 122) := by
    rcases Classical.em (sub = 97) with h | h
    · subst h; decide
    · rcases Classical.em (sub = 98) with h2 | h2
      · subst h2; decide
      · have := hsub h h2; subst this; decide
  have hparse : parseBf S = some { flags := (Gen.flags_by_subtype.getD (sub.toNat - 97) 0).toNat, cost := c, salt := salt } := by
    unfold parseBf
    have c0 : cat S 0 = 36 := by rw [hS']; rfl
    have c1 : cat S 1 = 50 := by rw [hS']; rfl
    have c2 : cat S 2 = sub := by rw [hS']; rfl
    have c3 : cat S 3 = 36 := by rw [hS']; rfl
    have c4 : cat S 4 = (48 + c / 10).toUInt8 := by rw [hS']; rfl
    have c5 : cat S 5 = (48 + c % 10).toUInt8 := by rw [hS']; rfl
    have c6 : cat S 6 = 36 := by rw [hS']; rfl
    simp only [c0, c1, c2, c3, c4, c5, c6, hsalt]
    have g1 : ¬ ((36 : UInt8) ≠ 36 ∨ (50 : UInt8) ≠ 50 ∨ sub < 97 ∨ sub > 122) := by
      intro h; rcases h with h | h | h
      · exact h rfl
      · exact h rfl
      · exact hrange h
    have g2 : ¬ ((Gen.flags_by_subtype.getD (sub.toNat - 97) 0).toNat = 0 ∨ (36 : UInt8) ≠ 36 ∨ (48 + c / 10).toUInt8 < 48 ∨
            (48 + c / 10).toUInt8 > 51 ∨ (48 + c % 10).toUInt8 < 48 ∨ (48 + c % 10).toUInt8 > 57 ∨
            (48 + c / 10).toUInt8 = 51 ∧ (48 + c % 10).toUInt8 > 49 ∨ (36 : UInt8) ≠ 36) := by
      intro h; rcases h with h | h | h | h | h | h | h | h
      · exact hflags h
      · exact h rfl
      · exact hd (Or.inl h)
      · exact hd (Or.inr (Or.inl h))
      · exact hd (Or.inr (Or.inr (Or.inl h)))
      · exact hd (Or.inr (Or.inr (Or.inr (Or.inl h))))
      · exact hd (Or.inr (Or.inr (Or.inr (Or.inr h))))
      · exact h rfl
    rw [if_neg g1, if_neg g2, hcost, if_neg hpow]
  -- the 29th character is kept as it is: its four unused bits are already zero
  have h28 : cat S 28 = bf64 (v21 * 16) := by
    have := hcat 21 (by omega); rw [show 7 + 21 = 28 from rfl] at this; rw [this, hlast]
  refine ⟨salt, ?_⟩
  unfold cryptBf
  rw [hparse]
  simp only [hst, not_true_eq_false, if_false]
  have hB : Gen.BF_SETTING_LENGTH - 1 = 28 := by decide
  rw [hB, h28, bfAtoi_bf64']
  have e16 : v21 * 16 % 64 / 16 * 16 = v21 * 16 := by omega
  simp only [Option.getD_some, e16]
  rw [← h28]
  have := take_succ_getD S 28 hlen
  unfold cat
  rw [this]



/-- sha1crypt, end to end: hashing with a generated setting runs PBKDF1-HMAC-SHA1 with exactly the printed iteration count
    (`sha1Rounds`: the clamped `count` minus a random part below a quarter of it - `C11_sha1_window`) -/
theorem C11_sha1_applied (count : Nat) (rb : Bytes) (n osize : Nat) (S : Bytes) (e : Nat) (h : gensaltSha1 count rb n osize = .ok S e)
    (D : Digests) (p : Bytes) : ∃ salt, cryptSha1 D p S = .ok (S ++ sha1Encode (D.sha1crypt p salt (sha1Rounds count rb))) := by
  unfold gensaltSha1 at h
  have hsl : Gen.CRYPT_SHA1_SALT_LENGTH = 64 := by decide
  generalize Gen.CRYPT_SHA1_SALT_LENGTH = F at h hsl
  have hr := sha1Rounds_lt count rb
  generalize sha1Rounds count rb = r at *
  have hdl : (toDec r).length ≤ 10 := toDec_length_le10 r (by omega)
  have hdp := toDec_length_pos r
  have hn0l : ([36, 115, 104, 97, 49, 36] ++ toDec r ++ [36] : Bytes).length = 7 + (toDec r).length := by
    simp only [List.length_append, List.length_cons, List.length_nil]; omega
  split at h; · cases h
  rename_i hn
  split at h; · cases h
  rename_i hos
  simp only [hn0l] at h
  generalize hL : (toDec r).length = L at *
  split at h; · cases h
  rename_i hn0
  simp only [WOut.ok.injEq] at h
  obtain ⟨hS, _⟩ := h
  simp only [Nat.not_lt] at hn hos
  -- the effective output limit
  generalize holim : (if 7 + L + F + 2 > osize then osize - 2 else 7 + L + F) = olim at hS
  have holb : 7 + L + 4 < olim ∧ olim ≤ 7 + L + 64 := by rw [← holim, hsl]; split <;> omega
  generalize hsalt : sha1SaltLoop rb n olim (F + 1) 4 (7 + L) = salt at hS
  obtain ⟨sp1, sp2⟩ := sha1SaltLoop_spec rb n olim (F + 1) 4 (7 + L)
  have spos := sha1SaltLoop_nonempty rb n olim F 4 (7 + L) ⟨by omega, holb.1⟩
  rw [hsalt] at sp1 sp2 spos
  have hslen : salt.length ≤ 64 := by rw [Nat.max_def] at sp2; split at sp2 <;> omega
  have hm : ([36, 115, 104, 97, 49, 36] : Bytes) = sha1Magic := rfl
  subst hS
  refine ⟨salt, ?_⟩
  have hgoal : ([36, 115, 104, 97, 49, 36] : Bytes) ++ toDec r ++ [36] ++ salt ++ [36] ++ sha1Encode (D.sha1crypt p salt r) = sha1Magic ++ toDec r ++ [36] ++ salt ++ [36] ++ sha1Encode (D.sha1crypt p salt r) := by rw [hm]
  rw [hgoal]
  have e1 : ([36, 115, 104, 97, 49, 36] : Bytes) ++ toDec r ++ [36] ++ salt ++ [36] = sha1Magic ++ (toDec r ++ 36 :: (salt ++ 36 :: [])) := by
    rw [hm]; simp only [List.append_assoc, List.singleton_append, List.cons_append, List.nil_append]
  have hfit : ¬ (sha1Magic.length + (toDec r).length + 1 + salt.length + 1 + Gen.SHA1_OUTPUT_SIZE + 1 > Gen.CRYPT_OUTPUT_SIZE) := by
    have : sha1Magic.length = 6 := rfl
    have : Gen.SHA1_OUTPUT_SIZE = 28 := by decide
    have : Gen.CRYPT_OUTPUT_SIZE = 384 := by decide
    omega
  have hp := parseSha1_canon r salt [] (by unfold ULONG_MAX; omega) sp1 (by omega) hfit
  rw [e1]
  exact cryptSha1_of_parse D p _ _ hp



end Xc.C11

/-
  C11 — crypt_gensalt encodes the documented cost for every count.
-/
import Xc.Lemmas.Gensalt
namespace Xc.C11
open Xc

/-- fixed-cost methods accept only count 0 -/
theorem C11_fixed (count : Nat) (rb : Bytes) (n osize : Nat) (h : count ≠ 0) :
    gensaltMd5 count rb n osize = .err .EINVAL ∧
    (3 + 1 ≤ osize → gensaltNt count osize = .err .EINVAL) ∧
    (3 ≤ osize → gensaltDes count rb n osize = .err .EINVAL) := by
  refine ⟨by simp [gensaltMd5, h], fun ho => ?_, fun ho => ?_⟩
  · unfold gensaltNt; rw [if_neg (by omega), if_pos h]
  · unfold gensaltDes; rw [if_neg (by omega), if_pos (Or.inr h)]

/-- `$2x$` never generates a setting -/
theorem C11_bcrypt_x (d : Bool) (count : Nat) (rb : Bytes) (n osize : Nat) :
    gensaltMethod d .bcrypt_x count rb n osize = .err .EINVAL := rfl

/-- logarithmic-cost methods reject out-of-range counts with EINVAL (whenever the buffer is large enough
    for the size test that precedes it in scrypt/yescrypt) -/
theorem C11_log_reject_bcrypt (sub : UInt8) (count : Nat) (rb : Bytes) (n osize : Nat)
    (h : (count ≠ 0 ∧ count < 4) ∨ 31 < count) : gensaltBf sub count rb n osize = .err .EINVAL := by
  unfold gensaltBf dfl
  simp only []
  rw [if_pos]
  rcases h with ⟨h0, h4⟩ | h
  · simp [h0]; omega
  · have : count ≠ 0 := by omega
    simp [this]; omega

/-- sha256crypt/sha512crypt/md5crypt: the count that reaches the writer is the documented clamp -/
theorem C11_sha_clamp (count : Nat) :
    shaClamp 5000 1000 999999999 count = (if count = 0 then 5000 else if count < 1000 then 1000 else if count > 999999999 then 999999999 else count) := by
  unfold shaClamp; simp only []
  repeat' split
  all_goals omega

/-- no accepted count makes SunMD5 cheaper than its minimum, and the printed count never wraps crypt's
    32-bit round counter (this is what commit 5081cef repaired) -/
theorem C11_sunmd5_floor (count : Nat) (rb : Bytes) :
    32768 ≤ sunmd5Count count rb ∧ 4096 + sunmd5Count count rb < 2 ^ 32 := by
  have hm : Gen.SUNMD5_MAX_ROUNDS = 4294967295 := by decide
  unfold sunmd5Count; rw [hm]; simp only []
  repeat' split
  all_goals omega

theorem sha1Clamp_bounds (count : Nat) : 4 ≤ sha1Clamp count ∧ sha1Clamp count ≤ 4294967295 ∧
    sha1Clamp count = (if count = 0 then 262144 else if count < 4 then 4 else if count > 4294967295 then 4294967295 else count) := by
  have hi : Gen.CRYPT_SHA1_ITERATIONS = 262144 := by decide
  have hu : UINT_MAX = 4294967295 := by decide
  unfold sha1Clamp; rw [hi, hu]; simp only []
  repeat' split
  all_goals omega

/-- sha1crypt: the printed iteration count lies in the window (K - K/4, K] around the clamped count K -/
theorem C11_sha1_window (count : Nat) (rb : Bytes) :
    sha1Clamp count - sha1Clamp count / 4 < sha1Rounds count rb ∧ sha1Rounds count rb ≤ sha1Clamp count := by
  obtain ⟨h4, hmax, _⟩ := sha1Clamp_bounds count
  unfold sha1Rounds; simp only []
  generalize (rbAt rb 0 + rbAt rb 1 * 256 + rbAt rb 2 * 65536 + rbAt rb 3 * 16777216) = rnd
  have hx : rnd % (sha1Clamp count / 4) < sha1Clamp count / 4 := Nat.mod_lt _ (by omega)
  generalize rnd % (sha1Clamp count / 4) = x at hx
  generalize sha1Clamp count = c at *
  have : (c - x) % 2 ^ 32 = c - x := Nat.mod_eq_of_lt (by omega)
  rw [this]; omega

/-- bsdicrypt: odd, at most 2^24 - 1, default 725 -/
theorem C11_bsdi (count : Nat) (rb : Bytes) (n osize : Nat) (s : Bytes) (e : Nat)
    (h : gensaltBsdi count rb n osize = .ok s e) :
    let c := if count = 0 then 725 else count
    let c := if c > 0xffffff then 0xffffff else c
    let c := if c % 2 = 0 then c + 1 else c
    s = [95] ++ enc24 c ++ enc24 (le24 rb 0) ∧ c % 2 = 1 ∧ c ≤ 0xffffff := by
  unfold gensaltBsdi at h
  split at h; · cases h
  split at h; · cases h
  simp only [] at h ⊢
  cases h
  refine ⟨rfl, ?_, ?_⟩ <;> (repeat' split) <;> omega

end Xc.C11

/-
  C19 — every --enable-hashes selection yields a coherent library.
  The quantifier "all 2^16 subsets" is finite; the per-configuration facts (`cfgOk`, C19Core.lean) are
  decided by the kernel for every one of the 65 536 subsets (no sampling), from the hashes.conf of the tree.
-/
import Xc.Thm.C19Core
import Xc.Thm.C01
import Xc.Thm.C10
import Xc.Thm.C19c.Chunk00
import Xc.Thm.C19c.Chunk01
import Xc.Thm.C19c.Chunk02
import Xc.Thm.C19c.Chunk03
import Xc.Thm.C19c.Chunk04
import Xc.Thm.C19c.Chunk05
import Xc.Thm.C19c.Chunk06
import Xc.Thm.C19c.Chunk07
import Xc.Thm.C19c.Chunk08
import Xc.Thm.C19c.Chunk09
import Xc.Thm.C19c.Chunk10
import Xc.Thm.C19c.Chunk11
import Xc.Thm.C19c.Chunk12
import Xc.Thm.C19c.Chunk13
import Xc.Thm.C19c.Chunk14
import Xc.Thm.C19c.Chunk15
import Xc.Thm.C19c.Chunk16
import Xc.Thm.C19c.Chunk17
import Xc.Thm.C19c.Chunk18
import Xc.Thm.C19c.Chunk19
import Xc.Thm.C19c.Chunk20
import Xc.Thm.C19c.Chunk21
import Xc.Thm.C19c.Chunk22
import Xc.Thm.C19c.Chunk23
import Xc.Thm.C19c.Chunk24
import Xc.Thm.C19c.Chunk25
import Xc.Thm.C19c.Chunk26
import Xc.Thm.C19c.Chunk27
import Xc.Thm.C19c.Chunk28
import Xc.Thm.C19c.Chunk29
import Xc.Thm.C19c.Chunk30
import Xc.Thm.C19c.Chunk31
import Xc.Thm.C19c.Chunk32
import Xc.Thm.C19c.Chunk33
import Xc.Thm.C19c.Chunk34
import Xc.Thm.C19c.Chunk35
import Xc.Thm.C19c.Chunk36
import Xc.Thm.C19c.Chunk37
import Xc.Thm.C19c.Chunk38
import Xc.Thm.C19c.Chunk39
import Xc.Thm.C19c.Chunk40
import Xc.Thm.C19c.Chunk41
import Xc.Thm.C19c.Chunk42
import Xc.Thm.C19c.Chunk43
import Xc.Thm.C19c.Chunk44
import Xc.Thm.C19c.Chunk45
import Xc.Thm.C19c.Chunk46
import Xc.Thm.C19c.Chunk47
import Xc.Thm.C19c.Chunk48
import Xc.Thm.C19c.Chunk49
import Xc.Thm.C19c.Chunk50
import Xc.Thm.C19c.Chunk51
import Xc.Thm.C19c.Chunk52
import Xc.Thm.C19c.Chunk53
import Xc.Thm.C19c.Chunk54
import Xc.Thm.C19c.Chunk55
import Xc.Thm.C19c.Chunk56
import Xc.Thm.C19c.Chunk57
import Xc.Thm.C19c.Chunk58
import Xc.Thm.C19c.Chunk59
import Xc.Thm.C19c.Chunk60
import Xc.Thm.C19c.Chunk61
import Xc.Thm.C19c.Chunk62
import Xc.Thm.C19c.Chunk63
namespace Xc.C19
open Xc

/-- the Lean model of gen-crypt-hashes-h reproduces the table and default the tree was actually built with -/
theorem mkTable_ok :
    mkTable Gen.hashesConf (enabledOfList Gen.enabled) = Gen.table ∧
    mkDefault Gen.hashesConf (enabledOfList Gen.enabled) = Gen.defaultPrefix := by decide

theorem all_chunks (k : Nat) (hk : k < 64) : chunkOk k = true := by
    match k, hk with
    | 0, _ => exact chunk0
    | 1, _ => exact chunk1
    | 2, _ => exact chunk2
    | 3, _ => exact chunk3
    | 4, _ => exact chunk4
    | 5, _ => exact chunk5
    | 6, _ => exact chunk6
    | 7, _ => exact chunk7
    | 8, _ => exact chunk8
    | 9, _ => exact chunk9
    | 10, _ => exact chunk10
    | 11, _ => exact chunk11
    | 12, _ => exact chunk12
    | 13, _ => exact chunk13
    | 14, _ => exact chunk14
    | 15, _ => exact chunk15
    | 16, _ => exact chunk16
    | 17, _ => exact chunk17
    | 18, _ => exact chunk18
    | 19, _ => exact chunk19
    | 20, _ => exact chunk20
    | 21, _ => exact chunk21
    | 22, _ => exact chunk22
    | 23, _ => exact chunk23
    | 24, _ => exact chunk24
    | 25, _ => exact chunk25
    | 26, _ => exact chunk26
    | 27, _ => exact chunk27
    | 28, _ => exact chunk28
    | 29, _ => exact chunk29
    | 30, _ => exact chunk30
    | 31, _ => exact chunk31
    | 32, _ => exact chunk32
    | 33, _ => exact chunk33
    | 34, _ => exact chunk34
    | 35, _ => exact chunk35
    | 36, _ => exact chunk36
    | 37, _ => exact chunk37
    | 38, _ => exact chunk38
    | 39, _ => exact chunk39
    | 40, _ => exact chunk40
    | 41, _ => exact chunk41
    | 42, _ => exact chunk42
    | 43, _ => exact chunk43
    | 44, _ => exact chunk44
    | 45, _ => exact chunk45
    | 46, _ => exact chunk46
    | 47, _ => exact chunk47
    | 48, _ => exact chunk48
    | 49, _ => exact chunk49
    | 50, _ => exact chunk50
    | 51, _ => exact chunk51
    | 52, _ => exact chunk52
    | 53, _ => exact chunk53
    | 54, _ => exact chunk54
    | 55, _ => exact chunk55
    | 56, _ => exact chunk56
    | 57, _ => exact chunk57
    | 58, _ => exact chunk58
    | 59, _ => exact chunk59
    | 60, _ => exact chunk60
    | 61, _ => exact chunk61
    | 62, _ => exact chunk62
    | 63, _ => exact chunk63
    | k + 64, h => omega

/-- **all 65 536 configurations**: the table is prefix-free with empty prefixes last, contains exactly the
    enabled methods under their own prefixes and entry points, and the default prefix is the first enabled
    default-capable method, strong, dispatched to itself and OK for crypt_checksalt -/
theorem C19_all_configs (n : Nat) (h : n < 65536) : cfgOk n = true := by
  have hk : n / 1024 < 64 := by omega
  have hc := all_chunks (n / 1024) hk
  unfold chunkOk at hc
  rw [List.all_eq_true] at hc
  apply hc
  rw [List.mem_map]
  exact ⟨n % 1024, List.mem_range.mpr (Nat.mod_lt _ (by decide)), by omega⟩

/-- every configuration's table satisfies what the round-trip theorem C01_roundtrip asks of it -/
theorem C19_tableOk (n : Nat) (h : n < 65536) : C18.TableOk (mkTable Gen.hashesConf (subsetOf n)) = true := by
  have := C19_all_configs n h
  unfold cfgOk at this
  simp only [Bool.and_eq_true] at this
  exact this.1.1.1.2

def bit (en : Method → Bool) (m : Method) : Nat := if en m then 1 else 0

/-- binary encoding of a selection -/
def encode (en : Method → Bool) : Nat := bit en .bcrypt * 1 + bit en .bcrypt_a * 2 + bit en .bcrypt_x * 4 + bit en .bcrypt_y * 8 + bit en .bigcrypt * 16 + bit en .bsdicrypt * 32 + bit en .descrypt * 64 + bit en .gost_yescrypt * 128 + bit en .md5crypt * 256 + bit en .nt * 512 + bit en .scrypt * 1024 + bit en .sha1crypt * 2048 + bit en .sha256crypt * 4096 + bit en .sha512crypt * 8192 + bit en .sunmd5 * 16384 + bit en .yescrypt * 32768

theorem bit_le (en : Method → Bool) (m : Method) : bit en m ≤ 1 := by unfold bit; split <;> omega
theorem bit_eq (en : Method → Bool) (m : Method) : en m = decide (bit en m = 1) := by unfold bit; cases en m <;> simp

/-- every subset of the sixteen methods is one of the 65 536 numbered configurations -/
theorem subsetOf_encode (en : Method → Bool) : encode en < 65536 ∧ ∀ m, subsetOf (encode en) m = en m := by
  have h_bcrypt := bit_le en .bcrypt
  have h_bcrypt_a := bit_le en .bcrypt_a
  have h_bcrypt_x := bit_le en .bcrypt_x
  have h_bcrypt_y := bit_le en .bcrypt_y
  have h_bigcrypt := bit_le en .bigcrypt
  have h_bsdicrypt := bit_le en .bsdicrypt
  have h_descrypt := bit_le en .descrypt
  have h_gost_yescrypt := bit_le en .gost_yescrypt
  have h_md5crypt := bit_le en .md5crypt
  have h_nt := bit_le en .nt
  have h_scrypt := bit_le en .scrypt
  have h_sha1crypt := bit_le en .sha1crypt
  have h_sha256crypt := bit_le en .sha256crypt
  have h_sha512crypt := bit_le en .sha512crypt
  have h_sunmd5 := bit_le en .sunmd5
  have h_yescrypt := bit_le en .yescrypt
  refine ⟨by unfold encode; omega, ?_⟩
  intro m
  rw [bit_eq en m]
  unfold encode subsetOf
  cases m <;> simp only [Method.nameRank] <;> congr 1 <;> apply propext <;> constructor <;> intro h <;> omega


/-- **C01 in every configuration**: whatever subset of the sixteen methods is enabled (and whatever the build's default and
    descrypt switch), every successful result of every enabled method is accepted again,
    dispatched to the same row, and reproduces itself -/
theorem C19_roundtrip_every_config (en : Method → Bool) (dflt : Option Bytes) (d : Bool) (D : Digests) (hD : D.WF) (p s H : Bytes)
    (h : cryptPure { table := mkTable Gen.hashesConf en, dflt := dflt, descryptOn := d } D p s = .ok H) :
    cryptPure { table := mkTable Gen.hashesConf en, dflt := dflt, descryptOn := d } D p H = .ok H := by
  obtain ⟨hlt, heq⟩ := subsetOf_encode en
  have hen : subsetOf (encode en) = en := funext heq
  have hT := C19_tableOk (encode en) hlt
  rw [hen] at hT
  exact C01.C01_roundtrip _ hT D hD p s H h

/-- **C10 in every configuration**: whatever subset of the methods is enabled, a setting returned by `crypt_gensalt_rn` is
    passwd-safe, selects the same table row as the prefix it was generated for, and `crypt` of any phrase (shorter than 512 bytes)
    with it succeeds with a hash that begins with the generated setting (bigcrypt without descrypt: with its two salt characters) -/
theorem C19_gensalt_accepted_every_config (en : Method → Bool) (dflt : Option Bytes) (d : Bool) (D : Digests) (hD : D.WF)
    (hst : ∀ f, D.bfSelfTest f = true) (pfx : Option Bytes) (count : Nat) (rb : Option Bytes) (nrb osize : Int) (os : Nat → Bytes) (S : Bytes)
    (h : (gensaltRn { table := mkTable Gen.hashesConf en, dflt := dflt, descryptOn := d } pfx count rb nrb osize os).ret = some S)
    (p : Bytes) (hp : p.length < Gen.CRYPT_MAX_PASSPHRASE_SIZE) (hk : C10.KdfOk D p) :
    passwdSafe S = true ∧ ∃ H, cryptPure { table := mkTable Gen.hashesConf en, dflt := dflt, descryptOn := d } D p S = .ok H ∧ S.take 2 <+: H := by
  obtain ⟨hlt, heq⟩ := subsetOf_encode en
  have hen : subsetOf (encode en) = en := funext heq
  have hT := C19_tableOk (encode en) hlt
  rw [hen] at hT
  obtain ⟨hs, r, H, _, _, hH, hpre⟩ := C10.C10_api _ hT (C10.mkTable_same _ _) D hD hst pfx count rb nrb osize os S h p hp hk
  refine ⟨hs, H, hH, ?_⟩
  split at hpre
  · exact hpre
  · exact (List.take_prefix 2 S).trans hpre

/-- **C01, second clause, in every configuration**: in each of the 65 536 tables a successful result is `S ++ dig`, and any text of
    the same length over `./0-9A-Za-z` in place of `dig` gives the same result -/
theorem C19_hashpart_every_config (en : Method → Bool) (dflt : Option Bytes) (d : Bool) (D : Digests) (hD : D.WF) (p s H : Bytes)
    (h : cryptPure { table := mkTable Gen.hashesConf en, dflt := dflt, descryptOn := d } D p s = .ok H) :
    ∃ S dig, H = S ++ dig ∧ ∀ t, t.length = dig.length → HashText t →
      cryptPure { table := mkTable Gen.hashesConf en, dflt := dflt, descryptOn := d } D p (S ++ t) = .ok H := by
  obtain ⟨hlt, heq⟩ := subsetOf_encode en
  have hen : subsetOf (encode en) = en := funext heq
  have hT := C19_tableOk (encode en) hlt
  rw [hen] at hT
  exact C01.C01_hashpart_api _ hT D hD p s H h

end Xc.C19

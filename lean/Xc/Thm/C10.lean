/-
  C10 — every setting crypt_gensalt* produces is accepted by crypt and kept in the hash.
-/
import Xc.Thm.C13
import Xc.Thm.C18
namespace Xc.C10
open Xc

/-- determinism and agreement of the three entry points: `_ra` and the static variant are
    `crypt_gensalt_rn` with a CRYPT_GENSALT_OUTPUT_SIZE buffer; the result is a function of
    (prefix, count, random bytes) -/
theorem C10_entrypoints (cfg : Config) (pfx : Option Bytes) (count : Nat) (rb : Option Bytes) (nrb : Int) (os : Nat → Bytes) :
    (gensaltRa cfg pfx count rb nrb true os).ret = (gensaltRn cfg pfx count rb nrb Gen.CRYPT_GENSALT_OUTPUT_SIZE os).ret ∧
    (gensaltStatic cfg pfx count rb nrb os).ret = (gensaltRn cfg pfx count rb nrb Gen.CRYPT_GENSALT_OUTPUT_SIZE os).ret := by
  simp [gensaltRa, gensaltStatic]

/-- NULL selects exactly the preferred method's prefix -/
theorem C10_null_is_default (cfg : Config) (p : Bytes) (hp : cfg.dflt = some p)
    (count : Nat) (rb : Option Bytes) (nrb osize : Int) (os : Nat → Bytes) :
    gensaltRn cfg none count rb nrb osize os = gensaltRn cfg (some p) count rb nrb osize os :=
  C18.C18_preferred_gensalt cfg p hp count rb nrb osize os

/-- the method is selected by the leading tag only: a full hash or setting `H'` that starts with a
    table prefix (and with no other) behaves as that prefix -/
theorem C10_select (cfg : Config) (x y : Bytes) (hxy : getHashFn cfg.table x = getHashFn cfg.table y)
    (count : Nat) (rb : Option Bytes) (nrb osize : Int) (os : Nat → Bytes) :
    gensaltRn cfg (some x) count rb nrb osize os = gensaltRn cfg (some y) count rb nrb osize os := by
  simp [gensaltRn, resolvePrefix, hxy]

/-- a successful result is shorter than the buffer it was written to (192 for `_ra` and the static variant) -/
theorem C10_short (cfg : Config) (pfx : Option Bytes) (count : Nat) (rb : Option Bytes) (nrb : Int) (os : Nat → Bytes) (S : Bytes)
    (h : (gensaltStatic cfg pfx count rb nrb os).ret = some S) : S.length < Gen.CRYPT_GENSALT_OUTPUT_SIZE := by
  have := (C13.C13_fit cfg pfx count rb nrb Gen.CRYPT_GENSALT_OUTPUT_SIZE os S (by simpa [gensaltStatic] using h)).1
  exact_mod_cast this

end Xc.C10

/-
  C10 — every setting crypt_gensalt* produces is accepted by crypt and kept in the hash.
-/
import Xc.Thm.C13
import Xc.Thm.C18
import Xc.Lemmas.Accept
import Xc.Lemmas.Accept2
import Xc.Lemmas.GensaltSafe
import Xc.Thm.C01
import Xc.Config
namespace Xc.C10
open Xc List

/-- determinism and agreement of the three entry points: `_ra` and the static variant are
    `crypt_gensalt_rn` with a CRYPT_GENSALT_OUTPUT_SIZE buffer; the result is a function of
    (prefix, count, random bytes) -/
theorem C10_entrypoints (cfg : Config) (pfx : Option Bytes) (count : Nat) (rb : Option Bytes) (nrb : Int) (os : Nat → Bytes) :
    (gensaltRa cfg pfx count rb nrb true os).ret = (gensaltRn cfg pfx count rb nrb Gen.CRYPT_GENSALT_OUTPUT_SIZE os).ret ∧
    (gensaltStatic cfg pfx count rb nrb os).ret = (gensaltRn cfg pfx count rb nrb Gen.CRYPT_GENSALT_OUTPUT_SIZE os).ret := by
  simp [gensaltRa, gensaltStatic]

/-- NULL selects exactly the preferred method's prefix -/
theorem C10_null_is_default (cfg : Config) (p : Bytes) (hp : cfg.dflt = some p)
    (count : Nat) (rb : Option Bytes) (nrb osize : Int) (os : Nat → Bytes) :
    gensaltRn cfg none count rb nrb osize os = gensaltRn cfg (some p) count rb nrb osize os :=
  C18.C18_preferred_gensalt cfg p hp count rb nrb osize os

/-- the method is selected by the leading tag only: a full hash or setting `H'` that starts with a
    table prefix (and with no other) behaves as that prefix -/
theorem C10_select (cfg : Config) (x y : Bytes) (hxy : getHashFn cfg.table x = getHashFn cfg.table y)
    (count : Nat) (rb : Option Bytes) (nrb osize : Int) (os : Nat → Bytes) :
    gensaltRn cfg (some x) count rb nrb osize os = gensaltRn cfg (some y) count rb nrb osize os := by
  simp [gensaltRn, resolvePrefix, hxy]

/-- a successful result is shorter than the buffer it was written to (192 for `_ra` and the static variant) -/
theorem C10_short (cfg : Config) (pfx : Option Bytes) (count : Nat) (rb : Option Bytes) (nrb : Int) (os : Nat → Bytes) (S : Bytes)
    (h : (gensaltStatic cfg pfx count rb nrb os).ret = some S) : S.length < Gen.CRYPT_GENSALT_OUTPUT_SIZE := by
  have := (C13.C13_fit cfg pfx count rb nrb Gen.CRYPT_GENSALT_OUTPUT_SIZE os S (by simpa [gensaltStatic] using h)).1
  exact_mod_cast this


/-- the methods for which "crypt accepts what gensalt wrote and keeps it as a literal prefix" is proved -/
def accepted (m : Method) : Bool :=
  match m with
  | .nt | .descrypt | .bsdicrypt | .md5crypt | .sha256crypt | .sha512crypt | .sha1crypt | .bcrypt | .bcrypt_a | .bcrypt_y => true
  | _ => false

/-- **C10, acceptance clause** (method level, arbitrary digest functions): whatever a writer `gensalt_<m>_rn` produced — for every
    count, every random input, every nrbytes and every output size — the same method's `crypt_<m>_rn` accepts it for every phrase,
    and the resulting hash begins with the generated setting, character for character.  (bcrypt additionally needs its
    run-time self-test to pass, which is a property of the primitive, not of the strings.) -/
theorem C10_accept (d : Bool) (D : Digests) (hst : ∀ f, D.bfSelfTest f = true) (m : Method) (hm : accepted m = true)
    (count : Nat) (rb : Bytes) (n osize : Nat) (S : Bytes) (e : Nat) (h : gensaltMethod d m count rb n osize = .ok S e) (p : Bytes) :
    ∃ H, cryptMethod d D m p S = .ok H ∧ S <+: H := by
  cases m <;> simp only [accepted] at hm <;> simp only [gensaltMethod, cryptMethod] at h ⊢
  all_goals first
    | (cases hm; done)
    | exact accept_bf _ count rb n osize S e h D hst p
    | exact accept_sha512 count rb n osize S e h D p
    | exact accept_sha256 count rb n osize S e h D p
    | exact accept_sha1 count rb n osize S e h D p
    | exact accept_md5 count rb n osize S e h D p
    | exact accept_nt count osize S e h D p
    | exact accept_bsdi count rb n osize S e h D p
    | exact accept_des count rb n osize S e h D p

/-- "the KDF itself succeeds": whenever the parameters pass `yescrypt_kdf`'s sanity checks, memory is available (allocation
    failure is C15's subject; it is the only way a generated yescrypt-family setting can fail to hash) -/
def KdfOk (D : Digests) (p : Bytes) : Prop := ∀ P salt, yesKdfParamsOk P = true → (D.yescrypt P salt p).isSome = true

theorem kdfParams_gen : (∀ c, 1 ≤ c → c ≤ 11 → yesKdfParamsOk (yesParamsOf c) = true) ∧
    (∀ c, 6 ≤ c → c ≤ 11 → yesKdfParamsOk (scryptParamsOf c) = true) := by
  constructor
  · intro c h1 h2
    rcases cases_1_11 h1 h2 with rfl | rfl | rfl | rfl | rfl | rfl | rfl | rfl | rfl | rfl | rfl <;> decide
  · intro c h1 h2
    rcases cases_6_11 h1 h2 with rfl | rfl | rfl | rfl | rfl | rfl <;> decide

/-- **C10, acceptance clause for every method** (all sixteen; `$2x$` never generates anything): the method's `crypt` accepts
    what its `gensalt` wrote and the hash begins with the generated setting.  The yescrypt family needs the KDF to find its
    memory (`KdfOk`); bigcrypt keeps the whole setting when descrypt is enabled (the tree's configuration) and otherwise the two
    salt characters — the twelve filler characters written in a build without descrypt are, by design, not part of the hash. -/
theorem C10_accept_all (d : Bool) (D : Digests) (hD : D.WF) (hst : ∀ f, D.bfSelfTest f = true) (m : Method)
    (count : Nat) (rb : Bytes) (n osize : Nat) (S : Bytes) (e : Nat) (h : gensaltMethod d m count rb n osize = .ok S e)
    (p : Bytes) (hk : KdfOk D p) :
    ∃ H, cryptMethod d D m p S = .ok H ∧ (if m = .bigcrypt ∧ d = false then S.take 2 <+: H else S <+: H) := by
  by_cases hacc : accepted m = true
  · obtain ⟨H, h1, h2⟩ := C10_accept d D hst m hacc count rb n osize S e h p
    refine ⟨H, h1, ?_⟩
    have : ¬ (m = .bigcrypt ∧ d = false) := by intro hh; rw [hh.1] at hacc; simp [accepted] at hacc
    rw [if_neg this]; exact h2
  · cases m <;> simp only [accepted, not_true_eq_false] at hacc <;> simp only [gensaltMethod, cryptMethod] at h ⊢
    case yescrypt =>
      obtain ⟨c1, c2, _, _⟩ := gensaltYescrypt_shape h
      rw [accept_yescrypt count rb n osize S e h D hD p]
      have := hk _ (padTo rb (min n 64)) (kdfParams_gen.1 _ c1 c2)
      cases hq : D.yescrypt (yesParamsOf (dfl count 5)) (padTo rb (min n 64)) p with
      | none => rw [hq] at this; cases this
      | some hd => exact ⟨_, rfl, by simp⟩
    case gost_yescrypt =>
      obtain ⟨c1, c2, _, _⟩ := gensaltGost_shape h
      rw [accept_gost count rb n osize S e h D hD p]
      have := hk _ (padTo rb (min n 64)) (kdfParams_gen.1 _ c1 c2)
      cases hq : D.yescrypt (yesParamsOf (dfl count 5)) (padTo rb (min n 64)) p with
      | none => rw [hq] at this; cases this
      | some hd => exact ⟨_, rfl, by simp⟩
    case scrypt =>
      obtain ⟨c1, c2, _, _⟩ := gensaltScrypt_shape h
      rw [accept_scrypt count rb n osize S e h D hD p]
      have := hk _ (encode64 (padTo rb (min n 64))) (kdfParams_gen.2 _ c1 c2)
      cases hq : D.yescrypt (scryptParamsOf (dfl count 7)) (encode64 (padTo rb (min n 64))) p with
      | none => rw [hq] at this; cases this
      | some hd => exact ⟨_, rfl, by simp⟩
    case bcrypt_x => cases h
    case sunmd5 =>
      rw [accept_sunmd5 count rb n osize S e h D p]
      exact ⟨_, rfl, by simp⟩
    case bigcrypt =>
      obtain ⟨H, h1, h2, h3⟩ := accept_big d count rb n osize S e h D p
      refine ⟨H, h1, ?_⟩
      cases d with
      | true => simp; exact h3 rfl
      | false => simp; exact h2

theorem tags : C18.tagOf .yescrypt = [36, 121, 36] ∧ C18.tagOf .gost_yescrypt = [36, 103, 121, 36] ∧ C18.tagOf .scrypt = [36, 55, 36] ∧
    C18.tagOf .bcrypt = [36, 50, 98, 36] ∧ C18.tagOf .bcrypt_a = [36, 50, 97, 36] ∧ C18.tagOf .bcrypt_y = [36, 50, 121, 36] ∧
    C18.tagOf .sha512crypt = [36, 54, 36] ∧ C18.tagOf .sha256crypt = [36, 53, 36] ∧ C18.tagOf .md5crypt = [36, 49, 36] ∧
    C18.tagOf .sha1crypt = [36, 115, 104, 97, 49] ∧ C18.tagOf .sunmd5 = [36, 109, 100, 53] ∧ C18.tagOf .nt = [36, 51, 36] ∧
    C18.tagOf .bsdicrypt = [95] ∧ C18.tagOf .descrypt = [] ∧ C18.tagOf .bigcrypt = [] := by decide

/-- a generated setting begins with the tag of the method that wrote it -/
theorem gensalt_tag (d : Bool) (m : Method) (count : Nat) (rb : Bytes) (n o : Nat) (S : Bytes) (e : Nat)
    (h : gensaltMethod d m count rb n o = .ok S e) :
    C18.tagOf m <+: S ∧ (C18.tagOf m = [] → isDesSaltChar (cat S 0) = true ∧ isDesSaltChar (cat S 1) = true ∧ S ≠ []) := by
  obtain ⟨t1, t2, t3, t4, t5, t6, t7, t8, t9, t10, t11, t12, t13, t14, t15⟩ := tags
  have pre : ∀ (t x : Bytes), t <+: t ++ x := fun t x => ⟨x, rfl⟩
  have nc : ∀ {P : Prop} {a : UInt8} {l : Bytes}, (a :: l = [] → P) := fun c => by cases c
  cases m <;> simp only [gensaltMethod] at h
  case yescrypt =>
    obtain ⟨_, _, _, hS⟩ := gensaltYescrypt_shape h
    rw [t1, hS, yesPfx_split, List.append_assoc]; exact ⟨pre _ _, nc⟩
  case gost_yescrypt =>
    obtain ⟨_, _, _, hS⟩ := gensaltGost_shape h
    rw [t2, hS, List.append_assoc]; exact ⟨pre _ _, nc⟩
  case scrypt =>
    obtain ⟨_, _, _, hS⟩ := gensaltScrypt_shape h
    rw [t3, hS]; unfold scryptPfx; simp only [List.append_assoc]; exact ⟨pre _ _, nc⟩
  case bcrypt | bcrypt_y | bcrypt_a =>
    unfold gensaltBf at h
    simp only [] at h
    split at h; · cases h
    split at h; · cases h
    simp only [WOut.ok.injEq] at h
    first | rw [t4, ← h.1] | rw [t5, ← h.1] | rw [t6, ← h.1]
    exact ⟨⟨_, rfl⟩, nc⟩
  case bcrypt_x => cases h
  case sha512crypt =>
    obtain ⟨c, salt, hS, _⟩ := gensaltSha_shape 54 _ _ _ _ count rb n o S e (by decide) (by decide) (by decide) (by decide) h
    rw [t7, hS, List.append_assoc]; exact ⟨pre _ _, nc⟩
  case sha256crypt =>
    obtain ⟨c, salt, hS, _⟩ := gensaltSha_shape 53 _ _ _ _ count rb n o S e (by decide) (by decide) (by decide) (by decide) h
    rw [t8, hS, List.append_assoc]; exact ⟨pre _ _, nc⟩
  case md5crypt =>
    unfold gensaltMd5 at h
    split at h; · cases h
    obtain ⟨c, salt, hS, _⟩ := gensaltSha_shape 49 _ _ _ _ 1000 rb n o S e (by decide) (by decide) (by decide) (by decide) h
    rw [t9, hS, List.append_assoc]; exact ⟨pre _ _, nc⟩
  case sha1crypt =>
    unfold gensaltSha1 at h
    split at h; · cases h
    split at h; · cases h
    dsimp only at h
    split at h; · cases h
    simp only [WOut.ok.injEq] at h
    rw [t10, ← h.1]
    have q : ∀ x : Bytes, [36, 115, 104, 97, 49] <+: [36, 115, 104, 97, 49, 36] ++ x := fun x => ⟨36 :: x, rfl⟩
    simp only [List.append_assoc]
    exact ⟨q _, nc⟩
  case sunmd5 =>
    unfold gensaltSunmd5 at h
    split at h; · cases h
    split at h; · cases h
    dsimp only at h
    split at h; · cases h
    simp only [WOut.ok.injEq] at h
    rw [t11, ← h.1]
    have q : Gen.SUNMD5_PREFIX = [36, 109, 100, 53] := rfl
    rw [q]
    simp only [List.append_assoc]
    exact ⟨pre _ _, nc⟩
  case nt =>
    unfold gensaltNt at h
    split at h; · cases h
    split at h; · cases h
    simp only [WOut.ok.injEq] at h
    rw [t12, ← h.1]; exact ⟨List.prefix_refl _, nc⟩
  case bsdicrypt =>
    unfold gensaltBsdi at h
    split at h; · cases h
    split at h; · cases h
    simp only [WOut.ok.injEq] at h
    rw [t13, ← h.1, List.append_assoc]; exact ⟨pre _ _, nc⟩
  case descrypt =>
    rw [t14, des_text h]
    exact ⟨List.nil_prefix, fun _ => ⟨by simp [cat, C01.isDes_a64'], by simp [cat, C01.isDes_a64'], by simp⟩⟩
  case bigcrypt =>
    rw [t15]
    refine ⟨List.nil_prefix, fun _ => ?_⟩
    unfold gensaltBig at h
    cases d with
    | true =>
      simp only [if_true] at h; rw [des_text h]
      exact ⟨by simp [cat, C01.isDes_a64'], by simp [cat, C01.isDes_a64'], by simp⟩
    | false =>
      simp only [Bool.false_eq_true, if_false] at h
      split at h; · cases h
      split at h
      · rename_i s ext hs
        simp only [WOut.ok.injEq] at h
        rw [← h.1, des_text hs]
        exact ⟨by simp [cat, C01.isDes_a64'], by simp [cat, C01.isDes_a64'], by simp⟩
      · rename_i x hne; exact absurd h (hne S e)

/-- rows of a generated table call the same method for hashing and for gensalt -/
theorem mkTable_same (conf : List ConfEntry) (en : Method → Bool) : ∀ r ∈ mkTable conf en, r.gensalt = r.crypt := by
  intro r hr
  unfold mkTable at hr
  simp only [List.mem_map] at hr
  obtain ⟨e, _, rfl⟩ := hr
  rfl

theorem table_same_tree : ∀ r ∈ Gen.table, r.gensalt = r.crypt := by decide

/-- **C10 at the level of the API**: in every configuration whose table is `TableOk` and whose rows use one method for hashing
    and gensalt (every generated table: `mkTable_same`), whatever `crypt_gensalt_rn` returned — any prefix (or NULL), count, random
    bytes, nrbytes, output size — is passwd-safe, is dispatched by `crypt` to the same table row the prefix selected, and `crypt`
    of any phrase shorter than 512 bytes with it succeeds with a hash that begins with the generated setting -/
theorem C10_api (cfg : Config) (hT : C18.TableOk cfg.table = true) (hG : ∀ r ∈ cfg.table, r.gensalt = r.crypt)
    (D : Digests) (hD : D.WF) (hst : ∀ f, D.bfSelfTest f = true)
    (pfx : Option Bytes) (count : Nat) (rb : Option Bytes) (nrb osize : Int) (os : Nat → Bytes) (S : Bytes)
    (h : (gensaltRn cfg pfx count rb nrb osize os).ret = some S) (p : Bytes) (hp : p.length < Gen.CRYPT_MAX_PASSPHRASE_SIZE) (hk : KdfOk D p) :
    passwdSafe S = true ∧
    ∃ r H, getHashFn cfg.table S = some r ∧ (∃ p0, resolvePrefix cfg pfx = some p0 ∧ getHashFn cfg.table p0 = some r) ∧
      cryptPure cfg D p S = .ok H ∧ (if r.crypt = .bigcrypt ∧ cfg.descryptOn = false then S.take 2 <+: H else S <+: H) := by
  unfold gensaltRn at h
  by_cases h3 : osize < 3
  · rw [if_pos h3] at h; simp [GRes.fail] at h
  rw [if_neg h3] at h
  cases hp0 : resolvePrefix cfg pfx with
  | none => rw [hp0] at h; simp [GRes.fail] at h
  | some p0 =>
    rw [hp0] at h
    simp only [] at h
    cases hg : getHashFn cfg.table p0 with
    | none => rw [hg] at h; simp [GRes.fail] at h
    | some r =>
      rw [hg] at h
      simp only [] at h
      cases hw : gensaltMethod cfg.descryptOn r.gensalt count (rbArgs r rb nrb os).1 (rbArgs r rb nrb os).2 osize.toNat with
      | err e => rw [hw] at h; simp [GRes.fail] at h
      | abort => rw [hw] at h; simp [GRes.fail] at h
      | ok s ext =>
        rw [hw] at h
        simp only [Option.some.injEq] at h
        subst h
        have rmem : r ∈ cfg.table := List.mem_of_find?_eq_some hg
        have hsame := hG r rmem
        rw [hsame] at hw
        have hsafe := gensaltMethod_safe _ _ _ _ _ _ _ _ hw
        refine ⟨hsafe, ?_⟩
        obtain ⟨htag, hdes⟩ := gensalt_tag _ _ _ _ _ _ _ _ hw
        have hT' := hT
        simp only [C18.TableOk, Bool.and_eq_true, List.all_eq_true] at hT'
        obtain ⟨_, htagr⟩ := hT'
        have rtag : r.pfx = C18.tagOf r.crypt := by simpa using htagr r rmem
        have hdisp : getHashFn cfg.table s = some r := by
          apply C01.redispatch cfg.table hT p0 s r hg
          by_cases he : r.pfx = []
          · right
            have := hdes (by rw [← rtag]; exact he)
            exact ⟨he, this.1, this.2.1, this.2.2⟩
          · left; exact ⟨he, by rw [rtag]; exact htag⟩
        obtain ⟨H, hH, hpre⟩ := C10_accept_all cfg.descryptOn D hD hst r.crypt count _ _ _ s ext hw p hk
        refine ⟨r, H, hdisp, ⟨p0, rfl, hg⟩, ?_, hpre⟩
        unfold cryptPure
        rw [if_neg (by omega), checkBad_eq, hsafe]
        simp only [Bool.not_true, Bool.false_eq_true, if_false, hdisp]
        exact hH

end Xc.C10

/-
  C10 — every setting crypt_gensalt* produces is accepted by crypt and kept in the hash.
-/
import Xc.Thm.C13
import Xc.Thm.C18
import Xc.Lemmas.Accept
namespace Xc.C10
open Xc

/-- determinism and agreement of the three entry points: `_ra` and the static variant are
    `crypt_gensalt_rn` with a CRYPT_GENSALT_OUTPUT_SIZE buffer; the result is a function of
    (prefix, count, random bytes) -/
theorem C10_entrypoints (cfg : Config) (pfx : Option Bytes) (count : Nat) (rb : Option Bytes) (nrb : Int) (os : Nat → Bytes) :
    (gensaltRa cfg pfx count rb nrb true os).ret = (gensaltRn cfg pfx count rb nrb Gen.CRYPT_GENSALT_OUTPUT_SIZE os).ret ∧
    (gensaltStatic cfg pfx count rb nrb os).ret = (gensaltRn cfg pfx count rb nrb Gen.CRYPT_GENSALT_OUTPUT_SIZE os).ret := by
  simp [gensaltRa, gensaltStatic]

/-- NULL selects exactly the preferred method's prefix -/
theorem C10_null_is_default (cfg : Config) (p : Bytes) (hp : cfg.dflt = some p)
    (count : Nat) (rb : Option Bytes) (nrb osize : Int) (os : Nat → Bytes) :
    gensaltRn cfg none count rb nrb osize os = gensaltRn cfg (some p) count rb nrb osize os :=
  C18.C18_preferred_gensalt cfg p hp count rb nrb osize os

/-- the method is selected by the leading tag only: a full hash or setting `H'` that starts with a
    table prefix (and with no other) behaves as that prefix -/
theorem C10_select (cfg : Config) (x y : Bytes) (hxy : getHashFn cfg.table x = getHashFn cfg.table y)
    (count : Nat) (rb : Option Bytes) (nrb osize : Int) (os : Nat → Bytes) :
    gensaltRn cfg (some x) count rb nrb osize os = gensaltRn cfg (some y) count rb nrb osize os := by
  simp [gensaltRn, resolvePrefix, hxy]

/-- a successful result is shorter than the buffer it was written to (192 for `_ra` and the static variant) -/
theorem C10_short (cfg : Config) (pfx : Option Bytes) (count : Nat) (rb : Option Bytes) (nrb : Int) (os : Nat → Bytes) (S : Bytes)
    (h : (gensaltStatic cfg pfx count rb nrb os).ret = some S) : S.length < Gen.CRYPT_GENSALT_OUTPUT_SIZE := by
  have := (C13.C13_fit cfg pfx count rb nrb Gen.CRYPT_GENSALT_OUTPUT_SIZE os S (by simpa [gensaltStatic] using h)).1
  exact_mod_cast this


/-- the methods for which "crypt accepts what gensalt wrote and keeps it as a literal prefix" is proved -/
def accepted (m : Method) : Bool :=
  match m with
  | .nt | .descrypt | .bsdicrypt | .md5crypt | .sha256crypt | .sha512crypt | .sha1crypt | .bcrypt | .bcrypt_a | .bcrypt_y => true
  | _ => false

/-- **C10, acceptance clause** (method level, arbitrary digest functions): whatever a writer `gensalt_<m>_rn` produced — for every
    count, every random input, every nrbytes and every output size — the same method's `crypt_<m>_rn` accepts it for every phrase,
    and the resulting hash begins with the generated setting, character for character.  (bcrypt additionally needs its
    run-time self-test to pass, which is a property of the primitive, not of the strings.) -/
theorem C10_accept (d : Bool) (D : Digests) (hst : ∀ f, D.bfSelfTest f = true) (m : Method) (hm : accepted m = true)
    (count : Nat) (rb : Bytes) (n osize : Nat) (S : Bytes) (e : Nat) (h : gensaltMethod d m count rb n osize = .ok S e) (p : Bytes) :
    ∃ H, cryptMethod d D m p S = .ok H ∧ S <+: H := by
  cases m <;> simp only [accepted] at hm <;> simp only [gensaltMethod, cryptMethod] at h ⊢
  all_goals first
    | (cases hm; done)
    | exact accept_bf _ count rb n osize S e h D hst p
    | exact accept_sha512 count rb n osize S e h D p
    | exact accept_sha256 count rb n osize S e h D p
    | exact accept_sha1 count rb n osize S e h D p
    | exact accept_md5 count rb n osize S e h D p
    | exact accept_nt count osize S e h D p
    | exact accept_bsdi count rb n osize S e h D p
    | exact accept_des count rb n osize S e h D p

end Xc.C10

/-
  C10 — every setting crypt_gensalt* produces is accepted by crypt and kept in the hash.
-/
import Xc.Thm.C13
import Xc.Thm.C18
import Xc.Lemmas.Accept
import Xc.Lemmas.Accept2
namespace Xc.C10
open Xc

/-- determinism and agreement of the three entry points: `_ra` and the static variant are
    `crypt_gensalt_rn` with a CRYPT_GENSALT_OUTPUT_SIZE buffer; the result is a function of
    (prefix, count, random bytes) -/
theorem C10_entrypoints (cfg : Config) (pfx : Option Bytes) (count : Nat) (rb : Option Bytes) (nrb : Int) (os : Nat → Bytes) :
    (gensaltRa cfg pfx count rb nrb true os).ret = (gensaltRn cfg pfx count rb nrb Gen.CRYPT_GENSALT_OUTPUT_SIZE os).ret ∧
    (gensaltStatic cfg pfx count rb nrb os).ret = (gensaltRn cfg pfx count rb nrb Gen.CRYPT_GENSALT_OUTPUT_SIZE os).ret := by
  simp [gensaltRa, gensaltStatic]

/-- NULL selects exactly the preferred method's prefix -/
theorem C10_null_is_default (cfg : Config) (p : Bytes) (hp : cfg.dflt = some p)
    (count : Nat) (rb : Option Bytes) (nrb osize : Int) (os : Nat → Bytes) :
    gensaltRn cfg none count rb nrb osize os = gensaltRn cfg (some p) count rb nrb osize os :=
  C18.C18_preferred_gensalt cfg p hp count rb nrb osize os

/-- the method is selected by the leading tag only: a full hash or setting `H'` that starts with a
    table prefix (and with no other) behaves as that prefix -/
theorem C10_select (cfg : Config) (x y : Bytes) (hxy : getHashFn cfg.table x = getHashFn cfg.table y)
    (count : Nat) (rb : Option Bytes) (nrb osize : Int) (os : Nat → Bytes) :
    gensaltRn cfg (some x) count rb nrb osize os = gensaltRn cfg (some y) count rb nrb osize os := by
  simp [gensaltRn, resolvePrefix, hxy]

/-- a successful result is shorter than the buffer it was written to (192 for `_ra` and the static variant) -/
theorem C10_short (cfg : Config) (pfx : Option Bytes) (count : Nat) (rb : Option Bytes) (nrb : Int) (os : Nat → Bytes) (S : Bytes)
    (h : (gensaltStatic cfg pfx count rb nrb os).ret = some S) : S.length < Gen.CRYPT_GENSALT_OUTPUT_SIZE := by
  have := (C13.C13_fit cfg pfx count rb nrb Gen.CRYPT_GENSALT_OUTPUT_SIZE os S (by simpa [gensaltStatic] using h)).1
  exact_mod_cast this


/-- the methods for which "crypt accepts what gensalt wrote and keeps it as a literal prefix" is proved -/
def accepted (m : Method) : Bool :=
  match m with
  | .nt | .descrypt | .bsdicrypt | .md5crypt | .sha256crypt | .sha512crypt | .sha1crypt | .bcrypt | .bcrypt_a | .bcrypt_y => true
  | _ => false

/-- **C10, acceptance clause** (method level, arbitrary digest functions): whatever a writer `gensalt_<m>_rn` produced — for every
    count, every random input, every nrbytes and every output size — the same method's `crypt_<m>_rn` accepts it for every phrase,
    and the resulting hash begins with the generated setting, character for character.  (bcrypt additionally needs its
    run-time self-test to pass, which is a property of the primitive, not of the strings.) -/
theorem C10_accept (d : Bool) (D : Digests) (hst : ∀ f, D.bfSelfTest f = true) (m : Method) (hm : accepted m = true)
    (count : Nat) (rb : Bytes) (n osize : Nat) (S : Bytes) (e : Nat) (h : gensaltMethod d m count rb n osize = .ok S e) (p : Bytes) :
    ∃ H, cryptMethod d D m p S = .ok H ∧ S <+: H := by
  cases m <;> simp only [accepted] at hm <;> simp only [gensaltMethod, cryptMethod] at h ⊢
  all_goals first
    | (cases hm; done)
    | exact accept_bf _ count rb n osize S e h D hst p
    | exact accept_sha512 count rb n osize S e h D p
    | exact accept_sha256 count rb n osize S e h D p
    | exact accept_sha1 count rb n osize S e h D p
    | exact accept_md5 count rb n osize S e h D p
    | exact accept_nt count osize S e h D p
    | exact accept_bsdi count rb n osize S e h D p
    | exact accept_des count rb n osize S e h D p

/-- "the KDF itself succeeds": whenever the parameters pass `yescrypt_kdf`'s sanity checks, memory is available (allocation
    failure is C15's subject; it is the only way a generated yescrypt-family setting can fail to hash) -/
def KdfOk (D : Digests) (p : Bytes) : Prop := ∀ P salt, yesKdfParamsOk P = true → (D.yescrypt P salt p).isSome = true

theorem kdfParams_gen : (∀ c, 1 ≤ c → c ≤ 11 → yesKdfParamsOk (yesParamsOf c) = true) ∧
    (∀ c, 6 ≤ c → c ≤ 11 → yesKdfParamsOk (scryptParamsOf c) = true) := by
  constructor
  · intro c h1 h2
    rcases cases_1_11 h1 h2 with rfl | rfl | rfl | rfl | rfl | rfl | rfl | rfl | rfl | rfl | rfl <;> decide
  · intro c h1 h2
    rcases cases_6_11 h1 h2 with rfl | rfl | rfl | rfl | rfl | rfl <;> decide

/-- **C10, acceptance clause for every method** (all sixteen; `$2x$` never generates anything): the method's `crypt` accepts
    what its `gensalt` wrote and the hash begins with the generated setting.  The yescrypt family needs the KDF to find its
    memory (`KdfOk`); bigcrypt keeps the whole setting when descrypt is enabled (the tree's configuration) and otherwise the two
    salt characters — the twelve filler characters written in a build without descrypt are, by design, not part of the hash. -/
theorem C10_accept_all (d : Bool) (D : Digests) (hD : D.WF) (hst : ∀ f, D.bfSelfTest f = true) (m : Method)
    (count : Nat) (rb : Bytes) (n osize : Nat) (S : Bytes) (e : Nat) (h : gensaltMethod d m count rb n osize = .ok S e)
    (p : Bytes) (hk : KdfOk D p) :
    ∃ H, cryptMethod d D m p S = .ok H ∧ (if m = .bigcrypt ∧ d = false then S.take 2 <+: H else S <+: H) := by
  by_cases hacc : accepted m = true
  · obtain ⟨H, h1, h2⟩ := C10_accept d D hst m hacc count rb n osize S e h p
    refine ⟨H, h1, ?_⟩
    have : ¬ (m = .bigcrypt ∧ d = false) := by intro hh; rw [hh.1] at hacc; simp [accepted] at hacc
    rw [if_neg this]; exact h2
  · cases m <;> simp only [accepted, not_true_eq_false] at hacc <;> simp only [gensaltMethod, cryptMethod] at h ⊢
    case yescrypt =>
      obtain ⟨c1, c2, _, _⟩ := gensaltYescrypt_shape h
      rw [accept_yescrypt count rb n osize S e h D hD p]
      have := hk _ (padTo rb (min n 64)) (kdfParams_gen.1 _ c1 c2)
      cases hq : D.yescrypt (yesParamsOf (dfl count 5)) (padTo rb (min n 64)) p with
      | none => rw [hq] at this; cases this
      | some hd => exact ⟨_, rfl, by simp⟩
    case gost_yescrypt =>
      obtain ⟨c1, c2, _, _⟩ := gensaltGost_shape h
      rw [accept_gost count rb n osize S e h D hD p]
      have := hk _ (padTo rb (min n 64)) (kdfParams_gen.1 _ c1 c2)
      cases hq : D.yescrypt (yesParamsOf (dfl count 5)) (padTo rb (min n 64)) p with
      | none => rw [hq] at this; cases this
      | some hd => exact ⟨_, rfl, by simp⟩
    case scrypt =>
      obtain ⟨c1, c2, _, _⟩ := gensaltScrypt_shape h
      rw [accept_scrypt count rb n osize S e h D hD p]
      have := hk _ (encode64 (padTo rb (min n 64))) (kdfParams_gen.2 _ c1 c2)
      cases hq : D.yescrypt (scryptParamsOf (dfl count 7)) (encode64 (padTo rb (min n 64))) p with
      | none => rw [hq] at this; cases this
      | some hd => exact ⟨_, rfl, by simp⟩
    case bcrypt_x => cases h
    case sunmd5 =>
      rw [accept_sunmd5 count rb n osize S e h D p]
      exact ⟨_, rfl, by simp⟩
    case bigcrypt =>
      obtain ⟨H, h1, h2, h3⟩ := accept_big d count rb n osize S e h D p
      refine ⟨H, h1, ?_⟩
      cases d with
      | true => simp; exact h3 rfl
      | false => simp; exact h2

end Xc.C10

/-
  C18 — crypt_checksalt and crypt_preferred_method agree with crypt and crypt_gensalt.
  Facts about the *generated* dispatch table (`Gen.table`, `Gen.defaultPrefix`) are decided
  by kernel evaluation over the whole table; the characterisations hold for any table.
-/
import Xc.Gensalt
import Xc.Gen.Statics

namespace Xc.C18
open Xc

/-- INVALID exactly for NULL, empty, ill-charactered or unrecognised settings (any table) -/
theorem C18_invalid (tbl : List HashEntry) (s : Option Bytes) :
    checksalt tbl s = .invalid ↔
      (s = none ∨ ∃ b, s = some b ∧ (b = [] ∨ checkBadSaltChars b = true ∨ getHashFn tbl b = none)) := by
  cases s with
  | none => simp [checksalt]
  | some b =>
    simp only [checksalt, reduceCtorEq, Option.some.injEq, exists_eq_left', false_or]
    by_cases h1 : b = []
    · simp [h1]
    · by_cases h2 : checkBadSaltChars b = true
      · simp [h2]
      · cases h3 : getHashFn tbl b with
        | none => simp [h1, h2]
        | some h => simp [h1, h2]; split <;> simp

/-- OK exactly for recognised strong methods, LEGACY exactly for recognised non-strong ones;
    no other status is ever returned -/
theorem C18_ok_legacy (tbl : List HashEntry) (b : Bytes) (hne : b ≠ []) (hc : checkBadSaltChars b = false)
    (h : HashEntry) (hh : getHashFn tbl b = some h) :
    checksalt tbl (some b) = (if h.strong then .ok else .legacy) := by
  simp [checksalt, hne, hc, hh]

theorem C18_range (tbl : List HashEntry) (s : Option Bytes) :
    checksalt tbl s = .ok ∨ checksalt tbl s = .legacy ∨ checksalt tbl s = .invalid := by
  cases s with
  | none => simp [checksalt]
  | some b =>
    simp only [checksalt]
    split; · simp
    split; · simp
    split <;> simp

/-- the result depends only on which table row matches and on the character check -/
theorem C18_tag_only (tbl : List HashEntry) (b b' : Bytes) (hne : b ≠ []) (hne' : b' ≠ [])
    (hc : checkBadSaltChars b = checkBadSaltChars b') (hh : getHashFn tbl b = getHashFn tbl b') :
    checksalt tbl (some b) = checksalt tbl (some b') := by
  simp [checksalt, hne, hne', hc, hh]

/-- the strong methods of the tree's table are exactly the documented ones -/
theorem C18_strong :
    (Gen.table.filter (·.strong)).map (·.pfx) =
      [[36, 50, 97, 36], [36, 50, 98, 36], [36, 50, 121, 36], [36, 103, 121, 36], [36, 54, 36], [36, 55, 36], [36, 121, 36]] ∧
    (Gen.table.filter (·.strong)).map (·.crypt) =
      [.bcrypt_a, .bcrypt, .bcrypt_y, .gost_yescrypt, .sha512crypt, .scrypt, .yescrypt] := by
  decide

/-- no non-empty table prefix is a prefix of a different row's prefix, `plen` is the prefix length,
    and rows with an empty prefix come last: "first match" is "the unique match" -/
def prefixFree (tbl : List HashEntry) : Bool :=
  tbl.all (fun h => h.plen == h.pfx.length) &&
  tbl.all (fun h1 => tbl.all (fun h2 => h1.pfx.isEmpty || h2.pfx.isEmpty || h1 == h2 || !(h1.pfx.isPrefixOf h2.pfx))) &&
  (tbl.dropWhile (fun h => !h.pfx.isEmpty)).all (fun h => h.pfx.isEmpty)

theorem C18_prefixfree : prefixFree Gen.table = true := by decide

theorem matches_prefix (h : HashEntry) (s : Bytes) (hp : h.plen = h.pfx.length) (hpos : 0 < h.plen)
    (hm : h.matches s = true) : h.pfx <+: s := by
  unfold HashEntry.matches at hm
  rw [hp] at hpos
  rw [if_pos (by omega), hp, if_pos (Nat.le_refl _), List.take_length] at hm
  simpa [hasPrefix] using hm

/-- two rows with non-empty prefixes that both match a setting are the same row (table order is irrelevant
    among tagged methods) -/
theorem C18_unique_match (tbl : List HashEntry) (hpf : prefixFree tbl = true) (s : Bytes)
    (h1 h2 : HashEntry) (m1 : h1 ∈ tbl) (m2 : h2 ∈ tbl) (n1 : h1.pfx ≠ []) (n2 : h2.pfx ≠ [])
    (a1 : h1.matches s = true) (a2 : h2.matches s = true) : h1 = h2 := by
  simp only [prefixFree, Bool.and_eq_true, List.all_eq_true] at hpf
  obtain ⟨⟨hlen, hpair⟩, _⟩ := hpf
  have l1 := hlen h1 m1; have l2 := hlen h2 m2
  simp only [beq_iff_eq] at l1 l2
  have p1 : 0 < h1.plen := by rw [l1]; exact List.length_pos_iff.mpr n1
  have p2 : 0 < h2.plen := by rw [l2]; exact List.length_pos_iff.mpr n2
  have q1 := matches_prefix h1 s l1 p1 a1
  have q2 := matches_prefix h2 s l2 p2 a2
  have e1 : h1.pfx.isEmpty = false := by simpa using n1
  have e2 : h2.pfx.isEmpty = false := by simpa using n2
  rcases Nat.le_total h1.pfx.length h2.pfx.length with hle | hle
  · have := List.prefix_of_prefix_length_le q1 q2 hle
    have hp := hpair h1 m1 h2 m2
    simp only [e1, e2, Bool.false_or, Bool.or_eq_true, beq_iff_eq, Bool.not_eq_true'] at hp
    rcases hp with hp | hp
    · exact hp
    · have : h1.pfx.isPrefixOf h2.pfx = true := by simpa using this
      rw [this] at hp; cases hp
  · have := List.prefix_of_prefix_length_le q2 q1 hle
    have hp := hpair h2 m2 h1 m1
    simp only [e1, e2, Bool.false_or, Bool.or_eq_true, beq_iff_eq, Bool.not_eq_true'] at hp
    rcases hp with hp | hp
    · exact hp.symm
    · have : h2.pfx.isPrefixOf h1.pfx = true := by simpa using this
      rw [this] at hp; cases hp

/-- the untagged (DES) rows are selected exactly by two leading characters of the DES alphabet -/
theorem C18_des_rule (h : HashEntry) (s : Bytes) (hp : h.plen = 0) (hs : s ≠ []) :
    h.matches s = (isDesSaltChar (cat s 0) && isDesSaltChar (cat s 1)) := by
  unfold HashEntry.matches
  simp [hp, hs]

/-- crypt_preferred_method names a method for which checksalt says OK, and a NULL prefix
    means exactly that prefix to crypt_gensalt -/
theorem C18_preferred_ok : ∀ p, preferredMethod Gen.defaultPrefix = some p → checksalt Gen.table (some p) = .ok := by
  decide

theorem C18_preferred_gensalt (cfg : Config) (p : Bytes) (hp : preferredMethod cfg.dflt = some p)
    (count : Nat) (rb : Option Bytes) (nrb osize : Int) (os : Nat → Bytes) :
    gensaltRn cfg none count rb nrb osize os = gensaltRn cfg (some p) count rb nrb osize os := by
  unfold preferredMethod at hp
  simp [gensaltRn, resolvePrefix, hp]

example : checksalt Gen.table (some [36, 54, 36, 97]) = .ok := by decide
example : checksalt Gen.table (some [36, 53, 36, 97]) = .legacy := by decide
example : checksalt Gen.table (some [97, 98]) = .legacy := by decide
example : checksalt Gen.table (some [36, 54, 36, 58]) = .invalid := by decide
example : checksalt Gen.table (some [36, 122, 36]) = .invalid := by decide


/-! ### what the authentication round trip (C01) needs from a dispatch table -/

/-- the tag `hashes.conf` gives a method -/
def tagOf (m : Method) : Bytes := ((Gen.hashesConf.find? (·.name == m)).map (·.pfx)).getD []

/-- what the round trip needs from a dispatch table: first match = unique match, tags begin with a character outside the
    DES salt alphabet, and every row carries the tag `hashes.conf` gives its method -/
def TableOk (tbl : List HashEntry) : Bool :=
  prefixFree tbl &&
  tbl.all (fun r => r.pfx.isEmpty || !isDesSaltChar (cat r.pfx 0)) &&
  tbl.all (fun r => r.pfx == tagOf r.crypt)

theorem tableOk_tree : TableOk Gen.table = true := by decide


/-! ### the classification is a function of the bytes alone -/

/-- functions reachable in the call graph (the closure used by C08, restated here so that this file stands on its own) -/
def reachFrom (funcs : List (List Nat × Nat)) : Nat → List Nat → List Nat
  | 0, acc => acc
  | fuel + 1, acc =>
    let next := acc.foldl (fun a f => (funcs.getD f ([], 0)).1.foldl (fun a c => if a.contains c then a else c :: a) a) acc
    if next.length = acc.length then acc else reachFrom funcs fuel next

/-- libc functions whose result depends on nothing but their arguments (no locale, no global state) -/
def localeFree : List String :=
  ["strlen", "strnlen", "strcmp", "strncmp", "strchr", "strrchr", "strspn", "strcspn", "strpbrk", "strstr", "memcmp", "memchr", "memmem", "memcpy", "memmove",
   "memset", "strcpy", "strncpy", "__errno_location"]

set_option maxRecDepth 1000000 in
/-- no function reachable from `crypt_checksalt` (call graph and external callees regenerated from the clang AST of lib/*.c, indirect calls
    through the method table included) calls anything outside that list - in particular none of the `<ctype.h>` classification functions
    (`isgraph`, `isalnum`, … compile to `__ctype_b_loc`), whose answers change with `setlocale`: the answer depends on the method tag and the
    characters of the setting only, not on the process locale -/
theorem C18_locale_free :
    (reachFrom Gen.st_funcs Gen.st_funcs.length [Gen.st_reentrant.getD 5 0]).all
      (fun f => (Gen.st_ext.getD f []).all (fun e => localeFree.contains e)) = true := by
  decide +kernel

end Xc.C18

/-
  C13 — crypt_gensalt_rn honours output_size and reports errors without aborting.

  Statements are about `gensaltRn`, the model of lib/crypt.c:crypt_gensalt_rn
  composed with the sixteen writers (Xc/Gensalt.lean), for EVERY configuration
  `cfg` (dispatch table, default prefix), every prefix, count, random input,
  `nrbytes` and EVERY integer `output_size`.
-/
import Xc.Lemmas.Gensalt
import Xc.Lemmas.Mono

namespace Xc.C13
open Xc

/-- unfolding of `gensaltRn` past its argument checks: the result is determined by one writer call -/
theorem gensaltRn_cases (cfg : Config) (pfx : Option Bytes) (count : Nat) (rb : Option Bytes)
    (nrb osize : Int) (os : Nat → Bytes) (r : GRes) (hr : gensaltRn cfg pfx count rb nrb osize os = r) :
    (r.ret = none ∧ r.aborted = false ∧ (r.errno = some .ERANGE ∨ r.errno = some .EINVAL) ∧
        r.buf = failureToken (some []) osize ∧ r.ext = failureTokenExtent osize)
    ∨ (∃ m rb' n, 3 ≤ osize ∧
        match gensaltMethod cfg.descryptOn m count rb' n osize.toNat with
        | .ok s ext => r = { ret := some s, errno := none, buf := some s, ext := max (failureTokenExtent osize) ext }
        | .err e => r = { ret := none, errno := some e, buf := failureToken (some []) osize, ext := failureTokenExtent osize }
        | .abort => r.aborted = true) := by
  unfold gensaltRn at hr
  by_cases h3 : osize < 3
  · left; rw [if_pos h3] at hr; subst hr; simp [GRes.fail]
  · rw [if_neg h3] at hr
    generalize resolvePrefix cfg pfx = rp at hr
    cases rp with
    | none => left; subst hr; simp [GRes.fail]
    | some p =>
      simp only [] at hr
      generalize getHashFn cfg.table p = gh at hr
      cases gh with
      | none => left; subst hr; simp [GRes.fail]
      | some h =>
        right
        simp only [] at hr
        refine ⟨h.gensalt, (rbArgs h rb nrb os).1, (rbArgs h rb nrb os).2, by omega, ?_⟩
        generalize gensaltMethod cfg.descryptOn h.gensalt count (rbArgs h rb nrb os).1
          (rbArgs h rb nrb os).2 osize.toNat = o at hr
        cases o <;> simp only [] at hr ⊢ <;> subst hr <;> rfl

/-- **never terminates the process**: no `assert`/`strcpy_or_abort` is reachable -/
theorem C13_total (cfg : Config) (pfx : Option Bytes) (count : Nat) (rb : Option Bytes)
    (nrb osize : Int) (os : Nat → Bytes) :
    (gensaltRn cfg pfx count rb nrb osize os).aborted = false := by
  have := gensaltRn_cases cfg pfx count rb nrb osize os _ rfl
  rcases this with h | ⟨m, rb', n, h3, h⟩
  · exact h.2.1
  · have hg := gensaltMethod_good cfg.descryptOn m count rb' n osize.toNat
    generalize gensaltMethod cfg.descryptOn m count rb' n osize.toNat = o at h hg
    cases o with
    | ok s e => simp only [] at h; rw [h]
    | err e => simp only [] at h; rw [h]
    | abort => exact absurd hg (by simp [WOut.good])

/-- **success fits**: a returned setting is NUL-terminated strictly inside `output_size`,
    is what the buffer holds, and every write stayed below `output_size` -/
theorem C13_fit (cfg : Config) (pfx : Option Bytes) (count : Nat) (rb : Option Bytes)
    (nrb osize : Int) (os : Nat → Bytes) (S : Bytes)
    (hok : (gensaltRn cfg pfx count rb nrb osize os).ret = some S) :
    (S.length : Int) < osize ∧ (gensaltRn cfg pfx count rb nrb osize os).buf = some S ∧
    (gensaltRn cfg pfx count rb nrb osize os).errno = none := by
  have := gensaltRn_cases cfg pfx count rb nrb osize os _ rfl
  rcases this with h | ⟨m, rb', n, h3, h⟩
  · rw [h.1] at hok; cases hok
  · have hg := gensaltMethod_good cfg.descryptOn m count rb' n osize.toNat
    generalize gensaltMethod cfg.descryptOn m count rb' n osize.toNat = o at h hg
    cases o with
    | ok s e =>
      simp only [] at h; rw [h] at hok ⊢; simp only [Option.some.injEq] at hok; subst hok
      simp only [WOut.good] at hg
      refine ⟨by omega, rfl, rfl⟩
    | err e => simp only [] at h; rw [h] at hok; cases hok
    | abort => exact absurd hg (by simp [WOut.good])

/-- **failure is reported**: NULL comes with ERANGE or EINVAL and the buffer holds exactly the
    failure token that fits (`"*0"`, `"*"`, `""`, or nothing for sizes ≤ 0) -/
theorem C13_err (cfg : Config) (pfx : Option Bytes) (count : Nat) (rb : Option Bytes)
    (nrb osize : Int) (os : Nat → Bytes)
    (hnull : (gensaltRn cfg pfx count rb nrb osize os).ret = none) :
    let r := gensaltRn cfg pfx count rb nrb osize os
    (r.errno = some .ERANGE ∨ r.errno = some .EINVAL) ∧ r.buf = failureToken (some []) osize := by
  have := gensaltRn_cases cfg pfx count rb nrb osize os _ rfl
  simp only [] at ⊢
  rcases this with h | ⟨m, rb', n, h3, h⟩
  · exact ⟨h.2.2.1, h.2.2.2.1⟩
  · have hg := gensaltMethod_good cfg.descryptOn m count rb' n osize.toNat
    generalize gensaltMethod cfg.descryptOn m count rb' n osize.toNat = o at h hg
    cases o with
    | ok s e => simp only [] at h; rw [h] at hnull; cases hnull
    | err e =>
      simp only [] at h; rw [h]; simp only [WOut.good] at hg
      exact ⟨by rcases hg with rfl | rfl <;> simp, rfl⟩
    | abort => exact absurd hg (by simp [WOut.good])

/-- the failure token as a function of the size, spelled out -/
theorem C13_token_shape (osize : Int) :
    failureToken (some []) osize =
      if osize ≥ 3 then some [42, 48] else if osize = 2 then some [42] else if osize = 1 then some [] else none := by
  unfold failureToken; simp [cat]

/-- **write confinement**: every index written is `< max output_size 0`; nothing is written for sizes ≤ 0 -/
theorem C13_writes (cfg : Config) (pfx : Option Bytes) (count : Nat) (rb : Option Bytes)
    (nrb osize : Int) (os : Nat → Bytes) :
    ((gensaltRn cfg pfx count rb nrb osize os).ext : Int) ≤ max osize 0 := by
  have := gensaltRn_cases cfg pfx count rb nrb osize os _ rfl
  have htok : (failureTokenExtent osize : Int) ≤ max osize 0 := by
    unfold failureTokenExtent; repeat' split
    all_goals omega
  rcases this with h | ⟨m, rb', n, h3, h⟩
  · rw [h.2.2.2.2]; exact htok
  · have hg := gensaltMethod_good cfg.descryptOn m count rb' n osize.toNat
    generalize gensaltMethod cfg.descryptOn m count rb' n osize.toNat = o at h hg
    cases o with
    | ok s e =>
      simp only [] at h; rw [h]; simp only [WOut.good] at hg
      simp only []
      have h3' : failureTokenExtent osize = 3 := by unfold failureTokenExtent; simp [h3]
      rw [h3']
      omega
    | err e => simp only [] at h; rw [h]; exact htok
    | abort => exact absurd hg (by simp [WOut.good])

/-- the result is a function of its arguments only (no hidden state): trivially true of a Lean
    function, recorded because C10/C07 cite it; `_ra` and the static variant are `_rn` at 192 -/
theorem C13_entrypoints (cfg : Config) (pfx : Option Bytes) (count : Nat) (rb : Option Bytes)
    (nrb : Int) (os : Nat → Bytes) :
    gensaltRa cfg pfx count rb nrb true os = gensaltRn cfg pfx count rb nrb Gen.CRYPT_GENSALT_OUTPUT_SIZE os ∧
    gensaltStatic cfg pfx count rb nrb os = gensaltRn cfg pfx count rb nrb Gen.CRYPT_GENSALT_OUTPUT_SIZE os := by
  simp [gensaltRa, gensaltStatic]

/-! Non-vacuity: concrete calls meeting the hypotheses (kernel-evaluated). -/
example : (gensaltRn Config.tree (some [36, 54, 36]) 0 (some (List.replicate 16 7)) 16 8).ret
            = some [36, 54, 36, 53, 81, 107, 47] := by decide
example : (gensaltRn Config.tree (some [36, 54, 36]) 0 (some (List.replicate 16 7)) 16 7).errno = some .ERANGE := by decide
example : (gensaltRn Config.tree (some [36, 54, 36]) 1000 (some (List.replicate 16 7)) 16 19).errno = some .ERANGE := by decide
example : ((gensaltRn Config.tree (some [36, 54, 36]) 1000 (some (List.replicate 16 7)) 16 20).ret.map List.length) = some 19 := by decide
example : (gensaltRn Config.tree none 0 none 0 2).buf = some [42] := by decide

/-- **success is monotone in `output_size`, and a smaller buffer receives a leading part** of what a larger one receives
    (the same string for every writer except the shared sha/md5 one, whose salt grows with the room) -/
theorem C13_monotone (cfg : Config) (pfx : Option Bytes) (count : Nat) (rb : Option Bytes) (nrb : Int) (osize osize' : Int)
    (os : Nat → Bytes) (S : Bytes) (h : (gensaltRn cfg pfx count rb nrb osize os).ret = some S) (ho : osize ≤ osize') :
    ∃ S', (gensaltRn cfg pfx count rb nrb osize' os).ret = some S' ∧ S <+: S' :=
  gensaltRn_monotone cfg pfx count rb nrb osize osize' os S h ho

/-- **CRYPT_GENSALT_OUTPUT_SIZE bytes always suffice for up to 64 random bytes**: with a 192-byte buffer no writer reports
    ERANGE, whatever the count and the random input -/
theorem C13_192_suffices (d : Bool) (m : Method) (count : Nat) (rb : Bytes) (n : Nat) (hn : n ≤ 64) :
    gensaltMethod d m count rb n Gen.CRYPT_GENSALT_OUTPUT_SIZE ≠ .err .ERANGE :=
  room_method d m count rb n hn

end Xc.C13

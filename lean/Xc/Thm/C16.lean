/-
  C16 — digest/MAC/KDF primitives are the standard functions for all lengths, chunkings.

  `MD.hash A m` is the published one-shot definition (append 0x80, zero padding, the bit length,
  fold the compression function over the blocks).  The C code is modelled by the streaming
  context (`init` / `update` / `final`); the theorems below say that the streaming computation
  equals the one-shot definition for EVERY message and EVERY way of cutting it into update calls,
  for MD4, MD5, SHA-1, SHA-256, SHA-512, and that the HMACs built from the streaming calls are
  RFC 2104 HMAC.  The compression functions and constants are tied to the code by generated
  tables and the correspondence (full digests, lengths 0..1100, all split points).
-/
import Xc.Lemmas.MD
import Xc.Prim.Cores
import Xc.Prim.Yescrypt
import Xc.Prim.Streebog
import Xc.Lemmas.Pbkdf2

namespace Xc.C16
open Xc MD

theorem C16_md5_streaming (chunks : List Bytes) :
    final Md5.alg (chunks.foldl (update Md5.alg) (init Md5.alg)) = Md5.hash chunks.flatten :=
  streaming_eq_hash Md5.alg (by decide) chunks

theorem C16_md4_streaming (chunks : List Bytes) :
    final Md4.alg (chunks.foldl (update Md4.alg) (init Md4.alg)) = Md4.hash chunks.flatten :=
  streaming_eq_hash Md4.alg (by decide) chunks

theorem C16_sha1_streaming (chunks : List Bytes) :
    final Sha1.alg (chunks.foldl (update Sha1.alg) (init Sha1.alg)) = Sha1.hash chunks.flatten :=
  streaming_eq_hash Sha1.alg (by decide) chunks

theorem C16_sha256_streaming (chunks : List Bytes) :
    final Sha256.alg (chunks.foldl (update Sha256.alg) (init Sha256.alg)) = Sha256.hash chunks.flatten :=
  streaming_eq_hash Sha256.alg (by decide) chunks

theorem C16_sha512_streaming (chunks : List Bytes) :
    final Sha512.alg (chunks.foldl (update Sha512.alg) (init Sha512.alg)) = Sha512.hash chunks.flatten :=
  streaming_eq_hash Sha512.alg (by decide) chunks

/-- the split of the input across update calls is irrelevant (any algorithm with a non-empty block) -/
theorem C16_chunking {σ} (A : Alg σ) (hb : 0 < A.block) (c1 c2 : List Bytes) (h : c1.flatten = c2.flatten) :
    final A (c1.foldl (update A) (init A)) = final A (c2.foldl (update A) (init A)) :=
  chunking_irrelevant A hb c1 c2 h

/-- the padded message is a whole number of blocks: "one or two final blocks" -/
theorem C16_padding_blocks {σ} (A : Alg σ) (hb : 0 < A.block) (hl : A.lenBytes < A.block) (m : Bytes) :
    (m ++ padding A m.length).length % A.block = 0 := by
  have hlf : (lenField A (8 * m.length)).length = A.lenBytes := by
    unfold lenField leBytes; split <;> simp
  simp only [padding, List.length_append, List.length_cons, List.length_replicate, hlf, zeroPad]
  have h1 := Nat.mod_lt (m.length + 1 + A.lenBytes) hb
  have h2 := Nat.div_add_mod (m.length + 1 + A.lenBytes) A.block
  generalize (m.length + 1 + A.lenBytes) % A.block = r at *
  generalize (m.length + 1 + A.lenBytes) / A.block = q at *
  by_cases hr : r = 0
  · subst hr
    simp only [Nat.sub_zero, Nat.mod_self, Nat.add_zero]
    have : m.length + (0 + 1) + A.lenBytes = A.block * q := by omega
    rw [show m.length + (0 + 1 + A.lenBytes) = A.block * q by omega]
    exact Nat.mul_mod_right _ _
  · have hlt : A.block - r < A.block := by omega
    rw [Nat.mod_eq_of_lt hlt]
    rw [show m.length + (A.block - r + 1 + A.lenBytes) = A.block * (q + 1) by rw [Nat.mul_add]; omega]
    exact Nat.mul_mod_right _ _

/-- HMAC as computed with streaming calls (alg-hmac-sha1.c, HMAC_SHA256_*, the shape shared by
    gost_hmac256) is RFC 2104: H((K' ⊕ opad) ‖ H((K' ⊕ ipad) ‖ text)), K' = H(K) for long keys -/
theorem C16_hmac {σ} (A : Alg σ) (hb : 0 < A.block) (key text : Bytes) :
    Cores.hmacGen A key text =
      (let k' := if key.length > A.block then hash A key else key
       let pad (p : UInt8) := (List.range A.block).map fun i => p ^^^ k'.getD i 0
       hash A (pad 0x5c ++ hash A (pad 0x36 ++ text))) := by
  simp only [Cores.hmacGen, Cores.digestOf]
  have e1 := streaming_eq_hash A hb
  rw [e1, e1]
  simp

theorem C16_hmac_sha1 (key text : Bytes) :
    Cores.hmacSha1 key text =
      (let k' := if key.length > 64 then Sha1.hash key else key
       let pad (p : UInt8) := (List.range 64).map fun i => p ^^^ k'.getD i 0
       Sha1.hash (pad 0x5c ++ Sha1.hash (pad 0x36 ++ text))) :=
  C16_hmac Sha1.alg (by decide) key text

theorem C16_hmac_sha256 (key text : Bytes) :
    Yes.hmacSha256 key text =
      (let k' := if key.length > 64 then Sha256.hash key else key
       let pad (p : UInt8) := (List.range 64).map fun i => p ^^^ k'.getD i 0
       Sha256.hash (pad 0x5c ++ Sha256.hash (pad 0x36 ++ text))) :=
  C16_hmac Sha256.alg (by decide) key text


/-! ### PBKDF2-HMAC-SHA256: the code's fast path is the standard function -/

/-- one output block of the `c == 1` fast path of `PBKDF2_SHA256` (contexts padded once with `SHA256_Pad_Almost`, two compressions per
    block, only the counter bytes rewritten) is RFC 2104 HMAC-SHA256 of `salt ‖ INT(i+1)`: every password, every salt whose last
    partial block has at most 51 bytes (the guard of the code), every block index -/
theorem C16_pbkdf2_fast_block (pw salt : Bytes) (i : Nat) (h : salt.length % 64 ≤ 51) :
    Yes.fastBlock Sha256.alg 32 pw salt i = Yes.hmacSha256 pw (salt ++ toBe32 (i + 1).toUInt32) :=
  Yes.fastBlock_eq Sha256.alg 32 (by decide) Yes.sha256_out_length (by decide) pw salt i (by show salt.length % 64 + 4 + 1 + 8 ≤ 64; omega)

/-- `PBKDF2_SHA256` as written - fast path where its guard holds, generic loop otherwise - is RFC 8018 PBKDF2 with HMAC-SHA256,
    for every password, salt, iteration count and output length -/
theorem C16_pbkdf2_fast_path (pw salt : Bytes) (c dkLen : Nat) :
    Yes.pbkdf2Impl pw salt c dkLen = Yes.pbkdf2Sha256 pw salt c dkLen :=
  Yes.pbkdf2Impl_eq pw salt c dkLen

/-- the fast path is really taken (guard true, no fall-back) for yescrypt's own calls: 32·k output bytes, c = 1, short salts -/
example : let salt : Bytes := List.replicate 16 7
    (1 = 1 ∧ 128 % 32 = 0 ∧ salt.length % 64 ≤ 51) ∧ ¬ ((64 + salt.length + 4) % 64 < (64 + salt.length) % 64 ∨ 56 ≤ (64 + salt.length + 4) % 64) := by decide

/-! ### Streebog: streaming = one-shot -/
section streebog
open Xc.Streebog

theorem sb_absorb_eq (iv : St) : ∀ (n : Nat) (s : St) (m : Bytes), m.length ≤ n →
    Streebog.absorb s m = (MD.absorb (alg iv) s (m.take (m.length / 64 * 64)), m.drop (m.length / 64 * 64)) := by
  intro n
  induction n with
  | zero =>
    intro s m h
    have : m = [] := by simpa using h
    subst this
    rw [Streebog.absorb]; simp [MD.absorb_short (alg iv) s [] (by simp [alg])]
  | succ n ih =>
    intro s m h
    rw [Streebog.absorb]
    split
    · rename_i hlt
      have : m.length / 64 = 0 := by omega
      simp [this, MD.absorb_short (alg iv) s [] (by simp [alg])]
    · rename_i hge
      have hge' : 64 ≤ m.length := by omega
      rw [ih (stage2 s (m.take 64)) (m.drop 64) (by simp; omega)]
      have hq : m.length / 64 = (m.length - 64) / 64 + 1 := by omega
      have e1 : (m.drop 64).length = m.length - 64 := by simp
      rw [e1]
      have hb : (alg iv).block = 64 := rfl
      have hstep := MD.absorb_step (alg iv) s (m.take (m.length / 64 * 64)) (by simp [alg]) (by
        rw [hb]; simp only [List.length_take]; have := Nat.div_mul_le_self m.length 64; omega)
      rw [hstep, hb]
      have t1 : (m.take (m.length / 64 * 64)).take 64 = m.take 64 := by
        rw [List.take_take]; congr 1; omega
      have t2 : (m.take (m.length / 64 * 64)).drop 64 = (m.drop 64).take ((m.length - 64) / 64 * 64) := by
        rw [List.drop_take]; congr 1; omega
      have t3 : (m.drop 64).drop ((m.length - 64) / 64 * 64) = m.drop (m.length / 64 * 64) := by
        rw [List.drop_drop]; congr 1; omega
      rw [t1, t2, t3]; rfl

/-- what a context that has been fed `chunks` holds: the state after all complete blocks, and the remainder -/
theorem sb_ctx (iv : St) (chunks : List Bytes) :
    ((chunks.foldl (MD.update (alg iv)) (MD.init (alg iv))).st, (chunks.foldl (MD.update (alg iv)) (MD.init (alg iv))).buf)
      = Streebog.absorb iv chunks.flatten := by
  have hb : 0 < (alg iv).block := by simp [alg]
  have := MD.foldl_rep (alg iv) hb chunks (MD.init (alg iv)) [] (MD.init_rep (alg iv) hb)
  simp only [List.nil_append] at this
  obtain ⟨_, hs, pre, k, hm, hpre, hst⟩ := this
  generalize chunks.foldl (MD.update (alg iv)) (MD.init (alg iv)) = c at *
  have hbk : (alg iv).block = 64 := rfl
  rw [hbk] at hs hpre
  have hlen : chunks.flatten.length = k * 64 + c.buf.length := by rw [hm]; simp [hpre]
  have hq : chunks.flatten.length / 64 = k := by omega
  rw [sb_absorb_eq iv chunks.flatten.length iv chunks.flatten (Nat.le_refl _), hq, hm,
      List.take_left' hpre, List.drop_left' hpre, hst]
  rfl

/-- **Streebog-256 / Streebog-512 through Init/Update/Final equal the one-shot function for every chunking** -/
theorem C16_streebog256_streaming (chunks : List Bytes) : streamed256 chunks = hash256 chunks.flatten := by
  have := sb_ctx init256 chunks
  simp only [streamed256, hash256]
  rw [← this]

theorem C16_streebog512_streaming (chunks : List Bytes) : streamed512 chunks = hash512 chunks.flatten := by
  have := sb_ctx init512 chunks
  simp only [streamed512, hash512]
  rw [← this]

end streebog

end Xc.C16

/-
  C04 — memory safety and write confinement for every argument combination.
  What a model over strings and indices can carry: every scratch structure fits the aligned scratch area,
  every successful result (all 16 methods, any digests) is NUL-terminated inside the 384-byte output field,
  every gensalt write stays below output_size (C13), negative and too-small sizes are rejected before any
  object access beyond the token.  Undefined behaviour that is not index arithmetic is searched for by the
  ASan/UBSan correspondence only (see DESIGN.md).
-/
import Xc.Thm.C13
import Xc.Thm.C05
namespace Xc.C04
open Xc

/-- every method's scratch structure fits ALG_SPECIFIC_SIZE, and the aligned scratch area fits `internal` -/
theorem C04_scratch_fits :
    Gen.sizeof_md5_buffer ≤ Gen.ALG_SPECIFIC_SIZE ∧ Gen.sizeof_sha256_buffer ≤ Gen.ALG_SPECIFIC_SIZE ∧
    Gen.sizeof_sha512_buffer ≤ Gen.ALG_SPECIFIC_SIZE ∧ Gen.sizeof_des_buffer ≤ Gen.ALG_SPECIFIC_SIZE ∧
    Gen.sizeof_BF_buffer ≤ Gen.ALG_SPECIFIC_SIZE ∧ Gen.sizeof_crypt_nt_internal ≤ Gen.ALG_SPECIFIC_SIZE ∧
    Gen.sizeof_crypt_yescrypt_internal ≤ Gen.ALG_SPECIFIC_SIZE ∧ Gen.sizeof_crypt_gost_yescrypt_internal ≤ Gen.ALG_SPECIFIC_SIZE ∧
    Gen.SHA1_SIZE ≤ Gen.ALG_SPECIFIC_SIZE ∧
    Gen.sizeof_crypt_internal + Gen.alignof_crypt_internal ≤ Gen.CRYPT_DATA_INTERNAL_SIZE ∧
    Gen.sizeof_crypt_internal = Gen.ALG_SPECIFIC_SIZE := by decide

/-- the worst-case lengths the front-ends assume are within the output field -/
theorem C04_static_lengths :
    Gen.MD5_HASH_LENGTH ≤ Gen.CRYPT_OUTPUT_SIZE ∧ Gen.SHA256_HASH_LENGTH ≤ Gen.CRYPT_OUTPUT_SIZE ∧ Gen.SHA512_HASH_LENGTH ≤ Gen.CRYPT_OUTPUT_SIZE ∧
    Gen.BF_HASH_LENGTH ≤ Gen.CRYPT_OUTPUT_SIZE ∧ Gen.DES_MAX_OUTPUT_LEN ≤ Gen.CRYPT_OUTPUT_SIZE ∧
    Gen.SUNMD5_MAX_SETTING_LEN + 1 ≤ Gen.CRYPT_GENSALT_OUTPUT_SIZE ∧ Gen.size_output = Gen.CRYPT_OUTPUT_SIZE := by decide

/-- the returned string always lies within, and is NUL-terminated inside, the 384-byte output field:
    every successful result of every method is shorter than the field (this is what repaired sha1crypt now satisfies) -/
theorem C04_result_terminated (cfg : Config) (D : Digests) (hD : D.WF) (ph st : Option Bytes) (H : Bytes)
    (h : cryptAnswer cfg D ph st = .ok H) : H.length + 1 ≤ Gen.size_output := by
  have := (cryptAnswer_ok_good hD h).2.2
  have hs : Gen.size_output = 384 := by decide
  omega

/-- sha1crypt in particular: whatever the salt length, a successful result fits (the pre-fix code had no such bound) -/
theorem C04_sha1_fits (D : Digests) (p s H : Bytes) (hs : checkBadSaltChars s = false) (h : cryptSha1 D p s = .ok H) : H.length < 384 :=
  (cryptSha1_good hs h).2.2

/-- crypt_gensalt_rn writes only below max(output_size, 0) -/
theorem C04_gensalt_confined (cfg : Config) (pfx : Option Bytes) (count : Nat) (rb : Option Bytes) (nrb osize : Int) (os : Nat → Bytes) :
    ((gensaltRn cfg pfx count rb nrb osize os).ext : Int) ≤ max osize 0 := C13.C13_writes cfg pfx count rb nrb osize os

/-- negative and too-small `size` arguments of crypt_rn: nothing but the token that fits is written, scratch untouched -/
theorem C04_rn_size (cfg : Config) (D : Digests) (ph st : Option Bytes) (d : DataObj) (size : Int)
    (hsz : size < (Gen.sizeof_crypt_data : Int)) :
    (cryptRn cfg D ph st d size).2.ret = none ∧ (cryptRn cfg D ph st d size).1.scratchZero = d.scratchZero ∧
    (size ≤ 0 → (cryptRn cfg D ph st d size).1.out = d.out) := by
  have h1 : (size < 0 ∨ size < (Gen.sizeof_crypt_data : Int)) := Or.inr hsz
  refine ⟨(C05.C05_rn_small cfg D ph st d size hsz).1, ?_, ?_⟩
  · simp only [cryptRn, h1, if_true]
    cases failureToken st (min size Gen.CRYPT_OUTPUT_SIZE) <;> rfl
  · intro h0
    have : failureToken st (min size Gen.CRYPT_OUTPUT_SIZE) = none := by
      have hm : min size (Gen.CRYPT_OUTPUT_SIZE : Int) ≤ 0 := by omega
      exact (C05.C05_token_small st).2.2 _ hm
    simp [cryptRn, h1, this]

end Xc.C04

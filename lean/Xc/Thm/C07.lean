/-
  C07 — hashing is a pure function of its inputs across entry points and call history.
-/
import Xc.World
import Xc.Thm.C05

namespace Xc.C07
open Xc

/-- one step from an ARBITRARY world returns the history-free answer -/
theorem step_pure (c : Ctx) (hD : c.D.WF) (w : World) (op : Op) :
    ((step c w op).2.map fun o => (o.ret, o.errno)) = pureObs c op := by
  cases op with
  | rn id ph st size =>
    simp only [step, pureObs, Option.map_some]
    by_cases hs : size < (Gen.sizeof_crypt_data : Int)
    · have := C05.C05_rn_small c.cfg c.D ph st (w.objs id) size hs
      simp [hs, this.1, this.2.1]
    · have hs' : (Gen.sizeof_crypt_data : Int) ≤ size := by omega
      rw [if_neg hs]
      cases h : cryptAnswer c.cfg c.D ph st with
      | ok H => have := C05.C05_rn_ok c.cfg c.D ph st (w.objs id) size hs' H h hD; simp [this.1, this.2.1]
      | error e => have := C05.C05_rn_fail c.cfg c.D ph st (w.objs id) size hs' e h; simp [this.1, this.2.1]
  | r id ph st =>
    simp only [step, pureObs, Option.map_some]
    cases h : cryptAnswer c.cfg c.D ph st with
    | ok H => have := C05.C05_r_ok c.cfg c.D ph st (w.objs id) c.tokens H h hD; simp [this.1, this.2.2]
    | error e => have := C05.C05_r_fail c.cfg c.D ph st (w.objs id) c.tokens e h; simp [this.2.1, this.2.2]
  | static ph st =>
    simp only [step, pureObs, Option.map_some]
    cases h : cryptAnswer c.cfg c.D ph st with
    | ok H => have := C05.C05_r_ok c.cfg c.D ph st w.stat c.tokens H h hD; simp [this.1, this.2.2]
    | error e => have := C05.C05_r_fail c.cfg c.D ph st w.stat c.tokens e h; simp [this.2.1, this.2.2]
  | staticFromGensalt ph pfx count rb nrb =>
    simp only [step, pureObs, Option.map_some]
    generalize (gensaltStatic c.cfg pfx count rb nrb c.os).ret = st
    cases h : cryptAnswer c.cfg c.D ph st with
    | ok H => have := C05.C05_r_ok c.cfg c.D ph st w.stat c.tokens H h hD; simp [this.1, this.2.2]
    | error e => have := C05.C05_r_fail c.cfg c.D ph st w.stat c.tokens e h; simp [this.2.1, this.2.2]
  | gensalt pfx count rb nrb => simp [step, pureObs]
  | clobber id d => simp [step, pureObs]

/-- **C07**: in every finite history, from every initial state of all objects and of the library's
    static areas, every call returns what the pure function of its own arguments says -/
theorem C07_history (c : Ctx) (hD : c.D.WF) (ops : List Op) (w : World) :
    (run c w ops).map (fun o => o.map fun o => (o.ret, o.errno)) = ops.map (pureObs c) := by
  induction ops generalizing w with
  | nil => rfl
  | cons op rest ih =>
    simp only [run, List.map_cons, ih, step_pure c hD w op]

/-- the four entry points agree (crypt_ra is crypt_rn on a block of sufficient size, see C14):
    same string or all fail, failure tokens apart -/
theorem C07_entry (c : Ctx) (hD : c.D.WF) (ph st : Option Bytes) (d1 d2 d3 : DataObj) (size : Int)
    (hs : (Gen.sizeof_crypt_data : Int) ≤ size) (H : Bytes) :
    ((cryptRn c.cfg c.D ph st d1 size).2.ret = some H ↔ cryptAnswer c.cfg c.D ph st = .ok H) ∧
    (cryptAnswer c.cfg c.D ph st = .ok H → (cryptR c.cfg c.D c.tokens ph st d2).2.ret = some H ∧
        (cryptR c.cfg c.D c.tokens ph st d3).2.ret = some H) := by
  constructor
  · constructor
    · intro h
      cases ha : cryptAnswer c.cfg c.D ph st with
      | ok H' => have := (C05.C05_rn_ok c.cfg c.D ph st d1 size hs H' ha hD).1; rw [this] at h; cases h; rfl
      | error e => have := (C05.C05_rn_fail c.cfg c.D ph st d1 size hs e ha).1; rw [this] at h; cases h
    · intro ha; exact (C05.C05_rn_ok c.cfg c.D ph st d1 size hs H ha hD).1
  · intro ha
    exact ⟨(C05.C05_r_ok c.cfg c.D ph st d2 c.tokens H ha hD).1, (C05.C05_r_ok c.cfg c.D ph st d3 c.tokens H ha hD).1⟩

end Xc.C07

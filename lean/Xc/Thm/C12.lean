/-
  C12 — generated salts carry the supplied randomness; auto-entropy comes from the OS.
-/
import Xc.Lemmas.Gensalt
namespace Xc.C12
open Xc

/-- too few random bytes ⇒ EINVAL, never a weaker or salt-less setting (given a buffer that passes the
    size tests which some writers perform first) -/
theorem C12_short (count : Nat) (rb : Bytes) (n osize : Nat) (ho : 192 ≤ osize) :
    (n < 4 → gensaltSha512 count rb n osize = .err .EINVAL ∧ gensaltSha256 count rb n osize = .err .EINVAL) ∧
    (n < 2 → gensaltDes count rb n osize = .err .EINVAL) ∧
    (n < 3 → gensaltBsdi count rb n osize = .err .EINVAL) ∧
    (n < 8 → gensaltSunmd5 count rb n osize = .err .EINVAL) ∧
    (n < 16 → gensaltSha1 count rb n osize = .err .EINVAL ∧ gensaltBf 98 count rb n osize = .err .EINVAL) := by
  have hm : Gen.SUNMD5_MAX_SETTING_LEN = 32 := by decide
  refine ⟨fun h => ⟨by simp [gensaltSha512, gensaltSha, h], by simp [gensaltSha256, gensaltSha, h]⟩, fun h => ?_, fun h => ?_, fun h => ?_, fun h => ⟨?_, ?_⟩⟩
  · unfold gensaltDes; rw [if_neg (by omega), if_pos (Or.inl h)]
  · unfold gensaltBsdi; rw [if_neg (by omega), if_pos h]
  · unfold gensaltSunmd5; rw [hm, if_neg (by omega), if_pos (by omega)]
  · unfold gensaltSha1; rw [if_pos (by omega)]
  · unfold gensaltBf; simp only []; rw [if_pos (Or.inl h)]

/-- with rbytes == NULL the writer receives exactly `nrbytes` (from the dispatch table, generated from
    hashes.conf) bytes drawn from the OS, and for every method that is enough -/
theorem C12_auto_enough : ∀ h ∈ Gen.table,
    (match h.gensalt with
     | .descrypt | .bigcrypt => 2 | .bsdicrypt => 3 | .md5crypt | .sha256crypt | .sha512crypt => 4 | .sunmd5 => 8
     | .sha1crypt | .bcrypt | .bcrypt_a | .bcrypt_y | .scrypt | .yescrypt | .gost_yescrypt => 16 | .nt | .bcrypt_x => 0) ≤ h.nrbytes := by
  decide

/-- the base-64 packers are injective: different 3-byte groups give different 4-character groups -/
theorem enc24_inj (v w : Nat) (hv : v < 2 ^ 24) (hw : w < 2 ^ 24) (h : enc24 v = enc24 w) : v = w := by
  have hinj : ∀ a b : Fin 64, Gen.ascii64.getD a.val 0 = Gen.ascii64.getD b.val 0 → a = b := by decide
  have key : ∀ x y : Nat, a64 x = a64 y → x % 64 = y % 64 := by
    intro x y hxy
    have := hinj ⟨x % 64, Nat.mod_lt _ (by decide)⟩ ⟨y % 64, Nat.mod_lt _ (by decide)⟩ hxy
    exact Fin.mk.inj_iff.mp this
  simp only [enc24, List.cons.injEq, and_true] at h
  obtain ⟨h0, h1, h2, h3⟩ := h
  have := key _ _ h0; have := key _ _ h1; have := key _ _ h2; have := key _ _ h3
  omega

end Xc.C12

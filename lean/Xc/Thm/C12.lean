/-
  C12 — generated salts carry the supplied randomness; auto-entropy comes from the OS.
-/
import Xc.Lemmas.Gensalt
import Xc.Lemmas.Accept2
namespace Xc.C12
open Xc

/-- too few random bytes ⇒ EINVAL, never a weaker or salt-less setting (given a buffer that passes the
    size tests which some writers perform first) -/
theorem C12_short (count : Nat) (rb : Bytes) (n osize : Nat) (ho : 192 ≤ osize) :
    (n < 4 → gensaltSha512 count rb n osize = .err .EINVAL ∧ gensaltSha256 count rb n osize = .err .EINVAL) ∧
    (n < 2 → gensaltDes count rb n osize = .err .EINVAL) ∧
    (n < 3 → gensaltBsdi count rb n osize = .err .EINVAL) ∧
    (n < 8 → gensaltSunmd5 count rb n osize = .err .EINVAL) ∧
    (n < 16 → gensaltSha1 count rb n osize = .err .EINVAL ∧ gensaltBf 98 count rb n osize = .err .EINVAL) := by
  have hm : Gen.SUNMD5_MAX_SETTING_LEN = 32 := by decide
  refine ⟨fun h => ⟨by simp [gensaltSha512, gensaltSha, h], by simp [gensaltSha256, gensaltSha, h]⟩, fun h => ?_, fun h => ?_, fun h => ?_, fun h => ⟨?_, ?_⟩⟩
  · unfold gensaltDes; rw [if_neg (by omega), if_pos (Or.inl h)]
  · unfold gensaltBsdi; rw [if_neg (by omega), if_pos h]
  · unfold gensaltSunmd5; rw [hm, if_neg (by omega), if_pos (by omega)]
  · unfold gensaltSha1; rw [if_pos (by omega)]
  · unfold gensaltBf; simp only []; rw [if_pos (Or.inl h)]

/-- with rbytes == NULL the writer receives exactly `nrbytes` (from the dispatch table, generated from
    hashes.conf) bytes drawn from the OS, and for every method that is enough -/
theorem C12_auto_enough : ∀ h ∈ Gen.table,
    (match h.gensalt with
     | .descrypt | .bigcrypt => 2 | .bsdicrypt => 3 | .md5crypt | .sha256crypt | .sha512crypt => 4 | .sunmd5 => 8
     | .sha1crypt | .bcrypt | .bcrypt_a | .bcrypt_y | .scrypt | .yescrypt | .gost_yescrypt => 16 | .nt | .bcrypt_x => 0) ≤ h.nrbytes := by
  decide

/-- the base-64 packers are injective: different 3-byte groups give different 4-character groups -/
theorem enc24_inj (v w : Nat) (hv : v < 2 ^ 24) (hw : w < 2 ^ 24) (h : enc24 v = enc24 w) : v = w := by
  have hinj : ∀ a b : Fin 64, Gen.ascii64.getD a.val 0 = Gen.ascii64.getD b.val 0 → a = b := by decide
  have key : ∀ x y : Nat, a64 x = a64 y → x % 64 = y % 64 := by
    intro x y hxy
    have := hinj ⟨x % 64, Nat.mod_lt _ (by decide)⟩ ⟨y % 64, Nat.mod_lt _ (by decide)⟩ hxy
    exact Fin.mk.inj_iff.mp this
  simp only [enc24, List.cons.injEq, and_true] at h
  obtain ⟨h0, h1, h2, h3⟩ := h
  have := key _ _ h0; have := key _ _ h1; have := key _ _ h2; have := key _ _ h3
  omega

/-! ### yescrypt family: the salt IS the random input (128..512 bits), injectively encoded -/

/-- yescrypt, gost-yescrypt, scrypt: a generated setting determines the `min nrbytes 64 ≥ 16` random bytes it was made from -/
theorem C12_yescrypt_family_injective (count : Nat) (rb rb' : Bytes) (n osize osize' : Nat) (S : Bytes) (e e' : Nat) :
    (gensaltYescrypt count rb n osize = .ok S e → gensaltYescrypt count rb' n osize' = .ok S e' →
      16 ≤ min n 64 ∧ padTo rb (min n 64) = padTo rb' (min n 64)) ∧
    (gensaltGost count rb n osize = .ok S e → gensaltGost count rb' n osize' = .ok S e' →
      16 ≤ min n 64 ∧ padTo rb (min n 64) = padTo rb' (min n 64)) ∧
    (gensaltScrypt count rb n osize = .ok S e → gensaltScrypt count rb' n osize' = .ok S e' →
      16 ≤ min n 64 ∧ padTo rb (min n 64) = padTo rb' (min n 64)) := by
  refine ⟨fun h h' => ?_, fun h h' => ?_, fun h h' => ?_⟩
  · obtain ⟨_, _, hn, hS⟩ := gensaltYescrypt_shape h
    obtain ⟨_, _, _, hS'⟩ := gensaltYescrypt_shape h'
    rw [hS] at hS'
    exact ⟨hn, encode64_inj _ _ (by simp [padTo_length]) (List.append_cancel_left hS')⟩
  · obtain ⟨_, _, hn, hS⟩ := gensaltGost_shape h
    obtain ⟨_, _, _, hS'⟩ := gensaltGost_shape h'
    rw [hS] at hS'
    exact ⟨hn, encode64_inj _ _ (by simp [padTo_length]) (List.append_cancel_left hS')⟩
  · obtain ⟨_, _, hn, hS⟩ := gensaltScrypt_shape h
    obtain ⟨_, _, _, hS'⟩ := gensaltScrypt_shape h'
    rw [hS] at hS'
    exact ⟨hn, encode64_inj _ _ (by simp [padTo_length]) (List.append_cancel_left hS')⟩

/-- … and `crypt` hands exactly those bytes to the KDF as the salt (yescrypt and gost-yescrypt decode the text back;
    `$7$` uses the text itself): see `C11_yescrypt_applied`, `C11_gost_applied`, `C11_scrypt_applied`. -/
theorem C12_yescrypt_salt_is_input (count : Nat) (rb : Bytes) (n osize : Nat) (S : Bytes) (e : Nat)
    (h : gensaltYescrypt count rb n osize = .ok S e) :
    parseYescrypt S Gen.CRYPT_OUTPUT_SIZE =
      some { params := yesParamsOf (dfl count 5), prefixlen := 7, saltstrlen := (encode64 (padTo rb (min n 64))).length, salt := padTo rb (min n 64) } := by
  obtain ⟨c1, c2, hn, hS⟩ := gensaltYescrypt_shape h
  have hsl : (padTo rb (min n 64)).length ≤ 64 := by rw [padTo_length]; omega
  have hel : (encode64 (padTo rb (min n 64))).length ≤ 86 := by rw [encode64_length]; exact base64Len_le _ hsl
  rw [hS]
  exact parseYescrypt_gen _ c1 c2 _ hsl _ (by
    have : Gen.CRYPT_OUTPUT_SIZE = 384 := rfl
    have : Gen.YESCRYPT_HASH_LEN = 43 := rfl
    omega)

end Xc.C12

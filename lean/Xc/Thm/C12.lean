/-
  C12 — generated salts carry the supplied randomness; auto-entropy comes from the OS.
-/
import Xc.Lemmas.Gensalt
import Xc.Lemmas.Accept2
import Xc.Lemmas.Inj
namespace Xc.C12
open Xc List

/-- too few random bytes ⇒ EINVAL, never a weaker or salt-less setting (given a buffer that passes the
    size tests which some writers perform first) -/
theorem C12_short (count : Nat) (rb : Bytes) (n osize : Nat) (ho : 192 ≤ osize) :
    (n < 4 → gensaltSha512 count rb n osize = .err .EINVAL ∧ gensaltSha256 count rb n osize = .err .EINVAL) ∧
    (n < 2 → gensaltDes count rb n osize = .err .EINVAL) ∧
    (n < 3 → gensaltBsdi count rb n osize = .err .EINVAL) ∧
    (n < 8 → gensaltSunmd5 count rb n osize = .err .EINVAL) ∧
    (n < 16 → gensaltSha1 count rb n osize = .err .EINVAL ∧ gensaltBf 98 count rb n osize = .err .EINVAL) := by
  have hm : Gen.SUNMD5_MAX_SETTING_LEN = 32 := by decide
  refine ⟨fun h => ⟨by simp [gensaltSha512, gensaltSha, h], by simp [gensaltSha256, gensaltSha, h]⟩, fun h => ?_, fun h => ?_, fun h => ?_, fun h => ⟨?_, ?_⟩⟩
  · unfold gensaltDes; rw [if_neg (by omega), if_pos (Or.inl h)]
  · unfold gensaltBsdi; rw [if_neg (by omega), if_pos h]
  · unfold gensaltSunmd5; rw [hm, if_neg (by omega), if_pos (by omega)]
  · unfold gensaltSha1; rw [if_pos (by omega)]
  · unfold gensaltBf; simp only []; rw [if_pos (Or.inl h)]

/-- with rbytes == NULL the writer receives exactly `nrbytes` (from the dispatch table, generated from
    hashes.conf) bytes drawn from the OS, and for every method that is enough -/
theorem C12_auto_enough : ∀ h ∈ Gen.table,
    (match h.gensalt with
     | .descrypt | .bigcrypt => 2 | .bsdicrypt => 3 | .md5crypt | .sha256crypt | .sha512crypt => 4 | .sunmd5 => 8
     | .sha1crypt | .bcrypt | .bcrypt_a | .bcrypt_y | .scrypt | .yescrypt | .gost_yescrypt => 16 | .nt | .bcrypt_x => 0) ≤ h.nrbytes := by
  decide

/-- the base-64 packers are injective: different 3-byte groups give different 4-character groups -/
theorem enc24_inj (v w : Nat) (hv : v < 2 ^ 24) (hw : w < 2 ^ 24) (h : enc24 v = enc24 w) : v = w := by
  have hinj : ∀ a b : Fin 64, Gen.ascii64.getD a.val 0 = Gen.ascii64.getD b.val 0 → a = b := by decide
  have key : ∀ x y : Nat, a64 x = a64 y → x % 64 = y % 64 := by
    intro x y hxy
    have := hinj ⟨x % 64, Nat.mod_lt _ (by decide)⟩ ⟨y % 64, Nat.mod_lt _ (by decide)⟩ hxy
    exact Fin.mk.inj_iff.mp this
  simp only [enc24, List.cons.injEq, and_true] at h
  obtain ⟨h0, h1, h2, h3⟩ := h
  have := key _ _ h0; have := key _ _ h1; have := key _ _ h2; have := key _ _ h3
  omega

/-! ### yescrypt family: the salt IS the random input (128..512 bits), injectively encoded -/

/-- yescrypt, gost-yescrypt, scrypt: a generated setting determines the `min nrbytes 64 ≥ 16` random bytes it was made from -/
theorem C12_yescrypt_family_injective (count : Nat) (rb rb' : Bytes) (n osize osize' : Nat) (S : Bytes) (e e' : Nat) :
    (gensaltYescrypt count rb n osize = .ok S e → gensaltYescrypt count rb' n osize' = .ok S e' →
      16 ≤ min n 64 ∧ padTo rb (min n 64) = padTo rb' (min n 64)) ∧
    (gensaltGost count rb n osize = .ok S e → gensaltGost count rb' n osize' = .ok S e' →
      16 ≤ min n 64 ∧ padTo rb (min n 64) = padTo rb' (min n 64)) ∧
    (gensaltScrypt count rb n osize = .ok S e → gensaltScrypt count rb' n osize' = .ok S e' →
      16 ≤ min n 64 ∧ padTo rb (min n 64) = padTo rb' (min n 64)) := by
  refine ⟨fun h h' => ?_, fun h h' => ?_, fun h h' => ?_⟩
  · obtain ⟨_, _, hn, hS⟩ := gensaltYescrypt_shape h
    obtain ⟨_, _, _, hS'⟩ := gensaltYescrypt_shape h'
    rw [hS] at hS'
    exact ⟨hn, encode64_inj _ _ (by simp [padTo_length]) (List.append_cancel_left hS')⟩
  · obtain ⟨_, _, hn, hS⟩ := gensaltGost_shape h
    obtain ⟨_, _, _, hS'⟩ := gensaltGost_shape h'
    rw [hS] at hS'
    exact ⟨hn, encode64_inj _ _ (by simp [padTo_length]) (List.append_cancel_left hS')⟩
  · obtain ⟨_, _, hn, hS⟩ := gensaltScrypt_shape h
    obtain ⟨_, _, _, hS'⟩ := gensaltScrypt_shape h'
    rw [hS] at hS'
    exact ⟨hn, encode64_inj _ _ (by simp [padTo_length]) (List.append_cancel_left hS')⟩

/-- … and `crypt` hands exactly those bytes to the KDF as the salt (yescrypt and gost-yescrypt decode the text back;
    `$7$` uses the text itself): see `C11_yescrypt_applied`, `C11_gost_applied`, `C11_scrypt_applied`. -/
theorem C12_yescrypt_salt_is_input (count : Nat) (rb : Bytes) (n osize : Nat) (S : Bytes) (e : Nat)
    (h : gensaltYescrypt count rb n osize = .ok S e) :
    parseYescrypt S Gen.CRYPT_OUTPUT_SIZE =
      some { params := yesParamsOf (dfl count 5), prefixlen := 7, saltstrlen := (encode64 (padTo rb (min n 64))).length, salt := padTo rb (min n 64) } := by
  obtain ⟨c1, c2, hn, hS⟩ := gensaltYescrypt_shape h
  have hsl : (padTo rb (min n 64)).length ≤ 64 := by rw [padTo_length]; omega
  have hel : (encode64 (padTo rb (min n 64))).length ≤ 86 := by rw [encode64_length]; exact base64Len_le _ hsl
  rw [hS]
  exact parseYescrypt_gen _ c1 c2 _ hsl _ (by
    have : Gen.CRYPT_OUTPUT_SIZE = 384 := rfl
    have : Gen.YESCRYPT_HASH_LEN = 43 := rfl
    omega)

/-! ### standard salt sizes and whole-writer injectivity for the sha family, bcrypt and bsdicrypt -/

/-- with at least 16 random bytes and room, the shared sha/md5 writer's salt loop runs `maxsalt / 4` times: 12 (6) bytes → 16 (8) characters -/
theorem shaSaltLoop_full16 (n o : Nat) (rb : Bytes) (w : Nat) (hn : 16 ≤ n) (ho : w + 20 < o) :
    shaSaltLoop 16 n o rb 17 w 0 = enc24 (le24 rb 0) ++ enc24 (le24 rb 3) ++ enc24 (le24 rb 6) ++ enc24 (le24 rb 9) := by
  simp only [shaSaltLoop]
  rw [if_pos (by omega), if_pos (by omega), if_pos (by omega), if_pos (by omega), if_neg (by omega)]
  simp

theorem shaSaltLoop_full8 (n o : Nat) (rb : Bytes) (w : Nat) (hn : 16 ≤ n) (ho : w + 12 < o) :
    shaSaltLoop 8 n o rb 9 w 0 = enc24 (le24 rb 0) ++ enc24 (le24 rb 3) := by
  simp only [shaSaltLoop]
  rw [if_pos (by omega), if_pos (by omega), if_neg (by omega)]
  simp

/-- the head (tag and, for a non-default count, the `rounds=N$` field) that the shared writer emits for a clamped count -/
def shaHead (tag : UInt8) (defc c : Nat) : Bytes :=
  if c = defc then [36, tag, 36] else [36, tag, 36] ++ [114, 111, 117, 110, 100, 115, 61] ++ toDec c ++ [36]

theorem shaHead_len (tag : UInt8) (defc c : Nat) (hc : c < 10000000000) : (shaHead tag defc c).length ≤ 21 := by
  unfold shaHead
  have := toDec_length_le10 c hc
  split <;> simp <;> omega

/-- **sha256crypt / sha512crypt, standard salt size**: with at least 16 random bytes and a buffer of the documented size the salt
    is the 16-character (96-bit) encoding of the first twelve random bytes -/
theorem gensaltSha_full16 (tag : UInt8) (defc minc maxc count : Nat) (rb : Bytes) (n o : Nat) (S : Bytes) (e : Nat)
    (hmax : maxc < 10000000000) (hdef : 1 ≤ defc) (hmin : 1 ≤ minc) (hmm : minc ≤ maxc)
    (h : gensaltSha tag 16 defc minc maxc count rb n o = .ok S e) (hn : 16 ≤ n) (ho : 192 ≤ o) :
    S = shaHead tag defc (shaClamp defc minc maxc count) ++
        (enc24 (le24 rb 0) ++ enc24 (le24 rb 3) ++ enc24 (le24 rb 6) ++ enc24 (le24 rb 9)) := by
  unfold gensaltSha at h
  split at h; · cases h
  have hb := shaClamp_bounds defc minc maxc count hdef hmin hmm
  generalize shaClamp defc minc maxc count = c at *
  have hl := shaHead_len tag defc c (by omega)
  unfold gensaltShaCore at h
  dsimp only at h
  generalize hol : (if c ≠ defc then 8 + 9 + ceilingSteps c else 8) = outputLen at h
  have hh : (if c = defc then ([36, tag, 36] : Bytes) else [36, tag, 36] ++ [114, 111, 117, 110, 100, 115, 61] ++ toDec c ++ [36]) = shaHead tag defc c := rfl
  rw [hh] at h
  split at h; · cases h
  split at h; · cases h
  simp only [WOut.ok.injEq] at h
  rw [← h.1, shaSaltLoop_full16 n o rb _ hn (by omega)]

theorem le24_bytes (rb rb' : Bytes) (i : Nat) (h : le24 rb i = le24 rb' i) :
    rbAt rb i = rbAt rb' i ∧ rbAt rb (i + 1) = rbAt rb' (i + 1) ∧ rbAt rb (i + 2) = rbAt rb' (i + 2) := by
  unfold le24 at h
  have b : ∀ (x : Bytes) (k : Nat), rbAt x k < 256 := fun x k => by unfold rbAt; exact (x.getD k 0).toNat_lt
  have := b rb i; have := b rb (i + 1); have := b rb (i + 2); have := b rb' i; have := b rb' (i + 1); have := b rb' (i + 2)
  omega

theorem le24_lt (rb : Bytes) (i : Nat) : le24 rb i < 2 ^ 24 := by
  unfold le24
  have b : ∀ (k : Nat), rbAt rb k < 256 := fun k => by unfold rbAt; exact (rb.getD k 0).toNat_lt
  have := b i; have := b (i + 1); have := b (i + 2)
  omega

/-- **injectivity**: the generated `$5$`/`$6$` salt determines the twelve random bytes it consumed (same count, same sizes) -/
theorem gensaltSha_injective (tag : UInt8) (defc minc maxc count : Nat) (rb rb' : Bytes) (n o n' o' : Nat) (S : Bytes) (e e' : Nat)
    (hmax : maxc < 10000000000) (hdef : 1 ≤ defc) (hmin : 1 ≤ minc) (hmm : minc ≤ maxc)
    (h : gensaltSha tag 16 defc minc maxc count rb n o = .ok S e) (h' : gensaltSha tag 16 defc minc maxc count rb' n' o' = .ok S e')
    (hn : 16 ≤ n) (ho : 192 ≤ o) (hn' : 16 ≤ n') (ho' : 192 ≤ o') : ∀ k, k < 12 → rbAt rb k = rbAt rb' k := by
  have a := gensaltSha_full16 tag defc minc maxc count rb n o S e hmax hdef hmin hmm h hn ho
  have b := gensaltSha_full16 tag defc minc maxc count rb' n' o' S e' hmax hdef hmin hmm h' hn' ho'
  rw [a] at b
  have hsalt := List.append_cancel_left b
  have hlen : ∀ v, (enc24 v).length = 4 := fun v => rfl
  have s0 := List.append_inj hsalt (by simp [hlen])
  have s1 := List.append_inj s0.1 (by simp [hlen])
  have s2 := List.append_inj s1.1 (by simp [hlen])
  have g0 := le24_bytes rb rb' 0 (enc24_inj _ _ (le24_lt _ _) (le24_lt _ _) s2.1)
  have g3 := le24_bytes rb rb' 3 (enc24_inj _ _ (le24_lt _ _) (le24_lt _ _) s2.2)
  have g6 := le24_bytes rb rb' 6 (enc24_inj _ _ (le24_lt _ _) (le24_lt _ _) s1.2)
  have g9 := le24_bytes rb rb' 9 (enc24_inj _ _ (le24_lt _ _) (le24_lt _ _) s0.2)
  intro k hk
  have : k = 0 ∨ k = 1 ∨ k = 2 ∨ k = 3 ∨ k = 4 ∨ k = 5 ∨ k = 6 ∨ k = 7 ∨ k = 8 ∨ k = 9 ∨ k = 10 ∨ k = 11 := by omega
  rcases this with rfl | rfl | rfl | rfl | rfl | rfl | rfl | rfl | rfl | rfl | rfl | rfl
  · exact g0.1
  · exact g0.2.1
  · exact g0.2.2
  · exact g3.1
  · exact g3.2.1
  · exact g3.2.2
  · exact g6.1
  · exact g6.2.1
  · exact g6.2.2
  · exact g9.1
  · exact g9.2.1
  · exact g9.2.2

/-- bcrypt: the 22 salt characters determine the sixteen random bytes -/
theorem gensaltBf_injective (sub : UInt8) (count : Nat) (rb rb' : Bytes) (n o n' o' : Nat) (S : Bytes) (e e' : Nat)
    (h : gensaltBf sub count rb n o = .ok S e) (h' : gensaltBf sub count rb' n' o' = .ok S e') : padTo rb 16 = padTo rb' 16 := by
  unfold gensaltBf at h h'
  simp only [] at h h'
  split at h; · cases h
  split at h; · cases h
  split at h'; · cases h'
  split at h'; · cases h'
  simp only [WOut.ok.injEq] at h h'
  have := h.1.trans h'.1.symm
  have hh := List.append_cancel_left this
  exact bfEncode_inj _ _ (by simp [padTo_length]) hh

/-- bsdicrypt: the four salt characters determine the three random bytes -/
theorem gensaltBsdi_injective (count : Nat) (rb rb' : Bytes) (n o n' o' : Nat) (S : Bytes) (e e' : Nat)
    (h : gensaltBsdi count rb n o = .ok S e) (h' : gensaltBsdi count rb' n' o' = .ok S e') :
    rbAt rb 0 = rbAt rb' 0 ∧ rbAt rb 1 = rbAt rb' 1 ∧ rbAt rb 2 = rbAt rb' 2 := by
  unfold gensaltBsdi at h h'
  split at h; · cases h
  split at h; · cases h
  split at h'; · cases h'
  split at h'; · cases h'
  simp only [WOut.ok.injEq] at h h'
  have := h.1.trans h'.1.symm
  have hh := List.append_cancel_left this
  exact le24_bytes rb rb' 0 (enc24_inj _ _ (le24_lt _ _) (le24_lt _ _) hh)

end Xc.C12

/-
  C12 — generated salts carry the supplied randomness; auto-entropy comes from the OS.
-/
import Xc.Lemmas.Gensalt
import Xc.Lemmas.Accept2
import Xc.Lemmas.Inj
namespace Xc.C12
open Xc List

/-- too few random bytes ⇒ EINVAL, never a weaker or salt-less setting (given a buffer that passes the
    size tests which some writers perform first) -/
theorem C12_short (count : Nat) (rb : Bytes) (n osize : Nat) (ho : 192 ≤ osize) :
    (n < 4 → gensaltSha512 count rb n osize = .err .EINVAL ∧ gensaltSha256 count rb n osize = .err .EINVAL) ∧
    (n < 2 → gensaltDes count rb n osize = .err .EINVAL) ∧
    (n < 3 → gensaltBsdi count rb n osize = .err .EINVAL) ∧
    (n < 8 → gensaltSunmd5 count rb n osize = .err .EINVAL) ∧
    (n < 16 → gensaltSha1 count rb n osize = .err .EINVAL ∧ gensaltBf 98 count rb n osize = .err .EINVAL) := by
  have hm : Gen.SUNMD5_MAX_SETTING_LEN = 32 := by decide
  refine ⟨fun h => ⟨by simp [gensaltSha512, gensaltSha, h], by simp [gensaltSha256, gensaltSha, h]⟩, fun h => ?_, fun h => ?_, fun h => ?_, fun h => ⟨?_, ?_⟩⟩
  · unfold gensaltDes; rw [if_neg (by omega), if_pos (Or.inl h)]
  · unfold gensaltBsdi; rw [if_neg (by omega), if_pos h]
  · unfold gensaltSunmd5; rw [hm, if_neg (by omega), if_pos (by omega)]
  · unfold gensaltSha1; rw [if_pos (by omega)]
  · unfold gensaltBf; simp only []; rw [if_pos (Or.inl h)]

/-- with rbytes == NULL the writer receives exactly `nrbytes` (from the dispatch table, generated from
    hashes.conf) bytes drawn from the OS, and for every method that is enough -/
theorem C12_auto_enough : ∀ h ∈ Gen.table,
    (match h.gensalt with
     | .descrypt | .bigcrypt => 2 | .bsdicrypt => 3 | .md5crypt | .sha256crypt | .sha512crypt => 4 | .sunmd5 => 8
     | .sha1crypt | .bcrypt | .bcrypt_a | .bcrypt_y | .scrypt | .yescrypt | .gost_yescrypt => 16 | .nt | .bcrypt_x => 0) ≤ h.nrbytes := by
  decide

/-- the base-64 packers are injective: different 3-byte groups give different 4-character groups -/
theorem enc24_inj (v w : Nat) (hv : v < 2 ^ 24) (hw : w < 2 ^ 24) (h : enc24 v = enc24 w) : v = w := by
  have hinj : ∀ a b : Fin 64, Gen.ascii64.getD a.val 0 = Gen.ascii64.getD b.val 0 → a = b := by decide
  have key : ∀ x y : Nat, a64 x = a64 y → x % 64 = y % 64 := by
    intro x y hxy
    have := hinj ⟨x % 64, Nat.mod_lt _ (by decide)⟩ ⟨y % 64, Nat.mod_lt _ (by decide)⟩ hxy
    exact Fin.mk.inj_iff.mp this
  simp only [enc24, List.cons.injEq, and_true] at h
  obtain ⟨h0, h1, h2, h3⟩ := h
  have := key _ _ h0; have := key _ _ h1; have := key _ _ h2; have := key _ _ h3
  omega

/-! ### yescrypt family: the salt IS the random input (128..512 bits), injectively encoded -/

/-- yescrypt, gost-yescrypt, scrypt: a generated setting determines the `min nrbytes 64 ≥ 16` random bytes it was made from -/
theorem C12_yescrypt_family_injective (count : Nat) (rb rb' : Bytes) (n osize osize' : Nat) (S : Bytes) (e e' : Nat) :
    (gensaltYescrypt count rb n osize = .ok S e → gensaltYescrypt count rb' n osize' = .ok S e' →
      16 ≤ min n 64 ∧ padTo rb (min n 64) = padTo rb' (min n 64)) ∧
    (gensaltGost count rb n osize = .ok S e → gensaltGost count rb' n osize' = .ok S e' →
      16 ≤ min n 64 ∧ padTo rb (min n 64) = padTo rb' (min n 64)) ∧
    (gensaltScrypt count rb n osize = .ok S e → gensaltScrypt count rb' n osize' = .ok S e' →
      16 ≤ min n 64 ∧ padTo rb (min n 64) = padTo rb' (min n 64)) := by
  refine ⟨fun h h' => ?_, fun h h' => ?_, fun h h' => ?_⟩
  · obtain ⟨_, _, hn, hS⟩ := gensaltYescrypt_shape h
    obtain ⟨_, _, _, hS'⟩ := gensaltYescrypt_shape h'
    rw [hS] at hS'
    exact ⟨hn, encode64_inj _ _ (by simp [padTo_length]) (List.append_cancel_left hS')⟩
  · obtain ⟨_, _, hn, hS⟩ := gensaltGost_shape h
    obtain ⟨_, _, _, hS'⟩ := gensaltGost_shape h'
    rw [hS] at hS'
    exact ⟨hn, encode64_inj _ _ (by simp [padTo_length]) (List.append_cancel_left hS')⟩
  · obtain ⟨_, _, hn, hS⟩ := gensaltScrypt_shape h
    obtain ⟨_, _, _, hS'⟩ := gensaltScrypt_shape h'
    rw [hS] at hS'
    exact ⟨hn, encode64_inj _ _ (by simp [padTo_length]) (List.append_cancel_left hS')⟩

/-- … and `crypt` hands exactly those bytes to the KDF as the salt (yescrypt and gost-yescrypt decode the text back;
    `$7$` uses the text itself): see `C11_yescrypt_applied`, `C11_gost_applied`, `C11_scrypt_applied`. -/
theorem C12_yescrypt_salt_is_input (count : Nat) (rb : Bytes) (n osize : Nat) (S : Bytes) (e : Nat)
    (h : gensaltYescrypt count rb n osize = .ok S e) :
    parseYescrypt S Gen.CRYPT_OUTPUT_SIZE =
      some { params := yesParamsOf (dfl count 5), prefixlen := 7, saltstrlen := (encode64 (padTo rb (min n 64))).length, salt := padTo rb (min n 64) } := by
  obtain ⟨c1, c2, hn, hS⟩ := gensaltYescrypt_shape h
  have hsl : (padTo rb (min n 64)).length ≤ 64 := by rw [padTo_length]; omega
  have hel : (encode64 (padTo rb (min n 64))).length ≤ 86 := by rw [encode64_length]; exact base64Len_le _ hsl
  rw [hS]
  exact parseYescrypt_gen _ c1 c2 _ hsl _ (by
    have : Gen.CRYPT_OUTPUT_SIZE = 384 := rfl
    have : Gen.YESCRYPT_HASH_LEN = 43 := rfl
    omega)

/-! ### standard salt sizes and whole-writer injectivity for the sha family, bcrypt and bsdicrypt -/

/-- with at least 16 random bytes and room, the shared sha/md5 writer's salt loop runs `maxsalt / 4` times: 12 (6) bytes → 16 (8) characters -/
theorem shaSaltLoop_full16 (n o : Nat) (rb : Bytes) (w : Nat) (hn : 16 ≤ n) (ho : w + 20 < o) :
    shaSaltLoop 16 n o rb 17 w 0 = enc24 (le24 rb 0) ++ enc24 (le24 rb 3) ++ enc24 (le24 rb 6) ++ enc24 (le24 rb 9) := by
  simp only [shaSaltLoop]
  rw [if_pos (by omega), if_pos (by omega), if_pos (by omega), if_pos (by omega), if_neg (by omega)]
  simp

theorem shaSaltLoop_full8 (n o : Nat) (rb : Bytes) (w : Nat) (hn : 16 ≤ n) (ho : w + 12 < o) :
    shaSaltLoop 8 n o rb 9 w 0 = enc24 (le24 rb 0) ++ enc24 (le24 rb 3) := by
  simp only [shaSaltLoop]
  rw [if_pos (by omega), if_pos (by omega), if_neg (by omega)]
  simp

/-- the head (tag and, for a non-default count, the `rounds=N$` field) that the shared writer emits for a clamped count -/
def shaHead (tag : UInt8) (defc c : Nat) : Bytes :=
  if c = defc then [36, tag, 36] else [36, tag, 36] ++ [114, 111, 117, 110, 100, 115, 61] ++ toDec c ++ [36]

theorem shaHead_len (tag : UInt8) (defc c : Nat) (hc : c < 10000000000) : (shaHead tag defc c).length ≤ 21 := by
  unfold shaHead
  have := toDec_length_le10 c hc
  split <;> simp <;> omega

/-- **sha256crypt / sha512crypt, standard salt size**: with at least 16 random bytes and a buffer of the documented size the salt
    is the 16-character (96-bit) encoding of the first twelve random bytes -/
theorem gensaltSha_full16 (tag : UInt8) (defc minc maxc count : Nat) (rb : Bytes) (n o : Nat) (S : Bytes) (e : Nat)
    (hmax : maxc < 10000000000) (hdef : 1 ≤ defc) (hmin : 1 ≤ minc) (hmm : minc ≤ maxc)
    (h : gensaltSha tag 16 defc minc maxc count rb n o = .ok S e) (hn : 16 ≤ n) (ho : 192 ≤ o) :
    S = shaHead tag defc (shaClamp defc minc maxc count) ++
        (enc24 (le24 rb 0) ++ enc24 (le24 rb 3) ++ enc24 (le24 rb 6) ++ enc24 (le24 rb 9)) := by
  unfold gensaltSha at h
  split at h; · cases h
  have hb := shaClamp_bounds defc minc maxc count hdef hmin hmm
  generalize shaClamp defc minc maxc count = c at *
  have hl := shaHead_len tag defc c (by omega)
  unfold gensaltShaCore at h
  dsimp only at h
  generalize hol : (if c ≠ defc then 8 + 9 + ceilingSteps c else 8) = outputLen at h
  have hh : (if c = defc then ([36, tag, 36] : Bytes) else [36, tag, 36] ++ [114, 111, 117, 110, 100, 115, 61] ++ toDec c ++ [36]) = shaHead tag defc c := rfl
  rw [hh] at h
  split at h; · cases h
  split at h; · cases h
  simp only [WOut.ok.injEq] at h
  rw [← h.1, shaSaltLoop_full16 n o rb _ hn (by omega)]

theorem le24_bytes (rb rb' : Bytes) (i : Nat) (h : le24 rb i = le24 rb' i) :
    rbAt rb i = rbAt rb' i ∧ rbAt rb (i + 1) = rbAt rb' (i + 1) ∧ rbAt rb (i + 2) = rbAt rb' (i + 2) := by
  unfold le24 at h
  have b : ∀ (x : Bytes) (k : Nat), rbAt x k < 256 := fun x k => by unfold rbAt; exact (x.getD k 0).toNat_lt
  have := b rb i; have := b rb (i + 1); have := b rb (i + 2); have := b rb' i; have := b rb' (i + 1); have := b rb' (i + 2)
  omega

theorem le24_lt (rb : Bytes) (i : Nat) : le24 rb i < 2 ^ 24 := by
  unfold le24
  have b : ∀ (k : Nat), rbAt rb k < 256 := fun k => by unfold rbAt; exact (rb.getD k 0).toNat_lt
  have := b i; have := b (i + 1); have := b (i + 2)
  omega

/-- **injectivity**: the generated `$5$`/`$6$` salt determines the twelve random bytes it consumed (same count, same sizes) -/
theorem gensaltSha_injective (tag : UInt8) (defc minc maxc count : Nat) (rb rb' : Bytes) (n o n' o' : Nat) (S : Bytes) (e e' : Nat)
    (hmax : maxc < 10000000000) (hdef : 1 ≤ defc) (hmin : 1 ≤ minc) (hmm : minc ≤ maxc)
    (h : gensaltSha tag 16 defc minc maxc count rb n o = .ok S e) (h' : gensaltSha tag 16 defc minc maxc count rb' n' o' = .ok S e')
    (hn : 16 ≤ n) (ho : 192 ≤ o) (hn' : 16 ≤ n') (ho' : 192 ≤ o') : ∀ k, k < 12 → rbAt rb k = rbAt rb' k := by
  have a := gensaltSha_full16 tag defc minc maxc count rb n o S e hmax hdef hmin hmm h hn ho
  have b := gensaltSha_full16 tag defc minc maxc count rb' n' o' S e' hmax hdef hmin hmm h' hn' ho'
  rw [a] at b
  have hsalt := List.append_cancel_left b
  have hlen : ∀ v, (enc24 v).length = 4 := fun v => rfl
  have s0 := List.append_inj hsalt (by simp [hlen])
  have s1 := List.append_inj s0.1 (by simp [hlen])
  have s2 := List.append_inj s1.1 (by simp [hlen])
  have g0 := le24_bytes rb rb' 0 (enc24_inj _ _ (le24_lt _ _) (le24_lt _ _) s2.1)
  have g3 := le24_bytes rb rb' 3 (enc24_inj _ _ (le24_lt _ _) (le24_lt _ _) s2.2)
  have g6 := le24_bytes rb rb' 6 (enc24_inj _ _ (le24_lt _ _) (le24_lt _ _) s1.2)
  have g9 := le24_bytes rb rb' 9 (enc24_inj _ _ (le24_lt _ _) (le24_lt _ _) s0.2)
  intro k hk
  have : k = 0 ∨ k = 1 ∨ k = 2 ∨ k = 3 ∨ k = 4 ∨ k = 5 ∨ k = 6 ∨ k = 7 ∨ k = 8 ∨ k = 9 ∨ k = 10 ∨ k = 11 := by omega
  rcases this with rfl | rfl | rfl | rfl | rfl | rfl | rfl | rfl | rfl | rfl | rfl | rfl
  · exact g0.1
  · exact g0.2.1
  · exact g0.2.2
  · exact g3.1
  · exact g3.2.1
  · exact g3.2.2
  · exact g6.1
  · exact g6.2.1
  · exact g6.2.2
  · exact g9.1
  · exact g9.2.1
  · exact g9.2.2

/-- bcrypt: the 22 salt characters determine the sixteen random bytes -/
theorem gensaltBf_injective (sub : UInt8) (count : Nat) (rb rb' : Bytes) (n o n' o' : Nat) (S : Bytes) (e e' : Nat)
    (h : gensaltBf sub count rb n o = .ok S e) (h' : gensaltBf sub count rb' n' o' = .ok S e') : padTo rb 16 = padTo rb' 16 := by
  unfold gensaltBf at h h'
  simp only [] at h h'
  split at h; · cases h
  split at h; · cases h
  split at h'; · cases h'
  split at h'; · cases h'
  simp only [WOut.ok.injEq] at h h'
  have := h.1.trans h'.1.symm
  have hh := List.append_cancel_left this
  exact bfEncode_inj _ _ (by simp [padTo_length]) hh

/-- bsdicrypt: the four salt characters determine the three random bytes -/
theorem gensaltBsdi_injective (count : Nat) (rb rb' : Bytes) (n o n' o' : Nat) (S : Bytes) (e e' : Nat)
    (h : gensaltBsdi count rb n o = .ok S e) (h' : gensaltBsdi count rb' n' o' = .ok S e') :
    rbAt rb 0 = rbAt rb' 0 ∧ rbAt rb 1 = rbAt rb' 1 ∧ rbAt rb 2 = rbAt rb' 2 := by
  unfold gensaltBsdi at h h'
  split at h; · cases h
  split at h; · cases h
  split at h'; · cases h'
  split at h'; · cases h'
  simp only [WOut.ok.injEq] at h h'
  have := h.1.trans h'.1.symm
  have hh := List.append_cancel_left this
  exact le24_bytes rb rb' 0 (enc24_inj _ _ (le24_lt _ _) (le24_lt _ _) hh)


/-! ### whole-writer injectivity for the remaining salted methods -/

/-- md5crypt, standard salt size: with at least 16 random bytes and a buffer of the documented size the salt is the 8-character (48-bit)
    encoding of the first six random bytes -/
theorem gensaltMd5_full8 (count : Nat) (rb : Bytes) (n o : Nat) (S : Bytes) (e : Nat)
    (h : gensaltMd5 count rb n o = .ok S e) (hn : 16 ≤ n) (ho : 192 ≤ o) :
    S = [36, 49, 36] ++ (enc24 (le24 rb 0) ++ enc24 (le24 rb 3)) := by
  unfold gensaltMd5 at h
  split at h; · cases h
  unfold gensaltSha at h
  split at h; · cases h
  have hc : shaClamp 1000 1000 1000 1000 = 1000 := by decide
  rw [hc] at h
  unfold gensaltShaCore at h
  dsimp only at h
  simp only [ne_eq, not_true_eq_false, if_false, if_true] at h
  split at h; · cases h
  split at h; · cases h
  simp only [WOut.ok.injEq] at h
  have h8 : Gen.MD5_SALT_LEN_MAX = 8 := rfl
  rw [h8] at h
  rw [← h.1, shaSaltLoop_full8 n o rb _ hn (by simp; omega)]

/-- **md5crypt: the eight salt characters determine the six random bytes consumed** -/
theorem gensaltMd5_injective (count : Nat) (rb rb' : Bytes) (n o n' o' : Nat) (S : Bytes) (e e' : Nat)
    (h : gensaltMd5 count rb n o = .ok S e) (h' : gensaltMd5 count rb' n' o' = .ok S e')
    (hn : 16 ≤ n) (ho : 192 ≤ o) (hn' : 16 ≤ n') (ho' : 192 ≤ o') : ∀ k, k < 6 → rbAt rb k = rbAt rb' k := by
  have a := gensaltMd5_full8 count rb n o S e h hn ho
  have b := gensaltMd5_full8 count rb' n' o' S e' h' hn' ho'
  rw [a] at b
  have hsalt := List.append_cancel_left b
  have hlen : ∀ v, (enc24 v).length = 4 := fun v => rfl
  have s0 := List.append_inj hsalt (by simp [hlen])
  have g0 := le24_bytes rb rb' 0 (enc24_inj _ _ (le24_lt _ _) (le24_lt _ _) s0.1)
  have g3 := le24_bytes rb rb' 3 (enc24_inj _ _ (le24_lt _ _) (le24_lt _ _) s0.2)
  intro k hk
  have : k = 0 ∨ k = 1 ∨ k = 2 ∨ k = 3 ∨ k = 4 ∨ k = 5 := by omega
  rcases this with rfl | rfl | rfl | rfl | rfl | rfl
  · exact g0.1
  · exact g0.2.1
  · exact g0.2.2
  · exact g3.1
  · exact g3.2.1
  · exact g3.2.2

theorem a64_inj : ∀ i j : Fin 64, a64 i.val = a64 j.val → i = j := by decide

/-- **descrypt / bigcrypt: the two salt characters determine the twelve random bits consumed** (the low six bits of two bytes) -/
theorem gensaltDes_injective (count : Nat) (rb rb' : Bytes) (n o n' o' : Nat) (S : Bytes) (e e' : Nat)
    (h : gensaltDes count rb n o = .ok S e) (h' : gensaltDes count rb' n' o' = .ok S e') :
    rbAt rb 0 % 64 = rbAt rb' 0 % 64 ∧ rbAt rb 1 % 64 = rbAt rb' 1 % 64 := by
  unfold gensaltDes at h h'
  split at h; · cases h
  split at h; · cases h
  split at h'; · cases h'
  split at h'; · cases h'
  simp only [WOut.ok.injEq] at h h'
  have hh := h.1.trans h'.1.symm
  simp only [List.cons.injEq, and_true] at hh
  have am : ∀ i, a64 i = a64 (i % 64) := by intro i; unfold a64; rw [Nat.mod_mod]
  constructor
  · have := a64_inj ⟨rbAt rb 0 % 64, Nat.mod_lt _ (by decide)⟩ ⟨rbAt rb' 0 % 64, Nat.mod_lt _ (by decide)⟩ (by rw [← am, ← am]; exact hh.1)
    exact Fin.mk.inj_iff.1 this
  · have := a64_inj ⟨rbAt rb 1 % 64, Nat.mod_lt _ (by decide)⟩ ⟨rbAt rb' 1 % 64, Nat.mod_lt _ (by decide)⟩ (by rw [← am, ← am]; exact hh.2)
    exact Fin.mk.inj_iff.1 this

/-- **sunmd5: the eight salt characters determine the six random bytes 2…7** (bytes 0 and 1 go into the printed round count) -/
theorem gensaltSunmd5_injective (count : Nat) (rb rb' : Bytes) (n o n' o' : Nat) (S : Bytes) (e e' : Nat)
    (h : gensaltSunmd5 count rb n o = .ok S e) (h' : gensaltSunmd5 count rb' n' o' = .ok S e') : ∀ k, 2 ≤ k → k < 8 → rbAt rb k = rbAt rb' k := by
  unfold gensaltSunmd5 at h h'
  split at h; · cases h
  split at h; · cases h
  split at h'; · cases h'
  split at h'; · cases h'
  dsimp only at h h'
  split at h; · cases h
  split at h'; · cases h'
  simp only [WOut.ok.injEq] at h h'
  have hh := h.1.trans h'.1.symm
  have hlen : ∀ v, (enc24 v).length = 4 := fun v => rfl
  have t0 := (List.append_inj' hh rfl).1
  have t1 := List.append_inj' t0 (by simp [hlen])
  have t2 := List.append_inj' t1.1 (by simp [hlen])
  have s0 := t2
  have s1 := t1
  have b3 : ∀ (x y z : Nat), x < 256 → y < 256 → z < 256 → x + y * 256 + z * 65536 < 2 ^ 24 := by intros; omega
  have bb : ∀ (r : Bytes) (k : Nat), rbAt r k < 256 := fun r k => by unfold rbAt; exact (r.getD k 0).toNat_lt
  have e1 := enc24_inj _ _ (b3 _ _ _ (bb rb 2) (bb rb 3) (bb rb 4)) (b3 _ _ _ (bb rb' 2) (bb rb' 3) (bb rb' 4)) s0.2
  have e2 := enc24_inj _ _ (b3 _ _ _ (bb rb 5) (bb rb 6) (bb rb 7)) (b3 _ _ _ (bb rb' 5) (bb rb' 6) (bb rb' 7)) s1.2
  have := bb rb 2; have := bb rb 3; have := bb rb 4; have := bb rb 5; have := bb rb 6; have := bb rb 7
  have := bb rb' 2; have := bb rb' 3; have := bb rb' 4; have := bb rb' 5; have := bb rb' 6; have := bb rb' 7
  intro k hk2 hk8
  have : k = 2 ∨ k = 3 ∨ k = 4 ∨ k = 5 ∨ k = 6 ∨ k = 7 := by omega
  rcases this with rfl | rfl | rfl | rfl | rfl | rfl <;> omega

/-- the shape of a generated sha1crypt setting and what its parser reads back -/
theorem gensaltSha1_shape (count : Nat) (rb : Bytes) (n osize : Nat) (S : Bytes) (e : Nat) (h : gensaltSha1 count rb n osize = .ok S e) :
    ∃ olim n0, parseSha1 S = .ok { iterations := sha1Rounds count rb, salt := sha1SaltLoop rb n olim (Gen.CRYPT_SHA1_SALT_LENGTH + 1) 4 n0 } := by
  unfold gensaltSha1 at h
  have hsl : Gen.CRYPT_SHA1_SALT_LENGTH = 64 := by decide
  generalize Gen.CRYPT_SHA1_SALT_LENGTH = F at h hsl
  have hr := sha1Rounds_lt count rb
  generalize sha1Rounds count rb = r at *
  have hdl : (toDec r).length ≤ 10 := toDec_length_le10 r (by omega)
  have hdp := toDec_length_pos r
  have hn0l : ([36, 115, 104, 97, 49, 36] ++ toDec r ++ [36] : Bytes).length = 7 + (toDec r).length := by
    simp only [List.length_append, List.length_cons, List.length_nil]; omega
  split at h; · cases h
  rename_i hn
  split at h; · cases h
  rename_i hos
  simp only [hn0l] at h
  generalize hL : (toDec r).length = L at *
  split at h; · cases h
  rename_i hn0
  simp only [WOut.ok.injEq] at h
  obtain ⟨hS, _⟩ := h
  simp only [Nat.not_lt] at hn hos
  -- the effective output limit
  generalize holim : (if 7 + L + F + 2 > osize then osize - 2 else 7 + L + F) = olim at hS
  have holb : 7 + L + 4 < olim ∧ olim ≤ 7 + L + 64 := by rw [← holim, hsl]; split <;> omega
  generalize hsalt : sha1SaltLoop rb n olim (F + 1) 4 (7 + L) = salt at hS
  obtain ⟨sp1, sp2⟩ := sha1SaltLoop_spec rb n olim (F + 1) 4 (7 + L)
  have spos := sha1SaltLoop_nonempty rb n olim F 4 (7 + L) ⟨by omega, holb.1⟩
  rw [hsalt] at sp1 sp2 spos
  have hslen : salt.length ≤ 64 := by rw [Nat.max_def] at sp2; split at sp2 <;> omega
  have hm : ([36, 115, 104, 97, 49, 36] : Bytes) = sha1Magic := rfl
  subst hS
  refine ⟨olim, 7 + L, ?_⟩
  rw [hsalt]
  have e1 : ([36, 115, 104, 97, 49, 36] : Bytes) ++ toDec r ++ [36] ++ salt ++ [36] = sha1Magic ++ (toDec r ++ 36 :: (salt ++ 36 :: [])) := by
    rw [hm]; simp only [List.append_assoc, List.cons_append, List.nil_append]
  have hfit : ¬ (sha1Magic.length + (toDec r).length + 1 + salt.length + 1 + Gen.SHA1_OUTPUT_SIZE + 1 > Gen.CRYPT_OUTPUT_SIZE) := by
    have : sha1Magic.length = 6 := rfl
    have : Gen.SHA1_OUTPUT_SIZE = 28 := by decide
    have : Gen.CRYPT_OUTPUT_SIZE = 384 := by decide
    omega
  have hp := parseSha1_canon r salt [] (by unfold ULONG_MAX; omega) sp1 (by omega) hfit
  rw [e1]
  exact hp

theorem be24_inj (a b c a' b' c' : Nat) (ha : a < 256) (hb : b < 256) (hc : c < 256) (ha' : a' < 256) (hb' : b' < 256) (hc' : c' < 256)
    (h : enc24 (a * 65536 + b * 256 + c) = enc24 (a' * 65536 + b' * 256 + c')) : a = a' ∧ b = b' ∧ c = c' := by
  have := enc24_inj _ _ (by omega) (by omega) h
  omega

/-- two salt loops that produce the same text read the same bytes, group by group -/
theorem sha1SaltLoop_inj (rb rb' : Bytes) (rlim olim rlim' olim' : Nat) : ∀ fuel fuel' r o o',
    sha1SaltLoop rb rlim olim fuel r o = sha1SaltLoop rb' rlim' olim' fuel' r o' →
    ∀ j, r ≤ j → j < r + 3 * ((sha1SaltLoop rb rlim olim fuel r o).length / 4) → rbAt rb j = rbAt rb' j := by
  intro fuel
  induction fuel with
  | zero => intro fuel' r o o' _ j hj1 hj2; simp [sha1SaltLoop] at hj2; omega
  | succ f ih =>
    intro fuel' r o o' h j hj1 hj2
    have bb : ∀ (x : Bytes) (k : Nat), rbAt x k < 256 := fun x k => by unfold rbAt; exact (x.getD k 0).toNat_lt
    simp only [sha1SaltLoop] at h hj2
    split at h
    · rename_i hc
      simp only [hc, and_self, if_true, List.length_append, enc24_length] at hj2
      cases fuel' with
      | zero =>
        simp only [sha1SaltLoop] at h
        have := congrArg List.length h; simp [enc24_length] at this
      | succ f' =>
        simp only [sha1SaltLoop] at h
        split at h
        · have hh := List.append_inj h (by simp [enc24_length])
          obtain ⟨e0, e1, e2⟩ := be24_inj _ _ _ _ _ _ (bb rb r) (bb rb (r + 1)) (bb rb (r + 2)) (bb rb' r) (bb rb' (r + 1)) (bb rb' (r + 2)) hh.1
          by_cases hj : j < r + 3
          · have : j = r ∨ j = r + 1 ∨ j = r + 2 := by omega
            rcases this with rfl | rfl | rfl
            · exact e0
            · exact e1
            · exact e2
          · exact ih f' (r + 3) (o + 4) (o' + 4) hh.2 j (by omega) (by omega)
        · have := congrArg List.length h; simp [enc24_length] at this
    · rename_i hc
      simp only [hc, if_false, List.length_nil] at hj2
      omega

/-- **sha1crypt: the salt characters determine the random bytes they were made from** (bytes 4, 5, … in groups of three; bytes 0…3 go into
    the printed iteration count): two calls that return the same setting consumed the same salt bytes -/
theorem gensaltSha1_injective (count count' : Nat) (rb rb' : Bytes) (n n' o o' : Nat) (S : Bytes) (e e' : Nat)
    (h : gensaltSha1 count rb n o = .ok S e) (h' : gensaltSha1 count' rb' n' o' = .ok S e') :
    sha1Rounds count rb = sha1Rounds count' rb' ∧
    ∃ salt : Bytes, (∃ P, parseSha1 S = .ok P ∧ P.salt = salt) ∧ ∀ j, 4 ≤ j → j < 4 + 3 * (salt.length / 4) → rbAt rb j = rbAt rb' j := by
  obtain ⟨olim, n0, hp⟩ := gensaltSha1_shape count rb n o S e h
  obtain ⟨olim', n0', hp'⟩ := gensaltSha1_shape count' rb' n' o' S e' h'
  rw [hp] at hp'
  simp only [Except.ok.injEq, Sha1Parsed.mk.injEq] at hp'
  refine ⟨hp'.1, _, ⟨_, hp, rfl⟩, ?_⟩
  exact sha1SaltLoop_inj rb rb' n olim n' olim' _ _ 4 n0 n0' hp'.2

end Xc.C12

/-
  C15 — allocation and mapping failures are reported cleanly and leak nothing.
-/
import Xc.Thm.C14
namespace Xc.C15
open Xc

/-- only the yescrypt family issues allocator / mapper requests, and then exactly two (mmap, munmap);
    every other method issues none -/
theorem C15_request_count (cfg : Config) (ph st : Option Bytes) : cryptRequests cfg ph st = 0 ∨ cryptRequests cfg ph st = 2 := by
  unfold cryptRequests
  repeat' split
  all_goals simp

theorem filter_set_live (l : List HBlock) (i : Nat) (b b' : HBlock) (hb : l[i]? = some b) (hl : b'.live = b.live) :
    ((l.set i b').filter (·.live)).length = (l.filter (·.live)).length := by
  induction l generalizing i with
  | nil => simp
  | cons x xs ih =>
    cases i with
    | zero =>
      simp only [List.getElem?_cons_zero, Option.some.injEq] at hb
      subst hb
      simp only [List.set_cons_zero, List.filter_cons, hl]
      split <;> simp
    | succ j =>
      simp only [List.getElem?_cons_succ] at hb
      simp only [List.set_cons_succ, List.filter_cons]
      split <;> simp [ih j hb]

/-- crypt_ra issues at most one request, and when it fails the caller's pair is untouched, the result is NULL
    with ENOMEM, and no block changes hands (the old block, already erased, is still the caller's to free) -/
theorem C15_ra_fault (cfg : Config) (D : Digests) (ph st : Option Bytes) (h : Heap) (p : RaPair) (obj : DataObj)
    (hc : p.data.isNone = true ∨ p.size < 0 ∨ p.size < (Gen.sizeof_crypt_data : Int)) :
    (cryptRa cfg D ph st h p obj false).2.1 = p ∧ (cryptRa cfg D ph st h p obj false).2.2.2.ret = none ∧
    (cryptRa cfg D ph st h p obj false).2.2.2.errno = some .ENOMEM ∧
    (cryptRa cfg D ph st h p obj false).1.liveCount = h.liveCount := by
  simp only [cryptRa, hc, if_true, Bool.not_false, if_true]
  refine ⟨trivial, trivial, trivial, ?_⟩
  cases hd : p.data with
  | none => rfl
  | some i =>
    simp only []
    cases hb : h.get i with
    | none => rfl
    | some b =>
      simp only []
      split
      · exact filter_set_live h.blocks i b _ hb rfl
      · rfl

end Xc.C15

import Xc.Thm.C19Core
namespace Xc.C19
set_option maxRecDepth 1000000 in
theorem chunk20 : chunkOk 20 = true := by decide +kernel
end Xc.C19

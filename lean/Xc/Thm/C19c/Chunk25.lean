import Xc.Thm.C19Core
namespace Xc.C19
set_option maxRecDepth 1000000 in
theorem chunk25 : chunkOk 25 = true := by decide +kernel
end Xc.C19

import Xc.Thm.C19Core
namespace Xc.C19
set_option maxRecDepth 1000000 in
theorem chunk11 : chunkOk 11 = true := by decide +kernel
end Xc.C19

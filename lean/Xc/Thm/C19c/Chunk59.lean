import Xc.Thm.C19Core
namespace Xc.C19
set_option maxRecDepth 1000000 in
theorem chunk59 : chunkOk 59 = true := by decide +kernel
end Xc.C19

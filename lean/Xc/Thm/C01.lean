/-
  C01 — authentication round trip.  (Theorems are added method by method; see DESIGN.md.)
-/
import Xc.Lemmas.Api
import Xc.Lemmas.Fix
namespace Xc.C01
open Xc

/-- a successful result always passes the character filter of `do_crypt`, is non-empty and
    shorter than CRYPT_OUTPUT_SIZE: it is never rejected *generically* when used as a setting -/
theorem C01_result_passes_filter (cfg : Config) (D : Digests) (hD : D.WF) (p s H : Bytes)
    (h : cryptPure cfg D p s = .ok H) : checkBadSaltChars H = false ∧ H ≠ [] ∧ H.length < Gen.CRYPT_OUTPUT_SIZE := by
  have hg : goodHash H := cryptAnswer_ok_good (cfg := cfg) (D := D) (phrase := some p) (setting := some s) hD h
  obtain ⟨h1, h2, h3⟩ := hg
  refine ⟨?_, ?_, ?_⟩
  · rw [checkBad_eq, h1]; rfl
  · intro he; rw [he] at h2; simp at h2
  · exact h3

/-! ### The round trip and "only prefix, options and salt matter", method by method.

For a method `m`, `C01_m_fix` is the authentication round trip at the level of the front-end (`crypt_m_rn`):
whatever setting `s` produced `H`, hashing the same phrase with `H` as the setting reproduces `H`.
`C01_m_hashpart` is the second clause: `H` splits as `S ++ digestText`, and `S ++ t` gives `H` for EVERY text `t`
(so the hash portion of a stored hash has no influence, and neither has anything after it).
All of it holds for arbitrary digest functions `D`.  Methods not listed here (sunmd5, scrypt,
yescrypt, gost-yescrypt) have no such theorem yet: for them the clause rests on the oracle of checks/c01.py. -/

theorem C01_md5crypt_fix (D : Digests) (p s H : Bytes) (h : cryptMd5 D p s = .ok H) : cryptMd5 D p H = .ok H := by
  obtain ⟨salt, e, f⟩ := cryptMd5_refeed h
  have := f (permEncode Gen.perm_md5crypt (D.md5crypt p salt)); rwa [← e] at this

theorem C01_md5crypt_hashpart (D : Digests) (p s H : Bytes) (h : cryptMd5 D p s = .ok H) :
    ∃ S dig, H = S ++ dig ∧ ∀ t, cryptMd5 D p (S ++ t) = .ok H := by
  obtain ⟨salt, e, f⟩ := cryptMd5_refeed h
  exact ⟨_, _, e, f⟩

theorem C01_sha256crypt_fix (D : Digests) (p s H : Bytes) (h : cryptSha256 D p s = .ok H) : cryptSha256 D p H = .ok H := by
  obtain ⟨P, e, f⟩ := cryptSha256_refeed h
  have := f (permEncode Gen.perm_sha256crypt (D.sha256crypt p P.salt P.rounds)); rwa [← e] at this

theorem C01_sha256crypt_hashpart (D : Digests) (p s H : Bytes) (h : cryptSha256 D p s = .ok H) :
    ∃ S dig, H = S ++ dig ∧ ∀ t, cryptSha256 D p (S ++ t) = .ok H := by
  obtain ⟨P, e, f⟩ := cryptSha256_refeed h
  refine ⟨Gen.sha256_salt_prefix ++ (if P.custom then Gen.sha256_rounds_prefix ++ toDec P.rounds ++ [36] else []) ++ P.salt ++ [36],
    permEncode Gen.perm_sha256crypt (D.sha256crypt p P.salt P.rounds), ?_, fun t => ?_⟩
  · rw [e]; simp only [emitSha]
  · have := f t; simpa only [emitSha] using this

theorem C01_sha512crypt_fix (D : Digests) (p s H : Bytes) (h : cryptSha512 D p s = .ok H) : cryptSha512 D p H = .ok H := by
  obtain ⟨P, e, f⟩ := cryptSha512_refeed h
  have := f (permEncode Gen.perm_sha512crypt (D.sha512crypt p P.salt P.rounds)); rwa [← e] at this

theorem C01_sha512crypt_hashpart (D : Digests) (p s H : Bytes) (h : cryptSha512 D p s = .ok H) :
    ∃ S dig, H = S ++ dig ∧ ∀ t, cryptSha512 D p (S ++ t) = .ok H := by
  obtain ⟨P, e, f⟩ := cryptSha512_refeed h
  refine ⟨Gen.sha512_salt_prefix ++ (if P.custom then Gen.sha512_rounds_prefix ++ toDec P.rounds ++ [36] else []) ++ P.salt ++ [36],
    permEncode Gen.perm_sha512crypt (D.sha512crypt p P.salt P.rounds), ?_, fun t => ?_⟩
  · rw [e]; simp only [emitSha]
  · have := f t; simpa only [emitSha] using this

theorem C01_sha1crypt_fix (D : Digests) (p s H : Bytes) (h : cryptSha1 D p s = .ok H) : cryptSha1 D p H = .ok H := by
  obtain ⟨P, e, f⟩ := cryptSha1_refeed h
  have := f (sha1Encode (D.sha1crypt p P.salt P.iterations)); rwa [← e] at this

theorem C01_sha1crypt_hashpart (D : Digests) (p s H : Bytes) (h : cryptSha1 D p s = .ok H) :
    ∃ S dig, H = S ++ dig ∧ ∀ t, cryptSha1 D p (S ++ t) = .ok H := by
  obtain ⟨P, e, f⟩ := cryptSha1_refeed h
  exact ⟨_, _, e, f⟩

theorem C01_nt_fix (D : Digests) (p s H : Bytes) (h : cryptNt D p s = .ok H) : cryptNt D p H = .ok H := by
  obtain ⟨e, f⟩ := cryptNt_refeed h
  have := f ([36] ++ hexLower (D.nt p)); rw [← List.append_assoc, ← e] at this; exact this

theorem C01_nt_hashpart (D : Digests) (p s H : Bytes) (h : cryptNt D p s = .ok H) :
    ∀ t, cryptNt D p (ntMagic ++ t) = .ok H := (cryptNt_refeed h).2

theorem C01_descrypt_fix (D : Digests) (p s H : Bytes) (h : cryptDes D p s = .ok H) : cryptDes D p H = .ok H := by
  obtain ⟨salt, e, f⟩ := cryptDes_refeed h
  have := f (desEncode (D.desHash (desKey p) salt 25)); rwa [← e] at this

theorem C01_descrypt_hashpart (D : Digests) (p s H : Bytes) (h : cryptDes D p s = .ok H) :
    ∃ S dig, H = S ++ dig ∧ S.length = 2 ∧ ∀ t, cryptDes D p (S ++ t) = .ok H := by
  obtain ⟨salt, e, f⟩ := cryptDes_refeed h
  exact ⟨_, _, e, rfl, f⟩

theorem C01_bsdicrypt_fix (D : Digests) (p s H : Bytes) (h : cryptBsdi D p s = .ok H) : cryptBsdi D p H = .ok H := by
  obtain ⟨dig, e, f⟩ := cryptBsdi_refeed h
  have := f dig; rwa [← e] at this

theorem C01_bsdicrypt_hashpart (D : Digests) (p s H : Bytes) (h : cryptBsdi D p s = .ok H) :
    ∃ dig, H = s.take 9 ++ dig ∧ ∀ t, cryptBsdi D p (s.take 9 ++ t) = .ok H := cryptBsdi_refeed h

/-- bigcrypt: the round trip (its setting length is part of its semantics, so there is no hash-part clause) -/
theorem C01_bigcrypt_fix (d : Bool) (D : Digests) (hD : D.WF) (p s H : Bytes) (h : cryptBig d D p s = .ok H) :
    cryptBig d D p H = .ok H := cryptBig_fix d D hD p s H h

/-- bcrypt (all four subtypes): 28 characters of the setting, the 29th with its four unused bits cleared, then the digest -/
theorem C01_bcrypt_fix (D : Digests) (p s H : Bytes) (h : cryptBf D p s = .ok H) : cryptBf D p H = .ok H := by
  obtain ⟨c22, dig, _, e, f⟩ := cryptBf_refeed h
  have := f dig; rwa [← e] at this

theorem C01_bcrypt_hashpart (D : Digests) (p s H : Bytes) (h : cryptBf D p s = .ok H) :
    ∃ S dig, H = S ++ dig ∧ S.length = 29 ∧ ∀ t, cryptBf D p (S ++ t) = .ok H := by
  obtain ⟨c22, dig, hl, e, f⟩ := cryptBf_refeed h
  exact ⟨s.take 28 ++ [c22], dig, e, by simp; omega, f⟩

/-- non-vacuity: concrete settings meet the hypotheses (kernel-evaluated with the executable digests abstracted away) -/
example (D : Digests) : ∃ H, cryptMd5 D [112, 119] [36, 49, 36, 115, 97, 108, 116] = .ok H := ⟨_, rfl⟩
example (D : Digests) : ∃ H, cryptDes D [112, 119] [97, 98] = .ok H := ⟨_, rfl⟩

end Xc.C01

/-
  C01 — authentication round trip.  (Theorems are added method by method; see DESIGN.md.)
-/
import Xc.Lemmas.Api
import Xc.Lemmas.Fix
import Xc.Lemmas.Scrypt
import Xc.Lemmas.Sunmd5
import Xc.Lemmas.Gost
import Xc.Lemmas.HashPart
import Xc.Thm.C18
namespace Xc.C01
open Xc

/-- a successful result always passes the character filter of `do_crypt`, is non-empty and
    shorter than CRYPT_OUTPUT_SIZE: it is never rejected *generically* when used as a setting -/
theorem C01_result_passes_filter (cfg : Config) (D : Digests) (hD : D.WF) (p s H : Bytes)
    (h : cryptPure cfg D p s = .ok H) : checkBadSaltChars H = false ∧ H ≠ [] ∧ H.length < Gen.CRYPT_OUTPUT_SIZE := by
  have hg : goodHash H := cryptAnswer_ok_good (cfg := cfg) (D := D) (phrase := some p) (setting := some s) hD h
  obtain ⟨h1, h2, h3⟩ := hg
  refine ⟨?_, ?_, ?_⟩
  · rw [checkBad_eq, h1]; rfl
  · intro he; rw [he] at h2; simp at h2
  · exact h3

/-! ### The round trip and "only prefix, options and salt matter", method by method.

For a method `m`, `C01_m_fix` is the authentication round trip at the level of the front-end (`crypt_m_rn`):
whatever setting `s` produced `H`, hashing the same phrase with `H` as the setting reproduces `H`.
`C01_m_hashpart` is the second clause: `H` splits as `S ++ digestText`, and `S ++ t` gives `H` for EVERY text `t`
(so the hash portion of a stored hash has no influence, and neither has anything after it).
All of it holds for arbitrary digest functions `D`; all sixteen methods have their `_fix` theorem. -/

theorem C01_md5crypt_fix (D : Digests) (p s H : Bytes) (h : cryptMd5 D p s = .ok H) : cryptMd5 D p H = .ok H := by
  obtain ⟨salt, e, f⟩ := cryptMd5_refeed h
  have := f (permEncode Gen.perm_md5crypt (D.md5crypt p salt)); rwa [← e] at this

theorem C01_md5crypt_hashpart (D : Digests) (p s H : Bytes) (h : cryptMd5 D p s = .ok H) :
    ∃ S dig, H = S ++ dig ∧ ∀ t, cryptMd5 D p (S ++ t) = .ok H := by
  obtain ⟨salt, e, f⟩ := cryptMd5_refeed h
  exact ⟨_, _, e, f⟩

theorem C01_sha256crypt_fix (D : Digests) (p s H : Bytes) (h : cryptSha256 D p s = .ok H) : cryptSha256 D p H = .ok H := by
  obtain ⟨P, e, f⟩ := cryptSha256_refeed h
  have := f (permEncode Gen.perm_sha256crypt (D.sha256crypt p P.salt P.rounds)); rwa [← e] at this

theorem C01_sha256crypt_hashpart (D : Digests) (p s H : Bytes) (h : cryptSha256 D p s = .ok H) :
    ∃ S dig, H = S ++ dig ∧ ∀ t, cryptSha256 D p (S ++ t) = .ok H := by
  obtain ⟨P, e, f⟩ := cryptSha256_refeed h
  refine ⟨Gen.sha256_salt_prefix ++ (if P.custom then Gen.sha256_rounds_prefix ++ toDec P.rounds ++ [36] else []) ++ P.salt ++ [36],
    permEncode Gen.perm_sha256crypt (D.sha256crypt p P.salt P.rounds), ?_, fun t => ?_⟩
  · rw [e]; simp only [emitSha]
  · have := f t; simpa only [emitSha] using this

theorem C01_sha512crypt_fix (D : Digests) (p s H : Bytes) (h : cryptSha512 D p s = .ok H) : cryptSha512 D p H = .ok H := by
  obtain ⟨P, e, f⟩ := cryptSha512_refeed h
  have := f (permEncode Gen.perm_sha512crypt (D.sha512crypt p P.salt P.rounds)); rwa [← e] at this

theorem C01_sha512crypt_hashpart (D : Digests) (p s H : Bytes) (h : cryptSha512 D p s = .ok H) :
    ∃ S dig, H = S ++ dig ∧ ∀ t, cryptSha512 D p (S ++ t) = .ok H := by
  obtain ⟨P, e, f⟩ := cryptSha512_refeed h
  refine ⟨Gen.sha512_salt_prefix ++ (if P.custom then Gen.sha512_rounds_prefix ++ toDec P.rounds ++ [36] else []) ++ P.salt ++ [36],
    permEncode Gen.perm_sha512crypt (D.sha512crypt p P.salt P.rounds), ?_, fun t => ?_⟩
  · rw [e]; simp only [emitSha]
  · have := f t; simpa only [emitSha] using this

theorem C01_sha1crypt_fix (D : Digests) (p s H : Bytes) (h : cryptSha1 D p s = .ok H) : cryptSha1 D p H = .ok H := by
  obtain ⟨P, e, f⟩ := cryptSha1_refeed h
  have := f (sha1Encode (D.sha1crypt p P.salt P.iterations)); rwa [← e] at this

theorem C01_sha1crypt_hashpart (D : Digests) (p s H : Bytes) (h : cryptSha1 D p s = .ok H) :
    ∃ S dig, H = S ++ dig ∧ ∀ t, cryptSha1 D p (S ++ t) = .ok H := by
  obtain ⟨P, e, f⟩ := cryptSha1_refeed h
  exact ⟨_, _, e, f⟩

theorem C01_nt_fix (D : Digests) (p s H : Bytes) (h : cryptNt D p s = .ok H) : cryptNt D p H = .ok H := by
  obtain ⟨e, f⟩ := cryptNt_refeed h
  have := f ([36] ++ hexLower (D.nt p)); rw [← List.append_assoc, ← e] at this; exact this

theorem C01_nt_hashpart (D : Digests) (p s H : Bytes) (h : cryptNt D p s = .ok H) :
    ∀ t, cryptNt D p (ntMagic ++ t) = .ok H := (cryptNt_refeed h).2

theorem C01_descrypt_fix (D : Digests) (p s H : Bytes) (h : cryptDes D p s = .ok H) : cryptDes D p H = .ok H := by
  obtain ⟨salt, e, f⟩ := cryptDes_refeed h
  have := f (desEncode (D.desHash (desKey p) salt 25)); rwa [← e] at this

theorem C01_descrypt_hashpart (D : Digests) (p s H : Bytes) (h : cryptDes D p s = .ok H) :
    ∃ S dig, H = S ++ dig ∧ S.length = 2 ∧ ∀ t, cryptDes D p (S ++ t) = .ok H := by
  obtain ⟨salt, e, f⟩ := cryptDes_refeed h
  exact ⟨_, _, e, rfl, f⟩

theorem C01_bsdicrypt_fix (D : Digests) (p s H : Bytes) (h : cryptBsdi D p s = .ok H) : cryptBsdi D p H = .ok H := by
  obtain ⟨dig, e, f⟩ := cryptBsdi_refeed h
  have := f dig; rwa [← e] at this

theorem C01_bsdicrypt_hashpart (D : Digests) (p s H : Bytes) (h : cryptBsdi D p s = .ok H) :
    ∃ dig, H = s.take 9 ++ dig ∧ ∀ t, cryptBsdi D p (s.take 9 ++ t) = .ok H := cryptBsdi_refeed h

/-- bigcrypt: the round trip (its setting length is part of its semantics, so there is no hash-part clause) -/
theorem C01_bigcrypt_fix (d : Bool) (D : Digests) (hD : D.WF) (p s H : Bytes) (h : cryptBig d D p s = .ok H) :
    cryptBig d D p H = .ok H := cryptBig_fix d D hD p s H h

/-- bcrypt (all four subtypes): 28 characters of the setting, the 29th with its four unused bits cleared, then the digest -/
theorem C01_bcrypt_fix (D : Digests) (p s H : Bytes) (h : cryptBf D p s = .ok H) : cryptBf D p H = .ok H := by
  obtain ⟨c22, dig, _, e, f⟩ := cryptBf_refeed h
  have := f dig; rwa [← e] at this

theorem C01_bcrypt_hashpart (D : Digests) (p s H : Bytes) (h : cryptBf D p s = .ok H) :
    ∃ S dig, H = S ++ dig ∧ S.length = 29 ∧ ∀ t, cryptBf D p (S ++ t) = .ok H := by
  obtain ⟨c22, dig, hl, e, f⟩ := cryptBf_refeed h
  exact ⟨s.take 28 ++ [c22], dig, e, by simp; omega, f⟩

/-- yescrypt (`$y$`, the default method): the parameters are read below `prefixlen`, the salt string ends at the last `$` -/
theorem C01_yescrypt_fix (D : Digests) (p s H : Bytes) (h : cryptYescrypt D p s = .ok H) : cryptYescrypt D p H = .ok H := by
  unfold cryptYescrypt cryptYescryptCore at h ⊢
  split at h; · cases h
  rename_i out hout
  cases h
  obtain ⟨k, dig, _, _, e, hd, f⟩ := yescryptR_refeed hout
  have := f dig hd
  rw [← e] at this
  rw [this]

/-- only the parameters and the salt matter: any text free of `$` may follow the `$` that ends the salt -/
theorem C01_yescrypt_hashpart (D : Digests) (p s H : Bytes) (h : cryptYescrypt D p s = .ok H) :
    ∃ S dig, H = S ++ dig ∧ ∀ t, (36 : UInt8) ∉ t → cryptYescrypt D p (S ++ t) = .ok H := by
  unfold cryptYescrypt cryptYescryptCore at h
  split at h; · cases h
  rename_i out hout
  cases h
  obtain ⟨k, dig, _, _, e, hd, f⟩ := yescryptR_refeed hout
  refine ⟨s.take k ++ [36], dig, by rw [e]; simp, fun t ht => ?_⟩
  unfold cryptYescrypt cryptYescryptCore
  have := f t ht
  simp only [List.append_assoc, List.singleton_append]
  rw [this, e]

/-- scrypt (`$7$`): the kept part of the setting consists of salt characters only, so `verify_salt` accepts the result -/
theorem C01_scrypt_fix (D : Digests) (p s H : Bytes) (h : cryptScrypt D p s = .ok H) : cryptScrypt D p H = .ok H :=
  cryptScrypt_fix D p s H h

/-- sunmd5: every spelling of the salt's end (`salt`, `salt$`, `salt$$`, `salt$x…`) is reproduced by the result -/
theorem C01_sunmd5_fix (D : Digests) (p s H : Bytes) (h : cryptSunmd5 D p s = .ok H) : cryptSunmd5 D p H = .ok H :=
  cryptSunmd5_fix D p s H h

/-- gost-yescrypt (`$gy$`): the inner `$y$` call re-reads its own parameters and salt; the outer hash is keyed by the same
    leading part of the setting; the result is short enough to pass the size pre-check again (parameters ≤ 76, salt ≤ 86 characters) -/
theorem C01_gost_fix (D : Digests) (hD : D.WF) (p s H : Bytes) (h : cryptGost D p s = .ok H) : cryptGost D p H = .ok H :=
  cryptGost_fix D hD p s H h

/-- non-vacuity: concrete settings meet the hypotheses (kernel-evaluated with the executable digests abstracted away) -/
example (D : Digests) : ∃ H, cryptMd5 D [112, 119] [36, 49, 36, 115, 97, 108, 116] = .ok H := ⟨_, rfl⟩
example (D : Digests) : ∃ H, cryptDes D [112, 119] [97, 98] = .ok H := ⟨_, rfl⟩


/-! ### the round trip at the level of the API (`do_crypt`) -/
open List in
theorem prefix_take_append {pfx s : Bytes} (x : Bytes) (n : Nat) (h : pfx <+: s) (hn : pfx.length ≤ n) : pfx <+: s.take n ++ x := by
  obtain ⟨t, rfl⟩ := h
  rw [List.take_append, List.take_of_length_le hn, List.append_assoc]
  exact List.prefix_append _ _

/-- re-dispatch: if row `r` is the first match for `s`, and `H` (a) begins with `r`'s non-empty tag, or (b) `r` is an untagged
    (DES) row and `H` begins with two DES salt characters, then `r` is the first match for `H` too -/
theorem redispatch (tbl : List HashEntry) (hT : C18.TableOk tbl = true) (s H : Bytes) (r : HashEntry)
    (hs : getHashFn tbl s = some r)
    (hH : (r.pfx ≠ [] ∧ r.pfx <+: H) ∨ (r.pfx = [] ∧ isDesSaltChar (cat H 0) = true ∧ isDesSaltChar (cat H 1) = true ∧ H ≠ [])) :
    getHashFn tbl H = some r := by
  simp only [C18.TableOk, Bool.and_eq_true, List.all_eq_true] at hT
  obtain ⟨⟨hpf, hdes⟩, _⟩ := hT
  have hpf' := hpf
  simp only [C18.prefixFree, Bool.and_eq_true, List.all_eq_true] at hpf'
  obtain ⟨⟨hlen, _⟩, _⟩ := hpf'
  unfold getHashFn at hs ⊢
  rw [List.find?_eq_some_iff_append] at hs ⊢
  obtain ⟨hm, as, bs, htbl, hbefore⟩ := hs
  have rmem : r ∈ tbl := by rw [htbl]; simp
  have rlen : r.plen = r.pfx.length := by simpa using hlen r rmem
  refine ⟨?_, as, bs, htbl, ?_⟩
  · -- r matches H
    rcases hH with ⟨hne, hpre⟩ | ⟨he, d0, d1, hHne⟩
    · unfold HashEntry.matches
      have : 0 < r.pfx.length := List.length_pos_iff.mpr hne
      rw [if_pos (by omega), rlen, if_pos (Nat.le_refl _), List.take_length]
      simpa [hasPrefix] using hpre
    · unfold HashEntry.matches
      rw [rlen, he]; simp [d0, d1]
  · intro x hx
    have xmem : x ∈ tbl := by rw [htbl]; simp [hx]
    have xlen : x.plen = x.pfx.length := by simpa using hlen x xmem
    have xns := hbefore x hx
    simp only [Bool.not_eq_true'] at xns ⊢
    apply Decidable.byContradiction
    intro hxm'
    have hxm : x.matches H = true := by simpa using hxm'
    rcases hH with ⟨hne, hpre⟩ | ⟨he, d0, d1, hHne⟩
    · -- tagged row
      by_cases hxe : x.pfx = []
      · -- an untagged row cannot match something that begins with a tag
        unfold HashEntry.matches at hxm
        rw [xlen, hxe] at hxm
        simp only [List.length_nil, Nat.lt_irrefl, if_false, Bool.or_eq_true, Bool.and_eq_true] at hxm
        obtain ⟨t, rfl⟩ := hpre
        have hr := hdes r rmem
        cases hrp : r.pfx with
        | nil => exact hne hrp
        | cons c cs =>
          rw [hrp] at hr hxm
          simp [cat] at hr hxm
          rw [hr] at hxm; simp at hxm
      · have := C18.C18_unique_match tbl hpf H x r xmem rmem hxe hne hxm (by
          unfold HashEntry.matches
          have : 0 < r.pfx.length := List.length_pos_iff.mpr hne
          rw [if_pos (by omega), rlen, if_pos (Nat.le_refl _), List.take_length]
          simpa [hasPrefix] using hpre)
        subst this
        rw [hm] at xns; cases xns
    · -- DES row
      by_cases hxe : x.pfx = []
      · -- an earlier untagged row would have matched s as well
        have : x.matches s = true := by
          unfold HashEntry.matches at hm ⊢
          rw [rlen, he] at hm; rw [xlen, hxe]
          simpa using hm
        rw [this] at xns; cases xns
      · -- a tagged row cannot match something that begins with a DES salt character
        have xp := C18.matches_prefix x H xlen (by rw [xlen]; exact List.length_pos_iff.mpr hxe) hxm
        obtain ⟨t, rfl⟩ := xp
        have hx2 := hdes x xmem
        cases hxp : x.pfx with
        | nil => exact hxe hxp
        | cons c cs =>
          rw [hxp] at hx2 d0
          simp [cat] at hx2 d0
          rw [d0] at hx2; cases hx2

theorem isDes_a64 : ∀ k : Fin 64, isDesSaltChar (a64 k.val) = true := by decide
theorem isDes_a64' (n : Nat) : isDesSaltChar (a64 n) = true := by
  have := isDes_a64 ⟨n % 64, Nat.mod_lt _ (by decide)⟩; simpa [a64] using this

theorem tag_facts : C18.tagOf .md5crypt = Gen.md5_salt_prefix ∧ C18.tagOf .sha256crypt = Gen.sha256_salt_prefix ∧ C18.tagOf .sha512crypt = Gen.sha512_salt_prefix ∧
    C18.tagOf .sha1crypt <+: sha1Magic ∧ C18.tagOf .nt = ntMagic ∧ (C18.tagOf .bsdicrypt).length ≤ 9 ∧ (C18.tagOf .bcrypt).length ≤ 28 ∧ (C18.tagOf .bcrypt_a).length ≤ 28 ∧
    (C18.tagOf .bcrypt_x).length ≤ 28 ∧ (C18.tagOf .bcrypt_y).length ≤ 28 ∧ C18.tagOf .bigcrypt = [] ∧ C18.tagOf .descrypt = [] ∧
    (∀ m, C18.tagOf m = [] → m = .bigcrypt ∨ m = .descrypt) := by
  refine ⟨by decide, by decide, by decide, by decide, by decide, by decide, by decide, by decide, by decide, by decide, by decide, by decide, ?_⟩
  intro m; cases m <;> decide

/-- **C01, both clauses, at the level of the API** (`do_crypt`: length check, character filter, dispatch, method):
    for every configuration whose table is `C18.TableOk` (the tree's is: `C18.tableOk_tree`), arbitrary digests, every phrase
    and every setting, whichever of the sixteen methods it is dispatched to: the result is accepted again, dispatched to the
    same table row, and reproduces itself. -/
theorem C01_roundtrip_row (cfg : Config) (hT : C18.TableOk cfg.table = true) (D : Digests) (hD : D.WF) (p s H : Bytes)
    (h : cryptPure cfg D p s = .ok H) :
    cryptPure cfg D p H = .ok H ∧ getHashFn cfg.table H = getHashFn cfg.table s := by
  have hfilter := (C01_result_passes_filter cfg D hD p s H h).1
  unfold cryptPure at h ⊢
  split at h; · cases h
  rename_i hlen
  split at h; · cases h
  split at h; · cases h
  rename_i r hr
  simp only [hlen, if_false, hfilter, Bool.false_eq_true]
  have hT' := hT
  simp only [C18.TableOk, Bool.and_eq_true, List.all_eq_true] at hT'
  obtain ⟨⟨hpf, _⟩, htag⟩ := hT'
  have hpf' := hpf
  simp only [C18.prefixFree, Bool.and_eq_true, List.all_eq_true] at hpf'
  obtain ⟨⟨hplen, _⟩, _⟩ := hpf'
  have rmem : r ∈ cfg.table := List.mem_of_find?_eq_some hr
  have rtag : r.pfx = C18.tagOf r.crypt := by simpa using htag r rmem
  have rlen : r.plen = r.pfx.length := by simpa using hplen r rmem
  have rmatch : r.matches s = true := by
    unfold getHashFn at hr; have := List.find?_some hr; simpa using this
  obtain ⟨t1, t2, t3, t4, t5, t6, t7, t8, t9, t10, t11, t12, t13⟩ := tag_facts
  -- the row for H is r again, and the method reproduces H
  suffices hh : getHashFn cfg.table H = some r ∧ cryptMethod cfg.descryptOn D r.crypt p H = .ok H by
    rw [hh.1, hr]; exact ⟨hh.2, rfl⟩
  have spre : r.pfx ≠ [] → r.pfx <+: s := fun hne =>
    C18.matches_prefix r s rlen (by rw [rlen]; exact List.length_pos_iff.mpr hne) rmatch
  -- DES-family rows: the result begins with two salt characters
  have desCase : ∀ salt : Nat, ∀ rest : Bytes, r.pfx = [] → H = [a64 salt, a64 (salt / 64)] ++ rest → s ≠ [] → getHashFn cfg.table H = some r := by
    intro salt rest he hH hsne
    apply redispatch cfg.table hT s H r hr
    right
    refine ⟨he, ?_, ?_, ?_⟩ <;> rw [hH] <;> simp [cat, isDes_a64']
  have sne : r.pfx = [] → s ≠ [] := by
    intro he hs; subst hs
    cases hc : r.crypt <;> rw [hc] at h rtag <;> simp only [cryptMethod] at h
    all_goals first
      | (rw [he] at rtag; have := t13 _ rtag.symm; simp at this; done)
      | (simp [cryptBig, cryptDes, parseDesSalt, cat, asciiToBin] at h; done)
  cases hc : r.crypt <;> rw [hc] at h rtag <;> simp only [cryptMethod] at h ⊢
  case gost_yescrypt =>
    have hne : r.pfx ≠ [] := by rw [rtag]; decide
    have hfix := C01_gost_fix D hD p s H h
    refine ⟨redispatch cfg.table hT s H r hr (Or.inl ⟨hne, ?_⟩), hfix⟩
    unfold cryptGost at hfix
    split at hfix; · cases hfix
    split at hfix; · cases hfix
    rename_i hpre
    simp only [Bool.not_eq_true, Bool.not_eq_false] at hpre
    have := hasPrefix_split hpre
    rw [rtag, this]; exact ⟨_, rfl⟩
  case scrypt =>
    have hne : r.pfx ≠ [] := by rw [rtag]; decide
    have hfix := C01_scrypt_fix D p s H h
    unfold cryptScrypt at h
    split at h; · cases h
    unfold cryptYescryptCore at h
    split at h; · cases h
    rename_i out hout
    cases h
    obtain ⟨k, dig, hk1, hk2, e, _, _⟩ := yescryptR_refeed hout
    refine ⟨redispatch cfg.table hT s H r hr (Or.inl ⟨hne, ?_⟩), hfix⟩
    have h3 : (C18.tagOf .scrypt).length = 3 := by decide
    rw [e]; exact prefix_take_append _ k (spre hne) (by rw [rtag, h3]; omega)
  case yescrypt =>
    have hne : r.pfx ≠ [] := by rw [rtag]; decide
    have hfix := C01_yescrypt_fix D p s H h
    unfold cryptYescrypt cryptYescryptCore at h
    split at h; · cases h
    rename_i out hout
    cases h
    obtain ⟨k, dig, hk1, hk2, e, _, _⟩ := yescryptR_refeed hout
    refine ⟨redispatch cfg.table hT s H r hr (Or.inl ⟨hne, ?_⟩), hfix⟩
    have h3 : (C18.tagOf .yescrypt).length = 3 := by decide
    rw [e]; exact prefix_take_append _ k (spre hne) (by rw [rtag, h3]; omega)
  case bcrypt =>
    have hne : r.pfx ≠ [] := by rw [rtag]; decide
    obtain ⟨c22, dig, hl, e, f⟩ := cryptBf_refeed h
    refine ⟨redispatch cfg.table hT s H r hr (Or.inl ⟨hne, ?_⟩), C01_bcrypt_fix D p s H h⟩
    rw [e, List.append_assoc]; exact prefix_take_append _ 28 (spre hne) (by rw [rtag]; exact t7)
  case bcrypt_y =>
    have hne : r.pfx ≠ [] := by rw [rtag]; decide
    obtain ⟨c22, dig, hl, e, f⟩ := cryptBf_refeed h
    refine ⟨redispatch cfg.table hT s H r hr (Or.inl ⟨hne, ?_⟩), C01_bcrypt_fix D p s H h⟩
    rw [e, List.append_assoc]; exact prefix_take_append _ 28 (spre hne) (by rw [rtag]; exact t10)
  case bcrypt_a =>
    have hne : r.pfx ≠ [] := by rw [rtag]; decide
    obtain ⟨c22, dig, hl, e, f⟩ := cryptBf_refeed h
    refine ⟨redispatch cfg.table hT s H r hr (Or.inl ⟨hne, ?_⟩), C01_bcrypt_fix D p s H h⟩
    rw [e, List.append_assoc]; exact prefix_take_append _ 28 (spre hne) (by rw [rtag]; exact t8)
  case bcrypt_x =>
    have hne : r.pfx ≠ [] := by rw [rtag]; decide
    obtain ⟨c22, dig, hl, e, f⟩ := cryptBf_refeed h
    refine ⟨redispatch cfg.table hT s H r hr (Or.inl ⟨hne, ?_⟩), C01_bcrypt_fix D p s H h⟩
    rw [e, List.append_assoc]; exact prefix_take_append _ 28 (spre hne) (by rw [rtag]; exact t9)
  case sha512crypt =>
    have hne : r.pfx ≠ [] := by rw [rtag]; decide
    obtain ⟨P, e, f⟩ := cryptSha512_refeed h
    refine ⟨redispatch cfg.table hT s H r hr (Or.inl ⟨hne, ?_⟩), C01_sha512crypt_fix D p s H h⟩
    rw [e, rtag, t3]; unfold emitSha; simp only [List.append_assoc]; exact List.prefix_append _ _
  case sha256crypt =>
    have hne : r.pfx ≠ [] := by rw [rtag]; decide
    obtain ⟨P, e, f⟩ := cryptSha256_refeed h
    refine ⟨redispatch cfg.table hT s H r hr (Or.inl ⟨hne, ?_⟩), C01_sha256crypt_fix D p s H h⟩
    rw [e, rtag, t2]; unfold emitSha; simp only [List.append_assoc]; exact List.prefix_append _ _
  case sha1crypt =>
    have hne : r.pfx ≠ [] := by rw [rtag]; decide
    obtain ⟨P, e, f⟩ := cryptSha1_refeed h
    refine ⟨redispatch cfg.table hT s H r hr (Or.inl ⟨hne, ?_⟩), C01_sha1crypt_fix D p s H h⟩
    rw [e, rtag]; simp only [List.append_assoc]; exact t4.trans (List.prefix_append _ _)
  case sunmd5 =>
    have hne : r.pfx ≠ [] := by rw [rtag]; decide
    have hfix := C01_sunmd5_fix D p s H h
    unfold cryptSunmd5 at h
    split at h; · cases h
    rename_i P hP
    simp only [Except.ok.injEq] at h
    obtain ⟨h5', hl, _⟩ := parseSunmd5_refeed hP (permEncode Gen.perm_sunmd5 (D.sunmd5 p (s.take P.saltlen) P.nrounds)) (permEncode_head _)
    have h5 : 4 ≤ P.saltlen := by omega
    refine ⟨redispatch cfg.table hT s H r hr (Or.inl ⟨hne, ?_⟩), hfix⟩
    have h4 : (C18.tagOf .sunmd5).length = 4 := by decide
    rw [← h, List.append_assoc]; exact prefix_take_append _ P.saltlen (spre hne) (by rw [rtag, h4]; exact h5)
  case md5crypt =>
    have hne : r.pfx ≠ [] := by rw [rtag]; decide
    obtain ⟨salt, e, f⟩ := cryptMd5_refeed h
    refine ⟨redispatch cfg.table hT s H r hr (Or.inl ⟨hne, ?_⟩), C01_md5crypt_fix D p s H h⟩
    rw [e, rtag, t1]; simp only [List.append_assoc]; exact List.prefix_append _ _
  case nt =>
    have hne : r.pfx ≠ [] := by rw [rtag]; decide
    obtain ⟨e, f⟩ := cryptNt_refeed h
    refine ⟨redispatch cfg.table hT s H r hr (Or.inl ⟨hne, ?_⟩), C01_nt_fix D p s H h⟩
    rw [e, rtag, t5]; simp only [List.append_assoc]; exact List.prefix_append _ _
  case bsdicrypt =>
    have hne : r.pfx ≠ [] := by rw [rtag]; decide
    obtain ⟨dig, e, f⟩ := cryptBsdi_refeed h
    refine ⟨redispatch cfg.table hT s H r hr (Or.inl ⟨hne, ?_⟩), C01_bsdicrypt_fix D p s H h⟩
    rw [e]; exact prefix_take_append _ 9 (spre hne) (by rw [rtag]; exact t6)
  case bigcrypt =>
    have he : r.pfx = [] := by rw [rtag]; exact t11
    refine ⟨?_, C01_bigcrypt_fix cfg.descryptOn D hD p s H h⟩
    have hshape : ∃ salt rest, H = [a64 salt, a64 (salt / 64)] ++ rest := by
      unfold cryptBig at h
      split at h
      · split at h
        · obtain ⟨salt, e, _⟩ := cryptDes_refeed h; exact ⟨salt, _, e⟩
        · cases h
      · split at h
        · cases h
        · cases h; exact ⟨_, _, rfl⟩
    obtain ⟨salt, rest, e⟩ := hshape
    exact desCase salt rest he e (sne he)
  case descrypt =>
    have he : r.pfx = [] := by rw [rtag]; exact t12
    obtain ⟨salt, e, _⟩ := cryptDes_refeed h
    exact ⟨desCase salt _ he e (sne he), C01_descrypt_fix D p s H h⟩


/-- **C01, both clauses, at the level of the API** — see `C01_roundtrip_row`, which also says that the result is dispatched to the
    same table row as the setting -/
theorem C01_roundtrip (cfg : Config) (hT : C18.TableOk cfg.table = true) (D : Digests) (hD : D.WF) (p s H : Bytes)
    (h : cryptPure cfg D p s = .ok H) : cryptPure cfg D p H = .ok H :=
  (C01_roundtrip_row cfg hT D hD p s H h).1

open List in
theorem hashpart_method (d : Bool) (D : Digests) (hD : D.WF) (m : Method) (p s H : Bytes) (h : cryptMethod d D m p s = .ok H) :
    HashPart (cryptMethod d D m p) H (max 2 (C18.tagOf m).length) := by
  obtain ⟨t1, t2, t3, t4, t5, t6, t7, t8, t9, t10, t11, t12, t13⟩ := tag_facts
  cases m <;> simp only [cryptMethod] at h ⊢
  case md5crypt =>
    obtain ⟨salt, e, f⟩ := cryptMd5_refeed h
    refine ⟨_, _, e, ?_, fun t _ _ => f t⟩
    rw [t1] ; simp [Gen.md5_salt_prefix] <;> omega
  case sha256crypt =>
    obtain ⟨P, e, f⟩ := cryptSha256_refeed h
    refine ⟨Gen.sha256_salt_prefix ++ (if P.custom then Gen.sha256_rounds_prefix ++ toDec P.rounds ++ [36] else []) ++ P.salt ++ [36], permEncode Gen.perm_sha256crypt (D.sha256crypt p P.salt P.rounds), ?_, ?_, fun t _ _ => ?_⟩
    · rw [e]; simp only [emitSha]
    · rw [t2]; simp [Gen.sha256_salt_prefix] <;> omega
    · show cryptSha256 D p _ = _
      have := f t; simpa only [emitSha] using this
  case sha512crypt =>
    obtain ⟨P, e, f⟩ := cryptSha512_refeed h
    refine ⟨Gen.sha512_salt_prefix ++ (if P.custom then Gen.sha512_rounds_prefix ++ toDec P.rounds ++ [36] else []) ++ P.salt ++ [36], permEncode Gen.perm_sha512crypt (D.sha512crypt p P.salt P.rounds), ?_, ?_, fun t _ _ => ?_⟩
    · rw [e]; simp only [emitSha]
    · rw [t3]; simp [Gen.sha512_salt_prefix] <;> omega
    · show cryptSha512 D p _ = _
      have := f t; simpa only [emitSha] using this
  case sha1crypt =>
    obtain ⟨P, e, f⟩ := cryptSha1_refeed h
    refine ⟨_, _, e, ?_, fun t _ _ => f t⟩
    have : (C18.tagOf .sha1crypt).length ≤ sha1Magic.length := t4.length_le
    simp [sha1Magic] at this ⊢; omega
  case nt =>
    obtain ⟨e, f⟩ := cryptNt_refeed h
    refine ⟨ntMagic ++ [36], hexLower (D.nt p), e, ?_, fun t _ _ => ?_⟩
    · rw [t5]; simp [ntMagic]
    · have := f ([36] ++ t); rwa [← List.append_assoc] at this
  case descrypt =>
    obtain ⟨salt, e, f⟩ := cryptDes_refeed h
    refine ⟨_, _, e, ?_, fun t _ _ => f t⟩
    rw [t12]; simp
  case bsdicrypt =>
    have h9 : 9 ≤ s.length := by
      unfold cryptBsdi at h
      split at h; · cases h
      rename_i hc; simp only [not_or, Nat.not_lt] at hc; exact hc.2
    obtain ⟨dig, e, f⟩ := cryptBsdi_refeed h
    refine ⟨s.take 9, dig, e, ?_, fun t _ _ => f t⟩
    simp <;> omega
  case bcrypt | bcrypt_y | bcrypt_a | bcrypt_x =>
    obtain ⟨c22, dig, hl, e, f⟩ := cryptBf_refeed h
    refine ⟨s.take 28 ++ [c22], dig, e, ?_, fun t _ _ => f t⟩
    have : ∀ m, (C18.tagOf m).length ≤ 28 := by intro m; cases m <;> decide
    have := this
    simp <;> omega
  case yescrypt =>
    unfold cryptYescrypt cryptYescryptCore at h
    split at h; · cases h
    rename_i out hout
    cases h
    obtain ⟨k, dig, hk1, hk2, e, hd, f⟩ := yescryptR_refeed hout
    refine ⟨s.take k ++ [36], dig, by rw [e]; simp, ?_, fun t _ ht => ?_⟩
    · have : (C18.tagOf .yescrypt).length = 3 := by decide
      rw [this]; simp <;> omega
    · show cryptYescrypt D p _ = _
      unfold cryptYescrypt cryptYescryptCore
      have := f t ht.no36
      simp only [List.append_assoc, List.singleton_append]
      rw [this, e]
  case scrypt =>
    obtain ⟨S, dig, e, hS, f⟩ := cryptScrypt_hashpart D p s H h
    refine ⟨S, dig, e, ?_, fun t _ ht => f t ht.valid ht.no36⟩
    have : (C18.tagOf .scrypt).length = 3 := by decide
    rw [this]; omega
  case gost_yescrypt =>
    obtain ⟨S, dig, e, hS, f⟩ := cryptGost_hashpart D hD p s H h
    refine ⟨S, dig, e, ?_, fun t htl ht => f t ht.no36 (by omega)⟩
    have : (C18.tagOf .gost_yescrypt).length = 4 := by decide
    rw [this]; omega
  case sunmd5 =>
    obtain ⟨S, dig, e, hS, hdl, f⟩ := cryptSunmd5_hashpart D p s H h
    refine ⟨S, dig, e, ?_, fun t htl ht => ?_⟩
    · have : (C18.tagOf .sunmd5).length = 4 := by decide
      rw [this]; omega
    · have hne : t ≠ [] := by intro c; rw [c] at htl; simp at htl; omega
      obtain ⟨a, b⟩ := ht.head hne
      exact f t a b
  case bigcrypt =>
    have hfix := cryptBig_fix d D hD p s H h
    have h2 : 2 ≤ H.length := by
      obtain ⟨salt, _, e⟩ := cryptBig_shape h
      rcases e with e | e <;> rw [e] <;> simp
    refine ⟨H.take 2, H.drop 2, (List.take_append_drop 2 H).symm, ?_, fun t htl _ => ?_⟩
    · rw [t11]; simp; omega
    · exact cryptBig_hashpart d D p H H hfix t (by simp at htl; omega) h2


open List in
/-- **C01, second clause, at the level of the API**: a successful result splits as `H = S ++ dig` (prefix, options, salt | hash
    portion) and hashing the same phrase with `S` followed by ANY text of the same length over `./0-9A-Za-z` — a superset of every
    method's hash alphabet — returns `H` again: through the length check, the character filter, the dispatch (same table row) and
    the method.  Every configuration whose table is `TableOk`. -/
theorem C01_hashpart_api (cfg : Config) (hT : C18.TableOk cfg.table = true) (D : Digests) (hD : D.WF) (p s H : Bytes)
    (h : cryptPure cfg D p s = .ok H) :
    ∃ S dig, H = S ++ dig ∧ ∀ t, t.length = dig.length → HashText t → cryptPure cfg D p (S ++ t) = .ok H := by
  obtain ⟨hfixH, hrow⟩ := C01_roundtrip_row cfg hT D hD p s H h
  have hsafeH := (C01_result_passes_filter cfg D hD p s H h)
  unfold cryptPure at h
  split at h; · cases h
  rename_i hlen
  split at h; · cases h
  split at h; · cases h
  rename_i r hr
  obtain ⟨S, dig, e, hn, f⟩ := hashpart_method cfg.descryptOn D hD r.crypt p s H h
  have hn2 : 2 ≤ S.length := Nat.le_trans (Nat.le_max_left _ _) hn
  have hnt : (C18.tagOf r.crypt).length ≤ S.length := Nat.le_trans (Nat.le_max_right _ _) hn
  refine ⟨S, dig, e, fun t htl ht => ?_⟩
  have hT' := hT
  simp only [C18.TableOk, Bool.and_eq_true, List.all_eq_true] at hT'
  obtain ⟨⟨hpf, _⟩, htag⟩ := hT'
  have hpf' := hpf
  simp only [C18.prefixFree, Bool.and_eq_true, List.all_eq_true] at hpf'
  obtain ⟨⟨hplen, _⟩, _⟩ := hpf'
  have rmem : r ∈ cfg.table := List.mem_of_find?_eq_some hr
  have rtag : r.pfx = C18.tagOf r.crypt := by simpa using htag r rmem
  have rlen : r.plen = r.pfx.length := by simpa using hplen r rmem
  have hrH : getHashFn cfg.table H = some r := by rw [hrow, hr]
  have rmatchH : r.matches H = true := by
    unfold getHashFn at hrH; have := List.find?_some hrH; simpa using this
  have hSpre : S <+: H := ⟨dig, e.symm⟩
  have hsafe : passwdSafe (S ++ t) = true := by
    have hH : passwdSafe H = true := by
      have := hsafeH.1; rw [checkBad_eq] at this; simpa using this
    have hS : passwdSafe S = true := by
      have : S = H.take S.length := by rw [e]; simp
      rw [this]; exact passwdSafe_take hH _
    simp only [passwdSafe, List.all_append, Bool.and_eq_true] at hS ⊢
    exact ⟨hS, ht.safe⟩
  have hdisp : getHashFn cfg.table (S ++ t) = some r := by
    apply redispatch cfg.table hT H (S ++ t) r hrH
    by_cases he : r.pfx = []
    · right
      have h2 : 2 ≤ S.length := hn2
      have hm := rmatchH
      unfold HashEntry.matches at hm
      rw [rlen, he] at hm
      simp only [List.length_nil, Nat.lt_irrefl, if_false, Bool.or_eq_true, Bool.and_eq_true] at hm
      have hHne : H ≠ [] := hsafeH.2.1
      have hd : isDesSaltChar (cat H 0) = true ∧ isDesSaltChar (cat H 1) = true := by
        rcases hm with hm | hm
        · simp at hm; exact absurd hm hHne
        · exact hm
      have c0 : cat (S ++ t) 0 = cat H 0 := by
        rw [e]; simp only [cat, List.getD_eq_getElem?_getD]
        rw [List.getElem?_append_left (by omega), List.getElem?_append_left (by omega)]
      have c1 : cat (S ++ t) 1 = cat H 1 := by
        rw [e]; simp only [cat, List.getD_eq_getElem?_getD]
        rw [List.getElem?_append_left (by omega), List.getElem?_append_left (by omega)]
      refine ⟨he, by rw [c0]; exact hd.1, by rw [c1]; exact hd.2, ?_⟩
      intro c; have := congrArg List.length c; rw [List.length_append, List.length_nil] at this; omega
    · left
      refine ⟨he, ?_⟩
      have hpH : r.pfx <+: H := C18.matches_prefix r H rlen (by rw [rlen]; exact List.length_pos_iff.mpr he) rmatchH
      have hpS : r.pfx <+: S := List.prefix_of_prefix_length_le hpH hSpre (by rw [rtag]; exact hnt)
      exact hpS.trans (List.prefix_append _ _)
  unfold cryptPure
  rw [if_neg hlen, checkBad_eq, hsafe]
  simp only [Bool.not_true, Bool.false_eq_true, if_false, hdisp]
  exact f t htl ht

end Xc.C01

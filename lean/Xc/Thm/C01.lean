/-
  C01 — authentication round trip.  (Theorems are added method by method; see DESIGN.md.)
-/
import Xc.Lemmas.Api
namespace Xc.C01
open Xc

/-- a successful result always passes the character filter of `do_crypt`, is non-empty and
    shorter than CRYPT_OUTPUT_SIZE: it is never rejected *generically* when used as a setting -/
theorem C01_result_passes_filter (cfg : Config) (D : Digests) (hD : D.WF) (p s H : Bytes)
    (h : cryptPure cfg D p s = .ok H) : checkBadSaltChars H = false ∧ H ≠ [] ∧ H.length < Gen.CRYPT_OUTPUT_SIZE := by
  have hg : goodHash H := cryptAnswer_ok_good (cfg := cfg) (D := D) (phrase := some p) (setting := some s) hD h
  obtain ⟨h1, h2, h3⟩ := hg
  refine ⟨?_, ?_, ?_⟩
  · rw [checkBad_eq, h1]; rfl
  · intro he; rw [he] at h2; simp at h2
  · exact h3

end Xc.C01

/-
  C19: what must hold in one configuration (`cfgOk`), and the 1024-configuration chunks that are
  discharged by kernel evaluation in parallel (Xc/Thm/C19c/ChunkNN.lean).
-/
import Xc.Config
import Xc.Thm.C18
namespace Xc.C19
open Xc

/-- what must hold in one configuration -/
def cfgOk (n : Nat) : Bool :=
  let en := subsetOf n
  let tbl := mkTable Gen.hashesConf en
  -- first match = unique match, empty prefixes last
  C18.prefixFree tbl &&
  -- what the authentication round trip needs (C01_roundtrip): tags begin outside the DES salt alphabet, rows carry their method's tag
  C18.TableOk tbl &&
  -- every enabled method is in the table under its own prefix and entry points, every disabled one is absent
  Gen.hashesConf.all (fun e =>
    if en e.name then tbl.any (fun h => h.crypt == e.name && h.gensalt == e.name && h.pfx == e.pfx && h.nrbytes == e.nrbytes && h.strong == e.strong)
    else tbl.all (fun h => h.crypt != e.name && h.gensalt != e.name && (e.pfx.isEmpty || h.pfx != e.pfx))) &&
  tbl.length == (Gen.hashesConf.filter fun e => en e.name).length &&
  -- the default is the first enabled default-capable method in file order, is strong, and is dispatched to itself
  (match mkDefault Gen.hashesConf en with
   | none => Gen.hashesConf.all (fun e => !(e.dflt && en e.name))
   | some p => (match getHashFn tbl p with
                | some h => h.strong && h.pfx == p && Gen.hashesConf.any (fun e => e.dflt && e.name == h.crypt)
                | none => false) &&
               checksalt tbl (some p) == .ok)

def chunkOk (k : Nat) : Bool := ((List.range 1024).map (· + 1024 * k)).all cfgOk

end Xc.C19

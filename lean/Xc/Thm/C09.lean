/-
  C09 — working memory and passphrase copies are erased before returning.
  The object clause as a theorem over the API state machine: from ANY prior state, after a request that gets
  past argument validation the scratch areas are all zero (success or not); otherwise they are untouched.
-/
import Xc.Lemmas.Api
namespace Xc.C09
open Xc

theorem tok_scratch (d : DataObj) (t : Option Bytes) :
    (match t with | some t => ({ d with out := some t } : DataObj) | none => d).scratchZero = d.scratchZero := by
  cases t <;> rfl

/-- crypt_rn with a full-size object -/
theorem C09_object_rn (cfg : Config) (D : Digests) (ph st : Option Bytes) (d : DataObj) (size : Int)
    (hsz : (Gen.sizeof_crypt_data : Int) ≤ size) :
    (validated cfg ph st = true → (cryptRn cfg D ph st d size).1.scratchZero = true ∧ (cryptRn cfg D ph st d size).2.wz = true) ∧
    (validated cfg ph st = false → (cryptRn cfg D ph st d size).1.scratchZero = d.scratchZero ∧ (cryptRn cfg D ph st d size).2.wu = true) := by
  have h1 : ¬ (size < 0 ∨ size < (Gen.sizeof_crypt_data : Int)) := by omega
  simp only [cryptRn, h1, if_false, doCrypt_eq, mkObs]
  constructor
  · intro hv
    cases ha : cryptAnswer cfg D ph st with
    | ok H => simp [hv]
    | error e => split <;> simp [hv]
  · intro hv
    cases ha : cryptAnswer cfg D ph st with
    | ok H => exact absurd (cryptAnswer_ok_validated ha) (by simp [hv])
    | error e =>
      simp [hv]
      cases failureToken st (min size Gen.CRYPT_OUTPUT_SIZE) <;> rfl

/-- crypt_r (and therefore crypt and crypt_ra, which run it on their own object) -/
theorem C09_object_r (cfg : Config) (D : Digests) (tokens : Bool) (ph st : Option Bytes) (d : DataObj) :
    (validated cfg ph st = true → (cryptR cfg D tokens ph st d).1.scratchZero = true) ∧
    (validated cfg ph st = false → (cryptR cfg D tokens ph st d).1.scratchZero = d.scratchZero) := by
  simp only [cryptR, doCrypt_eq]
  constructor
  · intro hv
    cases ha : cryptAnswer cfg D ph st with
    | ok H => split <;> (cases tokens <;> simp [hv])
    | error e => split <;> (cases tokens <;> simp [hv])
  · intro hv
    cases ha : cryptAnswer cfg D ph st with
    | ok H => exact absurd (cryptAnswer_ok_validated ha) (by simp [hv])
    | error e => cases tokens <;> simp [hv] <;> (cases failureToken st Gen.CRYPT_OUTPUT_SIZE <;> rfl)

/-- a too-small size never touches the scratch areas -/
theorem C09_object_rn_small (cfg : Config) (D : Digests) (ph st : Option Bytes) (d : DataObj) (size : Int)
    (hsz : size < (Gen.sizeof_crypt_data : Int)) : (cryptRn cfg D ph st d size).1.scratchZero = d.scratchZero := by
  have h1 : (size < 0 ∨ size < (Gen.sizeof_crypt_data : Int)) := Or.inr hsz
  simp only [cryptRn, h1, if_true]
  cases failureToken st (min size Gen.CRYPT_OUTPUT_SIZE) <;> rfl

/-- validation is exactly: both strings present, phrase shorter than 512, no forbidden character, method recognised -/
theorem C09_validated_iff (cfg : Config) (p s : Bytes) :
    validated cfg (some p) (some s) = true ↔
      p.length < Gen.CRYPT_MAX_PASSPHRASE_SIZE ∧ checkBadSaltChars s = false ∧ (getHashFn cfg.table s).isSome = true := by
  simp [validated, and_assoc]

end Xc.C09

/-
  C08 — re-entrant interfaces are thread-safe.

  Two parts.  (i) `Conc.interleaving_irrelevant`: if every step of a thread reads only immutable shared
  state and writes only that thread's own component, every schedule gives every thread the result of
  running alone.  (ii) The functions reachable from the re-entrant entry points HAVE that shape: none of
  them may write an object with static storage duration — decided over the call graph and write
  footprint regenerated from the clang AST of the tree (Gen.Statics).
-/
import Xc.Conc
import Xc.Gen.Statics
namespace Xc.C08
open Xc

/-- functions reachable from `roots` in the generated call graph (`fuel` rounds of closure) -/
def reach (funcs : List (List Nat × Nat)) : Nat → List Nat → List Nat
  | 0, acc => acc
  | fuel + 1, acc =>
    let next := acc.foldl (fun a f => (funcs.getD f ([], 0)).1.foldl (fun a c => if a.contains c then a else c :: a) a) acc
    if next.length = acc.length then acc else reach funcs fuel next

def writesStatic (funcs : List (List Nat × Nat)) (f : Nat) : Bool := (funcs.getD f ([], 0)).2 != 0

set_option maxRecDepth 1000000 in
/-- no function reachable from crypt_r, crypt_rn, crypt_ra, crypt_gensalt_rn, crypt_gensalt_ra, crypt_checksalt,
    crypt_preferred_method (indirect calls through the method table resolved to every method) may write a static object -/
theorem C08_footprint :
    (reach Gen.st_funcs Gen.st_funcs.length Gen.st_reentrant).all (fun f => !writesStatic Gen.st_funcs f) = true := by
  decide +kernel

set_option maxRecDepth 1000000 in
/-- the closure really is closed (the fuel sufficed): every callee of a reached function is reached -/
theorem C08_closure_closed :
    let r := reach Gen.st_funcs Gen.st_funcs.length Gen.st_reentrant
    r.all (fun f => (Gen.st_funcs.getD f ([], 0)).1.all (fun c => r.contains c)) = true := by
  decide +kernel

set_option maxRecDepth 1000000 in
/-- non-vacuity / sensitivity: the non-re-entrant entry points DO reach a writer of static storage -/
theorem C08_static_variants_write :
    Gen.st_nonreentrant.all (fun f => (reach Gen.st_funcs Gen.st_funcs.length [f]).any (writesStatic Gen.st_funcs)) = true := by
  decide +kernel

/-- libc / run-time functions the re-entrant entry points may call: every one of them is MT-Safe per POSIX and the glibc manual
    (`strtoul`, `snprintf`: "MT-Safe locale"; `__errno_location`: thread-local; the allocator and the mapping calls are thread-safe;
    `__assert_fail` ends the process).  A function that keeps state in a static libc buffer (`l64a`, `strtok`, `getpass`, `rand`,
    `strerror`, ...) is not on this list. -/
def mtSafe : List String :=
  ["__assert_fail", "__errno_location", "abort", "arc4random_buf", "getentropy", "getrandom", "open", "read", "close",
   "explicit_bzero", "free", "malloc", "calloc", "realloc", "posix_memalign", "aligned_alloc", "mmap", "munmap", "madvise",
   "memcmp", "memcpy", "memmove", "memset", "memchr", "strlen", "strnlen", "strcmp", "strncmp", "strchr", "strrchr", "strspn", "strcspn",
   "strcpy", "strncpy", "strtoul", "snprintf"]

set_option maxRecDepth 1000000 in
/-- every external function reachable from the re-entrant entry points is on the MT-safe list: no hidden shared state in libc -/
theorem C08_imports :
    (reach Gen.st_funcs Gen.st_funcs.length Gen.st_reentrant).all
      (fun f => (Gen.st_ext.getD f []).all (fun e => mtSafe.contains e)) = true := by
  decide +kernel

/-- the interleaving theorem, restated for API calls: thread `t` performs its calls `calls t` in order; each call
    maps the thread's own objects to new ones using only the (immutable) library data; then for every schedule
    thread `t` ends with exactly what it computes alone -/
theorem C08_interleaving {Lib Obj Tid : Type} [DecidableEq Tid] (lib : Lib) (call : Tid → Lib → Obj → Obj)
    (sched : List Tid) (init : Tid → Obj) (t : Tid) :
    Conc.runSched lib call init sched t = Conc.solo lib call t (sched.count t) (init t) :=
  Conc.interleaving_irrelevant lib call sched init t

end Xc.C08

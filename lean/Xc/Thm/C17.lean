/-
  C17 — DES core and the obsolete setkey/encrypt API implement standard DES.
-/
import Xc.Spec.DesTables
import Xc.Gen.DesTables
import Xc.Lemmas.Feistel
namespace Xc.C17
open Xc Xc.Spec.DesT

set_option maxRecDepth 100000

/-- every lookup table compiled into the library (alg-des-tables.c, as extracted from the tree) is the table
    obtained from the FIPS 46-3 permutations by the documented construction -/
theorem des_tables_ip :
    (List.range 8).map (tab32 (ipMask true) · 256) = Gen.des_ip_maskl ∧
    (List.range 8).map (tab32 (ipMask false) · 256) = Gen.des_ip_maskr := by
  constructor <;> decide +kernel

theorem des_tables_fp :
    (List.range 8).map (tab32 (fpMask true) · 256) = Gen.des_fp_maskl ∧
    (List.range 8).map (tab32 (fpMask false) · 256) = Gen.des_fp_maskr := by
  constructor <;> decide +kernel

theorem des_tables_key :
    (List.range 8).map (tab32 (keyPermMask true) · 128) = Gen.des_key_perm_maskl ∧
    (List.range 8).map (tab32 (keyPermMask false) · 128) = Gen.des_key_perm_maskr ∧
    (List.range 8).map (tab32 (compMask true) · 128) = Gen.des_comp_maskl ∧
    (List.range 8).map (tab32 (compMask false) · 128) = Gen.des_comp_maskr := by
  refine ⟨?_, ?_, ?_, ?_⟩ <;> decide +kernel

theorem des_tables_psbox : (List.range 4).map (tab32 psboxEntry · 256) = Gen.des_psbox := by
  decide +kernel

theorem des_tables_sbox :
    (List.range 4).map (fun b => (List.range 16).map fun r => tab8 mSboxEntry b (256 * r) 256) = Gen.des_m_sbox := by
  decide +kernel

theorem des_key_shifts : Gen.des_key_shifts = [1, 1, 2, 2, 2, 2, 2, 2, 1, 2, 2, 2, 2, 2, 2, 1] := by decide

/-- **decryption inverts encryption** (and vice versa) at the level of `des_crypt_block`'s rounds: for every key schedule, every
    salt, every pair of block halves and every iteration count, running the sixteen rounds with the round keys in reverse order
    undoes running them in order — the Feistel argument, which holds whatever the round function computes.  The initial and
    final permutations and the byte packing around these rounds are covered by the table theorems above and the bit-level oracle. -/
theorem C17_rounds_invert (c : Des.Ctx) (n : Nat) (p : UInt32 × UInt32) :
    Des.iter (Des.pass c.saltbits (Des.keyList c true)) n (Des.iter (Des.pass c.saltbits (Des.keyList c false)) n p) = p ∧
    Des.pass c.saltbits (Des.keyList c false) (Des.pass c.saltbits (Des.keyList c true) p) = p :=
  ⟨Des.passes_inverse c n p, (Des.pass_inverse c p).2⟩

end Xc.C17

/-
  C17 — DES core and the obsolete setkey/encrypt API implement standard DES.
-/
import Xc.Spec.DesTables
import Xc.Gen.DesTables
import Xc.Lemmas.Feistel
import Xc.Lemmas.DesInv
namespace Xc.C17
open Xc Xc.Spec.DesT

set_option maxRecDepth 100000

/-- every lookup table compiled into the library (alg-des-tables.c, as extracted from the tree) is the table
    obtained from the FIPS 46-3 permutations by the documented construction -/
theorem des_tables_ip :
    (List.range 8).map (tab32 (ipMask true) · 256) = Gen.des_ip_maskl ∧
    (List.range 8).map (tab32 (ipMask false) · 256) = Gen.des_ip_maskr := by
  constructor <;> decide +kernel

theorem des_tables_fp :
    (List.range 8).map (tab32 (fpMask true) · 256) = Gen.des_fp_maskl ∧
    (List.range 8).map (tab32 (fpMask false) · 256) = Gen.des_fp_maskr := by
  constructor <;> decide +kernel

theorem des_tables_key :
    (List.range 8).map (tab32 (keyPermMask true) · 128) = Gen.des_key_perm_maskl ∧
    (List.range 8).map (tab32 (keyPermMask false) · 128) = Gen.des_key_perm_maskr ∧
    (List.range 8).map (tab32 (compMask true) · 128) = Gen.des_comp_maskl ∧
    (List.range 8).map (tab32 (compMask false) · 128) = Gen.des_comp_maskr := by
  refine ⟨?_, ?_, ?_, ?_⟩ <;> decide +kernel

theorem des_tables_psbox : (List.range 4).map (tab32 psboxEntry · 256) = Gen.des_psbox := by
  decide +kernel

theorem des_tables_sbox :
    (List.range 4).map (fun b => (List.range 16).map fun r => tab8 mSboxEntry b (256 * r) 256) = Gen.des_m_sbox := by
  decide +kernel

theorem des_key_shifts : Gen.des_key_shifts = [1, 1, 2, 2, 2, 2, 2, 2, 1, 2, 2, 2, 2, 2, 2, 1] := by decide

/-- **decryption inverts encryption** (and vice versa) at the level of `des_crypt_block`'s rounds: for every key schedule, every
    salt, every pair of block halves and every iteration count, running the sixteen rounds with the round keys in reverse order
    undoes running them in order — the Feistel argument, which holds whatever the round function computes.  The initial and
    final permutations and the byte packing around these rounds are covered by the table theorems above and the bit-level oracle. -/
theorem C17_rounds_invert (c : Des.Ctx) (n : Nat) (p : UInt32 × UInt32) :
    Des.iter (Des.pass c.saltbits (Des.keyList c true)) n (Des.iter (Des.pass c.saltbits (Des.keyList c false)) n p) = p ∧
    Des.pass c.saltbits (Des.keyList c false) (Des.pass c.saltbits (Des.keyList c true) p) = p :=
  ⟨Des.passes_inverse c n p, (Des.pass_inverse c p).2⟩

/-- **decryption inverts encryption** (and encryption inverts decryption): for every key schedule, every salt, every iteration
    count and every 8-byte block, `des_crypt_block` with `decrypt` set undoes `des_crypt_block` without it.  Ingredients:
    the Feistel argument for the rounds (`C17_rounds_invert`), `FP ∘ IP = id` and `IP ∘ FP = id` on all 2^64 blocks (the tables
    are OR-linear, a block is the OR of its bytes, and the second permutation puts the image of every single byte back:
    `Lemmas/DesPerm.lean`), and the big-endian packing round trip. -/
theorem C17_decrypt_inverts_encrypt (c : Des.Ctx) (x : Bytes) (hx : x.length = 8) (count : Nat) :
    Des.cryptBlock c (Des.cryptBlock c x count false) count true = x ∧
    Des.cryptBlock c (Des.cryptBlock c x count true) count false = x :=
  Des.cryptBlock_inverse c x hx count

/-- the initial and the final permutation are inverse bijections of the 64-bit blocks -/
theorem C17_ip_fp (p : UInt32 × UInt32) :
    Des.permLL Gen.des_fp_maskl Gen.des_fp_maskr (Des.permLL Gen.des_ip_maskl Gen.des_ip_maskr p) = p ∧
    Des.permLL Gen.des_ip_maskl Gen.des_ip_maskr (Des.permLL Gen.des_fp_maskl Gen.des_fp_maskr p) = p :=
  ⟨Des.fp_ip p, Des.ip_fp p⟩

/-- **key parity bits are ignored**: two keys that agree on the upper seven bits of every byte give the same key schedule -/
theorem C17_key_parity (key key' : Bytes) (h : ∀ i, i < 8 → (key.getD i 0) >>> 1 = (key'.getD i 0) >>> 1) :
    Des.setKey key = Des.setKey key' :=
  Des.setKey_parity key key' h

end Xc.C17

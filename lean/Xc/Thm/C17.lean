/-
  C17 — DES core and the obsolete setkey/encrypt API implement standard DES.
-/
import Xc.Spec.DesTables
import Xc.Gen.DesTables
import Xc.Lemmas.Feistel
import Xc.Lemmas.DesInv
import Xc.Lemmas.DesRound
import Xc.Lemmas.DesKs
namespace Xc.C17
open Xc Xc.Spec.DesT

set_option maxRecDepth 100000

/-- every lookup table compiled into the library (alg-des-tables.c, as extracted from the tree) is the table
    obtained from the FIPS 46-3 permutations by the documented construction -/
theorem des_tables_ip :
    (List.range 8).map (tab32 (ipMask true) · 256) = Gen.des_ip_maskl ∧
    (List.range 8).map (tab32 (ipMask false) · 256) = Gen.des_ip_maskr := by
  constructor <;> decide +kernel

theorem des_tables_fp :
    (List.range 8).map (tab32 (fpMask true) · 256) = Gen.des_fp_maskl ∧
    (List.range 8).map (tab32 (fpMask false) · 256) = Gen.des_fp_maskr := by
  constructor <;> decide +kernel

theorem des_tables_key :
    (List.range 8).map (tab32 (keyPermMask true) · 128) = Gen.des_key_perm_maskl ∧
    (List.range 8).map (tab32 (keyPermMask false) · 128) = Gen.des_key_perm_maskr ∧
    (List.range 8).map (tab32 (compMask true) · 128) = Gen.des_comp_maskl ∧
    (List.range 8).map (tab32 (compMask false) · 128) = Gen.des_comp_maskr := by
  refine ⟨?_, ?_, ?_, ?_⟩ <;> decide +kernel

theorem des_tables_psbox : (List.range 4).map (tab32 psboxEntry · 256) = Gen.des_psbox := by
  decide +kernel

theorem des_tables_sbox :
    (List.range 4).map (fun b => (List.range 16).map fun r => tab8 mSboxEntry b (256 * r) 256) = Gen.des_m_sbox := by
  decide +kernel

theorem des_key_shifts : Gen.des_key_shifts = [1, 1, 2, 2, 2, 2, 2, 2, 1, 2, 2, 2, 2, 2, 2, 1] := by decide

/-- **decryption inverts encryption** (and vice versa) at the level of `des_crypt_block`'s rounds: for every key schedule, every
    salt, every pair of block halves and every iteration count, running the sixteen rounds with the round keys in reverse order
    undoes running them in order — the Feistel argument, which holds whatever the round function computes.  The initial and
    final permutations and the byte packing around these rounds are covered by the table theorems above and the bit-level oracle. -/
theorem C17_rounds_invert (c : Des.Ctx) (n : Nat) (p : UInt32 × UInt32) :
    Des.iter (Des.pass c.saltbits (Des.keyList c true)) n (Des.iter (Des.pass c.saltbits (Des.keyList c false)) n p) = p ∧
    Des.pass c.saltbits (Des.keyList c false) (Des.pass c.saltbits (Des.keyList c true) p) = p :=
  ⟨Des.passes_inverse c n p, (Des.pass_inverse c p).2⟩

/-- **decryption inverts encryption** (and encryption inverts decryption): for every key schedule, every salt, every iteration
    count and every 8-byte block, `des_crypt_block` with `decrypt` set undoes `des_crypt_block` without it.  Ingredients:
    the Feistel argument for the rounds (`C17_rounds_invert`), `FP ∘ IP = id` and `IP ∘ FP = id` on all 2^64 blocks (the tables
    are OR-linear, a block is the OR of its bytes, and the second permutation puts the image of every single byte back:
    `Lemmas/DesPerm.lean`), and the big-endian packing round trip. -/
theorem C17_decrypt_inverts_encrypt (c : Des.Ctx) (x : Bytes) (hx : x.length = 8) (count : Nat) :
    Des.cryptBlock c (Des.cryptBlock c x count false) count true = x ∧
    Des.cryptBlock c (Des.cryptBlock c x count true) count false = x :=
  Des.cryptBlock_inverse c x hx count

/-- the initial and the final permutation are inverse bijections of the 64-bit blocks -/
theorem C17_ip_fp (p : UInt32 × UInt32) :
    Des.permLL Gen.des_fp_maskl Gen.des_fp_maskr (Des.permLL Gen.des_ip_maskl Gen.des_ip_maskr p) = p ∧
    Des.permLL Gen.des_ip_maskl Gen.des_ip_maskr (Des.permLL Gen.des_fp_maskl Gen.des_fp_maskr p) = p :=
  ⟨Des.fp_ip p, Des.ip_fp p⟩

/-- **key parity bits are ignored**: two keys that agree on the upper seven bits of every byte give the same key schedule -/
theorem C17_key_parity (key key' : Bytes) (h : ∀ i, i < 8 → (key.getD i 0) >>> 1 = (key'.getD i 0) >>> 1) :
    Des.setKey key = Des.setKey key' :=
  Des.setKey_parity key key' h


/-- **the round function is FIPS 46-3's**: the table-driven round of `des_crypt_block` - E by masks and shifts, crypt(3)'s salt
    exchange, `psbox[b][m_sbox[b][…]]` for b = 0…3 - computes `L' = R`, `R' = L ⊕ P(S(E(R) ⊕ K))` as defined bit by bit from the FIPS
    tables E, S1…S8, P (`Spec.DesT.fipsF`; salt 0 is plain DES), for all 2^32 · 2^32 halves, every salt and every 48-bit round key -/
theorem C17_round_is_fips (salt l r kl kr : UInt32) (hkl : kl.toNat < 2 ^ 24) (hkr : kr.toNat < 2 ^ 24) :
    Des.round salt l r kl kr = (r, l ^^^ fipsF salt r kl kr) :=
  Des.round_fips salt l r kl kr hkl hkr

/-- `des_set_key` only produces round keys of two 24-bit halves, so the hypothesis of `C17_round_is_fips` holds in every call -/
theorem C17_round_keys_24bit (key : Bytes) (salt : Nat) (decrypt : Bool) :
    ∀ k ∈ Des.keyList (Des.mkCtx key salt) decrypt, k.1.toNat < 2 ^ 24 ∧ k.2.toNat < 2 ^ 24 :=
  Des.keyList_24 key salt decrypt

/-- a whole pass of `des_crypt_block` (sixteen table-driven rounds and the final exchange) is sixteen FIPS rounds, for every key,
    salt, direction and block -/
theorem C17_pass_is_fips (key : Bytes) (salt : Nat) (decrypt : Bool) (p : UInt32 × UInt32) :
    Des.pass (Des.saltBits salt) (Des.keyList (Des.mkCtx key salt) decrypt) p =
      Des.passFips (Des.saltBits salt) (Des.keyList (Des.mkCtx key salt) decrypt) p :=
  Des.pass_fips _ _ (Des.keyList_24 key salt decrypt) p

/-- the table-driven initial and final permutations are IP and IP⁻¹ of FIPS 46-3 on all 2^64 blocks -/
theorem C17_ip_is_fips (p : UInt32 × UInt32) : Des.permLL Gen.des_ip_maskl Gen.des_ip_maskr p = perm64 IP p := Des.ip_fips p
theorem C17_fp_is_fips (p : UInt32 × UInt32) : Des.permLL Gen.des_fp_maskl Gen.des_fp_maskr p = perm64 IPinv p := Des.fp_fips p

/-- **`des_crypt_block` is DES as FIPS 46-3 defines it**, given the round keys: IP, `count` times (sixteen FIPS rounds and the exchange
    of the halves), IP⁻¹, on the big-endian halves of the block - for every key, salt, count, direction and 8-byte input -/
theorem C17_block_is_fips (key : Bytes) (salt : Nat) (x : Bytes) (count : Nat) (decrypt : Bool) :
    Des.cryptBlock (Des.mkCtx key salt) x count decrypt =
      toBe32 (Des.blockFips (Des.saltBits salt) (Des.keyList (Des.mkCtx key salt) decrypt) (if count = 0 then 1 else count) (be32 x 0, be32 x 4)).1 ++
      toBe32 (Des.blockFips (Des.saltBits salt) (Des.keyList (Des.mkCtx key salt) decrypt) (if count = 0 then 1 else count) (be32 x 0, be32 x 4)).2 :=
  Des.cryptBlock_fips key salt x count decrypt

/-- **permuted choice 1 and 2 of the key schedule are FIPS 46-3's**: the table passes of `des_set_key` over the upper seven bits of the
    key bytes select C0, D0 by PC-1, and the table passes over the rotated halves select the round key by PC-2, for every input -/
theorem C17_pc1_is_fips (raw0 raw1 : UInt32) :
    (Des.or8 Des.keyPermL (Des.sevenOfKey raw0 raw1), Des.or8 Des.keyPermR (Des.sevenOfKey raw0 raw1)) = selN 32 PC1 28 (raw0, raw1) :=
  Des.pc1_fips raw0 raw1
theorem C17_pc2_is_fips (t0 t1 : UInt32) :
    (Des.or8 Des.compL (Des.sevenOfT t0 t1), Des.or8 Des.compR (Des.sevenOfT t0 t1)) = selN 28 PC2 24 (t0 &&& 0x0fffffff, t1 &&& 0x0fffffff) :=
  Des.pc2_fips t0 t1

/-- the FIPS cipher function is not trivially constant: a concrete value (R = 0, K = 0: every S-box sees the group 000000) -/
example : fipsF 0 0 0 0 = 0xd8d8dbbc := by decide +kernel


/-- **the key schedule is FIPS 46-3's KS**: for every key and every round r < 16 the round key stored by `des_set_key` is PC-2 of the
    halves C0, D0 = PC-1(key) rotated left by the cumulative published shift -/
theorem C17_key_schedule_is_fips (key : Bytes) (r : Nat) (hr : r < 16) :
    ((Des.setKey key).1[r]!, (Des.setKey key).2[r]!) = ksFips (be32 key 0, be32 key 4) r :=
  Des.setKey_fips key r hr

/-- **`des_set_key; des_set_salt; des_crypt_block` is DES as FIPS 46-3 defines it** (extended by crypt(3)'s salt and iteration count):
    KS, IP, `count` × (sixteen rounds `L' = R, R' = L ⊕ P(S(E(R) ⊕ K))` and the exchange of the halves), IP⁻¹ - everything on the right-hand
    side is written from the FIPS tables (Spec/DesTables.lean), for every 8-byte key, salt, count, direction and 8-byte block -/
theorem C17_des_is_fips (key : Bytes) (salt : Nat) (x : Bytes) (count : Nat) (decrypt : Bool) :
    Des.cryptBlock (Des.mkCtx key salt) x count decrypt =
      toBe32 (Des.blockFips (Des.saltBits salt) (Des.keysFips (be32 key 0, be32 key 4) decrypt) (if count = 0 then 1 else count) (be32 x 0, be32 x 4)).1 ++
      toBe32 (Des.blockFips (Des.saltBits salt) (Des.keysFips (be32 key 0, be32 key 4) decrypt) (if count = 0 then 1 else count) (be32 x 0, be32 x 4)).2 :=
  Des.des_fips key salt x count decrypt

/-- the obsolete API's core - `setkey` then `encrypt` on the packed key and block: salt 0, one pass - is plain FIPS 46-3 DES, in both directions -/
theorem C17_setkey_encrypt_is_fips (key x : Bytes) (decrypt : Bool) :
    Des.cryptBlock (Des.mkCtx key 0) x 1 decrypt =
      toBe32 (Des.blockFips 0 (Des.keysFips (be32 key 0, be32 key 4) decrypt) 1 (be32 x 0, be32 x 4)).1 ++
      toBe32 (Des.blockFips 0 (Des.keysFips (be32 key 0, be32 key 4) decrypt) 1 (be32 x 0, be32 x 4)).2 :=
  Des.setkey_encrypt_fips key x decrypt

/-- the core of traditional crypt(3) (`des_gen_hash`, used by descrypt, bigcrypt and bsdicrypt): `count` DES encryptions of the zero block
    under the salt's exchange of E-bits -/
theorem C17_des_hash_is_fips (key : Bytes) (salt count : Nat) :
    Des.desHash key salt count =
      toBe32 (Des.blockFips (Des.saltBits salt) (Des.keysFips (be32 key 0, be32 key 4) false) (if count = 0 then 1 else count) (0, 0)).1 ++
      toBe32 (Des.blockFips (Des.saltBits salt) (Des.keysFips (be32 key 0, be32 key 4) false) (if count = 0 then 1 else count) (0, 0)).2 :=
  Des.desHash_fips key salt count

/-- the classic test vector through the FIPS-side definition alone: key 133457799BBCDFF1, block 0123456789ABCDEF -> 85E813540F0AB405 -/
example : (let p := Des.blockFips 0 (Des.keysFips (0x13345779, 0x9bbcdff1) false) 1 (0x01234567, 0x89abcdef); (p.1, p.2)) = (0x85e81354, 0x0f0ab405) := by
  decide +kernel

end Xc.C17

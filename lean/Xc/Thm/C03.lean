/-
  C03 — a different passphrase or salt never reproduces the hash (no false accept).
  Read literally the property is false for any fixed-size digest (pigeonhole), so the theorems carry the
  structural part a proof can carry and a truncation bug would break:
   * the exact *insignificant* windows (descrypt: bytes beyond 8 and the 8th bit; bigcrypt: bytes beyond 128);
   * the text encodings of digests are injective, hence any false accept IS a collision of the method's
     core function on its exact inputs (reduction), never an artefact of parsing or encoding.
-/
import Xc.Thm.C12
import Xc.Lemmas.Shape
import Xc.Lemmas.U8
import Xc.Lemmas.Inj
import Xc.Thm.C01
import Xc.Lemmas.Big
import Xc.Lemmas.BfWindow
namespace Xc.C03
open Xc List
set_option maxRecDepth 1000000

/-- descrypt uses the phrase only through `desKey`: its first 8 bytes shifted left by one (the 8th bit falls out) -/
theorem C03_des_window (D : Digests) (p p' s : Bytes) (h : desKey p = desKey p') : cryptDes D p s = cryptDes D p' s := by
  simp [cryptDes, h]

theorem desKey_window (p p' : Bytes) (h : ∀ i, i < 8 → (p.getD i 0) <<< (1 : UInt8) = (p'.getD i 0) <<< (1 : UInt8)) : desKey p = desKey p' := by
  simp only [desKey, padTo, List.map_map]
  apply List.map_congr_left
  intro i hi
  simp only [List.mem_range] at hi
  simpa using h i hi

/-- bytes beyond the eighth are insignificant for descrypt -/
theorem C03_des_beyond8 (D : Digests) (p s tail tail' : Bytes) (h8 : p.length = 8) :
    cryptDes D (p ++ tail) s = cryptDes D (p ++ tail') s := by
  apply C03_des_window
  apply desKey_window
  intro i hi
  have hi' : i < p.length := by omega
  simp [List.getD, List.getElem?_append_left hi']

/-- the 8th bit of every byte is insignificant for descrypt -/
theorem C03_des_8thbit (D : Digests) (p s : Bytes) :
    cryptDes D p s = cryptDes D (p.map (· &&& 0x7f)) s := by
  apply C03_des_window
  apply desKey_window
  intro i _
  have key : ∀ c : UInt8, c <<< (1 : UInt8) = (c &&& 0x7f) <<< (1 : UInt8) :=
    forall_uint8 _ (by decide +kernel)
  rcases Nat.lt_or_ge i p.length with hl | hl
  · simp only [List.getD, List.getElem?_map, List.getElem?_eq_getElem hl, Option.map_some, Option.getD_some]
    exact key _
  · simp [List.getD, List.getElem?_eq_none hl]

/-- hex text is injective -/
theorem hexLower_cons (x : UInt8) (xs : Bytes) : hexLower (x :: xs) = hexDigit (x.toNat / 16) :: hexDigit (x.toNat % 16) :: hexLower xs := rfl
theorem hexLower_nil : hexLower [] = [] := rfl
theorem hexLower_inj : ∀ a b : Bytes, hexLower a = hexLower b → a = b := by
  intro a
  induction a with
  | nil => intro b h; cases b with
    | nil => rfl
    | cons y ys => rw [hexLower_nil, hexLower_cons] at h; cases h
  | cons x xs ih =>
    intro b h
    cases b with
    | nil => rw [hexLower_nil, hexLower_cons] at h; cases h
    | cons y ys =>
      rw [hexLower_cons, hexLower_cons] at h
      injection h with h1 h
      injection h with h2 h3
      have hd : ∀ a b : Fin 16, hexDigit a.val = hexDigit b.val → a = b := by decide +kernel
      have hu := x.toNat_lt; have hv := y.toNat_lt
      have a1 := hd ⟨x.toNat / 16, by omega⟩ ⟨y.toNat / 16, by omega⟩ h1
      have a2 := hd ⟨x.toNat % 16, by omega⟩ ⟨y.toNat % 16, by omega⟩ h2
      have b1 : x.toNat / 16 = y.toNat / 16 := Fin.mk.inj_iff.mp a1
      have b2 : x.toNat % 16 = y.toNat % 16 := Fin.mk.inj_iff.mp a2
      have : x = y := UInt8.toNat_inj.mp (by omega)
      rw [this, ih ys h3]

/-- NT: equal hashes ⇒ equal MD4 digests (a false accept is an MD4 collision on the UCS-2 phrases) -/
theorem C03_nt_reduction (D : Digests) (p p' s s' H : Bytes) (h1 : cryptNt D p s = .ok H) (h2 : cryptNt D p' s' = .ok H) :
    D.nt p = D.nt p' := by
  unfold cryptNt at h1 h2
  split at h1; · cases h1
  split at h2; · cases h2
  cases h1
  simp only [Except.ok.injEq, List.append_cancel_left_eq] at h2
  exact (hexLower_inj _ _ h2).symm


/-! ### reductions: two phrases that give the same hash collide in the method's core function

For each method below: if `crypt_m p s` and `crypt_m p' s'` both succeed with the same string `H`, then both runs used the SAME
salt and cost, and the core function (an arbitrary `D`, only its output length is assumed) returned the same digest for `p` and
`p'`.  So a false accept is exactly a collision of the underlying construction: the string layer (parsers, encoders, field
separators) loses nothing.  The encoders' injectivity is `permEncode_inj` over the schedules regenerated from the tree. -/

theorem C03_md5crypt_reduction (D : Digests) (hD : D.WF) (p p' s s' H : Bytes)
    (h1 : cryptMd5 D p s = .ok H) (h2 : cryptMd5 D p' s' = .ok H) : ∃ salt, D.md5crypt p salt = D.md5crypt p' salt :=
  md5crypt_reduction D hD p p' s s' H h1 h2

theorem C03_sha256crypt_reduction (D : Digests) (hD : D.WF) (p p' s s' H : Bytes)
    (h1 : cryptSha256 D p s = .ok H) (h2 : cryptSha256 D p' s' = .ok H) :
    ∃ salt rounds, D.sha256crypt p salt rounds = D.sha256crypt p' salt rounds := by
  obtain ⟨c1, c2, c3⟩ := sha256_consts
  unfold cryptSha256 at h1 h2
  split at h1; · cases h1
  rename_i P hP
  split at h2; · cases h2
  rename_i P' hP'
  cases h1
  simp only [Except.ok.injEq] at h2
  exact sha_reduction_gen _ _ _ _ _ _ Gen.perm_sha256crypt 32 sha256_sched_ok (by omega) c1 c2 c3 (by decide) D.sha256crypt hD.sha256
    p p' s s' P P' hP hP' h2.symm

theorem C03_sha512crypt_reduction (D : Digests) (hD : D.WF) (p p' s s' H : Bytes)
    (h1 : cryptSha512 D p s = .ok H) (h2 : cryptSha512 D p' s' = .ok H) :
    ∃ salt rounds, D.sha512crypt p salt rounds = D.sha512crypt p' salt rounds := by
  obtain ⟨c1, c2, c3⟩ := sha512_consts
  unfold cryptSha512 at h1 h2
  split at h1; · cases h1
  rename_i P hP
  split at h2; · cases h2
  rename_i P' hP'
  cases h1
  simp only [Except.ok.injEq] at h2
  exact sha_reduction_gen _ _ _ _ _ _ Gen.perm_sha512crypt 64 sha512_sched_ok (by omega) c1 c2 c3 (by decide) D.sha512crypt hD.sha512
    p p' s s' P P' hP hP' h2.symm

theorem C03_sha1crypt_reduction (D : Digests) (hD : D.WF) (p p' s s' H : Bytes)
    (h1 : cryptSha1 D p s = .ok H) (h2 : cryptSha1 D p' s' = .ok H) :
    ∃ salt iterations, D.sha1crypt p salt iterations = D.sha1crypt p' salt iterations := by
  unfold cryptSha1 at h1 h2
  split at h1; · cases h1
  rename_i P hP
  split at h2; · cases h2
  rename_i P' hP'
  cases h1
  simp only [Except.ok.injEq, List.append_assoc, List.append_cancel_left_eq, List.singleton_append] at h2
  obtain ⟨n1, r1⟩ := parseSha1_shape hP
  obtain ⟨n2, r2⟩ := parseSha1_shape hP'
  obtain ⟨e1, e2⟩ := append_stop_inj 36 _ _ _ _ (toDec_no36 _) (toDec_no36 _) h2
  obtain ⟨e3, e4⟩ := append_stop_inj 36 _ _ _ _ n2 n1 e2
  have ei := toDec_inj _ _ (by unfold ULONG_MAX at r2; omega) (by unfold ULONG_MAX at r1; omega) e1
  have := sha1Encode_inj _ _ (hD.sha1 _ _ _) (hD.sha1 _ _ _) e4
  rw [ei, e3] at this
  exact ⟨P.salt, P.iterations, this.symm⟩

/-- sunmd5: the same hashed prefix (tag, rounds field, salt) and the same digest -/
theorem C03_sunmd5_reduction (D : Digests) (hD : D.WF) (p p' s s' H : Bytes)
    (h1 : cryptSunmd5 D p s = .ok H) (h2 : cryptSunmd5 D p' s' = .ok H) :
    ∃ pre n n', D.sunmd5 p pre n = D.sunmd5 p' pre n' := by
  unfold cryptSunmd5 at h1 h2
  split at h1; · cases h1
  rename_i P hP
  split at h2; · cases h2
  rename_i P' hP'
  cases h1
  simp only [Except.ok.injEq, List.append_assoc, List.singleton_append] at h2
  have hl : (36 :: permEncode Gen.perm_sunmd5 (D.sunmd5 p' (s'.take P'.saltlen) P'.nrounds)).length
      = (36 :: permEncode Gen.perm_sunmd5 (D.sunmd5 p (s.take P.saltlen) P.nrounds)).length := by
    simp [permEncode_length]
  obtain ⟨e1, e2⟩ := List.append_inj' h2 hl
  simp only [List.cons.injEq, true_and] at e2
  obtain ⟨o1, o2⟩ := sunmd5_sched_ok
  have := permEncode_inj _ 16 o1 o2 (by omega) _ _ (hD.sunmd5 _ _ _) (hD.sunmd5 _ _ _) e2
  rw [e1] at this
  exact ⟨_, _, _, this.symm⟩


/-! the remaining methods use the round trip (C01): both phrases reproduce `H` from `H` itself, so they share one parse -/
open List in
/-- descrypt: same salt, colliding DES hash of the two keys -/
theorem C03_descrypt_reduction (D : Digests) (hD : D.WF) (p p' s s' H : Bytes)
    (h1 : cryptDes D p s = .ok H) (h2 : cryptDes D p' s' = .ok H) :
    ∃ salt, D.desHash (desKey p) salt 25 = D.desHash (desKey p') salt 25 := by
  have f1 := C01.C01_descrypt_fix D p s H h1
  have f2 := C01.C01_descrypt_fix D p' s' H h2
  unfold cryptDes at f1 f2
  split at f1; · cases f1
  rename_i salt hs
  rw [hs] at f2
  simp only [Except.ok.injEq] at f1 f2
  have f := f1.trans f2.symm
  simp only [List.cons_append, List.nil_append, List.cons.injEq, true_and] at f
  exact ⟨salt, desEncode_inj _ _ (by rw [hD.des, hD.des]) f⟩

/-- bsdicrypt: same count and salt, colliding folded-key DES hash -/
theorem C03_bsdicrypt_reduction (D : Digests) (hD : D.WF) (p p' s s' H : Bytes)
    (h1 : cryptBsdi D p s = .ok H) (h2 : cryptBsdi D p' s' = .ok H) :
    ∃ salt count, D.bsdi p salt count = D.bsdi p' salt count := by
  have f1 := C01.C01_bsdicrypt_fix D p s H h1
  have f2 := C01.C01_bsdicrypt_fix D p' s' H h2
  unfold cryptBsdi at f1 f2
  split at f1; · cases f1
  rename_i hcond
  split at f1; · cases f1
  rename_i count hc
  split at f1; · cases f1
  rename_i salt hsalt
  rw [if_neg hcond, hc, hsalt] at f2
  simp only [Except.ok.injEq] at f1 f2
  have f := f1.trans f2.symm
  simp only [List.append_cancel_left_eq] at f
  exact ⟨salt, count, desEncode_inj _ _ (by rw [hD.bsdi, hD.bsdi]) f⟩

/-- bcrypt: same subtype flags, cost and salt, colliding eksblowfish output -/
theorem C03_bcrypt_reduction (D : Digests) (hD : D.WF) (p p' s s' H : Bytes)
    (h1 : cryptBf D p s = .ok H) (h2 : cryptBf D p' s' = .ok H) :
    ∃ flags cost salt, D.bf flags cost salt p = D.bf flags cost salt p' := by
  have f1 := C01.C01_bcrypt_fix D p s H h1
  have f2 := C01.C01_bcrypt_fix D p' s' H h2
  unfold cryptBf at f1 f2
  split at f1; · cases f1
  rename_i P hP
  rw [hP] at f2
  dsimp only at f2
  split at f1; · cases f1
  rename_i hst
  rw [if_neg hst] at f2
  simp only [Except.ok.injEq] at f1 f2
  have f := f1.trans f2.symm
  simp only [List.append_cancel_left_eq] at f
  exact ⟨P.flags, P.cost, P.salt, bfEncode_inj _ _ (by rw [hD.bf, hD.bf]) f⟩

/-- yescrypt: same parameters and salt, colliding KDF output -/
theorem C03_yescrypt_reduction (D : Digests) (hD : D.WF) (p p' s s' H : Bytes)
    (h1 : cryptYescrypt D p s = .ok H) (h2 : cryptYescrypt D p' s' = .ok H) :
    ∃ params salt h, D.yescrypt params salt p = some h ∧ D.yescrypt params salt p' = some h := by
  have f1 := C01.C01_yescrypt_fix D p s H h1
  have f2 := C01.C01_yescrypt_fix D p' s' H h2
  unfold cryptYescrypt cryptYescryptCore at f1 f2
  split at f1; · cases f1
  rename_i out1 ho1
  split at f2; · cases f2
  rename_i out2 ho2
  simp only [Except.ok.injEq] at f1 f2
  subst f1; subst f2
  unfold yescryptR at ho1 ho2
  split at ho1; · cases ho1
  rename_i Q hQ
  rw [hQ] at ho2
  dsimp only at ho2
  split at ho1; · cases ho1
  rename_i hd1 e1
  split at ho2; · cases ho2
  rename_i hd2 e2
  dsimp only at ho1 ho2
  split at ho1; · cases ho1
  split at ho2; · cases ho2
  simp only [Option.some.injEq] at ho1 ho2
  have ho := ho1.trans ho2.symm
  simp only [List.append_cancel_left_eq] at ho
  have := encode64_inj _ _ (by rw [hD.yes _ _ _ _ e1, hD.yes _ _ _ _ e2]) ho
  subst this
  exact ⟨Q.params, Q.salt, hd1, e1, e2⟩

/-- scrypt: same parameters and salt, colliding KDF output -/
theorem C03_scrypt_reduction (D : Digests) (hD : D.WF) (p p' s s' H : Bytes)
    (h1 : cryptScrypt D p s = .ok H) (h2 : cryptScrypt D p' s' = .ok H) :
    ∃ params salt h, D.yescrypt params salt p = some h ∧ D.yescrypt params salt p' = some h := by
  have f1 := C01.C01_scrypt_fix D p s H h1
  have f2 := C01.C01_scrypt_fix D p' s' H h2
  unfold cryptScrypt at f1 f2
  split at f1; · cases f1
  rename_i hcond
  rw [if_neg hcond] at f2
  unfold cryptYescryptCore at f1 f2
  split at f1; · cases f1
  rename_i out1 ho1
  split at f2; · cases f2
  rename_i out2 ho2
  simp only [Except.ok.injEq] at f1 f2
  subst f1; subst f2
  unfold yescryptR at ho1 ho2
  split at ho1; · cases ho1
  rename_i Q hQ
  rw [hQ] at ho2
  dsimp only at ho2
  split at ho1; · cases ho1
  rename_i hd1 e1
  split at ho2; · cases ho2
  rename_i hd2 e2
  dsimp only at ho1 ho2
  split at ho1; · cases ho1
  split at ho2; · cases ho2
  simp only [Option.some.injEq] at ho1 ho2
  have ho := ho1.trans ho2.symm
  simp only [List.append_cancel_left_eq] at ho
  have := encode64_inj _ _ (by rw [hD.yes _ _ _ _ e1, hD.yes _ _ _ _ e2]) ho
  subst this
  exact ⟨Q.params, Q.salt, hd1, e1, e2⟩


/-- gost-yescrypt: same parameters and salt for the inner KDF, the same keyed part of the setting for the outer construction,
    and the two phrases collide in the composition: a false accept is a collision of
    `phrase ↦ gostOuter phrase pre (yescrypt params salt phrase)` -/
theorem C03_gost_reduction (D : Digests) (hD : D.WF) (p p' s s' H : Bytes)
    (h1 : cryptGost D p s = .ok H) (h2 : cryptGost D p' s' = .ok H) :
    ∃ params salt pre y y', D.yescrypt params salt p = some y ∧ D.yescrypt params salt p' = some y' ∧
      D.gostOuter p pre y = D.gostOuter p' pre y' := by
  have f1 := C01.C01_gost_fix D hD p s H h1
  have f2 := C01.C01_gost_fix D hD p' s' H h2
  have g1 := f1
  have g2 := f2
  unfold cryptGost at g1 g2
  split at g1; · cases g1
  rename_i hlen
  split at g1; · cases g1
  rename_i hpre
  rw [if_neg hlen, if_neg hpre] at g2
  simp only [Bool.not_eq_true, Bool.not_eq_false] at hpre
  dsimp only at g1 g2
  split at g1; · cases g1
  rename_i y1 hy1
  split at g2; · cases g2
  rename_i y2 hy2
  clear g1 g2
  have hc : cat ([36, 121, 36] ++ H.drop 4) 1 ≠ 55 := by simp [cat]
  obtain ⟨Q1, hd1, hQ1, hD1, _, _, hk1, hout1, hshape1, _⟩ := yescryptR_Y_struct hy1 hc
  obtain ⟨Q2, hd2, hQ2, hD2, _, _, hk2, hout2, hshape2, _⟩ := yescryptR_Y_struct hy2 hc
  rw [hQ1] at hQ2
  simp only [Option.some.injEq] at hQ2
  subst hQ2
  have e1 := gost_eval D p H y1 _ _ hd1 hlen hpre hy1 hshape1
  have e2 := gost_eval D p' H y2 _ _ hd2 hlen hpre hy2 hshape2
  rw [f1] at e1; rw [f2] at e2
  split at e1
  case isFalse => cases e1
  split at e2
  case isFalse => cases e2
  simp only [Except.ok.injEq] at e1 e2
  have ht : y1.take (Q1.prefixlen + Q1.saltstrlen + 1) = y2.take (Q1.prefixlen + Q1.saltstrlen + 1) := by
    rw [hout1, hout2]
    generalize hg : ([36, 121, 36] ++ H.drop 4).take (Q1.prefixlen + Q1.saltstrlen) = pre
    have hl : pre.length = Q1.prefixlen + Q1.saltstrlen := by
      rw [← hg, List.length_take]; omega
    rw [List.take_append, List.take_append, hl]
    have : Q1.prefixlen + Q1.saltstrlen + 1 - (Q1.prefixlen + Q1.saltstrlen) = 1 := by omega
    rw [this]; rfl
  rw [ht] at e1
  have ee := e1.symm.trans e2
  simp only [List.append_cancel_left_eq] at ee
  have := encode64_inj _ _ (by rw [hD.gost, hD.gost]) ee
  exact ⟨Q1.params, Q1.salt, _, hd1, hd2, hD1, hD2, this⟩

/-- bigcrypt: a false accept needs a DES collision on the first eight bytes under the same salt; and when both phrases went
    through the segment loop, one at every segment (`SegColl`) -/
theorem C03_bigcrypt_reduction (d : Bool) (D : Digests) (hD : D.WF) (p p' s s' H : Bytes)
    (h1 : cryptBig d D p s = .ok H) (h2 : cryptBig d D p' s' = .ok H) :
    ∃ salt, D.desHash (desKey p) salt 25 = D.desHash (desKey p') salt 25 ∧
      (H = [a64 salt, a64 (salt / 64)] ++ bigSegments D 16 p salt → H = [a64 salt, a64 (salt / 64)] ++ bigSegments D 16 p' salt →
        SegColl D 16 p p' salt) := by
  obtain ⟨a, ha, sa⟩ := cryptBig_shape h1
  obtain ⟨b, hb, sb⟩ := cryptBig_shape h2
  have hab : a = b := by
    rcases sa with sa | sa <;> rcases sb with sb | sb <;> rw [sa] at sb <;>
      simp only [List.cons_append, List.nil_append, List.cons.injEq] at sb <;> exact salt_chars_inj ha hb sb.1 sb.2.1
  subst hab
  have t1 : (H.drop 2).take 11 = desEncode (D.desHash (desKey p) a 25) := by
    rcases sa with sa | sa <;> rw [sa]
    · simp only [List.cons_append, List.nil_append, List.drop_succ_cons, List.drop_zero]
      exact List.take_of_length_le (by rw [desEncode_length8 _ (hD.des _ _ _)]; omega)
    · simp only [List.cons_append, List.nil_append, List.drop_succ_cons, List.drop_zero]
      exact bigSegments_take11 D hD 15 p a
  have t2 : (H.drop 2).take 11 = desEncode (D.desHash (desKey p') a 25) := by
    rcases sb with sb | sb <;> rw [sb]
    · simp only [List.cons_append, List.nil_append, List.drop_succ_cons, List.drop_zero]
      exact List.take_of_length_le (by rw [desEncode_length8 _ (hD.des _ _ _)]; omega)
    · simp only [List.cons_append, List.nil_append, List.drop_succ_cons, List.drop_zero]
      exact bigSegments_take11 D hD 15 p' a
  refine ⟨a, desEncode_inj _ _ (by rw [hD.des, hD.des]) (t1.symm.trans t2), fun e1 e2 => ?_⟩
  rw [e1] at e2
  exact bigSegments_coll D hD 16 p p' a (List.append_cancel_left e2)

theorem desKey_append8 (p tail tail' : Bytes) (h8 : 8 ≤ p.length) : desKey (p ++ tail) = desKey (p ++ tail') := by
  apply desKey_window
  intro i hi
  have hi' : i < p.length := by omega
  simp [List.getD, List.getElem?_append_left hi']

theorem bigSegments_window (D : Digests) : ∀ (fuel : Nat) (p tail tail' : Bytes) (salt : Nat), p.length = 8 * fuel →
    bigSegments D fuel (p ++ tail) salt = bigSegments D fuel (p ++ tail') salt := by
  intro fuel
  induction fuel with
  | zero => intro p tail tail' salt _; rfl
  | succ f ih =>
    intro p tail tail' salt hl
    simp only [bigSegments]
    rw [desKey_append8 p tail tail' (by omega)]
    have d1 : (p ++ tail).drop 8 = p.drop 8 ++ tail := List.drop_append_of_le_length (by omega)
    have d2 : (p ++ tail').drop 8 = p.drop 8 ++ tail' := List.drop_append_of_le_length (by omega)
    rw [d1, d2]
    cases f with
    | zero =>
      simp only [bigSegments, List.append_nil]
      split <;> split <;> rfl
    | succ k =>
      have hne : ∀ t : Bytes, (p.drop 8 ++ t).isEmpty = false := by
        intro t
        have : 0 < (p.drop 8 ++ t).length := by simp; omega
        cases hx : p.drop 8 ++ t with
        | nil => rw [hx] at this; simp at this
        | cons _ _ => rfl
      rw [hne tail, hne tail']
      simp only [Bool.false_eq_true, if_false]
      rw [ih (p.drop 8) tail tail' _ (by simp; omega)]

/-- bytes beyond the 128th are insignificant for bigcrypt (the documented window) -/
theorem C03_big_beyond128 (d : Bool) (D : Digests) (p s tail tail' : Bytes) (h : p.length = 128) :
    cryptBig d D (p ++ tail) s = cryptBig d D (p ++ tail') s := by
  unfold cryptBig
  have l1 : (p ++ tail).length > 8 := by simp; omega
  have l2 : (p ++ tail').length > 8 := by simp; omega
  by_cases hs : s.length ≤ 13
  · have c1 : (p ++ tail).length > 8 ∧ s.length ≤ 13 := ⟨l1, hs⟩
    have c2 : (p ++ tail').length > 8 ∧ s.length ≤ 13 := ⟨l2, hs⟩
    rw [if_pos c1, if_pos c2]
    cases d with
    | false => rfl
    | true =>
      simp only [if_true]
      have : p = p.take 8 ++ p.drop 8 := (List.take_append_drop 8 p).symm
      rw [this, List.append_assoc, List.append_assoc]
      exact C03_des_beyond8 D (p.take 8) s _ _ (by simp; omega)
  · have c1 : ¬ ((p ++ tail).length > 8 ∧ s.length ≤ 13) := fun c => hs c.2
    have c2 : ¬ ((p ++ tail').length > 8 ∧ s.length ≤ 13) := fun c => hs c.2
    rw [if_neg c1, if_neg c2]
    split
    · rfl
    · rw [bigSegments_window D 16 p tail tail' _ (by omega)]

/-- bytes beyond the 72nd are insignificant for bcrypt (the documented window): `BF_set_key` of the model that the correspondence
    check ties to crypt-bcrypt.c reads 18 words of 4 bytes cyclically from the phrase and its terminator -/
theorem C03_bcrypt_beyond72 (D : Digests) (hbf : D.bf = Bf.bcryptCore) (p s tail tail' : Bytes) (h : p.length = 72) :
    cryptBf D (p ++ tail) s = cryptBf D (p ++ tail') s := by
  unfold cryptBf
  rw [hbf]
  simp only [Bf.bcryptCore_window _ _ _ p tail tail' h]

end Xc.C03

/-
  C03 — a different passphrase or salt never reproduces the hash (no false accept).
  Read literally the property is false for any fixed-size digest (pigeonhole), so the theorems carry the
  structural part a proof can carry and a truncation bug would break:
   * the exact *insignificant* windows (descrypt: bytes beyond 8 and the 8th bit; bigcrypt: bytes beyond 128);
   * the text encodings of digests are injective, hence any false accept IS a collision of the method's
     core function on its exact inputs (reduction), never an artefact of parsing or encoding.
-/
import Xc.Thm.C12
import Xc.Lemmas.Shape
import Xc.Lemmas.U8
namespace Xc.C03
open Xc
set_option maxRecDepth 1000000

/-- descrypt uses the phrase only through `desKey`: its first 8 bytes shifted left by one (the 8th bit falls out) -/
theorem C03_des_window (D : Digests) (p p' s : Bytes) (h : desKey p = desKey p') : cryptDes D p s = cryptDes D p' s := by
  simp [cryptDes, h]

theorem desKey_window (p p' : Bytes) (h : ∀ i, i < 8 → (p.getD i 0) <<< (1 : UInt8) = (p'.getD i 0) <<< (1 : UInt8)) : desKey p = desKey p' := by
  simp only [desKey, padTo, List.map_map]
  apply List.map_congr_left
  intro i hi
  simp only [List.mem_range] at hi
  simpa using h i hi

/-- bytes beyond the eighth are insignificant for descrypt -/
theorem C03_des_beyond8 (D : Digests) (p s tail tail' : Bytes) (h8 : p.length = 8) :
    cryptDes D (p ++ tail) s = cryptDes D (p ++ tail') s := by
  apply C03_des_window
  apply desKey_window
  intro i hi
  have hi' : i < p.length := by omega
  simp [List.getD, List.getElem?_append_left hi']

/-- the 8th bit of every byte is insignificant for descrypt -/
theorem C03_des_8thbit (D : Digests) (p s : Bytes) :
    cryptDes D p s = cryptDes D (p.map (· &&& 0x7f)) s := by
  apply C03_des_window
  apply desKey_window
  intro i _
  have key : ∀ c : UInt8, c <<< (1 : UInt8) = (c &&& 0x7f) <<< (1 : UInt8) :=
    forall_uint8 _ (by decide +kernel)
  rcases Nat.lt_or_ge i p.length with hl | hl
  · simp only [List.getD, List.getElem?_map, List.getElem?_eq_getElem hl, Option.map_some, Option.getD_some]
    exact key _
  · simp [List.getD, List.getElem?_eq_none hl]

/-- hex text is injective -/
theorem hexLower_cons (x : UInt8) (xs : Bytes) : hexLower (x :: xs) = hexDigit (x.toNat / 16) :: hexDigit (x.toNat % 16) :: hexLower xs := rfl
theorem hexLower_nil : hexLower [] = [] := rfl
theorem hexLower_inj : ∀ a b : Bytes, hexLower a = hexLower b → a = b := by
  intro a
  induction a with
  | nil => intro b h; cases b with
    | nil => rfl
    | cons y ys => rw [hexLower_nil, hexLower_cons] at h; cases h
  | cons x xs ih =>
    intro b h
    cases b with
    | nil => rw [hexLower_nil, hexLower_cons] at h; cases h
    | cons y ys =>
      rw [hexLower_cons, hexLower_cons] at h
      injection h with h1 h
      injection h with h2 h3
      have hd : ∀ a b : Fin 16, hexDigit a.val = hexDigit b.val → a = b := by decide +kernel
      have hu := x.toNat_lt; have hv := y.toNat_lt
      have a1 := hd ⟨x.toNat / 16, by omega⟩ ⟨y.toNat / 16, by omega⟩ h1
      have a2 := hd ⟨x.toNat % 16, by omega⟩ ⟨y.toNat % 16, by omega⟩ h2
      have b1 : x.toNat / 16 = y.toNat / 16 := Fin.mk.inj_iff.mp a1
      have b2 : x.toNat % 16 = y.toNat % 16 := Fin.mk.inj_iff.mp a2
      have : x = y := UInt8.toNat_inj.mp (by omega)
      rw [this, ih ys h3]

/-- NT: equal hashes ⇒ equal MD4 digests (a false accept is an MD4 collision on the UCS-2 phrases) -/
theorem C03_nt_reduction (D : Digests) (p p' s s' H : Bytes) (h1 : cryptNt D p s = .ok H) (h2 : cryptNt D p' s' = .ok H) :
    D.nt p = D.nt p' := by
  unfold cryptNt at h1 h2
  split at h1; · cases h1
  split at h2; · cases h2
  cases h1
  simp only [Except.ok.injEq, List.append_cancel_left_eq] at h2
  exact (hexLower_inj _ _ h2).symm

end Xc.C03

import Xc.Thm.C12
namespace Xc.C03
theorem placeholder : True := trivial
end Xc.C03

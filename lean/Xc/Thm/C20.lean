/-
  C20 — binary interface stays compatible with released libcrypt.so.1.
  The quantifier ("every existing binary") reduces to a finite interface: struct layout, constants,
  (symbol, version) pairs and alias identity.  All facts below are decided over tables regenerated from
  the tree on every run (Gen.Consts from the tree's crypt.h, Gen.Abi from the freshly linked .so) against
  the facts of the released library (libxcrypt 4.4.33) committed under /verif/ref.
-/
import Xc.Gen.Abi
import Xc.Gen.Consts
namespace Xc.C20
open Xc

def nm (s : String) : List Nat := s.toList.map Char.toNat

/-- struct crypt_data: 32768 bytes, fields at their released offsets, no padding between them -/
theorem C20_layout :
    Gen.sizeof_crypt_data = 32768 ∧ Gen.off_output = 0 ∧ Gen.off_setting = 384 ∧ Gen.off_input = 768 ∧
    Gen.off_reserved = 1280 ∧ Gen.off_initialized = 2047 ∧ Gen.off_internal = 2048 ∧
    Gen.off_output + Gen.size_output = Gen.off_setting ∧ Gen.off_setting + Gen.size_setting = Gen.off_input ∧
    Gen.off_input + Gen.size_input = Gen.off_reserved ∧ Gen.off_reserved + Gen.size_reserved = Gen.off_initialized ∧
    Gen.off_initialized + Gen.size_initialized = Gen.off_internal ∧ Gen.off_internal + Gen.size_internal = Gen.sizeof_crypt_data := by
  decide

/-- the tree's header agrees with the released header on every layout number and public constant -/
theorem C20_matches_released :
    Gen.abi_released_layout =
      [([67, 82, 89, 80, 84, 95, 68, 65, 84, 65, 95, 73, 78, 84, 69, 82, 78, 65, 76, 95, 83, 73, 90, 69], Gen.CRYPT_DATA_INTERNAL_SIZE),
       ([67, 82, 89, 80, 84, 95, 68, 65, 84, 65, 95, 82, 69, 83, 69, 82, 86, 69, 68, 95, 83, 73, 90, 69], Gen.CRYPT_DATA_RESERVED_SIZE),
       ([67, 82, 89, 80, 84, 95, 71, 69, 78, 83, 65, 76, 84, 95, 79, 85, 84, 80, 85, 84, 95, 83, 73, 90, 69], Gen.CRYPT_GENSALT_OUTPUT_SIZE),
       ([67, 82, 89, 80, 84, 95, 77, 65, 88, 95, 80, 65, 83, 83, 80, 72, 82, 65, 83, 69, 95, 83, 73, 90, 69], Gen.CRYPT_MAX_PASSPHRASE_SIZE),
       ([67, 82, 89, 80, 84, 95, 79, 85, 84, 80, 85, 84, 95, 83, 73, 90, 69], Gen.CRYPT_OUTPUT_SIZE),
       ([67, 82, 89, 80, 84, 95, 83, 65, 76, 84, 95, 73, 78, 86, 65, 76, 73, 68], Gen.CRYPT_SALT_INVALID),
       ([67, 82, 89, 80, 84, 95, 83, 65, 76, 84, 95, 77, 69, 84, 72, 79, 68, 95, 68, 73, 83, 65, 66, 76, 69, 68], Gen.CRYPT_SALT_METHOD_DISABLED),
       ([67, 82, 89, 80, 84, 95, 83, 65, 76, 84, 95, 77, 69, 84, 72, 79, 68, 95, 76, 69, 71, 65, 67, 89], Gen.CRYPT_SALT_METHOD_LEGACY),
       ([67, 82, 89, 80, 84, 95, 83, 65, 76, 84, 95, 79, 75], Gen.CRYPT_SALT_OK),
       ([67, 82, 89, 80, 84, 95, 83, 65, 76, 84, 95, 84, 79, 79, 95, 67, 72, 69, 65, 80], Gen.CRYPT_SALT_TOO_CHEAP),
       ([105, 110, 105, 116, 105, 97, 108, 105, 122, 101, 100], Gen.off_initialized),
       ([105, 110, 112, 117, 116], Gen.off_input), ([105, 110, 116, 101, 114, 110, 97, 108], Gen.off_internal),
       ([111, 117, 116, 112, 117, 116], Gen.off_output), ([114, 101, 115, 101, 114, 118, 101, 100], Gen.off_reserved),
       ([115, 101, 116, 116, 105, 110, 103], Gen.off_setting), ([115, 105, 122, 101, 111, 102], Gen.sizeof_crypt_data)] := by
  decide

/-- every (symbol, version) pair of the released library is still exported, with the same default-version status -/
theorem C20_symbols : ∀ r ∈ Gen.abi_released, r ∈ Gen.abi_exported := by decide

/-- symbols that were aliases of each other in the released library are still bound to one address -/
theorem C20_aliases : ∀ c ∈ Gen.abi_released_alias_classes, ∃ d ∈ Gen.abi_alias_classes, ∀ x ∈ c, x ∈ d := by decide

/-- the compatibility-only symbols are the modern entry points under another name: xcrypt = fcrypt = crypt,
    xcrypt_r = crypt_r, crypt_gensalt_r = xcrypt_gensalt_r = crypt_gensalt_rn, xcrypt_gensalt = crypt_gensalt -/
theorem C20_compat_alias :
    (∃ d ∈ Gen.abi_alias_classes, [120, 99, 114, 121, 112, 116, 64, 88, 67, 82, 89, 80, 84, 95, 50, 46, 48] ∈ d ∧
        [102, 99, 114, 121, 112, 116, 64, 71, 76, 73, 66, 67, 95, 50, 46, 50, 46, 53] ∈ d ∧ [99, 114, 121, 112, 116, 64, 88, 67, 82, 89, 80, 84, 95, 50, 46, 48] ∈ d) ∧
    (∃ d ∈ Gen.abi_alias_classes, [120, 99, 114, 121, 112, 116, 95, 114, 64, 88, 67, 82, 89, 80, 84, 95, 50, 46, 48] ∈ d ∧
        [99, 114, 121, 112, 116, 95, 114, 64, 88, 67, 82, 89, 80, 84, 95, 50, 46, 48] ∈ d) ∧
    (∃ d ∈ Gen.abi_alias_classes, [99, 114, 121, 112, 116, 95, 103, 101, 110, 115, 97, 108, 116, 95, 114, 64, 88, 67, 82, 89, 80, 84, 95, 50, 46, 48] ∈ d ∧
        [120, 99, 114, 121, 112, 116, 95, 103, 101, 110, 115, 97, 108, 116, 95, 114, 64, 88, 67, 82, 89, 80, 84, 95, 50, 46, 48] ∈ d ∧
        [99, 114, 121, 112, 116, 95, 103, 101, 110, 115, 97, 108, 116, 95, 114, 110, 64, 88, 67, 82, 89, 80, 84, 95, 50, 46, 48] ∈ d) ∧
    (∃ d ∈ Gen.abi_alias_classes, [120, 99, 114, 121, 112, 116, 95, 103, 101, 110, 115, 97, 108, 116, 64, 88, 67, 82, 89, 80, 84, 95, 50, 46, 48] ∈ d ∧
        [99, 114, 121, 112, 116, 95, 103, 101, 110, 115, 97, 108, 116, 64, 88, 67, 82, 89, 80, 84, 95, 50, 46, 48] ∈ d) := by
  decide

end Xc.C20

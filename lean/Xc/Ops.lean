/-
  Op decoding for the driver: maps one protocol line to model calls and prints
  the model's observation in the same canonical form as the C harness.
-/
import Xc.Gensalt

namespace Xc

structure DriverState where
  osBytes : Bytes := []
  deriving Inhabited

def argBytes (s : String) : Option (Option Bytes) :=
  if s == "-" then some none
  else if s == "." then some (some [])
  else (unhex s).map some

def showBytes (b : Bytes) : String := if b.isEmpty then "." else hex b

def showErr : Option Errno → String
  | none => "0"
  | some e => e.name

def osFrom (bs : Bytes) : Nat → Bytes := fun k => (List.range k).map fun i => bs.getD i 0

def opGensalt (st : DriverState) (entry pfx count rb nrb osz : String) : String :=
  match argBytes pfx, count.toNat?, argBytes rb, nrb.toInt?, osz.toInt? with
  | some pfx, some count, some rb, some nrb, some osz =>
    let cfg := Config.tree
    let r : GRes :=
      if entry == "rn" then gensaltRn cfg pfx count rb nrb osz (osFrom st.osBytes)
      else if entry == "ra" then gensaltRa cfg pfx count rb nrb true (osFrom st.osBytes)
      else gensaltStatic cfg pfx count rb nrb (osFrom st.osBytes)
    let ret := match r.ret with | none => "NULL" | some s => showBytes s
    let buf :=
      if entry == "rn" then (match r.buf with | none => "-" | some s => showBytes s)
      else (match r.ret with | none => "?" | some s => showBytes s)
    s!"ret={ret} errno={showErr r.errno} buf={buf} ext={r.ext} abort={if r.aborted then 1 else 0}"
  | _, _, _, _, _ => "bad-op"

def opChecksalt (s : String) : String :=
  match argBytes s with
  | some s => s!"status={(checksalt Config.tree.table s).code}"
  | none => "bad-op"

def opChecksaltEnum (s : String) : String :=
  match argBytes s with
  | some (some p) =>
    let tbl := Config.tree.table
    let (c0, c1, c3, cx, h) := (List.range 255).foldl (fun (acc : Nat × Nat × Nat × Nat × Nat) i =>
      let b := i + 1
      let st := (checksalt tbl (some (p ++ [b.toUInt8]))).code
      let (c0, c1, c3, cx, h) := acc
      (if st == 0 then c0 + 1 else c0, if st == 1 then c1 + 1 else c1, if st == 3 then c3 + 1 else c3,
       if st != 0 && st != 1 && st != 3 then cx + 1 else cx, (h + b * (st + 1)) % 4294967296)) (0, 0, 0, 0, 0)
    s!"n0={c0} n1={c1} n3={c3} nx={cx} h={h}"
  | _ => "bad-op"

def opPreferred : String :=
  match preferredMethod Config.tree.dflt with
  | none => "pref=NULL"
  | some p => s!"pref={showBytes p}"

def stepOp (st : DriverState) (toks : List String) : DriverState × String :=
  match toks with
  | ["G", entry, pfx, count, rb, nrb, osz] => (st, opGensalt st entry pfx count rb nrb osz)
  | ["K", s] => (st, opChecksalt s)
  | ["KE", s] => (st, opChecksaltEnum s)
  | ["P"] => (st, opPreferred)
  | ["OS", b] =>
    match argBytes b with
    | some (some bs) => ({ st with osBytes := bs }, "ok")
    | some none => ({ st with osBytes := [] }, "ok")
    | none => (st, "bad-op")
  | _ => (st, "bad-op")

end Xc

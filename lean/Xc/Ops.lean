/-
  Op decoding for the driver: maps one protocol line to model calls and prints
  the model's observation in the same canonical form as the C harness.
-/
import Xc.D0
import Xc.Config
import Xc.Heap

namespace Xc

structure DriverState where
  cfg : Config := Config.tree
  osBytes : Bytes := []
  objs : List (Nat × DataObj) := []
  static : DataObj := { out := some [], scratchZero := true }
  desStatic : Des.Ctx := { keysl := Array.replicate 16 0, keysr := Array.replicate 16 0, saltbits := 0 }
  desObjs : List (Nat × Des.Ctx) := []
  /-- objects whose scratch area is zero except (possibly) for a key schedule written by setkey_r -/
  desDirtyOnly : List Nat := []
  heap : Heap := { blocks := [] }
  raPairs : List (Nat × RaPair × DataObj) := []
  faultAt : Nat := 0
  deriving Inhabited

def DriverState.getRa (st : DriverState) (id : Nat) : RaPair × DataObj :=
  match st.raPairs.find? (·.1 == id) with
  | some (_, p, d) => (p, d)
  | none => ({ data := none, size := 0 }, { out := none, scratchZero := false })

def DriverState.setRa (st : DriverState) (id : Nat) (p : RaPair) (d : DataObj) : DriverState :=
  { st with raPairs := (id, p, d) :: st.raPairs.filter (·.1 != id) }

def zeroDes : Des.Ctx := { keysl := Array.replicate 16 0, keysr := Array.replicate 16 0, saltbits := 0 }

def DriverState.getDes (st : DriverState) (id : Nat) : Des.Ctx :=
  match st.desObjs.find? (·.1 == id) with
  | some (_, d) => d
  | none => zeroDes

def DriverState.setDes (st : DriverState) (id : Nat) (d : Des.Ctx) : DriverState :=
  { st with desObjs := (id, d) :: st.desObjs.filter (·.1 != id) }

def DriverState.getObj (st : DriverState) (id : Nat) : DataObj :=
  match st.objs.find? (·.1 == id) with
  | some (_, d) => d
  | none => { out := some [], scratchZero := true }

def DriverState.setObj (st : DriverState) (id : Nat) (d : DataObj) : DriverState :=
  { st with objs := (id, d) :: st.objs.filter (·.1 != id) }

def argBytes (s : String) : Option (Option Bytes) :=
  if s == "-" then some none
  else if s == "." then some (some [])
  else (unhex s).map some

def showBytes (b : Bytes) : String := if b.isEmpty then "." else hex b

def showErr : Option Errno → String
  | none => "0"
  | some e => e.name

def osFrom (bs : Bytes) : Nat → Bytes := fun k => (List.range k).map fun i => bs.getD i 0

def opGensalt (st : DriverState) (entry pfx count rb nrb osz : String) : String :=
  match argBytes pfx, count.toNat?, argBytes rb, nrb.toInt?, osz.toInt? with
  | some pfx, some count, some rb, some nrb, some osz =>
    let cfg := st.cfg
    let r : GRes :=
      if entry == "rn" then gensaltRn cfg pfx count rb nrb osz (osFrom st.osBytes)
      else if entry == "ra" then gensaltRa cfg pfx count rb nrb true (osFrom st.osBytes)
      else gensaltStatic cfg pfx count rb nrb (osFrom st.osBytes)
    let ret := match r.ret with | none => "NULL" | some s => showBytes s
    let buf :=
      if entry == "rn" then (match r.buf with | none => "-" | some s => showBytes s)
      else (match r.ret with | none => "?" | some s => showBytes s)
    s!"ret={ret} errno={showErr r.errno} buf={buf} ext={r.ext} abort={if r.aborted then 1 else 0}"
  | _, _, _, _, _ => "bad-op"

def opChecksalt (cfg : Config) (s : String) : String :=
  match argBytes s with
  | some s => s!"status={(checksalt cfg.table s).code}"
  | none => "bad-op"

def opChecksaltEnum (cfg : Config) (s : String) : String :=
  match argBytes s with
  | some (some p) =>
    let tbl := cfg.table
    let (c0, c1, c3, cx, h) := (List.range 255).foldl (fun (acc : Nat × Nat × Nat × Nat × Nat) i =>
      let b := i + 1
      let st := (checksalt tbl (some (p ++ [b.toUInt8]))).code
      let (c0, c1, c3, cx, h) := acc
      (if st == 0 then c0 + 1 else c0, if st == 1 then c1 + 1 else c1, if st == 3 then c3 + 1 else c3,
       if st != 0 && st != 1 && st != 3 then cx + 1 else cx, (h + b * (st + 1)) % 4294967296)) (0, 0, 0, 0, 0)
    s!"n0={c0} n1={c1} n3={c3} nx={cx} h={h}"
  | _ => "bad-op"

def opPreferred (cfg : Config) : String :=
  match preferredMethod cfg.dflt with
  | none => "pref=NULL"
  | some p => s!"pref={showBytes p}"

/-- rough cost (≈ microseconds) and memory (bytes) of hashing with `setting`; used to keep
    hour-long settings away from the implementation (DESIGN §2 "compute budget") -/
def costOf (cfg : Config) (setting : Option Bytes) : Nat × Nat :=
  match setting with
  | none => (0, 0)
  | some s =>
    if checkBadSaltChars s then (0, 0) else
    match getHashFn cfg.table s with
    | none => (0, 0)
    | some h =>
      match h.crypt with
      | .md5crypt => (1000, 0)
      | .sha256crypt =>
        (match parseSha Gen.sha256_salt_prefix Gen.sha256_rounds_prefix Gen.SHA256_ROUNDS_DEFAULT Gen.SHA256_ROUNDS_MIN
                Gen.SHA256_ROUNDS_MAX Gen.SHA256_SALT_LEN_MAX s with | .ok P => (P.rounds * 2, 0) | _ => (0, 0))
      | .sha512crypt =>
        (match parseSha Gen.sha512_salt_prefix Gen.sha512_rounds_prefix Gen.SHA512_ROUNDS_DEFAULT Gen.SHA512_ROUNDS_MIN
                Gen.SHA512_ROUNDS_MAX Gen.SHA512_SALT_LEN_MAX s with | .ok P => (P.rounds * 3, 0) | _ => (0, 0))
      | .sunmd5 => (match parseSunmd5 s with | .ok P => (P.nrounds * 2, 0) | _ => (0, 0))
      | .sha1crypt => (match parseSha1 s with | .ok P => (P.iterations, 0) | _ => (0, 0))
      | .nt => (1, 0)
      | .descrypt => (25, 0)
      | .bigcrypt => (400, 0)
      | .bsdicrypt => (match dec24 s 1 with | some c => (c + 64, 0) | none => (0, 0))
      | .bcrypt | .bcrypt_a | .bcrypt_x | .bcrypt_y =>
        (match parseBf s with | some P => (2 ^ P.cost * 150, 0) | none => (0, 0))
      | .yescrypt | .scrypt =>
        (match parseYescrypt s Gen.CRYPT_OUTPUT_SIZE with
         | some P => if yesKdfParamsOk P.params then (P.params.N * P.params.r * P.params.p * (P.params.t + 1) / 4, yesKdfMemory P.params) else (0, 0)
         | none => (0, 0))
      | .gost_yescrypt =>
        (match parseYescrypt ([36, 121, 36] ++ s.drop 4) (Gen.CRYPT_OUTPUT_SIZE - 1) with
         | some P => if yesKdfParamsOk P.params then (P.params.N * P.params.r * P.params.p * (P.params.t + 1) / 4, yesKdfMemory P.params) else (0, 0)
         | none => (0, 0))

def showObs (cfg : Config) (setting : Option Bytes) (d : DataObj) (o : CObs) (isStatic : Bool) : String :=
  let ret := match o.ret with | none => "NULL" | some _ => "out"
  let out := match d.out with | none => "unterminated" | some s => showBytes s
  -- which method produced it (for the digest-dependent tail)
  let (dig, exact) : Nat × Nat :=
    match o.errno, setting, d.out with
    | none, some s, some H =>
      (match getHashFn cfg.table s with
       | some h => (digestChars h.crypt H, if exactMethods.contains h.crypt then 1 else 0)
       | none => (0, 1))
    | _, _, _ => (0, 1)
  let b (x : Bool) := if x then "1" else "0"
  let (cost, mem) := costOf cfg setting
  if isStatic then
    s!"ret={ret} errno={showErr o.errno} out={out} wz={b o.wz} wu=? app=? abort=0 dig={dig} exact={exact} cost={cost} mem={mem}"
  else
    s!"ret={ret} errno={showErr o.errno} out={out} wz={b o.wz} wu={b o.wu} app={b o.app} abort=0 dig={dig} exact={exact} cost={cost} mem={mem}"

def opObj (st : DriverState) (id fill : String) : DriverState × String :=
  match id.toNat? with
  | some id =>
    let d : DataObj := if fill == "z" then { out := some [], scratchZero := true } else { out := none, scratchZero := false }
    ({ (st.setObj (id % 8) d) with desDirtyOnly := st.desDirtyOnly.filter (· != id % 8), desObjs := st.desObjs.filter (·.1 != id % 8) }, "ok")
  | none => (st, "bad-op")

def validatedReq (cfg : Config) (p s : Option Bytes) : Bool :=
  match p, s with
  | some p, some s => decide (p.length < Gen.CRYPT_MAX_PASSPHRASE_SIZE) && !checkBadSaltChars s && (getHashFn cfg.table s).isSome
  | _, _ => false

/-- `do_setkey_r`: zero the context, salt 0, key from the low bits of 64 bytes (here already packed to 8 bytes) -/
def opSetkey (key : Bytes) : Des.Ctx := Des.mkCtx key 0

def opEncrypt (c : Des.Ctx) (block : Bytes) (edflag : Nat) : String :=
  s!"d={showBytes (Des.cryptBlock c block 1 (edflag != 0))} bits01=1"

def opCrypt (st : DriverState) (entry id phrase setting : String) (size : Option String) : DriverState × String :=
  match id.toNat?, argBytes phrase, argBytes setting with
  | some id, some p, some s =>
    let id := id % 8
    let cfg := st.cfg
    let tokens := Gen.ENABLE_FAILURE_TOKENS_ == 1
    if entry == "st" then
      let (d, o) := cryptR cfg D0 tokens p s st.static
      ({ st with static := d }, showObs cfg s d o true)
    else
      let d0 := st.getObj id
      if entry == "r" then
        let (d, o) := cryptR cfg D0 tokens p s d0
        let st := if validatedReq cfg p s then st.setDes id zeroDes else st
        (st.setObj id d, showObs cfg s d o false)
      else if entry == "rn" then
        let sz : Int := match size with | some z => z.toInt?.getD 0 | none => Gen.sizeof_crypt_data
        let (d, o) := cryptRn cfg D0 p s d0 sz
        let st := if sz ≥ Gen.sizeof_crypt_data ∧ validatedReq cfg p s then st.setDes id zeroDes else st
        (st.setObj id d, showObs cfg s d o false)
      else (st, "bad-op")
  | _, _, _ => (st, "bad-op")

/-- streaming digest through the C-shaped context, chunk by chunk -/
def opHash (alg : String) (chunks : List String) : String :=
  match chunks.mapM (fun c => (argBytes c).bind id) with
  | none => "bad-op"
  | some cs =>
    let run {σ} (A : MD.Alg σ) := MD.final A (cs.foldl (MD.update A) (MD.init A))
    let d : Option Bytes :=
      if alg == "md4" then some (run Md4.alg) else if alg == "md5" then some (run Md5.alg)
      else if alg == "sha1" then some (run Sha1.alg) else if alg == "sha256" then some (run Sha256.alg)
      else if alg == "sha512" then some (run Sha512.alg)
      else if alg == "gost256" then some (Streebog.streamed256 cs)
      else if alg == "gost512" then some (Streebog.streamed512 cs)
      else none
    match d with
    | some d => s!"d={showBytes d} ctxzero=1"
    | none => "d=unmodelled ctxzero=1"

def opHmac (alg k t : String) : String :=
  match (argBytes k).bind id, (argBytes t).bind id with
  | some k, some t =>
    if alg == "sha1" then s!"d={showBytes (Cores.hmacSha1 k t)}"
    else if alg == "sha256" then s!"d={showBytes (Yes.hmacSha256 k t)}"
    else if alg == "gost256" then (if k.length < 32 || k.length > 64 then "d=precondition" else s!"d={showBytes (Streebog.hmac256 k t)}")
    else "bad-op"
  | _, _ => "bad-op"

def opPbkdf2 (p s c dk : String) : String :=
  match (argBytes p).bind id, (argBytes s).bind id, c.toNat?, dk.toNat? with
  | some p, some s, some c, some dk => s!"d={showBytes (Yes.pbkdf2Impl p s c dk)}"
  | _, _, _, _ => "bad-op"

def opDesBlock (k salt count b dec : String) : String :=
  match (argBytes k).bind id, salt.toNat?, count.toNat?, (argBytes b).bind id, dec.toNat? with
  | some k, some salt, some count, some b, some dec =>
    s!"d={showBytes (Des.cryptBlock (Des.mkCtx k salt) b count (dec != 0))}"
  | _, _, _, _, _ => "bad-op"

def opRaSet (st : DriverState) (id : Nat) (mode : String) (k : Nat) : DriverState :=
  let garbage : DataObj := { out := none, scratchZero := false }
  let mk (size : Nat) (recorded : Int) : DriverState :=
    let (h, j) := st.heap.alloc { size := size, live := true, zero := false }
    ({ st with heap := h }).setRa id { data := some j, size := recorded } garbage
  let sz := Gen.sizeof_crypt_data
  if mode == "null" then st.setRa id { data := none, size := 0 } garbage
  else if mode == "valid" then mk sz sz
  else if mode == "big" then mk (sz + k) (sz + k)
  else if mode == "small" then mk (if k = 0 then 1 else k) k
  else if mode == "neg" then mk 64 (-(k : Int))
  else if mode == "nullsize" then st.setRa id { data := none, size := k } garbage
  else st

def opRa (st : DriverState) (id : Nat) (p s : Option Bytes) : DriverState × String :=
  let (pair, obj) := st.getRa id
  let needsAlloc := pair.data.isNone || pair.size < 0 || pair.size < Gen.sizeof_crypt_data
  let allocOk := !(needsAlloc && st.faultAt == 1)
  let (h, pair', obj', o) := cryptRa st.cfg D0 p s st.heap pair obj allocOk
  -- a fault position beyond crypt_ra's own request lands in the hashing method (yescrypt family: mmap, munmap)
  let kdfReq := if !allocOk then 0 else cryptRequests st.cfg p s
  let kpos := if st.faultAt = 0 then 0 else st.faultAt - (if needsAlloc then 1 else 0)
  let kdfFault := allocOk && kpos ≥ 1 && kpos ≤ kdfReq
  let (obj', o) : DataObj × RaObs :=
    if kdfFault then
      ({ out := failureToken s Gen.CRYPT_OUTPUT_SIZE, scratchZero := true }, { o with ret := none, errno := some .EINVAL })
    else (obj', o)
  let st' := ({ st with heap := h, faultAt := 0 }).setRa id pair' obj'
  let ret := match o.ret with | none => "NULL" | some _ => "out"
  let data := match pair'.data with | none => "null" | some _ => "set"
  let big := match pair'.data with | some _ => decide (pair'.size ≥ Gen.sizeof_crypt_data) | none => false
  let out := if big then (match obj'.out with | none => "unterminated" | some x => showBytes x) else "?"
  let wz := if big then (if obj'.scratchZero then "1" else "0") else "?"
  let oldz := if o.grew && pair.data.isSome then (if o.oldErased then "1" else "0") else "-"
  let fired := if !allocOk || kdfFault then 1 else 0
  let allocs := if kdfFault then o.requests + kpos else o.requests + kdfReq
  let leak := if kdfFault && kpos == 2 then 1 else 0
  (st', s!"ret={ret} errno={showErr o.errno} size={pair'.size} data={data} out={out} wz={wz} oldzero={oldz} allocs={allocs} fired={fired} leak={leak} dfree=0 abort=0")

def opCryptFault (st : DriverState) (entry id p s : String) : DriverState × String :=
  match argBytes p, argBytes s with
  | some pb, some sb =>
    let nreq := cryptRequests st.cfg pb sb
    let k := st.faultAt
    let st0 := { st with faultAt := 0 }
    if k = 0 ∨ k > nreq then
      let (st', line) := opCrypt st0 entry id p s none
      (st', line ++ s!" allocs={nreq} fired=0 leak=0 dfree=0 maps=0 badmunmap=0")
    else
      -- the k-th request fails: mmap (k = 1) or munmap (k = 2); either way the call fails with EINVAL and the
      -- computed hash, if any, is discarded.  Model it as the same call on an unknown prefix-preserving failure.
      match id.toNat? with
      | some idn =>
        let idn := idn % 8
        let d0 := if entry == "st" then st0.static else st0.getObj idn
        let tok := failureToken sb Gen.CRYPT_OUTPUT_SIZE
        let d1 : DataObj := { out := (match tok with | some t => some t | none => d0.out), scratchZero := true }
        let st' := if entry == "st" then { st0 with static := d1 } else st0.setObj idn d1
        let b (x : Bool) := if x then "1" else "0"
        let wu := b d0.scratchZero
        let ret := if entry == "rn" then "NULL" else "out"
        let tail := if entry == "st" then "wz=1 wu=? app=?" else s!"wz=1 wu={wu} app=1"
        (st', s!"ret={ret} errno=EINVAL out={match d1.out with | some x => showBytes x | none => "unterminated"} {tail} abort=0 dig=0 exact=1 cost=0 mem=0 allocs={k} fired=1 leak={if k = 2 then 1 else 0} dfree=0 maps={if k = 2 then 1 else 0} badmunmap=0")
      | none => (st0, "bad-op")
  | _, _ => (st, "bad-op")

def stepOp (st : DriverState) (toks : List String) : DriverState × String :=
  match toks with
  | ["G", entry, pfx, count, rb, nrb, osz] => (st, opGensalt st entry pfx count rb nrb osz)
  | ["K", s] => (st, opChecksalt st.cfg s)
  | ["KE", s] => (st, opChecksaltEnum st.cfg s)
  | ["ERRNO", _] => (st, "ok")   -- errno on entry is not an input of any modelled function
  | ["CFG", ms] =>
    let names := ms.splitOn ","
    let en : Method → Bool := fun m => names.contains m.name
    ({ st with cfg := mkConfig Gen.hashesConf en }, "ok")
  | "RASET" :: ids :: mode :: rest =>
    (match ids.toNat? with
     | some id => (opRaSet st (id % 8) mode ((rest.head?.bind String.toNat?).getD 0), "ok")
     | none => (st, "bad-op"))
  | ["RA", ids, p, s] =>
    (match ids.toNat?, argBytes p, argBytes s with
     | some id, some p, some s => opRa st (id % 8) p s
     | _, _, _ => (st, "bad-op"))
  -- "I": the harness passes phrase and setting from the block's own `input` / `setting` members; the answer is the same function of the request
  | ["RA", ids, p, s, _] =>
    (match ids.toNat?, argBytes p, argBytes s with
     | some id, some p, some s => opRa st (id % 8) p s
     | _, _, _ => (st, "bad-op"))
  | ["RAFREE", ids] =>
    (match ids.toNat? with
     | some id =>
       let (pair, _) := st.getRa (id % 8)
       let h := match pair.data with
         | some i => (match st.heap.get i with | some b => st.heap.set i { b with live := false } | none => st.heap)
         | none => st.heap
       (({ st with heap := h }).setRa (id % 8) { data := none, size := 0 } { out := none, scratchZero := false }, "ok")
     | none => (st, "bad-op"))
  | ["FAULT", k] => ({ st with faultAt := k.toNat?.getD 0 }, "ok")
  | ["GA", pfx, count, rb, nrb] =>
    (match argBytes pfx, count.toNat?, argBytes rb, nrb.toInt? with
     | some pfx, some count, some rb, some nrb =>
       let r := gensaltRa st.cfg pfx count rb nrb (st.faultAt != 1) (osFrom st.osBytes)
       ({ st with faultAt := 0 }, s!"ret={match r.ret with | none => "NULL" | some x => showBytes x} errno={showErr r.errno} allocs=1 fired={if st.faultAt == 1 then 1 else 0} leak=0 dfree=0")
     | _, _, _, _ => (st, "bad-op"))
  | ["CF", entry, id, p, s] => opCryptFault st entry id p s
  | "SK" :: k :: _ => (match (argBytes k).bind id with | some k => ({ st with desStatic := opSetkey k }, "ok") | none => (st, "bad-op"))
  | "SKR" :: ids :: k :: _ =>
    (match ids.toNat?, (argBytes k).bind (fun x => x) with
     | some id, some k =>
       -- do_setkey_r zeroes the des_ctx inside `internal` and writes the schedule: the area stays all-zero only if
       -- the rest of it was zero and the schedule itself is zero (zero key up to parity)
       let c := opSetkey k
       -- `internal` outside the des_ctx, `reserved`, `initialized`: zero iff they were zero when setkey_r was first used
       -- since the last fill / wipe (earlier setkey_r calls only ever touched the des_ctx, which is cleared first)
       let otherZero := (st.getObj (id % 8)).scratchZero || (st.desObjs.any (·.1 == id % 8) && st.desDirtyOnly.contains (id % 8))
       let z := otherZero && c.keysl.all (· == 0) && c.keysr.all (· == 0)
       let st' := (st.setDes (id % 8) c).setObj (id % 8) { (st.getObj (id % 8)) with scratchZero := z }
       ({ st' with desDirtyOnly := if otherZero then (id % 8) :: st.desDirtyOnly.filter (· != id % 8) else st.desDirtyOnly.filter (· != id % 8) }, "ok")
     | _, _ => (st, "bad-op"))
  | "EN" :: b :: ed :: _ =>
    (match (argBytes b).bind id, ed.toNat? with | some b, some ed => (st, opEncrypt st.desStatic b ed) | _, _ => (st, "bad-op"))
  | "ENR" :: ids :: b :: ed :: _ =>
    (match ids.toNat?, (argBytes b).bind (fun x => x), ed.toNat? with
     | some id, some b, some ed => (st, opEncrypt (st.getDes (id % 8)) b ed) | _, _, _ => (st, "bad-op"))
  | "H" :: alg :: _ :: chunks => (st, opHash alg chunks)
  | ["HM", alg, k, t] => (st, opHmac alg k t)
  | ["PB", p, s, c, dk] => (st, opPbkdf2 p s c dk)
  | ["DB", k, salt, count, b, dec] => (st, opDesBlock k salt count b dec)
  | "O" :: id :: fill :: _ => opObj st id fill
  | "CC" :: _ :: _ :: p :: s :: _ =>
    (match argBytes p, argBytes s with
     | some p, some s =>
       let (c, m) := costOf st.cfg s
       let pl := match p with | some p => p.length | none => 0
       (st, s!"cost={c * (1 + pl / 48)} mem={m}")
     | _, _ => (st, "bad-op"))
  | ["C", entry, id, p, s] => opCrypt st entry id p s none
  | ["C", entry, id, p, s, sz] => opCrypt st entry id p s (some sz)
  | ["P"] => (st, opPreferred st.cfg)
  | ["TBL"] =>
    -- the dispatch table and default prefix of the current configuration, as the model of gen-crypt-hashes-h computes them
    let rows := st.cfg.table.map fun r =>
      s!"{showBytes r.pfx},{r.plen},{r.crypt.name},{r.gensalt.name},{r.nrbytes},{if r.strong then 1 else 0}"
    (st, "tbl=" ++ ";".intercalate rows ++ " default=" ++ (match st.cfg.dflt with | none => "NULL" | some p => showBytes p))
  | ["OS", b] =>
    match argBytes b with
    | some (some bs) => ({ st with osBytes := bs }, "ok")
    | some none => ({ st with osBytes := [] }, "ok")
    | none => (st, "bad-op")
  | _ => (st, "bad-op")

end Xc

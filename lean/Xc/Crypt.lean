/-
  The sixteen `crypt_*_rn` front-ends (lib/crypt-*.c, alg-yescrypt-common.c:yescrypt_r)
  in the shape of the C functions: same order of checks, same early returns,
  same string assembly.  The cryptographic cores are the fields of a record
  `D : Digests` ("digests as parameters"): every string-level theorem holds for
  ANY `D` with the stated output lengths; the driver instantiates `D` with the
  executable primitives of Xc/Prim.
-/
import Xc.Gensalt
import Xc.Gen.Perms

namespace Xc

/-- parameters `yescrypt_r` decodes from a `$y$` / `$7$` setting -/
structure YParams where
  flags : Nat
  N : Nat
  r : Nat
  p : Nat
  t : Nat
  g : Nat
  NROM : Nat
  deriving DecidableEq, Repr

/-- The cryptographic cores, as uninterpreted functions. -/
structure Digests where
  /-- md5crypt: (phrase, salt ≤ 8) ↦ 16 bytes -/
  md5crypt : Bytes → Bytes → Bytes
  /-- sha256crypt: (phrase, salt ≤ 16, rounds) ↦ 32 bytes -/
  sha256crypt : Bytes → Bytes → Nat → Bytes
  /-- sha512crypt ↦ 64 bytes -/
  sha512crypt : Bytes → Bytes → Nat → Bytes
  /-- sunmd5: (phrase, setting up to and including the salt, total rounds) ↦ 16 bytes -/
  sunmd5 : Bytes → Bytes → Nat → Bytes
  /-- sha1crypt: (phrase, salt, iterations) ↦ 20 bytes -/
  sha1crypt : Bytes → Bytes → Nat → Bytes
  /-- NT: phrase ↦ 16 bytes -/
  nt : Bytes → Bytes
  /-- `des_set_key; des_set_salt; des_crypt_block (zero block)`: (key8, salt, count) ↦ 8 bytes -/
  desHash : Bytes → Nat → Nat → Bytes
  /-- the bsdicrypt key folding followed by the hash: (phrase, salt, count) ↦ 8 bytes -/
  bsdi : Bytes → Nat → Nat → Bytes
  /-- eksblowfish: (flags, log2 cost, 16 salt bytes, phrase) ↦ 23 bytes -/
  bf : Nat → Nat → Bytes → Bytes → Bytes
  /-- the run-time self-test of BF_full_crypt passes for this flag value -/
  bfSelfTest : Nat → Bool
  /-- `yescrypt_kdf`: (params, salt, phrase) ↦ 32 bytes, or failure (bad parameters / no memory) -/
  yescrypt : YParams → Bytes → Bytes → Option Bytes
  /-- gost-yescrypt's outer construction: (phrase, setting prefix, yescrypt output) ↦ 32 bytes -/
  gostOuter : Bytes → Bytes → Bytes → Bytes

structure Digests.WF (D : Digests) : Prop where
  md5 : ∀ p s, (D.md5crypt p s).length = 16
  sha256 : ∀ p s r, (D.sha256crypt p s r).length = 32
  sha512 : ∀ p s r, (D.sha512crypt p s r).length = 64
  sunmd5 : ∀ p s r, (D.sunmd5 p s r).length = 16
  sha1 : ∀ p s r, (D.sha1crypt p s r).length = 20
  nt : ∀ p, (D.nt p).length = 16
  des : ∀ k s c, (D.desHash k s c).length = 8
  bsdi : ∀ p s c, (D.bsdi p s c).length = 8
  bf : ∀ f c s p, (D.bf f c s p).length = 23
  yes : ∀ P s p h, D.yescrypt P s p = some h → h.length = 32
  gost : ∀ p s y, (D.gostOuter p s y).length = 32

abbrev CRes := Except Errno Bytes

/-! ### encoders -/

def byteAt (d : Bytes) (i : Nat) : Nat := if i = 255 then 0 else (d.getD i 0).toNat

/-- `b64_from_24bit (hi, mid, lo, n)`: n sextets of `hi<<16 | mid<<8 | lo`, least significant first -/
def b64from24 (hi mid lo n : Nat) : Bytes :=
  let w := hi * 65536 + mid * 256 + lo
  (List.range n).map fun i => a64 (w / 64 ^ i)

/-- apply an output schedule (Gen.perm_*) to a digest -/
def permEncode (sched : List (Nat × Nat × Nat × Nat)) (d : Bytes) : Bytes :=
  sched.flatMap fun (a, b, c, n) => b64from24 (byteAt d a) (byteAt d b) (byteAt d c) n

/-- sha1crypt's digest text: `to64` of 3-byte groups (big endian within the group), last group wraps to byte 0 -/
def sha1Encode (d : Bytes) : Bytes :=
  let g (i j k : Nat) := enc24 (byteAt d i * 65536 + byteAt d j * 256 + byteAt d k)
  g 0 1 2 ++ g 3 4 5 ++ g 6 7 8 ++ g 9 10 11 ++ g 12 13 14 ++ g 15 16 17 ++ g 18 19 0

def hexDigit (n : Nat) : UInt8 := if n < 10 then (48 + n).toUInt8 else (87 + n).toUInt8

def hexLower (d : Bytes) : Bytes := d.flatMap fun b => [hexDigit (b.toNat / 16), hexDigit (b.toNat % 16)]

/-- `des_gen_hash` encoding: 8 bytes → 11 characters, most significant sextet first -/
def desEncode : Bytes → Bytes
  | [] => []
  | [a] => [a64 (a.toNat / 4), a64 ((a.toNat % 4) * 16)]
  | [a, b] => [a64 (a.toNat / 4), a64 ((a.toNat % 4) * 16 + b.toNat / 16), a64 ((b.toNat % 16) * 4)]
  | a :: b :: c :: rest =>
    [a64 (a.toNat / 4), a64 ((a.toNat % 4) * 16 + b.toNat / 16),
     a64 ((b.toNat % 16) * 4 + c.toNat / 64), a64 (c.toNat % 64)] ++ desEncode rest

/-- crypt-des.c `ascii_to_bin` (`none` = -1) -/
def asciiToBin (c : UInt8) : Option Nat :=
  if c > 122 then none
  else if c ≥ 97 then some (c.toNat - 97 + 38)
  else if c > 90 then none
  else if c ≥ 65 then some (c.toNat - 65 + 12)
  else if c > 57 then none
  else if c ≥ 46 then some (c.toNat - 46)
  else none

/-! ### md5crypt -/

def saltTerm : Bytes := [36, 58, 10]   -- "$:\n"

/-- the `strcspn (salt, "$:\n")` salt scan shared by md5crypt and sha*crypt; `none` = EINVAL -/
def scanSalt (s : Bytes) (maxLen : Nat) : Option Bytes :=
  let n := strcspn s saltTerm
  let c := cat s n
  if ¬ (c == 36 || c == 0) then none
  else some (s.take (min n maxLen))

/-- "Find beginning of salt string. The prefix should normally always be present. Just in case it is not." -/
def stripPfx (setting pfx : Bytes) : Bytes :=
  if hasPrefix setting pfx then setting.drop pfx.length else setting

def cryptMd5 (D : Digests) (phrase setting : Bytes) : CRes :=
  match scanSalt (stripPfx setting Gen.md5_salt_prefix) Gen.MD5_SALT_LEN_MAX with
  | none => .error .EINVAL
  | some salt =>
    .ok (Gen.md5_salt_prefix ++ salt ++ [36] ++ permEncode Gen.perm_md5crypt (D.md5crypt phrase salt))

/-! ### sha256crypt / sha512crypt -/

structure ShaParsed where
  rounds : Nat
  custom : Bool
  salt : Bytes
  deriving DecidableEq, Repr

def parseSha (pfx roundsPfx : Bytes) (dflt rmin rmax saltMax : Nat) (setting : Bytes) : Except Errno ShaParsed :=
  let s := stripPfx setting pfx
  if hasPrefix s roundsPfx then
    let num := s.drop roundsPfx.length
    let c0 := cat num 0
    if ¬ (49 ≤ c0 && c0 ≤ 57) then .error .EINVAL else
    let r := strtoul10 num
    if r.consumed = 0 ∨ cat num r.consumed ≠ 36 ∨ r.value < rmin ∨ r.value > rmax ∨ r.erange then .error .EINVAL else
    match scanSalt (num.drop (r.consumed + 1)) saltMax with
    | none => .error .EINVAL
    | some salt => .ok { rounds := r.value, custom := true, salt := salt }
  else
    match scanSalt s saltMax with
    | none => .error .EINVAL
    | some salt => .ok { rounds := dflt, custom := false, salt := salt }

def emitSha (pfx roundsPfx : Bytes) (P : ShaParsed) (dig : Bytes) : Bytes :=
  pfx ++ (if P.custom then roundsPfx ++ toDec P.rounds ++ [36] else []) ++ P.salt ++ [36] ++ dig

def cryptSha256 (D : Digests) (phrase setting : Bytes) : CRes :=
  match parseSha Gen.sha256_salt_prefix Gen.sha256_rounds_prefix Gen.SHA256_ROUNDS_DEFAULT Gen.SHA256_ROUNDS_MIN
          Gen.SHA256_ROUNDS_MAX Gen.SHA256_SALT_LEN_MAX setting with
  | .error e => .error e
  | .ok P => .ok (emitSha Gen.sha256_salt_prefix Gen.sha256_rounds_prefix P
                    (permEncode Gen.perm_sha256crypt (D.sha256crypt phrase P.salt P.rounds)))

def cryptSha512 (D : Digests) (phrase setting : Bytes) : CRes :=
  match parseSha Gen.sha512_salt_prefix Gen.sha512_rounds_prefix Gen.SHA512_ROUNDS_DEFAULT Gen.SHA512_ROUNDS_MIN
          Gen.SHA512_ROUNDS_MAX Gen.SHA512_SALT_LEN_MAX setting with
  | .error e => .error e
  | .ok P => .ok (emitSha Gen.sha512_salt_prefix Gen.sha512_rounds_prefix P
                    (permEncode Gen.perm_sha512crypt (D.sha512crypt phrase P.salt P.rounds)))

/-! ### sunmd5 -/

structure SunParsed where
  nrounds : Nat      -- `unsigned int nrounds`, i.e. already reduced mod 2^32
  saltlen : Nat      -- length of the part of the setting that is hashed and copied
  deriving DecidableEq, Repr

def roundsEq : Bytes := [114, 111, 117, 110, 100, 115, 61]   -- "rounds="

/-- the salt part of `crypt_sunmd5_rn`'s parser, from index `p` on: the run of alphabet characters, the `$`/NUL that must
    follow it, the Solaris quirk that includes a `$` followed by `$` or NUL in the salt, and the space check -/
def sunStep2 (setting : Bytes) (nrounds p : Nat) : Except Errno SunParsed :=
  let p := p + strspn (setting.drop p) Gen.ascii64
  if cat setting p ≠ 0 ∧ cat setting p ≠ 36 then .error .EINVAL else
  let p := if cat setting p == 36 && (cat setting (p + 1) == 36 || cat setting (p + 1) == 0) then p + 1 else p
  if Gen.CRYPT_OUTPUT_SIZE < p + Gen.SUNMD5_BARE_OUTPUT_LEN + 2 then .error .ERANGE else
  .ok { nrounds := nrounds, saltlen := p }

def parseSunmd5 (setting : Bytes) : Except Errno SunParsed :=
  let pl := Gen.SUNMD5_PREFIX_LEN
  if ¬ hasPrefix setting Gen.SUNMD5_PREFIX ∨ (cat setting pl ≠ 36 ∧ cat setting pl ≠ 44) then .error .EINVAL else
  let p0 := pl + 1
  if hasPrefix (setting.drop p0) roundsEq then
    let p1 := p0 + roundsEq.length
    let c0 := cat setting p1
    if ¬ (49 ≤ c0 && c0 ≤ 57) then .error .EINVAL else
    let r := strtoul10 (setting.drop p1)
    if r.consumed = 0 ∨ r.value > Gen.SUNMD5_MAX_ROUNDS ∨ r.erange then .error .EINVAL else
    let p2 := p1 + r.consumed
    if cat setting p2 ≠ 36 then .error .EINVAL else
    sunStep2 setting ((4096 + r.value) % 2 ^ 32) (p2 + 1)
  else sunStep2 setting 4096 p0

def cryptSunmd5 (D : Digests) (phrase setting : Bytes) : CRes :=
  match parseSunmd5 setting with
  | .error e => .error e
  | .ok P =>
    let pre := setting.take P.saltlen
    .ok (pre ++ [36] ++ permEncode Gen.perm_sunmd5 (D.sunmd5 phrase pre P.nrounds))

/-! ### sha1crypt -/

def sha1Magic : Bytes := [36, 115, 104, 97, 49, 36]   -- "$sha1$"

structure Sha1Parsed where
  iterations : Nat
  salt : Bytes
  deriving DecidableEq, Repr

def parseSha1 (setting : Bytes) : Except Errno Sha1Parsed :=
  if ¬ hasPrefix setting sha1Magic then .error .EINVAL else
  let s1 := setting.drop sha1Magic.length
  let r := strtoul10 s1
  if cat s1 r.consumed ≠ 36 then .error .EINVAL else
  let s2 := s1.drop (r.consumed + 1)
  let sl := strspn s2 Gen.ascii64
  if sl = 0 ∨ (cat s2 sl ≠ 0 ∧ cat s2 sl ≠ 36) then .error .EINVAL else
  -- the complete result must fit the output field
  if sha1Magic.length + (toDec r.value).length + 1 + sl + 1 + Gen.SHA1_OUTPUT_SIZE + 1 > Gen.CRYPT_OUTPUT_SIZE then .error .ERANGE else
  .ok { iterations := r.value, salt := s2.take sl }

def cryptSha1 (D : Digests) (phrase setting : Bytes) : CRes :=
  match parseSha1 setting with
  | .error e => .error e
  | .ok P =>
    .ok (sha1Magic ++ toDec P.iterations ++ [36] ++ P.salt ++ [36] ++ sha1Encode (D.sha1crypt phrase P.salt P.iterations))

/-! ### NT -/

def ntMagic : Bytes := [36, 51, 36]   -- "$3$"

def cryptNt (D : Digests) (phrase setting : Bytes) : CRes :=
  if ¬ hasPrefix setting ntMagic then .error .EINVAL else
  .ok (ntMagic ++ [36] ++ hexLower (D.nt phrase))

/-! ### DES family -/

/-- `keybuf[i] = *phrase << 1` for the next 8 characters, zero padded -/
def desKey (phrase : Bytes) : Bytes := (padTo phrase 8).map (fun (c : UInt8) => c <<< (1 : UInt8))

def parseDesSalt (setting : Bytes) : Option Nat :=
  match asciiToBin (cat setting 0) with
  | none => none
  | some i0 =>
    match asciiToBin (cat setting 1) with
    | none => none
    | some i1 => some (i0 + i1 * 64)

def cryptDes (D : Digests) (phrase setting : Bytes) : CRes :=
  match parseDesSalt setting with
  | none => .error .EINVAL
  | some salt => .ok ([a64 salt, a64 (salt / 64)] ++ desEncode (D.desHash (desKey phrase) salt 25))

/-- the segment loop of bigcrypt: `fuel` = remaining segments (16 initially) -/
def bigSegments (D : Digests) : Nat → Bytes → Nat → Bytes
  | 0, _, _ => []
  | fuel + 1, phrase, salt =>
    let h := desEncode (D.desHash (desKey phrase) salt 25)
    let rest := phrase.drop 8
    if rest.isEmpty then h
    else
      let s0 := (asciiToBin (h.getD 0 0)).getD 0   -- outputs are ascii64 characters
      let s1 := (asciiToBin (h.getD 1 0)).getD 0
      h ++ bigSegments D fuel rest (s0 + s1 * 64)

def cryptBig (descryptOn : Bool) (D : Digests) (phrase setting : Bytes) : CRes :=
  if phrase.length > 8 ∧ setting.length ≤ 13 then
    (if descryptOn then cryptDes D phrase setting else .error .EINVAL)
  else
    match parseDesSalt setting with
    | none => .error .EINVAL
    | some salt => .ok ([a64 salt, a64 (salt / 64)] ++ bigSegments D 16 phrase salt)

/-- four characters → 24-bit value, least significant sextet first; `none` on a non-alphabet character -/
def dec24 (s : Bytes) (i : Nat) : Option Nat :=
  match asciiToBin (cat s i), asciiToBin (cat s (i + 1)), asciiToBin (cat s (i + 2)), asciiToBin (cat s (i + 3)) with
  | some a, some b, some c, some d => some (a + b * 64 + c * 4096 + d * 262144)
  | _, _, _, _ => none

def cryptBsdi (D : Digests) (phrase setting : Bytes) : CRes :=
  if cat setting 0 ≠ 95 ∨ setting.length < 9 then .error .EINVAL else
  match dec24 setting 1 with
  | none => .error .EINVAL
  | some count =>
    match dec24 setting 5 with
    | none => .error .EINVAL
    | some salt => .ok (setting.take 9 ++ desEncode (D.bsdi phrase salt count))

/-! ### bcrypt -/

/-- `BF_safe_atoi64` -/
def bfAtoi (c : UInt8) : Option Nat :=
  if c < 0x20 ∨ c ≥ 0x80 then none else
  let v := Gen.BF_atoi64.getD (c.toNat - 0x20) 64
  if v > 63 then none else some v.toNat

/-- `BF_decode (dst, src, 16)`: 22 characters → 16 bytes -/
def bfDecode16 (s : Bytes) : Option Bytes :=
  let rec go : Nat → Nat → Option Bytes
    | 0, _ => some []
    | k + 1, i =>      -- k+1 groups left; group = 4 chars → 3 bytes, the last one 2 chars → 1 byte
      if k = 0 then
        match bfAtoi (cat s i), bfAtoi (cat s (i + 1)) with
        | some c1, some c2 => some [((c1 * 4 + c2 / 16) % 256).toUInt8]
        | _, _ => none
      else
        match bfAtoi (cat s i), bfAtoi (cat s (i + 1)), bfAtoi (cat s (i + 2)), bfAtoi (cat s (i + 3)) with
        | some c1, some c2, some c3, some c4 =>
          (go k (i + 4)).map fun rest =>
            ((c1 * 4 + c2 / 16) % 256).toUInt8 :: (((c2 % 16) * 16 + c3 / 4) % 256).toUInt8 ::
            (((c3 % 4) * 64 + c4) % 256).toUInt8 :: rest
        | _, _, _, _ => none
  go 6 0

structure BfParsed where
  flags : Nat
  cost : Nat        -- log2 of the iteration count
  salt : Bytes      -- 16 bytes
  deriving DecidableEq, Repr

def parseBf (setting : Bytes) : Option BfParsed :=
  let s (i : Nat) := cat setting i
  if s 0 ≠ 36 ∨ s 1 ≠ 50 ∨ s 2 < 97 ∨ s 2 > 122 then none else
  let flags := (Gen.flags_by_subtype.getD ((s 2).toNat - 97) 0).toNat
  if flags = 0 ∨ s 3 ≠ 36 ∨ s 4 < 48 ∨ s 4 > 51 ∨ s 5 < 48 ∨ s 5 > 57 ∨ (s 4 = 51 ∧ s 5 > 49) ∨ s 6 ≠ 36 then none else
  let cost := ((s 4).toNat - 48) * 10 + ((s 5).toNat - 48)
  -- count = 1 << cost; count < min (16)
  if 2 ^ cost < 16 then none else
  match bfDecode16 (setting.drop 7) with
  | none => none
  | some salt => some { flags := flags, cost := cost, salt := salt }

def cryptBf (D : Digests) (phrase setting : Bytes) : CRes :=
  match parseBf setting with
  | none => .error .EINVAL
  | some P =>
    if ¬ D.bfSelfTest P.flags then .error .EINVAL else
    let c22 := bf64 (((bfAtoi (cat setting (Gen.BF_SETTING_LENGTH - 1))).getD 0) / 16 * 16)   -- & 0x30
    .ok (setting.take (Gen.BF_SETTING_LENGTH - 1) ++ [c22] ++ bfEncode (D.bf P.flags P.cost P.salt phrase))

/-! ### yescrypt / scrypt / gost-yescrypt -/

/-- alg-yescrypt-common.c `atoi64` (64 = invalid) -/
def yAtoi (c : UInt8) : Nat :=
  if 46 ≤ c ∧ c ≤ 122 then (Gen.atoi64_partial.getD (c.toNat - 46) 64).toNat else 64

/-- `decode64_uint32 (&dst, src, min)`: returns (value, characters consumed) -/
def yDec32 (s : Bytes) (i : Nat) (min : Nat) : Option (Nat × Nat) :=
  let c := yAtoi (cat s i)
  if c > 63 then none else
  -- walk the range table
  let rec walk : Nat → Nat → Nat → Nat → Nat → Nat → (Nat × Nat × Nat × Nat)
    | 0, dst, start, _, chars, bits => (dst, start, chars, bits)
    | fuel + 1, dst, start, end_, chars, bits =>
      if c > end_ then
        walk fuel (dst + (end_ + 1 - start) * 2 ^ bits) (end_ + 1) (end_ + 1 + (62 - end_) / 2) (chars + 1) (bits + 6)
      else (dst, start, chars, bits)
  let (dst, start, chars, bits) := walk 8 min 0 47 1 0
  let dst := dst + (c - start) * 2 ^ bits
  let rec tail : Nat → Nat → Nat → Nat → Option Nat
    | 0, _, _, dst => some dst
    | k + 1, j, bits, dst =>
      let c := yAtoi (cat s j)
      if c > 63 then none else tail k (j + 1) (bits - 6) (dst + c * 2 ^ (bits - 6))
  match tail (chars - 1) (i + 1) bits dst with
  | none => none
  | some v => some (v % 2 ^ 32, chars)

/-- `decode64_uint32_fixed (&dst, 30, src)`: five characters -/
def yDecFixed30 (s : Bytes) (i : Nat) : Option Nat :=
  let cs := (List.range 5).map fun k => yAtoi (cat s (i + k))
  if cs.any (· > 63) then none
  else some ((cs.zipIdx.foldl (fun acc (c, k) => acc + c * 64 ^ k) 0) % 2 ^ 32)

/-- `decode64 (dst, &64, src, srclen)` on a string all of whose characters are followed by `$`/NUL:
    groups of 4 characters → 3 bytes; a final group of 3 (2) characters → 2 (1) bytes whose
    left-over bits must be zero; a final single character, an invalid character or more than
    `maxlen` bytes fail -/
def yDecode64 (src : Bytes) (maxlen : Nat) : Option Bytes :=
  if src.any (fun c => yAtoi c > 63) then none else
  let rec go : Nat → Bytes → Option Bytes
    | 0, _ => none
    | fuel + 1, l =>
      match l with
      | [] => some []
      | [_] => none
      | [a, b] =>
        let v := yAtoi a + yAtoi b * 64
        if v / 256 ≠ 0 then none else some [(v % 256).toUInt8]
      | [a, b, c] =>
        let v := yAtoi a + yAtoi b * 64 + yAtoi c * 4096
        if v / 65536 ≠ 0 then none else some [(v % 256).toUInt8, (v / 256 % 256).toUInt8]
      | a :: b :: c :: d :: rest =>
        let v := yAtoi a + yAtoi b * 64 + yAtoi c * 4096 + yAtoi d * 262144
        (go fuel rest).map fun r => (v % 256).toUInt8 :: (v / 256 % 256).toUInt8 :: (v / 65536 % 256).toUInt8 :: r
  match go (src.length + 1) src with
  | none => none
  | some out => if out.length > maxlen then none else some out

structure YParsed where
  params : YParams
  prefixlen : Nat
  saltstrlen : Nat
  salt : Bytes          -- the bytes handed to the KDF
  deriving DecidableEq, Repr

/-- the salt part of `yescrypt_r`'s parser: everything after the parameters -/
def yFinish (setting : Bytes) (buflen : Nat) (P : YParams) (prefixlen : Nat) : Option YParsed :=
  let saltstr := setting.drop prefixlen
  let saltstrlen := match strrchr saltstr 36 with | some k => k | none => saltstr.length
  let salt? : Option Bytes :=
    if cat setting 1 = 55 then some (saltstr.take saltstrlen)
    else yDecode64 (saltstr.take saltstrlen) 64
  match salt? with
  | none => none
  | some salt =>
    let need := prefixlen + saltstrlen + 1 + Gen.YESCRYPT_HASH_LEN + 1
    if need > buflen then none else
    some { params := P, prefixlen := prefixlen, saltstrlen := saltstrlen, salt := salt }

/-- one optional field (p, t, g, NROM) of the `$y$` parameter string: (value, index after it) -/
def yOpt (setting : Bytes) (cond : Bool) (i min dflt : Nat) : Option (Nat × Nat) :=
  if cond then (yDec32 setting i min).map fun (v, n) => (v, i + n) else some (dflt, i)

/-- the parameter part: (parameters, length of the prefix that holds them) -/
def yParams (setting : Bytes) : Option (YParams × Nat) :=
  let s (i : Nat) := cat setting i
  if s 0 ≠ 36 ∨ (s 1 ≠ 55 ∧ s 1 ≠ 121) ∨ s 2 ≠ 36 then none else
  if s 1 = 55 then
    let nlog := yAtoi (s 3)
    if nlog < 1 ∨ nlog > 63 then none else
    match yDecFixed30 setting 4, yDecFixed30 setting 9 with
    | some r, some p => some ({ flags := 0, N := 2 ^ nlog, r := r, p := p, t := 0, g := 0, NROM := 0 }, 14)
    | _, _ => none
  else
    match yDec32 setting 3 0 with
    | none => none
    | some (flavor, n1) =>
      let flags? : Option Nat :=
        if flavor < Gen.YESCRYPT_RW then some flavor
        else if flavor ≤ Gen.YESCRYPT_RW + Gen.YESCRYPT_RW_FLAVOR_MASK / 4 then some (Gen.YESCRYPT_RW + (flavor - Gen.YESCRYPT_RW) * 4)
        else none
      match flags? with
      | none => none
      | some flags =>
        let i1 := 3 + n1
        match yDec32 setting i1 1 with
        | none => none
        | some (nlog, n2) =>
          if nlog > 63 then none else
          let i2 := i1 + n2
          match yDec32 setting i2 1 with
          | none => none
          | some (r, n3) =>
            let i3 := i2 + n3
            if s i3 = 36 then
              some ({ flags := flags, N := 2 ^ nlog, r := r, p := 1, t := 0, g := 0, NROM := 0 }, i3 + 1)
            else
              match yDec32 setting i3 1 with
              | none => none
              | some (have_, n4) =>
                let i4 := i3 + n4
                match yOpt setting (have_ % 2 = 1) i4 2 1 with
                | none => none
                | some (p, i5) =>
                  match yOpt setting (have_ / 2 % 2 = 1) i5 1 0 with
                  | none => none
                  | some (t, i6) =>
                    match yOpt setting (have_ / 4 % 2 = 1) i6 1 0 with
                    | none => none
                    | some (g, i7) =>
                      match yOpt setting (have_ / 8 % 2 = 1) i7 1 0 with
                      | none => none
                      | some (nromlog, i8) =>
                        if have_ / 8 % 2 = 1 ∧ nromlog > 63 then none else
                        if s i8 ≠ 36 then none else
                        some ({ flags := flags, N := 2 ^ nlog, r := r, p := p, t := t, g := g,
                                 NROM := if have_ / 8 % 2 = 1 then 2 ^ nromlog else 0 }, i8 + 1)

/-- the parameter/salt parser of `yescrypt_r` (setting[1] ∈ {'7','y'}), including the `need > buflen` test:
    the parameters (read below `prefixlen`), then the salt string up to the last `$` -/
def parseYescrypt (setting : Bytes) (buflen : Nat) : Option YParsed :=
  match yParams setting with
  | none => none
  | some (P, prefixlen) => yFinish setting buflen P prefixlen

/-- the parameter sanity checks of `yescrypt_kdf` / `yescrypt_kdf_body` (no ROM: `shared == NULL`),
    i.e. everything that makes the KDF fail before it allocates memory -/
def yesKdfParamsOk (P : YParams) : Bool :=
  let sizeMax := 2 ^ 64 - 1
  let modeOk : Bool :=
    if P.flags % 4 = 0 then P.flags = 0 && P.t = 0 && P.NROM = 0
    else if P.flags % 4 = Gen.YESCRYPT_WORM then P.flags = Gen.YESCRYPT_WORM && P.NROM = 0
    else if P.flags % 4 = Gen.YESCRYPT_RW then
      P.flags = Gen.YESCRYPT_RW + (Gen.YESCRYPT_ROUNDS_6 + Gen.YESCRYPT_GATHER_4 + Gen.YESCRYPT_SIMPLE_2 + Gen.YESCRYPT_SBOX_12K)
    else false
  P.g = 0 && modeOk && decide (P.r * P.p < 2 ^ 30) && decide (P.N ≤ UINT_MAX) && decide (P.N > 3) && decide (P.r ≥ 1) && decide (P.p ≥ 1)
    && decide (P.r ≤ sizeMax / 256 / P.p) && decide (P.N ≤ sizeMax / 128 / P.r)
    && (if P.flags % 4 = Gen.YESCRYPT_RW then decide (P.N / P.p > 3) else true)
    && P.NROM = 0

/-- bytes of memory the KDF maps for these parameters (`need` in `yescrypt_kdf_body`, Salloc = 12288 + 64) -/
def yesKdfMemory (P : YParams) : Nat :=
  128 * P.r * P.N + 128 * P.r * P.p + 256 * P.r + (if P.flags % 4 = Gen.YESCRYPT_RW then (12288 + 64) * P.p else 0)

/-- `yescrypt_r (NULL, local, phrase, setting, NULL, buf, buflen)`; `none` = NULL -/
def yescryptR (D : Digests) (phrase setting : Bytes) (buflen : Nat) : Option Bytes :=
  match parseYescrypt setting buflen with
  | none => none
  | some P =>
    match D.yescrypt P.params P.salt phrase with
    | none => none
    | some h =>
      let out := setting.take (P.prefixlen + P.saltstrlen) ++ [36] ++ encode64 h
      if out.length ≥ buflen then none else some out

/-- `crypt_yescrypt_rn` (reached for `$y$` and, through `crypt_scrypt_rn`, for `$7$`) -/
def cryptYescryptCore (D : Digests) (phrase setting : Bytes) : CRes :=
  match yescryptR D phrase setting Gen.CRYPT_OUTPUT_SIZE with
  | none => .error .EINVAL
  | some out => .ok out

/-- crypt-scrypt.c `check_salt_char` -/
def scryptSaltChar (c : UInt8) : Bool :=
  if c > 122 then false else if c ≥ 97 then true else if c > 90 then false else if c ≥ 65 then true
  else if c > 57 then false else if c ≥ 46 ∨ c = 36 then true else false

/-- crypt-scrypt.c `verify_salt` -/
def scryptVerifySalt (setting : Bytes) : Bool :=
  let rec go : Nat → Nat → Bool
    | 0, _ => true
    | fuel + 1, i =>
      if i < setting.length then
        -- properly terminated salt: what follows is not examined, except that it must not contain another '$'
        if ¬ scryptSaltChar (cat setting i) then (cat setting (i - 1) == 36) && !((setting.drop i).contains 36)
        else go fuel (i + 1)
      else true
  go (setting.length + 1) 14

def cryptScrypt (D : Digests) (phrase setting : Bytes) : CRes :=
  if ¬ hasPrefix setting [36, 55, 36] ∨ ¬ scryptVerifySalt setting then .error .EINVAL else
  cryptYescryptCore D phrase setting

def cryptYescrypt (D : Digests) (phrase setting : Bytes) : CRes := cryptYescryptCore D phrase setting

def cryptGost (D : Digests) (phrase setting : Bytes) : CRes :=
  if Gen.CRYPT_OUTPUT_SIZE < setting.length + 1 + 43 + 1 then .error .ERANGE else
  if ¬ hasPrefix setting [36, 103, 121, 36] then .error .EINVAL else
  let gsetting := [36, 121, 36] ++ setting.drop 4
  match yescryptR D phrase gsetting (Gen.CRYPT_OUTPUT_SIZE - 1) with
  | none => .error .EINVAL
  | some y =>
    -- "$y$params$salt$hash": the hash starts after the second '$' that follows the tag
    match strchr (y.drop 3) 36 with
    | none => .error .EINVAL
    | some k1 =>
      match strchr (y.drop (3 + k1 + 1)) 36 with
      | none => .error .EINVAL
      | some k2 =>
        let hoff := 3 + k1 + 1 + k2 + 1
        match yDecode64 (y.drop hoff) 32 with
        | none => .error .EINVAL
        | some yb =>
          if yb.length ≠ 32 then .error .EINVAL else
          let g := D.gostOuter phrase (setting.take hoff) yb
          .ok ([36, 103] ++ (y.take hoff).drop 1 ++ encode64 g)

/-! ### dispatch on the method -/

def cryptMethod (descryptOn : Bool) (D : Digests) (m : Method) (phrase setting : Bytes) : CRes :=
  match m with
  | .yescrypt => cryptYescrypt D phrase setting
  | .gost_yescrypt => cryptGost D phrase setting
  | .scrypt => cryptScrypt D phrase setting
  | .bcrypt | .bcrypt_y | .bcrypt_a | .bcrypt_x => cryptBf D phrase setting
  | .sha512crypt => cryptSha512 D phrase setting
  | .sha256crypt => cryptSha256 D phrase setting
  | .sha1crypt => cryptSha1 D phrase setting
  | .sunmd5 => cryptSunmd5 D phrase setting
  | .md5crypt => cryptMd5 D phrase setting
  | .nt => cryptNt D phrase setting
  | .bsdicrypt => cryptBsdi D phrase setting
  | .bigcrypt => cryptBig descryptOn D phrase setting
  | .descrypt => cryptDes D phrase setting

/-- `do_crypt` up to the method call: the pure function of (phrase, setting) that all four entry points compute -/
def cryptPure (cfg : Config) (D : Digests) (phrase setting : Bytes) : CRes :=
  if phrase.length ≥ Gen.CRYPT_MAX_PASSPHRASE_SIZE then .error .ERANGE else
  if checkBadSaltChars setting then .error .EINVAL else
  match getHashFn cfg.table setting with
  | none => .error .EINVAL
  | some h => cryptMethod cfg.descryptOn D h.crypt phrase setting

end Xc

/- MD5 (RFC 1321) and MD4 (RFC 1320): step schedules and initial states from the tree
   (Gen.md5_steps, Gen.md4_steps: the STEP(...) statement sequences of alg-md5.c / alg-md4.c). -/
import Xc.Prim.MD
import Xc.Prim.Bits
import Xc.Gen.Words
namespace Xc.Md5
open Xc

abbrev State := Array UInt32

def fn5 (f : Nat) (x y z : UInt32) : UInt32 :=
  match f with
  | 0 => z ^^^ (x &&& (y ^^^ z))       -- F
  | 1 => y ^^^ (z &&& (x ^^^ y))       -- G
  | 2 => x ^^^ y ^^^ z                 -- H, H2
  | _ => y ^^^ (x ||| ~~~ z)           -- I

def fn4 (f : Nat) (x y z : UInt32) : UInt32 :=
  match f with
  | 0 => z ^^^ (x &&& (y ^^^ z))                   -- F
  | 1 => (x &&& (y ||| z)) ||| (y &&& z)           -- G
  | _ => x ^^^ y ^^^ z                             -- H

/-- one `STEP (f, a, b, c, d, x, t, s)`; MD5 adds `b` after the rotation, MD4 does not -/
def stepGen (fn : Nat → UInt32 → UInt32 → UInt32 → UInt32) (addB : Bool) (x : Array UInt32) (r : State)
    (s : Nat × Nat × Nat × Nat × Nat × Nat × UInt32 × Nat) : State :=
  let (f, ia, ib, ic, id, ix, t, sh) := s
  let v := r[ia]! + fn f r[ib]! r[ic]! r[id]! + x[ix]! + t
  let v := rotl32 v sh.toUInt32
  r.set! ia (if addB then v + r[ib]! else v)

def compressGen (fn : Nat → UInt32 → UInt32 → UInt32 → UInt32) (addB : Bool)
    (steps : List (Nat × Nat × Nat × Nat × Nat × Nat × UInt32 × Nat)) (st : State) (block : Bytes) : State :=
  let blk := block.toArray
  let x : Array UInt32 := (Array.range 16).map fun i => ale32 blk (4 * i)
  let r := steps.foldl (stepGen fn addB x) st
  #[st[0]! + r[0]!, st[1]! + r[1]!, st[2]! + r[2]!, st[3]! + r[3]!]

def alg : MD.Alg State :=
  { block := 64, lenBytes := 8, bigEndian := false, iv := Gen.md5_iv.toArray,
    compress := compressGen fn5 true Gen.md5_steps, out := fun s => s.toList.flatMap toLe32 }

def hash (m : Bytes) : Bytes := MD.hash alg m

end Xc.Md5

namespace Xc.Md4
open Xc
def alg : MD.Alg Md5.State :=
  { block := 64, lenBytes := 8, bigEndian := false, iv := Gen.md4_iv.toArray,
    compress := Md5.compressGen Md5.fn4 false Gen.md4_steps, out := fun s => s.toList.flatMap toLe32 }
def hash (m : Bytes) : Bytes := MD.hash alg m
end Xc.Md4

/- SHA-256 (FIPS 180-4 §6.2), constants from the tree (Gen.sha256_K, Gen.sha256_iv). -/
import Xc.Prim.MD
import Xc.Prim.Bits
import Xc.Gen.Words
namespace Xc.Sha256
open Xc

abbrev State := Array UInt32

def K : Array UInt32 := Gen.sha256_K.toArray
def iv : State := Gen.sha256_iv.toArray

def schedule (block : Bytes) : Array UInt32 := Id.run do
  let mut w : Array UInt32 := Array.mkEmpty 64
  let blk := block.toArray
  for i in [0:16] do w := w.push (abe32 blk (4 * i))
  for i in [16:64] do
    let x15 := w[i - 15]!; let x2 := w[i - 2]!
    let s0 := rotr32 x15 7 ^^^ rotr32 x15 18 ^^^ (x15 >>> 3)
    let s1 := rotr32 x2 17 ^^^ rotr32 x2 19 ^^^ (x2 >>> 10)
    w := w.push (w[i - 16]! + s0 + w[i - 7]! + s1)
  return w

def compress (st : State) (block : Bytes) : State := Id.run do
  let w := schedule block
  let mut a := st[0]!; let mut b := st[1]!; let mut c := st[2]!; let mut d := st[3]!
  let mut e := st[4]!; let mut f := st[5]!; let mut g := st[6]!; let mut h := st[7]!
  for i in [0:64] do
    let S1 := rotr32 e 6 ^^^ rotr32 e 11 ^^^ rotr32 e 25
    let ch := (e &&& f) ^^^ ((~~~ e) &&& g)
    let t1 := h + S1 + ch + K[i]! + w[i]!
    let S0 := rotr32 a 2 ^^^ rotr32 a 13 ^^^ rotr32 a 22
    let maj := (a &&& b) ^^^ (a &&& c) ^^^ (b &&& c)
    let t2 := S0 + maj
    h := g; g := f; f := e; e := d + t1; d := c; c := b; b := a; a := t1 + t2
  return #[st[0]! + a, st[1]! + b, st[2]! + c, st[3]! + d, st[4]! + e, st[5]! + f, st[6]! + g, st[7]! + h]

def alg : MD.Alg State :=
  { block := 64, lenBytes := 8, bigEndian := true, iv := iv, compress := compress,
    out := fun s => s.toList.flatMap toBe32 }

def hash (m : Bytes) : Bytes := MD.hash alg m

end Xc.Sha256

/-
  Generic Merkle–Damgård machinery shared by MD4, MD5, SHA-1, SHA-256, SHA-512:
  * `hash`   — the published one-shot definition: pad, split into blocks, fold `compress`;
  * `Ctx`    — the streaming context of the C code (`state`, partial-block buffer, byte count)
               with `update` / `final` in the shape of the C functions.
  The theorem that the two agree for every chunking is in Xc/Lemmas/MD.lean (C16).
  Byte counters are unbounded naturals here; the C's split counters (`lo/hi`, `count[2]`)
  are exercised by the correspondence only.
-/
import Xc.Base

namespace Xc.MD

structure Alg (σ : Type) where
  block : Nat                 -- block size in bytes (64 or 128)
  lenBytes : Nat              -- size of the length field (8 or 16)
  bigEndian : Bool            -- byte order of the length field
  iv : σ
  compress : σ → Bytes → σ    -- one block
  out : σ → Bytes

/-- `n` as `k` bytes, little endian -/
def leBytes (n k : Nat) : Bytes := (List.range k).map fun i => (n / 256 ^ i % 256).toUInt8

def lenField {σ} (A : Alg σ) (bits : Nat) : Bytes :=
  if A.bigEndian then (leBytes bits A.lenBytes).reverse else leBytes bits A.lenBytes

/-- number of zero bytes between the 0x80 marker and the length field -/
def zeroPad (block lenBytes len : Nat) : Nat :=
  (block - (len + 1 + lenBytes) % block) % block

def padding {σ} (A : Alg σ) (len : Nat) : Bytes :=
  0x80 :: List.replicate (zeroPad A.block A.lenBytes len) 0 ++ lenField A (8 * len)

/-- fold `compress` over the complete blocks of `m`; a trailing partial block is ignored -/
def absorb {σ} (A : Alg σ) (s : σ) (m : Bytes) : σ :=
  if h : A.block = 0 ∨ m.length < A.block then s
  else absorb A (A.compress s (m.take A.block)) (m.drop A.block)
termination_by m.length
decreasing_by simp only [List.length_drop]; omega

/-- the one-shot definition of the hash -/
def hash {σ} (A : Alg σ) (m : Bytes) : Bytes :=
  A.out (absorb A A.iv (m ++ padding A m.length))

/-- streaming context -/
structure Ctx (σ : Type) where
  st : σ
  buf : Bytes      -- fewer than `block` bytes
  count : Nat      -- bytes fed so far

def init {σ} (A : Alg σ) : Ctx σ := { st := A.iv, buf := [], count := 0 }

/-- `*_Update (ctx, data, size)`: top up a partial block, run the bulk, keep the tail -/
def update {σ} (A : Alg σ) (c : Ctx σ) (data : Bytes) : Ctx σ :=
  let all := c.buf ++ data
  let nfull := all.length / A.block
  { st := absorb A c.st (all.take (nfull * A.block)),
    buf := all.drop (nfull * A.block),
    count := c.count + data.length }

/-- `*_Final`: append the padding for `count` bytes, emit the state -/
def final {σ} (A : Alg σ) (c : Ctx σ) : Bytes :=
  A.out (absorb A c.st (c.buf ++ padding A c.count))

end Xc.MD

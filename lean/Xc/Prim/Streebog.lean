/-
  GOST R 34.11-2012 (Streebog) as in alg-gost3411-2012-core.c (portable XLPS formulation with the
  precomputed tables Ax, C taken from the tree), and HMAC_GOSTR3411_2012_256 (alg-gost3411-2012-hmac.c).
-/
import Xc.Prim.Bits
import Xc.Prim.MD
import Xc.Gen.Words
namespace Xc.Streebog
open Xc

abbrev V512 := Array UInt64    -- 8 little-endian quadwords

def Ax : Array (Array UInt64) := (Gen.gost_Ax.map List.toArray).toArray
def Cst : Array V512 := (Gen.gost_C.map List.toArray).toArray

def xlps (x y : V512) : V512 := Id.run do
  let r : V512 := Array.zipWith (· ^^^ ·) x y
  let mut d : V512 := Array.mkEmpty 8
  for i in [0:8] do
    let mut v : UInt64 := 0
    for k in [0:8] do
      v := v ^^^ (Ax[k]!)[((r[k]! >>> (8 * i).toUInt64) &&& 0xff).toNat]!
    d := d.push v
  return d

def xor512 (x y : V512) : V512 := Array.zipWith (· ^^^ ·) x y

def g (h N m : V512) : V512 := Id.run do
  let mut data := xlps h N
  let mut ki := data
  data := xlps ki m
  for i in [0:11] do
    ki := xlps ki Cst[i]!
    data := xlps ki data
  ki := xlps ki Cst[11]!
  data := xor512 ki data
  data := xor512 data h
  return xor512 data m

def toNat512 (x : V512) : Nat := (List.range 8).foldl (fun acc i => acc + (x[i]!).toNat * 2 ^ (64 * i)) 0
def ofNat512 (n : Nat) : V512 := (Array.range 8).map fun i => (n / 2 ^ (64 * i) % 2 ^ 64).toUInt64
/-- `add512`: addition modulo 2^512 -/
def add512 (x y : V512) : V512 := ofNat512 ((toNat512 x + toNat512 y) % 2 ^ 512)

def le64 (b : Array UInt8) (i : Nat) : UInt64 :=
  (List.range 8).foldl (fun acc k => acc ||| ((b[i + k]!).toUInt64 <<< (8 * k).toUInt64)) 0

def blockOf (b : Bytes) : V512 :=
  let a := (b ++ List.replicate (64 - b.length) 0).toArray
  (Array.range 8).map fun i => le64 a (8 * i)

structure St where
  h : V512
  N : V512
  sigma : V512

def init256 : St := { h := Array.replicate 8 0x0101010101010101, N := Array.replicate 8 0, sigma := Array.replicate 8 0 }

def stage2 (s : St) (blk : Bytes) : St :=
  let m := blockOf blk
  { h := g s.h s.N m, N := add512 s.N (ofNat512 512), sigma := add512 s.sigma m }

def absorb (s : St) (m : Bytes) : St × Bytes :=
  if h : m.length < 64 then (s, m) else absorb (stage2 s (m.take 64)) (m.drop 64)
termination_by m.length
decreasing_by simp only [List.length_drop]; omega

/-- stage 3 (`GOST34112012Final` up to the output copy): pad the partial block, fold in `N` and `Sigma` -/
def finalH (s : St) (rest : Bytes) : V512 :=
  let padded := rest ++ [1] ++ List.replicate (63 - rest.length) 0
  let m := blockOf padded
  let h := g s.h s.N m
  let N := add512 s.N (ofNat512 (8 * rest.length))
  let sigma := add512 s.sigma m
  let h := g h (Array.replicate 8 0) N
  g h (Array.replicate 8 0) sigma

def wordBytes (h : V512) (i : Nat) : Bytes := (List.range 8).map fun k => ((h[i]! >>> (8 * k).toUInt64) &&& 0xff).toUInt8

/-- the 256-bit digest is the upper half of the state, the 512-bit digest all of it -/
def final256 (s : St) (rest : Bytes) : Bytes := let h := finalH s rest; (List.range 4).flatMap fun i => wordBytes h (4 + i)
def final512 (s : St) (rest : Bytes) : Bytes := let h := finalH s rest; (List.range 8).flatMap fun i => wordBytes h i

def init512 : St := { h := Array.replicate 8 0, N := Array.replicate 8 0, sigma := Array.replicate 8 0 }

def hash256 (m : Bytes) : Bytes :=
  let (s, rest) := absorb init256 m
  final256 s rest

def hash512 (m : Bytes) : Bytes :=
  let (s, rest) := absorb init512 m
  final512 s rest

/-! ### the streaming interface (`GOST34112012Init/Update/Final`) in the generic context of Xc/Prim/MD.lean -/

/-- `GOST34112012Update` tops up the 64-byte buffer, runs `stage2` on every complete block and keeps the tail: exactly `MD.update`.
    The padding fields of `MD.Alg` are not used (Streebog finishes with `finalH`, not with Merkle–Damgård strengthening). -/
def alg (iv : St) : MD.Alg St := { block := 64, lenBytes := 0, bigEndian := false, iv := iv, compress := stage2, out := fun _ => [] }

def streamed256 (chunks : List Bytes) : Bytes :=
  let c := chunks.foldl (MD.update (alg init256)) (MD.init (alg init256)); final256 c.st c.buf
def streamed512 (chunks : List Bytes) : Bytes :=
  let c := chunks.foldl (MD.update (alg init512)) (MD.init (alg init512)); final512 c.st c.buf

/-- `gost_hmac256 (k, n, t, len, out32)` for 32 ≤ n ≤ 64 -/
def hmac256 (k t : Bytes) : Bytes :=
  let kstar := (List.range 64).map fun i => k.getD i 0
  let inner := hash256 (kstar.map (· ^^^ 0x36) ++ t)
  hash256 (kstar.map (· ^^^ 0x5c) ++ inner)

/-- the outer construction of gost-yescrypt -/
def gostOuter (phrase settingPrefix y : Bytes) : Bytes :=
  let hk := hash256 phrase
  let interm := hmac256 hk settingPrefix
  hmac256 interm y

end Xc.Streebog
